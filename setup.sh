#!/bin/bash
# Builds the driver and pre-compiles every check's test binary (offline).
set -e
cd "$(dirname "$0")"
export GOFLAGS=-mod=mod GOPROXY=off GOSUMDB=off GOTOOLCHAIN=local
mkdir -p bin evidence
go build -o bin/vcheck ./cmd/vcheck
for d in checks/c*/; do
  id=$(basename "$d")
  go test -c -tags verif -vet=off -o "bin/$id.test" "./$d" >/dev/null
done
# race-enabled checks are compiled with -race by the driver; warm that cache too
if [ -d checks/c20 ]; then go test -c -race -tags verif -vet=off -o bin/c20.test ./checks/c20 >/dev/null; fi
echo setup ok
