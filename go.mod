module verif

go 1.23

toolchain go1.23.5

require (
	github.com/q191201771/lal v0.0.0
	github.com/q191201771/naza v0.30.49
	pgregory.net/rapid v1.3.0
)

replace github.com/q191201771/lal => /repo
