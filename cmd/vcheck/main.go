// vcheck is the driver of the /verif checks.
//
//	vcheck run <ID> [--tier quick|thorough]
//	vcheck replay <ID> <path>
//	vcheck list
//
// Exit codes: 0 = the property held on everything explored (known findings are
// printed as KNOWN-FINDING lines); 1 = a violation not listed in
// known_findings.json (a line `VIOLATION property=<id> replay=<path>` is
// printed); 2 = inconclusive (build failure, timeout, harness error).
package main

import (
	"bytes"
	"context"
	"encoding/json"
	"fmt"
	"os"
	"os/exec"
	"path/filepath"
	"sort"
	"strconv"
	"strings"
	"sync"
	"time"
)

type fuzzTarget struct {
	Target  string `json:"target"`
	Seconds int    `json:"seconds"`
}

type checkCfg struct {
	Pkg             string       `json:"pkg"`
	ShardsQuick     int          `json:"shards_quick"`
	ShardsThorough  int          `json:"shards_thorough"`
	Race            bool         `json:"race"`
	TimeoutQuick    int          `json:"timeout_quick_s"`
	TimeoutThorough int          `json:"timeout_thorough_s"`
	Fuzz            []fuzzTarget `json:"fuzz"`
	Rule            string       `json:"rule"`
	Assumptions     []string     `json:"assumptions"`
	MemLimitMB      int          `json:"mem_limit_mb"`
}

type knownFinding struct {
	Property  string `json:"property"`
	Status    string `json:"status"`
	Signature string `json:"signature"`
	Commit    string `json:"commit,omitempty"`
	What      string `json:"what"`
	Replay    string `json:"replay,omitempty"`
}

type violation struct {
	Sig    string `json:"sig"`
	Detail string `json:"detail"`
}

type shardStats struct {
	Property      string                     `json:"property"`
	Sub           string                     `json:"sub"`
	Shard         int                        `json:"shard"`
	Evaluations   int                        `json:"evaluations"`
	NonTrivial    int                        `json:"nontrivial"`
	Hashes        []string                   `json:"hashes"`
	Labels        map[string]int             `json:"labels"`
	Samples       []json.RawMessage          `json:"samples"`
	LabelSamples  map[string]json.RawMessage `json:"label_samples"`
	ExcludedKnown map[string]int             `json:"excluded_known"`
	Violations    []violation                `json:"violations"`
	Replays       []string                   `json:"replays"`
	WallS         float64                    `json:"wall_s"`
	Requested     int                        `json:"requested"`
	Extra         map[string]int             `json:"extra"`
}

var root = "/verif"

func goEnv() []string {
	env := os.Environ()
	env = append(env, "GOFLAGS=-mod=mod", "GOPROXY=off", "GOSUMDB=off", "GOTOOLCHAIN=local", "VERIF_ROOT="+root)
	return env
}

func loadCfg() map[string]checkCfg {
	// one fragment per check: checks/cNN/check.json {"id": "CNN", ...}
	files, _ := filepath.Glob(filepath.Join(root, "checks", "*", "check.json"))
	m := map[string]checkCfg{}
	for _, f := range files {
		b, err := os.ReadFile(f)
		if err != nil {
			fatal2("cannot read %s: %v", f, err)
		}
		var c struct {
			ID string `json:"id"`
			checkCfg
		}
		if err := json.Unmarshal(b, &c); err != nil {
			fatal2("bad %s: %v", f, err)
		}
		if c.Pkg == "" {
			c.Pkg = "./checks/" + filepath.Base(filepath.Dir(f))
		}
		m[c.ID] = c.checkCfg
	}
	if len(m) == 0 {
		fatal2("no checks/*/check.json found under %s", root)
	}
	return m
}

func loadKnown() []knownFinding {
	b, err := os.ReadFile(filepath.Join(root, "known_findings.json"))
	if err != nil {
		return nil
	}
	var f struct {
		Findings []knownFinding `json:"findings"`
	}
	if err := json.Unmarshal(b, &f); err != nil {
		fatal2("bad known_findings.json: %v", err)
	}
	return f.Findings
}

func fatal2(format string, a ...interface{}) {
	fmt.Printf("INCONCLUSIVE: "+format+"\n", a...)
	os.Exit(2)
}

func main() {
	if r := os.Getenv("VERIF_ROOT"); r != "" {
		root = r
	} else if exe, err := os.Executable(); err == nil {
		// bin/vcheck -> root
		d := filepath.Dir(filepath.Dir(exe))
		if _, err := os.Stat(filepath.Join(d, "checks")); err == nil {
			root = d
		}
	}
	if len(os.Args) < 2 {
		fmt.Println("usage: vcheck run <ID> [--tier quick|thorough] | replay <ID> <path> | list")
		os.Exit(2)
	}
	switch os.Args[1] {
	case "list":
		cfg := loadCfg()
		var ids []string
		for k := range cfg {
			ids = append(ids, k)
		}
		sort.Strings(ids)
		for _, id := range ids {
			fmt.Println(id, cfg[id].Pkg)
		}
	case "run":
		if len(os.Args) < 3 {
			fatal2("run needs an id")
		}
		tier := os.Getenv("VERIF_TIER")
		for i := 3; i < len(os.Args); i++ {
			if os.Args[i] == "--tier" && i+1 < len(os.Args) {
				tier = os.Args[i+1]
			}
		}
		if tier != "thorough" {
			tier = "quick"
		}
		os.Exit(run(os.Args[2], tier))
	case "replay":
		if len(os.Args) < 4 {
			fatal2("replay needs an id and a path")
		}
		os.Exit(replayCmd(os.Args[2], os.Args[3]))
	default:
		fatal2("unknown command %s", os.Args[1])
	}
}

// altTag names the scratch tree of a VERIF_REPO run ("" for /repo): scratch runs keep their binary, module file,
// statistics, evidence and replays apart, so that they can run beside a run on /repo itself.
func altTag() string {
	alt := os.Getenv("VERIF_REPO")
	if alt == "" {
		return ""
	}
	return "-alt-" + strings.Map(func(r rune) rune {
		if r == '/' || r == ' ' {
			return '_'
		}
		return r
	}, strings.Trim(alt, "/"))
}

func build(id string, c checkCfg) (string, error) {
	_ = os.MkdirAll(filepath.Join(root, "bin"), 0o755)
	out := filepath.Join(root, "bin", strings.ToLower(id)+".test")
	args := []string{"test", "-c", "-tags", "verif", "-vet=off", "-o", out}
	// VERIF_REPO=<dir> builds against another copy of the lal tree (used by the
	// sensitivity scripts on scratch copies; the registered commands never set it)
	if alt := os.Getenv("VERIF_REPO"); alt != "" {
		b, err := os.ReadFile(filepath.Join(root, "go.mod"))
		if err != nil {
			return "", err
		}
		mf := filepath.Join(root, "bin", strings.ToLower(id)+altTag()+".mod")
		nb := strings.Replace(string(b), "=> /repo", "=> "+alt, 1)
		if err := os.WriteFile(mf, []byte(nb), 0o644); err != nil {
			return "", err
		}
		sum, _ := os.ReadFile(filepath.Join(root, "go.sum"))
		_ = os.WriteFile(strings.TrimSuffix(mf, ".mod")+".sum", sum, 0o644)
		out = filepath.Join(root, "bin", strings.ToLower(id)+altTag()+".test")
		args = []string{"test", "-c", "-tags", "verif", "-vet=off", "-modfile", mf, "-o", out}
	}
	if c.Race {
		args = append(args, "-race")
	}
	args = append(args, c.Pkg)
	cmd := exec.Command("go", args...)
	cmd.Dir = root
	cmd.Env = goEnv()
	var buf bytes.Buffer
	cmd.Stdout, cmd.Stderr = &buf, &buf
	if err := cmd.Run(); err != nil {
		return "", fmt.Errorf("build failed: %v\n%s", err, buf.String())
	}
	return out, nil
}

type procResult struct {
	out      string
	exit     int
	timedOut bool
}

func runBin(bin string, env []string, timeout time.Duration, memMB int, args ...string) procResult {
	ctx, cancel := context.WithTimeout(context.Background(), timeout)
	defer cancel()
	var cmd *exec.Cmd
	if memMB > 0 {
		sh := fmt.Sprintf("ulimit -v %d; exec \"$0\" \"$@\"", memMB*1024)
		cmd = exec.CommandContext(ctx, "bash", append([]string{"-c", sh, bin}, args...)...)
	} else {
		cmd = exec.CommandContext(ctx, bin, args...)
	}
	cmd.Dir = filepath.Dir(bin)
	cmd.Env = append(goEnv(), env...)
	var buf bytes.Buffer
	cmd.Stdout, cmd.Stderr = &buf, &buf
	err := cmd.Run()
	res := procResult{out: buf.String()}
	if ctx.Err() == context.DeadlineExceeded {
		res.timedOut = true
		res.exit = -1
		return res
	}
	if err != nil {
		if ee, ok := err.(*exec.ExitError); ok {
			res.exit = ee.ExitCode()
		} else {
			res.exit = -2
			res.out += "\n" + err.Error()
		}
	}
	return res
}

func replayOne(bin, path string, memMB int) (violated bool, sig, detail string, ran bool, res procResult) {
	res = runBin(bin, []string{"VERIF_REPLAY=" + path}, 180*time.Second, memMB, "-test.run", "^Test", "-test.timeout", "170s")
	for _, line := range strings.Split(res.out, "\n") {
		if strings.HasPrefix(line, "REPLAY-RAN ") {
			ran = true
		}
		if strings.HasPrefix(line, "REPLAY-VIOLATION ") {
			violated = true
			if i := strings.Index(line, " sig="); i >= 0 {
				rest := line[i+5:]
				if j := strings.Index(rest, " detail="); j >= 0 {
					sig, detail = rest[:j], rest[j+8:]
				} else {
					sig = rest
				}
			}
		}
	}
	if !violated && res.exit != 0 && ran {
		// the process died while replaying: fatal error / panic outside the harness' reach
		if fn := lalFrameInCrash(res.out); fn != "" {
			violated, sig, detail = true, "process-death@"+fn, tail(res.out, 1500)
		}
	}
	return
}

// lalFrameInCrash returns the innermost lal function in a Go crash dump
// ("panic:" / "fatal error:" followed by goroutine stacks), or "".
func lalFrameInCrash(out string) string {
	idx := strings.Index(out, "\npanic: ")
	if j := strings.Index(out, "\nfatal error: "); j >= 0 && (idx < 0 || j < idx) {
		idx = j
	}
	if strings.HasPrefix(out, "panic: ") || strings.HasPrefix(out, "fatal error: ") {
		idx = 0
	}
	if idx < 0 {
		return ""
	}
	// first goroutine block after the crash header is the crashing one
	rest := out[idx:]
	g := strings.Index(rest, "\ngoroutine ")
	if g < 0 {
		return ""
	}
	block := rest[g+1:]
	if e := strings.Index(block, "\n\n"); e >= 0 {
		block = block[:e]
	}
	for _, line := range strings.Split(block, "\n") {
		line = strings.TrimSpace(line)
		if strings.HasPrefix(line, "github.com/q191201771/lal/") {
			fn := strings.TrimPrefix(line, "github.com/q191201771/lal/")
			if i := strings.LastIndex(fn, "("); i > 0 {
				fn = fn[:i]
			}
			return fn
		}
	}
	// stack exhaustion prints a truncated, very deep stack: look anywhere
	if strings.Contains(rest, "stack overflow") || strings.Contains(rest, "goroutine stack exceeds") {
		for _, line := range strings.Split(rest, "\n") {
			line = strings.TrimSpace(line)
			if strings.HasPrefix(line, "github.com/q191201771/lal/") {
				fn := strings.TrimPrefix(line, "github.com/q191201771/lal/")
				if i := strings.LastIndex(fn, "("); i > 0 {
					fn = fn[:i]
				}
				return fn
			}
		}
	}
	return ""
}

func tail(s string, n int) string {
	if len(s) > n {
		s = s[len(s)-n:]
	}
	return strings.ReplaceAll(s, "\n", " | ")
}

func head(s string, n int) string {
	if len(s) > n {
		s = s[:n]
	}
	return s
}

func replayCmd(id, path string) int {
	cfg := loadCfg()
	c, ok := cfg[id]
	if !ok {
		fatal2("unknown check %s", id)
	}
	bin, err := build(id, c)
	if err != nil {
		fatal2("%v", err)
	}
	abs, _ := filepath.Abs(path)
	violated, sig, detail, ran, res := replayOne(bin, abs, c.MemLimitMB)
	if !ran {
		fmt.Printf("INCONCLUSIVE: replay file %s was not executed by any sub-property of %s\n%s\n", path, id, tail(res.out, 2000))
		return 2
	}
	if violated {
		fmt.Printf("violated: sig=%s %s\n", sig, detail)
		fmt.Printf("VIOLATION property=%s replay=%s\n", id, abs)
		return 1
	}
	if res.exit != 0 || res.timedOut {
		// ran, no violation reported, yet the process did not end cleanly: a harness error, a timeout, a race report
		fmt.Printf("INCONCLUSIVE: replay of %s ended with exit status %d (timed out: %v) without reporting a violation\n%s\n", path, res.exit, res.timedOut, tail(res.out, 2000))
		return 2
	}
	fmt.Printf("replay OK: property=%s %s\n", id, path)
	return 0
}

func run(id, tier string) int {
	start := time.Now()
	cfg := loadCfg()
	c, ok := cfg[id]
	if !ok {
		fatal2("unknown check %s", id)
	}
	seed := 1
	if s := os.Getenv("VERIF_SEED"); s != "" {
		if v, err := strconv.Atoi(s); err == nil {
			seed = v
		}
	}
	if seed < 0 {
		seed = -seed
	}
	bin, err := build(id, c)
	if err != nil {
		fatal2("%v", err)
	}
	tmp := filepath.Join(root, "evidence", "tmp", id+altTag())
	_ = os.RemoveAll(tmp)
	statsDir := filepath.Join(tmp, "stats")
	curDir := filepath.Join(tmp, "current")
	_ = os.MkdirAll(statsDir, 0o755)
	_ = os.MkdirAll(curDir, 0o755)
	replayDir := filepath.Join(root, "evidence", "replay")
	if altTag() != "" {
		replayDir = filepath.Join(root, "evidence", "replay", strings.TrimPrefix(altTag(), "-"))
	}
	_ = os.MkdirAll(replayDir, 0o755)
	if old, _ := filepath.Glob(filepath.Join(replayDir, fmt.Sprintf("%s-*-s%d-*", id, seed))); len(old) > 0 {
		for _, f := range old {
			_ = os.Remove(f)
		}
	}

	var violationLines []string
	var knownLines []string
	inconclusive := ""
	nViol := 0

	// ---- 1. known findings + regression corpus ---------------------------------
	known := loadKnown()
	knownSigs := map[string]knownFinding{}
	knownReplays := map[string]knownFinding{}
	for _, k := range known {
		if k.Property != id {
			continue
		}
		if k.Status == "known" {
			knownSigs[k.Signature] = k
			if k.Replay != "" {
				knownReplays[filepath.Join(root, k.Replay)] = k
			}
		}
	}
	corpus, _ := filepath.Glob(filepath.Join(root, "corpus", strings.ToLower(id), "*.json"))
	sort.Strings(corpus)
	if os.Getenv("VERIF_NO_CORPUS") == "1" {
		// sensitivity runs only: judge the generated search alone, without the saved regression cases
		corpus = nil
	}
	type rres struct {
		path          string
		violated, ran bool
		sig, detail   string
		res           procResult
	}
	results := make([]rres, len(corpus))
	var wg sync.WaitGroup
	sem := make(chan struct{}, 8)
	for i, p := range corpus {
		wg.Add(1)
		go func(i int, p string) {
			defer wg.Done()
			sem <- struct{}{}
			defer func() { <-sem }()
			v, sig, detail, ran, res := replayOne(bin, p, c.MemLimitMB)
			if !v && (res.exit != 0 || res.timedOut) {
				// no verdict (harness error under load, timeout): one more attempt before the case counts as undecided
				v, sig, detail, ran, res = replayOne(bin, p, c.MemLimitMB)
			}
			results[i] = rres{p, v, ran, sig, detail, res}
		}(i, p)
	}
	wg.Wait()
	regressionRan := 0
	for _, r := range results {
		if !r.ran {
			if r.res.timedOut {
				inconclusive = "replay of " + r.path + " timed out"
			}
			continue
		}
		regressionRan++
		if !r.violated && (r.res.exit != 0 || r.res.timedOut) {
			// the replay ran but ended in a harness error / timeout: nothing was decided for this saved case
			inconclusive = fmt.Sprintf("replay of %s ended with exit status %d without a verdict: %s", r.path, r.res.exit, tail(r.res.out, 600))
			continue
		}
		if k, isKnown := knownReplays[r.path]; isKnown {
			if r.violated {
				knownLines = append(knownLines, fmt.Sprintf("KNOWN-FINDING: property=%s %s [sig=%s replay=%s]", id, k.What, k.Signature, k.Replay))
			} else {
				fmt.Printf("note: known finding %s no longer reproduces from %s\n", k.Signature, k.Replay)
			}
			continue
		}
		if r.violated {
			if k, ok := knownSigs[r.sig]; ok {
				knownLines = append(knownLines, fmt.Sprintf("KNOWN-FINDING: property=%s %s [sig=%s replay=%s]", id, k.What, k.Signature, rel(r.path)))
				continue
			}
			nViol++
			fmt.Printf("violated (regression corpus): sig=%s %s\n", r.sig, head(r.detail, 1500))
			violationLines = append(violationLines, fmt.Sprintf("VIOLATION property=%s replay=%s", id, r.path))
		}
	}

	// ---- 2. generated search ---------------------------------------------------
	shards := c.ShardsQuick
	timeout := c.TimeoutQuick
	if tier == "thorough" {
		shards = c.ShardsThorough
		timeout = c.TimeoutThorough
	}
	if shards <= 0 {
		shards = 4
	}
	if timeout <= 0 {
		timeout = 600
	}
	if s := os.Getenv("VERIF_SHARDS"); s != "" {
		if v, err := strconv.Atoi(s); err == nil && v > 0 {
			shards = v
		}
	}
	shardRes := make([]procResult, shards)
	for i := 0; i < shards; i++ {
		wg.Add(1)
		go func(i int) {
			defer wg.Done()
			env := []string{
				"VERIF_TIER=" + tier, "VERIF_SEED=" + strconv.Itoa(seed), "VERIF_SHARD=" + strconv.Itoa(i),
				"VERIF_SHARDS=" + strconv.Itoa(shards), "VERIF_STATS_DIR=" + statsDir, "VERIF_CURRENT_DIR=" + curDir,
				"VERIF_REPLAY_DIR=" + replayDir,
			}
			if c.Race {
				env = append(env, "GORACE=halt_on_error=1 exitcode=66")
			}
			shardRes[i] = runBin(bin, env, time.Duration(timeout+30)*time.Second, c.MemLimitMB,
				"-test.run", "^Test", "-test.timeout", strconv.Itoa(timeout)+"s")
			_ = os.WriteFile(filepath.Join(tmp, fmt.Sprintf("shard%d.log", i)), []byte(shardRes[i].out), 0o644)
		}(i)
	}
	wg.Wait()

	// merge stats
	files, _ := filepath.Glob(filepath.Join(statsDir, "*.json"))
	sort.Strings(files)
	var all []shardStats
	for _, f := range files {
		b, err := os.ReadFile(f)
		if err != nil {
			continue
		}
		var s shardStats
		if json.Unmarshal(b, &s) == nil {
			all = append(all, s)
		}
	}
	evals := 0
	distinct := map[string]bool{}
	labels := map[string]int{}
	excluded := map[string]int{}
	extra := map[string]int{}
	var samples []interface{}
	labelSamples := map[string]json.RawMessage{}
	subs := map[string]map[string]int{}
	seenViolSig := map[string]bool{}
	shardHasViolation := map[int]bool{}
	short := []string{}
	for _, s := range all {
		evals += s.Evaluations
		for _, h := range s.Hashes {
			distinct[s.Sub+":"+h] = true
		}
		for k, v := range s.Labels {
			labels[s.Sub+"/"+k] += v
		}
		for k, v := range s.ExcludedKnown {
			excluded[s.Sub+"/"+k] += v
		}
		for k, v := range s.Extra {
			extra[k] += v
		}
		if subs[s.Sub] == nil {
			subs[s.Sub] = map[string]int{}
			for _, sm := range s.Samples {
				if len(samples) < 12 {
					samples = append(samples, map[string]interface{}{"sub": s.Sub, "case": sm})
				}
			}
		}
		subs[s.Sub]["evaluations"] += s.Evaluations
		subs[s.Sub]["nontrivial"] += s.NonTrivial
		for k, v := range s.LabelSamples {
			if _, ok := labelSamples[s.Sub+"/"+k]; !ok && len(labelSamples) < 30 {
				labelSamples[s.Sub+"/"+k] = v
			}
		}
		for i, v := range s.Violations {
			shardHasViolation[s.Shard] = true
			rp := ""
			if i < len(s.Replays) {
				rp = s.Replays[i]
			}
			if k, ok := knownSigs[v.Sig]; ok {
				knownLines = append(knownLines, fmt.Sprintf("KNOWN-FINDING: property=%s %s [sig=%s]", id, k.What, k.Signature))
				continue
			}
			nViol++
			key := s.Sub + "|" + v.Sig
			if seenViolSig[key] {
				continue // same root cause found by several shards: report once
			}
			seenViolSig[key] = true
			fmt.Printf("violated: sub=%s sig=%s %s\n", s.Sub, v.Sig, head(strings.ReplaceAll(v.Detail, "\n", " | "), 1500))
			violationLines = append(violationLines, fmt.Sprintf("VIOLATION property=%s replay=%s", id, rp))
		}
		if s.Evaluations < s.Requested && len(s.Violations) == 0 {
			short = append(short, fmt.Sprintf("%s shard %d ran %d of %d", s.Sub, s.Shard, s.Evaluations, s.Requested))
		}
	}
	// shards that died or failed without a recorded violation
	for i, r := range shardRes {
		if r.timedOut {
			inconclusive = fmt.Sprintf("shard %d timed out after %ds", i, timeout)
			continue
		}
		if r.exit == 0 || shardHasViolation[i] {
			continue
		}
		// process death?
		if fn := lalFrameInCrash(r.out); fn != "" || (c.Race && r.exit == 66) {
			sig := "process-death@" + fn
			if c.Race && r.exit == 66 {
				sig = "data-race@" + raceSite(r.out)
			}
			// recover the case being executed
			cur, _ := filepath.Glob(filepath.Join(curDir, fmt.Sprintf("%s.*.%d.current.json", id, i)))
			rp := ""
			if len(cur) > 0 {
				rp = filepath.Join(replayDir, fmt.Sprintf("%s-death-s%d-%d.json", id, seed, i))
				b, _ := os.ReadFile(cur[0])
				var rf map[string]interface{}
				if json.Unmarshal(b, &rf) == nil {
					rf["sig"] = sig
					rf["detail"] = head(r.out[max0(strings.Index(r.out, "panic: ")):], 3000)
					b, _ = json.MarshalIndent(rf, "", " ")
				}
				_ = os.WriteFile(rp, b, 0o644)
			} else {
				rp = filepath.Join(tmp, fmt.Sprintf("shard%d.log", i))
			}
			if k, ok := knownSigs[sig]; ok {
				knownLines = append(knownLines, fmt.Sprintf("KNOWN-FINDING: property=%s %s [sig=%s]", id, k.What, k.Signature))
				continue
			}
			nViol++
			if !seenViolSig[sig] {
				seenViolSig[sig] = true
				fmt.Printf("violated: %s (process died) %s\n", sig, tail(head(r.out, 3000), 1200))
				violationLines = append(violationLines, fmt.Sprintf("VIOLATION property=%s replay=%s", id, rp))
			}
			continue
		}
		inconclusive = fmt.Sprintf("shard %d exited %d without a recorded violation (harness error?) — see %s", i, r.exit, filepath.Join(tmp, fmt.Sprintf("shard%d.log", i)))
		fmt.Println(tail(r.out, 3000))
	}

	// ---- 3. native fuzzing (thorough only) ----------------------------------------
	fuzzExecs := map[string]int64{}
	if tier == "thorough" && len(violationLines) == 0 {
		for _, ft := range c.Fuzz {
			n, crash, out, err := runFuzz(id, c, ft)
			fuzzExecs[ft.Target] = n
			if err != nil {
				inconclusive = "fuzz " + ft.Target + ": " + err.Error()
				continue
			}
			if crash != "" {
				sig := fuzzSig(out)
				if k, ok := knownSigs[sig]; ok {
					knownLines = append(knownLines, fmt.Sprintf("KNOWN-FINDING: property=%s %s [sig=%s]", id, k.What, k.Signature))
					continue
				}
				nViol++
				fmt.Printf("violated (native fuzz %s): sig=%s %s\n", ft.Target, sig, tail(out, 1500))
				violationLines = append(violationLines, fmt.Sprintf("VIOLATION property=%s replay=%s", id, crash))
			}
		}
	}

	// ---- 4. evidence -----------------------------------------------------------------
	if len(samples) == 0 {
		for k, v := range labelSamples {
			samples = append(samples, map[string]interface{}{"label": k, "case": v})
			if len(samples) >= 3 {
				break
			}
		}
	}
	cov := map[string]interface{}{
		"evaluations":         evals,
		"distinct_nontrivial": len(distinct),
		"rule":                c.Rule,
		"samples":             samples,
		"classes":             labels,
		"label_samples":       labelSamples,
		"sub_properties":      subs,
		"shards":              shards,
		"excluded_known":      excluded,
		"regression_replayed": regressionRan,
		"exhaustive":          false,
	}
	if len(extra) > 0 {
		cov["counters"] = extra
	}
	if len(fuzzExecs) > 0 {
		cov["fuzz_execs"] = fuzzExecs
	}
	if len(short) > 0 {
		cov["short_runs"] = short
	}
	ev := map[string]interface{}{
		"property_id": id,
		"tier":        tier,
		"seed":        seed,
		"level":       "exploration",
		"coverage":    cov,
		"assumptions": c.Assumptions,
		"wall_s":      time.Since(start).Seconds(),
		"violations":  nViol,
	}
	if c.Assumptions == nil {
		ev["assumptions"] = []string{}
	}
	eb, _ := json.MarshalIndent(ev, "", " ")
	_ = os.MkdirAll(filepath.Join(root, "evidence"), 0o755)
	if os.Getenv("VERIF_REPO") != "" {
		// a run against a scratch tree (seeded change, mutant) must not replace the record of /repo's own run
		_ = os.WriteFile(filepath.Join(root, "evidence", "tmp", id+altTag()+"-evidence.json"), eb, 0o644)
	} else {
		_ = os.WriteFile(filepath.Join(root, "evidence", id+".json"), eb, 0o644)
	}
	if tier == "thorough" && os.Getenv("VERIF_REPO") == "" {
		// the next quick run rewrites evidence/<id>.json; the record of the deepest run is kept beside it
		_ = os.MkdirAll(filepath.Join(root, "evidence", "thorough"), 0o755)
		_ = os.WriteFile(filepath.Join(root, "evidence", "thorough", id+".json"), eb, 0o644)
	}

	seenK := map[string]bool{}
	for _, l := range knownLines {
		if !seenK[l] {
			seenK[l] = true
			fmt.Println(l)
		}
	}
	fmt.Printf("%s %s seed=%d: %d cases (%d distinct non-trivial) in %d shards, %d regression replays, %.1fs\n",
		id, tier, seed, evals, len(distinct), shards, regressionRan, time.Since(start).Seconds())
	if len(violationLines) > 0 {
		for _, l := range violationLines {
			fmt.Println(l)
		}
		return 1
	}
	if inconclusive != "" {
		fmt.Println("INCONCLUSIVE: " + inconclusive)
		return 2
	}
	if len(short) > 0 {
		fmt.Println("note: " + strings.Join(short, "; "))
	}
	_ = os.RemoveAll(tmp)
	return 0
}

func max0(i int) int {
	if i < 0 {
		return 0
	}
	return i
}

func rel(p string) string {
	if r, err := filepath.Rel(root, p); err == nil {
		return r
	}
	return p
}

func raceSite(out string) string {
	for _, line := range strings.Split(out, "\n") {
		line = strings.TrimSpace(line)
		if strings.HasPrefix(line, "github.com/q191201771/lal/") {
			fn := strings.TrimPrefix(line, "github.com/q191201771/lal/")
			if i := strings.LastIndex(fn, "("); i > 0 {
				fn = fn[:i]
			}
			return fn
		}
	}
	return "unknown"
}

func fuzzSig(out string) string {
	for _, line := range strings.Split(out, "\n") {
		if i := strings.Index(line, "FUZZ-VIOLATION sig="); i >= 0 {
			s := line[i+len("FUZZ-VIOLATION sig="):]
			if j := strings.IndexByte(s, ' '); j > 0 {
				s = s[:j]
			}
			return s
		}
	}
	if fn := raceSite(out); fn != "unknown" {
		return "panic@" + fn
	}
	return "fuzz-crash"
}

// runFuzz runs `go test -fuzz` for one target for the configured time.  The
// corpus lives in corpus/<id>/fuzz/<Target> (seed inputs are added by the
// target with f.Add; crashers are copied to evidence/replay).
func runFuzz(id string, c checkCfg, ft fuzzTarget) (execs int64, crash string, out string, err error) {
	ctx, cancel := context.WithTimeout(context.Background(), time.Duration(ft.Seconds+240)*time.Second)
	defer cancel()
	cacheDir := filepath.Join(root, "evidence", "tmp", id+altTag(), "fuzzcache")
	_ = os.MkdirAll(cacheDir, 0o755)
	args := []string{"test", "-tags", "verif", "-vet=off"}
	if alt := os.Getenv("VERIF_REPO"); alt != "" {
		// build() has written the alternative go.mod for this check
		args = append(args, "-modfile", filepath.Join(root, "bin", strings.ToLower(id)+altTag()+".mod"))
	}
	// the package must precede -test.fuzzcachedir: that is a test-binary flag and ends go's own flag parsing
	args = append(args, "-run", "^$", "-fuzz", "^"+ft.Target+"$", "-fuzztime", strconv.Itoa(ft.Seconds)+"s", c.Pkg, "-test.fuzzcachedir", cacheDir)
	cmd := exec.CommandContext(ctx, "go", args...)
	cmd.Dir = root
	cmd.Env = append(goEnv(), "VERIF_FUZZING=1")
	var buf bytes.Buffer
	cmd.Stdout, cmd.Stderr = &buf, &buf
	runErr := cmd.Run()
	out = buf.String()
	for _, line := range strings.Split(out, "\n") {
		// fuzz: elapsed: 3s, execs: 102938 (34312/sec), new interesting: 12 (total: 20)
		if i := strings.Index(line, "execs: "); i >= 0 {
			f := strings.Fields(line[i+7:])
			if len(f) > 0 {
				if v, e := strconv.ParseInt(f[0], 10, 64); e == nil && v > execs {
					execs = v
				}
			}
		}
	}
	if ctx.Err() == context.DeadlineExceeded {
		return execs, "", out, fmt.Errorf("timed out")
	}
	if runErr != nil {
		// a crasher is written to <pkg>/testdata/fuzz/<Target>/<hash>
		pkgDir := filepath.Join(root, c.Pkg)
		files, _ := filepath.Glob(filepath.Join(pkgDir, "testdata", "fuzz", ft.Target, "*"))
		if strings.Contains(out, "Failing input written to") && len(files) > 0 {
			sort.Slice(files, func(i, j int) bool {
				a, _ := os.Stat(files[i])
				b, _ := os.Stat(files[j])
				return a.ModTime().After(b.ModTime())
			})
			dst := filepath.Join(root, "evidence", "replay", fmt.Sprintf("%s-fuzz-%s-%s", id, ft.Target, filepath.Base(files[0])))
			b, _ := os.ReadFile(files[0])
			_ = os.WriteFile(dst, b, 0o644)
			_ = os.Remove(files[0])
			return execs, dst, out, nil
		}
		return execs, "", out, fmt.Errorf("go test -fuzz failed without a crasher: %s", tail(out, 800))
	}
	return execs, "", out, nil
}
