#!/usr/bin/env python3
"""Re-evaluates a stored seeded change against the current checks.

  tools/seedrerun.py <seeded-id> [check ids ...]     e.g.  tools/seedrerun.py c14-a C14

Applies /verif/seeded/<id>/patch.diff to a scratch worktree of /repo HEAD (never to /repo), points the
quick checks at it (VERIF_REPO), removes the worktree, and updates verdict / caught_by in meta.json.
Environment: SEEDS="1 2" runs each check at several VERIF_SEED values (default "1")."""
import json, os, shutil, subprocess, sys
root = os.path.dirname(os.path.dirname(os.path.abspath(__file__)))
env = dict(os.environ, GOFLAGS="-mod=mod", GOPROXY="off", GOSUMDB="off", GOTOOLCHAIN="local")
def sh(cmd, cwd=None, timeout=3600):
    return subprocess.run(cmd, shell=True, text=True, capture_output=True, env=env, cwd=cwd, timeout=timeout)
sid = sys.argv[1]
d = os.path.join(root, "seeded", sid)
meta = json.load(open(os.path.join(d, "meta.json")))
checks = sys.argv[2:] or [meta["property"]]
seeds = os.environ.get("SEEDS", "1").split()
wt = f"/tmp/seedrerun-{sid}"
sh(f"git -C /repo worktree remove --force {wt}")
r = sh(f"git -C /repo worktree add -q --detach {wt} HEAD")
assert r.returncode == 0, r.stderr
ran, caught = [], []
try:
    a = sh(f"git apply {os.path.join(d, 'patch.diff')}", cwd=wt)
    assert a.returncode == 0, "patch no longer applies: " + a.stderr
    for c in checks:
        for s in seeds:
            r = sh(f"VERIF_REPO={wt} VERIF_SEED={s} {root}/bin/vcheck run {c} --tier quick", cwd=root)
            viol = [l for l in r.stdout.splitlines() if l.startswith("violated")]
            ran.append({"check": c, "seed": s, "exit": r.returncode, "first": viol[0][:300] if viol else ""})
            by_corpus = bool(viol) and "regression corpus" in viol[0]
            if by_corpus:
                # also ask the generated search alone (no saved regression cases)
                r2 = sh(f"VERIF_NO_CORPUS=1 VERIF_REPO={wt} VERIF_SEED={s} {root}/bin/vcheck run {c} --tier quick", cwd=root)
                v2 = [l for l in r2.stdout.splitlines() if l.startswith("violated")]
                ran.append({"check": c, "seed": s, "no_corpus": True, "exit": r2.returncode, "first": v2[0][:300] if v2 else ""})
            if r.returncode == 1 and c not in caught:
                caught.append(c)
finally:
    sh(f"git -C /repo worktree remove --force {wt}")
    shutil.rmtree(wt, ignore_errors=True)
meta["verdict"] = "caught" if caught else "MISSED"
meta["caught_by"] = ", ".join(caught)
meta["rerun"] = ran
json.dump(meta, open(os.path.join(d, "meta.json"), "w"), indent=1)
print(json.dumps({"seed": sid, "verdict": meta["verdict"], "caught_by": meta["caught_by"], "ran": ran}, indent=1))
