#!/bin/bash
# tools/mkseed.sh <prop-id-lower> <letter> [extra hint]: creates the /tmp/seed-<id>-<x> worktree and the prompt file
# /tmp/seed-<id>-<x>.prompt.txt from tools/seed_prompt.txt (property text only; nothing from /verif is shown to the agent)
set -e
id=$1; x=$2; ID=${id^^}
name=seed-$id-$x
git -C /repo worktree remove --force /tmp/$name 2>/dev/null || true
rm -rf /tmp/$name /tmp/$name-out
git -C /repo worktree add -q --detach /tmp/$name HEAD
python3 - "$ID" "$name" "$x" "${3:-}" <<'P'
import json,sys,os
ID,name,x,hint=sys.argv[1:5]
for l in open('/verif/properties.jsonl'):
    o=json.loads(l)
    if o['id']==ID: break
t=open('/verif/tools/seed_prompt.txt').read()
prop=f"{ID}: {o['title']}\n\n{o['statement']}\n\nQuantified over: {o['quantifier']['text']}\n"
t=t.replace('@@PROPERTY@@',prop).replace('@@WT@@','/tmp/'+name).replace('@@OUT@@','/tmp/'+name+'-out').replace('@@ID@@',ID)
if x!='a':
    t=t.replace("Avoid the most obvious candidates","Other changes were already seeded for this property; pick a DIFFERENT part of the property statement (read all its clauses) and different files where possible. Avoid the most obvious candidates")
if hint:
    t=t.replace('Your job:', 'Note: '+hint+'\n\nYour job:',1)
open(f'/tmp/{name}.prompt.txt','w').write(t)
P
echo /tmp/$name.prompt.txt
