#!/bin/bash
# tools/mkseed.sh <prop-id-lower> <letter> [extra hint file]: creates /tmp/seed-<id>-<x> worktree and prompt file from the c16-a template
set -e
id=$1; x=$2; ID=${id^^}
name=seed-$id-$x
git -C /repo worktree remove --force /tmp/$name 2>/dev/null || true
rm -rf /tmp/$name /tmp/$name-out
git -C /repo worktree add -q --detach /tmp/$name HEAD
python3 - "$ID" "$name" "$x" "${3:-}" <<'P'
import json,sys
ID,name,x,hint=sys.argv[1:5]
for l in open('/verif/properties.jsonl'):
    o=json.loads(l)
    if o['id']==ID: break
t=open('/tmp/seed-c16-a.prompt.txt').read()
a=t.index('C16: When an input ends'); b=t.index('Your job:')
t=t[:a]+f"{ID}: {o['title']}\n\n{o['statement']}\n\nQuantified over: {o['quantifier']['text']}\n\n\n"+t[b:]
t=t.replace('seed-c16-a',name).replace('"C16"',f'"{ID}"')
if x!='a':
    t=t.replace("Avoid the most obvious candidates","A different change was already seeded for this property; pick a DIFFERENT part of the property statement (read all its clauses) and a different file if possible. Avoid the most obvious candidates")
if hint:
    t=t.replace('Your job:', 'Note: '+hint+'\n\nYour job:',1)
open(f'/tmp/{name}.prompt.txt','w').write(t)
P
echo /tmp/$name.prompt.txt
