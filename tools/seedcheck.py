#!/usr/bin/env python3
"""Evaluates an independently seeded change.

  tools/seedcheck.py <seed-name> <property-id> [check ids to run ...]

<seed-name>-out/ under /tmp holds patch.diff, demo/, meta.json written by the seeding sub-agent.
Steps: (1) confirm in a scratch worktree of /repo HEAD that the patch applies, builds, lal's unit
tests pass with it, and the demo fails with / passes without it; (2) apply the patch to /repo, run
the quick checks of the property (plus any extra ids), undo it; (3) store everything under
/verif/seeded/<seed-name>/ with the verdict."""
import json, os, shutil, subprocess, sys
root = os.path.dirname(os.path.dirname(os.path.abspath(__file__)))
env = dict(os.environ, GOFLAGS="-mod=mod", GOPROXY="off", GOSUMDB="off", GOTOOLCHAIN="local")
def sh(cmd, cwd=None, timeout=1800):
    return subprocess.run(cmd, shell=True, text=True, capture_output=True, env=env, cwd=cwd, timeout=timeout)
name, pid = sys.argv[1], sys.argv[2]
checks = [pid] + sys.argv[3:]
out = f"/tmp/{name}-out"
meta = json.load(open(os.path.join(out, "meta.json")))
patch = os.path.join(out, "patch.diff")
wt = f"/tmp/seedchk-{name}"
sh(f"git -C /repo worktree remove --force {wt}")
r = sh(f"git -C /repo worktree add -q --detach {wt} HEAD")
assert r.returncode == 0, r.stderr
report = {"property": pid, "summary": meta.get("summary"), "needs": meta.get("needs"), "files": meta.get("files"), "demo_cmd": meta.get("demo_cmd"), "ran": []}
try:
    # place the demo
    place = meta.get("demo_place", "")
    demo_files = []
    for f in os.listdir(os.path.join(out, "demo")):
        src = os.path.join(out, "demo", f)
        # demo_place may name the directory or the file
        import re
        m = re.search(r"((?:pkg|app)/[\w/.\-]+)", place)
        rel = m.group(1).rstrip(".") if m else "pkg"
        dst = os.path.join(wt, rel) if rel.endswith(".go") else os.path.join(wt, rel, f)
        os.makedirs(os.path.dirname(dst), exist_ok=True)
        shutil.copy(src, dst); demo_files.append(dst)
    cmd = meta["demo_cmd"].replace(f"/tmp/{name}-out", "@@OUT@@").replace(f"/tmp/{name}", wt).replace("@@OUT@@", out).replace("<worktree>", wt).replace("<lal>", wt).replace("WORKTREE", wt)
    if "export GOFLAGS" not in cmd:
        cmd = "export GOFLAGS=-mod=mod GOPROXY=off GOSUMDB=off GOTOOLCHAIN=local; " + cmd
    base = sh(cmd, cwd=wt)
    failed = lambda r: r.returncode != 0 or "--- FAIL" in r.stdout or "\nFAIL" in r.stdout or r.stdout.startswith("FAIL")
    report["demo_without_change"] = "pass" if not failed(base) else "FAIL"
    a = sh(f"git apply {patch}", cwd=wt)
    assert a.returncode == 0, "patch does not apply: " + a.stderr
    b = sh("go build ./...", cwd=wt)
    report["builds"] = b.returncode == 0
    with_change = sh(cmd, cwd=wt)
    report["demo_with_change"] = "pass" if not failed(with_change) else "fail"
    for f in demo_files:
        if os.path.exists(f):
            os.remove(f)
    t = sh("go test -count=1 ./... 2>&1 | grep -v '^ok\\|no test files' | head", cwd=wt)
    report["unit_tests_pass_with_change"] = t.stdout.strip() == ""
    if t.stdout.strip():
        report["unit_test_output"] = t.stdout[:500]
finally:
    sh(f"git -C /repo worktree remove --force {wt}")
    shutil.rmtree(wt, ignore_errors=True)
valid = report.get("builds") and report.get("demo_without_change") == "pass" and report.get("demo_with_change") == "fail" and report.get("unit_tests_pass_with_change")
report["valid_seed"] = bool(valid)
caught_by = []
if valid and os.environ.get("SEEDCHECK_INPLACE") == "1":
    st = sh("git -C /repo status --porcelain")
    assert st.stdout.strip() == "", "/repo is not clean: " + st.stdout
    a = sh(f"git -C /repo apply {patch}")
    assert a.returncode == 0, a.stderr
    try:
        for c in checks:
            r = sh(f"{root}/bin/vcheck run {c} --tier quick", cwd=root)
            viol = [l for l in r.stdout.splitlines() if l.startswith("violated")]
            report["ran"].append({"check": c, "exit": r.returncode, "first": viol[0][:300] if viol else ""})
            if r.returncode == 1:
                caught_by.append(c)
    finally:
        sh("git -C /repo checkout -- .")
        assert sh("git -C /repo status --porcelain").stdout.strip() == ""
elif valid:
    # while builder agents share /repo the seed is applied to a scratch worktree of /repo HEAD and the
    # checks are pointed at it (VERIF_REPO); same build, same commands otherwise
    wt2 = f"/tmp/{name}-run"
    sh(f"git -C /repo worktree remove --force {wt2}")
    r = sh(f"git -C /repo worktree add -q --detach {wt2} HEAD")
    assert r.returncode == 0, r.stderr
    try:
        a = sh(f"git apply {patch}", cwd=wt2)
        assert a.returncode == 0, a.stderr
        for c in checks:
            r = sh(f"VERIF_REPO={wt2} {root}/bin/vcheck run {c} --tier quick", cwd=root)
            viol = [l for l in r.stdout.splitlines() if l.startswith("violated")]
            report["ran"].append({"check": c, "exit": r.returncode, "first": viol[0][:300] if viol else ""})
            if r.returncode == 1:
                caught_by.append(c)
    finally:
        sh(f"git -C /repo worktree remove --force {wt2}")
        shutil.rmtree(wt2, ignore_errors=True)
report["verdict"] = "invalid-seed" if not valid else ("caught" if caught_by else "MISSED")
report["caught_by"] = ", ".join(caught_by)
dst = os.path.join(root, "seeded", name.replace("seed-", ""))
os.makedirs(dst, exist_ok=True)
shutil.copy(patch, os.path.join(dst, "patch.diff"))
if os.path.isdir(os.path.join(dst, "demo")):
    shutil.rmtree(os.path.join(dst, "demo"))
shutil.copytree(os.path.join(out, "demo"), os.path.join(dst, "demo"))
meta.update({"property": pid, "verdict": report["verdict"], "caught_by": report["caught_by"], "what_was_run": report})
json.dump(meta, open(os.path.join(dst, "meta.json"), "w"), indent=1)
print(json.dumps({k: report[k] for k in ("valid_seed", "verdict", "caught_by", "demo_without_change", "demo_with_change", "unit_tests_pass_with_change")}), [x for x in report["ran"]])
