#!/bin/bash
# tools/seedq.sh <seed-name> <PROP> [more checks]: seedcheck in the background, log in /tmp/sc-<seed-name>.log
export GOFLAGS=-mod=mod GOPROXY=off GOSUMDB=off GOTOOLCHAIN=local
cd /verif
nohup python3 tools/seedcheck.py "$@" > /tmp/sc-$1.log 2>&1 &
