#!/usr/bin/env python3
"""Regenerates /verif/MANIFEST.json from checks/checks.json (+ properties.jsonl for the
not_applicable list).  Run after adding a check."""
import json, os, subprocess
root = os.path.dirname(os.path.dirname(os.path.abspath(__file__)))
import glob
cfg = {}
enabled = set(open(os.path.join(root, "checks", "enabled.txt")).read().split())
for f in glob.glob(os.path.join(root, "checks", "*", "check.json")):
    c = json.load(open(f))
    if c["id"] in enabled:  # a check is claimed only once it is integrated and silent on the current tree
        cfg[c["id"]] = c
props = [json.loads(l) for l in open(os.path.join(root, "properties.jsonl")) if l.strip()]
baseline = json.load(open("/root/.vp/BASELINE.json"))["cmd"]
try:
    commits = subprocess.check_output(["git", "-C", "/repo", "log", "--format=%H", "--grep=^verif hook"], text=True).split()
except Exception:
    commits = []
pending = json.load(open(os.path.join(root, "checks", "pending.json"))) if os.path.exists(os.path.join(root, "checks", "pending.json")) else {}
checks, na = [], []
for p in props:
    pid = p["id"]
    c = cfg.get(pid)
    if not c:
        na.append({"property_id": pid, "reason": pending.get(pid, "check not built yet (work in progress; see DESIGN.md section 3 for the planned generated-input check)")})
        continue
    e = {
        "property_id": pid,
        "quick_cmd": f"./bin/vcheck run {pid} --tier quick",
        "thorough_cmd": f"./bin/vcheck run {pid} --tier thorough",
        "evidence_file": f"evidence/{pid}.json",
        "replay_cmd_template": f"./bin/vcheck replay {pid} {{path}}",
        "engine": "vcheck",
        "level_claimed": {"category": "exploration", "text": c["level_text"], "design_ref": c.get("design_ref", "DESIGN.md section 3, " + pid)},
        "level_note": c["level_note"],
        "technique": c["technique"],
    }
    checks.append(e)
m = {
    "version": 1,
    "setup_cmd": "./setup.sh",
    "hooks": {
        "guard": "verif",
        "enable": "go build tag: every check is compiled with `go test -c -tags verif` against /repo (replace directive in /verif/go.mod)",
        "baseline_off_cmd": baseline,
        "source_commits": commits,
        "add_only": True,
    },
    "engines": [
        {"name": "vcheck", "path": "cmd/vcheck", "serves_properties": sorted(cfg.keys()),
         "kind_free_text": "driver: rebuilds the check's rapid test binary from /repo with -tags verif, replays the regression corpus and known findings, runs sharded pgregory.net/rapid searches (seed from VERIF_SEED), native go fuzzing in the thorough tier, merges per-shard statistics into evidence/<id>.json"},
        {"name": "pbt", "path": "drv/pbt", "serves_properties": sorted(cfg.keys()),
         "kind_free_text": "library: Spec{Gen, Run (oracle), Classify}; search via rapid.Check with shrinking, replay bypassing rapid, panic -> violation signature from the innermost lal frame"},
        {"name": "ref", "path": "ref", "serves_properties": sorted(cfg.keys()),
         "kind_free_text": "independent reference codecs / protocol clients written from the specifications (never import lal); used as oracles"},
    ],
    "checks": checks,
    "not_applicable": na,
    "notes": "All checks decide by generated-input search (property-based testing / fuzzing) against an explicit oracle. Exit 0 = held on everything explored (KNOWN-FINDING lines for recorded defects), 1 = VIOLATION line, 2 = inconclusive. known_findings.json lists genuine defects (fixed by 'fix:' commits in /repo or recorded).",
}
json.dump(m, open(os.path.join(root, "MANIFEST.json"), "w"), indent=1)
print("MANIFEST.json:", len(checks), "checks,", len(na), "not_applicable")
