#!/usr/bin/env python3
"""Sensitivity testing: applies each hand-written mutant of mutants/<id>.json to a scratch
worktree of /repo (never /repo itself), runs the check against it through VERIF_REPO and
reports whether the check caught it (exit 1).  Usage: tools/mutants.py C08 [name-substring] [--tests]"""
import json, os, subprocess, sys, shutil
root = os.path.dirname(os.path.dirname(os.path.abspath(__file__)))
env = dict(os.environ, GOFLAGS="-mod=mod", GOPROXY="off", GOSUMDB="off", GOTOOLCHAIN="local")
def sh(cmd, **kw):
    return subprocess.run(cmd, shell=True, text=True, capture_output=True, env=env, **kw)
def main():
    pid = sys.argv[1]
    sel = [a for a in sys.argv[2:] if not a.startswith("--")]
    run_tests = "--tests" in sys.argv
    muts = json.load(open(os.path.join(root, "mutants", pid.lower() + ".json")))
    results = []
    for m in muts:
        if sel and not any(s in m["name"] for s in sel):
            continue
        wt = f"/tmp/lalmut-{pid}-{os.getpid()}"
        base = os.environ.get("MUT_BASE")
        if base:
            shutil.rmtree(wt, ignore_errors=True)
            r = sh(f"rsync -a --exclude .git {base}/ {wt}/")
        else:
            sh(f"git -C /repo worktree remove --force {wt}")
            r = sh(f"git -C /repo worktree add -q --detach {wt} HEAD")
        if r.returncode != 0:
            print("worktree failed", r.stderr); sys.exit(2)
        try:
            # uncommitted hook files etc. are not needed: HEAD has everything committed
            edits = m.get("edits") or [m]
            ok = True
            for e in edits:
                p = os.path.join(wt, e["file"])
                s = open(p).read()
                if s.count(e["old"]) != 1:
                    print(f"{m['name']}: pattern matches {s.count(e['old'])} times in {e['file']} - skipping"); ok = False; break
                open(p, "w").write(s.replace(e["old"], e["new"]))
            if not ok:
                results.append((m["name"], "BAD-PATTERN")); continue
            b = sh("go build ./... && go vet ./pkg/... >/dev/null 2>&1; go build ./...", cwd=wt)
            if b.returncode != 0:
                print(f"{m['name']}: does not compile\n{b.stderr[-600:]}"); results.append((m["name"], "NO-COMPILE")); continue
            tests = ""
            if run_tests:
                t = sh("go test -count=1 ./... 2>&1 | grep -v '^ok\\|no test files' | head -5", cwd=wt)
                tests = " tests:" + ("pass" if not t.stdout.strip() else "FAIL " + t.stdout.strip()[:200])
            r = sh(f"VERIF_REPO={wt} {root}/bin/vcheck run {pid} --tier quick", cwd=root)
            verdict = {0: "MISSED", 1: "caught", 2: "INCONCLUSIVE"}.get(r.returncode, str(r.returncode))
            sigs = [l for l in r.stdout.splitlines() if l.startswith("violated")]
            print(f"{m['name']}: {verdict}{tests}  {sigs[0][:160] if sigs else ''}")
            if verdict != "caught":
                print(r.stdout[-800:])
            results.append((m["name"], verdict))
        finally:
            if not os.environ.get("MUT_BASE"):
                sh(f"git -C /repo worktree remove --force {wt}")
            shutil.rmtree(wt, ignore_errors=True)
    # restore evidence produced against the real tree is the caller's business
    print("SUMMARY", pid, {v: sum(1 for _, x in results if x == v) for v in set(x for _, x in results)})
main()
