#!/usr/bin/env python3
"""Rewrites DESIGN.md section 12 (process record) with current counts. Run after mkdesign_tables.py."""
import json, glob, subprocess, os
root = os.path.dirname(os.path.dirname(os.path.abspath(__file__)))
os.chdir(root)
p = 'DESIGN.md'; s = open(p).read()
seeds = [json.load(open(f)) for f in sorted(glob.glob('seeded/*/meta.json'))]
n = len(seeds); caught = sum(1 for m in seeds if m['verdict'] == 'caught')
k = json.load(open('known_findings.json'))['findings']
fixed = len({e['commit'] for e in k if e['status'] == 'fixed'}); known = [e for e in k if e['status'] == 'known']
nfix = int(subprocess.check_output("git -C /repo log --oneline | grep -c ' fix:'", shell=True, text=True))
nmut = sum(len(json.load(open(f))) for f in glob.glob('mutants/c*.json'))
marker = '\n## 12. How the checks were hardened'
assert marker in s
head = s[:s.index(marker)]
body = s[s.index(marker):]
import re
body = re.sub(r'\(`mutants/cNN.json`, \d+ in total\)', f'(`mutants/cNN.json`, {nmut} in total)', body)
body = re.sub(r'\(`seeded/<id>/`, \d+ in \w+ rounds a-\w\)', f'(`seeded/<id>/`, {n} in seven rounds a-g)', body)
body = re.sub(r'without it\)\. \d+ of \d+ are caught', f'without it). {caught} of {n} are caught', body)
body = re.sub(r'Outcome on the pinned tree: \d+ unguarded `fix:` commits in `/repo` \(\d+', f'Outcome on the pinned tree: {nfix} unguarded `fix:` commits in `/repo` ({fixed}', body)
body = re.sub(r'\n\d+ known findings that need a design decision \([^)]*\)', '\n%d known findings that need a design decision (%s)' % (len(known), ", ".join(e["property"] + " " + e["signature"] for e in known)), body)
open(p, 'w').write(head + body)
print('section 12 refreshed:', n, caught, nfix, fixed, len(known), nmut)
