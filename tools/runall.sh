#!/bin/bash
# tools/runall.sh <seed> <tier> [ids...]: runs the checks one after another on /repo's working tree, prints one line each
export GOFLAGS=-mod=mod GOPROXY=off GOSUMDB=off GOTOOLCHAIN=local
seed=${1:-1}; tier=${2:-quick}; shift; shift
ids=${@:-$(cat /verif/checks/enabled.txt)}
cd /verif
for id in $ids; do
  s=$(date +%s)
  out=$(VERIF_SEED=$seed ./bin/vcheck run $id --tier $tier 2>&1); rc=$?
  echo "$id seed=$seed tier=$tier exit=$rc $(( $(date +%s)-s ))s | $(echo "$out" | grep -E "^VIOLATION|^violated|^KNOWN|harness|inconclusive" | head -3 | tr '\n' ' ' | cut -c1-600)"
done
