package c15

// Sub-property "sweep-by-input-kind": a consumer that stops reading "is itself disconnected once ... the periodic
// liveness sweep fires" — whatever kind of input the stream has.  The main sub-property publishes over RTMP only; the
// sweep of a group (logic.Group.disposeInactiveSessions) starts with input-specific branches (GB28181 publisher with /
// without a timeout, RTMP / RTSP publisher, relay pull) before it reaches the subscribers, so "the sweep reaches the
// subscribers" has to be judged per input kind.
//
// Input kinds: RTMP publisher, RTSP publisher (ANNOUNCE / RECORD, interleaved), customize pub session
// (ServerManager.AddCustomizePubSession + FeedRtmpMsg), GB28181 PS publisher started through
// ServerManager.CtrlStartRtpPub in TCP mode with timeout_ms drawn from {0, 500, 1000, 60000} (0 and < 1000 = "the
// publisher has no timeout"; fed through lal's own socket and read loop, because only that path counts the bytes the
// publisher's own timeout looks at).  The stream is avc + aac.
//
// Consumers (rtmp, flv, wsflv, ts, rtsp, wsrtsp): 1-3 that stop reading (small write queue, 10 s write timeout for
// the HTTP kinds so that the sweep is the only thing that can disconnect them within the case) and one control
// consumer that reads everything.  Phases: everybody is fed (bytes seen at the transport on two occasions) - 0..1
// sweeps while everybody is healthy - stall - queue + 8 more frames of each track (a stalled RTSP consumer's queue is
// full then) - sweep - data for the control consumer (two occasions) - sweep - (for a consumer that survived: data,
// third sweep: lal's writer goroutine may account its last write after the first sweep on a loaded machine).
//
// Oracle: every stalled consumer to which nothing was written between the sweeps (lal's own statistics and the
// transport agree; RTSP: it was flowing when it stalled) has been disconnected — lal closed its end, or at least the
// group no longer lists it: S4/not-disconnected-by-sweep/input-<kind>/<consumer kind>.  The control consumer, which
// received bytes on two occasions before every sweep, is still connected: S4/healthy-consumer-swept/input-<kind>/<kind>.
// The input is fed between the sweeps (so it stays read-alive; a GB28181 publisher with a 1 s timeout is looked at on
// every tick); a fed input that lal disconnects is publisher-disconnected/input-<kind>.
//
// Not asserted here: framing / content of what the consumers received (main sub-property; with a remuxing input there
// is no message identity), delays, which units a stalled consumer loses.

import (
	"encoding/binary"
	"fmt"
	"net"
	"strings"
	"testing"
	"time"

	"github.com/q191201771/lal/pkg/base"
	"github.com/q191201771/lal/pkg/httpflv"
	"github.com/q191201771/lal/pkg/httpts"
	"github.com/q191201771/lal/pkg/logic"
	"github.com/q191201771/lal/pkg/rtmp"
	"github.com/q191201771/lal/pkg/rtsp"
	"pgregory.net/rapid"

	"verif/drv/pbt"
	"verif/gen"
	"verif/harness/inproc"
	"verif/harness/lalclient"
	"verif/harness/memconn"
	"verif/ref/codecref"
	"verif/ref/psref"
	"verif/ref/rtpref"
	"verif/ref/rtspref"
)

type IKCase struct {
	Input       string   `json:"input"`         // rtmp | rtsp | cust | gb
	GbTimeoutMs int      `json:"gb_timeout_ms"` // gb: timeout_ms of start_rtp_pub
	Queue       int      `json:"queue"`         // write queue of the consumers that stall
	Stalled     []string `json:"stalled"`       // kinds of the consumers that stop reading
	Control     string   `json:"control"`       // kind of the consumer that keeps reading
	PreSweeps   int      `json:"pre_sweeps"`    // sweeps everybody lives through before anybody stalls
}

func genIK(t *rapid.T) IKCase {
	var c IKCase
	c.Input = rapid.SampledFrom([]string{"gb", "gb", "gb", "rtmp", "rtsp", "rtsp", "cust", "cust"}).Draw(t, "input")
	if c.Input == "gb" {
		c.GbTimeoutMs = rapid.SampledFrom([]int{0, 500, 1000, 60000}).Draw(t, "gbTimeout")
	}
	c.Queue = rapid.SampledFrom([]int{3, 4, 8}).Draw(t, "queue")
	kinds := []string{"rtmp", "flv", "ts", "rtsp", "wsflv", "wsrtsp", "rtmp", "flv", "ts", "rtsp"}
	n := rapid.IntRange(1, 3).Draw(t, "nstalled")
	for i := 0; i < n; i++ {
		c.Stalled = append(c.Stalled, rapid.SampledFrom(kinds).Draw(t, "kind"))
	}
	c.Control = rapid.SampledFrom(kinds).Draw(t, "control")
	c.PreSweeps = rapid.SampledFrom([]int{0, 1}).Draw(t, "preSweeps")
	return c
}

var ikCodecs = gen.Codecs{Video: "avc", Audio: "aac", AscObj: 2, AscFreq: 4, AscChan: 2}

const ikAacHz = 44100 // sampling frequency index 4

// ikInput is the stream's input of one case.
type ikInput struct {
	kind string
	r    *runner

	ctx logic.ICustomizePubSessionContext // cust

	rconn      *memconn.Conn // rtsp
	rcl        *rtspref.Client
	vseq, aseq *rtpref.Sequencer

	gconn  net.Conn // gb
	gseq   *rtpref.Sequencer
	gfirst []byte
	gtotal uint64
	gn     int
}

func (in *ikInput) tag() string { return "input-" + in.kind }

func (in *ikInput) gone(it gen.Item, err error) *pbt.Violation {
	if v := in.r.s.PanicViolation(); v != nil {
		return v
	}
	return pbt.V("publisher-disconnected/"+in.tag(), "the %s input, which had been fed before every sweep, lost its session while %s ts=%d was being sent after %d sweeps: %v", in.kind, it.Kind, it.Ts, in.r.ticks, err)
}

func startIKInput(r *runner, c IKCase) (*ikInput, *pbt.Violation) {
	s := r.s
	in := &ikInput{kind: c.Input, r: r}
	switch c.Input {
	case "rtmp":
		r.p = lalclient.NewPublisher(s, "live", stream, 4096)
		if r.p.Err != nil {
			return nil, pbt.V("publish-refused", "%v", r.p.Err)
		}
	case "cust":
		var err error
		if s.Call("AddCustomizePubSession", func() { in.ctx, err = s.SM.AddCustomizePubSession(stream) }) {
			return nil, s.PanicViolation()
		}
		if err != nil {
			return nil, pbt.V("publish-refused/"+in.tag(), "AddCustomizePubSession: %v", err)
		}
	case "rtsp":
		in.rconn = s.RtspConn()
		_ = in.rconn.SetReadDeadline(time.Now().Add(lalclient.IdleTimeout))
		in.rcl = rtspref.NewClient(in.rconn)
		_, sps, pps := gen.ParamSets("avc", 0)
		tracks := []rtspref.Track{
			{Media: "video", PT: 96, ClockRate: 90000, Encoding: "H264", Fmtp: rtspref.H264Fmtp(sps, pps), Control: "streamid=0"},
			{Media: "audio", PT: 97, Encoding: "MPEG4-GENERIC", ClockRate: ikAacHz, Channels: ikCodecs.AscChan, Fmtp: rtspref.AacFmtp(gen.Asc(ikCodecs.AscObj, ikCodecs.AscFreq, ikCodecs.AscChan)), Control: "streamid=1"},
		}
		in.vseq = &rtpref.Sequencer{PT: 96, SSRC: 0x15000001, Seq: 1000}
		in.aseq = &rtpref.Sequencer{PT: 97, SSRC: 0x15000002, Seq: 2000}
		if resp, err := in.rcl.Publish("rtsp://127.0.0.1:5544/live/"+stream, tracks); err != nil {
			if v := s.PanicViolation(); v != nil {
				return nil, v
			}
			return nil, pbt.V("publish-refused/"+in.tag(), "ANNOUNCE/SETUP/RECORD failed: %v (response %+v)", err, resp)
		}
		_ = in.rconn.SetReadDeadline(time.Time{})
		in.rconn.WaitPeerIdle(lalclient.IdleTimeout)
		// lal turns the session description into sequence headers in a goroutine of its own (bounded wait, not judged)
		deadline := time.Now().Add(5 * time.Second)
		for time.Now().Before(deadline) {
			if sg := s.SM.StatGroup(stream); sg != nil && sg.VideoCodec != "" {
				break
			}
			time.Sleep(200 * time.Microsecond)
		}
	case "gb":
		var resp base.ApiCtrlStartRtpPubResp
		for try := 0; try < 3; try++ {
			if s.Call("CtrlStartRtpPub", func() {
				resp = s.SM.CtrlStartRtpPub(base.ApiCtrlStartRtpPubReq{StreamName: stream, Port: 0, TimeoutMs: c.GbTimeoutMs, IsTcpFlag: 1})
			}) {
				return nil, s.PanicViolation()
			}
			if resp.ErrorCode != base.ErrorCodeListenUdpPortFail {
				break
			}
		}
		if resp.ErrorCode != base.ErrorCodeSucc {
			if resp.ErrorCode == base.ErrorCodeListenUdpPortFail {
				lalclient.Harness("CtrlStartRtpPub: no port: %+v", resp)
			}
			return nil, pbt.V("publish-refused/"+in.tag(), "start_rtp_pub (timeout_ms=%d) answered %d %s although the stream has no input", c.GbTimeoutMs, resp.ErrorCode, resp.Desp)
		}
		conn, err := net.DialTimeout("tcp", fmt.Sprintf("127.0.0.1:%d", resp.Data.Port), 10*time.Second)
		if err != nil {
			lalclient.Harness("dial gb28181 tcp port %d: %v", resp.Data.Port, err)
		}
		in.gconn = conn
		in.gseq = &rtpref.Sequencer{PT: 96, SSRC: 0x6b150001, Seq: 3000}
	default:
		lalclient.Harness("unknown input kind %q", c.Input)
	}
	return in, nil
}

func (in *ikInput) close() {
	switch in.kind {
	case "rtmp":
		in.r.p.Close()
		in.r.p.Conn.WaitPeerDone(lalclient.IdleTimeout)
	case "rtsp":
		_ = in.rconn.Close()
		in.rconn.WaitPeerDone(lalclient.IdleTimeout)
	case "gb":
		_ = in.gconn.Close()
	case "cust":
		in.r.s.Call("DelCustomizePubSession", func() { in.r.s.SM.DelCustomizePubSession(in.ctx) })
	}
}

func (in *ikInput) gbWrite(raw []byte) error {
	b := make([]byte, 2+len(raw))
	binary.BigEndian.PutUint16(b, uint16(len(raw)))
	copy(b[2:], raw)
	_ = in.gconn.SetWriteDeadline(time.Now().Add(lalclient.IdleTimeout))
	_, err := in.gconn.Write(b)
	in.gtotal += uint64(len(raw))
	return err
}

func ikPsStreams() []psref.ES {
	return []psref.ES{{StreamID: psref.StreamIDVideo, StreamType: psref.StreamTypeH264}, {StreamID: psref.StreamIDAudio, StreamType: psref.StreamTypeAAC}}
}

// send feeds one item to the input.
func (in *ikInput) send(it gen.Item) *pbt.Violation {
	cd := ikCodecs
	s := in.r.s
	switch in.kind {
	case "rtmp":
		if err := in.r.p.SendItem(it, cd, 0); err != nil {
			return in.gone(it, err)
		}
	case "cust":
		pl := it.Payload(cd)
		msg := base.RtmpMsg{Header: base.RtmpHeader{Csid: 6, MsgLen: uint32(len(pl)), MsgTypeId: it.TypeID(), MsgStreamId: 1, TimestampAbs: it.Ts}, Payload: pl}
		var err error
		if s.Call("FeedRtmpMsg", func() { err = in.ctx.FeedRtmpMsg(msg) }) {
			return s.PanicViolation()
		}
		if err != nil {
			return in.gone(it, err)
		}
	case "rtsp":
		var ch int
		var pkts []*rtpref.Packet
		switch it.Kind {
		case "video":
			nals := make([][]byte, len(it.Nals))
			for k, n := range it.Nals {
				nals[k] = n.Bytes()
			}
			pls, err := rtpref.PacketizeVideo(rtpref.Codec(cd.Video), nals, make([]rtpref.UnitPlan, len(nals)), 1400)
			if err != nil {
				lalclient.Harness("PacketizeVideo: %v", err)
			}
			ch, pkts = 0, in.vseq.Frame(pls, it.Ts*90, true)
		case "audio":
			pl, err := rtpref.AACHbr.AACPacket([][]byte{it.Payload(cd)[2:]})
			if err != nil {
				lalclient.Harness("AACPacket: %v", err)
			}
			ch, pkts = 2, in.aseq.Frame([][]byte{pl}, uint32(uint64(it.Ts)*ikAacHz/1000), true)
		default:
			return nil // sequence headers travel in the session description
		}
		for _, p := range pkts {
			if err := in.rcl.WriteFrame(ch, p.Marshal()); err != nil {
				return in.gone(it, err)
			}
		}
	case "gb":
		if it.Kind != "video" && it.Kind != "audio" {
			return nil
		}
		ps := psref.PackHeader(uint64(it.Ts)*90, 0, 50000, 0)
		if in.gn == 0 || (it.Kind == "video" && it.Key) {
			ps = append(ps, psref.SystemHeader(50000, 1, 1, ikPsStreams())...)
			ps = append(ps, psref.PSM(1, nil, ikPsStreams())...)
		}
		st := psref.Stamp{HasPTS: true, PTS: uint64(it.Ts) * 90}
		if it.Kind == "video" {
			var es []byte
			add := func(n []byte) { es = append(append(es, 0, 0, 0, 1), n...) }
			if it.Key {
				_, sps, pps := gen.ParamSets(cd.Video, 0)
				add(sps)
				add(pps)
			}
			for _, n := range it.Nals {
				add(n.Bytes())
			}
			for _, p := range psref.SplitPES(psref.StreamIDVideo, es, 65000, st, psref.Stamp{}, 0) {
				ps = append(ps, p...)
			}
		} else {
			raw := it.Payload(cd)[2:]
			h := codecref.ADTS{ProtectionAbsent: true, Profile: uint8(cd.AscObj - 1), FreqIndex: uint8(cd.AscFreq), ChannelConfig: uint8(cd.AscChan), FrameLength: uint16(7 + len(raw)), BufferFullness: 0x7FF}
			es := append(h.Marshal(), raw...)
			for _, p := range psref.SplitPES(psref.StreamIDAudio, es, 65000, st, psref.Stamp{}, 0) {
				ps = append(ps, p...)
			}
		}
		if _, err := psref.Parse(ps); err != nil {
			lalclient.Harness("reference PS muxer: %v", err)
		}
		var pls [][]byte
		for off := 0; off < len(ps); off += 1400 {
			end := off + 1400
			if end > len(ps) {
				end = len(ps)
			}
			pls = append(pls, ps[off:end])
		}
		for _, p := range in.gseq.Frame(pls, it.Ts*90, true) {
			raw := p.Marshal()
			if in.gfirst == nil {
				in.gfirst = raw
			}
			if err := in.gbWrite(raw); err != nil {
				return in.gone(it, err)
			}
		}
		in.gn++
	}
	return nil
}

// sync: lal has processed everything that was sent (customize: the feed is synchronous).
func (in *ikInput) sync() {
	switch in.kind {
	case "rtmp":
		in.r.p.WaitIdle()
	case "rtsp":
		in.rconn.WaitPeerIdle(lalclient.IdleTimeout)
	case "gb":
		// a stale duplicate of the first packet: lal counts a packet before it parses it and parses in the reading
		// goroutine, so once the duplicate has been counted everything before it has been processed
		if in.gfirst == nil || in.gbWrite(in.gfirst) != nil {
			return
		}
		deadline := time.Now().Add(lalclient.IdleTimeout)
		for {
			st := in.r.s.SM.StatGroup(stream)
			if st == nil || st.StatPub.SessionId == "" || st.StatPub.ReadBytesSum >= in.gtotal {
				return
			}
			if time.Now().After(deadline) {
				lalclient.Harness("gb28181 session consumed %d of %d bytes", st.StatPub.ReadBytesSum, in.gtotal)
			}
			time.Sleep(200 * time.Microsecond)
		}
	}
}

// ikWorld is the state of one case.
type ikWorld struct {
	c       IKCase
	r       *runner
	in      *ikInput
	stalled []*attached
	control *attached
	n       int // frames pumped
	ts      uint32
}

// pump feeds one video frame (a key frame every fifth time) and one audio frame.
func (w *ikWorld) pump() *pbt.Violation {
	w.ts += 40
	v := frame(ikCodecs, w.ts, 120+w.n%7, uint32(150000+w.n), w.n%5 == 0)
	a := gen.Item{Kind: "audio", Ts: w.ts + 10, ALen: 24, ASeed: uint32(160000 + w.n)}
	w.n++
	if x := w.in.send(v); x != nil {
		return x
	}
	return w.in.send(a)
}

// feed pumps until bytes have reached every given consumer on two occasions (lal's writer goroutine accounts a write
// after it has returned, so the first of two completed writes is certainly accounted).  false: some consumer could not
// be fed.
func (w *ikWorld) feed(who []*attached) (bool, *pbt.Violation) {
	for round := 0; round < 2; round++ {
		before := map[*attached]int64{}
		for _, a := range who {
			before[a] = a.conn.TotalReceived()
		}
		grown := func() bool {
			for _, a := range who {
				if a.conn.TotalReceived() == before[a] {
					return false
				}
			}
			return true
		}
		ok := false
		for k := 0; k < 30 && !ok; k++ {
			if v := w.pump(); v != nil {
				return false, v
			}
			w.in.sync()
			for n := 0; n < 20 && !grown(); n++ { // the consumers' writer goroutines run on their own
				time.Sleep(500 * time.Microsecond)
			}
			ok = grown()
		}
		if !ok {
			return false, nil
		}
	}
	return true, nil
}

func (w *ikWorld) all() []*attached {
	return append(append([]*attached(nil), w.stalled...), w.control)
}

func runIK(c IKCase) *pbt.Violation {
	prevRtmp := rtmp.VerifSetWriteChanSize(c.Queue)
	prevRtsp := rtsp.VerifSetCommandSessionWriteChanSize(c.Queue)
	prevFlvQ, prevTsQ := httpflv.SubSessionWriteChanSize, httpts.SubSessionWriteChanSize
	prevFlvT, prevTsT := httpflv.SubSessionWriteTimeoutMs, httpts.SubSessionWriteTimeoutMs
	prevInt := base.LogicCheckSessionAliveIntervalSec
	defer func() {
		rtmp.VerifSetWriteChanSize(prevRtmp)
		rtsp.VerifSetCommandSessionWriteChanSize(prevRtsp)
		httpflv.SubSessionWriteChanSize, httpts.SubSessionWriteChanSize = prevFlvQ, prevTsQ
		httpflv.SubSessionWriteTimeoutMs, httpts.SubSessionWriteTimeoutMs = prevFlvT, prevTsT
		base.LogicCheckSessionAliveIntervalSec = prevInt
	}()
	base.LogicCheckSessionAliveIntervalSec = 1 // every tick is a sweep
	s := inproc.New(inproc.Config{})
	defer s.Close()
	r := &runner{c: Case{Codecs: ikCodecs}, s: s}
	defer func() {
		for _, a := range r.cons {
			a.pc.set(-1)
		}
	}()
	in, v := startIKInput(r, c)
	if v != nil {
		return v
	}
	defer in.close()
	w := &ikWorld{c: c, r: r, in: in, ts: 1000}
	sig := func(what string, a *attached) string { return what + "/" + in.tag() + "/" + a.kind() }

	// prologue: sequence headers (RTMP-shaped inputs) and enough frames of both tracks for every remuxer on the way
	// (PS unpacker, A/V interleave queue) to have let the headers through: the session description exists afterwards
	for _, it := range []gen.Item{{Kind: "vsh", Ts: w.ts}, {Kind: "ash", Ts: w.ts}} {
		if v := in.send(it); v != nil {
			return v
		}
	}
	for k := 0; k < 6; k++ {
		if v := w.pump(); v != nil {
			return v
		}
	}
	in.sync()

	attachOne := func(kind string, stall bool) *pbt.Violation {
		k := Cons{Kind: kind, ResumeAt: -1, Ping: -1}
		q := 1024
		if stall {
			k.Stall, k.Mode, k.End = true, "stall", "sweep"
			q = c.Queue
		}
		a, v := r.attach(stream, k, q, true)
		if v != nil {
			return v
		}
		if a == nil {
			pbt.Count("ik/consumer-left-out-no-session-description", 1)
			return nil
		}
		r.cons = append(r.cons, a)
		if stall {
			w.stalled = append(w.stalled, a)
		} else {
			w.control = a
		}
		return nil
	}
	for _, k := range c.Stalled {
		if v := attachOne(k, true); v != nil {
			return v
		}
	}
	if v := attachOne(c.Control, false); v != nil {
		return v
	}
	if w.control == nil || len(w.stalled) == 0 {
		pbt.Count("ik/case-left-out-consumer-missing", 1)
		return nil
	}
	bytesAtJoin := map[*attached]int64{}
	for _, a := range w.all() {
		bytesAtJoin[a] = a.conn.TotalReceived()
	}

	// everybody is flowing; sweeps while everybody is healthy disconnect nobody
	fed, v := w.feed(w.all())
	if v != nil {
		return v
	}
	if !fed {
		pbt.Count("ik/case-left-out-consumer-not-fed", 1)
		return nil
	}
	for n := 0; n < c.PreSweeps; n++ {
		if n > 0 {
			if fed, v = w.feed(w.all()); v != nil {
				return v
			} else if !fed {
				break
			}
		}
		if v := r.nextTick(); v != nil {
			return v
		}
		time.Sleep(time.Millisecond)
		for i, a := range w.all() {
			if a.conn.PeerGone() {
				return pbt.V(sig("S4/healthy-consumer-swept", a), "consumer %d (%s), which reads everything and had received bytes on two occasions since it joined, was disconnected by liveness sweep %d (input: %s, timeout_ms=%d)", i, a.kind(), r.ticks, c.Input, c.GbTimeoutMs)
			}
		}
		pbt.Count("ik/pre-sweeps-done", 1)
	}

	// stall; then more frames than a queue holds
	flowing := map[*attached]bool{}
	for _, a := range w.stalled {
		if a.rs != nil && a.conn.TotalReceived() > bytesAtJoin[a] {
			flowing[a] = true
		}
		a.conn.SetRecvWindow(0)
	}
	for k := 0; k < c.Queue+8; k++ {
		if v := w.pump(); v != nil {
			return v
		}
	}
	in.sync()

	controlFed := true
	feedControl := func() *pbt.Violation {
		ok, v := w.feed([]*attached{w.control})
		if v != nil {
			return v
		}
		controlFed = controlFed && ok
		return nil
	}
	if v := feedControl(); v != nil {
		return v
	}
	// first sweep
	recvAtTick1 := map[*attached]int64{}
	for _, a := range w.stalled {
		recvAtTick1[a] = a.conn.TotalReceived()
	}
	if v := r.nextTick(); v != nil {
		return v
	}
	wroteAtTick1 := map[string]uint64{}
	nothingWritten := map[string]bool{}
	if sg := s.SM.StatGroup(stream); sg != nil {
		for _, ss := range sg.StatSubs {
			wroteAtTick1[ss.RemoteAddr] = ss.WroteBytesSum
		}
	}
	// data between the sweeps: the input stays read-alive, the control consumer is written to, stalled ones are not
	if v := feedControl(); v != nil {
		return v
	}
	time.Sleep(2 * time.Millisecond) // lal's writer goroutines update the byte counters after the write returns
	if sg := s.SM.StatGroup(stream); sg != nil {
		for _, ss := range sg.StatSubs {
			if wa, ok := wroteAtTick1[ss.RemoteAddr]; ok && wa == ss.WroteBytesSum {
				nothingWritten[ss.RemoteAddr] = true
			}
		}
	}
	for _, a := range w.stalled {
		if a.conn.TotalReceived() != recvAtTick1[a] {
			delete(nothingWritten, a.conn.LocalAddr().String())
		}
	}
	// second sweep
	if v := r.nextTick(); v != nil {
		return v
	}
	judged := func(a *attached) bool { return nothingWritten[a.conn.LocalAddr().String()] || flowing[a] }
	again := false
	for _, a := range w.stalled {
		if judged(a) && !waitGone(a, 300*time.Millisecond) {
			again = true
		}
	}
	if again {
		// the writer goroutine of a stalled consumer may have accounted its last write (or taken one more entry out of
		// the full queue) after the first sweep had looked: one more round
		pbt.Count("ik/third-sweep-for-lagging-writer", 1)
		if v := feedControl(); v != nil {
			return v
		}
		if v := r.nextTick(); v != nil {
			return v
		}
	}
	if v := s.PanicViolation(); v != nil {
		return v
	}
	// the control consumer is still connected
	if controlFed {
		time.Sleep(time.Millisecond)
		if a := w.control; a.conn.PeerGone() {
			return pbt.V(sig("S4/healthy-consumer-swept", a), "the consumer that reads everything (%s) was disconnected by the liveness sweeps although bytes reached it on two occasions before each of the %d sweeps (input: %s, timeout_ms=%d; %d bytes received)", a.kind(), r.ticks, c.Input, c.GbTimeoutMs, a.conn.TotalReceived())
		}
		pbt.Count("ik/control-consumer-judged", 1)
	} else {
		pbt.Count("ik/control-consumer-not-judged-not-fed", 1)
	}
	// the stalled consumers are not
	for i, a := range w.stalled {
		j := judged(a)
		if !j && a.conn.PeerGone() {
			// already disconnected by the first sweep after it stalled (it had lived through a sweep before, and nothing
			// was written to it since): no longer in the statistics, hence not in nothingWritten
			j = true
			pbt.Count("ik/stalled-consumer-swept-by-first-sweep-after-stall", 1)
		}
		if j && !waitGone(a, 2*time.Second) {
			// a sweep disposes a session synchronously: lal's end still open and the session still listed = not disconnected
			if st := inGroupStat(s, a); strings.HasPrefix(st, "yes") {
				return pbt.V(sig("S4/not-disconnected-by-sweep", a), "stream with a %s input (start_rtp_pub timeout_ms=%d): stalled consumer %d (%s) is still connected after %d liveness sweeps, during the last of which nothing could be written to it (lal has not closed its end; bytes received %d, unread %d; in lal's group statistics: %s; input in the statistics: pub=%q)", c.Input, c.GbTimeoutMs, i, a.kind(), r.ticks, a.conn.TotalReceived(), a.conn.Pending(), st, pubOf(s))
			}
		}
		a.conn.SetRecvWindow(-1)
		a.pc.set(-1)
		if !j {
			pbt.Count("ik/sweep-not-judged-bytes-were-accounted/"+a.kind(), 1)
			continue
		}
		if !waitClosed(a, lalclient.DeliverTimeout) {
			return pbt.V(sig("S4/not-disconnected-by-sweep", a), "stream with a %s input (start_rtp_pub timeout_ms=%d): stalled consumer %d (%s) is still connected after %d liveness sweeps during which nothing could be written to it (lal closed its end: %v; in lal's group statistics: %s)", c.Input, c.GbTimeoutMs, i, a.kind(), r.ticks, a.conn.PeerGone(), inGroupStat(s, a))
		}
		pbt.Count("ik/stalled-consumer-swept/"+a.kind(), 1)
		pbt.Count("ik/stalled-consumer-swept/"+in.tag(), 1)
	}
	return nil
}

func pubOf(s *inproc.Server) string {
	if sg := s.SM.StatGroup(stream); sg != nil {
		return sg.StatPub.SessionId
	}
	return ""
}

func classifyIK(c IKCase) (bool, []string) {
	labels := []string{"input:" + c.Input, "control:" + c.Control, fmt.Sprintf("pre-sweeps:%d", c.PreSweeps), fmt.Sprintf("queue:%d", c.Queue)}
	if c.Input == "gb" {
		labels = append(labels, fmt.Sprintf("gb-timeout:%d", c.GbTimeoutMs))
	}
	for _, k := range c.Stalled {
		labels = append(labels, "stalled:"+k, "stalled:"+k+"/input:"+c.Input)
	}
	return len(c.Stalled) > 0, uniq(labels)
}

func TestSweepByInputKind(t *testing.T) {
	pbt.Run(t, pbt.Spec[IKCase]{
		ID: "C15", Name: "sweep-by-input-kind", Gen: genIK, Run: runIK, Classify: classifyIK,
		Quick: 40, Thorough: 400,
	})
}
