package c15

// Consumers of the check.  They are the reference clients of harness/lalclient with one difference: every byte
// they read goes through a pacer, so that a consumer can read at a generated rate ("slow" mode) instead of only
// "everything" or "nothing".  Decoding is incremental over the whole received byte stream, so a framing defect
// anywhere in the stream (also in the continuation after a stall) ends the decoder with an error.

import (
	"bytes"
	"crypto/sha256"
	"fmt"
	"io"
	"sync"
	"time"

	"verif/harness/inproc"
	"verif/harness/lalclient"
	"verif/harness/memconn"
	"verif/ref/flvref"
	"verif/ref/rtmpref"
	"verif/ref/rtspref"
	"verif/ref/wsref"
)

// pacer meters the reads of one consumer: credit < 0 = unlimited, 0 = the consumer does not read, n > 0 = it may
// read n more bytes.
type pacer struct {
	conn   *memconn.Conn
	mu     sync.Mutex
	cond   *sync.Cond
	credit int64
}

func newPacer(conn *memconn.Conn) *pacer {
	p := &pacer{conn: conn, credit: -1}
	p.cond = sync.NewCond(&p.mu)
	return p
}

func (p *pacer) Read(b []byte) (int, error) {
	p.mu.Lock()
	for p.credit == 0 {
		p.cond.Wait()
	}
	n := len(b)
	if p.credit > 0 && int64(n) > p.credit {
		n = int(p.credit)
	}
	p.mu.Unlock()
	m, err := p.conn.Read(b[:n])
	p.mu.Lock()
	if p.credit > 0 {
		p.credit -= int64(m)
		if p.credit < 0 {
			p.credit = 0
		}
	}
	p.mu.Unlock()
	return m, err
}

func (p *pacer) Write(b []byte) (int, error) { return p.conn.Write(b) }

// set replaces the credit (-1 = unlimited).
func (p *pacer) set(n int64) {
	p.mu.Lock()
	p.credit = n
	p.cond.Broadcast()
	p.mu.Unlock()
}

// grant adds to a finite credit.
func (p *pacer) grant(n int64) {
	p.mu.Lock()
	if p.credit >= 0 {
		p.credit += n
	}
	p.cond.Broadcast()
	p.mu.Unlock()
}

func recKey(r lalclient.Rec) [32]byte {
	h := sha256.New()
	h.Write([]byte{r.Type, byte(r.Ts >> 24), byte(r.Ts >> 16), byte(r.Ts >> 8), byte(r.Ts)})
	h.Write(r.Payload)
	var k [32]byte
	copy(k[:], h.Sum(nil))
	return k
}

func isHeaderRec(r lalclient.Rec) bool {
	return r.Type == 18 || (r.Type == 9 && len(r.Payload) > 1 && r.Payload[1] == 0 && r.Payload[0]&0x80 == 0) || (r.Type == 8 && len(r.Payload) > 1 && r.Payload[0]>>4 == 10 && r.Payload[1] == 0) ||
		(r.Type == 9 && len(r.Payload) > 0 && r.Payload[0]&0x80 != 0 && r.Payload[0]&0x0f == 0)
}

// sub is an RTMP / HTTP-FLV / WebSocket-FLV subscriber decoding in a background goroutine.
type sub struct {
	kind string
	conn *memconn.Conn
	pc   *pacer

	mu      sync.Mutex
	cond    *sync.Cond
	recs    []lalclient.Rec
	keys    [][32]byte
	at      []time.Time // arrival (decode) time of each record
	video   bool        // a video frame (not a sequence header) has been decoded
	err     error
	eof     bool
	partial int
	joinErr error
}

func newSub(kind string, conn *memconn.Conn) *sub {
	c := &sub{kind: kind, conn: conn, pc: newPacer(conn)}
	c.cond = sync.NewCond(&c.mu)
	return c
}

func (c *sub) add(r lalclient.Rec) {
	k := recKey(r)
	now := time.Now()
	c.mu.Lock()
	c.recs = append(c.recs, r)
	c.keys = append(c.keys, k)
	c.at = append(c.at, now)
	if r.Type == 9 && !isHeaderRec(r) {
		c.video = true
	}
	c.cond.Broadcast()
	c.mu.Unlock()
}

func (c *sub) finish(err error) {
	c.mu.Lock()
	if err != nil && err != io.EOF && c.err == nil {
		c.err = err
	}
	c.eof = true
	c.cond.Broadcast()
	c.mu.Unlock()
}

func (c *sub) Recs() []lalclient.Rec {
	c.mu.Lock()
	defer c.mu.Unlock()
	return append([]lalclient.Rec(nil), c.recs...)
}

func (c *sub) Err() error {
	c.mu.Lock()
	defer c.mu.Unlock()
	return c.err
}

func (c *sub) Ended() bool {
	c.mu.Lock()
	defer c.mu.Unlock()
	return c.eof
}

func (c *sub) flowing() bool {
	c.mu.Lock()
	defer c.mu.Unlock()
	return c.video && !c.eof
}

func (c *sub) count() int {
	c.mu.Lock()
	defer c.mu.Unlock()
	return len(c.recs)
}

// waitKey blocks until a record with the given key has been decoded at index >= from; it returns the index and
// the arrival time, or -1 when the stream ended / the timeout expired.
func (c *sub) waitKey(key [32]byte, from int, timeout time.Duration) (int, time.Time) {
	deadline := time.Now().Add(timeout)
	t := time.AfterFunc(timeout, func() { c.mu.Lock(); c.cond.Broadcast(); c.mu.Unlock() })
	defer t.Stop()
	c.mu.Lock()
	defer c.mu.Unlock()
	next := from
	for {
		for ; next < len(c.keys); next++ {
			if c.keys[next] == key {
				return next, c.at[next]
			}
		}
		if c.eof || !time.Now().Before(deadline) {
			return -1, time.Time{}
		}
		c.cond.Wait()
	}
}

// waitCount blocks until more than n records have been decoded.
func (c *sub) waitCount(n int, timeout time.Duration) bool {
	deadline := time.Now().Add(timeout)
	t := time.AfterFunc(timeout, func() { c.mu.Lock(); c.cond.Broadcast(); c.mu.Unlock() })
	defer t.Stop()
	c.mu.Lock()
	defer c.mu.Unlock()
	for len(c.recs) <= n {
		if c.eof || !time.Now().Before(deadline) {
			return false
		}
		c.cond.Wait()
	}
	return true
}

func (c *sub) WaitEnded(timeout time.Duration) bool {
	deadline := time.Now().Add(timeout)
	t := time.AfterFunc(timeout, func() { c.mu.Lock(); c.cond.Broadcast(); c.mu.Unlock() })
	defer t.Stop()
	c.mu.Lock()
	defer c.mu.Unlock()
	for !c.eof {
		if !time.Now().Before(deadline) {
			return false
		}
		c.cond.Wait()
	}
	return true
}

func filterClosed(err error) error {
	if err == nil || err == io.EOF {
		return nil
	}
	if bytes.Contains([]byte(err.Error()), []byte("closed")) {
		return nil
	}
	return err
}

func newRtmpSub(s *inproc.Server, app, name string) *sub {
	conn := s.RtmpConn()
	c := newSub("rtmp", conn)
	cl := rtmpref.NewClient(c.pc)
	_ = conn.SetReadDeadline(time.Now().Add(lalclient.IdleTimeout))
	for _, st := range []func() error{
		cl.Handshake,
		func() error { return cl.Connect(app, "rtmp://127.0.0.1/"+app) },
		cl.CreateStream,
		func() error { return cl.Play(name) },
	} {
		if err := st(); err != nil {
			c.joinErr = err
			c.finish(nil)
			return c
		}
	}
	_ = conn.SetReadDeadline(time.Time{})
	conn.WaitPeerIdle(lalclient.IdleTimeout)
	go func() {
		for {
			m, err := cl.ReadMedia()
			if err != nil {
				if err == io.ErrUnexpectedEOF {
					// lal queues a message (all its chunks) as one write and the in-memory connection delivers a
					// write as a whole, so a stream that ends inside a chunk was torn by lal
					c.finish(fmt.Errorf("rtmp chunk stream ended inside a chunk"))
				} else {
					c.finish(filterClosed(err))
				}
				return
			}
			if m.TypeID == rtmpref.TypeAggregate {
				c.finish(fmt.Errorf("unexpected aggregate message from lal"))
				return
			}
			c.add(lalclient.Rec{Type: m.TypeID, Ts: m.Ts, Payload: m.Payload})
		}
	}()
	return c
}

func newFlvSub(s *inproc.Server, app, name string, ws bool) *sub {
	conn := s.HttpSub("/"+app+"/"+name+".flv", ws)
	kind := "flv"
	if ws {
		kind = "wsflv"
	}
	c := newSub(kind, conn)
	conn.WaitPeerIdle(lalclient.IdleTimeout)
	go func() {
		var hdrBuf []byte
		hdrDone := false
		fp := &flvref.Parser{Strict: true}
		var wp wsref.Parser
		buf := make([]byte, 64*1024)
		for {
			n, err := c.pc.Read(buf)
			if n > 0 {
				data := buf[:n]
				if !hdrDone {
					hdrBuf = append(hdrBuf, data...)
					i := bytes.Index(hdrBuf, []byte("\r\n\r\n"))
					if i < 0 {
						if err != nil {
							c.finish(filterClosed(err))
							return
						}
						continue
					}
					data = hdrBuf[i+4:]
					hdrDone = true
				}
				if ws {
					frames, werr := wp.Feed(data)
					if werr != nil {
						c.finish(fmt.Errorf("websocket framing: %w", werr))
						return
					}
					data = nil
					for _, f := range frames {
						if !f.Fin || f.Opcode != wsref.OpBinary || f.Masked {
							c.finish(fmt.Errorf("websocket frame not a final unmasked binary frame: fin=%v opcode=%d masked=%v", f.Fin, f.Opcode, f.Masked))
							return
						}
						if wsref.MinimalLenForm(f.PayloadLen) != f.LenForm {
							c.finish(fmt.Errorf("websocket frame length %d encoded in %d-bit form", f.PayloadLen, f.LenForm))
							return
						}
						data = append(data, f.Payload...)
					}
				}
				tags, ferr := fp.Feed(data)
				for _, tg := range tags {
					c.add(lalclient.Rec{Type: tg.TagType(), Ts: tg.Timestamp, Payload: tg.Data})
				}
				if ferr != nil {
					c.finish(fmt.Errorf("flv framing: %w", ferr))
					return
				}
				c.mu.Lock()
				c.partial = len(fp.Pending()) + len(wp.Pending())
				c.mu.Unlock()
			}
			if err != nil {
				c.finish(filterClosed(err))
				return
			}
		}
	}()
	return c
}

// tsSub collects the raw HTTP-TS body; demuxing happens in the oracle.
type tsSub struct {
	conn *memconn.Conn
	pc   *pacer
	mu   sync.Mutex
	cond *sync.Cond
	body []byte
	eof  bool
}

func newTsSub(s *inproc.Server, app, name string) *tsSub {
	conn := s.HttpSub("/"+app+"/"+name+".ts", false)
	c := &tsSub{conn: conn, pc: newPacer(conn)}
	c.cond = sync.NewCond(&c.mu)
	conn.WaitPeerIdle(lalclient.IdleTimeout)
	go func() {
		var hdrBuf []byte
		hdrDone := false
		buf := make([]byte, 64*1024)
		for {
			n, err := c.pc.Read(buf)
			if n > 0 {
				data := buf[:n]
				c.mu.Lock()
				if !hdrDone {
					hdrBuf = append(hdrBuf, data...)
					if i := bytes.Index(hdrBuf, []byte("\r\n\r\n")); i >= 0 {
						c.body = append(c.body, hdrBuf[i+4:]...)
						hdrDone = true
					}
				} else {
					c.body = append(c.body, data...)
				}
				c.cond.Broadcast()
				c.mu.Unlock()
			}
			if err != nil {
				c.mu.Lock()
				c.eof = true
				c.cond.Broadcast()
				c.mu.Unlock()
				return
			}
		}
	}()
	return c
}

func (c *tsSub) Body() []byte {
	c.mu.Lock()
	defer c.mu.Unlock()
	return append([]byte(nil), c.body...)
}

func (c *tsSub) Ended() bool {
	c.mu.Lock()
	defer c.mu.Unlock()
	return c.eof
}

func (c *tsSub) WaitPred(pred func(body []byte) bool, timeout time.Duration) bool {
	deadline := time.Now().Add(timeout)
	t := time.AfterFunc(timeout, func() { c.mu.Lock(); c.cond.Broadcast(); c.mu.Unlock() })
	defer t.Stop()
	c.mu.Lock()
	defer c.mu.Unlock()
	seen := -1
	for {
		if len(c.body) != seen {
			seen = len(c.body)
			if pred(c.body) {
				return true
			}
		}
		if c.eof || !time.Now().Before(deadline) {
			return false
		}
		c.cond.Wait()
	}
}

// rtspSub plays over RTSP interleaved (optionally inside WebSocket frames).
type rtspSub struct {
	ws     *wsref.Stream // non-nil for RTSP over WebSocket
	conn   *memconn.Conn
	pc     *pacer
	cl     *rtspref.Client
	uri    string
	frames chan rtspref.Frame
	err    chan error
	got    []rtspref.Frame
}

func newRtspSub(s *inproc.Server, name string, ws bool) (*rtspSub, error) {
	var conn *memconn.Conn
	var cl *rtspref.Client
	var wss *wsref.Stream
	var pc *pacer
	if ws {
		conn = s.WsRtspConn()
		pc = newPacer(conn)
		wss = wsref.NewStream(pc)
		cl = rtspref.NewClient(wss)
	} else {
		conn = s.RtspConn()
		pc = newPacer(conn)
		cl = rtspref.NewClient(pc)
	}
	_ = conn.SetReadDeadline(time.Now().Add(lalclient.IdleTimeout))
	uri := "rtsp://127.0.0.1:5544/live/" + name
	done := make(chan error, 1)
	var body []byte
	go func() {
		r, err := cl.Describe(uri)
		if err == nil && r.Status != 200 {
			err = fmt.Errorf("describe %d", r.Status)
		}
		if err == nil {
			body = r.Body
		}
		done <- err
	}()
	select {
	case err := <-done:
		if err != nil {
			_ = conn.Close()
			return nil, err
		}
	case <-time.After(3 * time.Second):
		_ = conn.Close()
		return nil, fmt.Errorf("no sdp yet")
	}
	if err := cl.SetupPlay(uri, rtspref.SdpControls(body)); err != nil {
		_ = conn.Close()
		return nil, err
	}
	_ = conn.SetReadDeadline(time.Time{})
	conn.WaitPeerIdle(lalclient.IdleTimeout)
	rs := &rtspSub{ws: wss, conn: conn, pc: pc, cl: cl, uri: uri, frames: make(chan rtspref.Frame, 100000), err: make(chan error, 1)}
	go func() {
		for {
			f, err := cl.ReadFrame()
			if err != nil {
				rs.err <- err
				close(rs.frames)
				return
			}
			rs.frames <- f
		}
	}()
	return rs, nil
}
