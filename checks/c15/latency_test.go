package c15

// The delay oracle.
//
// "Never delays the publisher or any other subscriber by more than a small bound" is judged by measurement, on a
// machine that is usually heavily loaded, so no wall-clock number alone is ever a violation:
//
//   - baseline: before any consumer stalls, Baseline frames are published one by one; for each, the time until lal
//     has consumed it (publisher back in Read: the fan-out runs in the publisher's goroutine) and the time until
//     each healthy RTMP / FLV consumer has decoded it are recorded.  The second stream is timed the same way,
//     message by message, interleaved with the first (a concurrent control for machine noise).
//   - stall phase: frames of exactly the same sizes; the messages sent after the small queues have filled are timed.
//   - S1/publisher-delayed (S5/other-stream-publisher-delayed for the second stream): the median stall-phase time
//     exceeds max(20 x baseline median, 100 ms) AND, on at least two different messages, the publisher's goroutine
//     was seen PARKED inside lal's fan-out (same stack in two goroutine dumps 15 ms apart, not running / runnable,
//     not a GC wait).  A loaded machine makes goroutines runnable, not parked; a fan-out that waits for a stalled
//     consumer (sleep, channel send, blocking write, lock held by someone who waits) is parked.
//   - S2/healthy-consumer-delayed (S5/other-stream-consumer-delayed): the median delivery time of a healthy consumer
//     exceeds max(20 x its baseline median, 100 ms) AND is corroborated either by the parked fan-out above or by
//     the concurrent control: it also exceeds 20 x the median delivery time measured on the other stream in the
//     same stall phase.  Without corroboration the suspicion is only counted (evidence counter).
//
//   - single sends: any one message published while somebody is stalled (generated items from the first stall on, stall
//     phase) that takes longer than max(20 x the slowest baseline message, 1 s) AND during which the fan-out was
//     seen parked is S1/publisher-delayed as well: a one-off block (one wait per full queue) does not move a median.
//
// The rule is evaluated after every stall-phase message once minSamples are in, so that a fan-out which costs
// N x write-timeout per message is reported after a few messages instead of after the whole phase.

import (
	"sort"
	"strings"
	"time"

	"verif/drv/pbt"
)

const (
	minSamples  = 4
	delayFactor = 20
	delayFloor  = 100 * time.Millisecond
	minParked   = 2
)

type phase struct {
	pub, pub2 []time.Duration
	dels      map[*attached][]time.Duration
}

func (p *phase) del(a *attached, d time.Duration) {
	if p.dels == nil {
		p.dels = map[*attached][]time.Duration{}
	}
	p.dels[a] = append(p.dels[a], d)
}

type latency struct {
	base, stall      phase
	parked, parked2  int // messages during which the fan-out of the first / second stream was seen parked
	stack, stack2    string
	suspectsReported bool
}

func (l *latency) evidence(second bool, stack string) {
	if second {
		l.parked2++
		l.stack2 = stack
	} else {
		l.parked++
		l.stack = stack
	}
}

func median(d []time.Duration) time.Duration {
	if len(d) == 0 {
		return 0
	}
	s := append([]time.Duration(nil), d...)
	sort.Slice(s, func(i, j int) bool { return s[i] < s[j] })
	return s[len(s)/2]
}

func threshold(base []time.Duration) time.Duration {
	t := delayFactor * median(base)
	if t < delayFloor {
		t = delayFloor
	}
	return t
}

// parkedFanout reports whether the goroutine that runs lal's fan-out (the publisher's read loop inside
// Group.OnReadRtmpAvMsg) is parked: same stack in two dumps gap apart, in a waiting state that is not the garbage
// collector's.  At most one publisher has a message in flight at any time (the harness sends one message, waits,
// then sends on the other stream), so the goroutine found belongs to the message being timed.
func parkedFanout(gap time.Duration) (bool, string) {
	stuck, stack := pbt.StuckGoroutine("logic.(*Group).OnReadRtmpAvMsg", gap)
	if !stuck {
		return false, ""
	}
	hdr := strings.SplitN(stack, "\n", 2)[0]
	if strings.Contains(hdr, "GC ") || strings.Contains(hdr, "[GC") {
		return false, ""
	}
	return true, stack
}

func (l *latency) judge(r *runner, final bool) *pbt.Violation {
	type pubRule struct {
		sig         string
		base, stall []time.Duration
		parked      int
		stack       string
	}
	for _, pr := range []pubRule{
		{"S1/publisher-delayed", l.base.pub, l.stall.pub, l.parked, l.stack},
		{"S5/other-stream-publisher-delayed", l.base.pub2, l.stall.pub2, l.parked2, l.stack2},
	} {
		if len(pr.base) < minSamples || len(pr.stall) < minSamples {
			continue
		}
		thr, m := threshold(pr.base), median(pr.stall)
		if m <= thr {
			continue
		}
		if pr.parked >= minParked {
			return pbt.V(pr.sig, "lal needed a median of %v per published message while consumers were stalled (%d messages timed), against %v for frames of the same sizes before anybody stalled (threshold %v), and the fan-out was seen parked during %d of them:\n%s", m, len(pr.stall), median(pr.base), thr, pr.parked, pr.stack)
		}
		if final {
			pbt.Count("delay-suspected-but-fanout-never-parked", 1)
		}
	}
	// deliveries
	consumers := append([]*attached(nil), r.cons...)
	if r.c2 != nil {
		consumers = append(consumers, r.c2)
	}
	for _, a := range consumers {
		b, s := l.base.dels[a], l.stall.dels[a]
		if len(b) < minSamples || len(s) < minSamples {
			continue
		}
		thr, m := threshold(b), median(s)
		if m <= thr {
			continue
		}
		sig := "S2/healthy-consumer-delayed/" + a.kind()
		parked, stack := l.parked, l.stack
		if a.second {
			sig = "S5/other-stream-consumer-delayed/" + a.kind()
			parked, stack = l.parked2, l.stack2
		}
		if parked >= minParked {
			return pbt.V(sig, "a healthy consumer (%s) received the messages published while others were stalled with a median delay of %v (%d messages timed), against %v before anybody stalled (threshold %v); the fan-out was seen parked during %d messages:\n%s", a.kind(), m, len(s), median(b), thr, parked, stack)
		}
		// concurrent control: the healthy consumers of the other stream, timed in the same phase
		var ctl []time.Duration
		for _, o := range consumers {
			if o.second != a.second {
				ctl = append(ctl, l.stall.dels[o]...)
			}
		}
		if final && len(ctl) >= minSamples && m > delayFactor*median(ctl) {
			return pbt.V(sig, "a healthy consumer (%s) received the messages published while others were stalled with a median delay of %v (%d messages timed), against %v before anybody stalled (threshold %v) and against %v for the consumer of the other stream measured concurrently", a.kind(), m, len(s), median(b), thr, median(ctl))
		}
		if final {
			pbt.Count("delay-suspected-but-not-corroborated", 1)
		}
	}
	return nil
}

// single judges one send that took d (the fan-out was seen parked during it iff r.sendParked != "").
func (l *latency) single(r *runner, second bool, d time.Duration) *pbt.Violation {
	if !r.inStal || r.sendParked == "" {
		return nil
	}
	base, sig := l.base.pub, "S1/publisher-delayed"
	if second {
		base, sig = l.base.pub2, "S5/other-stream-publisher-delayed"
	}
	if len(base) < minSamples {
		return nil
	}
	var worst time.Duration
	for _, b := range base {
		if b > worst {
			worst = b
		}
	}
	thr := delayFactor * worst
	if thr < time.Second {
		thr = time.Second
	}
	if d <= thr {
		return nil
	}
	return pbt.V(sig, "lal needed %v for one published message (number %d) while consumers were stalled, against at most %v for the baseline frames before anybody stalled (threshold %v), and the fan-out was parked meanwhile:\n%s", d, len(r.P)-1, worst, thr, r.sendParked)
}
