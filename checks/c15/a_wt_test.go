package c15

// Sub-properties "write-timeout-rtmp" / "write-timeout-http": a consumer that stops reading "is itself disconnected once
// its write timeout ... fires" — judged on its own, with NO liveness sweep driven by the harness.
//
// Consumers with a write timeout (RTMP: lal's fixed 10 s, so the case really waits; HTTP-FLV / WebSocket-FLV / HTTP-TS:
// the exported variables, shortened to a generated 200..400 ms) receive a few frames, then stop reading completely:
// their receive window (0..4096 bytes) is filled by further frames so that a write of lal's writer goroutine is
// pending.  From then on the publisher keeps sending one small frame every 100 ms to a healthy witness consumer; each
// of them is timed (publisher served + witness decoded).  Oracle: every stalled consumer is disconnected (lal closes
// its end) within its write timeout + 5 s.  S4/not-disconnected-by-write-timeout/<kind> is reported only if
// (1) the harness was responsive during the whole wait (every keep-alive frame served within 2 s, and most of the
// planned ones were sent) and (2) a writer goroutine is parked inside the connection's Write (same stack in two dumps
// 1 s apart): a write has been pending beyond the deadline and nothing ends it.  RTSP sessions have no write timeout
// by design (the sweep disconnects them: main sub-property).

import (
	"fmt"
	"strings"
	"testing"
	"time"

	"github.com/q191201771/lal/pkg/httpflv"
	"github.com/q191201771/lal/pkg/httpts"
	"github.com/q191201771/lal/pkg/rtmp"
	"pgregory.net/rapid"

	"verif/drv/pbt"
	"verif/gen"
	"verif/harness/inproc"
	"verif/harness/lalclient"
)

type WTCons struct {
	Kind       string `json:"kind"`        // rtmp | flv | wsflv | ts
	TimeoutMs  int    `json:"timeout_ms"`  // HTTP kinds: configured write timeout; rtmp: lal's constant (10000), for the record
	Window     int    `json:"window"`      // receive window that fills up once the consumer has stopped reading
	StallAfter int    `json:"stall_after"` // frames received before it stops reading
}

type WTCase struct {
	Queue   int      `json:"queue"`
	Merge   int      `json:"merge"`
	Cons    []WTCons `json:"cons"`
	Witness string   `json:"witness"` // kind of the healthy consumer
}

const rtmpWriteTimeoutMs = 10000 // rtmp.serverSessionWriteAvTimeoutMs (not exported, not configurable)

func genWT(kinds []string, mustRtmp bool) func(t *rapid.T) WTCase {
	return func(t *rapid.T) WTCase {
		var c WTCase
		c.Queue = rapid.SampledFrom([]int{3, 8, 32, 1024}).Draw(t, "queue")
		c.Merge = rapid.SampledFrom([]int{0, 0, 300}).Draw(t, "merge")
		n := rapid.IntRange(1, 3).Draw(t, "ncons")
		for i := 0; i < n; i++ {
			k := WTCons{Kind: rapid.SampledFrom(kinds).Draw(t, "kind")}
			if mustRtmp && i == 0 {
				k.Kind = "rtmp"
			}
			k.TimeoutMs = rtmpWriteTimeoutMs
			if k.Kind != "rtmp" {
				k.TimeoutMs = rapid.SampledFrom([]int{300, 200, 400}).Draw(t, "timeout")
			}
			k.Window = rapid.SampledFrom([]int{0, 512, 4096}).Draw(t, "window")
			k.StallAfter = rapid.IntRange(0, 6).Draw(t, "stallAfter")
			c.Cons = append(c.Cons, k)
		}
		c.Witness = rapid.SampledFrom([]string{"flv", "rtmp", "wsflv"}).Draw(t, "witness")
		return c
	}
}

func runWT(c WTCase) *pbt.Violation {
	prevRtmp := rtmp.VerifSetWriteChanSize(c.Queue)
	prevFlvQ, prevTsQ := httpflv.SubSessionWriteChanSize, httpts.SubSessionWriteChanSize
	prevFlvT, prevTsT := httpflv.SubSessionWriteTimeoutMs, httpts.SubSessionWriteTimeoutMs
	defer func() {
		rtmp.VerifSetWriteChanSize(prevRtmp)
		httpflv.SubSessionWriteChanSize, httpts.SubSessionWriteChanSize = prevFlvQ, prevTsQ
		httpflv.SubSessionWriteTimeoutMs, httpts.SubSessionWriteTimeoutMs = prevFlvT, prevTsT
	}()
	s := inproc.New(inproc.Config{RtmpMergeWrite: c.Merge})
	defer s.Close()
	codecs := gen.Codecs{Video: "avc", Audio: "aac", AscObj: 2, AscFreq: 4, AscChan: 2}
	r := &runner{c: Case{Codecs: codecs, Merge: c.Merge}, s: s}
	defer func() {
		for _, a := range r.cons {
			a.pc.set(-1)
		}
	}()
	r.p = lalclient.NewPublisher(s, "live", stream, 4096)
	if r.p.Err != nil {
		return pbt.V("publish-refused", "%v", r.p.Err)
	}
	for _, it := range []gen.Item{{Kind: "vsh", Ts: 100}, {Kind: "ash", Ts: 100}} {
		if v := r.send(it); v != nil {
			return v
		}
	}
	r.p.WaitIdle()
	attachWT := func(kind string, q, timeoutMs int) (*attached, *pbt.Violation) {
		r.httpWriteTimeoutMs = timeoutMs
		return r.attachPlain(kind, q)
	}
	var stalledCons []*attached
	for _, k := range c.Cons {
		a, v := attachWT(k.Kind, c.Queue, k.TimeoutMs)
		if v != nil {
			return v
		}
		a.spec = Cons{Kind: k.Kind, Stall: true, Mode: "stall", Window: k.Window, StallAt: k.StallAfter}
		stalledCons = append(stalledCons, a)
	}
	witness, v := attachWT(c.Witness, 1024, 60000)
	if v != nil {
		return v
	}
	witness.spec = Cons{Kind: c.Witness}
	r.cons = append(append([]*attached(nil), stalledCons...), witness)

	seed := uint32(41000)
	ts := uint32(100)
	next := func(n int, key bool) gen.Item {
		seed++
		ts += 40
		return frame(codecs, ts, n, seed, key)
	}
	// served publishes one frame and waits until lal has consumed it and the witness has decoded it; it returns the
	// time that took (the responsiveness of server and harness together)
	served := func(it gen.Item) (time.Duration, *pbt.Violation) {
		t0 := time.Now()
		if v := r.send(it); v != nil {
			return 0, v
		}
		if v := r.waitConsumed(r.p, false); v != nil {
			return 0, v
		}
		if c.Witness == "rtmp" && c.Merge > 0 {
			return time.Since(t0), nil
		}
		if idx, _ := witness.rc.waitKey(recKey(r.P[len(r.P)-1]), 0, lalclient.DeliverTimeout); idx < 0 {
			if err := witness.rc.Err(); err != nil {
				return 0, pbt.V("S3/framing/"+c.Witness, "healthy consumer: %v", err)
			}
			return 0, pbt.V("S2/healthy-consumer-starved/"+c.Witness, "the healthy consumer (%s) did not receive published message %d within %v while other consumers were stalled (ended=%v)", c.Witness, len(r.P)-1, lalclient.DeliverTimeout, witness.rc.Ended())
		}
		return time.Since(t0), nil
	}
	if _, v := served(next(100, true)); v != nil {
		return v
	}
	maxAfter, maxTimeout := 0, 0
	for _, a := range stalledCons {
		if a.spec.StallAt > maxAfter {
			maxAfter = a.spec.StallAt
		}
	}
	for _, k := range c.Cons {
		if k.TimeoutMs > maxTimeout {
			maxTimeout = k.TimeoutMs
		}
	}
	stallNow := func(n int) {
		for _, a := range stalledCons {
			if a.spec.StallAt == n {
				a.pc.set(0) // it does not read any more: what lal still writes stays in its receive window
				a.conn.SetRecvWindow(a.spec.Window)
			}
		}
	}
	for n := 0; n <= maxAfter; n++ {
		stallNow(n)
		if _, v := served(next(150, false)); v != nil {
			return v
		}
	}
	// fill every receive window (seen at the transport: a small write queue may drop frames while lal's writer goroutine
	// lags): from then on the next frame lal queues for a stalled consumer makes its writer block in a write
	filled := func() bool {
		for _, a := range stalledCons {
			if a.conn.Pending() < a.spec.Window && !a.conn.PeerGone() {
				return false
			}
		}
		return true
	}
	for n := 0; n < 3 || !filled(); n++ {
		if n > 300 {
			lalclient.Harness("write-timeout: receive windows not filled after %d frames", n)
		}
		if _, v := served(next(700, false)); v != nil {
			return v
		}
	}
	start := time.Now()
	gone := map[*attached]time.Duration{}
	// responsiveness is judged over the current observation window (restarted once if the harness was not responsive)
	var worst time.Duration
	sent, winStart := 0, start
	limit := time.Duration(maxTimeout)*time.Millisecond + 5*time.Second
	extended := false
	for {
		for _, a := range stalledCons {
			if _, ok := gone[a]; !ok && a.conn.PeerGone() {
				gone[a] = time.Since(start)
			}
		}
		if len(gone) == len(stalledCons) {
			break
		}
		if time.Since(start) > limit {
			win := time.Since(winStart)
			if worst < 2*time.Second && sent >= int(win/(100*time.Millisecond))/4 {
				break // responsive all the time, and still connected: judged below
			}
			if extended {
				lalclient.Harness("write-timeout wait: harness not responsive (worst service time %v, %d keep-alive frames in %v)", worst, sent, win)
			}
			extended = true
			limit += time.Duration(maxTimeout)*time.Millisecond + 5*time.Second
			worst, sent, winStart = 0, 0, time.Now()
			continue
		}
		d, v := served(next(40, false))
		if v != nil {
			return v
		}
		sent++
		if d > worst {
			worst = d
		}
		time.Sleep(100 * time.Millisecond)
	}
	if v := s.PanicViolation(); v != nil {
		return v
	}
	for i, a := range stalledCons {
		if _, ok := gone[a]; ok {
			continue
		}
		stuck, stack := pbt.StuckGoroutine("connection.(*connection).write", time.Second)
		if !stuck || !strings.Contains(stack, "memconn.(*Conn).Write") {
			lalclient.Harness("stalled consumer %d (%s) not closed, yet no writer goroutine is parked in a write", i, a.kind())
		}
		return pbt.V("S4/not-disconnected-by-write-timeout/"+a.kind(), "consumer %d (%s, write timeout %d ms) stopped reading, its receive window (%d bytes) is full and a write has been pending for %v, but lal has not closed the connection (no liveness sweep was run; meanwhile %d keep-alive frames were served to a healthy %s consumer, the slowest in %v); writer:\n%s", i, a.kind(), c.Cons[i].TimeoutMs, a.spec.Window, time.Since(start), sent, c.Witness, worst, stack)
	}
	// the witness is still served
	if _, v := served(next(50, false)); v != nil {
		return v
	}
	r.p.Close()
	r.p.Conn.WaitPeerDone(lalclient.IdleTimeout)
	index := indexOf(r.P)
	pub := newPublished(codecs, r.items)
	for i, a := range r.cons {
		a.conn.SetRecvWindow(-1)
		a.pc.set(-1)
		settle(a)
		a.spec.End = "write-timeout"
		if v := checkFraming(a, i, index, pub); v != nil {
			return v
		}
	}
	return nil
}

// attachPlain attaches a consumer of an rtmp / flv / wsflv / ts kind with the given write queue size.
func (r *runner) attachPlain(kind string, q int) (*attached, *pbt.Violation) {
	a, v := r.attach(stream, Cons{Kind: kind, ResumeAt: -1, Ping: -1}, q, false)
	if v != nil {
		return nil, v
	}
	if a == nil {
		lalclient.Harness("consumer kind %s cannot be attached here", kind)
	}
	return a, nil
}

func classifyWT(c WTCase) (bool, []string) {
	labels := []string{fmt.Sprintf("queue:%d", c.Queue), "witness:" + c.Witness}
	for _, k := range c.Cons {
		labels = append(labels, "stalled:"+k.Kind, fmt.Sprintf("window:%d", k.Window))
		if k.Kind != "rtmp" {
			labels = append(labels, fmt.Sprintf("timeout:%d", k.TimeoutMs))
		}
	}
	if c.Merge > 0 {
		labels = append(labels, "merge-write")
	}
	return len(c.Cons) > 0, uniq(labels)
}

// one real 10 s wait per shard in the quick tier
func TestWriteTimeoutRtmp(t *testing.T) {
	pbt.Run(t, pbt.Spec[WTCase]{
		ID: "C15", Name: "write-timeout-rtmp", Gen: genWT([]string{"rtmp", "flv", "wsflv", "ts"}, true), Run: runWT, Classify: classifyWT,
		Quick: 1, Thorough: 4,
	})
}

func TestWriteTimeoutHttp(t *testing.T) {
	pbt.Run(t, pbt.Spec[WTCase]{
		ID: "C15", Name: "write-timeout-http", Gen: genWT([]string{"flv", "wsflv", "ts"}, false), Run: runWT, Classify: classifyWT,
		Quick: 8, Thorough: 80,
	})
}
