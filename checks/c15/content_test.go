package c15

// Content oracle for the remuxed outputs (HTTP-TS, RTSP interleaved / over WebSocket).
//
// The structure of what a TS / RTSP consumer receives (188-byte packets, PES headers, RTP headers) stays valid when a
// buffer that is still queued for a stalled consumer is reused for later data; the elementary-stream bytes do not.
// Every NAL unit the harness publishes is self-identifying (serial + seeded bytes), so the oracle demands:
//
//	TS:   every coded-slice NAL unit of every video PES is a published NAL unit, byte for byte, in publication order,
//	      at most once; every ADTS frame of an AAC PES carries a published audio frame, in order, at most once.
//	RTSP: RTP sequence numbers of a channel strictly increase (packets may be missing, never repeated or reordered);
//	      every coded-slice NAL unit carried whole (single NAL packet, STAP-A / AP member, FU run without a gap from its
//	      start to its end fragment) is a published NAL unit, in order, at most once; a fragment of an incomplete FU run
//	      is a contiguous part of a published NAL unit of the same type; every whole AAC access unit is a published
//	      audio frame, in order.
//
// Not asserted: parameter sets, AUD and SEI units (lal drops, re-creates or repeats them), G.711 payloads, which units
// are missing.

import (
	"bytes"
	"crypto/sha256"
	"fmt"

	"verif/drv/pbt"
	"verif/gen"
	"verif/harness/lalclient"
	"verif/ref/rtpref"
	"verif/ref/rtspref"
	"verif/ref/tsref"
)

type published struct {
	codecs gen.Codecs
	nals   [][]byte           // every NAL unit of every published video item, in publication order
	nalIdx map[[32]byte][]int // hash -> positions in nals
	audio  [][]byte           // raw audio frames in publication order
	audIdx map[[32]byte][]int
}

func newPublished(c gen.Codecs, items []gen.Item) *published {
	p := &published{codecs: c, nalIdx: map[[32]byte][]int{}, audIdx: map[[32]byte][]int{}}
	for _, it := range items {
		switch it.Kind {
		case "video":
			for _, n := range it.Nals {
				b := n.Bytes()
				k := sha256.Sum256(b)
				p.nalIdx[k] = append(p.nalIdx[k], len(p.nals))
				p.nals = append(p.nals, b)
			}
		case "audio":
			pl := it.Payload(c)
			raw := pl[1:]
			if c.Audio == "aac" || c.Audio == "opus" {
				raw = pl[2:]
			}
			k := sha256.Sum256(raw)
			p.audIdx[k] = append(p.audIdx[k], len(p.audio))
			p.audio = append(p.audio, raw)
		}
	}
	return p
}

func isVCL(codec string, nal []byte) bool {
	if len(nal) == 0 {
		return false
	}
	if codec == "hevc" {
		return int(nal[0]>>1)&0x3f < 32
	}
	t := nal[0] & 0x1f
	return t >= 1 && t <= 5
}

// cursor walks a publication order: next returns "" when unit is a published unit behind the cursor.
type cursor struct {
	idx map[[32]byte][]int
	cur int
}

func (c *cursor) next(unit []byte) string {
	cd := c.idx[sha256.Sum256(unit)]
	if len(cd) == 0 {
		return "unknown"
	}
	for _, x := range cd {
		if x > c.cur {
			c.cur = x
			return ""
		}
	}
	return "duplicated-or-reordered"
}

func head(b []byte) string {
	if len(b) > 16 {
		return fmt.Sprintf("% x.. (%d bytes)", b[:16], len(b))
	}
	return fmt.Sprintf("% x (%d bytes)", b, len(b))
}

// checkTsContent judges the elementary streams of a demultiplexed HTTP-TS body.
func checkTsContent(who string, p *published, res *tsref.Result) *pbt.Violation {
	pmt := res.LastPMT()
	if pmt == nil {
		return nil
	}
	vpid, apid := -1, -1
	for _, es := range pmt.Streams {
		switch es.StreamType {
		case 0x1b, 0x24:
			vpid = int(es.PID)
		case 0x0f:
			apid = int(es.PID)
		}
	}
	vc := &cursor{idx: p.nalIdx, cur: -1}
	ac := &cursor{idx: p.audIdx, cur: -1}
	tsUnits, tsAudio := 0, 0
	defer func() {
		pbt.Count("content/ts-slice-nals-matched", tsUnits)
		pbt.Count("content/ts-aac-frames-matched", tsAudio)
	}()
	for n, pes := range res.PES {
		switch int(pes.PID) {
		case vpid:
			for _, nal := range lalclient.SplitAnnexB(pes.Payload) {
				if !isVCL(p.codecs.Video, nal) {
					continue
				}
				tsUnits++
				if why := vc.next(nal); why != "" {
					return pbt.V("S3/unit-altered/ts", "%s: PES %d (pts %d) carries the coded-slice NAL unit %s, which is %s (no published NAL unit, or one that arrived before: last accepted position %d)", who, n, pes.PTS, head(nal), why, vc.cur)
				}
			}
		case apid:
			b := pes.Payload
			for len(b) > 0 {
				if len(b) < 7 || b[0] != 0xFF || b[1]&0xF6 != 0xF0 {
					return pbt.V("S3/unit-altered/ts", "%s: audio PES %d (pts %d) is not a sequence of ADTS frames (offset %d of %d)", who, n, pes.PTS, len(pes.Payload)-len(b), len(pes.Payload))
				}
				hl := 7
				if b[1]&1 == 0 {
					hl = 9
				}
				fl := int(b[3]&3)<<11 | int(b[4])<<3 | int(b[5])>>5
				if fl < hl || fl > len(b) {
					return pbt.V("S3/unit-altered/ts", "%s: audio PES %d (pts %d): ADTS frame length %d at offset %d of %d", who, n, pes.PTS, fl, len(pes.Payload)-len(b), len(pes.Payload))
				}
				tsAudio++
				if why := ac.next(b[hl:fl]); why != "" {
					return pbt.V("S3/unit-altered/ts", "%s: audio PES %d (pts %d) carries the AAC frame %s, which is %s", who, n, pes.PTS, head(b[hl:fl]), why)
				}
				b = b[fl:]
			}
		}
	}
	return nil
}

// partOfPublished: frag is a contiguous part of a published NAL unit whose header has the given type bits.
func (p *published) partOfPublished(frag []byte, sameType func(nal []byte) bool) bool {
	if len(frag) == 0 {
		return true
	}
	for _, n := range p.nals {
		if len(n) >= len(frag) && sameType(n) && bytes.Contains(n, frag) {
			return true
		}
	}
	return false
}

// checkRtpContent judges the interleaved frames of one RTSP consumer (arrival order).
func checkRtpContent(who string, p *published, frames []rtspref.Frame) *pbt.Violation {
	type chanState struct {
		seen bool
		seq  uint16
	}
	chans := map[int]*chanState{}
	vc := &cursor{idx: p.nalIdx, cur: -1}
	ac := &cursor{idx: p.audIdx, cur: -1}
	hevc := p.codecs.Video == "hevc"
	// FU run in progress
	var fu struct {
		active  bool
		nal     []byte
		nextSeq uint16
	}
	wholeUnits, fragUnits, fuWhole, aus := 0, 0, 0, 0
	defer func() {
		pbt.Count("content/rtp-whole-slice-nals-matched", wholeUnits)
		pbt.Count("content/rtp-fu-runs-reassembled", fuWhole)
		pbt.Count("content/rtp-orphan-fragments-matched", fragUnits)
		pbt.Count("content/rtp-aac-units-matched", aus)
	}()
	whole := func(n int, nal []byte) *pbt.Violation {
		if !isVCL(p.codecs.Video, nal) {
			return nil
		}
		wholeUnits++
		if why := vc.next(nal); why != "" {
			return pbt.V("S3/unit-altered/rtsp", "%s: interleaved frame %d completes the coded-slice NAL unit %s, which is %s (last accepted position %d)", who, n, head(nal), why, vc.cur)
		}
		return nil
	}
	for n, f := range frames {
		if f.Channel%2 == 1 {
			continue // rtcp
		}
		pkt, err := rtpref.Parse(f.Payload)
		if err != nil {
			continue // reported by the framing check
		}
		st := chans[f.Channel]
		if st == nil {
			st = &chanState{}
			chans[f.Channel] = st
		}
		if st.seen {
			if d := pkt.Seq - st.seq; d == 0 || d >= 0x8000 {
				return pbt.V("S3/rtp-packet-duplicated-or-reordered/rtsp", "%s: interleaved frame %d (channel %d) has RTP sequence number %d after %d: packets may be missing, never repeated or reordered", who, n, f.Channel, pkt.Seq, st.seq)
			}
		}
		st.seen, st.seq = true, pkt.Seq
		pl := pkt.Payload
		switch {
		case pkt.PT == 96 || pkt.PT == 98: // video
			if len(pl) == 0 {
				continue
			}
			var typ int
			hl := 1
			if hevc {
				if len(pl) < 2 {
					continue
				}
				typ, hl = int(pl[0]>>1)&0x3f, 2
			} else {
				typ = int(pl[0] & 0x1f)
			}
			isAgg := (!hevc && typ == 24) || (hevc && typ == 48)
			isFU := (!hevc && typ == 28) || (hevc && typ == 49)
			if !isFU {
				fu.active = false
			}
			switch {
			case isAgg:
				b := pl[hl:]
				for len(b) >= 2 {
					l := int(b[0])<<8 | int(b[1])
					if l > len(b)-2 {
						return pbt.V("S3/unit-altered/rtsp", "%s: interleaved frame %d: aggregation unit of %d bytes in %d remaining", who, n, l, len(b)-2)
					}
					if v := whole(n, b[2:2+l]); v != nil {
						return v
					}
					b = b[2+l:]
				}
			case isFU:
				if len(pl) < hl+1 {
					continue
				}
				fh := pl[hl]
				start, end := fh&0x80 != 0, fh&0x40 != 0
				frag := pl[hl+1:]
				var nalHdr []byte
				var same func(nal []byte) bool
				if hevc {
					t := fh & 0x3f
					nalHdr = []byte{pl[0]&0x81 | t<<1, pl[1]}
					same = func(nal []byte) bool { return len(nal) > 1 && (nal[0]>>1)&0x3f == t }
				} else {
					t := fh & 0x1f
					nalHdr = []byte{pl[0]&0xe0 | t}
					same = func(nal []byte) bool { return len(nal) > 0 && nal[0]&0x1f == t }
				}
				if !isVCL(p.codecs.Video, nalHdr) {
					fu.active = false
					continue
				}
				switch {
				case start:
					fu.active = true
					fu.nal = append(append([]byte(nil), nalHdr...), frag...)
					fu.nextSeq = pkt.Seq + 1
				case fu.active && pkt.Seq == fu.nextSeq:
					fu.nal = append(fu.nal, frag...)
					fu.nextSeq++
				default:
					fu.active = false
				}
				if fu.active && end {
					fu.active = false
					fuWhole++
					if v := whole(n, fu.nal); v != nil {
						return v
					}
				} else if !fu.active {
					// a fragment of a unit whose other fragments were dropped: it is still a part of a published unit
					fragUnits++
					if !p.partOfPublished(frag, same) {
						return pbt.V("S3/unit-altered/rtsp", "%s: interleaved frame %d carries the fragment %s of a NAL unit (start=%v end=%v), which is not a contiguous part of any published NAL unit of that type", who, n, head(frag), start, end)
					}
				}
			default:
				if v := whole(n, pl); v != nil {
					return v
				}
			}
		case pkt.PT == 97 && p.codecs.Audio == "aac":
			if len(pl) < 4 {
				continue
			}
			hbits := int(pl[0])<<8 | int(pl[1])
			nau := hbits / 16
			if hbits%16 != 0 || nau == 0 || len(pl) < 2+2*nau {
				continue // not the AAC-hbr layout lal uses: not judged
			}
			data := pl[2+2*nau:]
			for i := 0; i < nau; i++ {
				sz := (int(pl[2+2*i])<<8 | int(pl[3+2*i])) >> 3
				if sz > len(data) {
					break // fragmented access unit: not judged
				}
				aus++
				if why := ac.next(data[:sz]); why != "" {
					return pbt.V("S3/unit-altered/rtsp", "%s: interleaved frame %d carries the AAC access unit %s, which is %s", who, n, head(data[:sz]), why)
				}
				data = data[sz:]
			}
		}
	}
	return nil
}
