// C15 — a stalled consumer cannot delay others or corrupt its own framing.
//
// Consumers of every protocol (RTMP, HTTP-FLV, WebSocket-FLV, HTTP-TS, RTSP
// interleaved) are attached to one stream; some of them stop reading at a
// generated publish position (the in-memory connection's receive window is
// closed, so lal's writer goroutine blocks exactly as on a full TCP window) while
// the write queues are made small so that queue-full occurs within a few
// messages.  Oracle:
//
//	(S1) the publisher is never blocked: every message is consumed by lal while
//	     the stalled consumers stay stalled;
//	(S2) healthy consumers receive everything up to the end marker;
//	(S3) after the stalled consumer resumes, whatever it finally received parses
//	     to the end with the reference decoder of its protocol and consists of
//	     whole published units in order (whole units dropped only);
//	(S4) a consumer that stays stalled is disconnected by two liveness sweeps
//	     (Group.Tick) or by its write timeout.
//
// Not asserted: how many or which units are dropped; exact latencies.
package c15

import (
	"bytes"
	"crypto/sha256"
	"fmt"
	"testing"
	"time"

	"github.com/q191201771/lal/pkg/base"
	"github.com/q191201771/lal/pkg/httpflv"
	"github.com/q191201771/lal/pkg/httpts"
	"github.com/q191201771/lal/pkg/rtmp"
	"github.com/q191201771/lal/pkg/rtsp"
	"pgregory.net/rapid"

	"verif/drv/pbt"
	"verif/gen"
	"verif/harness/inproc"
	"verif/harness/lalclient"
	"verif/harness/memconn"
	"verif/ref/rtpref"
	"verif/ref/rtspref"
	"verif/ref/tsref"
	"verif/ref/wsref"
)

type Cons struct {
	Kind    string `json:"kind"`     // rtmp | flv | wsflv | ts | rtsp | wsrtsp
	Stall   bool   `json:"stall"`    // stops reading at StallAt
	StallAt int    `json:"stall_at"` // after items[0..StallAt) were processed
	End     string `json:"end"`      // resume | sweep | write-timeout  (how the stall ends)
}

type Case struct {
	Queue    int        `json:"queue"` // write queue size for every session kind
	Merge    int        `json:"merge"`
	Codecs   gen.Codecs `json:"codecs"`
	Items    []gen.Item `json:"items"`
	Cons     []Cons     `json:"cons"`
	ExtraMsg int        `json:"extra_msg"` // messages published while the stall lasts (beyond the queue size)
}

func genCase(t *rapid.T) Case {
	var c Case
	c.Queue = rapid.SampledFrom([]int{3, 4, 5, 8, 16, 32}).Draw(t, "queue")
	c.Merge = rapid.SampledFrom([]int{0, 0, 300}).Draw(t, "merge")
	o := gen.StreamOpts{Video: []string{"avc", "avc", "hevc"}, Audio: []string{"aac", "aac", "g711a", ""}, MaxGops: 3, MaxGopLen: 4, MaxNalLen: 1200, MultiNal: true}
	c.Codecs, c.Items = gen.GenStream(t, o)
	c.ExtraMsg = rapid.IntRange(4, 30).Draw(t, "extra")
	n := rapid.IntRange(1, 5).Draw(t, "ncons")
	kinds := []string{"rtmp", "flv", "wsflv", "ts", "rtsp", "wsrtsp"}
	for i := 0; i < n; i++ {
		k := Cons{Kind: rapid.SampledFrom(kinds).Draw(t, "kind")}
		k.Stall = rapid.IntRange(0, 2).Draw(t, "stall") != 0
		k.StallAt = rapid.IntRange(0, len(c.Items)).Draw(t, "stallAt")
		k.End = rapid.SampledFrom([]string{"resume", "resume", "sweep", "write-timeout"}).Draw(t, "end")
		if k.End == "write-timeout" && (k.Kind == "rtmp" || k.Kind == "rtsp" || k.Kind == "wsrtsp") {
			k.End = "sweep" // their write timeout (10 s) is not configurable; the sweep is what disconnects them
		}
		c.Cons = append(c.Cons, k)
	}
	// one healthy consumer per case at least
	c.Cons = append(c.Cons, Cons{Kind: rapid.SampledFrom(kinds).Draw(t, "healthyKind")})
	return c
}

const stream = "c15stream"

type rtspSub struct {
	ws     *wsref.Stream // non-nil for RTSP over WebSocket
	conn   *memconn.Conn
	cl     *rtspref.Client
	frames chan rtspref.Frame
	err    chan error
	got    []rtspref.Frame
}

type attached struct {
	spec Cons
	rc   *lalclient.Consumer
	ts   *lalclient.TsConsumer
	rs   *rtspSub
	conn *memconn.Conn
}

func recKey(r lalclient.Rec) [32]byte {
	h := sha256.New()
	h.Write([]byte{r.Type, byte(r.Ts >> 24), byte(r.Ts >> 16), byte(r.Ts >> 8), byte(r.Ts)})
	h.Write(r.Payload)
	var k [32]byte
	copy(k[:], h.Sum(nil))
	return k
}

func run(c Case) *pbt.Violation {
	prevRtmp := rtmp.VerifSetWriteChanSize(c.Queue)
	prevRtsp := rtsp.VerifSetCommandSessionWriteChanSize(c.Queue)
	prevFlvQ, prevTsQ := httpflv.SubSessionWriteChanSize, httpts.SubSessionWriteChanSize
	prevFlvT, prevTsT := httpflv.SubSessionWriteTimeoutMs, httpts.SubSessionWriteTimeoutMs
	prevInt := base.LogicCheckSessionAliveIntervalSec
	httpflv.SubSessionWriteChanSize, httpts.SubSessionWriteChanSize = c.Queue, c.Queue
	httpflv.SubSessionWriteTimeoutMs, httpts.SubSessionWriteTimeoutMs = 150, 150
	defer func() {
		rtmp.VerifSetWriteChanSize(prevRtmp)
		rtsp.VerifSetCommandSessionWriteChanSize(prevRtsp)
		httpflv.SubSessionWriteChanSize, httpts.SubSessionWriteChanSize = prevFlvQ, prevTsQ
		httpflv.SubSessionWriteTimeoutMs, httpts.SubSessionWriteTimeoutMs = prevFlvT, prevTsT
		base.LogicCheckSessionAliveIntervalSec = prevInt
	}()
	s := inproc.New(inproc.Config{RtmpMergeWrite: c.Merge})
	defer s.Close()

	// published sequence = items + (stall phase) extra inter frames + marker
	items := append([]gen.Item(nil), c.Items...)
	lastTs := uint32(0)
	for _, it := range items {
		if it.Kind != "meta" {
			lastTs = it.Ts
		}
	}
	nHdr := []byte{0x41}
	kHdr := []byte{0x65}
	if c.Codecs.Video == "hevc" {
		nHdr, kHdr = []byte{1 << 1, 1}, []byte{19 << 1, 1}
	}
	stallFrom := len(items)
	for i := 0; i < c.Queue+c.ExtraMsg; i++ {
		lastTs += 40
		items = append(items, gen.Item{Kind: "video", Ts: lastTs, Nals: []gen.NalSpec{{Hdr: nHdr, Len: 200 + i, Seed: uint32(7000 + i), Serial: uint32(7000 + i)}}})
	}
	markerIdx := len(items)
	items = append(items, gen.Item{Kind: "video", Ts: lastTs + 40, Key: true, Nals: []gen.NalSpec{{Hdr: kHdr, Len: 60, Seed: 99999, Serial: 99999999}}})
	items = append(items, gen.Item{Kind: "video", Ts: lastTs + 80, Nals: []gen.NalSpec{{Hdr: nHdr, Len: c.Merge + 64, Seed: 99998, Serial: 99999998}}})
	if c.Codecs.Audio != "" {
		items = append(items, gen.Item{Kind: "audio", Ts: lastTs + 500, ALen: 20, ASeed: 99997})
	}
	for i := 0; i < 17; i++ { // tail pad (TS probe queue / RTSP analysis)
		items = append(items, gen.Item{Kind: "video", Ts: lastTs + 501 + uint32(i), Nals: []gen.NalSpec{{Hdr: nHdr, Len: 12, Seed: uint32(99900 + i), Serial: uint32(99900 + i)}}})
	}
	// two more frames, published between the two liveness sweeps (if any) so that healthy consumers stay write-alive
	sweepExtraFrom := len(items)
	for i := 0; i < 3; i++ {
		// the last one is only filler that pushes its predecessors through the merge-write buffer
		items = append(items, gen.Item{Kind: "video", Ts: lastTs + 600 + uint32(i), Nals: []gen.NalSpec{{Hdr: nHdr, Len: 30 + (i/2)*(c.Merge+64), Seed: uint32(99800 + i), Serial: uint32(99800 + i)}}})
	}
	var P []lalclient.Rec
	for _, it := range items {
		pl := it.Payload(c.Codecs)
		if it.Kind == "meta" {
			pl = gen.MetaBody(it.Variant)
		}
		P = append(P, lalclient.Rec{Type: it.TypeID(), Ts: it.Ts, Payload: pl})
	}
	markerNal := items[markerIdx].Nals[0].Bytes()
	markerKey := recKey(P[markerIdx])

	p := lalclient.NewPublisher(s, "live", stream, 4096)
	if p.Err != nil {
		return pbt.V("publish-refused", "%v", p.Err)
	}
	// the RTSP server answers DESCRIBE only once the SDP exists: publish the prologue first
	pro := 0
	for pro < len(c.Items) && (c.Items[pro].Kind == "meta" || c.Items[pro].Kind == "vsh" || c.Items[pro].Kind == "ash") {
		pro++
	}
	send := func(k int) *pbt.Violation {
		if err := p.SendItem(items[k], c.Codecs, 0); err != nil {
			if v := s.PanicViolation(); v != nil {
				return v
			}
			return pbt.V("publisher-disconnected", "item %d: %v", k, err)
		}
		return nil
	}
	for k := 0; k < pro; k++ {
		if v := send(k); v != nil {
			return v
		}
	}
	// lal's rtsp remuxer analyses up to 16 messages before the sdp exists when a track is missing; with both headers
	// present the sdp is ready now, otherwise push enough frames first
	next := pro
	needSdp := false
	for _, k := range c.Cons {
		if k.Kind == "rtsp" || k.Kind == "wsrtsp" {
			needSdp = true
		}
	}
	if needSdp && c.Codecs.Audio != "aac" {
		for next < len(c.Items) && next < pro+18 {
			if v := send(next); v != nil {
				return v
			}
			next++
		}
	}
	p.WaitIdle()
	var cons []*attached
	for i, k := range c.Cons {
		a := &attached{spec: k}
		// the write queue size is read when a session is set up: small for the consumers that will stall (so that
		// queue-full occurs within a few messages), lal's default for the healthy ones (a tiny queue would make a
		// healthy consumer lose units in bursts although its transport is fine, which is not what S2 is about)
		q := 1024
		if k.Stall {
			q = c.Queue
		}
		rtmp.VerifSetWriteChanSize(q)
		rtsp.VerifSetCommandSessionWriteChanSize(q)
		httpflv.SubSessionWriteChanSize, httpts.SubSessionWriteChanSize = q, q
		switch k.Kind {
		case "rtmp":
			a.rc = lalclient.NewRtmpSub(s, "live", stream)
			a.conn = a.rc.Conn
		case "flv":
			a.rc = lalclient.NewFlvSub(s, "live", stream, false)
			a.conn = a.rc.Conn
		case "wsflv":
			a.rc = lalclient.NewFlvSub(s, "live", stream, true)
			a.conn = a.rc.Conn
		case "ts":
			a.ts = lalclient.NewTsSub(s, "live", stream)
			a.conn = a.ts.Conn
		case "rtsp", "wsrtsp":
			if !(c.Codecs.Video != "" && c.Codecs.Audio == "aac") && next-pro < 17 {
				continue // lal has no SDP yet (it analyses up to 16 messages of a single-track stream): nothing to subscribe to
			}
			rs, err := newRtspSub(s, k.Kind == "wsrtsp")
			if err != nil {
				if v := s.PanicViolation(); v != nil {
					return v
				}
				// no SDP yet (short stream): this consumer is left out of the case
				continue
			}
			a.rs = rs
			a.conn = rs.conn
		}
		if a.rc != nil && a.rc.JoinErr() != nil {
			return pbt.V("join-failed", "consumer %d (%s): %v", i, k.Kind, a.rc.JoinErr())
		}
		cons = append(cons, a)
	}
	// publish the generated part; consumers stall at their positions
	// an RTSP consumer that has already been sent RTP when it stalls is "flowing" (not waiting for a key frame): every
	// later packet is offered to its queue, so the small queue is certainly full after the stall phase
	flowing := map[*attached]bool{}
	bytesAtJoin := map[*attached]int64{}
	for _, a := range cons {
		bytesAtJoin[a] = a.conn.TotalReceived()
	}
	stallOne := func(a *attached) {
		if a.rs != nil && a.conn.TotalReceived() > bytesAtJoin[a] {
			flowing[a] = true
		}
		a.conn.SetRecvWindow(0)
	}
	stalled := map[*attached]bool{}
	stallNow := func(pos int) {
		for _, a := range cons {
			if a.spec.Stall && a.spec.StallAt == pos && !stalled[a] {
				stalled[a] = true
				stallOne(a)
			}
		}
	}
	for k := next; k < stallFrom; k++ {
		p.WaitIdle()
		stallNow(k)
		if v := send(k); v != nil {
			return v
		}
	}
	p.WaitIdle()
	for _, a := range cons { // everyone who was to stall before the end of the generated part is stalled now
		if a.spec.Stall && !stalled[a] {
			stalled[a] = true
			stallOne(a)
		}
	}
	// stall phase: more messages than any queue holds; the publisher must not be blocked (S1)
	for k := stallFrom; k < sweepExtraFrom; k++ {
		if v := send(k); v != nil {
			return v
		}
		if !p.Conn.WaitPeerIdle(lalclient.DeliverTimeout) {
			if v := s.PanicViolation(); v != nil {
				return v
			}
			if stuck, stack := pbt.StuckGoroutine("logic.(*Group).OnReadRtmpAvMsg", 2*time.Second); stuck {
				return pbt.V("S1/publisher-blocked-by-stalled-consumer", "the publisher's message %d was not consumed within %v while consumers were stalled; fan-out is parked:\n%s", k, lalclient.DeliverTimeout, stack)
			}
			lalclient.Harness("publisher not drained and fan-out not parked (slow machine?)")
		}
	}
	if v := s.PanicViolation(); v != nil {
		return v
	}
	// (S2) healthy consumers have the marker
	for i, a := range cons {
		if a.spec.Stall {
			continue
		}
		if v := waitMarker(a, i, markerKey, markerNal, c, "S2/healthy-consumer-starved"); v != nil {
			return v
		}
	}
	// how the stalls end
	base.LogicCheckSessionAliveIntervalSec = 1
	swept := false
	// lal's own per-session byte accounting between the two sweeps (an RTSP session counts a packet as written when
	// it is queued, so a stalled RTSP consumer only looks dead to the sweep once its queue is full)
	wroteAtTick1 := map[string]uint64{}
	nothingWritten := map[string]bool{}
	for i, a := range cons {
		if !a.spec.Stall {
			continue
		}
		switch a.spec.End {
		case "resume":
			a.conn.SetRecvWindow(-1)
		case "write-timeout":
			// 150 ms write deadline on HTTP sessions: the blocked write fails, the session is disposed
			if !waitClosed(a, 15*time.Second) {
				if stuck, stack := pbt.StuckGoroutine("connection.(*connection).runWriteLoop", time.Second); stuck {
					return pbt.V("S4/not-disconnected-by-write-timeout/"+a.spec.Kind, "stalled consumer %d (%s) is still connected 15 s after its 150 ms write timeout; writer:\n%s", i, a.spec.Kind, stack)
				}
				lalclient.Harness("stalled consumer not closed and writer not parked")
			}
		case "sweep":
			if !swept {
				g := s.SM.GetGroup("live", stream)
				if g == nil {
					lalclient.Harness("group missing")
				}
				// two sweeps with no bytes written in between
				s.Call("Tick", func() { g.Tick(1) })
				for _, ss := range s.SM.StatGroup(stream).StatSubs {
					wroteAtTick1[ss.RemoteAddr] = ss.WroteBytesSum
				}
				// data keeps flowing between the sweeps: healthy consumers are written to, stalled ones are not
				for k := sweepExtraFrom; k < len(items); k++ {
					if v := send(k); v != nil {
						return v
					}
				}
				p.WaitIdle()
				lastKey := recKey(P[len(P)-2])
				for hi, h := range cons {
					if !h.spec.Stall && h.rc != nil {
						if h.rc.WaitFor(func(r lalclient.Rec) bool { return recKey(r) == lastKey }, lalclient.DeliverTimeout) < 0 {
							return pbt.V("S2/healthy-consumer-starved/"+h.spec.Kind, "healthy consumer %d did not receive the frames published between the two sweeps", hi)
						}
					}
				}
				time.Sleep(2 * time.Millisecond) // lal's writer goroutines update the byte counters after the write returns
				for _, ss := range s.SM.StatGroup(stream).StatSubs {
					if w, ok := wroteAtTick1[ss.RemoteAddr]; ok && w == ss.WroteBytesSum {
						nothingWritten[ss.RemoteAddr] = true
					}
				}
				s.Call("Tick", func() { g.Tick(2) })
				swept = true
				for hi, h := range cons {
					if !h.spec.Stall && h.rc != nil {
						time.Sleep(time.Millisecond)
						if h.rc.Ended() {
							return pbt.V("S4/healthy-consumer-swept/"+h.spec.Kind, "healthy consumer %d (%s) was disconnected by the liveness sweep although data was written to it between the two sweeps", hi, h.spec.Kind)
						}
					}
				}
			}
		}
	}
	if v := s.PanicViolation(); v != nil {
		return v
	}
	for i, a := range cons {
		if !a.spec.Stall {
			continue
		}
		switch a.spec.End {
		case "sweep":
			a.conn.SetRecvWindow(-1) // let the client see the close
			if !nothingWritten[a.conn.LocalAddr().String()] && !flowing[a] {
				pbt.Count("sweep-not-judged-bytes-were-accounted", 1)
				continue
			}
			if !waitClosed(a, lalclient.DeliverTimeout) {
				return pbt.V("S4/not-disconnected-by-sweep/"+a.spec.Kind, "stalled consumer %d (%s, stalled at %d) is still connected after two liveness sweeps during which nothing could be written to it", i, a.spec.Kind, a.spec.StallAt)
			}
		case "write-timeout":
			a.conn.SetRecvWindow(-1)
		}
	}
	// the publisher leaves; resumed consumers then see whatever was queued for them
	if swept {
		// the sweep also looked at healthy sessions: they received data between the two ticks? no — nothing was
		// published between them, so healthy sessions may have been disposed as well; that is the sweep's rule for
		// idle streams and not judged here.
	}
	p.Close()
	p.Conn.WaitPeerDone(lalclient.IdleTimeout)
	// (S3) framing and unit integrity of every consumer, stalled or not
	index := map[[32]byte][]int{}
	for i, r := range P {
		k := recKey(r)
		index[k] = append(index[k], i)
	}
	for i, a := range cons {
		// give resumed consumers the chance to drain: wait for EOF or quiescence
		settle(a)
		if v := checkFraming(c, a, i, P, index); v != nil {
			return v
		}
	}
	// non-triviality is measured: did a stalled consumer miss units?
	for _, a := range cons {
		if a.spec.Stall && a.rc != nil {
			if len(a.rc.Recs()) < len(P)/2 {
				pbt.Count("stalled-consumer-missed-units", 1)
			}
		}
	}
	return nil
}

func newRtspSub(s *inproc.Server, ws bool) (*rtspSub, error) {
	var conn *memconn.Conn
	var cl *rtspref.Client
	var wss *wsref.Stream
	if ws {
		conn = s.WsRtspConn()
		wss = wsref.NewStream(conn)
		cl = rtspref.NewClient(wss)
	} else {
		conn = s.RtspConn()
		cl = rtspref.NewClient(conn)
	}
	_ = conn.SetReadDeadline(time.Now().Add(lalclient.IdleTimeout))
	uri := "rtsp://127.0.0.1:5544/live/" + stream
	done := make(chan error, 1)
	var body []byte
	go func() {
		r, err := cl.Describe(uri)
		if err == nil && r.Status != 200 {
			err = fmt.Errorf("describe %d", r.Status)
		}
		if err == nil {
			body = r.Body
		}
		done <- err
	}()
	select {
	case err := <-done:
		if err != nil {
			_ = conn.Close()
			return nil, err
		}
	case <-time.After(3 * time.Second):
		_ = conn.Close()
		return nil, fmt.Errorf("no sdp yet")
	}
	if err := cl.SetupPlay(uri, rtspref.SdpControls(body)); err != nil {
		_ = conn.Close()
		return nil, err
	}
	_ = conn.SetReadDeadline(time.Time{})
	conn.WaitPeerIdle(lalclient.IdleTimeout)
	rs := &rtspSub{ws: wss, conn: conn, cl: cl, frames: make(chan rtspref.Frame, 100000), err: make(chan error, 1)}
	go func() {
		for {
			f, err := cl.ReadFrame()
			if err != nil {
				rs.err <- err
				close(rs.frames)
				return
			}
			rs.frames <- f
		}
	}()
	return rs, nil
}

func waitClosed(a *attached, d time.Duration) bool {
	switch {
	case a.rc != nil:
		return a.rc.WaitEnded(d)
	case a.ts != nil:
		return a.conn.WaitPeerDone(d)
	default:
		return a.conn.WaitPeerDone(d)
	}
}

func waitMarker(a *attached, i int, markerKey [32]byte, markerNal []byte, c Case, sig string) *pbt.Violation {
	ok := false
	switch {
	case a.rc != nil:
		ok = a.rc.WaitFor(func(r lalclient.Rec) bool { return recKey(r) == markerKey }, lalclient.DeliverTimeout) >= 0
		if !ok && a.rc.Err() != nil {
			return pbt.V("S3/framing/"+a.spec.Kind, "consumer %d: %v", i, a.rc.Err())
		}
	case a.ts != nil:
		ok = a.ts.WaitPred(func(body []byte) bool {
			n := len(body) / 188 * 188
			res, err := tsref.Demux(body[:n], tsref.Options{})
			if err != nil {
				return false
			}
			for _, p := range res.PES {
				if bytes.Contains(p.Payload, markerNal) {
					return true
				}
			}
			return false
		}, lalclient.DeliverTimeout)
	case a.rs != nil:
		// the marker NAL is small: it travels as a single-NAL RTP packet
		deadline := time.After(lalclient.DeliverTimeout)
		for !ok {
			select {
			case f, open := <-a.rs.frames:
				if !open {
					return pbt.V(sig+"/rtsp", "healthy RTSP consumer %d lost its connection before the end marker", i)
				}
				a.rs.got = append(a.rs.got, f)
				if bytes.Contains(f.Payload, markerNal) {
					ok = true
				}
			case <-deadline:
				return pbt.V(sig+"/rtsp", "healthy RTSP consumer %d did not receive the end marker within %v while other consumers were stalled", i, lalclient.DeliverTimeout)
			}
		}
	}
	if !ok {
		return pbt.V(sig+"/"+a.spec.Kind, "healthy consumer %d (%s) did not receive the end marker within %v while other consumers were stalled", i, a.spec.Kind, lalclient.DeliverTimeout)
	}
	return nil
}

// settle waits until the consumer's byte count stops growing (or EOF).
func settle(a *attached) {
	if a.rs != nil {
		for {
			select {
			case f, open := <-a.rs.frames:
				if !open {
					return
				}
				a.rs.got = append(a.rs.got, f)
			case <-time.After(30 * time.Millisecond):
				return
			}
		}
	}
	prev := int64(-1)
	for i := 0; i < 200; i++ {
		n := a.conn.TotalReceived()
		if n == prev && a.conn.Pending() == 0 {
			return
		}
		prev = n
		time.Sleep(5 * time.Millisecond)
	}
}

func checkFraming(c Case, a *attached, ci int, P []lalclient.Rec, index map[[32]byte][]int) *pbt.Violation {
	who := fmt.Sprintf("consumer %d (%s stall=%v at=%d end=%s)", ci, a.spec.Kind, a.spec.Stall, a.spec.StallAt, a.spec.End)
	switch {
	case a.rc != nil:
		if err := a.rc.Err(); err != nil {
			return pbt.V("S3/framing/"+a.spec.Kind, "%s: %v", who, err)
		}
		// a connection closed by lal (sweep / timeout) may end inside a unit: that is the transport's cut, not lal's
		// framing; judged only for consumers whose connection stayed open (resume / healthy)
		cur := -1
		for n, r := range a.rc.Recs() {
			cd := index[recKey(r)]
			if len(cd) == 0 {
				return pbt.V("S3/unit-altered/"+a.spec.Kind, "%s: record %d %s is not a published message (a unit was cut or merged)", who, n, r)
			}
			isHdr := r.Type == 18 || (r.Type == 9 && len(r.Payload) > 1 && r.Payload[1] == 0 && r.Payload[0]&0x80 == 0) || (r.Type == 8 && len(r.Payload) > 1 && r.Payload[0]>>4 == 10 && r.Payload[1] == 0) ||
				(r.Type == 9 && len(r.Payload) > 0 && r.Payload[0]&0x80 != 0 && r.Payload[0]&0x0f == 0)
			if isHdr {
				continue
			}
			pick := -1
			for _, x := range cd {
				if x > cur {
					pick = x
					break
				}
			}
			if pick < 0 {
				return pbt.V("S3/unit-duplicated-or-reordered/"+a.spec.Kind, "%s: record %d %s arrives after published index %d", who, n, r, cur)
			}
			cur = pick
		}
	case a.ts != nil:
		body := a.ts.Body()
		if len(body) == 0 {
			return nil
		}
		whole := len(body) / 188 * 188
		if whole != len(body) && (a.spec.End == "resume" || !a.spec.Stall) {
			return pbt.V("S3/framing/ts", "%s: body is %d bytes, not a whole number of 188-byte packets", who, len(body))
		}
		res, err := tsref.Demux(body[:whole], tsref.Options{})
		if err != nil {
			return pbt.V("S3/framing/ts", "%s: %v", who, err)
		}
		for _, pr := range res.Problems {
			// dropping whole units leaves continuity-counter gaps; anything else is a framing defect
			return pbt.V("S3/framing/ts", "%s: demuxer problem %s", who, pr)
		}
	case a.rs != nil:
		if a.rs.ws != nil && a.rs.ws.FrameErr != nil {
			return pbt.V("S3/framing/wsrtsp", "%s: websocket framing: %v", who, a.rs.ws.FrameErr)
		}
		for n, f := range a.rs.got {
			if f.Channel%2 == 1 {
				continue // rtcp
			}
			if _, err := rtpref.Parse(f.Payload); err != nil {
				return pbt.V("S3/framing/rtsp", "%s: interleaved frame %d (channel %d, %d bytes) is not an RTP packet: %v", who, n, f.Channel, len(f.Payload), err)
			}
		}
		select {
		case err := <-a.rs.err:
			if err != nil && !isClosed(err) {
				return pbt.V("S3/framing/rtsp", "%s: %v", who, err)
			}
		default:
		}
	}
	return nil
}

func isClosed(err error) bool {
	s := err.Error()
	return bytes.Contains([]byte(s), []byte("EOF")) || bytes.Contains([]byte(s), []byte("closed"))
}

func classify(c Case) (bool, []string) {
	labels := []string{fmt.Sprintf("queue:%d", c.Queue)}
	stalled, healthy := 0, 0
	for _, k := range c.Cons {
		if k.Stall {
			stalled++
			labels = append(labels, "stalled:"+k.Kind, "end:"+k.End)
		} else {
			healthy++
			labels = append(labels, "healthy:"+k.Kind)
		}
	}
	if c.Merge > 0 {
		labels = append(labels, "merge-write")
	}
	labels = append(labels, fmt.Sprintf("nstalled:%d", stalled))
	return stalled > 0 && healthy > 0, uniq(labels)
}

func uniq(in []string) []string {
	seen := map[string]bool{}
	var out []string
	for _, s := range in {
		if !seen[s] {
			seen[s] = true
			out = append(out, s)
		}
	}
	return out
}

func TestStalledConsumer(t *testing.T) {
	pbt.Run(t, pbt.Spec[Case]{
		ID: "C15", Name: "stalled-consumer", Gen: genCase, Run: run, Classify: classify,
		Quick: 300, Thorough: 3000,
	})
}
