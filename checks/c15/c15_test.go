// C15 — a stalled consumer cannot delay others or corrupt its own framing.
//
// Consumers of every protocol (RTMP, HTTP-FLV, WebSocket-FLV, HTTP-TS, RTSP
// interleaved, RTSP over WebSocket) are attached to one stream; some of them stop
// reading at a generated publish position (the in-memory connection's receive
// window is closed, so lal's writer goroutine blocks exactly as on a full TCP
// window) or keep reading at a generated slow rate through a small receive window,
// while the write queues are made small so that queue-full occurs within a few
// messages.  A second stream with its own publisher and a healthy consumer runs on
// the same server.  Oracle:
//
//	(S1) the publisher is never blocked: every message is consumed by lal while
//	     the stalled consumers stay stalled, and the time lal needs per message does
//	     not grow because of them (measured against a baseline taken in the same
//	     case before anybody stalls, see latency_test.go for the rule);
//	(S2) healthy consumers receive every message published while others are
//	     stalled, up to the end marker, without the delivery time growing;
//	(S3) whatever a consumer finally received (also the continuation after it
//	     resumed in the middle of the stall phase) parses to the end with the
//	     reference decoder of its protocol and consists of whole published units in
//	     order (whole units dropped only); a consumer that resumed and stays
//	     connected receives units published after it resumed;
//	(S4) a consumer that stays stalled is disconnected by two liveness sweeps
//	     or by its write timeout; healthy consumers are not;
//	(S5) the second stream is unaffected: its publisher is not delayed, its consumer
//	     receives every unit, and it survives the sweeps.
//
// Not asserted: how many or which units a stalled / slow consumer loses; that an
// RTSP consumer receives all fragments of a NAL unit (the protocol unit is the RTP
// packet); absolute latencies (no bare wall-clock threshold is ever a violation).
package c15

import (
	"bytes"
	"fmt"
	"strings"
	"testing"
	"time"

	"github.com/q191201771/lal/pkg/base"
	"github.com/q191201771/lal/pkg/httpflv"
	"github.com/q191201771/lal/pkg/httpts"
	"github.com/q191201771/lal/pkg/rtmp"
	"github.com/q191201771/lal/pkg/rtsp"
	"pgregory.net/rapid"

	"verif/drv/pbt"
	"verif/gen"
	"verif/harness/inproc"
	"verif/harness/lalclient"
	"verif/harness/memconn"
	"verif/ref/rtpref"
	"verif/ref/rtspref"
	"verif/ref/tsref"
)

type Cons struct {
	Kind     string `json:"kind"`      // rtmp | flv | wsflv | ts | rtsp | wsrtsp
	Stall    bool   `json:"stall"`     // faulty consumer (stops reading or reads slowly from StallAt on)
	Mode     string `json:"mode"`      // "" healthy | "stall" stops reading | "slow" reads Rate bytes per published message through a Window-byte receive window
	Window   int    `json:"window"`    // slow: receive window, 256..4096 bytes
	Rate     int    `json:"rate"`      // slow: bytes read per published message
	StallAt  int    `json:"stall_at"`  // after items[0..StallAt) were processed
	End      string `json:"end"`       // resume | sweep | write-timeout  (how the stall ends)
	ResumeAt int    `json:"resume_at"` // End == resume: -1 after the stall phase, k >= 0 before stall-phase message k
	Ping     int    `json:"ping"`      // rtsp / wsrtsp: send an OPTIONS keep-alive before stall-phase message Ping (-1: never)
}

type Case struct {
	Queue      int        `json:"queue"` // write queue size for the sessions that will stall
	Merge      int        `json:"merge"`
	Gop        int        `json:"gop"` // GOP cache size of the RTMP / FLV / TS outputs
	Codecs     gen.Codecs `json:"codecs"`
	Items      []gen.Item `json:"items"`
	Cons       []Cons     `json:"cons"`
	ExtraMsg   int        `json:"extra_msg"`   // messages published while the stall lasts (beyond the queue size)
	Baseline   int        `json:"baseline"`    // messages published (and timed) before anybody stalls; 0 = no latency judgement
	StallLen   int        `json:"stall_len"`   // NAL length of the baseline / stall-phase frames (> 4096: several RTMP chunks, > 1400: FU-A)
	PreSweeps  int        `json:"pre_sweeps"`  // liveness sweeps every consumer lives through (with data in between) before anybody stalls
	Second     bool       `json:"second"`      // a second stream with its own publisher and healthy consumer
	SecondKind string     `json:"second_kind"` // rtmp | flv | wsflv | ts
}

func genCase(t *rapid.T) Case {
	var c Case
	c.Queue = rapid.SampledFrom([]int{3, 4, 5, 8, 16, 32}).Draw(t, "queue")
	c.Merge = rapid.SampledFrom([]int{0, 0, 300}).Draw(t, "merge")
	c.Gop = rapid.SampledFrom([]int{0, 0, 1, 2}).Draw(t, "gop")
	maxNal := 1200
	if rapid.IntRange(0, 2).Draw(t, "bigNal") == 2 {
		maxNal = 9000 // messages of several RTMP chunks, FU-A fragmentation, long PES packets
	}
	o := gen.StreamOpts{Video: []string{"avc", "avc", "hevc"}, Audio: []string{"aac", "aac", "g711a", ""}, MaxGops: 3, MaxGopLen: 4, MaxNalLen: maxNal, MultiNal: true}
	c.Codecs, c.Items = gen.GenStream(t, o)
	c.ExtraMsg = rapid.IntRange(6, 30).Draw(t, "extra")
	c.Baseline = rapid.SampledFrom([]int{8, 0, 6, 10}).Draw(t, "baseline")
	c.StallLen = rapid.SampledFrom([]int{200, 200, 1500, 4200, 9000}).Draw(t, "stallLen")
	n := rapid.IntRange(1, 5).Draw(t, "ncons")
	kinds := []string{"rtmp", "flv", "wsflv", "ts", "rtsp", "wsrtsp"}
	for i := 0; i < n; i++ {
		k := Cons{Kind: rapid.SampledFrom(kinds).Draw(t, "kind"), ResumeAt: -1, Ping: -1}
		k.Mode = rapid.SampledFrom([]string{"", "stall", "stall", "slow"}).Draw(t, "mode")
		k.Stall = k.Mode != ""
		k.StallAt = rapid.IntRange(0, len(c.Items)).Draw(t, "stallAt")
		if k.Mode == "slow" {
			k.Window = rapid.IntRange(256, 4096).Draw(t, "window")
			k.Rate = rapid.SampledFrom([]int{16, 64, 200, 700, 2000, 4096}).Draw(t, "rate")
		}
		k.End = rapid.SampledFrom([]string{"resume", "resume", "sweep", "write-timeout"}).Draw(t, "end")
		if k.End == "write-timeout" && (k.Kind == "rtmp" || k.Kind == "rtsp" || k.Kind == "wsrtsp") {
			k.End = "sweep" // their write timeout (10 s) is not configurable; the sweep is what disconnects them
		}
		if k.Mode == "slow" && k.End == "write-timeout" {
			k.End = "resume" // a slow reader keeps its writer from ever being blocked for 150 ms
		}
		if k.Stall && k.End == "resume" && rapid.Bool().Draw(t, "midStall") {
			k.ResumeAt = rapid.IntRange(0, c.Queue+c.ExtraMsg-1).Draw(t, "resumeAt")
		}
		if k.Stall && (k.Kind == "rtsp" || k.Kind == "wsrtsp") && rapid.Bool().Draw(t, "keepAlive") {
			k.Ping = rapid.IntRange(0, c.Queue+c.ExtraMsg-1).Draw(t, "ping")
		}
		c.Cons = append(c.Cons, k)
	}
	// one healthy consumer per case at least
	c.Cons = append(c.Cons, Cons{Kind: rapid.SampledFrom(kinds).Draw(t, "healthyKind"), ResumeAt: -1, Ping: -1})
	c.PreSweeps = rapid.SampledFrom([]int{0, 1, 2, 1}).Draw(t, "preSweeps")
	c.Second = rapid.IntRange(0, 2).Draw(t, "second") != 0
	if c.Second {
		c.SecondKind = rapid.SampledFrom([]string{"flv", "rtmp", "wsflv", "ts"}).Draw(t, "secondKind")
	}
	return c
}

const (
	stream  = "c15stream"
	stream2 = "c15other"
)

type attached struct {
	spec Cons
	rc   *sub
	ts   *tsSub
	rs   *rtspSub
	conn *memconn.Conn
	pc   *pacer

	second      bool  // the consumer of the second stream
	resumedMid  bool  // it resumed in the middle of the stall phase
	recvAtDrain int64 // bytes received when its queue had been seen draining
	resumedAt   int   // first message published after it had resumed and its queue had been seen draining (-1: not known)
	slowOn      bool
}

func (a *attached) kind() string { return a.spec.Kind }

// measurable: delivery of every single message can be awaited (no remuxer / merge buffering in between).
func (a *attached) measurable(c Case) bool {
	return a.rc != nil && !(a.spec.Kind == "rtmp" && c.Merge > 0)
}

type runner struct {
	c                  Case
	s                  *inproc.Server
	p, p2              *lalclient.Publisher
	cons               []*attached
	c2                 *attached
	P, P2              []lalclient.Rec
	items, items2      []gen.Item // what was published, as items (content oracle of the remuxed outputs)
	lat                latency
	ticks              uint32
	httpWriteTimeoutMs int
	sendParked         string // stack of the fan-out goroutine if it was seen parked during the send in progress
	inStal             bool   // the stall phase is running: slow messages are sampled for a parked fan-out
}

func nalHdrs(c gen.Codecs) (inter, key []byte) {
	if c.Video == "hevc" {
		return []byte{1 << 1, 1}, []byte{19 << 1, 1}
	}
	return []byte{0x41}, []byte{0x65}
}

func frame(c gen.Codecs, ts uint32, n int, seed uint32, key bool) gen.Item {
	ih, kh := nalHdrs(c)
	h := ih
	if key {
		h = kh
	}
	return gen.Item{Kind: "video", Ts: ts, Key: key, Nals: []gen.NalSpec{{Hdr: h, Len: n, Seed: seed, Serial: seed}}}
}

// mirror is the item the second stream carries where the first carries it: same shape, different bytes.
func mirror(it gen.Item) gen.Item {
	out := it
	out.Nals = append([]gen.NalSpec(nil), it.Nals...)
	for i := range out.Nals {
		out.Nals[i].Seed += 50000000
		out.Nals[i].Serial += 50000000
	}
	out.ASeed += 50000000
	return out
}

func rec(it gen.Item, c gen.Codecs) lalclient.Rec {
	pl := it.Payload(c)
	if it.Kind == "meta" {
		pl = gen.MetaBody(it.Variant)
	}
	return lalclient.Rec{Type: it.TypeID(), Ts: it.Ts, Payload: pl}
}

// send publishes one item on the first stream.
func (r *runner) send(it gen.Item) *pbt.Violation {
	r.P = append(r.P, rec(it, r.c.Codecs))
	r.items = append(r.items, it)
	if err := r.p.SendItem(it, r.c.Codecs, 0); err != nil {
		if v := r.s.PanicViolation(); v != nil {
			return v
		}
		return pbt.V("publisher-disconnected", "item %d: %v", len(r.P)-1, err)
	}
	return nil
}

func (r *runner) send2(it gen.Item) *pbt.Violation {
	r.P2 = append(r.P2, rec(it, r.c.Codecs))
	r.items2 = append(r.items2, it)
	if err := r.p2.SendItem(it, r.c.Codecs, 0); err != nil {
		if v := r.s.PanicViolation(); v != nil {
			return v
		}
		return pbt.V("S5/other-stream-publisher-disconnected", "item %d of the second stream: %v", len(r.P2)-1, err)
	}
	return nil
}

// grantSlow lets every slow consumer read its next Rate/div bytes.
func (r *runner) grantSlow(div int) {
	for _, a := range r.cons {
		if a.slowOn {
			n := a.spec.Rate / div
			if n < 1 {
				n = 1
			}
			a.pc.grant(int64(n))
		}
	}
}

// waitConsumed waits until lal has consumed what the publisher sent.  While the wait lasts, slow consumers keep
// reading (a fifth of their per-message rate every 5 ms: a slow reader does not stop reading because the server is
// busy), and (in the stall phase) the fan-out goroutine is looked at: parked = evidence for the latency rule.  Not
// consumed within DeliverTimeout while the fan-out is parked = the publisher is blocked.
func (r *runner) waitConsumed(p *lalclient.Publisher, second bool) *pbt.Violation {
	start := time.Now()
	samples := 0
	for n := 1; !p.Conn.WaitPeerIdle(5 * time.Millisecond); n++ {
		r.grantSlow(5)
		// looked at after 25, 50 and 75 ms, and (for the single-send rule) every 200 ms as long as it was not seen parked
		if r.inStal && ((samples < 3 && n%5 == 0) || (r.sendParked == "" && n%40 == 0)) {
			samples++
			if stuck, stack := parkedFanout(15 * time.Millisecond); stuck {
				if r.sendParked == "" {
					r.lat.evidence(second, stack)
				}
				r.sendParked = stack
				samples = 3
			}
		}
		if time.Since(start) > lalclient.DeliverTimeout {
			if v := r.s.PanicViolation(); v != nil {
				return v
			}
			if stuck, stack := pbt.StuckGoroutine("logic.(*Group).OnReadRtmpAvMsg", 2*time.Second); stuck {
				sig := "S1/publisher-blocked-by-stalled-consumer"
				if second {
					sig = "S5/other-stream-publisher-blocked"
				}
				return pbt.V(sig, "a publisher's message (%d published so far) was not consumed within %v while consumers were stalled; fan-out is parked:\n%s", len(r.P), lalclient.DeliverTimeout, stack)
			}
			lalclient.Harness("publisher not drained and fan-out not parked (slow machine?)")
		}
	}
	return nil
}

// step publishes one harness-made frame on the first stream (and its mirror on the second), waits until lal has
// consumed it and every healthy consumer that can be followed message by message has decoded it, and records
// the times in ph (nil = not timed).
func (r *runner) step(it gen.Item, ph *phase) *pbt.Violation {
	c := r.c
	t0 := time.Now()
	r.sendParked = ""
	if v := r.send(it); v != nil {
		return v
	}
	if v := r.waitConsumed(r.p, false); v != nil {
		return v
	}
	if v := r.lat.single(r, false, time.Since(t0)); v != nil {
		return v
	}
	if ph != nil {
		ph.pub = append(ph.pub, time.Since(t0))
	}
	key := recKey(r.P[len(r.P)-1])
	for i, a := range r.cons {
		if !a.spec.Stall && a.rc == nil && a.conn.PeerGone() {
			return pbt.V("S2/healthy-consumer-disconnected/"+a.kind(), "healthy consumer %d (%s) lost its connection while other consumers were stalled (published message %d)", i, a.kind(), len(r.P)-1)
		}
		if a.spec.Stall || !a.measurable(c) || !a.rc.flowing() {
			continue
		}
		idx, at := a.rc.waitKey(key, 0, lalclient.DeliverTimeout)
		if idx < 0 {
			if err := a.rc.Err(); err != nil {
				return pbt.V("S3/framing/"+a.kind(), "healthy consumer %d: %v", i, err)
			}
			if a.rc.Ended() {
				return pbt.V("S2/healthy-consumer-disconnected/"+a.kind(), "healthy consumer %d (%s) lost its connection while other consumers were stalled (published message %d)", i, a.kind(), len(r.P)-1)
			}
			return pbt.V("S2/healthy-consumer-starved/"+a.kind(), "healthy consumer %d (%s) did not receive published message %d %s within %v while other consumers were stalled", i, a.kind(), len(r.P)-1, r.P[len(r.P)-1], lalclient.DeliverTimeout)
		}
		if ph != nil {
			ph.del(a, at.Sub(t0))
		}
	}
	if !c.Second {
		return nil
	}
	t0 = time.Now()
	r.sendParked = ""
	if v := r.send2(mirror(it)); v != nil {
		return v
	}
	if v := r.waitConsumed(r.p2, true); v != nil {
		return v
	}
	if v := r.lat.single(r, true, time.Since(t0)); v != nil {
		return v
	}
	if ph != nil {
		ph.pub2 = append(ph.pub2, time.Since(t0))
	}
	if a := r.c2; a.measurable(c) && a.rc.flowing() {
		idx, at := a.rc.waitKey(recKey(r.P2[len(r.P2)-1]), 0, lalclient.DeliverTimeout)
		if idx < 0 {
			if err := a.rc.Err(); err != nil {
				return pbt.V("S3/framing/"+a.kind(), "consumer of the second stream: %v", err)
			}
			return pbt.V("S5/other-stream-consumer-starved/"+a.kind(), "the consumer of the second stream (%s) did not receive message %d %s within %v while consumers of the first stream were stalled (ended=%v)", a.kind(), len(r.P2)-1, r.P2[len(r.P2)-1], lalclient.DeliverTimeout, a.rc.Ended())
		}
		if ph != nil {
			ph.del(a, at.Sub(t0))
		}
	}
	return nil
}

func (r *runner) attach(name string, k Cons, q int, sdpReady bool) (*attached, *pbt.Violation) {
	s := r.s
	a := &attached{spec: k, resumedAt: -1}
	// the write queue size is read when a session is set up: small for the consumers that will stall (so that
	// queue-full occurs within a few messages), lal's default for the healthy ones (a tiny queue would make a
	// healthy consumer lose units in bursts although its transport is fine, which is not what S2 is about)
	rtmp.VerifSetWriteChanSize(q)
	rtsp.VerifSetCommandSessionWriteChanSize(q)
	httpflv.SubSessionWriteChanSize, httpts.SubSessionWriteChanSize = q, q
	// an HTTP consumer whose stall is to be ended by the sweep gets a long write timeout (like RTMP / RTSP sessions
	// have), so that the sweep is the only thing that can disconnect it; all others time out after 150 ms
	wt := 150
	if k.Stall && k.End == "sweep" {
		wt = 10000
	}
	if r.httpWriteTimeoutMs > 0 {
		wt = r.httpWriteTimeoutMs // write-timeout sub-properties: a generated timeout per consumer
	}
	httpflv.SubSessionWriteTimeoutMs, httpts.SubSessionWriteTimeoutMs = wt, wt
	switch k.Kind {
	case "rtmp":
		a.rc = newRtmpSub(s, "live", name)
		a.conn, a.pc = a.rc.conn, a.rc.pc
	case "flv":
		a.rc = newFlvSub(s, "live", name, false)
		a.conn, a.pc = a.rc.conn, a.rc.pc
	case "wsflv":
		a.rc = newFlvSub(s, "live", name, true)
		a.conn, a.pc = a.rc.conn, a.rc.pc
	case "ts":
		a.ts = newTsSub(s, "live", name)
		a.conn, a.pc = a.ts.conn, a.ts.pc
	case "rtsp", "wsrtsp":
		if !sdpReady {
			return nil, nil // lal has no SDP yet (it analyses up to 16 messages of a single-track stream): nothing to subscribe to
		}
		rs, err := newRtspSub(s, name, k.Kind == "wsrtsp")
		if err != nil {
			if v := s.PanicViolation(); v != nil {
				return nil, v
			}
			return nil, nil // no SDP yet (short stream): this consumer is left out of the case
		}
		a.rs = rs
		a.conn, a.pc = rs.conn, rs.pc
	}
	if a.rc != nil && a.rc.joinErr != nil {
		return nil, pbt.V("join-failed", "consumer (%s of %s): %v", k.Kind, name, a.rc.joinErr)
	}
	return a, nil
}

func run(c Case) *pbt.Violation {
	prevRtmp := rtmp.VerifSetWriteChanSize(c.Queue)
	prevRtsp := rtsp.VerifSetCommandSessionWriteChanSize(c.Queue)
	prevFlvQ, prevTsQ := httpflv.SubSessionWriteChanSize, httpts.SubSessionWriteChanSize
	prevFlvT, prevTsT := httpflv.SubSessionWriteTimeoutMs, httpts.SubSessionWriteTimeoutMs
	prevInt := base.LogicCheckSessionAliveIntervalSec
	httpflv.SubSessionWriteChanSize, httpts.SubSessionWriteChanSize = c.Queue, c.Queue
	httpflv.SubSessionWriteTimeoutMs, httpts.SubSessionWriteTimeoutMs = 150, 150
	defer func() {
		rtmp.VerifSetWriteChanSize(prevRtmp)
		rtsp.VerifSetCommandSessionWriteChanSize(prevRtsp)
		httpflv.SubSessionWriteChanSize, httpts.SubSessionWriteChanSize = prevFlvQ, prevTsQ
		httpflv.SubSessionWriteTimeoutMs, httpts.SubSessionWriteTimeoutMs = prevFlvT, prevTsT
		base.LogicCheckSessionAliveIntervalSec = prevInt
	}()
	s := inproc.New(inproc.Config{RtmpMergeWrite: c.Merge, RtmpGopNum: c.Gop, FlvGopNum: c.Gop, TsGopNum: c.Gop})
	defer s.Close()
	r := &runner{c: c, s: s}
	defer func() { // no reader goroutine of the harness stays parked on its pacer
		for _, a := range r.cons {
			a.pc.set(-1)
		}
	}()

	// what the harness publishes after the generated items: (stall phase) inter frames + marker + tail
	lastTs, firstTs := uint32(0), uint32(0)
	for _, it := range c.Items {
		if it.Kind != "meta" {
			if firstTs == 0 {
				firstTs = it.Ts
			}
			lastTs = it.Ts
		}
	}
	var baseItems, stallItems, tailItems, sweepItems []gen.Item
	if c.Baseline > 0 {
		baseItems = append(baseItems, frame(c.Codecs, firstTs, 60, 88000, true))
		for i := 0; i < c.Baseline; i++ {
			baseItems = append(baseItems, frame(c.Codecs, firstTs+uint32(i), c.StallLen+i, uint32(88001+i), false))
		}
	}
	for i := 0; i < c.Queue+c.ExtraMsg; i++ {
		lastTs += 40
		stallItems = append(stallItems, frame(c.Codecs, lastTs, c.StallLen+i%c.maxBaseline(), uint32(7000+i), false))
	}
	marker := frame(c.Codecs, lastTs+40, 60, 99999, true)
	marker.Nals[0].Serial = 99999999
	tailItems = append(tailItems, marker, frame(c.Codecs, lastTs+80, c.Merge+64, 99998, false))
	if c.Codecs.Audio != "" {
		tailItems = append(tailItems, gen.Item{Kind: "audio", Ts: lastTs + 500, ALen: 20, ASeed: 99997})
	}
	for i := 0; i < 17; i++ { // tail pad (TS probe queue / RTSP analysis)
		tailItems = append(tailItems, frame(c.Codecs, lastTs+501+uint32(i), 12, uint32(99900+i), false))
	}
	// three more frames, published between the two liveness sweeps (if any) so that healthy consumers stay write-alive;
	// the last one is only filler that pushes its predecessors through the merge-write buffer
	for i := 0; i < 3; i++ {
		sweepItems = append(sweepItems, frame(c.Codecs, lastTs+600+uint32(i), 30+(i/2)*(c.Merge+64), uint32(99800+i), false))
	}
	var sweepItems2 []gen.Item
	for i := 0; i < 3; i++ {
		sweepItems2 = append(sweepItems2, frame(c.Codecs, lastTs+700+uint32(i), 30+(i/2)*(c.Merge+64), uint32(99700+i), false))
	}
	markerNal := marker.Nals[0].Bytes()
	markerKey := recKey(rec(marker, c.Codecs))
	marker2Nal := mirror(marker).Nals[0].Bytes()
	marker2Key := recKey(rec(mirror(marker), c.Codecs))

	r.p = lalclient.NewPublisher(s, "live", stream, 4096)
	if r.p.Err != nil {
		return pbt.V("publish-refused", "%v", r.p.Err)
	}
	if c.Second {
		r.p2 = lalclient.NewPublisher(s, "live", stream2, 4096)
		if r.p2.Err != nil {
			return pbt.V("S5/other-stream-publish-refused", "%v", r.p2.Err)
		}
	}
	// the RTSP server answers DESCRIBE only once the SDP exists: publish the prologue first
	pro := 0
	for pro < len(c.Items) && (c.Items[pro].Kind == "meta" || c.Items[pro].Kind == "vsh" || c.Items[pro].Kind == "ash") {
		pro++
	}
	for k := 0; k < pro; k++ {
		if v := r.send(c.Items[k]); v != nil {
			return v
		}
		if c.Second {
			if v := r.send2(c.Items[k]); v != nil {
				return v
			}
		}
	}
	// lal's rtsp remuxer analyses up to 16 messages before the sdp exists when a track is missing; with both headers
	// present the sdp is ready now, otherwise push enough frames first
	next := pro
	needSdp := false
	for _, k := range c.Cons {
		if k.Kind == "rtsp" || k.Kind == "wsrtsp" {
			needSdp = true
		}
	}
	if needSdp && c.Codecs.Audio != "aac" {
		for next < len(c.Items) && next < pro+18 {
			if v := r.send(c.Items[next]); v != nil {
				return v
			}
			next++
		}
	}
	r.p.WaitIdle()
	if c.Second {
		r.p2.WaitIdle()
	}
	sdpReady := (c.Codecs.Video != "" && c.Codecs.Audio == "aac") || next-pro >= 17
	for _, k := range c.Cons {
		q := 1024
		if k.Stall {
			q = c.Queue
		}
		a, v := r.attach(stream, k, q, sdpReady)
		if v != nil {
			return v
		}
		if a != nil {
			r.cons = append(r.cons, a)
		}
	}
	cons := r.cons
	bytesAtJoin := map[*attached]int64{}
	for _, a := range cons {
		bytesAtJoin[a] = a.conn.TotalReceived()
	}
	if c.Second {
		a, v := r.attach(stream2, Cons{Kind: c.SecondKind, ResumeAt: -1, Ping: -1}, 1024, false)
		if v != nil {
			return v
		}
		a.second = true
		r.c2 = a
		defer a.pc.set(-1)
	}

	// baseline: the same frames as in the stall phase, before anybody stalls
	for _, it := range baseItems {
		if v := r.step(it, &r.lat.base); v != nil {
			return v
		}
	}

	// history before the stall: every consumer lives through PreSweeps liveness sweeps, with data written to it before
	// each of them (so a later judgement "nothing was written since the last sweep" does not meet a session's first sweep)
	base.LogicCheckSessionAliveIntervalSec = 1
	for n := 0; n < c.PreSweeps; n++ {
		if v := r.preSweep(n, firstTs); v != nil {
			return v
		}
	}

	// publish the generated part; consumers stall at their positions
	// an RTSP consumer that has already been sent RTP when it stalls is "flowing" (not waiting for a key frame): every
	// later packet is offered to its queue, so the small queue is certainly full after the stall phase
	flowing := map[*attached]bool{}
	stallOne := func(a *attached) {
		r.inStal = true // from now on a slow send is looked at (parked fan-out?)
		if a.rs != nil && a.spec.Mode == "stall" && a.conn.TotalReceived() > bytesAtJoin[a] {
			flowing[a] = true
		}
		if a.spec.Mode == "slow" {
			a.pc.set(0)
			a.conn.SetRecvWindow(a.spec.Window)
			a.slowOn = true
			return
		}
		a.conn.SetRecvWindow(0)
	}
	stalled := map[*attached]bool{}
	stallNow := func(pos int) {
		for _, a := range cons {
			if a.spec.Stall && a.spec.StallAt == pos && !stalled[a] {
				stalled[a] = true
				stallOne(a)
			}
		}
	}
	for k := next; k < len(c.Items); k++ {
		stallNow(k)
		r.grantSlow(1)
		t0 := time.Now()
		r.sendParked = ""
		if v := r.send(c.Items[k]); v != nil {
			return v
		}
		if v := r.waitConsumed(r.p, false); v != nil {
			return v
		}
		if v := r.lat.single(r, false, time.Since(t0)); v != nil {
			return v
		}
	}
	for _, a := range cons { // everyone who was to stall before the end of the generated part is stalled now
		if a.spec.Stall && !stalled[a] {
			stalled[a] = true
			stallOne(a)
		}
	}
	// stall phase: more messages than any queue holds; the publisher must not be blocked nor delayed (S1), healthy
	// consumers get every message (S2), the second stream does not notice (S5)
	resumeOne := func(a *attached) {
		a.slowOn = false
		a.conn.SetRecvWindow(-1)
		a.pc.set(-1)
	}
	r.inStal = true
	for j, it := range stallItems {
		for _, a := range cons {
			if a.spec.Stall && a.spec.End == "resume" && a.spec.ResumeAt == j {
				before := a.conn.TotalReceived()
				a.resumedMid = true
				resumeOne(a)
				a.resumedAt = r.awaitDrain(a, before)
			}
			if a.rs != nil && a.spec.Ping == j {
				// an RTSP client keeps its session alive from a timer, whether or not it is reading
				_, _ = a.rs.cl.WriteRequest("OPTIONS", a.rs.uri, nil, nil)
				a.conn.WaitPeerIdle(lalclient.IdleTimeout)
			}
		}
		r.grantSlow(1)
		var ph *phase
		if j > c.Queue { // the queues of the stalled consumers are full from here on
			ph = &r.lat.stall
		}
		if v := r.step(it, ph); v != nil {
			return v
		}
		if ph != nil && len(ph.pub) >= minSamples {
			if v := r.lat.judge(r, false); v != nil {
				return v
			}
		}
	}
	r.inStal = false
	for _, it := range tailItems {
		if v := r.step(it, nil); v != nil {
			return v
		}
	}
	if v := s.PanicViolation(); v != nil {
		return v
	}
	if v := r.lat.judge(r, true); v != nil {
		return v
	}
	// (S2) healthy consumers have the marker
	for i, a := range cons {
		if a.spec.Stall {
			continue
		}
		if v := waitMarker(a, i, markerKey, markerNal, "S2/healthy-consumer-starved"); v != nil {
			return v
		}
	}
	if r.c2 != nil {
		if v := waitMarker(r.c2, -1, marker2Key, marker2Nal, "S5/other-stream-consumer-starved"); v != nil {
			return v
		}
	}
	// how the stalls end
	swept := false
	// lal's own per-session byte accounting between the two sweeps (an RTSP session counts a packet as written when
	// it is queued, so a stalled RTSP consumer only looks dead to the sweep once its queue is full)
	wroteAtTick1 := map[string]uint64{}
	nothingWritten := map[string]bool{}
	for _, a := range cons { // a slow consumer whose stall does not end by resuming stops reading altogether now
		if a.spec.Stall && a.spec.Mode == "slow" && a.spec.End != "resume" {
			a.slowOn = false
			a.pc.set(0)
			a.conn.SetRecvWindow(0)
		}
	}
	for i, a := range cons {
		if !a.spec.Stall {
			continue
		}
		switch a.spec.End {
		case "resume":
			if !a.resumedMid {
				resumeOne(a)
			}
		case "write-timeout":
			// 150 ms write deadline on HTTP sessions: the blocked write fails, the session is disposed
			if !waitClosed(a, 15*time.Second) {
				if stuck, stack := pbt.StuckGoroutine("connection.(*connection).runWriteLoop", time.Second); stuck {
					return pbt.V("S4/not-disconnected-by-write-timeout/"+a.spec.Kind, "stalled consumer %d (%s) is still connected 15 s after its 150 ms write timeout; writer:\n%s", i, a.spec.Kind, stack)
				}
				lalclient.Harness("stalled consumer not closed and writer not parked")
			}
		case "sweep":
			if !swept {
				// two sweeps of every group with no bytes written to the stalled consumers in between
				recvAtTick1 := map[*attached]int64{}
				for _, x := range cons {
					recvAtTick1[x] = x.conn.TotalReceived()
				}
				if v := r.nextTick(); v != nil {
					return v
				}
				for _, ss := range s.SM.StatGroup(stream).StatSubs {
					wroteAtTick1[ss.RemoteAddr] = ss.WroteBytesSum
				}
				// data keeps flowing between the sweeps: healthy consumers are written to, stalled ones are not
				for _, it := range sweepItems {
					if v := r.send(it); v != nil {
						return v
					}
					if c.Second {
						if v := r.send2(mirror(it)); v != nil {
							return v
						}
					}
				}
				r.p.WaitIdle()
				if c.Second {
					r.p2.WaitIdle()
				}
				lastKey := recKey(r.P[len(r.P)-2])
				for hi, h := range cons {
					if !h.spec.Stall && h.rc != nil {
						if idx, _ := h.rc.waitKey(lastKey, 0, lalclient.DeliverTimeout); idx < 0 {
							return pbt.V("S2/healthy-consumer-starved/"+h.spec.Kind, "healthy consumer %d did not receive the frames published between the two sweeps", hi)
						}
					}
				}
				if r.c2 != nil && r.c2.rc != nil {
					if idx, _ := r.c2.rc.waitKey(recKey(r.P2[len(r.P2)-2]), 0, lalclient.DeliverTimeout); idx < 0 {
						return pbt.V("S5/other-stream-consumer-starved/"+r.c2.kind(), "the consumer of the second stream did not receive the frames published between the two sweeps")
					}
				}
				time.Sleep(2 * time.Millisecond) // lal's writer goroutines update the byte counters after the write returns
				for _, ss := range s.SM.StatGroup(stream).StatSubs {
					if w, ok := wroteAtTick1[ss.RemoteAddr]; ok && w == ss.WroteBytesSum {
						nothingWritten[ss.RemoteAddr] = true
					}
				}
				for _, x := range cons { // bytes that did reach the transport between the sweeps: not "nothing written"
					if x.conn.TotalReceived() != recvAtTick1[x] {
						delete(nothingWritten, x.conn.LocalAddr().String())
					}
				}
				if v := r.nextTick(); v != nil {
					return v
				}
				swept = true
				// On a heavily loaded machine lal's writer goroutine for a stalled consumer can lag by more than the whole
				// stall phase: it accounts its last completed write, or takes the next entry out of the full queue
				// (which lets one more RTP packet be queued and counted), only after the first sweep has looked; then
				// the second sweep still sees progress.  A consumer that survived is given one more round (data for the
				// healthy ones, third sweep) before it counts as not disconnected
				again := false
				for _, x := range cons {
					if x.spec.Stall && x.spec.End == "sweep" && (nothingWritten[x.conn.LocalAddr().String()] || flowing[x]) && !waitGone(x, 300*time.Millisecond) {
						again = true
					}
				}
				if again {
					pbt.Count("third-sweep-for-lagging-writer", 1)
					for _, it := range sweepItems2 {
						if v := r.step(it, nil); v != nil {
							return v
						}
					}
					if v := r.nextTick(); v != nil {
						return v
					}
				}
				for hi, h := range cons {
					if !h.spec.Stall && h.rc != nil {
						time.Sleep(time.Millisecond)
						if h.rc.Ended() {
							return pbt.V("S4/healthy-consumer-swept/"+h.spec.Kind, "healthy consumer %d (%s) was disconnected by the liveness sweep although data was written to it between the two sweeps", hi, h.spec.Kind)
						}
					}
				}
				for hi, h := range cons {
					// TS / RTSP consumers: judged at the transport (bytes reached them between the sweeps, lal closed its end)
					if !h.spec.Stall && h.rc == nil && h.conn.TotalReceived() != recvAtTick1[h] && h.conn.PeerGone() {
						return pbt.V("S4/healthy-consumer-swept/"+h.spec.Kind, "healthy consumer %d (%s) was disconnected by the liveness sweep although %d bytes were written to it between the sweeps", hi, h.spec.Kind, h.conn.TotalReceived()-recvAtTick1[h])
					}
				}
				if r.c2 != nil && r.c2.rc != nil {
					time.Sleep(time.Millisecond)
					if r.c2.rc.Ended() {
						return pbt.V("S5/other-stream-consumer-swept/"+r.c2.kind(), "the healthy consumer of the second stream was disconnected by the liveness sweep although data was written to it between the two sweeps")
					}
				}
			}
		}
	}
	if v := s.PanicViolation(); v != nil {
		return v
	}
	for i, a := range cons {
		if !a.spec.Stall {
			continue
		}
		switch a.spec.End {
		case "sweep":
			judged := nothingWritten[a.conn.LocalAddr().String()] || flowing[a]
			// a sweep disposes a session synchronously (its connection is closed before the sweep returns): lal's end
			// still open and the session still listed in the group after the sweeps = it was not disconnected
			if judged && !waitGone(a, 2*time.Second) {
				if st := inGroupStat(s, a); strings.HasPrefix(st, "yes") {
					return pbt.V("S4/not-disconnected-by-sweep/"+a.spec.Kind, "stalled consumer %d (%s, stalled at %d) is still connected after two (and a third) liveness sweeps during which nothing could be written to it (lal has not closed its end; bytes received %d, unread %d; in lal's group statistics: %s)", i, a.spec.Kind, a.spec.StallAt, a.conn.TotalReceived(), a.conn.Pending(), st)
				}
			}
			a.conn.SetRecvWindow(-1) // let the client see the close
			a.pc.set(-1)
			if !judged {
				pbt.Count("sweep-not-judged-bytes-were-accounted", 1)
				continue
			}
			if !waitClosed(a, lalclient.DeliverTimeout) {
				return pbt.V("S4/not-disconnected-by-sweep/"+a.spec.Kind, "stalled consumer %d (%s, stalled at %d) is still connected after two (and a third) liveness sweeps during which nothing could be written to it (lal closed its end: %v; bytes received %d, unread %d; in lal's group statistics: %v)", i, a.spec.Kind, a.spec.StallAt, a.conn.PeerGone(), a.conn.TotalReceived(), a.conn.Pending(), inGroupStat(s, a))
			}
		case "write-timeout":
			a.conn.SetRecvWindow(-1)
			a.pc.set(-1)
		}
	}
	// (S3) a consumer that resumed in the middle of the stall phase and is still connected gets the continuation
	for i, a := range cons {
		if a.resumedAt < 0 {
			continue
		}
		if v := r.checkContinuation(a, i); v != nil {
			return v
		}
	}
	// the publishers leave; resumed consumers then see whatever was queued for them
	r.p.Close()
	r.p.Conn.WaitPeerDone(lalclient.IdleTimeout)
	if c.Second {
		r.p2.Close()
		r.p2.Conn.WaitPeerDone(lalclient.IdleTimeout)
	}
	// (S3) framing and unit integrity of every consumer, stalled or not
	index := indexOf(r.P)
	pub := newPublished(c.Codecs, r.items)
	for i, a := range cons {
		// give resumed consumers the chance to drain: wait for EOF or quiescence
		settle(a)
		if v := checkFraming(a, i, index, pub); v != nil {
			return v
		}
	}
	if r.c2 != nil {
		settle(r.c2)
		if v := checkFraming(r.c2, -1, indexOf(r.P2), newPublished(c.Codecs, r.items2)); v != nil {
			return v
		}
		if v := r.checkComplete(r.c2); v != nil {
			return v
		}
	}
	// non-triviality is measured: did a stalled consumer miss units?
	for _, a := range cons {
		if a.spec.Stall && a.rc != nil {
			if len(a.rc.Recs()) < len(r.P)/2 {
				pbt.Count("stalled-consumer-missed-units", 1)
			}
		}
	}
	return nil
}

func (c Case) maxBaseline() int {
	if c.Baseline > 0 {
		return c.Baseline // the stall-phase frames have exactly the sizes of the baseline frames
	}
	return 1 << 30
}

func indexOf(P []lalclient.Rec) map[[32]byte][]int {
	index := map[[32]byte][]int{}
	for i, r := range P {
		k := recKey(r)
		index[k] = append(index[k], i)
	}
	return index
}

// tick runs one iteration of the server's one-second ticker (every group is swept under the manager lock).  A sweep
// that does not return while its goroutine is parked (same stack in two dumps a second apart) is blocked by a stalled
// consumer; if the manager lock cannot be taken either, no session of any stream can join or leave.
func (r *runner) tick(n uint32) *pbt.Violation {
	done := r.s.Go("Tick", func() { r.s.SM.VerifTick(n) })
	start := time.Now()
	for {
		select {
		case <-done:
			return r.s.PanicViolation()
		case <-time.After(100 * time.Millisecond):
		}
		if time.Since(start) < 3*time.Second {
			continue
		}
		if stuck, stack := pbt.StuckGoroutine("logic.(*ServerManager).VerifTick", time.Second); stuck {
			probe := r.s.Go("GetGroup", func() { r.s.SM.GetGroup("live", stream2) })
			select {
			case <-probe:
				return pbt.V("S4/sweep-blocked-by-stalled-consumer", "liveness sweep %d has not returned after %v and is parked:\n%s", n, time.Since(start), stack)
			case <-time.After(time.Second):
				return pbt.V("S5/server-frozen-by-stalled-consumer", "liveness sweep %d has not returned after %v, is parked, and holds the manager lock (a lookup of the second stream's group does not return): no session of any stream can join or leave:\n%s", n, time.Since(start), stack)
			}
		}
		if time.Since(start) > lalclient.DeliverTimeout {
			lalclient.Harness("liveness sweep not done and not parked (slow machine?)")
		}
	}
}

func (r *runner) nextTick() *pbt.Violation {
	r.ticks++
	return r.tick(r.ticks)
}

// preSweep feeds every (still healthy) consumer and then runs one liveness sweep, which none of them may fall victim to.
// "Fed" is judged at the transport: bytes have reached the consumer's connection on two occasions since the last
// sweep (lal's writer goroutine accounts a write after it has returned, so the first of two completed writes is
// certainly accounted).  If some consumer cannot be fed (remuxer still buffering), the sweep is left out.
func (r *runner) preSweep(n int, ts uint32) *pbt.Violation {
	all := append([]*attached(nil), r.cons...)
	if r.c2 != nil {
		all = append(all, r.c2)
	}
	seed := uint32(60000 + 100*n)
	feed := func() (bool, *pbt.Violation) {
		before := map[*attached]int64{}
		for _, a := range all {
			before[a] = a.conn.TotalReceived()
		}
		for k := 0; k < 24; k++ {
			// the very first frame is a key frame: consumers still waiting for one are released
			if v := r.step(frame(r.c.Codecs, ts, 90+k, seed, seed%100 == 0), nil); v != nil {
				return false, v
			}
			seed++
			ok := true
			for _, a := range all {
				if a.conn.TotalReceived() == before[a] {
					ok = false
				}
			}
			if ok {
				return true, nil
			}
			time.Sleep(200 * time.Microsecond)
		}
		return false, nil
	}
	fed := true
	for round := 0; round < 2 && fed; round++ {
		ok, v := feed()
		if v != nil {
			return v
		}
		fed = ok
	}
	if !fed {
		pbt.Count("pre-sweep-left-out-consumer-not-fed", 1)
		return nil
	}
	if v := r.nextTick(); v != nil {
		return v
	}
	time.Sleep(time.Millisecond)
	for i, a := range all {
		if a.rc != nil && a.rc.Err() != nil {
			return pbt.V("S3/framing/"+a.kind(), "consumer %d: %v", i, a.rc.Err())
		}
		if a.conn.PeerGone() {
			return pbt.V("S4/healthy-consumer-swept/"+a.kind(), "consumer %d (%s, second stream: %v), which reads everything and had been written to since the previous sweep, was disconnected by liveness sweep %d", i, a.kind(), a.second, r.ticks)
		}
	}
	pbt.Count("pre-sweeps-done", 1)
	return nil
}

// awaitDrain is called right after a stalled consumer resumed reading.  lal's writer goroutine for it was blocked in
// a write (or idle, if nothing had been queued); the messages published next can only be queued once that goroutine has
// run and taken entries out of the full queue, which on a loaded machine may take longer than publishing the rest of
// the case.  So the harness waits until the writer is seen to have gone on to the next queue entry (or the flow of bytes
// has paused for 50 ms): from then on there is room in the queue, and "units published later reach the consumer" is a fair demand.  It returns the index of the first
// message published after that point, or -1 when no byte arrived (nothing was queued, or the connection is gone).
func (r *runner) awaitDrain(a *attached, before int64) int {
	n0 := 0
	if a.rc != nil {
		n0 = a.rc.count()
	}
	deadline := time.Now().Add(250 * time.Millisecond)
	for a.conn.TotalReceived() == before {
		if time.Now().After(deadline) || a.conn.PeerGone() {
			pbt.Count("resume-mid-stall-nothing-was-queued", 1)
			return -1
		}
		time.Sleep(200 * time.Microsecond)
	}
	// the write that was blocked has completed.  Two decoded units mean that the writer has gone round its loop and
	// taken a further entry out of the queue; failing that, a flow that has paused for a while
	prev, stable := a.conn.TotalReceived(), 0
	for n := 0; n < 4000 && stable < 100; n++ {
		if a.rc != nil && a.rc.count() >= n0+2 {
			break
		}
		time.Sleep(500 * time.Microsecond)
		if cur := a.conn.TotalReceived(); cur == prev {
			stable++
		} else {
			prev, stable = cur, 0
		}
	}
	a.recvAtDrain = a.conn.TotalReceived()
	return len(r.P)
}

// checkContinuation: a consumer that resumed reading in the middle of the stall phase and is still connected
// must be given units published after it resumed (which ones is not asserted: its queue may still have been full
// for a while).  Its connection may have been closed by lal before it resumed (write timeout): not judged then.
func (r *runner) checkContinuation(a *attached, i int) *pbt.Violation {
	if a.rc == nil {
		// TS / RTSP: the remuxed stream has no message identity at this point; bytes must have kept arriving
		deadline := time.Now().Add(lalclient.DeliverTimeout)
		for a.conn.TotalReceived() <= a.recvAtDrain {
			if a.conn.PeerGone() {
				pbt.Count("resumed-consumer-was-disconnected", 1)
				return nil
			}
			if time.Now().After(deadline) {
				return pbt.V("S3/resumed-consumer-gets-nothing/"+a.kind(), "consumer %d (%s) resumed reading before published message %d and is still connected, but no byte reached it after its queue had drained (%d messages were published after that; %d bytes received in all)", i, a.kind(), a.resumedAt, len(r.P)-a.resumedAt, a.conn.TotalReceived())
			}
			time.Sleep(time.Millisecond)
		}
		pbt.Count("resumed-consumer-continuation-seen", 1)
		return nil
	}
	after := map[[32]byte]bool{}
	for k := a.resumedAt; k < len(r.P); k++ {
		after[recKey(r.P[k])] = true
	}
	has := func() bool {
		for _, x := range a.rc.Recs() {
			if !isHeaderRec(x) && after[recKey(x)] {
				return true
			}
		}
		return false
	}
	deadline := time.Now().Add(lalclient.DeliverTimeout)
	for !has() {
		if a.rc.Ended() {
			pbt.Count("resumed-consumer-was-disconnected", 1)
			return nil
		}
		if err := a.rc.Err(); err != nil {
			return nil // reported by the framing check
		}
		if time.Now().After(deadline) {
			return pbt.V("S3/resumed-consumer-gets-nothing/"+a.kind(), "consumer %d (%s) resumed reading before published message %d and is still connected, but none of the %d messages published after that reached it (%d records decoded, %d bytes received, %d unread); %s", i, a.kind(), a.resumedAt, len(r.P)-a.resumedAt, a.rc.count(), a.conn.TotalReceived(), a.conn.Pending(), fmt.Sprintf("received published indices %v", gotIdx(a, r.P)))
		}
		a.rc.waitCount(a.rc.count(), 200*time.Millisecond)
	}
	pbt.Count("resumed-consumer-continuation-seen", 1)
	return nil
}

// checkComplete: the consumer of the second stream receives, once it has been released by a key frame, every
// message published on its stream (rtmp / flv consumers; a TS consumer is judged through the end marker).
func (r *runner) checkComplete(a *attached) *pbt.Violation {
	if a.rc == nil || (a.spec.Kind == "rtmp" && r.c.Merge > 0) {
		return nil
	}
	got := map[[32]byte]bool{}
	first := -1
	recs := a.rc.Recs()
	idx := indexOf(r.P2)
	for _, x := range recs {
		k := recKey(x)
		got[k] = true
		if first < 0 && x.Type == 9 && !isHeaderRec(x) && len(idx[k]) > 0 {
			first = idx[k][0]
		}
	}
	if first < 0 {
		return nil
	}
	// messages still in flight when the publisher left are not judged: up to the last sweep frame that was awaited
	last := len(r.P2) - 1
	for last >= 0 && !got[recKey(r.P2[last])] {
		last--
	}
	for k := first; k <= last; k++ {
		if !got[recKey(r.P2[k])] {
			return pbt.V("S5/other-stream-consumer-lost-unit/"+a.kind(), "the healthy consumer of the second stream (%s) did not receive message %d %s of its stream although it received earlier and later ones", a.kind(), k, r.P2[k])
		}
	}
	return nil
}

// waitGone: lal has closed its end of the connection (seen without reading from it).
func waitGone(a *attached, d time.Duration) bool {
	deadline := time.Now().Add(d)
	for !a.conn.PeerGone() {
		if time.Now().After(deadline) {
			return false
		}
		time.Sleep(time.Millisecond)
	}
	return true
}

func waitClosed(a *attached, d time.Duration) bool {
	switch {
	case a.rc != nil:
		return a.rc.WaitEnded(d)
	default:
		return a.conn.WaitPeerDone(d)
	}
}

func waitMarker(a *attached, i int, markerKey [32]byte, markerNal []byte, sig string) *pbt.Violation {
	ok := false
	switch {
	case a.rc != nil:
		idx, _ := a.rc.waitKey(markerKey, 0, lalclient.DeliverTimeout)
		ok = idx >= 0
		if !ok && a.rc.Err() != nil {
			return pbt.V("S3/framing/"+a.spec.Kind, "consumer %d: %v", i, a.rc.Err())
		}
	case a.ts != nil:
		ok = a.ts.WaitPred(func(body []byte) bool {
			n := len(body) / 188 * 188
			res, err := tsref.Demux(body[:n], tsref.Options{})
			if err != nil {
				return false
			}
			for _, p := range res.PES {
				if bytes.Contains(p.Payload, markerNal) {
					return true
				}
			}
			return false
		}, lalclient.DeliverTimeout)
	case a.rs != nil:
		// the marker NAL is small: it travels as a single-NAL RTP packet
		deadline := time.After(lalclient.DeliverTimeout)
		for !ok {
			select {
			case f, open := <-a.rs.frames:
				if !open {
					return pbt.V(sig+"/rtsp", "healthy RTSP consumer %d lost its connection before the end marker", i)
				}
				a.rs.got = append(a.rs.got, f)
				if bytes.Contains(f.Payload, markerNal) {
					ok = true
				}
			case <-deadline:
				return pbt.V(sig+"/rtsp", "healthy RTSP consumer %d did not receive the end marker within %v while other consumers were stalled", i, lalclient.DeliverTimeout)
			}
		}
	}
	if !ok {
		return pbt.V(sig+"/"+a.spec.Kind, "healthy consumer %d (%s) did not receive the end marker within %v while other consumers were stalled", i, a.spec.Kind, lalclient.DeliverTimeout)
	}
	return nil
}

// settle waits until the consumer's byte count stops growing (or EOF).
func settle(a *attached) {
	if a.rs != nil {
		for {
			select {
			case f, open := <-a.rs.frames:
				if !open {
					return
				}
				a.rs.got = append(a.rs.got, f)
			case <-time.After(30 * time.Millisecond):
				return
			}
		}
	}
	prev := int64(-1)
	for i := 0; i < 200; i++ {
		n := a.conn.TotalReceived()
		if n == prev && a.conn.Pending() == 0 {
			return
		}
		prev = n
		time.Sleep(5 * time.Millisecond)
	}
}

func checkFraming(a *attached, ci int, index map[[32]byte][]int, pub *published) *pbt.Violation {
	who := fmt.Sprintf("consumer %d (%s mode=%s at=%d end=%s resume_at=%d)", ci, a.spec.Kind, a.spec.Mode, a.spec.StallAt, a.spec.End, a.spec.ResumeAt)
	open := !a.spec.Stall || a.spec.End == "resume" // the connection was not closed by a sweep / write timeout that the case asked for
	switch {
	case a.rc != nil:
		if err := a.rc.Err(); err != nil {
			return pbt.V("S3/framing/"+a.spec.Kind, "%s: %v", who, err)
		}
		// a connection closed by lal (sweep / timeout) may end inside a unit: that is the transport's cut, not lal's
		// framing.  A connection that is still open holds no incomplete unit once everything has arrived: half a
		// message with the other half dropped is a torn message
		if open && !a.rc.Ended() {
			for n := 0; n < 400 && a.rc.partialBytes() > 0; n++ {
				time.Sleep(5 * time.Millisecond)
			}
			if n := a.rc.partialBytes(); n > 0 && !a.rc.Ended() {
				return pbt.V("S3/torn-unit/"+a.spec.Kind, "%s: the connection is open and quiet, and the received stream ends with %d bytes of an incomplete unit (the rest of it was never sent)", who, n)
			}
		}
		cur := -1
		for n, x := range a.rc.Recs() {
			cd := index[recKey(x)]
			if len(cd) == 0 {
				return pbt.V("S3/unit-altered/"+a.spec.Kind, "%s: record %d %s is not a published message (a unit was cut or merged)", who, n, x)
			}
			if isHeaderRec(x) {
				continue
			}
			pick := -1
			for _, y := range cd {
				if y > cur {
					pick = y
					break
				}
			}
			if pick < 0 {
				return pbt.V("S3/unit-duplicated-or-reordered/"+a.spec.Kind, "%s: record %d %s arrives after published index %d", who, n, x, cur)
			}
			cur = pick
		}
	case a.ts != nil:
		body := a.ts.Body()
		if len(body) == 0 {
			return nil
		}
		whole := len(body) / 188 * 188
		if whole != len(body) && open && !a.ts.Ended() {
			return pbt.V("S3/framing/ts", "%s: body is %d bytes, not a whole number of 188-byte packets", who, len(body))
		}
		res, err := tsref.Demux(body[:whole], tsref.Options{})
		if err != nil {
			return pbt.V("S3/framing/ts", "%s: %v", who, err)
		}
		for _, pr := range res.Problems {
			// dropping whole units leaves continuity-counter gaps; anything else is a framing defect
			return pbt.V("S3/framing/ts", "%s: demuxer problem %s", who, pr)
		}
		if v := checkTsContent(who, pub, res); v != nil {
			return v
		}
	case a.rs != nil:
		if a.rs.ws != nil && a.rs.ws.FrameErr != nil {
			return pbt.V("S3/framing/wsrtsp", "%s: websocket framing: %v", who, a.rs.ws.FrameErr)
		}
		for n, f := range a.rs.got {
			if f.Channel%2 == 1 {
				continue // rtcp
			}
			if _, err := rtpref.Parse(f.Payload); err != nil {
				return pbt.V("S3/framing/rtsp", "%s: interleaved frame %d (channel %d, %d bytes) is not an RTP packet: %v", who, n, f.Channel, len(f.Payload), err)
			}
		}
		if v := checkRtpContent(who, pub, a.rs.got); v != nil {
			return v
		}
		select {
		case err := <-a.rs.err:
			if err != nil && !isClosed(err) {
				return pbt.V("S3/framing/rtsp", "%s: %v", who, err)
			}
		default:
		}
	}
	return nil
}

func (c *sub) partialBytes() int {
	c.mu.Lock()
	defer c.mu.Unlock()
	return c.partial
}

func isClosed(err error) bool {
	s := err.Error()
	return bytes.Contains([]byte(s), []byte("EOF")) || bytes.Contains([]byte(s), []byte("closed"))
}

func classify(c Case) (bool, []string) {
	labels := []string{fmt.Sprintf("queue:%d", c.Queue), fmt.Sprintf("gop:%d", c.Gop), fmt.Sprintf("stall-len:%d", c.StallLen)}
	stalled, healthy := 0, 0
	for _, k := range c.Cons {
		if k.Stall {
			stalled++
			labels = append(labels, k.Mode+":"+k.Kind, "end:"+k.End)
			if k.ResumeAt >= 0 {
				labels = append(labels, "resume-mid-stall", "resume-mid-stall:"+k.Kind)
			}
			if k.Ping >= 0 {
				labels = append(labels, "keep-alive-while-stalled")
			}
		} else {
			healthy++
			labels = append(labels, "healthy:"+k.Kind)
		}
	}
	if c.Merge > 0 {
		labels = append(labels, "merge-write")
	}
	if c.Baseline > 0 {
		labels = append(labels, "latency-judged")
	}
	if c.Second {
		labels = append(labels, "second-stream", "second-stream:"+c.SecondKind)
	}
	labels = append(labels, fmt.Sprintf("pre-sweeps:%d", c.PreSweeps))
	for _, k := range c.Cons {
		if k.Stall && k.End == "sweep" && c.PreSweeps > 0 {
			labels = append(labels, "stalls-after-surviving-a-sweep:"+k.Kind)
		}
	}
	big := false
	for _, it := range c.Items {
		for _, n := range it.Nals {
			if n.Len > 4096 {
				big = true
			}
		}
	}
	if big || c.StallLen > 4096 {
		labels = append(labels, "multi-chunk-message")
	}
	labels = append(labels, fmt.Sprintf("nstalled:%d", stalled))
	return stalled > 0 && healthy > 0, uniq(labels)
}

func uniq(in []string) []string {
	seen := map[string]bool{}
	var out []string
	for _, s := range in {
		if !seen[s] {
			seen[s] = true
			out = append(out, s)
		}
	}
	return out
}

func TestStalledConsumer(t *testing.T) {
	pbt.Run(t, pbt.Spec[Case]{
		ID: "C15", Name: "stalled-consumer", Gen: genCase, Run: run, Classify: classify,
		Quick: 300, Thorough: 1500,
	})
}

var _ = rtspref.Frame{}

func gotIdx(a *attached, P []lalclient.Rec) []int {
	idx := indexOf(P)
	var out []int
	for _, x := range a.rc.Recs() {
		k := idx[recKey(x)]
		if len(k) == 0 {
			out = append(out, -1)
		} else {
			out = append(out, k[0])
		}
	}
	return out
}

func inGroupStat(s *inproc.Server, a *attached) string {
	st := s.SM.StatGroup(stream)
	if st == nil {
		return "no group"
	}
	for _, ss := range st.StatSubs {
		if ss.RemoteAddr == a.conn.LocalAddr().String() {
			return fmt.Sprintf("yes (%s wrote=%d)", ss.SessionId, ss.WroteBytesSum)
		}
	}
	return "no"
}
