// C13 — no input on RTSP, RTP/RTCP, GB28181, WebSocket or HTTP surfaces (nor a
// response from an upstream server while lal is RTMP / RTSP / HTTP-FLV client)
// terminates lal.
//
// Every surface has a structured rapid generator: a valid exchange is rendered
// with the reference clients / stubs up to a chosen step and is followed by
// hostile elements (every field set to an extreme, lying lengths, truncated
// units), then mutated at byte level (flips, truncation) and delivered in
// generated TCP slices.  The thorough tier adds one native fuzz target per
// surface (fuzz_test.go).
//
// Oracle (common to all surfaces):
//   - no panic in a goroutine that runs lal's handler for the hostile peer
//     (harness-owned goroutines: recorded, shrinkable), no process death
//     (lal-owned goroutines / fatal errors: Isolate, attributed by the driver);
//   - after the peer's EOF the server-side session returns (a session that is
//     still parked in the same place is reported, a slow one is not);
//   - a healthy publisher / subscriber pair on another stream of the same
//     server still relays a marker.
//
// Deliberately NOT asserted: which error is returned or whether an error
// response is sent before the connection is closed; anything about the media
// that a hostile publisher's stream produces; timing (a timeout alone is never
// a violation); resource use by data the peer really transfers.
package c13

import (
	"bytes"
	"encoding/hex"
	"encoding/json"
	"fmt"
	"net"
	"runtime"
	"runtime/debug"
	"strings"
	"sync"
	"time"

	"github.com/q191201771/lal/pkg/aac"
	"github.com/q191201771/lal/pkg/avc"
	"github.com/q191201771/lal/pkg/base"
	"github.com/q191201771/lal/pkg/gb28181"
	"github.com/q191201771/lal/pkg/hevc"
	"github.com/q191201771/lal/pkg/hls"
	"github.com/q191201771/lal/pkg/httpflv"
	"github.com/q191201771/lal/pkg/httpts"
	"github.com/q191201771/lal/pkg/logic"
	"github.com/q191201771/lal/pkg/mpegts"
	"github.com/q191201771/lal/pkg/remux"
	"github.com/q191201771/lal/pkg/rtmp"
	"github.com/q191201771/lal/pkg/rtprtcp"
	"github.com/q191201771/lal/pkg/rtsp"
	"github.com/q191201771/lal/pkg/sdp"
	"github.com/q191201771/naza/pkg/nazalog"
	"pgregory.net/rapid"

	"verif/drv/pbt"
	"verif/gen"
	"verif/harness/inproc"
	"verif/harness/lalclient"
)

// ---- small helpers ----------------------------------------------------------------

func unhex(s string) []byte {
	b, err := hex.DecodeString(strings.ReplaceAll(s, " ", ""))
	if err != nil {
		panic(pbt.HarnessError{Msg: "c13: bad hex in case: " + s})
	}
	return b
}

func head(s string, n int) string {
	if len(s) > n {
		return s[:n]
	}
	return s
}

func uniq(in []string) []string {
	seen := map[string]bool{}
	var out []string
	for _, s := range in {
		if !seen[s] {
			seen[s] = true
			out = append(out, s)
		}
	}
	return out
}

func be16(v int) []byte { return []byte{byte(v >> 8), byte(v)} }
func be32(v uint32) []byte {
	return []byte{byte(v >> 24), byte(v >> 16), byte(v >> 8), byte(v)}
}

// Blob is a byte string kept small in the case: explicit hex followed by
// Len deterministic bytes derived from Seed.
type Blob struct {
	Hex  string `json:"hex,omitempty"`
	Seed uint32 `json:"seed,omitempty"`
	Len  int    `json:"len,omitempty"`
}

func (b Blob) Bytes() []byte {
	out := unhex(b.Hex)
	if b.Len > 0 {
		out = append(out, gen.Bytes(b.Seed, b.Len)...)
	}
	return out
}

// Mut is the byte-level mutation applied to the hostile tail of a rendered
// stream (the valid prefix is left intact so that the exchange reaches the
// mutated element).
type Mut struct {
	Flips []int `json:"flips,omitempty"` // offsets into the tail (mod len)
	Trunc int   `json:"trunc"`           // -1: keep everything; else keep this many tail bytes (mod len+1)
}

func (m Mut) apply(tail []byte) []byte {
	out := append([]byte(nil), tail...)
	for _, f := range m.Flips {
		if len(out) > 0 {
			out[f%len(out)] ^= byte(1 + f%251)
		}
	}
	if m.Trunc >= 0 {
		out = out[:m.Trunc%(len(out)+1)]
	}
	return out
}

func (m Mut) labels() []string {
	var l []string
	if len(m.Flips) > 0 {
		l = append(l, "mut:byte-flips")
	}
	if m.Trunc >= 0 {
		l = append(l, "mut:truncated")
	}
	return l
}

func (m Mut) active() bool { return len(m.Flips) > 0 || m.Trunc >= 0 }

func genMut(t *rapid.T) Mut {
	var m Mut
	nf := rapid.SampledFrom([]int{0, 0, 0, 0, 1, 2, 3}).Draw(t, "nflips")
	for i := 0; i < nf; i++ {
		m.Flips = append(m.Flips, rapid.IntRange(0, 1<<20).Draw(t, "flipAt"))
	}
	m.Trunc = -1
	if rapid.IntRange(0, 4).Draw(t, "truncate") == 0 {
		m.Trunc = rapid.IntRange(0, 1<<20).Draw(t, "truncAt")
	}
	return m
}

func genSlices(t *rapid.T) []int {
	var s []int
	ns := rapid.SampledFrom([]int{0, 0, 1, 3, 8}).Draw(t, "nslices")
	for i := 0; i < ns; i++ {
		s = append(s, rapid.SampledFrom([]int{1, 1, 2, 3, 4, 7, 11, 12, 13, 100, 256, 257, 1500}).Draw(t, "slice"))
	}
	return s
}

// ---- the server under test and the liveness probe --------------------------------

func newServer() *inproc.Server {
	memBackpressure()
	return inproc.New(inproc.Config{RtmpGopNum: 1, FlvGopNum: 1, TsGopNum: 1, Hls: true, HlsFragmentMs: 500})
}

var probeMarker = []byte{0xAF, 1, 0xde, 0xad, 0xbe, 0xef, 1, 2, 3, 4}

// probe checks that a healthy publisher + subscriber pair on another stream of
// the same server still relays a marker.
// bystanderMarker is sent through the pre-existing feed pair at the end of a case.
var bystanderMarker = []byte{0xAF, 1, 0xb1, 0x57, 0xa2, 0xde, 0x12, 9, 8, 7}

// bystander checks "closing that session only": the healthy publisher that was publishing c13feed before the hostile
// exchange began can still send, and the subscriber that was attached to it still receives.
func bystander(s *inproc.Server, fd *feed) *pbt.Violation {
	if fd == nil {
		return nil
	}
	fd.n++
	fd.note(fd.p.Send(gen.TypeAudio, fd.n*40, bystanderMarker, 0))
	if fd.err != nil {
		if v := s.PanicViolation(); v != nil {
			return v
		}
		return pbt.V("bystander-session-closed", "the healthy publisher of c13feed, connected before the hostile exchange, can no longer send: %v", fd.err)
	}
	if fd.sub.WaitFor(func(r lalclient.Rec) bool { return bytes.Equal(r.Payload, bystanderMarker) }, lalclient.DeliverTimeout) < 0 {
		if v := s.PanicViolation(); v != nil {
			return v
		}
		return pbt.V("bystander-session-closed", "the subscriber attached to c13feed before the hostile exchange no longer receives what its publisher sends (ended=%v err=%v)", fd.sub.Ended(), fd.sub.Err())
	}
	return nil
}

// statSnapshot does what RunLoop's ticker and the HTTP API do besides ticking the groups: it takes the statistics of
// every group (Group.GetStat -> GetStat of every session, whatever state a hostile peer left it in), marshals them as
// the API and the on_update notification do, and renders the debug line of every group.  It runs in a harness
// goroutine: a panic is the violation (in production it would be RunLoop's or an API handler's goroutine).
func statSnapshot(s *inproc.Server, names ...string) *pbt.Violation {
	if s.Call("stat-snapshot", func() {
		sgs := s.SM.StatAllGroup()
		if _, err := json.Marshal(sgs); err != nil {
			panic(pbt.HarnessError{Msg: "c13: cannot marshal StatAllGroup: " + err.Error()})
		}
		for _, sg := range sgs {
			if g := s.SM.GetGroup(sg.AppName, sg.StreamName); g != nil {
				_ = g.StringifyDebugStats(10)
			}
		}
		for _, n := range names {
			if sg := s.SM.StatGroup(n); sg != nil {
				_, _ = json.Marshal(sg)
			}
		}
		info := s.SM.StatLalInfo()
		_, _ = json.Marshal(info)
	}) {
		return s.PanicViolation()
	}
	return nil
}

// freshPair: a new subscriber and a new publisher on app live / stream name must relay a marker.
func freshPair(s *inproc.Server, name, sig, what string) *pbt.Violation {
	sub := lalclient.NewRtmpSub(s, "live", name)
	if err := sub.JoinErr(); err != nil {
		if v := s.PanicViolation(); v != nil {
			return v
		}
		return pbt.V(sig+"/subscribe-failed", "a healthy subscriber could not join %s: %v", what, err)
	}
	defer sub.Close()
	p := lalclient.NewPublisher(s, "live", name, 0)
	if p.Err != nil {
		if v := s.PanicViolation(); v != nil {
			return v
		}
		return pbt.V(sig+"/publish-failed", "a healthy publisher could not publish %s: %v", what, p.Err)
	}
	defer p.Close()
	_ = p.Send(gen.TypeAudio, 1, probeMarker, 0)
	if sub.WaitFor(func(r lalclient.Rec) bool { return bytes.Equal(r.Payload, probeMarker) }, lalclient.DeliverTimeout) < 0 {
		if v := s.PanicViolation(); v != nil {
			return v
		}
		return pbt.V(sig+"/no-relay", "a healthy publisher/subscriber pair no longer relays %s", what)
	}
	return nil
}

// republish: once the hostile session is gone, the stream name it used must work for a healthy publisher and
// subscriber (no state left behind that blocks the name: input slot, codec information, waiting flags ...).
func republish(s *inproc.Server, name string) *pbt.Violation {
	return freshPair(s, name, "name-broken-after-hostile-session", "the stream name the hostile session had used ("+name+")")
}

// note counts a run-time observation into the evidence file (counters).  pbt's counters are process-wide and are
// snapshotted by every sub-property that finishes later, so every Test starts by taking back what was counted before it.
var (
	noteMu sync.Mutex
	notes  = map[string]int{}
)

func note(name string) {
	noteMu.Lock()
	notes[name]++
	noteMu.Unlock()
	pbt.Count(name, 1)
}

func resetNotes() {
	noteMu.Lock()
	defer noteMu.Unlock()
	for k, v := range notes {
		pbt.Count(k, -v)
		delete(notes, k)
	}
}

func probe(s *inproc.Server, fd *feed) *pbt.Violation {
	if v := statSnapshot(s, "c13hostile", "c13feed", pullStream, gbStream); v != nil {
		return v
	}
	if v := bystander(s, fd); v != nil {
		return v
	}
	if fd != nil && fd.key%3 != 0 {
		// the bystander pair has just shown that the server relays; whether NEW sessions can still join is probed in
		// every third case (chosen by a function of the case, so that a replay does the same)
		return nil
	}
	sub := lalclient.NewRtmpSub(s, "live", "c13probe")
	if err := sub.JoinErr(); err != nil {
		if v := s.PanicViolation(); v != nil {
			return v
		}
		return pbt.V("probe/subscribe-failed", "a healthy subscriber could not join after the hostile exchange: %v", err)
	}
	defer sub.Close()
	p := lalclient.NewPublisher(s, "live", "c13probe", 0)
	if p.Err != nil {
		if v := s.PanicViolation(); v != nil {
			return v
		}
		return pbt.V("probe/publish-failed", "a healthy publisher could not publish after the hostile exchange: %v", p.Err)
	}
	defer p.Close()
	_ = p.Send(gen.TypeAudio, 1, probeMarker, 0)
	if sub.WaitFor(func(r lalclient.Rec) bool { return bytes.Equal(r.Payload, probeMarker) }, lalclient.DeliverTimeout) < 0 {
		if v := s.PanicViolation(); v != nil {
			return v
		}
		return pbt.V("probe/no-relay", "a healthy publisher/subscriber pair no longer relays after the hostile exchange")
	}
	return nil
}

// waitReturn waits for done to be closed (the harness-owned goroutine running
// lal's handler returned).  marker names a frame of that goroutine for the
// stuck / slow distinction.
func waitReturn(s *inproc.Server, done func(time.Duration) bool, marker, what string) *pbt.Violation {
	if done(lalclient.DeliverTimeout) {
		return s.PanicViolation()
	}
	if v := s.PanicViolation(); v != nil {
		return v
	}
	if stuck, stack := pbt.StuckGoroutine(marker, 2*time.Second); stuck {
		return pbt.V("session-never-returns/"+what, "the server-side session is still parked %v after the peer's EOF:\n%s", lalclient.DeliverTimeout, head(stack, 3000))
	}
	if !done(4 * lalclient.DeliverTimeout) {
		lalclient.Harness("c13: %s session did not end within %v and is not parked (machine too slow?)", what, 5*lalclient.DeliverTimeout)
	}
	return s.PanicViolation()
}

// ---- loopback helpers ------------------------------------------------------------

// freePort returns a TCP port that was free a moment ago.
func freePort() int {
	ln, err := net.Listen("tcp", "127.0.0.1:0")
	if err != nil {
		panic(pbt.HarnessError{Msg: "c13: no free tcp port: " + err.Error()})
	}
	p := ln.Addr().(*net.TCPAddr).Port
	_ = ln.Close()
	return p
}

// segment is a part of a hostile server's script: data is written (in slices) once the peer has sent at least
// waitRecv octets in total (bounded wait; 0 = at once).
type segment struct {
	data     []byte
	slices   []int
	waitRecv int
}

// hostileListener is the one loopback TCP listener of the process that plays the hostile upstream server (a listener
// per case would leave thousands of TIME-WAIT sockets on as many ports and exhaust the ephemeral ports of a shared
// machine).  For every accepted connection it discards what the peer sends and writes the current script, then
// half-closes and waits until the peer has closed its side: at that moment the peer (lal, which parses in its reading
// goroutine) has consumed everything it is going to consume.
type hostileListener struct {
	ln   net.Listener
	addr string

	mu       sync.Mutex
	cond     *sync.Cond
	script   func(conn int) []segment // nil: no case is running, connections are closed at once
	base     int                      // number of connections accepted before the current case
	gen      int                      // case generation: connections of earlier cases do not count
	accepted int
	finished int
	conns    []net.Conn
	recv     []byte // what the peers of the current case sent (first 64 KiB)
}

var (
	hostileOnce sync.Once
	hostileL    *hostileListener
	hostileErr  error
)

func theHostileListener() (*hostileListener, error) {
	hostileOnce.Do(func() {
		var ln net.Listener
		for try := 0; try < 20; try++ {
			if ln, hostileErr = net.Listen("tcp", "127.0.0.1:0"); hostileErr == nil {
				break
			}
			time.Sleep(100 * time.Millisecond)
		}
		if hostileErr != nil {
			return
		}
		h := &hostileListener{ln: ln, addr: ln.Addr().String()}
		h.cond = sync.NewCond(&h.mu)
		hostileL = h
		go func() {
			for {
				c, err := ln.Accept()
				if err != nil {
					return
				}
				h.mu.Lock()
				script := h.script
				idx := h.accepted - h.base
				gen := h.gen
				if script != nil {
					h.accepted++
					h.conns = append(h.conns, c)
					h.cond.Broadcast()
				}
				h.mu.Unlock()
				if script == nil {
					_ = c.Close() // a straggler of an earlier case
					continue
				}
				go h.serve(c, script(idx), gen)
			}
		}()
	})
	return hostileL, hostileErr
}

// hostileServer is the handle of one case on the shared listener.
type hostileServer struct {
	l    *hostileListener
	Addr string
}

func newHostileServer(script func(conn int) ([]byte, []int)) *hostileServer {
	return newHostileServerSeg(func(i int) []segment {
		d, sl := script(i)
		return []segment{{data: d, slices: sl}}
	})
}

func newHostileServerSeg(script func(conn int) []segment) *hostileServer {
	l, err := theHostileListener()
	if l == nil {
		panic(pbt.HarnessError{Msg: fmt.Sprintf("c13: cannot listen on loopback: %v", err)})
	}
	l.mu.Lock()
	l.script = script
	l.gen++
	l.base = l.accepted
	l.recv = nil
	l.finished = 0
	l.accepted = l.base
	l.mu.Unlock()
	return &hostileServer{l: l, Addr: l.addr}
}

func (h *hostileListener) serve(c net.Conn, segs []segment, gen int) {
	defer func() {
		_ = c.Close()
		h.mu.Lock()
		if gen == h.gen {
			h.finished++
		}
		h.cond.Broadcast()
		h.mu.Unlock()
	}()
	peerClosed := make(chan struct{})
	var rmu sync.Mutex
	received := 0
	go func() {
		buf := make([]byte, 4096)
		for {
			n, err := c.Read(buf)
			rmu.Lock()
			received += n
			rmu.Unlock()
			if n > 0 {
				h.mu.Lock()
				if gen == h.gen && len(h.recv) < 64<<10 {
					h.recv = append(h.recv, buf[:n]...)
				}
				h.mu.Unlock()
			}
			if err != nil {
				close(peerClosed)
				return
			}
		}
	}()
	_ = c.SetWriteDeadline(time.Now().Add(30 * time.Second))
	for _, seg := range segs {
		if seg.waitRecv > 0 {
			deadline := time.Now().Add(5 * time.Second)
			for time.Now().Before(deadline) {
				rmu.Lock()
				got := received
				rmu.Unlock()
				if got >= seg.waitRecv {
					break
				}
				select {
				case <-peerClosed:
					deadline = time.Now()
				case <-time.After(200 * time.Microsecond):
				}
			}
		}
		data := seg.data
		failed := false
		for _, n := range seg.slices {
			if len(data) == 0 {
				break
			}
			if n <= 0 {
				continue
			}
			if n > len(data) {
				n = len(data)
			}
			if _, err := c.Write(data[:n]); err != nil {
				failed = true
				break
			}
			data = data[n:]
		}
		if !failed && len(data) > 0 {
			if _, err := c.Write(data); err != nil {
				failed = true
			}
		}
		if failed {
			break
		}
	}
	if tc, ok := c.(*net.TCPConn); ok {
		_ = tc.CloseWrite()
	}
	select {
	case <-peerClosed:
	case <-time.After(60 * time.Second):
	}
}

// waitServed waits until n connections of this case have been accepted and completely served (the peer closed
// them).  false = timeout.
func (hs *hostileServer) waitServed(n int, d time.Duration) bool {
	h := hs.l
	deadline := time.Now().Add(d)
	t := time.AfterFunc(d, func() { h.mu.Lock(); h.cond.Broadcast(); h.mu.Unlock() })
	defer t.Stop()
	h.mu.Lock()
	defer h.mu.Unlock()
	for h.finished < n {
		if !time.Now().Before(deadline) {
			return false
		}
		h.cond.Wait()
	}
	return true
}

// received returns what lal has sent to the stub during this case (first 64 KiB).
func (hs *hostileServer) received() string {
	hs.l.mu.Lock()
	defer hs.l.mu.Unlock()
	return string(hs.l.recv)
}

// attempts is the number of connections accepted for this case.
func (hs *hostileServer) attempts() int {
	hs.l.mu.Lock()
	defer hs.l.mu.Unlock()
	return hs.l.accepted - hs.l.base
}

// close ends the case: its connections are closed, later connections are turned away.
func (hs *hostileServer) close() {
	h := hs.l
	h.mu.Lock()
	cs := h.conns
	h.conns = nil
	h.script = nil
	h.mu.Unlock()
	for _, c := range cs {
		_ = c.Close()
	}
}

func lbl(format string, a ...interface{}) string { return fmt.Sprintf(format, a...) }

// memBackpressure keeps the test binary away from its address-space limit (check.json mem_limit_mb): lal keeps a
// client session that failed before "play" succeeded (with whatever message buffer a misaligned chunk stream made it
// allocate, up to 16 MiB) until the pull timeout expires, so fast cases pile such sessions up.  Waiting for them to
// expire is harness pacing, not a verdict.
// fatalIsPanic: lal's Log.Fatalf ends the process with os.Exit(1) — no crash dump, and with the log silenced no line at
// all, so neither the harness nor the driver could say which peer input did it.  The package loggers are wrapped: Fatal*
// panics with the message instead, at the same place, so that the termination is attributed like any other one
// (panic@<lal function> in a harness-owned goroutine, process-death@<lal function> in one of lal's own).
type fatalIsPanic struct{ nazalog.Logger }

const fatalMsg = "lal called Log.Fatal*, which ends the process with os.Exit(1): "

func (l fatalIsPanic) Fatalf(format string, v ...interface{}) {
	panic(fatalMsg + fmt.Sprintf(format, v...))
}
func (l fatalIsPanic) Fatal(v ...interface{})   { panic(fatalMsg + fmt.Sprint(v...)) }
func (l fatalIsPanic) Fatalln(v ...interface{}) { panic(fatalMsg + fmt.Sprint(v...)) }

func init() {
	for _, lg := range []*nazalog.Logger{&aac.Log, &avc.Log, &base.Log, &gb28181.Log, &hevc.Log, &hls.Log, &httpflv.Log, &httpts.Log,
		&logic.Log, &mpegts.Log, &remux.Log, &rtmp.Log, &rtprtcp.Log, &rtsp.Log, &sdp.Log} {
		*lg = fatalIsPanic{*lg}
	}
}

func init() {
	// the test binary runs under an address-space limit (check.json mem_limit_mb) so that a peer-controlled
	// multi-gigabyte allocation is a deterministic fatal error; keep the collector well below that limit, otherwise
	// garbage piling up between two collections on a loaded machine looks like such an allocation
	debug.SetMemoryLimit(1200 << 20)
}

func memBackpressure() {
	var m runtime.MemStats
	for i := 0; i < 40; i++ {
		runtime.ReadMemStats(&m)
		if m.HeapAlloc < 500<<20 {
			return
		}
		debug.FreeOSMemory()
		time.Sleep(100 * time.Millisecond)
	}
}

// spinningGoroutine samples all goroutine stacks n times (gap apart) and reports a goroutine whose stack contains
// marker and which was running / runnable inside the same lal function in every sample: it burns CPU without making
// progress (all its input was delivered long ago).  A goroutine that is parked, that moved to another function or that
// has gone is not spinning.
func spinningGoroutine(marker string, n int, gap time.Duration) (bool, string) {
	type obs struct{ fn, stack string }
	sample := func() map[string]obs {
		out := map[string]obs{}
		for _, blk := range strings.Split(pbt.AllGoroutines(), "\n\n") {
			if !strings.Contains(blk, marker) {
				continue
			}
			hdr := strings.SplitN(blk, "\n", 2)[0]
			if !strings.Contains(hdr, "[running") && !strings.Contains(hdr, "[runnable") {
				continue
			}
			id := hdr
			if i := strings.Index(hdr, " ["); i > 0 {
				id = hdr[:i]
			}
			out[id] = obs{fn: pbt.InnermostLalFrame(blk), stack: blk}
		}
		return out
	}
	cur := sample()
	for i := 1; i < n && len(cur) > 0; i++ {
		time.Sleep(gap)
		next := sample()
		for id, o := range cur {
			if p, ok := next[id]; !ok || p.fn == "" || !strings.Contains(p.stack, marker) {
				delete(cur, id)
			} else {
				_ = o
			}
		}
	}
	for _, o := range cur {
		return true, o.stack
	}
	return false, ""
}
