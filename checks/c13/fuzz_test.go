package c13

import (
	"bufio"
	"bytes"
	"encoding/binary"
	"net/http"
	"net/http/httptest"
	"os"
	"path/filepath"
	"reflect"
	"sort"
	"strconv"
	"strings"
	"sync"
	"testing"
	"time"

	"pgregory.net/rapid"

	"github.com/q191201771/lal/pkg/base"
	"github.com/q191201771/lal/pkg/gb28181"
	"github.com/q191201771/lal/pkg/httpflv"
	"github.com/q191201771/lal/pkg/logic"
	"github.com/q191201771/lal/pkg/remux"
	"github.com/q191201771/lal/pkg/rtmp"
	"github.com/q191201771/lal/pkg/rtprtcp"
	"github.com/q191201771/lal/pkg/rtsp"
	"github.com/q191201771/lal/pkg/sdp"

	"verif/drv/pbt"
	"verif/harness/inproc"
	"verif/harness/memconn"
)

// Native fuzz targets (thorough tier only): coverage-guided byte streams through the same entries as the structured
// generators, each after a valid prefix selected by the first argument.  The oracle sits inside the target: no panic
// in the goroutine running lal's handler, and the handler returns after the peer's EOF.  Targets whose lal code runs in
// goroutines lal starts itself (client roles) rely on the fuzz worker dying: go's fuzzer records the input.

func fuzzServer() *inproc.Server {
	return inproc.New(inproc.Config{RtmpGopNum: 1, FlvGopNum: 1, TsGopNum: 1})
}

// fuzzer is what a target needs of *testing.F; the seed replay (TestFuzzSeeds) passes a collector instead.
type fuzzer interface {
	Add(args ...any)
	Fuzz(ff any)
}

// seedReplay is set while TestFuzzSeeds runs a target's body outside go's fuzzing engine: a violation is then handed
// back to the property-test driver instead of failing the *testing.T.
var seedReplay bool

type seedViolation struct{ v *pbt.Violation }
type seedSkip struct{}

func fuzzFail(t *testing.T, v *pbt.Violation) {
	if v == nil {
		return
	}
	if seedReplay {
		panic(seedViolation{v})
	}
	t.Fatalf("FUZZ-VIOLATION sig=%s %s", v.Sig, v.Detail)
}

var rtspFuzzStages = []RtspCase{
	{Stage: "none", Video: "avc", Audio: "aac"},
	{Stage: "options", Video: "avc", Audio: "aac"},
	{Stage: "announced", Video: "avc", Audio: "aac"},
	{Stage: "recording", Video: "avc", Audio: "aac"},
	{Stage: "recording", Video: "hevc", Audio: "pcma"},
	{Stage: "recording", Video: "", Audio: "aac"},
}

// FuzzRtspCommand: bytes after a valid RTSP publisher prefix, to lal's RTSP accept handler.
func FuzzRtspCommand(f *testing.F) { fuzzRtspCommand(f) }

func fuzzRtspCommand(f fuzzer) {
	st := &rtpGenState{}
	_ = st
	f.Add(byte(0), []byte("OPTIONS rtsp://127.0.0.1:5544/live/c13hostile RTSP/1.0\r\nCSeq: 1\r\n\r\n"))
	f.Add(byte(2), []byte("SETUP rtsp://127.0.0.1:5544/live/c13hostile/streamid=0 RTSP/1.0\r\nCSeq: 3\r\nTransport: RTP/AVP/TCP;unicast;interleaved=0-1;mode=record\r\n\r\n"))
	f.Add(byte(3), Frame{Chan: 0, DeclLen: -1, Rtp: &RtpSpec{Ver: 2, PT: 96, Seq: 1, TS: 1, SSRC: 1, Payload: Blob{Hex: "6588840021"}, CutTo: -1}}.Bytes())
	f.Add(byte(3), Frame{Chan: 0, DeclLen: -1, Rtp: &RtpSpec{Ver: 2, PT: 96, Seq: 1, TS: 1, SSRC: 1, Payload: Blob{Hex: "7c85888400"}, CutTo: -1}}.Bytes())
	f.Add(byte(3), Frame{Chan: 0, DeclLen: -1, Rtp: &RtpSpec{Ver: 2, PT: 96, Seq: 1, TS: 1, SSRC: 1, Payload: Blob{Hex: "1800046742c01e000468ce3c80"}, CutTo: -1}}.Bytes())
	f.Add(byte(3), Frame{Chan: 2, DeclLen: -1, Rtp: &RtpSpec{Ver: 2, PT: 97, Seq: 1, TS: 1, SSRC: 1, Payload: Blob{Hex: "002000100010aabbccdd"}, CutTo: -1}}.Bytes())
	f.Add(byte(3), Frame{Chan: 1, DeclLen: -1, Rtcp: &RtcpSpec{Type: 200, SSRC: 1, Len: 28}}.Bytes())
	f.Add(byte(4), Frame{Chan: 0, DeclLen: -1, Rtp: &RtpSpec{Ver: 2, PT: 98, Seq: 1, TS: 1, SSRC: 1, Payload: Blob{Hex: "620193aabb"}, CutTo: -1}}.Bytes())
	f.Add(byte(4), Frame{Chan: 0, DeclLen: -1, Rtp: &RtpSpec{Ver: 2, PT: 98, Seq: 1, TS: 1, SSRC: 1, Payload: Blob{Hex: "6001000440010c01000442010101"}, CutTo: -1}}.Bytes())
	f.Add(byte(1), Req{Method: "ANNOUNCE", Uri: hostileUri, Sdp: &Sdp{DropLine: -1, DupLine: -1, Tracks: []SdpTrack{{Media: "video", PT: 96, Enc: "H264", Clock: 90000, Fmtp: "packetization-mode=1; sprop-parameter-sets=Z0LAHg==,aM48gA==", Control: "streamid=0"}}}}.Bytes(2))
	var prefixes [][]byte
	for _, c := range rtspFuzzStages {
		n := 0
		prefixes = append(prefixes, c.prefix(&n))
	}
	f.Fuzz(func(t *testing.T, sel byte, data []byte) {
		if len(data) > 1<<16 {
			return
		}
		s := fuzzServer()
		defer s.Close()
		conn := s.RtspConn()
		_, _ = conn.Write(append(append([]byte(nil), prefixes[int(sel)%len(prefixes)]...), data...))
		conn.CloseWrite()
		if !conn.WaitPeerDone(30 * time.Second) {
			fuzzFail(t, s.PanicViolation())
			fuzzFail(t, pbt.V("session-never-returns/rtsp", "fuzz target"))
		}
		fuzzFail(t, s.PanicViolation())
	})
}

// FuzzRtspWebsocket: bytes after the WebSocket upgrade (sel: with a valid framed OPTIONS first / plain).
func FuzzRtspWebsocket(f *testing.F) { fuzzRtspWebsocket(f) }

func fuzzRtspWebsocket(f fuzzer) {
	n := 0
	opt := WsFrame{Req: &Req{Method: "OPTIONS", Uri: feedUri}, Fin: true, Opcode: 2, Masked: true, CutTo: -1}.Bytes(&n)
	f.Add(byte(0), opt)
	f.Add(byte(1), opt)
	f.Add(byte(0), []byte{0x82, 0xff, 0, 0, 0, 0, 0, 0, 0, 5, 1, 2, 3, 4, 'a', 'b', 'c', 'd', 'e'})
	f.Add(byte(0), []byte{0x82, 0xfe, 0, 3, 1, 2, 3, 4, 'a', 'b', 'c'})
	f.Add(byte(2), []byte("OPTIONS * RTSP/1.0\r\nCSeq: 1\r\n\r\n"))
	f.Fuzz(func(t *testing.T, sel byte, data []byte) {
		if len(data) > 1<<16 {
			return
		}
		s := fuzzServer()
		defer s.Close()
		up := wsUpgradeOK
		wire := data
		switch sel % 3 {
		case 1:
			wire = append(append([]byte(nil), opt...), data...)
		case 2:
			up = nil
		}
		conn, wait := wsConn(s, up)
		defer conn.Close()
		_, _ = conn.Write(wire)
		conn.CloseWrite()
		if !wait(30 * time.Second) {
			fuzzFail(t, s.PanicViolation())
			fuzzFail(t, pbt.V("session-never-returns/ws-rtsp", "fuzz target"))
		}
		fuzzFail(t, s.PanicViolation())
	})
}

type fuzzRtspObserver struct{ rm *remux.AvPacket2RtmpRemuxer }

func (o fuzzRtspObserver) OnSdp(sdpCtx sdp.LogicContext)     { o.rm.OnSdp(sdpCtx) }
func (o fuzzRtspObserver) OnRtpPacket(pkt rtprtcp.RtpPacket) {}
func (o fuzzRtspObserver) OnAvPacket(pkt base.AvPacket)      { o.rm.OnAvPacket(pkt) }

type nopInterleavedWriter struct{}

func (nopInterleavedWriter) WriteInterleavedPacket(packet []byte, channel int) error { return nil }

// FuzzSdp: the SDP parser, what an RTSP publisher session builds from an accepted description (unpackers, RR
// producers, the group's rtsp->rtmp remuxer with its sequence headers) and then RTP / RTCP packets ([len16 packet]*,
// odd index = RTCP) through that session: the chain "SDP parameter -> unpacker state -> packet".
func FuzzSdp(f *testing.F) { fuzzSdp(f) }

func fuzzSdp(f fuzzer) {
	frames := func(ps ...[]byte) []byte {
		var out []byte
		for _, p := range ps {
			out = append(append(out, byte(len(p)>>8), byte(len(p))), p...)
		}
		return out
	}
	rtp := func(pt int, seq uint16, payload string) []byte {
		return RtpSpec{Ver: 2, PT: pt, Seq: seq, TS: 3000 * uint32(seq), SSRC: 7, CutTo: -1, Payload: Blob{Hex: payload}}.Bytes()
	}
	sr := RtcpSpec{Type: 200, SSRC: 7, Len: 28}.Bytes()
	f.Add((&Sdp{DropLine: -1, DupLine: -1, Tracks: []SdpTrack{{Media: "video", PT: 96, Enc: "H264", Clock: 90000, Fmtp: "packetization-mode=1; sprop-parameter-sets=Z0LAHg==,aM48gA==", Control: "streamid=0"},
		{Media: "audio", PT: 97, Enc: "MPEG4-GENERIC", Clock: 44100, Chan: 2, Fmtp: "mode=AAC-hbr; config=1210", Control: "streamid=1"}}}).Bytes(),
		frames(rtp(96, 1, "6588840021"), sr, rtp(97, 1, "002000100010aabbccdd"), sr, rtp(96, 2, "7c85888400"), sr, rtp(96, 3, "7c45ccdd")))
	f.Add((&Sdp{DropLine: -1, DupLine: -1, Tracks: []SdpTrack{{Media: "video", PT: 98, Enc: "H265", Clock: 90000, Fmtp: "sprop-vps=QAEMAf//AWAAAAMAkAAAAwAAAwA/ugJA; sprop-sps=QgEBAWAAAAMAkAAAAwAAAwA/oAUCAXHy5bpKTC8BAQAAAwABAAADAA8I; sprop-pps=RAHBcrRiQA==", Control: "streamid=0"},
		{Media: "audio", PT: 8, Enc: "PCMA", Clock: 8000, Chan: 1, Control: "streamid=1"}}}).Bytes(),
		frames(rtp(98, 1, "2601af08"), sr, rtp(8, 1, "d5d5d5d5"), sr, rtp(98, 2, "620193aabb"), sr, rtp(98, 3, "620153dd")))
	f.Add((&Sdp{DropLine: -1, DupLine: -1, Tracks: []SdpTrack{{Media: "audio", PT: 97, Enc: "mpeg4-generic", Clock: 0, Chan: 2, Fmtp: "mode=AAC-lbr;sizelength=6;indexlength=2; config=f910", Control: "a"},
		{Media: "video", PT: 97, Enc: "H264", Clock: 1, Fmtp: "sprop-parameter-sets=Zw==,aA==", Control: "v"}}}).Bytes(),
		frames(rtp(97, 1, "00100020aabbccdd"), sr))
	// static payload types with and without rtpmap, names lal does not know, payload type / name mismatches, PT > 127
	for _, tr := range []SdpTrack{
		{Media: "audio", PT: 14, NoRtpmap: true, Control: "streamid=0"},
		{Media: "audio", PT: 14, Enc: "MPA", Clock: 90000, Control: "streamid=0"},
		{Media: "audio", PT: 3, Enc: "GSM", Clock: 8000, Chan: 1, Control: "streamid=0"},
		{Media: "audio", PT: 9, Enc: "G722", Clock: 8000, Control: "streamid=0"},
		{Media: "audio", PT: 0, Enc: "H264", Clock: 90000, Control: "streamid=0"},
		{Media: "audio", PT: 96, Enc: "X-UNKNOWN", Clock: 1, Control: "streamid=0"},
		{Media: "audio", PT: 200, Enc: "PCMA", Clock: 8000, Control: "streamid=0"},
		{Media: "video", PT: 26, NoRtpmap: true, Control: "streamid=0"},
		{Media: "video", PT: 32, Enc: "MPV", Clock: 90000, Control: "streamid=0"},
		{Media: "video", PT: 33, Enc: "MP2T", Clock: 90000, Control: "streamid=0"},
		{Media: "video", PT: 96, Enc: "PCMA", Clock: 8000, Control: "streamid=0"},
		{Media: "video", PT: 99999, Enc: "H264", Clock: 90000, Control: "streamid=0"},
	} {
		f.Add((&Sdp{DropLine: -1, DupLine: -1, Tracks: []SdpTrack{tr}}).Bytes(), frames(rtp(tr.PT&0x7f, 1, "d5d5d5d5"), sr))
	}
	f.Fuzz(func(t *testing.T, data []byte, pkts []byte) {
		if len(data) > 1<<16 || len(pkts) > 1<<15 {
			return
		}
		v := pbt.Guard(func() *pbt.Violation {
			ctx, err := sdp.ParseSdp2LogicContext(data)
			if err != nil {
				return nil
			}
			// what handleAnnounce + Group.AddRtspPubSession do with an accepted SDP
			rm := remux.NewAvPacket2RtmpRemuxer().WithOnRtmpMsg(func(msg base.RtmpMsg) {})
			s := rtsp.NewBaseInSessionWithObserver(base.SessionTypeRtspPub, nopInterleavedWriter{}, fuzzRtspObserver{rm: rm})
			s.InitWithSdp(ctx)
			_ = ctx.IsAudioUri("rtsp://h/a/streamid=0")
			_ = ctx.MakeVideoSetupUri("rtsp://h/a")
			_ = s.SetupWithChannel("rtsp://h/a/streamid=0", 0, 1)
			for i := 0; len(pkts) >= 2; i++ {
				n := int(pkts[0])<<8 | int(pkts[1])
				pkts = pkts[2:]
				if n > len(pkts) {
					n = len(pkts)
				}
				ch := 0
				if i%2 == 1 {
					ch = 1
				}
				s.HandleInterleavedPacket(pkts[:n], ch)
				pkts = pkts[n:]
			}
			return nil
		})
		fuzzFail(t, v)
	})
}

// FuzzPsRtp: [len16 packet]* fed to the GB28181 PS unpacker wired to a real group.
func FuzzPsRtp(f *testing.F) { fuzzPsRtp(f) }

func fuzzPsRtp(f fuzzer) {
	frame := func(pk [][]byte) []byte {
		var out []byte
		for _, p := range pk {
			var l [2]byte
			binary.BigEndian.PutUint16(l[:], uint16(len(p)))
			out = append(append(out, l[:]...), p...)
		}
		return out
	}
	valid := GbCase{HdrAt: -1, LenLieAt: -1, Mut: Mut{Trunc: -1}, Elems: []PsElem{{Kind: "pack", Ts: 90000, Cut: -1}, {Kind: "sys", Cut: -1}, {Kind: "psm", Cut: -1},
		{Kind: "video", Pts: 1, Ts: 90000, Es: "sps+pps+idr", Cut: -1}, {Kind: "audio", Pts: 1, Ts: 90000, Es: "adts", Cut: -1}, {Kind: "pack", Ts: 93600, Cut: -1}, {Kind: "video", Pts: 2, Ts: 93600, Es: "p", Cut: -1}}}
	f.Add(frame(valid.packets()))
	valid.Chunks = []int{20, 14, 30, 100}
	f.Add(frame(valid.packets()))
	f.Fuzz(func(t *testing.T, data []byte) {
		if len(data) > 1<<16 {
			return
		}
		// the unpacker and the remuxer a group puts behind it for a GB28181 publisher (logic.Group.StartRtpPub)
		rm := remux.NewAvPacket2RtmpRemuxer()
		rm.WithOption(func(option *base.AvPacketStreamOption) {
			option.VideoFormat = base.AvPacketStreamVideoFormatAnnexb
			option.AudioFormat = base.AvPacketStreamAudioFormatAdtsAac
		})
		rm.WithOnRtmpMsg(func(msg base.RtmpMsg) {})
		up := gb28181.NewPsUnpacker().WithOnAvPacket(func(pkt *base.AvPacket) { rm.OnAvPacket(*pkt) })
		v := pbt.Guard(func() *pbt.Violation {
			for len(data) >= 2 {
				n := int(binary.BigEndian.Uint16(data))
				data = data[2:]
				if n > len(data) {
					n = len(data)
				}
				_ = up.FeedRtpPacket(data[:n])
				data = data[n:]
			}
			return nil
		})
		fuzzFail(t, v)
	})
}

// FuzzHttpRequest: a raw HTTP request, as net/http parses it, to the HTTP-FLV/TS subscriber handler (sel 0) and
// the HLS handler with / without session mode (sel 1, 2).
func FuzzHttpRequest(f *testing.F) { fuzzHttpRequest(f) }

func fuzzHttpRequest(f fuzzer) {
	f.Add(byte(0), []byte("GET /live/c13feed.flv HTTP/1.1\r\nHost: 127.0.0.1:8080\r\n\r\n"))
	f.Add(byte(0), []byte("GET /live/c13feed.ts?a=b HTTP/1.1\r\nHost: 127.0.0.1:8080\r\nConnection: Upgrade\r\nUpgrade: websocket\r\nSec-WebSocket-Key: dGhlIHNhbXBsZSBub25jZQ==\r\n\r\n"))
	f.Add(byte(1), []byte("GET /hls/c13feed.m3u8 HTTP/1.1\r\nHost: 127.0.0.1:8080\r\n\r\n"))
	f.Add(byte(2), []byte("GET /hls/c13feed-1700000000000-1.ts?session_id=abc HTTP/1.1\r\nHost: 127.0.0.1:8080\r\n\r\n"))
	f.Add(byte(2), []byte("GET /hls/c13feed/playlist.m3u8 HTTP/1.1\r\nHost: h\r\n\r\n"))
	f.Fuzz(func(t *testing.T, sel byte, data []byte) {
		if len(data) > 1<<14 {
			return
		}
		req, err := http.ReadRequest(bufio.NewReader(bytes.NewReader(data)))
		if err != nil {
			return
		}
		req.RemoteAddr = "127.0.0.1:40700"
		s := fuzzServer()
		defer s.Close()
		switch sel % 3 {
		case 0:
			cli, srv := memconn.PairAddr("127.0.0.1:40700", "127.0.0.1:8080")
			h := logic.NewHttpServerHandler(s.SM)
			done := s.Go("http-sub", func() {
				defer srv.MarkDone()
				defer srv.Close()
				h.ServeSubSession(&hijackWriter{conn: srv, hdr: http.Header{}}, req)
			})
			_ = cli.Close()
			select {
			case <-done:
			case <-time.After(30 * time.Second):
				fuzzFail(t, s.PanicViolation())
				fuzzFail(t, pbt.V("session-never-returns/http-sub", "fuzz target"))
			}
		default:
			key := ""
			if sel%3 == 2 {
				key = "k"
			}
			h := hlsHandler(s, key)
			s.Call("hls", func() { h.ServeHTTP(httptest.NewRecorder(), req) })
		}
		fuzzFail(t, s.PanicViolation())
	})
}

// fuzzClient runs one execution of a client-role target against the process' hostile listener.
var fuzzLast time.Time

func fuzzClient(t *testing.T, segs []segment, pull func(addr string), marker string) {
	if l, err := theHostileListener(); l == nil {
		if seedReplay {
			panic(seedSkip{})
		}
		t.Skipf("no loopback listener: %v", err)
	}
	// at most ~200 connections per second and worker: every connection leaves a TIME-WAIT socket behind for a minute,
	// and the machine is shared
	if d := 5*time.Millisecond - time.Since(fuzzLast); d > 0 {
		time.Sleep(d)
	}
	fuzzLast = time.Now()
	hs := newHostileServerSeg(func(int) []segment { return segs })
	defer hs.close()
	pull(hs.Addr)
	if !hs.waitServed(1, 12*time.Second) && hs.attempts() >= 1 {
		if spin, stack := spinningGoroutine(marker, 4, time.Second); spin {
			fuzzFail(t, pbt.V("client-session-spins", "%s", head(stack, 1500)))
		}
	}
}

// FuzzRtmpClient: the chunk stream an RTMP origin sends after the handshake (sel: nothing / connect result /
// + createStream result / + play start before it).  A crash of lal's read loop kills the fuzz worker.
func FuzzRtmpClient(f *testing.F) { fuzzRtmpClient(f) }

func fuzzRtmpClient(f fuzzer) {
	stages := []string{"none", "connected", "created", "playing"}
	for i, m := range []RMsg{{Type: 4, Body: Blob{Hex: "000600000001"}, Csid: 2}, {Type: 3, Body: Blob{Hex: "00001000"}, Csid: 2}, {Type: 20, Cmd: "onStatus", Body: Blob{Hex: "05"}, Csid: 3},
		{Type: 9, Body: Blob{Hex: "27010000000000000565aabbccddee"}, Csid: 6, Msid: 1}, {Type: 18, Body: Blob{Hex: "02000a6f6e4d65746144617461080000000000000009"}, Csid: 5, Msid: 1}} {
		c := RtmpSrvCase{Handshake: "ok", Stage: "none", Msgs: []RMsg{m}, Mut: Mut{Trunc: -1}}
		_, chunks := c.wire()
		f.Add(byte(i%4), chunks)
	}
	f.Fuzz(func(t *testing.T, sel byte, data []byte) {
		if len(data) > 1<<15 {
			return
		}
		c := RtmpSrvCase{Handshake: "ok", Stage: stages[int(sel)%len(stages)], Mut: Mut{Trunc: -1}}
		hsk, pre := c.wire()
		segs := []segment{{data: hsk, waitRecv: 1537}, {data: append(pre, data...), waitRecv: 1537 + 1536 + 12}}
		fuzzClient(t, segs, func(addr string) {
			sess := rtmp.NewPullSession(func(o *rtmp.PullSessionOption) { o.PullTimeoutMs = 300; o.ReadAvTimeoutMs = 2000 })
			if err := sess.Pull("rtmp://" + addr + "/live/c13fuzz"); err == nil {
				select {
				case <-sess.WaitChan():
				case <-time.After(5 * time.Second):
				}
			}
			_ = sess.Dispose()
		}, "rtmp.(*ClientSession)")
	})
}

type nopRtspObserver struct{}

func (nopRtspObserver) OnSdp(sdpCtx sdp.LogicContext) {}

// FuzzRtspClient: what an RTSP server sends after a valid OPTIONS/DESCRIBE/SETUP/PLAY exchange (sel selects how far
// the valid responses go and the transport), through a real relay pull of a real group.
func FuzzRtspClient(f *testing.F) { fuzzRtspClient(f) }

func fuzzRtspClient(f fuzzer) {
	f.Add(byte(4), Frame{Chan: 0, DeclLen: -1, Rtp: &RtpSpec{Ver: 2, PT: 96, Seq: 1, TS: 1, SSRC: 1, Payload: Blob{Hex: "6588840021"}, CutTo: -1}}.Bytes())
	f.Add(byte(4), Frame{Chan: 1, DeclLen: -1, Rtcp: &RtcpSpec{Type: 200, SSRC: 1, Len: 28}}.Bytes())
	f.Add(byte(1), RResp{Status: "200", Reason: "OK", Hdrs: [][2]string{{"Content-Type", "application/sdp"}}, Sdp: &Sdp{DropLine: -1, DupLine: -1, Tracks: []SdpTrack{{Media: "video", PT: 96, Enc: "H264", Clock: 90000, Control: "streamid=0"}}}}.Bytes(2))
	f.Add(byte(1), RResp{Status: "401", Reason: "Unauthorized", Hdrs: [][2]string{{"WWW-Authenticate", `Digest realm="r", nonce="n"`}}}.Bytes(2))
	f.Add(byte(2), RResp{Status: "200", Reason: "OK", Hdrs: [][2]string{{"Transport", "RTP/AVP/TCP;unicast;interleaved=0-1"}, {"Session", "x"}}}.Bytes(3))
	stages := []string{"none", "options", "described", "setup", "playing", "playing"}
	f.Fuzz(func(t *testing.T, sel byte, data []byte) {
		if len(data) > 1<<15 {
			return
		}
		c := RtspSrvCase{Stage: stages[int(sel)%len(stages)], Video: "avc", Audio: "aac", GetParameter: sel&0x40 != 0, Mut: Mut{Trunc: -1}}
		wire := append(c.wire(), data...)
		s := fuzzServer()
		defer s.Close()
		fuzzClient(t, []segment{{data: wire}}, func(addr string) {
			startPull(s, "rtsp://"+addr+"/live/"+pullStream, 0)
		}, "rtsp.(*ClientCommandSession)")
		fuzzFail(t, s.PanicViolation())
	})
}

// FuzzHttpflvClient: the HTTP response (status line, headers, FLV body) an HTTP-FLV origin sends.
func FuzzHttpflvClient(f *testing.F) { fuzzHttpflvClient(f) }

func fuzzHttpflvClient(f fuzzer) {
	c := FlvSrvCase{StatusLine: "HTTP/1.1 200 OK", FlvHeader: "464c5601050000000900000000", Mut: Mut{Trunc: -1},
		Tags: []FlvTagSpec{{Type: 9, Body: Blob{Hex: "170000000001"}, DeclSize: -1, PrevSize: -1}, {Type: 8, Body: Blob{Hex: "af001210"}, DeclSize: -1, PrevSize: -1}}}
	f.Add(c.wire("127.0.0.1:1", 5))
	f.Add([]byte("HTTP/1.1 302 Found\r\nLocation: http://127.0.0.1:1/x.flv\r\n\r\n"))
	f.Fuzz(func(t *testing.T, data []byte) {
		if len(data) > 1<<15 {
			return
		}
		fuzzClient(t, []segment{{data: data}}, func(addr string) {
			sess := httpflv.NewPullSession(func(o *httpflv.PullSessionOption) { o.PullTimeoutMs = 1500; o.ReadTimeoutMs = 3000 })
			if err := sess.Pull("http://"+addr+"/live/c13.flv", func(tag httpflv.Tag) {}); err == nil {
				select {
				case <-sess.WaitChan():
				case <-time.After(5 * time.Second):
				}
			}
			_ = sess.Dispose()
		}, "httpflv.(*PullSession)")
	})
}

// ---- seed replay in the quick tier ---------------------------------------------------------------------------------
//
// The driver runs `-test.run ^Test` in the quick tier, so go's own replay of the f.Add seeds and of the saved fuzz corpus
// (corpus/c13/fuzz/<Target>/*, go's corpus file format) never happens there.  TestFuzzSeeds feeds every seed once
// through the body of its target.

var fuzzTargets = map[string]func(fuzzer){
	"FuzzRtspCommand": fuzzRtspCommand, "FuzzRtspWebsocket": fuzzRtspWebsocket, "FuzzSdp": fuzzSdp, "FuzzPsRtp": fuzzPsRtp,
	"FuzzHttpRequest": fuzzHttpRequest, "FuzzRtmpClient": fuzzRtmpClient, "FuzzRtspClient": fuzzRtspClient, "FuzzHttpflvClient": fuzzHttpflvClient,
}

type seedCollector struct {
	seeds [][]any
	fn    reflect.Value
}

func (c *seedCollector) Add(args ...any) { c.seeds = append(c.seeds, args) }
func (c *seedCollector) Fuzz(ff any)     { c.fn = reflect.ValueOf(ff) }

var (
	seedOnce  sync.Once
	seedSets  = map[string]*seedCollector{}
	seedNames []string
)

// parseGoCorpus reads one file of go's fuzz corpus format ("go test fuzz v1" + one Go literal per line; the C13
// targets only use byte and []byte arguments).
func parseGoCorpus(b []byte) ([]any, bool) {
	lines := strings.Split(strings.TrimSpace(string(b)), "\n")
	if len(lines) < 2 || !strings.HasPrefix(lines[0], "go test fuzz v1") {
		return nil, false
	}
	var out []any
	for _, l := range lines[1:] {
		l = strings.TrimSpace(l)
		switch {
		case strings.HasPrefix(l, "[]byte(") && strings.HasSuffix(l, ")"):
			str, err := strconv.Unquote(l[len("[]byte(") : len(l)-1])
			if err != nil {
				return nil, false
			}
			out = append(out, []byte(str))
		case strings.HasPrefix(l, "byte(") && strings.HasSuffix(l, ")"):
			r, _, _, err := strconv.UnquoteChar(strings.Trim(l[len("byte("):len(l)-1], "'"), 0)
			if err != nil {
				return nil, false
			}
			out = append(out, byte(r))
		default:
			return nil, false
		}
	}
	return out, true
}

func loadSeeds() {
	seedOnce.Do(func() {
		for name, fn := range fuzzTargets {
			c := &seedCollector{}
			fn(c)
			files, _ := filepath.Glob(filepath.Join("/verif/corpus/c13/fuzz", name, "*"))
			sort.Strings(files)
			for _, f := range files {
				if b, err := os.ReadFile(f); err == nil {
					if args, ok := parseGoCorpus(b); ok && len(args) == c.fn.Type().NumIn()-1 {
						c.seeds = append(c.seeds, args)
					}
				}
			}
			seedSets[name] = c
			seedNames = append(seedNames, name)
		}
		sort.Strings(seedNames)
	})
}

// SeedCase names one seed of one target.
type SeedCase struct {
	Target string `json:"target"`
	Index  int    `json:"index"`
}

var seedT *testing.T

func runSeed(c SeedCase) (v *pbt.Violation) {
	loadSeeds()
	set := seedSets[c.Target]
	if set == nil || len(set.seeds) == 0 {
		return nil
	}
	args := set.seeds[c.Index%len(set.seeds)]
	in := []reflect.Value{reflect.ValueOf(seedT)}
	for _, a := range args {
		in = append(in, reflect.ValueOf(a))
	}
	seedReplay = true
	defer func() {
		seedReplay = false
		if r := recover(); r != nil {
			switch x := r.(type) {
			case seedViolation:
				v = x.v
			case seedSkip:
			default:
				panic(r)
			}
		}
	}()
	set.fn.Call(in)
	return nil
}

func TestFuzzSeeds(t *testing.T) {
	resetNotes()
	seedT = t
	loadSeeds()
	pbt.Run(t, pbt.Spec[SeedCase]{
		ID: "C13", Name: "fuzz-seed-replay", Isolate: true,
		Gen: func(rt *rapid.T) SeedCase {
			name := rapid.SampledFrom(seedNames).Draw(rt, "target")
			n := len(seedSets[name].seeds)
			if n == 0 {
				n = 1
			}
			return SeedCase{Target: name, Index: rapid.IntRange(0, n-1).Draw(rt, "index")}
		},
		Run: runSeed,
		Classify: func(c SeedCase) (bool, []string) {
			return true, []string{"target:" + c.Target, lbl("seed:%s#%d", c.Target, c.Index)}
		},
		Quick: 30, Thorough: 200,
	})
}
