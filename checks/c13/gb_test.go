package c13

import (
	"encoding/binary"
	"fmt"
	"net"
	"testing"
	"time"

	"github.com/q191201771/lal/pkg/base"
	"github.com/q191201771/lal/pkg/gb28181"
	"pgregory.net/rapid"

	"verif/drv/pbt"
	"verif/gen"
	"verif/harness/inproc"
	"verif/harness/lalclient"
	"verif/ref/psref"
)

// Patch overwrites octets of a rendered element.
type Patch struct {
	Off int    `json:"off"`
	Hex string `json:"hex"`
}

// PsElem is one syntactic element of the program stream, rendered by the
// reference muxer and then degraded.
type PsElem struct {
	// pack | sys | psm | video | audio | end | private (0x1bd) | padding (0x1be) | private2 (0x1bf) | ecm (0x1f0) |
	// psd (0x1ff) | code (any 32-bit code in Code) | raw
	Kind    string  `json:"kind"`
	Code    uint32  `json:"code,omitempty"`
	Stuff   int     `json:"stuff,omitempty"` // pack: stuffing bytes; pes: header stuffing
	Pts     int     `json:"pts"`             // pes: 0 none, 1 pts, 2 pts+dts
	Ts      uint64  `json:"ts,omitempty"`
	Es      string  `json:"es,omitempty"` // video payload: sps | pps | idr | p | vps | aud | none ; audio: adts | g711 | none
	Sc3     bool    `json:"sc3,omitempty"`
	Payload *Blob   `json:"payload,omitempty"` // appended to the elementary stream payload (or the whole body of private/raw kinds)
	Streams int     `json:"streams,omitempty"` // psm/sys: 0 avc+aac, 1 hevc+g711a, 2 video only, 3 none, 4 unknown types
	Patches []Patch `json:"patches,omitempty"`
	Cut     int     `json:"cut"` // >= 0: the element is cut to this many octets
	Label   string  `json:"label,omitempty"`
}

func gbStreams(v int) []psref.ES {
	switch v {
	case 1:
		return []psref.ES{{StreamID: psref.StreamIDVideo, StreamType: psref.StreamTypeH265}, {StreamID: psref.StreamIDAudio, StreamType: psref.StreamTypeG711A}}
	case 2:
		return []psref.ES{{StreamID: psref.StreamIDVideo, StreamType: psref.StreamTypeH264}}
	case 3:
		return nil
	case 4:
		return []psref.ES{{StreamID: psref.StreamIDVideo, StreamType: 0x10}, {StreamID: psref.StreamIDAudio, StreamType: 0x03}, {StreamID: 0xBD, StreamType: 0x06, Descriptors: []byte{5, 4, 'H', 'E', 'V', 'C'}}}
	}
	return []psref.ES{{StreamID: psref.StreamIDVideo, StreamType: psref.StreamTypeH264}, {StreamID: psref.StreamIDAudio, StreamType: psref.StreamTypeAAC}}
}

func (e PsElem) esBytes() []byte {
	sc := []byte{0, 0, 0, 1}
	if e.Sc3 {
		sc = sc[1:]
	}
	var out []byte
	_, sps, pps := gen.ParamSets("avc", 0)
	switch e.Es {
	case "sps":
		out = append(append(out, sc...), sps...)
	case "pps":
		out = append(append(out, sc...), pps...)
	case "sps+pps+idr":
		out = append(append(out, sc...), sps...)
		out = append(append(out, sc...), pps...)
		out = append(append(out, sc...), 0x65, 0x88, 0x84, 0x00, 0x21, 0xff)
	case "idr":
		out = append(append(out, sc...), 0x65, 0x88, 0x84, 0x00, 0x21, 0xff)
	case "p":
		out = append(append(out, sc...), 0x41, 0x9a, 0x01, 0x02)
	case "vps":
		vps, _, _ := gen.ParamSets("hevc", 0)
		out = append(append(out, sc...), vps...)
	case "aud":
		out = append(append(out, sc...), 0x09, 0xf0)
	case "sc-only":
		out = append(out, sc...)
	case "adts":
		out = []byte{0xff, 0xf1, 0x50, 0x80, 0x01, 0x7f, 0xfc, 0x21, 0x10, 0x04, 0x60, 0x8c}
	case "adts-short":
		out = []byte{0xff, 0xf1, 0x50}
	case "g711":
		out = []byte{0xd5, 0xd5, 0xd5, 0xd5, 0xd5, 0xd5, 0xd5, 0xd5}
	}
	if e.Payload != nil {
		out = append(out, e.Payload.Bytes()...)
	}
	return out
}

func (e PsElem) Bytes() []byte {
	var out []byte
	st := psref.Stamp{}
	if e.Pts >= 1 {
		st.HasPTS, st.PTS = true, e.Ts
	}
	if e.Pts >= 2 {
		st.HasDTS, st.DTS = true, e.Ts
	}
	generic := func(code uint32) []byte {
		var body []byte
		if e.Payload != nil {
			body = e.Payload.Bytes()
		}
		if len(body) > 0xFFFF {
			body = body[:0xFFFF]
		}
		b := []byte{byte(code >> 24), byte(code >> 16), byte(code >> 8), byte(code), byte(len(body) >> 8), byte(len(body))}
		return append(b, body...)
	}
	switch e.Kind {
	case "pack":
		out = psref.PackHeader(e.Ts, 0, 50000, e.Stuff%8)
	case "sys":
		out = psref.SystemHeader(50000, 1, 1, gbStreams(e.Streams))
	case "psm":
		out = psref.PSM(1, nil, gbStreams(e.Streams))
	case "video", "audio":
		id := uint8(psref.StreamIDVideo)
		if e.Kind == "audio" {
			id = psref.StreamIDAudio
		}
		es := e.esBytes()
		if m := psref.MaxPESPayload(st, e.Stuff%32); len(es) > m {
			es = es[:m]
		}
		out = psref.PES(id, st, e.Stuff%32, true, es)
	case "end":
		out = []byte{0, 0, 1, 0xb9}
	case "private":
		out = generic(0x1bd)
	case "padding":
		out = generic(0x1be)
	case "private2":
		out = generic(0x1bf)
	case "ecm":
		out = generic(0x1f0)
	case "psd":
		out = generic(0x1ff)
	case "code":
		out = generic(e.Code)
	case "raw":
		if e.Payload != nil {
			out = e.Payload.Bytes()
		}
	default:
		panic(pbt.HarnessError{Msg: "c13: unknown ps element kind " + e.Kind})
	}
	for _, p := range e.Patches {
		b := unhex(p.Hex)
		for i, x := range b {
			if p.Off+i >= 0 && p.Off+i < len(out) {
				out[p.Off+i] = x
			}
		}
	}
	if e.Cut >= 0 && e.Cut < len(out) {
		out = out[:e.Cut]
	}
	return out
}

// GbCase: a program stream cut into RTP packets.
type GbCase struct {
	Elems  []PsElem `json:"elems"`
	Chunks []int    `json:"chunks"` // RTP payload sizes; the rest goes into one last packet (0 entries are empty-payload packets)
	Seq0   uint16   `json:"seq0"`
	// SeqOps[i] (if present) is added to the sequence number step of packet i (0 = consecutive)
	SeqOps []int `json:"seq_ops,omitempty"`
	// Hdr: packet index -> RTP header degradation (padding, csrc, extension, cut); the payload of the spec is ignored
	HdrAt int      `json:"hdr_at"`
	Hdr   *RtpSpec `json:"hdr,omitempty"`
	Tcp   bool     `json:"tcp,omitempty"`
	// TCP framing (L3 only): LenLies[i] replaces the 2-byte length prefix of packet i; Mut applies to the byte stream
	LenLieAt int   `json:"len_lie_at"`
	LenLie   int   `json:"len_lie"`
	Mut      Mut   `json:"mut"`
	Slices   []int `json:"slices,omitempty"`
	// Flood (after the packets of the program stream): a sequence-number gap, many packets cached behind the gap,
	// then the missing packet, then further packets.  Exercises the reorder list up to and beyond its capacity (1024).
	Flood *GbFlood `json:"flood,omitempty"`
	// Udp: the packets go as datagrams to the UDP socket of a pub session started with CtrlStartRtpPub (lal's UDP read loop)
	Udp bool `json:"udp,omitempty"`
	// SecondConn > 0 (TCP): before packet SecondConn-1 (mod count) a second TCP connection is made to the same port
	// (lal closes the first one and starts a second reader on the same unpacker); the remaining packets go over it.
	// FirstAlso: the first connection gets one more packet afterwards
	SecondConn int  `json:"second_conn,omitempty"`
	FirstAlso  bool `json:"first_also,omitempty"`
	// Ticks: ServerManager.VerifTick counts run when half of the packets are out (the session is half-open); the pub
	// session's own timeout is 60 ticks: 1, 61, 121 without traffic in between make lal dispose it mid-stream
	Ticks []uint32 `json:"ticks,omitempty"`
}

// GbFlood: packet F (valid), then Cached valid packets F+2 ... F+1+Cached (held back: F+1 is missing), then F+1
// itself (Gap: its payload — "garbage" = unknown start code, "valid", "cut" = start code only, "none" = never sent),
// then one packet per entry of Then at sequence number F+Then[i].
type GbFlood struct {
	Cached int    `json:"cached"`
	Gap    string `json:"gap"`
	Then   []int  `json:"then,omitempty"`
}

func (c *GbCase) ps() []byte {
	var out []byte
	for _, e := range c.Elems {
		out = append(out, e.Bytes()...)
	}
	return out
}

func (c *GbCase) packets() [][]byte {
	ps := c.ps()
	var payloads [][]byte
	for _, n := range c.Chunks {
		if n > len(ps) {
			n = len(ps)
		}
		payloads = append(payloads, ps[:n])
		ps = ps[n:]
	}
	if len(ps) > 0 {
		payloads = append(payloads, ps)
	}
	seq := c.Seq0
	var out [][]byte
	for i, p := range payloads {
		if i < len(c.SeqOps) {
			seq += uint16(c.SeqOps[i])
		}
		r := RtpSpec{Ver: 2, PT: 96, Seq: seq, TS: 90000 + uint32(i/4)*3600, SSRC: 0x28181, CutTo: -1, Marker: i == len(payloads)-1}
		if c.Hdr != nil && i == c.HdrAt%len(payloads) {
			h := *c.Hdr
			h.Seq, h.TS, h.SSRC, h.PT = r.Seq, r.TS, r.SSRC, r.PT
			r = h
		}
		r.Payload = Blob{Hex: fmt.Sprintf("%x", p)}
		out = append(out, r.Bytes())
		seq++
	}
	if f := c.Flood; f != nil {
		valid := psref.PackHeader(90000, 0, 50000, 0)
		pk := func(s uint16, payload []byte) []byte {
			return RtpSpec{Ver: 2, PT: 96, Seq: s, TS: 200000, SSRC: 0x28181, CutTo: -1, Payload: Blob{Hex: fmt.Sprintf("%x", payload)}}.Bytes()
		}
		first := seq // continues the program stream's packets
		out = append(out, pk(first, valid))
		for i := 0; i < f.Cached; i++ {
			out = append(out, pk(first+2+uint16(i), valid))
		}
		switch f.Gap {
		case "garbage":
			out = append(out, pk(first+1, []byte{9, 9, 9, 9, 9, 9, 9, 9}))
		case "valid":
			out = append(out, pk(first+1, valid))
		case "cut":
			out = append(out, pk(first+1, []byte{0, 0, 1, 0xe0}))
		}
		for _, d := range f.Then {
			out = append(out, pk(first+uint16(d), valid))
		}
	}
	return out
}

// ---- generator -----------------------------------------------------------------------

func genPsElem(t *rapid.T, ts *uint64) PsElem {
	e := PsElem{Cut: -1}
	k := rapid.IntRange(0, 19).Draw(t, "elemKind")
	switch {
	case k <= 2:
		e.Kind = "pack"
		e.Ts = *ts
		e.Stuff = rapid.IntRange(0, 7).Draw(t, "packStuff")
		switch rapid.IntRange(0, 5).Draw(t, "packMut") {
		case 0:
			// the stuffing length says more than there is
			e.Patches = []Patch{{Off: 13, Hex: fmt.Sprintf("%02x", 0xf8|rapid.IntRange(0, 7).Draw(t, "packStuffDecl"))}}
			e.Label = "pack-stuffing-lies"
		case 1:
			e.Cut = rapid.IntRange(4, 14).Draw(t, "packCut")
			e.Label = "pack-cut"
		}
	case k == 3:
		e.Kind = "sys"
		e.Streams = rapid.IntRange(0, 4).Draw(t, "sysStreams")
		switch rapid.IntRange(0, 3).Draw(t, "sysMut") {
		case 0:
			e.Patches = []Patch{{Off: 4, Hex: rapid.SampledFrom([]string{"0000", "0001", "ffff", "0100"}).Draw(t, "sysLen")}}
			e.Label = "sys-length-lies"
		case 1:
			e.Cut = rapid.IntRange(4, 8).Draw(t, "sysCut")
			e.Label = "sys-cut"
		}
	case k <= 6:
		e.Kind = "psm"
		e.Streams = rapid.IntRange(0, 4).Draw(t, "psmStreams")
		switch rapid.IntRange(0, 6).Draw(t, "psmMut") {
		case 0:
			e.Patches = []Patch{{Off: 4, Hex: rapid.SampledFrom([]string{"0000", "0001", "0004", "ffff"}).Draw(t, "psmLen")}}
			e.Label = "psm-length-lies"
		case 1:
			// program_stream_info_length
			e.Patches = []Patch{{Off: 8, Hex: rapid.SampledFrom([]string{"0001", "0004", "0008", "00ff", "ffff"}).Draw(t, "psmInfoLen")}}
			e.Label = "psm-info-length-lies"
		case 2:
			// elementary_stream_map_length
			e.Patches = []Patch{{Off: 10, Hex: rapid.SampledFrom([]string{"0001", "0003", "0005", "0009", "00ff", "ffff"}).Draw(t, "psmMapLen")}}
			e.Label = "psm-map-length-lies"
		case 3:
			// elementary_stream_info_length of the first entry
			e.Patches = []Patch{{Off: 14, Hex: rapid.SampledFrom([]string{"0001", "0004", "00ff", "ffff"}).Draw(t, "psmEsInfoLen")}}
			e.Label = "psm-es-info-length-lies"
		case 4:
			e.Cut = rapid.IntRange(4, 20).Draw(t, "psmCut")
			e.Label = "psm-cut"
		}
	case k <= 13:
		e.Kind = "video"
		if k >= 12 {
			e.Kind = "audio"
			e.Es = rapid.SampledFrom([]string{"adts", "adts", "adts-short", "g711", "none"}).Draw(t, "audioEs")
		} else {
			e.Es = rapid.SampledFrom([]string{"sps+pps+idr", "sps+pps+idr", "sps", "pps", "idr", "p", "p", "vps", "aud", "sc-only", "none"}).Draw(t, "videoEs")
			e.Sc3 = rapid.IntRange(0, 3).Draw(t, "sc3") == 0
		}
		e.Pts = rapid.SampledFrom([]int{1, 1, 1, 0, 2}).Draw(t, "ptsFlags")
		if rapid.IntRange(0, 2).Draw(t, "tsAdvance") > 0 {
			*ts += rapid.SampledFrom([]uint64{0, 3600, 3600, 90000, 1 << 32}).Draw(t, "tsStep")
		}
		e.Ts = *ts
		e.Stuff = rapid.SampledFrom([]int{0, 0, 1, 5, 31}).Draw(t, "pesStuff")
		if rapid.IntRange(0, 3).Draw(t, "esExtra") == 0 {
			e.Payload = &Blob{Seed: rapid.Uint32Range(0, 99).Draw(t, "esSeed"), Len: rapid.SampledFrom([]int{1, 3, 100, 1400, 5000}).Draw(t, "esLen")}
		}
		switch rapid.IntRange(0, 9).Draw(t, "pesMut") {
		case 0:
			e.Patches = []Patch{{Off: 4, Hex: rapid.SampledFrom([]string{"0000", "0001", "0002", "0003", "0004", "0008", "ffff"}).Draw(t, "pesLen")}}
			e.Label = "pes-length-lies"
		case 1:
			e.Patches = []Patch{{Off: 8, Hex: rapid.SampledFrom([]string{"00", "01", "04", "05", "0a", "40", "ff"}).Draw(t, "pesHdl")}}
			e.Label = "pes-header-data-length-lies"
		case 2:
			e.Patches = []Patch{{Off: 7, Hex: rapid.SampledFrom([]string{"00", "40", "80", "c0", "ff"}).Draw(t, "pesFlags")}}
			e.Label = "pes-pts-flags-lie"
		case 3:
			e.Cut = rapid.IntRange(4, 20).Draw(t, "pesCut")
			e.Label = "pes-cut"
		case 4:
			// short PES: the length covers less than the optional header
			e.Patches = []Patch{{Off: 4, Hex: "0003"}, {Off: 8, Hex: rapid.SampledFrom([]string{"05", "0a", "ff"}).Draw(t, "pesHdl2")}}
			e.Label = "pes-header-beyond-packet"
		}
	case k == 14:
		e.Kind = "end"
	case k <= 16:
		e.Kind = rapid.SampledFrom([]string{"private", "padding", "private2", "ecm", "psd"}).Draw(t, "genericKind")
		e.Payload = &Blob{Seed: 3, Len: rapid.SampledFrom([]int{0, 1, 10, 300}).Draw(t, "genericLen")}
		if rapid.IntRange(0, 2).Draw(t, "genericMut") == 0 {
			e.Patches = []Patch{{Off: 4, Hex: rapid.SampledFrom([]string{"0000", "0001", "ffff", "1000"}).Draw(t, "genericDecl")}}
			e.Label = "generic-length-lies"
		}
	case k == 17:
		e.Kind = "code"
		e.Code = rapid.SampledFrom([]uint32{0x1c1, 0x1e1, 0x1b0, 0x100, 0x1ef, 0x1fe, 0x00000000, 0xffffffff, 0x000001}).Draw(t, "code")
		e.Payload = &Blob{Seed: 4, Len: rapid.SampledFrom([]int{0, 4, 20}).Draw(t, "codeLen")}
	default:
		e.Kind = "raw"
		e.Payload = &Blob{Hex: rapid.SampledFrom([]string{"00", "0000", "000001", "000001e0", "000001e000", "000001c0", "000001ba", "000001bc00", "000001bb", "ff", "000001e0ffff", "000001e0000381"}).Draw(t, "rawPs")}
	}
	return e
}

func genGbCase(mode string) func(t *rapid.T) GbCase {
	tcp := mode == "tcp"
	return func(t *rapid.T) GbCase {
		c := GbCase{Tcp: tcp, Udp: mode == "udp", LenLieAt: -1, HdrAt: -1}
		c.Mut.Trunc = -1
		ts := uint64(rapid.SampledFrom([]uint64{0, 90000, 1<<33 - 1}).Draw(t, "ts0"))
		// a valid beginning most of the time, so that the parser is in the middle of a stream
		if rapid.IntRange(0, 4).Draw(t, "validStart") > 0 {
			v := rapid.IntRange(0, 1).Draw(t, "startStreams")
			c.Elems = append(c.Elems, PsElem{Kind: "pack", Ts: ts, Cut: -1}, PsElem{Kind: "sys", Streams: v, Cut: -1}, PsElem{Kind: "psm", Streams: v, Cut: -1},
				PsElem{Kind: "video", Pts: 1, Ts: ts, Es: "sps+pps+idr", Cut: -1}, PsElem{Kind: "audio", Pts: 1, Ts: ts, Es: "adts", Cut: -1})
			ts += 3600
		}
		n := rapid.IntRange(1, 10).Draw(t, "nelems")
		for i := 0; i < n; i++ {
			c.Elems = append(c.Elems, genPsElem(t, &ts))
		}
		// a header-only PES as the very last bytes of the last RTP payload, its PTS_DTS_flags promising what the
		// PES_header_data_length has no room for (seed c13-g: '11' with 5..9 header bytes -> DTS read behind the buffer)
		if rapid.IntRange(0, 3).Draw(t, "tailPes") == 0 {
			e := PsElem{Cut: -1, Kind: rapid.SampledFrom([]string{"video", "audio"}).Draw(t, "tailKind"), Es: "none", Ts: ts, Label: "pes-header-only-at-packet-end"}
			e.Pts = rapid.SampledFrom([]int{1, 1, 2, 0}).Draw(t, "tailPts")
			e.Stuff = rapid.SampledFrom([]int{0, 0, 1, 2, 4, 5}).Draw(t, "tailStuff")
			e.Patches = []Patch{{Off: 7, Hex: rapid.SampledFrom([]string{"c0", "c0", "80", "40", "00"}).Draw(t, "tailFlags")}}
			c.Elems = append(c.Elems, e)
		}
		nc := rapid.IntRange(0, 8).Draw(t, "nchunks")
		for i := 0; i < nc; i++ {
			c.Chunks = append(c.Chunks, rapid.SampledFrom([]int{0, 1, 2, 3, 4, 5, 6, 9, 13, 14, 20, 30, 100, 1400}).Draw(t, "chunk"))
		}
		c.Seq0 = uint16(rapid.SampledFrom([]int{0, 1, 65534, 30000}).Draw(t, "seq0"))
		if rapid.IntRange(0, 3).Draw(t, "seqOps") == 0 {
			for i := 0; i < 6; i++ {
				c.SeqOps = append(c.SeqOps, rapid.SampledFrom([]int{0, 0, 0, 1, 2, -1, -2, 1000, 32768}).Draw(t, "seqOp"))
			}
		}
		if rapid.IntRange(0, 2).Draw(t, "hdrMut") == 0 {
			st := &rtpGenState{}
			h := genRtp(t, trackInfo{codec: "raw", pt: 96}, st)
			c.Hdr = &h
			c.HdrAt = rapid.IntRange(0, 8).Draw(t, "hdrAt")
		}
		if rapid.IntRange(0, 5).Draw(t, "flood") == 0 {
			f := &GbFlood{}
			f.Cached = rapid.SampledFrom([]int{1, 2, 100, 1021, 1022, 1023, 1024, 1025, 1100}).Draw(t, "floodCached")
			f.Gap = rapid.SampledFrom([]string{"garbage", "garbage", "garbage", "valid", "cut", "none"}).Draw(t, "floodGap")
			n := rapid.IntRange(0, 4).Draw(t, "floodThen")
			for i := 0; i < n; i++ {
				f.Then = append(f.Then, rapid.SampledFrom([]int{0, 1, 2, 3, 1100, 1101, 1102, 5000, 5002, 5003, 32768, 40000, 65535}).Draw(t, "floodSeq"))
			}
			c.Flood = f
		}
		if mode != "l1" && rapid.IntRange(0, 3).Draw(t, "gbTicks") == 0 {
			c.Ticks = rapid.SampledFrom([][]uint32{{1}, {1, 61}, {1, 61, 121}, {120, 240}, {5}}).Draw(t, "gbTickPattern")
		}
		if tcp && rapid.IntRange(0, 3).Draw(t, "secondConn") == 0 {
			c.SecondConn = rapid.IntRange(1, 9).Draw(t, "secondConnAt")
			c.FirstAlso = rapid.Bool().Draw(t, "firstAlso")
		}
		if tcp {
			if rapid.IntRange(0, 3).Draw(t, "lenLie") == 0 {
				c.LenLieAt = rapid.IntRange(0, 8).Draw(t, "lenLieAt")
				c.LenLie = rapid.SampledFrom([]int{0, 1, 11, 12, 13, 65535, 2000}).Draw(t, "lenLieValue")
			}
			c.Mut = genMut(t)
			c.Slices = genSlices(t)
		}
		return c
	}
}

// ---- run -----------------------------------------------------------------------------

const gbStream = "c13gb"

func startRtpPub(s *inproc.Server, tcp bool, port int) base.ApiCtrlStartRtpPubResp {
	req := base.ApiCtrlStartRtpPubReq{StreamName: gbStream, Port: port, TimeoutMs: 60000}
	if tcp {
		req.IsTcpFlag = 1
	}
	var resp base.ApiCtrlStartRtpPubResp
	for try := 0; try < 8; try++ {
		if s.Call("CtrlStartRtpPub", func() { resp = s.SM.CtrlStartRtpPub(req) }) {
			return resp
		}
		if resp.ErrorCode == base.ErrorCodeSucc {
			return resp
		}
		if port == 0 {
			break
		}
		// the probed port was taken in the meantime (other checks run on this machine): try another one
		req.Port = freePort()
	}
	lalclient.Harness("c13: CtrlStartRtpPub failed (no free port?): %+v", resp)
	return resp
}

// runGbL1 feeds the packets to a PsUnpacker wired to a real group, in the harness' goroutine.
func runGbL1(c GbCase) *pbt.Violation {
	s := inproc.New(inproc.Config{RtmpGopNum: 1, FlvGopNum: 1, TsGopNum: 1})
	defer s.Close()
	startRtpPub(s, false, 0)
	if v := s.PanicViolation(); v != nil {
		return v
	}
	g := s.SM.GetGroup("", gbStream)
	if g == nil {
		lalclient.Harness("c13: no group after CtrlStartRtpPub")
	}
	up := gb28181.NewPsUnpacker().WithOnAvPacket(g.OnAvPacketFromPsPubSession)
	for _, raw := range c.packets() {
		raw := raw
		if s.Call("gb28181", func() { _ = up.FeedRtpPacket(raw) }) {
			return s.PanicViolation()
		}
	}
	return probe(s, nil)
}

func gbFrame(raw []byte, n int) []byte {
	var l [2]byte
	binary.BigEndian.PutUint16(l[:], uint16(n))
	return append(l[:], raw...)
}

func writeSliced(conn net.Conn, b []byte, slices []int) {
	_ = conn.SetWriteDeadline(time.Now().Add(20 * time.Second))
	for _, n := range slices {
		if len(b) == 0 {
			break
		}
		if n > len(b) {
			n = len(b)
		}
		if _, err := conn.Write(b[:n]); err != nil {
			return
		}
		b = b[n:]
	}
	if len(b) > 0 {
		_, _ = conn.Write(b)
	}
}

// runGbSession sends the packets to the TCP port / UDP socket of a pub session started with CtrlStartRtpPub.  lal reads
// and parses in goroutines of its own: a panic there kills the process (Isolate; the driver attributes the death).
func runGbSession(c GbCase) *pbt.Violation {
	s := inproc.New(inproc.Config{RtmpGopNum: 1, FlvGopNum: 1, TsGopNum: 1})
	defer s.Close()
	fd, v := startFeed(s)
	if v != nil {
		return v
	}
	port := 0
	if c.Tcp {
		port = freePort()
	}
	resp := startRtpPub(s, c.Tcp, port)
	if v := s.PanicViolation(); v != nil {
		return v
	}
	pk := c.packets()
	fd.key = len(pk)
	if v := statSnapshot(s, gbStream); v != nil { // a pub session nobody has connected to yet
		return v
	}
	tickAt := len(pk) / 2
	if c.Udp {
		addr := fmt.Sprintf("127.0.0.1:%d", resp.Data.Port)
		counted := func() uint64 {
			if st := s.SM.StatGroup(gbStream); st != nil {
				return st.StatPub.ReadBytesSum
			}
			return 0
		}
		silent := 0
		ndgram, nacked := 0, 0
		for i, raw := range pk {
			if i == tickAt {
				if v := runTicks(s, fd, c.Ticks); v != nil {
					return v
				}
			}
			uc, err := net.Dial("udp", addr)
			if err != nil {
				lalclient.Harness("c13: dial gb28181 udp %s: %v", addr, err)
			}
			before := counted()
			n, _ := uc.Write(raw)
			_ = uc.Close()
			// paced by the session's byte counter (it counts a datagram — as much of it as fits lal's 1500-byte read
			// buffer — before parsing it); a lost datagram or a session that lal has disposed meanwhile costs 100 ms,
			// nothing else
			deadline := time.Now().Add(100 * time.Millisecond)
			acked := n == 0 || silent >= 3 // three datagrams in a row uncounted: lal has disposed the session
			for !acked && time.Now().Before(deadline) {
				if counted() > before {
					acked = true
					break
				}
				time.Sleep(100 * time.Microsecond)
			}
			if n > 0 {
				ndgram++
				if acked && silent < 3 {
					nacked++
				}
			}
			if acked && silent < 3 {
				silent = 0
			} else {
				silent++
				time.Sleep(50 * time.Microsecond)
			}
			if n == 0 {
				time.Sleep(300 * time.Microsecond)
			}
		}
		time.Sleep(2 * time.Millisecond) // the handler of the last datagram
		switch {
		case ndgram == 0:
		case nacked == 0:
			note("gb28181-udp-session/shallow:datagrams-all-into-the-void")
		case nacked < ndgram:
			note("gb28181-udp-session/datagrams:some-counted-by-lal")
		default:
			note("gb28181-udp-session/datagrams:all-counted-by-lal")
		}
		return probe(s, fd)
	}
	dial := func() net.Conn {
		conn, err := net.DialTimeout("tcp", fmt.Sprintf("127.0.0.1:%d", resp.Data.Port), 10*time.Second)
		if err != nil {
			return nil
		}
		return conn
	}
	conn := dial()
	if conn == nil {
		lalclient.Harness("c13: cannot connect to the gb28181 tcp port %d of a session that was just started", resp.Data.Port)
	}
	defer conn.Close()
	first := conn
	second := -1
	if c.SecondConn > 0 && len(pk) > 0 {
		second = (c.SecondConn - 1) % len(pk)
	}
	var wire []byte
	total := 0
	flush := func() {
		if len(wire) > 0 {
			w := wire
			if second < 0 {
				w = c.Mut.apply(w) // byte-level mutation of the framed stream (single-connection cases)
			}
			writeSliced(conn, w, c.Slices)
			total += len(w)
			wire = nil
		}
	}
	for i, raw := range pk {
		if i == tickAt && len(c.Ticks) > 0 {
			flush()
			waitGbDrained(s, total)
			if v := runTicks(s, fd, c.Ticks); v != nil {
				return v
			}
		}
		if i == second {
			flush()
			waitGbDrained(s, total)
			c2 := dial() // lal closes the first connection and reads this one with a second goroutine
			if c2 == nil {
				// refused: the ticks made lal dispose the session, which closes its listener.  Nothing more to send.
				return probe(s, fd)
			}
			conn = c2
			defer conn.Close()
			if c.FirstAlso {
				writeSliced(first, gbFrame(raw, len(raw)), nil)
			}
		}
		n := len(raw)
		if i == c.LenLieAt {
			n = c.LenLie
		}
		wire = append(wire, gbFrame(raw, n)...)
	}
	flush()
	// lal's reader ends at EOF.  It counts the bytes of a packet before it parses it and parses in the reading
	// goroutine; a healthy publisher/subscriber pair is then relayed on the same server: had the parser crashed, the
	// process would be gone.
	if tc, ok := conn.(*net.TCPConn); ok {
		_ = tc.CloseWrite()
	}
	waitGbDrained(s, total)
	return probe(s, fd)
}

// waitGbDrained waits (bounded, never a verdict) until the pub session has counted as many bytes as complete
// frames were sent, or its counter stopped moving.
func waitGbDrained(s *inproc.Server, wireLen int) {
	deadline := time.Now().Add(10 * time.Second)
	var last uint64
	stable := 0
	for time.Now().Before(deadline) {
		st := s.SM.StatGroup(gbStream)
		if st == nil {
			return
		}
		cur := st.StatPub.ReadBytesSum
		if cur == last {
			stable++
			if stable >= 20 {
				return
			}
		} else {
			stable = 0
			last = cur
		}
		time.Sleep(500 * time.Microsecond)
	}
}

func classifyGb(c GbCase) (bool, []string) {
	var labels []string
	hostile := false
	for _, e := range c.Elems {
		labels = append(labels, "ps:"+e.Kind)
		if e.Label != "" {
			labels = append(labels, "ps:"+e.Label)
			hostile = true
		}
		if e.Kind == "raw" || e.Kind == "code" {
			hostile = true
		}
		if e.Label == "pes-header-only-at-packet-end" && e.Pts == 1 && e.Stuff < 5 && len(e.Patches) == 1 && e.Patches[0].Hex == "c0" {
			labels = append(labels, "ps:pes-dts-flag-with-5..9-header-bytes-at-packet-end")
		}
		if (e.Kind == "video" || e.Kind == "audio") && e.Pts == 0 {
			labels = append(labels, "ps:pes-without-pts")
		}
	}
	small := 0
	for _, n := range c.Chunks {
		if n <= 14 {
			small++
		}
	}
	if small > 0 {
		labels = append(labels, "rtp:split-inside-header(<=14B)")
		hostile = true
	}
	if len(c.SeqOps) > 0 {
		labels = append(labels, "rtp:seq-disorder")
	}
	if f := c.Flood; f != nil {
		hostile = true
		switch {
		case f.Cached >= 1023:
			labels = append(labels, "flood:gap+cached>=capacity-1")
		case f.Cached >= 100:
			labels = append(labels, "flood:gap+cached-100..1022")
		default:
			labels = append(labels, "flood:gap+cached-few")
		}
		labels = append(labels, "flood:gap-packet-"+f.Gap)
		if len(f.Then) > 0 {
			labels = append(labels, "flood:packets-after")
		}
	}
	if c.Hdr != nil {
		for _, l := range c.Hdr.labels()[2:] {
			labels = append(labels, l)
		}
		hostile = true
	}
	if c.Udp {
		labels = append(labels, "transport:udp-socket")
	}
	if c.SecondConn > 0 {
		labels = append(labels, "tcp:second-connection")
		if c.FirstAlso {
			labels = append(labels, "tcp:first-connection-writes-after-second")
		}
		hostile = true
	}
	if len(c.Ticks) > 0 {
		labels = append(labels, "ticks:mid-stream")
		for _, tk := range c.Ticks {
			if tk > 60 {
				labels = append(labels, "ticks:session-timeout-check")
				break
			}
		}
	}
	if c.Tcp {
		if c.LenLieAt >= 0 {
			labels = append(labels, "tcp:length-prefix-lies")
			hostile = true
		}
		labels = append(labels, c.Mut.labels()...)
		if c.Mut.active() {
			hostile = true
		}
	}
	return hostile && len(c.Elems) > 0, uniq(labels)
}

func TestGb28181Unpacker(t *testing.T) {
	resetNotes()
	pbt.Run(t, pbt.Spec[GbCase]{
		ID: "C13", Name: "gb28181-ps-rtp", Gen: genGbCase("l1"), Run: runGbL1, Classify: classifyGb, Isolate: true,
		Quick: 200, Thorough: 3000,
	})
}

func TestGb28181Tcp(t *testing.T) {
	resetNotes()
	pbt.Run(t, pbt.Spec[GbCase]{
		ID: "C13", Name: "gb28181-tcp-session", Gen: genGbCase("tcp"), Run: runGbSession, Classify: classifyGb, Isolate: true,
		Quick: 25, Thorough: 300,
	})
}

func TestGb28181Udp(t *testing.T) {
	resetNotes()
	pbt.Run(t, pbt.Spec[GbCase]{
		ID: "C13", Name: "gb28181-udp-session", Gen: genGbCase("udp"), Run: runGbSession, Classify: classifyGb, Isolate: true,
		Quick: 25, Thorough: 250,
	})
}
