package c13

import (
	"fmt"
	"strings"
	"testing"
	"time"

	"github.com/q191201771/lal/pkg/base"
	"github.com/q191201771/lal/pkg/httpflv"
	"github.com/q191201771/lal/pkg/logic"
	"pgregory.net/rapid"

	"verif/drv/pbt"
	"verif/gen"
	"verif/harness/inproc"
	"verif/harness/lalclient"
	"verif/ref/flvref"
	"verif/ref/rtmpref"
	"verif/ref/rtspref"
)

// All three client roles run in goroutines lal starts itself (relay pull, read
// loops): a panic there kills the process.  The sub-properties are Isolate:
// the driver recovers the case from the current-case file and attributes the
// death from the crash dump.

const pullStream = "c13pull"

// waitPullOver: the hostile server has been served (lal closed its side of every connection).
func waitPullOver(s *inproc.Server, hs *hostileServer, n int, marker, what string) *pbt.Violation {
	if v := statSnapshot(s, pullStream, "c13feed"); v != nil { // the client session is somewhere in the hostile script
		return v
	}
	if hs.waitServed(n, 10*time.Second) {
		return statSnapshot(s, pullStream, "c13feed")
	}
	// the upstream server sent EOF 10 s ago and lal still holds the connection.  A read loop that burns CPU in the
	// same function over another 8 s although its input ended is not a slow machine.
	if hs.attempts() >= n {
		if spin, stack := spinningGoroutine(marker, 5, 2*time.Second); spin {
			return pbt.V("client-session-spins/"+what, "lal's %s client read loop is still running (never parked, never returning) 18 s after the upstream server's EOF:\n%s", what, head(stack, 3000))
		}
	}
	if hs.waitServed(n, lalclient.DeliverTimeout) {
		return nil
	}
	if hs.attempts() < n {
		lalclient.Harness("c13: lal did not connect to the hostile %s server within %v (%d of %d connections)", what, lalclient.DeliverTimeout, hs.attempts(), n)
	}
	// lal holds the connection open although the server has sent EOF: parked or slow?
	if stuck, stack := pbt.StuckGoroutine(marker, 2*time.Second); stuck {
		return pbt.V("client-session-never-returns/"+what, "lal's %s client session still holds the connection %v after the upstream server's EOF:\n%s", what, lalclient.DeliverTimeout, head(stack, 3000))
	}
	if !hs.waitServed(n, 3*lalclient.DeliverTimeout) {
		lalclient.Harness("c13: lal's %s client did not close the connection and is not parked (machine too slow?)", what)
	}
	return nil
}

func startPull(s *inproc.Server, url string, rtspMode int) *pbt.Violation {
	memBackpressure()
	var resp base.ApiCtrlStartRelayPullResp
	if s.Call("CtrlStartRelayPull", func() {
		resp = s.SM.CtrlStartRelayPull(base.ApiCtrlStartRelayPullReq{Url: url, StreamName: pullStream, PullTimeoutMs: 600, PullRetryNum: 0, AutoStopPullAfterNoOutMs: -1, RtspMode: rtspMode})
	}) {
		return s.PanicViolation()
	}
	if resp.ErrorCode != base.ErrorCodeSucc {
		lalclient.Harness("c13: CtrlStartRelayPull(%s) refused: %+v", url, resp)
	}
	// statistics while the pull session is connecting / half-way through its handshake
	return statSnapshot(s, pullStream)
}

// ===== lal as RTMP client ==============================================================

// RMsg is one RTMP message sent by the hostile origin.
type RMsg struct {
	Type uint8 `json:"type"`
	Body Blob  `json:"body"`
	// Cmd != "": the body is Cmd, Tid followed by Body
	Cmd  string  `json:"cmd,omitempty"`
	Tid  float64 `json:"tid,omitempty"`
	Csid int     `json:"csid"`
	Msid uint32  `json:"msid,omitempty"`
	Ts   uint32  `json:"ts,omitempty"`
	Fmt  uint8   `json:"fmt,omitempty"`
	// DeclLen > 0: the message length field of the chunk header lies
	DeclLen   int    `json:"decl_len,omitempty"`
	ChunkSize int    `json:"chunk_size,omitempty"` // the writer silently switches to this chunk size
	Label     string `json:"label,omitempty"`
}

type RtmpSrvCase struct {
	// Push: lal is relay-push client (a healthy publisher publishes, lal pushes to the stub) instead of relay-pull client
	Push      bool   `json:"push,omitempty"`
	Handshake string `json:"handshake"` // ok | badversion | short | garbage | s2-missing | none
	Stage     string `json:"stage"`     // none | connected | created | playing (push: publish accepted)
	Msgs      []RMsg `json:"msgs"`
	Mut       Mut    `json:"mut"`
	Slices    []int  `json:"slices,omitempty"`
}

func (m RMsg) payload() []byte {
	if m.Cmd != "" {
		return append(rtmpref.EncodeAmf0(rtmpref.Str(m.Cmd), rtmpref.Num(m.Tid)), m.Body.Bytes()...)
	}
	return m.Body.Bytes()
}

func rtmpHandshakeS(kind string) []byte {
	s := make([]byte, 1+1536+1536)
	s[0] = 3
	for i := 9; i < 1537; i++ {
		s[i] = byte(i * 7)
	}
	switch kind {
	case "none":
		return nil
	case "badversion":
		s[0] = 9
	case "short":
		return s[:800]
	case "garbage":
		return []byte("HTTP/1.1 400 Bad Request\r\nContent-Length: 0\r\n\r\n")
	case "s2-missing":
		return s[:1537]
	}
	return s
}

func amfHex(vs ...rtmpref.Value) string { return fmt.Sprintf("%x", rtmpref.EncodeAmf0(vs...)) }

func statusObj(code string) rtmpref.Value {
	return rtmpref.Obj(rtmpref.M("level", rtmpref.Str("status")), rtmpref.M("code", rtmpref.Str(code)), rtmpref.M("description", rtmpref.Str("x")))
}

func (c *RtmpSrvCase) prefix(w *rtmpref.ChunkWriter) []byte {
	var out []byte
	emit := func(m rtmpref.Msg) { out = append(out, w.WriteMsg(m, 0)...) }
	cmd := func(name string, tid float64, csid int, msid uint32, vals ...rtmpref.Value) {
		vs := append([]rtmpref.Value{rtmpref.Str(name), rtmpref.Num(tid)}, vals...)
		emit(rtmpref.Msg{Csid: csid, TypeID: rtmpref.TypeCmdAmf0, StreamID: msid, Payload: rtmpref.EncodeAmf0(vs...)})
	}
	if c.Stage == "none" {
		return nil
	}
	emit(rtmpref.Msg{Csid: 2, TypeID: 5, Payload: be32(2500000)})
	emit(rtmpref.Msg{Csid: 2, TypeID: 6, Payload: append(be32(2500000), 2)})
	cmd("_result", 1, 3, 0, rtmpref.Obj(rtmpref.M("fmsVer", rtmpref.Str("FMS/3,0,1,123")), rtmpref.M("capabilities", rtmpref.Num(31))), statusObj("NetConnection.Connect.Success"))
	if c.Stage == "connected" {
		return out
	}
	cmd("_result", 2, 3, 0, rtmpref.Null(), rtmpref.Num(1))
	if c.Stage == "created" {
		return out
	}
	if c.Push {
		cmd("onStatus", 0, 5, 1, rtmpref.Null(), statusObj("NetStream.Publish.Start"))
		return out
	}
	cmd("onStatus", 0, 5, 1, rtmpref.Null(), statusObj("NetStream.Play.Start"))
	// a decodable start of stream
	cd := gen.Codecs{Video: "avc", Audio: "aac", AscObj: 2, AscFreq: 4, AscChan: 2}
	for _, it := range []gen.Item{{Kind: "meta", Sdf: false}, {Kind: "vsh"}, {Kind: "ash"}} {
		csid := 6
		if it.TypeID() == gen.TypeAudio {
			csid = 4
		}
		emit(rtmpref.Msg{Csid: csid, TypeID: it.TypeID(), StreamID: 1, Payload: it.Payload(cd)})
	}
	return out
}

// wire returns the handshake part and the chunk stream.  They are sent as two segments: lal's client reads S2 with
// io.ReadAtLeast into a buffer one octet larger than S2, so a server that sends its first chunk in the same segment
// as S2 loses alignment.  A real server cannot send anything meaningful before it has read the connect command
// anyway; the stub does the same (it waits until C0+C1+C2 and the start of the next message have arrived).
func (c *RtmpSrvCase) wire() (handshake, chunks []byte) {
	handshake = rtmpHandshakeS(c.Handshake)
	w := rtmpref.NewChunkWriter(128)
	var out []byte
	out = append(out, c.prefix(w)...)
	var tail []byte
	for _, m := range c.Msgs {
		if m.ChunkSize > 0 {
			w.ChunkSize = m.ChunkSize
		}
		p := m.payload()
		b := w.WriteMsg(rtmpref.Msg{Csid: m.Csid, TypeID: m.Type, StreamID: m.Msid, Ts: m.Ts, Payload: p}, m.Fmt)
		if m.DeclLen > 0 && m.Fmt <= 1 && m.Csid < 64 && len(b) >= 7 {
			b[4], b[5], b[6] = byte(m.DeclLen>>16), byte(m.DeclLen>>8), byte(m.DeclLen)
		}
		tail = append(tail, b...)
	}
	return handshake, append(out, c.Mut.apply(tail)...)
}

func genRMsg(t *rapid.T) RMsg {
	m := RMsg{Csid: rapid.SampledFrom([]int{2, 3, 4, 5, 6, 8, 63}).Draw(t, "csid"), Msid: rapid.SampledFrom([]uint32{0, 1, 1, 7}).Draw(t, "msid")}
	m.Ts = rapid.SampledFrom([]uint32{0, 40, 0xFFFFFF, 0xFFFFFFFF}).Draw(t, "ts")
	switch rapid.IntRange(0, 11).Draw(t, "rmsgKind") {
	case 0, 1:
		// every type id with short bodies (protocol control, ack, user control ...)
		m.Type = rapid.OneOf(rapid.SampledFrom([]uint8{1, 2, 3, 4, 5, 6}), rapid.Uint8()).Draw(t, "typeId")
		m.Body.Hex = rapid.SampledFrom([]string{"", "00", "0000", "000000", "00000000", "0000000000", "000000000001", "0006", "000600", "00060000", "0006000000", "000600000001", "0007000000", "00001000", "7fffffff", "ffffffff", "00000001", "002625a002"}).Draw(t, "ctrlBody")
		m.Label = lbl("type-%d-short-body", bucketRtmpType(m.Type))
	case 2:
		m.Type = rapid.SampledFrom([]uint8{0, 7, 10, 11, 12, 13, 14, 15, 16, 17, 19, 21, 22, 23, 100, 255}).Draw(t, "unknownType")
		m.Body.Seed, m.Body.Len = 1, rapid.SampledFrom([]int{0, 1, 12, 200}).Draw(t, "unknownLen")
		m.Label = "unknown-type-id"
	case 3, 4, 5:
		m.Type = 20
		m.Cmd = rapid.SampledFrom([]string{"_result", "_result", "onStatus", "_error", "onBWDone", "close", "", "onFCPublish"}).Draw(t, "cmd")
		m.Tid = rapid.SampledFrom([]float64{0, 1, 2, 3, -1, 1e300, 2.5}).Draw(t, "tid")
		m.Body.Hex = rapid.SampledFrom([]string{
			"", "05", "0500", "05" + amfHex(rtmpref.Num(1)), "05" + amfHex(rtmpref.Str("x")), "0502", "05020005",
			amfHex(rtmpref.Obj(), statusObj("NetConnection.Connect.Success")), amfHex(rtmpref.Obj()), amfHex(rtmpref.Obj(), rtmpref.Obj()), amfHex(rtmpref.Obj(), rtmpref.Obj(rtmpref.M("code", rtmpref.Num(5)))),
			amfHex(rtmpref.Null(), statusObj("NetStream.Play.Start")), amfHex(rtmpref.Null(), statusObj("NetStream.Play.Failed")), amfHex(rtmpref.Null(), rtmpref.Obj(rtmpref.M("code", rtmpref.Null()))),
			amfHex(rtmpref.Null(), rtmpref.Obj(rtmpref.M("description", rtmpref.Str("code=403 need auth")))), amfHex(rtmpref.Null(), rtmpref.Obj(rtmpref.M("description", rtmpref.Str("a:b:?reason=needauth&user=&salt=x&challenge=y&opaque=z")))),
			"03", "0300", "030001", "03000161", "0300016102", "03000161020005", "0300046c6576", "08", "0800000001", "0affffffff", "0c7fffffff", "03000009", "0300000903", "0300000903000009",
			amfHex(rtmpref.EcmaArray(rtmpref.M("code", rtmpref.Str("NetConnection.Connect.Success"))), rtmpref.EcmaArray(rtmpref.M("code", rtmpref.Str("NetConnection.Connect.Success")))),
			amfHex(rtmpref.Null(), rtmpref.Str("not a number")), amfHex(rtmpref.Null(), rtmpref.Num(1e300)), amfHex(rtmpref.Null(), rtmpref.Num(-1)), amfHex(rtmpref.Undefined(), rtmpref.Num(1)),
		}).Draw(t, "cmdArgs")
		m.Label = "cmd:" + m.Cmd
	case 6:
		// a command whose first values are not what the client expects
		m.Type = rapid.SampledFrom([]uint8{20, 17}).Draw(t, "cmdType")
		m.Body.Hex = rapid.SampledFrom([]string{"", "02", "0200", "0200075f726573756c74", "0200075f726573756c7400", "0200075f726573756c74003ff0", "05", "00" + "3ff0000000000000", "0200ff", "0c00000001", "000200075f726573756c74"}).Draw(t, "rawCmd")
		m.Label = "cmd-malformed-head"
	case 7, 8:
		m.Type = rapid.SampledFrom([]uint8{8, 9}).Draw(t, "avType")
		m.Body.Hex = rapid.SampledFrom([]string{"", "17", "1700", "170000", "17000000", "1700000000", "170100000000000001", "1c00", "af", "af00", "af01", "af0012", "27010000000000000565aabbccddee", "af01210004608c1c"}).Draw(t, "avBody")
		m.Label = "media-short-or-valid"
	case 9:
		m.Type = 18
		m.Body.Hex = rapid.SampledFrom([]string{"", "02", "0200", "02000a6f6e4d65746144617461", "0200117c52746d7053616d706c65416363657373", "05", "0c00000001", "02000a6f6e4d6574614461746108"}).Draw(t, "dataBody")
		m.Label = "data-message"
	case 10:
		m.Type = 1
		m.Csid = 2
		m.Body.Hex = rapid.SampledFrom([]string{"00000000", "00000001", "00000080", "00ffffff", "7fffffff", "ffffffff", "0000"}).Draw(t, "scs")
		m.Label = "set-chunk-size"
	default:
		m.Type = rapid.SampledFrom([]uint8{8, 9, 18, 20}).Draw(t, "bigType")
		m.Body.Seed, m.Body.Len = 7, rapid.IntRange(0, 300).Draw(t, "bigBody")
		// (a session that failed before "play" succeeded is kept by lal until the pull timeout: keep the big ones rare)
		// and bounded to 1 MiB, so that a few hundred of them fit below the memory limit of the test binary)
		m.DeclLen = rapid.SampledFrom([]int{100000, 70000, 4097, 129, 0x100000}).Draw(t, "bigDecl")
		m.Label = "lying-message-length"
	}
	switch rapid.IntRange(0, 9).Draw(t, "framing") {
	case 0:
		m.Fmt = uint8(rapid.IntRange(1, 3).Draw(t, "fmt"))
	case 1:
		m.ChunkSize = rapid.SampledFrom([]int{1, 2, 4096, 70000}).Draw(t, "chunkSize")
	}
	return m
}

func bucketRtmpType(t uint8) int {
	switch t {
	case 1, 2, 3, 4, 5, 6:
		return int(t)
	}
	return 255
}

func genRtmpSrvCase(t *rapid.T) RtmpSrvCase {
	var c RtmpSrvCase
	c.Handshake = rapid.SampledFrom([]string{"ok", "ok", "ok", "ok", "ok", "ok", "badversion", "short", "garbage", "s2-missing", "none"}).Draw(t, "handshake")
	c.Stage = rapid.SampledFrom([]string{"none", "connected", "created", "playing", "playing"}).Draw(t, "stage")
	n := rapid.IntRange(1, 6).Draw(t, "nmsgs")
	for i := 0; i < n; i++ {
		c.Msgs = append(c.Msgs, genRMsg(t))
	}
	c.Mut = genMut(t)
	c.Slices = genSlices(t)
	return c
}

func runRtmpPull(c RtmpSrvCase) *pbt.Violation {
	s := newServer()
	defer s.Close()
	fd, v := startFeed(s)
	if v != nil {
		return v
	}
	hsk, chunks := c.wire()
	fd.key = len(chunks)
	hs := newHostileServerSeg(func(int) []segment {
		gate := 1537 + 1536 + 12
		if c.Handshake != "ok" {
			gate = 0 // lal never gets as far as sending C2
		}
		return []segment{{data: hsk, waitRecv: 1537}, {data: chunks, slices: c.Slices, waitRecv: gate}}
	})
	defer hs.close()
	if v := startPull(s, "rtmp://"+hs.Addr+"/live/"+pullStream, 0); v != nil {
		return v
	}
	if v := waitPullOver(s, hs, 1, "rtmp.(*ClientSession)", "rtmp"); v != nil {
		return v
	}
	return probe(s, fd)
}

// runRtmpPush: a healthy publisher publishes a stream of a server configured to relay-push to the hostile stub.
func runRtmpPush(c RtmpSrvCase) *pbt.Violation {
	memBackpressure()
	hsk, chunks := c.wire()
	hs := newHostileServerSeg(func(int) []segment {
		gate := 1537 + 1536 + 12
		if c.Handshake != "ok" {
			gate = 0
		}
		return []segment{{data: hsk, waitRecv: 1537}, {data: chunks, slices: c.Slices, waitRecv: gate}}
	})
	defer hs.close()
	s := inproc.New(inproc.Config{RtmpGopNum: 1, FlvGopNum: 1, TsGopNum: 1, PushAddrs: []string{hs.Addr}})
	defer s.Close()
	fd, v := startFeed(s) // publishing starts the push
	if v != nil {
		return v
	}
	if v := waitPullOver(s, hs, 1, "rtmp.(*ClientSession)", "rtmp-push"); v != nil {
		return v
	}
	fd.frames(1)
	// the pushing stream's own publisher and subscriber are the bystanders here: a hostile push target must not cost
	// the stream its input
	return probe(s, fd)
}

func genRtmpPushCase(t *rapid.T) RtmpSrvCase {
	c := genRtmpSrvCase(t)
	c.Push = true
	return c
}

func classifyRtmpSrv(c RtmpSrvCase) (bool, []string) {
	labels := []string{"handshake:" + c.Handshake, "stage:" + c.Stage}
	for i, m := range c.Msgs {
		labels = append(labels, m.Label)
		if i == 0 {
			labels = append(labels, "first/"+m.Label)
		}
		if m.Fmt != 0 {
			labels = append(labels, lbl("fmt%d", m.Fmt))
		}
	}
	labels = append(labels, c.Mut.labels()...)
	return c.Handshake == "ok" && len(c.Msgs) > 0, uniq(labels)
}

func TestRtmpPullClient(t *testing.T) {
	resetNotes()
	pbt.Run(t, pbt.Spec[RtmpSrvCase]{
		ID: "C13", Name: "client-rtmp-pull", Gen: genRtmpSrvCase, Run: runRtmpPull, Classify: classifyRtmpSrv, Isolate: true,
		Quick: 80, Thorough: 1200,
	})
}

func TestRtmpPushClient(t *testing.T) {
	resetNotes()
	prev := logic.RelayPushTimeoutMs
	logic.RelayPushTimeoutMs = 600 // as for the pulls: a failed attempt is kept until this timeout
	defer func() { logic.RelayPushTimeoutMs = prev }()
	pbt.Run(t, pbt.Spec[RtmpSrvCase]{
		ID: "C13", Name: "client-rtmp-push", Gen: genRtmpPushCase, Run: runRtmpPush, Classify: classifyRtmpSrv, Isolate: true,
		Quick: 50, Thorough: 700,
	})
}

// ===== lal as RTSP client ==============================================================

type RResp struct {
	Ver    string      `json:"ver,omitempty"` // "" = RTSP/1.0
	Status string      `json:"status"`
	Reason string      `json:"reason,omitempty"`
	Hdrs   [][2]string `json:"hdrs,omitempty"`
	Sdp    *Sdp        `json:"sdp,omitempty"`
	Body   *Blob       `json:"body,omitempty"`
	CL     string      `json:"cl,omitempty"` // as in Req
	Label  string      `json:"label,omitempty"`
}

func (r RResp) Bytes(cseq int) []byte {
	var b strings.Builder
	v := r.Ver
	if v == "" {
		v = "RTSP/1.0"
	}
	fmt.Fprintf(&b, "%s %s %s\r\n", v, r.Status, r.Reason)
	fmt.Fprintf(&b, "CSeq: %d\r\n", cseq)
	for _, h := range r.Hdrs {
		fmt.Fprintf(&b, "%s: %s\r\n", h[0], h[1])
	}
	var body []byte
	if r.Sdp != nil {
		body = r.Sdp.Bytes()
	} else if r.Body != nil {
		body = r.Body.Bytes()
	}
	switch r.CL {
	case "":
		if len(body) > 0 {
			fmt.Fprintf(&b, "Content-Length: %d\r\n", len(body))
		}
	case "none":
	default:
		fmt.Fprintf(&b, "Content-Length: %s\r\n", r.CL)
	}
	b.WriteString("\r\n")
	return append([]byte(b.String()), body...)
}

type RtspSrvStep struct {
	Resp  *RResp `json:"resp,omitempty"`
	Frame *Frame `json:"frame,omitempty"`
	Raw   *Blob  `json:"raw,omitempty"`
}

type RtspSrvCase struct {
	// Stage reached by the valid responses: none | options | described | setup | playing
	Stage        string `json:"stage"`
	Video        string `json:"video"`
	Audio        string `json:"audio"`
	Udp          bool   `json:"udp,omitempty"`           // lal asks for UDP transport (rtsp_mode 1)
	GetParameter bool   `json:"get_parameter,omitempty"` // OPTIONS advertises GET_PARAMETER (lal then keeps the session alive with it)
	// PrefixSdp: the valid DESCRIBE response carries this hostile-but-accepted description (genAcceptedSdp) instead of
	// the reference one; the interleaved RTP that follows matches it
	PrefixSdp *Sdp          `json:"prefix_sdp,omitempty"`
	Steps     []RtspSrvStep `json:"steps"`
	Mut       Mut           `json:"mut"`
	Slices    []int         `json:"slices,omitempty"`
}

// lal's client sets up the video track first, then the audio track, whatever their order in the description, and
// numbers the interleaved channels in that order.
func (c *RtspSrvCase) tracks() []trackInfo {
	var out []trackInfo
	if c.PrefixSdp != nil {
		for _, media := range []string{"video", "audio"} {
			for _, tr := range c.PrefixSdp.Tracks {
				if tr.Media == media && tr.Control != "" {
					out = append(out, trackInfo{codec: sdpCodec(tr), pt: tr.PT & 0x7f, ch: 2 * len(out)})
					break
				}
			}
		}
		return out
	}
	for i, t := range validTracks(c.Video, c.Audio) {
		codec := c.Audio
		if t.Media == "video" {
			codec = c.Video
		}
		out = append(out, trackInfo{codec: codec, pt: t.PT, ch: 2 * i})
	}
	return out
}

func (c *RtspSrvCase) wire() []byte {
	cseq := 0
	var out []byte
	ok := func(hdrs [][2]string, body []byte) {
		cseq++
		r := RResp{Status: "200", Reason: "OK", Hdrs: hdrs}
		if body != nil {
			r.Body = &Blob{Hex: fmt.Sprintf("%x", body)}
		}
		out = append(out, r.Bytes(cseq)...)
	}
	public := "OPTIONS, DESCRIBE, SETUP, TEARDOWN, PLAY"
	if c.GetParameter {
		public += ", GET_PARAMETER"
	}
	tr := validTracks(c.Video, c.Audio)
	switch c.Stage {
	case "none":
	case "options":
		ok([][2]string{{"Public", public}}, nil)
	case "described", "setup", "playing":
		ok([][2]string{{"Public", public}}, nil)
		body := rtspref.BuildSdp(tr)
		nsetup := len(tr)
		if c.PrefixSdp != nil {
			body = c.PrefixSdp.Bytes()
			nsetup = len(c.tracks())
		}
		ok([][2]string{{"Content-Type", "application/sdp"}, {"Content-Base", "rtsp://127.0.0.1/live/" + pullStream + "/"}}, body)
		if c.Stage == "described" {
			break
		}
		for i := 0; i < nsetup; i++ {
			t := fmt.Sprintf("RTP/AVP/TCP;unicast;interleaved=%d-%d", 2*i, 2*i+1)
			if c.Udp {
				t = fmt.Sprintf("RTP/AVP/UDP;unicast;client_port=40000-40001;server_port=%d-%d", 42000+2*i, 42001+2*i)
			}
			ok([][2]string{{"Transport", t}, {"Session", "c13session;timeout=60"}}, nil)
		}
		if c.Stage == "playing" {
			ok([][2]string{{"Session", "c13session"}, {"RTP-Info", "url=x;seq=1;rtptime=0"}}, nil)
		}
	default:
		panic(pbt.HarnessError{Msg: "c13: unknown rtsp server stage " + c.Stage})
	}
	var tail []byte
	for _, st := range c.Steps {
		switch {
		case st.Resp != nil:
			cseq++
			tail = append(tail, st.Resp.Bytes(cseq)...)
		case st.Frame != nil:
			tail = append(tail, st.Frame.Bytes()...)
		case st.Raw != nil:
			tail = append(tail, st.Raw.Bytes()...)
		}
	}
	return append(out, c.Mut.apply(tail)...)
}

func genRResp(t *rapid.T) *RResp {
	r := &RResp{Status: "200", Reason: "OK", Label: "ok"}
	switch rapid.IntRange(0, 13).Draw(t, "respKind") {
	case 0, 1, 2:
		r.Sdp = genSdp(t)
		r.Hdrs = [][2]string{{"Content-Type", "application/sdp"}}
		r.Label = "sdp"
	case 3, 4:
		r.Hdrs = [][2]string{{"Transport", rapid.SampledFrom([]string{
			"RTP/AVP/TCP;unicast;interleaved=0-1", "RTP/AVP/TCP;unicast;interleaved=2-3", "RTP/AVP/UDP;unicast;client_port=40000-40001;server_port=42000-42001", "RTP/AVP/UDP;unicast;server_port=0-0",
			"RTP/AVP/UDP;unicast;server_port=70000-70001", "RTP/AVP/UDP;unicast;server_port=a-b", "RTP/AVP/UDP;unicast;server_port=1", "RTP/AVP/UDP;unicast;server_port=", "RTP/AVP/UDP;unicast", "", ";;;", "server_port=-1--2",
			"RTP/AVP/UDP;unicast;server_port=42000-42001;source=256.1.1.1", "interleaved=99999999999999999999-1",
		}).Draw(t, "transport")}, {"Session", rapid.SampledFrom([]string{"abc", "abc;timeout=60", "", ";", ";timeout", strings.Repeat("s", 3000)}).Draw(t, "session")}}
		r.Label = "setup-transport"
	case 5, 6:
		r.Status, r.Reason = "401", "Unauthorized"
		r.Hdrs = [][2]string{{"WWW-Authenticate", rapid.SampledFrom([]string{
			`Digest realm="r", nonce="n"`, `Basic realm="r"`, "Digest", "Basic", "", "Digest realm", "Digest realm=", `Digest realm="r`, `Digest realm="r", nonce=`, `Digest ,,,`, `Digest nonce="n"`, `Digest realm="r", nonce="n", algorithm="SHA-256"`,
			"Negotiate", `Digest realm="r", nonce="n", stale=FALSE`, strings.Repeat("D", 3000), `digest REALM="r", NONCE="n"`, `Digest realm="r" nonce="n"`, `Digest =`, `Digest realm=""""`,
		}).Draw(t, "wwwAuth")}}
		if rapid.Bool().Draw(t, "twoChallenges") {
			r.Hdrs = append(r.Hdrs, [2]string{"WWW-Authenticate", `Basic realm="x"`})
		}
		r.Label = "401-www-authenticate"
	case 7:
		r.Status = rapid.SampledFrom([]string{"461", "404", "500", "302", "100", "", "abc", "99999999999999999999", "-1", "200.5"}).Draw(t, "status")
		r.Label = "status-" + r.Status
	case 8:
		r.Ver = rapid.SampledFrom([]string{"RTSP/2.0", "HTTP/1.1", "", "OPTIONS", "RTSP/1.0 200"}).Draw(t, "ver")
		r.Label = "bad-status-line"
	case 9:
		r.CL = rapid.SampledFrom([]string{"-1", "0", "5", "999", "2147483648", "1099511627776", "9223372036854775807", "-9223372036854775808", "a", "1e3"}).Draw(t, "cl")
		if rapid.Bool().Draw(t, "clBody") {
			r.Body = &Blob{Hex: "763d300d0a"}
		}
		r.Label = "content-length-lies"
	case 10:
		r.Hdrs = [][2]string{{"Public", rapid.SampledFrom([]string{"", "GET_PARAMETER", "OPTIONS, GET_PARAMETER", strings.Repeat("X, ", 1000)}).Draw(t, "public")}}
		r.Label = "public"
	case 11:
		r.Hdrs = [][2]string{{rapid.SampledFrom([]string{"", " ", "X"}).Draw(t, "hdrName"), rapid.SampledFrom([]string{"", ":", strings.Repeat("v", 5000)}).Draw(t, "hdrValue")}}
		r.Label = "odd-header"
	}
	return r
}

func genRtspSrvCase(t *rapid.T) RtspSrvCase {
	var c RtspSrvCase
	c.Stage = rapid.SampledFrom([]string{"none", "options", "described", "setup", "playing", "playing", "playing"}).Draw(t, "stage")
	c.Video = rapid.SampledFrom([]string{"avc", "avc", "hevc", "hevc", ""}).Draw(t, "video")
	c.Audio = rapid.SampledFrom([]string{"aac", "aac", "pcma", "opus", ""}).Draw(t, "audio")
	if c.Video == "" && c.Audio == "" {
		c.Audio = "aac"
	}
	c.Udp = rapid.IntRange(0, 5).Draw(t, "udp") == 0
	c.GetParameter = rapid.IntRange(0, 3).Draw(t, "getParameter") == 0
	if c.Udp && c.GetParameter {
		// with UDP transport and GET_PARAMETER keep-alive lal reads the command connection only when a keep-alive is
		// due (every 10 s, one message each time): it consumes a scripted tail at that pace and notices the server's
		// EOF only then.  By design, and indistinguishable from a stuck session within any reasonable wait: not generated.
		c.GetParameter = false
	}
	if c.Stage != "none" && c.Stage != "options" && rapid.IntRange(0, 1).Draw(t, "prefixSdp") == 0 {
		c.PrefixSdp = genAcceptedSdp(t)
	}
	rc := &RtspCase{Stage: "recording", Video: c.Video, Audio: c.Audio, trackOverride: c.tracks()}
	st := &rtpGenState{seq: uint16(rapid.SampledFrom([]int{0, 65530}).Draw(t, "seq0")), ts: 1000, ssrc: rapid.SampledFrom([]uint32{0, 0x1234}).Draw(t, "ssrc")}
	n := rapid.IntRange(1, 10).Draw(t, "nsteps")
	frameBias := 2
	if c.Stage == "playing" {
		frameBias = 7
	}
	for i := 0; i < n; i++ {
		k := rapid.IntRange(0, 9).Draw(t, "stepKind")
		switch {
		case k < frameBias:
			c.Steps = append(c.Steps, RtspSrvStep{Frame: genFrame(t, rc, st)})
		case k == 9:
			c.Steps = append(c.Steps, RtspSrvStep{Raw: &Blob{Hex: rapid.SampledFrom([]string{"24", "2400", "240000", "0d0a", "0d0a0d0a", "00", "52545350"}).Draw(t, "rawStep")}})
		default:
			c.Steps = append(c.Steps, RtspSrvStep{Resp: genRResp(t)})
		}
	}
	if trs := c.tracks(); c.Stage == "playing" && len(trs) > 0 && rapid.IntRange(0, 3).Draw(t, "srSandwich") == 0 {
		// the receiver-report producer also runs in lal's pull session (same BaseInSession)
		var sw []RtspSrvStep
		for _, s := range genSrSandwich(t, rapid.SampledFrom(trs).Draw(t, "swTrack"), st) {
			sw = append(sw, RtspSrvStep{Frame: s.Frame})
		}
		c.Steps = append(sw, c.Steps...)
	}
	c.Mut = genMut(t)
	c.Slices = genSlices(t)
	return c
}

func runRtspPull(c RtspSrvCase) *pbt.Violation {
	s := newServer()
	defer s.Close()
	fd, v := startFeed(s)
	if v != nil {
		return v
	}
	wire := c.wire()
	fd.key = len(wire)
	hs := newHostileServer(func(int) ([]byte, []int) { return wire, c.Slices })
	defer hs.close()
	mode := 0
	if c.Udp {
		mode = 1
	}
	if v := startPull(s, "rtsp://"+hs.Addr+"/live/"+pullStream, mode); v != nil {
		return v
	}
	if v := waitPullOver(s, hs, 1, "rtsp.(*ClientCommandSession)", "rtsp"); v != nil {
		return v
	}
	if c.Stage == "playing" || c.Stage == "setup" {
		// did lal accept the (possibly hostile) description and go on?  Otherwise the case was shallow: counted
		want := "PLAY "
		if c.Stage == "setup" {
			want = "SETUP "
		}
		if strings.Contains(hs.received(), want) {
			note("client-rtsp-pull/prefix-accepted")
		} else if c.PrefixSdp != nil {
			note("client-rtsp-pull/shallow:hostile-prefix-sdp-refused")
		} else {
			note("client-rtsp-pull/shallow:valid-prefix-refused")
		}
	}
	return probe(s, fd)
}

func classifyRtspSrv(c RtspSrvCase) (bool, []string) {
	labels := []string{"stage:" + c.Stage}
	if c.Udp {
		labels = append(labels, "transport:udp")
	}
	if c.GetParameter {
		labels = append(labels, "get-parameter-keepalive")
	}
	if c.PrefixSdp != nil {
		labels = append(labels, "prefix-sdp:hostile-but-accepted")
		labels = append(labels, c.PrefixSdp.accLabels()...)
		if c.Stage == "playing" {
			for _, st := range c.Steps {
				if st.Frame != nil && st.Frame.Rtp != nil {
					labels = append(labels, "prefix-sdp:followed-by-matching-rtp")
					break
				}
			}
		}
	}
	for i, st := range c.Steps {
		var l []string
		switch {
		case st.Resp != nil:
			l = append(l, "resp:"+st.Resp.Label)
			if st.Resp.Sdp != nil {
				for _, tr := range st.Resp.Sdp.Tracks {
					if tr.Clock < 1000 {
						l = append(l, "sdp:clock<1000")
					}
					if tr.FmtpKind != "" {
						l = append(l, "sdp:fmtp-"+tr.FmtpKind)
					}
				}
			}
		case st.Frame != nil:
			if st.Frame.Rtp != nil {
				l = append(l, st.Frame.Rtp.labels()...)
			} else if st.Frame.Rtcp != nil {
				l = append(l, st.Frame.Rtcp.labels()...)
			} else {
				l = append(l, "frame:raw")
			}
			if st.Frame.DeclLen >= 0 {
				l = append(l, "frame:lying-length")
			}
		default:
			l = append(l, "raw-bytes")
		}
		if i == 0 && len(l) > 0 {
			labels = append(labels, "first/"+l[0])
		}
		labels = append(labels, l...)
	}
	var asSteps []Step
	for _, st := range c.Steps {
		asSteps = append(asSteps, Step{Frame: st.Frame})
	}
	labels = append(labels, sandwichLabels(asSteps)...)
	labels = append(labels, c.Mut.labels()...)
	return len(c.Steps) > 0, uniq(labels)
}

func TestRtspPullClient(t *testing.T) {
	resetNotes()
	pbt.Run(t, pbt.Spec[RtspSrvCase]{
		ID: "C13", Name: "client-rtsp-pull", Gen: genRtspSrvCase, Run: runRtspPull, Classify: classifyRtspSrv, Isolate: true,
		Quick: 80, Thorough: 1000,
	})
}

// ===== lal as HTTP-FLV client ===========================================================

type FlvTagSpec struct {
	Type     uint8  `json:"type"`
	Ts       uint32 `json:"ts"`
	Body     Blob   `json:"body"`
	DeclSize int    `json:"decl_size"` // -1: true size; else the 24-bit DataSize lies
	PrevSize int    `json:"prev_size"` // -1: true; else the PreviousTagSize lies
}

type FlvSrvCase struct {
	StatusLine string       `json:"status_line"`
	Hdrs       [][2]string  `json:"hdrs,omitempty"`
	Redirect   string       `json:"redirect,omitempty"` // "" | self | garbage | relative | https
	Chunked    bool         `json:"chunked,omitempty"`  // the body is sent with chunked transfer coding (lal does not decode it)
	FlvHeader  string       `json:"flv_header"`         // hex
	Tags       []FlvTagSpec `json:"tags"`
	Mut        Mut          `json:"mut"`
	Slices     []int        `json:"slices,omitempty"`
}

func (c *FlvSrvCase) body() []byte {
	out := unhex(c.FlvHeader)
	for _, tg := range c.Tags {
		data := tg.Body.Bytes()
		b := flvref.AppendTag(nil, tg.Type, tg.Ts, data)
		if tg.DeclSize >= 0 {
			b[1], b[2], b[3] = byte(tg.DeclSize>>16), byte(tg.DeclSize>>8), byte(tg.DeclSize)
		}
		if tg.PrevSize >= 0 {
			copy(b[len(b)-4:], be32(uint32(tg.PrevSize)))
		}
		out = append(out, b...)
	}
	return c.Mut.apply(out)
}

func (c *FlvSrvCase) wire(addr string, conn int) []byte {
	var b strings.Builder
	status := c.StatusLine
	hdrs := c.Hdrs
	if c.Redirect != "" && conn < 2 {
		status = "HTTP/1.1 302 Found"
		loc := ""
		switch c.Redirect {
		case "self":
			loc = "http://" + addr + "/live/again.flv"
		case "garbage":
			loc = "::::"
		case "relative":
			loc = "/live/other.flv"
		case "https":
			loc = "https://" + addr + "/live/x.flv"
		case "noflv":
			loc = "http://" + addr + "/live/x"
		}
		hdrs = append([][2]string{{"Location", loc}}, hdrs...)
		if c.Redirect == "empty" {
			hdrs = hdrs[1:]
		}
	}
	b.WriteString(status + "\r\n")
	for _, h := range hdrs {
		fmt.Fprintf(&b, "%s: %s\r\n", h[0], h[1])
	}
	body := c.body()
	if c.Chunked {
		b.WriteString("Transfer-Encoding: chunked\r\n\r\n")
		fmt.Fprintf(&b, "%x\r\n", len(body))
		return append(append([]byte(b.String()), body...), []byte("\r\n0\r\n\r\n")...)
	}
	b.WriteString("\r\n")
	return append([]byte(b.String()), body...)
}

func genFlvSrvCase(t *rapid.T) FlvSrvCase {
	c := FlvSrvCase{StatusLine: "HTTP/1.1 200 OK", FlvHeader: "464c5601050000000900000000"}
	switch rapid.IntRange(0, 9).Draw(t, "statusMut") {
	case 0:
		c.StatusLine = rapid.SampledFrom([]string{"HTTP/1.1 404 Not Found", "HTTP/1.1 200", "HTTP/1.1", "HTTP/1.1 ", "", " ", "200 OK", "ICY 200 OK", "HTTP/1.1 301 Moved", "HTTP/1.1 99999999999999999999 X", strings.Repeat("H", 5000)}).Draw(t, "statusLine")
	case 1:
		c.Redirect = rapid.SampledFrom([]string{"self", "garbage", "relative", "https", "noflv", "empty"}).Draw(t, "redirect")
	}
	switch rapid.IntRange(0, 5).Draw(t, "hdrMut") {
	case 0:
		c.Hdrs = [][2]string{{"Content-Type", "video/x-flv"}, {"Content-Length", rapid.SampledFrom([]string{"0", "-1", "99999999999999999999", "x"}).Draw(t, "cl")}}
	case 1:
		c.Hdrs = [][2]string{{"no-colon-line", ""}, {"", "x"}, {strings.Repeat("K", 3000), strings.Repeat("V", 3000)}}
	case 2:
		c.Chunked = true
	}
	if rapid.IntRange(0, 5).Draw(t, "flvHdrMut") == 0 {
		c.FlvHeader = rapid.SampledFrom([]string{"", "46", "464c56", "464c5601050000000900000000"[:16], "000000000000000000000000000000", "464c56ff05ffffffff00000000", "464c5601050000000900000001"}).Draw(t, "flvHeader")
	}
	n := rapid.IntRange(0, 6).Draw(t, "ntags")
	for i := 0; i < n; i++ {
		tg := FlvTagSpec{DeclSize: -1, PrevSize: -1, Ts: uint32(i * 40)}
		tg.Type = rapid.SampledFrom([]uint8{8, 9, 18, 9, 8, 0, 255, 0x28, 0x29}).Draw(t, "tagType")
		tg.Body.Hex = rapid.SampledFrom([]string{"", "17", "1700", "170000000001", "af00", "af001210", "af01", "0200", "02000a6f6e4d65746144617461080000000000000009", "27010000000000000565aabbccddee"}).Draw(t, "tagBody")
		if rapid.IntRange(0, 3).Draw(t, "tagBig") == 0 {
			tg.Body.Seed, tg.Body.Len = 9, rapid.SampledFrom([]int{1, 100, 70000}).Draw(t, "tagLen")
		}
		switch rapid.IntRange(0, 5).Draw(t, "tagMut") {
		case 0:
			tg.DeclSize = rapid.SampledFrom([]int{0, 1, 2, 10, 11, 100000, 70000, 0x100000, 0xFFFFFF}).Draw(t, "declSize")
		case 1:
			tg.PrevSize = rapid.SampledFrom([]int{0, 1, 0x7fffffff, 0xffffffff}).Draw(t, "prevSize")
		case 2:
			tg.Ts = rapid.SampledFrom([]uint32{0xFFFFFF, 0x1000000, 0xFFFFFFFF}).Draw(t, "tagTs")
		}
		c.Tags = append(c.Tags, tg)
	}
	c.Mut = genMut(t)
	c.Slices = genSlices(t)
	return c
}

func runFlvPull(c FlvSrvCase) *pbt.Violation {
	var hs *hostileServer
	addr := ""
	hs = newHostileServer(func(i int) ([]byte, []int) { return c.wire(addr, i), c.Slices })
	addr = hs.Addr
	defer hs.close()
	sess := httpflv.NewPullSession(func(o *httpflv.PullSessionOption) {
		o.PullTimeoutMs = 8000
		o.ReadTimeoutMs = 8000
	})
	ntags := 0
	err := sess.Pull("http://"+hs.Addr+"/live/c13.flv", func(tag httpflv.Tag) {
		ntags += len(tag.Raw) & 1
	})
	if err == nil {
		select {
		case <-sess.WaitChan():
		case <-time.After(lalclient.DeliverTimeout):
			if stuck, stack := pbt.StuckGoroutine("httpflv.(*PullSession).runReadLoop", 2*time.Second); stuck {
				_ = sess.Dispose()
				return pbt.V("client-session-never-returns/httpflv", "lal's HTTP-FLV pull session is still parked %v after the upstream server's EOF:\n%s", lalclient.DeliverTimeout, head(stack, 3000))
			}
		}
	}
	_ = sess.Dispose()
	// process still alive: that is the verdict for lal-owned goroutines; nothing else of lal runs here
	return nil
}

func classifyFlvSrv(c FlvSrvCase) (bool, []string) {
	labels := []string{}
	if c.StatusLine != "HTTP/1.1 200 OK" {
		labels = append(labels, "status-line:odd")
	} else {
		labels = append(labels, "status-line:200")
	}
	if c.Redirect != "" {
		labels = append(labels, "redirect:"+c.Redirect)
	}
	if c.Chunked {
		labels = append(labels, "chunked-body")
	}
	if c.FlvHeader != "464c5601050000000900000000" {
		labels = append(labels, "flv-header:odd")
	}
	for _, tg := range c.Tags {
		if tg.DeclSize >= 0 {
			labels = append(labels, "tag:lying-data-size")
		}
		if tg.PrevSize >= 0 {
			labels = append(labels, "tag:lying-prev-size")
		}
		labels = append(labels, lbl("tag:type-%d", tg.Type))
	}
	labels = append(labels, lbl("tags:%d", len(c.Tags)))
	labels = append(labels, c.Mut.labels()...)
	reached := c.StatusLine == "HTTP/1.1 200 OK" && (c.Redirect == "" || c.Redirect == "self")
	return reached, uniq(labels)
}

func TestHttpflvPullClient(t *testing.T) {
	resetNotes()
	pbt.Run(t, pbt.Spec[FlvSrvCase]{
		ID: "C13", Name: "client-httpflv-pull", Gen: genFlvSrvCase, Run: runFlvPull, Classify: classifyFlvSrv, Isolate: true,
		Quick: 150, Thorough: 1000,
	})
}
