package c13

import (
	"strings"

	"pgregory.net/rapid"
)

// RtpSpec is one RTP packet with every header field under the generator's
// control, including fields that lie about what follows.
type RtpSpec struct {
	Ver    int    `json:"ver"` // version bits (2 = valid)
	PT     int    `json:"pt"`
	Marker bool   `json:"m,omitempty"`
	Seq    uint16 `json:"seq"`
	TS     uint32 `json:"ts"`
	SSRC   uint32 `json:"ssrc"`
	// padding: P bit and the value of the last octet (the padding count); PadFill octets
	// (incl. the count octet) are really appended (0 = the count octet is the payload's last octet)
	Pad     bool `json:"pad,omitempty"`
	PadCnt  int  `json:"pad_cnt,omitempty"`
	PadFill int  `json:"pad_fill,omitempty"`
	// CSRC: count field vs words present
	CC        int `json:"cc,omitempty"`
	CCPresent int `json:"cc_present,omitempty"`
	// header extension: X bit, declared length in words vs words present
	Ext        bool `json:"ext,omitempty"`
	ExtLen     int  `json:"ext_len,omitempty"`
	ExtPresent int  `json:"ext_present,omitempty"`
	// payload
	Kind    string `json:"kind"` // label only
	Payload Blob   `json:"payload"`
	// CutTo >= 0: the whole packet is cut to this many octets
	CutTo int `json:"cut_to"`
}

func (r RtpSpec) Bytes() []byte {
	b0 := byte(r.Ver&3)<<6 | byte(r.CC&15)
	if r.Pad {
		b0 |= 1 << 5
	}
	if r.Ext {
		b0 |= 1 << 4
	}
	b1 := byte(r.PT & 0x7f)
	if r.Marker {
		b1 |= 0x80
	}
	out := []byte{b0, b1, byte(r.Seq >> 8), byte(r.Seq)}
	out = append(out, be32(r.TS)...)
	out = append(out, be32(r.SSRC)...)
	for i := 0; i < r.CCPresent; i++ {
		out = append(out, be32(uint32(0x11110000+i))...)
	}
	if r.Ext {
		out = append(out, 0xbe, 0xde)
		out = append(out, be16(r.ExtLen)...)
		for i := 0; i < r.ExtPresent; i++ {
			out = append(out, 1, 2, 3, 4)
		}
	}
	out = append(out, r.Payload.Bytes()...)
	if r.Pad {
		for i := 0; i < r.PadFill-1; i++ {
			out = append(out, 0)
		}
		if r.PadFill > 0 {
			out = append(out, byte(r.PadCnt))
		} else if len(out) > 12 {
			out[len(out)-1] = byte(r.PadCnt)
		}
	}
	if r.CutTo >= 0 && r.CutTo < len(out) {
		out = out[:r.CutTo]
	}
	return out
}

// payloadClass groups the payload kinds: the classes are what the evidence is read by, the kinds are the detail.
func payloadClass(kind string) string {
	kind = strings.TrimPrefix(kind, "burst-")
	for _, p := range []string{"avc-fua", "avc-stapa", "avc-single", "hevc-fu", "hevc-ap", "hevc-single", "aac-au-fragment", "aac-headers-len", "aac-one-au", "aac-two-au", "aac-au-size", "raw"} {
		if strings.HasPrefix(kind, p) {
			return p + "*"
		}
	}
	switch {
	case strings.HasPrefix(kind, "avc-"):
		return "avc-other-types"
	case strings.HasPrefix(kind, "hevc-"):
		return "hevc-other-types"
	case strings.HasPrefix(kind, "aac-"):
		return "aac-other"
	}
	return kind
}

func (r RtpSpec) labels() []string {
	l := []string{"rtp:" + r.Kind, "rtpclass:" + payloadClass(r.Kind)}
	if r.Pad {
		switch {
		case r.PadCnt == 0:
			l = append(l, "rtp:padding-count-0")
		case r.PadCnt > r.PadFill+r.Payload.Len+len(r.Payload.Hex)/2:
			l = append(l, "rtp:padding-count-beyond-packet")
		default:
			l = append(l, "rtp:padding")
		}
	}
	if r.CC != r.CCPresent {
		l = append(l, "rtp:csrc-count-lies")
	} else if r.CC > 0 {
		l = append(l, "rtp:csrc")
	}
	if r.Ext {
		if r.ExtLen != r.ExtPresent {
			l = append(l, "rtp:ext-length-lies")
		} else {
			l = append(l, "rtp:ext")
		}
	}
	if r.CutTo >= 0 {
		l = append(l, "rtp:cut")
	}
	if r.Ver != 2 {
		l = append(l, "rtp:bad-version")
	}
	return l
}

// payload tables -------------------------------------------------------------------

type pl struct{ kind, hex string }

var avcPayloads = []pl{
	{"empty", ""},
	{"avc-single-1B", "65"}, {"avc-single-1B", "41"}, {"avc-single-1B", "67"},
	{"avc-single", "6588840021"}, {"avc-single", "419a0102"}, {"avc-sps", "6742c01e"}, {"avc-pps", "68ce3c80"},
	{"avc-stapa-1B", "18"}, {"avc-stapa-short-size", "1800"}, {"avc-stapa-ok", "1800046742c01e000468ce3c80"},
	{"avc-stapa-size-lies", "18ffff6742"}, {"avc-stapa-size-lies", "180005674200"}, {"avc-stapa-size-0", "18000000006742"},
	{"avc-stapa-size-lies", "1800046742c01e00ff68"}, {"avc-stapa-trailing-byte", "1800046742c01e00"},
	{"avc-fua-1B", "7c"}, {"avc-fua-start-2B", "7c85"}, {"avc-fua-start", "7c85888400"}, {"avc-fua-mid-2B", "7c05"}, {"avc-fua-mid", "7c05aabb"},
	{"avc-fua-end-2B", "7c45"}, {"avc-fua-end", "7c45ccdd"}, {"avc-fua-start+end", "7cc5aa"},
	{"avc-fub", "7d8501"}, {"avc-stapb", "190001000465"}, {"avc-mtap", "1a00"}, {"avc-type30", "1e"}, {"avc-type31", "1f00"}, {"avc-type0", "00"},
}

var hevcPayloads = []pl{
	{"empty", ""},
	{"hevc-single-1B", "26"}, {"hevc-single-1B", "40"}, {"hevc-single-2B", "2601"}, {"hevc-single", "2601af08"}, {"hevc-vps", "40010c01"}, {"hevc-sps", "42010101"}, {"hevc-pps", "4401c172"},
	{"hevc-ap-1B", "60"}, {"hevc-ap-2B", "6001"}, {"hevc-ap-short-size", "600100"}, {"hevc-ap-ok", "6001000440010c01000442010101"},
	{"hevc-ap-size-lies", "6001ffff4001"}, {"hevc-ap-size-0", "6001000000004001"}, {"hevc-ap-trailing-byte", "6001000440010c0100"},
	{"hevc-fu-1B", "62"}, {"hevc-fu-2B", "6201"}, {"hevc-fu-start-3B", "620193"}, {"hevc-fu-start", "620193aabb"}, {"hevc-fu-mid-3B", "620113"}, {"hevc-fu-mid", "620113cc"},
	{"hevc-fu-end-3B", "620153"}, {"hevc-fu-end", "620153dd"}, {"hevc-fu-start+end", "6201d3ee"},
	{"hevc-paci", "6401"}, {"hevc-type63", "7e01"}, {"hevc-type51", "6601aa"},
}

var aacPayloads = []pl{
	{"empty", ""},
	{"aac-1B", "00"}, {"aac-headers-len-0", "0000"}, {"aac-headers-len-0+data", "0000aabb"},
	{"aac-one-au-ok", "00100020aabbccdd"}, {"aac-one-au-no-header-bytes", "0010"}, {"aac-one-au-half-header", "001000"},
	{"aac-au-size-beyond", "00107ff8aabb"}, {"aac-au-size-0", "00100000aabb"}, {"aac-au-fragment-start", "00100200aabbccdd"},
	{"aac-two-au-ok", "002000100010aabbccdd"}, {"aac-two-au-size-lies", "00207ff87ff8aabb"}, {"aac-two-au-second-header-missing", "00200010aabb"},
	{"aac-headers-len-max", "ffff0010aabb"}, {"aac-headers-len-13bit", "000d0010aabb"}, {"aac-headers-len-huge-no-data", "ff00"},
	{"aac-three-au-zero", "0030000000000000"},
}

var rawPayloads = []pl{
	{"empty", ""}, {"raw-1B", "d5"}, {"raw", "d5d5d5d5d5d5d5d5"},
}

// codec of a track as the generator knows it: avc | hevc | aac | pcma | pcmu | opus | ""
func payloadTable(codec string) []pl {
	switch codec {
	case "avc":
		return avcPayloads
	case "hevc":
		return hevcPayloads
	case "aac":
		return aacPayloads
	}
	return rawPayloads
}

type trackInfo struct {
	codec string
	pt    int
	ch    int // interleaved rtp channel (rtcp = ch+1)
}

type rtpGenState struct {
	seq  uint16
	ts   uint32
	ssrc uint32
}

// genRtp draws one packet for the given track.
func genRtp(t *rapid.T, tr trackInfo, st *rtpGenState) RtpSpec {
	r := RtpSpec{Ver: 2, PT: tr.pt, SSRC: st.ssrc, CutTo: -1}
	// sequence numbers mostly consecutive so that fragment reassembly is reached
	switch rapid.IntRange(0, 9).Draw(t, "seqStep") {
	case 0:
		st.seq += uint16(rapid.SampledFrom([]int{0, 2, 100, 32768, 65535}).Draw(t, "seqJump"))
	default:
		st.seq++
	}
	r.Seq = st.seq
	if rapid.IntRange(0, 3).Draw(t, "tsStep") == 0 {
		st.ts += rapid.SampledFrom([]uint32{0, 1, 3000, 90000, 0x7fffffff, 0xffffffff}).Draw(t, "tsJump")
	}
	r.TS = st.ts
	r.Marker = rapid.Bool().Draw(t, "marker")
	tab := payloadTable(tr.codec)
	if rapid.IntRange(0, 7).Draw(t, "otherCodecPayload") == 0 {
		tab = payloadTable(rapid.SampledFrom([]string{"avc", "hevc", "aac", "raw"}).Draw(t, "otherCodec"))
	}
	p := rapid.SampledFrom(tab).Draw(t, "payload")
	r.Kind = p.kind
	r.Payload.Hex = p.hex
	if rapid.IntRange(0, 3).Draw(t, "extraBody") == 0 {
		r.Payload.Seed = rapid.Uint32Range(0, 1000).Draw(t, "bodySeed")
		r.Payload.Len = rapid.SampledFrom([]int{1, 2, 7, 100, 1400}).Draw(t, "bodyLen")
	}
	switch rapid.IntRange(0, 11).Draw(t, "hdrMut") {
	case 0, 1:
		r.Pad = true
		r.PadCnt = rapid.SampledFrom([]int{0, 1, 2, 4, 12, 13, 100, 255}).Draw(t, "padCnt")
		r.PadFill = rapid.SampledFrom([]int{0, 0, 1, 4}).Draw(t, "padFill")
		if rapid.Bool().Draw(t, "padHonest") {
			r.PadFill = r.PadCnt
		}
	case 2:
		r.CC = rapid.IntRange(0, 15).Draw(t, "cc")
		r.CCPresent = rapid.SampledFrom([]int{0, r.CC, r.CC / 2}).Draw(t, "ccPresent")
	case 3, 4:
		r.Ext = true
		r.ExtLen = rapid.SampledFrom([]int{0, 1, 2, 0x3fff, 0x4000, 0x4001, 0x8000, 0xffff}).Draw(t, "extLen")
		r.ExtPresent = rapid.SampledFrom([]int{0, 1, 2}).Draw(t, "extPresent")
		if rapid.Bool().Draw(t, "extHonest") && r.ExtLen <= 2 {
			r.ExtPresent = r.ExtLen
		}
	case 5:
		r.CutTo = rapid.SampledFrom([]int{0, 1, 2, 4, 8, 11, 12, 13, 14}).Draw(t, "cutTo")
	case 6:
		r.Ver = rapid.SampledFrom([]int{0, 1, 3}).Draw(t, "ver")
	case 7:
		r.PT = rapid.SampledFrom([]int{0, 8, 96, 97, 98, 127, 72, 73}).Draw(t, "otherPt")
	}
	return r
}

// RtcpSpec is an RTCP packet: a sender report cut / extended to Len octets, or
// another packet type.
type RtcpSpec struct {
	Type int    `json:"type"` // 200 = SR
	SSRC uint32 `json:"ssrc"`
	Len  int    `json:"len"` // octets really sent (an SR is 28)
	RC   int    `json:"rc,omitempty"`
}

func (r RtcpSpec) Bytes() []byte {
	full := []byte{0x80 | byte(r.RC&31), byte(r.Type), 0, 6}
	full = append(full, be32(r.SSRC)...)
	full = append(full, 0xe5, 0x3c, 0x11, 0x22, 0x33, 0x44, 0x55, 0x66) // NTP
	full = append(full, be32(90000)...)
	full = append(full, be32(10)...)
	full = append(full, be32(1000)...)
	for len(full) < r.Len {
		full = append(full, byte(len(full)))
	}
	return full[:r.Len]
}

func (r RtcpSpec) labels() []string {
	if r.Type == 200 {
		switch {
		case r.Len < 28:
			return []string{lbl("rtcp:sr-short-%d", r.Len/4*4)}
		case r.Len == 28:
			return []string{"rtcp:sr-28"}
		}
		return []string{"rtcp:sr-long"}
	}
	return []string{"rtcp:other-type"}
}

func genRtcp(t *rapid.T, ssrc uint32) RtcpSpec {
	r := RtcpSpec{Type: 200, SSRC: ssrc}
	r.Len = rapid.OneOf(rapid.IntRange(1, 28), rapid.SampledFrom([]int{28, 28, 52, 1, 2, 4, 8, 27})).Draw(t, "rtcpLen")
	switch rapid.IntRange(0, 5).Draw(t, "rtcpKind") {
	case 0:
		r.Type = rapid.SampledFrom([]int{201, 202, 203, 204, 0, 255}).Draw(t, "rtcpType")
	case 1:
		r.SSRC = rapid.SampledFrom([]uint32{0, 1, 0xffffffff}).Draw(t, "rtcpSsrc")
	case 2:
		r.RC = rapid.IntRange(0, 31).Draw(t, "rc")
	}
	return r
}
