package c13

import (
	"bufio"
	"fmt"
	"net"
	"net/http"
	"strconv"
	"testing"
	"time"

	"github.com/q191201771/lal/pkg/rtsp"
	"pgregory.net/rapid"

	"verif/drv/pbt"
	"verif/harness/inproc"
	"verif/harness/memconn"
	"verif/ref/wsref"
)

// hijackWriter is the http.ResponseWriter handed to lal's WebSocket RTSP
// handler (httptest's recorder cannot be hijacked).
type hijackWriter struct {
	conn net.Conn
	hdr  http.Header
}

func (h *hijackWriter) Header() http.Header         { return h.hdr }
func (h *hijackWriter) Write(b []byte) (int, error) { return h.conn.Write(b) }
func (h *hijackWriter) WriteHeader(statusCode int)  {}
func (h *hijackWriter) Hijack() (net.Conn, *bufio.ReadWriter, error) {
	return h.conn, bufio.NewReadWriter(bufio.NewReader(h.conn), bufio.NewWriter(h.conn)), nil
}

// wsConn runs rtsp.WebsocketServer.HandleWebsocket over an in-memory connection in a
// harness-owned goroutine and returns the client end.
func wsConn(s *inproc.Server, hdrs [][2]string) (*memconn.Conn, func(time.Duration) bool) {
	cli, srv := memconn.PairAddr("127.0.0.1:40900", "127.0.0.1:5566")
	ws := rtsp.NewWebsocketServer("", s.SM, s.Cfg.RtspConfig.ServerAuthConfig)
	req, err := http.NewRequest("GET", "http://127.0.0.1:5566/", nil)
	if err != nil {
		panic(pbt.HarnessError{Msg: err.Error()})
	}
	req.RequestURI = "/"
	req.RemoteAddr = "127.0.0.1:40900"
	for _, h := range hdrs {
		req.Header.Add(h[0], h[1])
	}
	done := s.Go("wsrtsp", func() {
		defer srv.MarkDone()
		defer srv.Close()
		ws.HandleWebsocket(&hijackWriter{conn: srv, hdr: http.Header{}}, req)
	})
	wait := func(d time.Duration) bool {
		select {
		case <-done:
			return true
		case <-time.After(d):
			return false
		}
	}
	return cli, wait
}

// WsFrame is one WebSocket frame from the hostile client.
type WsFrame struct {
	Req    *Req  `json:"req,omitempty"`   // payload: an RTSP request ...
	Raw    *Blob `json:"raw,omitempty"`   // ... or these octets
	Extra  *Blob `json:"extra,omitempty"` // appended to the payload (second request, garbage)
	Fin    bool  `json:"fin"`
	Opcode int   `json:"opcode"`
	Rsv    int   `json:"rsv,omitempty"`
	Masked bool  `json:"masked"`
	Form   int   `json:"form"` // 0 minimal, 7 / 16 / 64: explicit length encoding (the payload is cut to fit 7 / 16)
	// Decl: "" = the true length; else the length field (decimal, up to 2^64-1) lies; it selects the 64-bit form
	// unless Form == 16
	Decl string `json:"decl,omitempty"`
	// CutTo >= 0: the encoded frame is cut to this many octets (header truncated)
	CutTo int `json:"cut_to"`
}

func (f WsFrame) payload(cseq *int) []byte {
	var p []byte
	switch {
	case f.Req != nil:
		*cseq++
		p = f.Req.Bytes(*cseq)
	case f.Raw != nil:
		p = f.Raw.Bytes()
	}
	if f.Extra != nil {
		p = append(p, f.Extra.Bytes()...)
	}
	return p
}

func (f WsFrame) Bytes(cseq *int) []byte {
	p := f.payload(cseq)
	form := f.Form
	if form == 7 && len(p) > 125 {
		p = p[:125]
	}
	if form == 16 && len(p) > 0xFFFF {
		p = p[:0xFFFF]
	}
	if form == 0 {
		form = wsref.MinimalLenForm(uint64(len(p)))
	}
	var mask *[4]byte
	if f.Masked {
		mask = &[4]byte{0x37, 0xfa, 0x21, 0x3d}
	}
	out := wsref.AppendFrameForm(nil, f.Fin, uint8(f.Opcode), mask, p, form)
	out[0] |= byte(f.Rsv&7) << 4
	if f.Decl != "" {
		n, err := strconv.ParseUint(f.Decl, 10, 64)
		if err != nil {
			panic(pbt.HarnessError{Msg: "c13: bad declared ws length " + f.Decl})
		}
		// re-encode the header with the lying length, keeping the (masked) payload octets
		hdrLen := 2
		switch form {
		case 16:
			hdrLen = 4
		case 64:
			hdrLen = 10
		}
		rest := out[hdrLen:]
		b1 := out[1] & 0x80
		if f.Form == 16 {
			out = append([]byte{out[0], b1 | 126, byte(n >> 8), byte(n)}, rest...)
		} else {
			out = append([]byte{out[0], b1 | 127, byte(n >> 56), byte(n >> 48), byte(n >> 40), byte(n >> 32), byte(n >> 24), byte(n >> 16), byte(n >> 8), byte(n)}, rest...)
		}
	}
	if f.CutTo >= 0 && f.CutTo < len(out) {
		out = out[:f.CutTo]
	}
	return out
}

// WsCase: upgrade request, a valid prefix of RTSP requests (one per masked binary frame), hostile frames.
type WsCase struct {
	Upgrade [][2]string `json:"upgrade"` // request headers of the HTTP upgrade
	// Stage: none | options | announced | described | subsetup | playing
	Stage  string    `json:"stage"`
	Frames []WsFrame `json:"frames"`
	Mut    Mut       `json:"mut"`
	Slices []int     `json:"slices,omitempty"`
	// FeedAfter as in RtspCase
	FeedAfter int `json:"feed_after,omitempty"`
	// PrefixSdp as in RtspCase (stage announced)
	PrefixSdp *Sdp `json:"prefix_sdp,omitempty"`
}

func (c *WsCase) rtsp() *RtspCase {
	return &RtspCase{Stage: c.Stage, Video: "avc", Audio: "aac", PrefixSdp: c.PrefixSdp}
}

func (c *WsCase) isWs() bool {
	conn, up := false, false
	for _, h := range c.Upgrade {
		if http.CanonicalHeaderKey(h[0]) == "Connection" && (h[1] == "Upgrade" || h[1] == "keep-alive, Upgrade") {
			conn = true
		}
		if http.CanonicalHeaderKey(h[0]) == "Upgrade" && h[1] == "websocket" {
			up = true
		}
	}
	return conn && up
}

func (c *WsCase) wire() []byte {
	cseq := 0
	rc := c.rtsp()
	var out []byte
	if c.isWs() {
		// the valid prefix: every request in a masked binary frame of its own
		n := 0
		pre := rc.prefix(&n)
		for _, r := range splitRequests(pre) {
			out = wsref.AppendFrame(out, true, 2, &[4]byte{1, 2, 3, 4}, r)
		}
		cseq = n
	} else {
		out = rc.prefix(&cseq)
	}
	var tail []byte
	for _, f := range c.Frames {
		tail = append(tail, f.Bytes(&cseq)...)
	}
	return append(out, c.Mut.apply(tail)...)
}

// splitRequests splits a rendered sequence of RTSP requests (as produced by RtspCase.prefix: no interleaved frames) into
// the single requests.
func splitRequests(b []byte) [][]byte {
	var out [][]byte
	for len(b) > 0 {
		end := indexOf(b, []byte("\r\n\r\n"))
		if end < 0 {
			out = append(out, b)
			break
		}
		end += 4
		// body
		hdr := string(b[:end])
		if i := indexOf([]byte(hdr), []byte("Content-Length: ")); i >= 0 {
			var n int
			fmt.Sscanf(hdr[i+len("Content-Length: "):], "%d", &n)
			end += n
		}
		if end > len(b) {
			end = len(b)
		}
		out = append(out, b[:end])
		b = b[end:]
	}
	return out
}

func indexOf(b, sep []byte) int {
	for i := 0; i+len(sep) <= len(b); i++ {
		if string(b[i:i+len(sep)]) == string(sep) {
			return i
		}
	}
	return -1
}

var wsUpgradeOK = [][2]string{{"Connection", "Upgrade"}, {"Upgrade", "websocket"}, {"Sec-WebSocket-Key", "dGhlIHNhbXBsZSBub25jZQ=="}, {"Sec-WebSocket-Version", "13"}, {"Sec-WebSocket-Protocol", "rtsp"}}

func genWsFrame(t *rapid.T, c *WsCase, huge bool) WsFrame {
	f := WsFrame{Fin: true, Opcode: 2, Masked: true, CutTo: -1}
	switch rapid.IntRange(0, 9).Draw(t, "wsPayload") {
	case 0:
		f.Raw = &Blob{Hex: rapid.SampledFrom([]string{"", "00", "24000004aabbccdd", "4f5054494f4e53", "0d0a0d0a", "4f5054494f4e53202a20525453502f312e300d0a", "ff"}).Draw(t, "wsRaw")}
	case 1:
		f.Raw = &Blob{Seed: rapid.Uint32Range(0, 99).Draw(t, "wsRawSeed"), Len: rapid.SampledFrom([]int{1, 125, 126, 127, 65535, 65536, 70000}).Draw(t, "wsRawLen")}
	default:
		f.Req = genReq(t, c.rtsp())
		if rapid.IntRange(0, 5).Draw(t, "wsExtra") == 0 {
			f.Extra = &Blob{Hex: rapid.SampledFrom([]string{"4f5054494f4e53202a20525453502f312e300d0a435365713a20390d0a0d0a", "00", "24000001aa", "0d0a"}).Draw(t, "wsExtraBytes")}
		}
	}
	switch rapid.IntRange(0, 13).Draw(t, "wsMut") {
	case 0:
		f.Masked = false
	case 1:
		f.Fin = false
	case 2:
		f.Opcode = rapid.SampledFrom([]int{0, 1, 8, 9, 10, 3, 15}).Draw(t, "opcode")
	case 3:
		f.Rsv = rapid.IntRange(1, 7).Draw(t, "rsv")
	case 4:
		f.Form = rapid.SampledFrom([]int{7, 16, 64}).Draw(t, "form")
	case 5:
		f.CutTo = rapid.SampledFrom([]int{0, 1, 2, 3, 4, 5, 6, 9, 10, 11, 13, 14}).Draw(t, "wsCut")
	case 6, 7:
		if huge {
			f.Decl = rapid.SampledFrom([]string{
				"9223372036854775808", "18446744073709551615", "9223372036854775807", "13835058055282163712", // >= 2^63 and 2^63-1
				"4294967296", "4294967295", "8589934592", "68719476736", "1099511627776", "1099511627775", "281474976710656", // 2^32 .. 2^48
				"2147483648", "2147483647", "3221225472", // 2^31 ..
			}).Draw(t, "hugeDecl")
		} else {
			f.Decl = rapid.SampledFrom([]string{"0", "1", "125", "126", "65535", "65536", "100000", "16777215"}).Draw(t, "decl")
			if rapid.Bool().Draw(t, "decl16") {
				f.Form = 16
				f.Decl = rapid.SampledFrom([]string{"0", "1", "125", "126", "65535", "4000"}).Draw(t, "decl16v")
			}
		}
	}
	return f
}

func genWsCase(huge bool) func(t *rapid.T) WsCase {
	return func(t *rapid.T) WsCase {
		var c WsCase
		c.Upgrade = wsUpgradeOK
		switch rapid.IntRange(0, 9).Draw(t, "upgrade") {
		case 0:
			c.Upgrade = nil // no upgrade: lal treats the hijacked connection as plain RTSP
		case 1:
			c.Upgrade = [][2]string{{"Connection", "keep-alive, Upgrade"}, {"Upgrade", "websocket"}}
		case 2:
			c.Upgrade = [][2]string{{"Connection", "Upgrade"}, {"Upgrade", "websocket"}, {"Sec-WebSocket-Key", rapid.SampledFrom([]string{"", "x", "\x00", "AAAAAAAAAAAAAAAAAAAAAAAAAAAAAAAAAAAAAAAAAAAAAAAAAAAAAAAAAAAAAAAAAAAAAAAAAAAAAAAAAAAAAAAAAAAAAAAAAAAAAAAAAAAA"}).Draw(t, "wsKey")}}
		}
		c.Stage = rapid.SampledFrom([]string{"none", "options", "options", "announced", "described", "subsetup", "playing"}).Draw(t, "stage")
		if c.Stage == "announced" && !huge && rapid.Bool().Draw(t, "prefixSdp") {
			c.PrefixSdp = genAcceptedSdp(t)
		}
		n := rapid.IntRange(1, 6).Draw(t, "nframes")
		for i := 0; i < n; i++ {
			c.Frames = append(c.Frames, genWsFrame(t, &c, huge))
		}
		if huge {
			// at least one frame carries a huge declared length, placed where it is reached
			i := rapid.IntRange(0, len(c.Frames)-1).Draw(t, "hugeAt")
			c.Frames = c.Frames[:i+1]
			f := &c.Frames[i]
			f.CutTo, f.Form = -1, 0
			f.Decl = rapid.SampledFrom([]string{
				"9223372036854775808", "18446744073709551615", "9223372036854775807", "13835058055282163712",
				"4294967296", "4294967295", "8589934592", "68719476736", "1099511627776", "1099511627775", "281474976710656",
				"2147483648", "3221225472",
			}).Draw(t, "hugeDeclForced")
			for j := 0; j < i; j++ {
				// earlier frames are harmless OPTIONS requests so that the huge one is reached
				c.Frames[j] = WsFrame{Req: &Req{Method: "OPTIONS", Uri: c.rtsp().uri()}, Fin: true, Opcode: 2, Masked: true, CutTo: -1}
			}
		} else {
			c.Mut = genMut(t)
		}
		if !huge {
			c.Slices = genSlices(t)
		} else {
			c.Mut.Trunc = -1
		}
		if rc := c.rtsp(); rc.subscriberSide() {
			c.FeedAfter = rapid.IntRange(0, 2).Draw(t, "feedAfter")
		}
		return c
	}
}

func runWs(c WsCase) *pbt.Violation {
	s := newServer()
	defer s.Close()
	fd, v := startFeed(s)
	if v != nil {
		return v
	}
	conn, wait := wsConn(s, c.Upgrade)
	defer conn.Close()
	fd.key = len(c.wire())
	if v := deliverRtsp(s, conn, c.wire(), c.Slices, fd, c.FeedAfter, nil, wait, "rtsp.(*WebsocketServer).HandleWebsocket", "ws-rtsp"); v != nil {
		return v
	}
	if !c.rtsp().subscriberSide() && fd.key%2 == 0 {
		if v := republish(s, "c13hostile"); v != nil {
			return v
		}
	}
	return probe(s, fd)
}

func classifyWs(c WsCase) (bool, []string) {
	labels := []string{"stage:" + c.Stage}
	if c.PrefixSdp != nil {
		labels = append(labels, "prefix-sdp:hostile-but-accepted")
		labels = append(labels, c.PrefixSdp.accLabels()...)
	}
	if c.isWs() {
		labels = append(labels, "upgrade:websocket")
	} else {
		labels = append(labels, "upgrade:none(plain-rtsp)")
	}
	for i, f := range c.Frames {
		var l []string
		switch {
		case f.Decl != "":
			n, _ := strconv.ParseUint(f.Decl, 10, 64)
			switch {
			case n >= 1<<63:
				l = append(l, "ws:declared>=2^63")
			case n >= 1<<40:
				l = append(l, "ws:declared-2^40..2^63")
			case n >= 1<<32:
				l = append(l, "ws:declared-2^32..2^40")
			case n >= 1<<31:
				l = append(l, "ws:declared-2^31..2^32")
			case n >= 1<<16:
				l = append(l, "ws:declared-64K..16M")
			default:
				l = append(l, "ws:declared-lies-small")
			}
			if f.Form == 16 {
				l = append(l, "ws:len-form-16")
			} else {
				l = append(l, "ws:len-form-64")
			}
		case f.Form != 0:
			l = append(l, lbl("ws:len-form-%d", f.Form))
		}
		if !f.Masked {
			l = append(l, "ws:unmasked")
		}
		if !f.Fin {
			l = append(l, "ws:fin-0")
		}
		if f.Opcode != 2 {
			l = append(l, lbl("ws:opcode-%d", f.Opcode))
		}
		if f.Rsv != 0 {
			l = append(l, "ws:rsv-bits")
		}
		if f.CutTo >= 0 {
			l = append(l, "ws:header-cut")
		}
		if f.Req != nil {
			l = append(l, "wsreq:"+f.Req.Method)
			if f.Req.Sdp != nil {
				l = append(l, "wsreq:sdp")
			}
		} else {
			l = append(l, "ws:raw-payload")
		}
		if f.Extra != nil {
			l = append(l, "ws:payload+trailing")
		}
		if i == 0 {
			for _, x := range l {
				labels = append(labels, "first/"+x)
			}
		}
		labels = append(labels, l...)
	}
	labels = append(labels, c.Mut.labels()...)
	if len(c.Slices) > 0 {
		labels = append(labels, "tcp-sliced")
	}
	return len(c.Frames) > 0, uniq(labels)
}

func TestRtspWebsocket(t *testing.T) {
	resetNotes()
	pbt.Run(t, pbt.Spec[WsCase]{
		ID: "C13", Name: "rtsp-websocket", Gen: genWsCase(false), Run: runWs, Classify: classifyWs, Isolate: true,
		Quick: 70, Thorough: 1000,
	})
}

// TestWsFrameLength: WebSocket frames whose 64-bit length field is >= 2^63 (a negative int) or 2^31..2^48 (an
// allocation the peer never backs with data).  The test binary runs under `ulimit -v` (check.json mem_limit_mb), so
// an attempted multi-gigabyte allocation is a deterministic fatal error of the process, attributed to lal by the driver.
func TestWsFrameLength(t *testing.T) {
	resetNotes()
	pbt.Run(t, pbt.Spec[WsCase]{
		ID: "C13", Name: "ws-frame-length", Gen: genWsCase(true), Run: runWs, Classify: classifyWs, Isolate: true,
		Quick: 30, Thorough: 400,
	})
}
