package c13

import (
	"bufio"
	"bytes"
	"fmt"
	"io"
	"log"
	"net"
	"net/http"
	"net/http/httptest"
	"strings"
	"sync"
	"testing"
	"time"

	"github.com/q191201771/lal/pkg/hls"
	"github.com/q191201771/lal/pkg/logic"
	"pgregory.net/rapid"

	"verif/drv/pbt"
	"verif/harness/inproc"
	"verif/harness/lalclient"
	"verif/harness/memconn"
)

// HttpCase is one HTTP request as a peer can put it on the wire.  It is parsed
// by net/http's own request reader (what lal's listeners use): a request that
// net/http refuses never reaches lal and is a trivial case.
type HttpCase struct {
	Surface string      `json:"surface"` // sub (HTTP-FLV / HTTP-TS handler) | hls | api
	Method  string      `json:"method"`
	Target  string      `json:"target"` // request-target
	Proto   string      `json:"proto,omitempty"`
	Host    string      `json:"host"`
	Hdrs    [][2]string `json:"hdrs,omitempty"`
	Body    *Blob       `json:"body,omitempty"`
	BodyStr string      `json:"body_str,omitempty"`
	// Tail: octets the peer sends after the request on a subscriber connection (sub surface), then it closes
	Tail *Blob `json:"tail,omitempty"`
	// HlsSession: hls handler with sub-session mode (session_id redirects) enabled
	HlsSession bool `json:"hls_session,omitempty"`
	// Feed: a healthy publisher is publishing the stream "c13feed" meanwhile
	Feed bool `json:"feed,omitempty"`
	// Mut applies to the body (api) only
	Label string `json:"label,omitempty"`
}

func (c *HttpCase) body() []byte {
	if c.Body != nil {
		return c.Body.Bytes()
	}
	return []byte(c.BodyStr)
}

func (c *HttpCase) raw() []byte {
	var b bytes.Buffer
	proto := c.Proto
	if proto == "" {
		proto = "HTTP/1.1"
	}
	fmt.Fprintf(&b, "%s %s %s\r\n", c.Method, c.Target, proto)
	fmt.Fprintf(&b, "Host: %s\r\n", c.Host)
	body := c.body()
	hasCL := false
	for _, h := range c.Hdrs {
		fmt.Fprintf(&b, "%s: %s\r\n", h[0], h[1])
		if strings.EqualFold(h[0], "Content-Length") || strings.EqualFold(h[0], "Transfer-Encoding") {
			hasCL = true
		}
	}
	if len(body) > 0 && !hasCL {
		fmt.Fprintf(&b, "Content-Length: %d\r\n", len(body))
	}
	if c.Surface == "api" || c.Surface == "l3" {
		b.WriteString("Connection: close\r\n")
	}
	b.WriteString("\r\n")
	b.Write(body)
	return b.Bytes()
}

// request parses the rendered request as net/http does.
func (c *HttpCase) request() (*http.Request, error) {
	req, err := http.ReadRequest(bufio.NewReader(bytes.NewReader(c.raw())))
	if err != nil {
		return nil, err
	}
	req.RemoteAddr = "127.0.0.1:40700"
	return req, nil
}

// ---- generators ---------------------------------------------------------------------

var subTargets = []string{
	"/live/c13feed.flv", "/live/c13feed.ts", "/live/c13feed.flv?lal_secret=abc", "/live/c13nobody.flv", "/c13feed.flv", "/.flv", "/.ts", "//.flv", "/live/.flv", "/live/c13feed.flv/",
	"/a/b/c/d/e/c13feed.flv", "/live/c13feed.m3u8", "/live/c13feed", "/", "*", "/live/c13feed.flv?", "/live/c13feed.flv?a=b&a=c&%zz", "/live/%2e%2e/c13feed.flv", "/live/../c13feed.flv",
	"/live/c13feed.flv%00", "/live/c13feed.flv#frag", "/live/c13feed.ts?x=" + strings.Repeat("y", 3000), "/" + strings.Repeat("a/", 400) + "x.flv", "/live/c13feed.FLV", "/live/c13feed.flv.ts",
	"http://other.example/live/c13feed.flv", "http://[::1]:8080/live/c13feed.ts", "/live/c13feed.flv?lal_secret=" + strings.Repeat("0", 32), "/live/x y.flv", "/live/\x7f.flv", "/live/%.flv",
}

var hlsTargets = []string{
	"/hls/c13feed.m3u8", "/hls/c13feed/playlist.m3u8", "/hls/c13feed/record.m3u8", "/hls/c13feed-0.ts", "/hls/c13feed/c13feed-1700000000000-1.ts", "/hls/c13feed-1700000000000-1.ts",
	"/hls/.m3u8", "/hls/.ts", "/hls/", "/hls", "/", "/hls/c13feed", "/hls/c13feed.mp4", "/hls/-.ts", "/hls/--.ts", "/hls/---.ts", "/hls/a-b-c-d-e.ts", "/hls/-1-2.ts", "/hls/c13feed-.ts",
	"/hls/../c13feed.m3u8", "/hls/%2e%2e/%2e%2e/etc/passwd.ts", "/hls/c13feed.m3u8?session_id=", "/hls/c13feed.m3u8?session_id=abc", "/hls/c13feed.m3u8?session_id=abc&session_id=def",
	"/hls/c13feed-1-1.ts?session_id=abc", "/hls/c13feed.m3u8?%zz", "/hls/c13feed.m3u8?;", "/c13feed.m3u8", "/x/y/z/playlist.m3u8", "/hls/c13nobody.m3u8", "/hls/c13nobody/playlist.m3u8",
	"http://h/hls/c13feed.m3u8", "/hls/c13feed.m3u8#x", "/hls//playlist.m3u8", "/hls/" + strings.Repeat("n", 300) + ".m3u8", "/hls/c13feed.m3u8/", "/hls/c13feed.ts.m3u8",
}

var apiPaths = []string{"/api/stat/group", "/api/stat/all_group", "/api/stat/lal_info", "/api/ctrl/start_relay_pull", "/api/ctrl/stop_relay_pull", "/api/ctrl/kick_session", "/api/ctrl/start_rtp_pub",
	"/api/ctrl/add_ip_blacklist", "/lal.html", "/", "/api", "/api/ctrl/", "/api/ctrl/unknown", "/api/stat/group/", "//api/stat/group"}

var hostGen = rapid.SampledFrom([]string{"127.0.0.1:8080", "127.0.0.1", "localhost:8080", "[::1]:8080", "", "a", "127.0.0.1:99999", "127.0.0.1:", "x:y", "h:-1", strings.Repeat("h", 300), "127.0.0.1:8080:8080", "[::1", "h h"})

// jsonValue draws a JSON value of any type, with the extremes the property names.
func jsonValue(t *rapid.T, depth int) string {
	hi := 9
	if depth <= 0 {
		hi = 7
	}
	switch rapid.IntRange(0, hi).Draw(t, "jsonKind") {
	case 0:
		return rapid.SampledFrom([]string{"0", "1", "-1", "1935", "65535", "65536", "2147483647", "2147483648", "-2147483649", "9223372036854775807", "9223372036854775808", "1e400", "1e3", "0.5", "-0", "18446744073709551616", "1" + strings.Repeat("0", 400)}).Draw(t, "jsonNum")
	case 1, 2:
		return `"` + rapid.SampledFrom([]string{"", "c13feed", "c13api", "x", "../x", "a/b", "RTMPPUBSUB1", "RTSPPUB1", "rtmp://127.0.0.1:1/live/c13api", "rtsp://127.0.0.1:1/live/c13api", "rtsp://u:p@127.0.0.1:1/live/c13api",
			"http://127.0.0.1:1/live/x.flv", "rtmp://", "rtmp://127.0.0.1:1", "rtmp://127.0.0.1:1/", "rtmp://127.0.0.1:99999/a/b", "rtmp://[::1/a/b", "://", "rtmp:/x", "%zz", "10.1.2.3", "::1", "not-an-ip", strings.Repeat("s", 5000),
			"\\u0000", "\\ud800", "rtmp://127.0.0.1:1/live/c13api?a=b&c=d"}).Draw(t, "jsonStr") + `"`
	case 3:
		return rapid.SampledFrom([]string{"true", "false"}).Draw(t, "jsonBool")
	case 4:
		return "null"
	case 5:
		return rapid.SampledFrom([]string{"", "tru", "nul", "{", "[", `"abc`, "1.", "--1", "0x10", "NaN", "Infinity", "'x'"}).Draw(t, "jsonBad")
	case 6:
		return "[]"
	case 7:
		return "{}"
	case 8:
		n := rapid.IntRange(1, 3).Draw(t, "jsonArrLen")
		var es []string
		for i := 0; i < n; i++ {
			es = append(es, jsonValue(t, depth-1))
		}
		return "[" + strings.Join(es, ",") + "]"
	default:
		n := rapid.SampledFrom([]int{1, 1, 2, 1000, 100000}).Draw(t, "jsonNest")
		return strings.Repeat(`{"a":`, n) + "1" + strings.Repeat("}", n)
	}
}

var apiKeys = map[string][]string{
	"/api/ctrl/start_relay_pull": {"url", "stream_name", "pull_timeout_ms", "pull_retry_num", "auto_stop_pull_after_no_out_ms", "rtsp_mode"},
	"/api/ctrl/kick_session":     {"stream_name", "session_id"},
	"/api/ctrl/start_rtp_pub":    {"stream_name", "port", "timeout_ms", "is_tcp_flag"},
	"/api/ctrl/add_ip_blacklist": {"ip", "duration_sec"},
}

// well-typed values: so that most requests get past validation and the hostile member is reached
func apiGoodValue(t *rapid.T, key string) string {
	switch key {
	case "url":
		return `"` + rapid.SampledFrom([]string{"rtmp://127.0.0.1:1/live/c13api", "rtsp://127.0.0.1:1/live/c13api"}).Draw(t, "goodUrl") + `"`
	case "stream_name":
		return `"` + rapid.SampledFrom([]string{"c13api", "c13api2", "c13feed", ""}).Draw(t, "goodStream") + `"`
	case "session_id":
		return `"` + rapid.SampledFrom([]string{"RTMPPUBSUB1", "FLVSUB1", "PSPUB1", "RTMPPULL1", ""}).Draw(t, "goodSession") + `"`
	case "ip":
		return `"10.1.2.3"`
	case "port":
		return "0"
	case "is_tcp_flag":
		return rapid.SampledFrom([]string{"0", "1"}).Draw(t, "goodTcp")
	case "pull_retry_num":
		return rapid.SampledFrom([]string{"0", "-1", "1"}).Draw(t, "goodRetry")
	case "rtsp_mode":
		return rapid.SampledFrom([]string{"0", "1"}).Draw(t, "goodMode")
	}
	return rapid.SampledFrom([]string{"0", "1", "1000", "-1", "10000"}).Draw(t, "goodNum")
}

func genApiBody(t *rapid.T, path string) (string, string) {
	keys := apiKeys[path]
	if keys == nil {
		keys = []string{"stream_name", "url", "port"}
	}
	switch rapid.IntRange(0, 9).Draw(t, "apiBodyKind") {
	case 0:
		return rapid.SampledFrom([]string{"", " ", "null", "[]", "1", `"x"`, "{", "}", "{}", `{"`, `{"url"`, `{"url":}`, "\x00", "{}{}", `{"a":1,}`, strings.Repeat("[", 100000), strings.Repeat(`{"a":`, 100000)}).Draw(t, "apiRawBody"), "not-an-object"
	}
	var members []string
	hostileAt := rapid.IntRange(-1, len(keys)-1).Draw(t, "hostileKey")
	label := "all-well-typed"
	for i, k := range keys {
		if rapid.IntRange(0, 15).Draw(t, "dropKey") == 0 {
			label = "missing-key"
			continue
		}
		v := apiGoodValue(t, k)
		if i == hostileAt {
			if rapid.Bool().Draw(t, "typeCorrect") {
				// the right JSON type, an extreme value: gets past validation into the manager
				switch k {
				case "url", "stream_name", "session_id", "ip":
					v = `"` + rapid.SampledFrom([]string{"", "x", "../x", "a/b", "rtmp://", "rtmp://127.0.0.1:1", "rtmp://127.0.0.1:1/", "rtmp://127.0.0.1:1/live", "rtmp://127.0.0.1:99999/a/b", "rtmp://[::1/a/b", "://", "rtmp:/x", "%zz",
						"rtsp://127.0.0.1:1", "rtsp://u:p@127.0.0.1:1/live/c13api", "rtsp://:@127.0.0.1:1/a/b", "http://127.0.0.1:1/live/x.flv", "rtmp://127.0.0.1:1/live/c13api?a=b&c=d", "rtmps://127.0.0.1:1/a/b", "RTMP://127.0.0.1:1/a/b",
						"rtmp://127.0.0.1:1//", "rtmp://127.0.0.1:1/a/b/c/d/e", "not-an-ip", "::1", "10.1.2.3/8", strings.Repeat("s", 5000), "\\u0000"}).Draw(t, "extremeStr") + `"`
				default:
					v = rapid.SampledFrom([]string{"0", "-1", "1", "2", "65535", "65536", "-2147483648", "2147483647", "9223372036854775807", "-9223372036854775808", "70000", "999"}).Draw(t, "extremeInt")
				}
				label = "extreme-member"
			} else {
				v = jsonValue(t, 2)
				label = "hostile-member"
			}
		}
		members = append(members, fmt.Sprintf("%q:%s", k, v))
		if rapid.IntRange(0, 15).Draw(t, "dupKey") == 0 {
			members = append(members, fmt.Sprintf("%q:%s", k, jsonValue(t, 1)))
			label = "duplicate-key"
		}
	}
	if rapid.IntRange(0, 7).Draw(t, "extraKey") == 0 {
		members = append(members, fmt.Sprintf("%q:%s", rapid.SampledFrom([]string{"debug_dump_packet_", "", "x", "URL", "Stream_Name"}).Draw(t, "extraKeyName"), jsonValue(t, 1)))
	}
	return "{" + strings.Join(members, ",") + "}", label
}

func genHttpCase(surface string) func(t *rapid.T) HttpCase {
	return func(t *rapid.T) HttpCase {
		c := HttpCase{Surface: surface, Method: "GET", Host: "127.0.0.1:8080"}
		if rapid.IntRange(0, 5).Draw(t, "hostMut") == 0 {
			c.Host = hostGen.Draw(t, "host")
		}
		if rapid.IntRange(0, 7).Draw(t, "methodMut") == 0 {
			c.Method = rapid.SampledFrom([]string{"POST", "HEAD", "OPTIONS", "PUT", "DELETE", "CONNECT", "get", "PATCH"}).Draw(t, "method")
		}
		if rapid.IntRange(0, 9).Draw(t, "protoMut") == 0 {
			c.Proto = rapid.SampledFrom([]string{"HTTP/1.0", "HTTP/1.1", "HTTP/2.0", "HTTP/0.9"}).Draw(t, "proto")
		}
		switch surface {
		case "sub":
			c.Target = rapid.SampledFrom(subTargets).Draw(t, "subTarget")
			c.Feed = rapid.IntRange(0, 2).Draw(t, "feed") > 0
			switch rapid.IntRange(0, 5).Draw(t, "subHdrs") {
			case 0, 1:
				c.Hdrs = [][2]string{{"Connection", "Upgrade"}, {"Upgrade", "websocket"}, {"Sec-WebSocket-Key", rapid.SampledFrom([]string{"dGhlIHNhbXBsZSBub25jZQ==", "", "x", strings.Repeat("k", 4000)}).Draw(t, "wsKey")}, {"Sec-WebSocket-Version", "13"}}
			case 2:
				c.Hdrs = [][2]string{{"Connection", rapid.SampledFrom([]string{"keep-alive, Upgrade", "upgrade", "Upgrade, Upgrade", ""}).Draw(t, "connHdr")}, {"Upgrade", rapid.SampledFrom([]string{"websocket", "WebSocket", "h2c", ""}).Draw(t, "upgradeHdr")}}
			case 3:
				c.Hdrs = [][2]string{{"Range", "bytes=0-"}, {"User-Agent", strings.Repeat("u", 2000)}, {"Referer", "http://x/\x7f"}}
			}
			if rapid.IntRange(0, 1).Draw(t, "tail") == 0 {
				c.Tail = &Blob{Hex: rapid.SampledFrom([]string{"", "00", "8100", "818000000000", "88820000000003e8", "8a00", "81ff7fffffffffffffff", "474554202f20485454502f312e310d0a0d0a", "ffffffff"}).Draw(t, "tailHex"),
					Seed: 5, Len: rapid.SampledFrom([]int{0, 0, 10, 5000}).Draw(t, "tailLen")}
			}
		case "l3":
			// lal's real HTTP listener (HLS, HTTP-FLV and HTTP-TS on one address): mostly HLS targets
			if rapid.IntRange(0, 3).Draw(t, "l3Sub") == 0 {
				c.Target = rapid.SampledFrom(subTargets).Draw(t, "l3SubTarget")
			} else {
				c.Target = rapid.SampledFrom(hlsTargets).Draw(t, "l3HlsTarget")
			}
			c.HlsSession = rapid.Bool().Draw(t, "l3Session")
			c.Feed = true
			if rapid.IntRange(0, 3).Draw(t, "l3Hdrs") == 0 {
				c.Hdrs = [][2]string{{"Range", rapid.SampledFrom([]string{"bytes=0-", "bytes=-1", "x"}).Draw(t, "range")}, {"X-Forwarded-For", "1.2.3.4, x"}}
			}
		case "hls":
			c.Target = rapid.SampledFrom(hlsTargets).Draw(t, "hlsTarget")
			c.HlsSession = rapid.Bool().Draw(t, "hlsSession")
			c.Feed = true
			if rapid.IntRange(0, 3).Draw(t, "hlsHdrs") == 0 {
				c.Hdrs = [][2]string{{"Range", rapid.SampledFrom([]string{"bytes=0-", "bytes=-1", "bytes=5-2", "x"}).Draw(t, "range")}, {"If-None-Match", "*"}}
			}
		case "api":
			p := rapid.SampledFrom(apiPaths).Draw(t, "apiPath")
			q := rapid.SampledFrom([]string{"", "", "?stream_name=c13feed", "?stream_name=c13api", "?stream_name=", "?stream_name", "?stream_name=a&stream_name=b", "?stream_name=%zz", "?x=1;y=2", "?stream_name=" + strings.Repeat("n", 3000), "?stream_name=../x"}).Draw(t, "apiQuery")
			c.Target = p + q
			if _, isCtrl := apiKeys[p]; isCtrl || rapid.IntRange(0, 3).Draw(t, "bodyAnyway") == 0 {
				c.Method = rapid.SampledFrom([]string{"POST", "POST", "POST", "GET", "PUT"}).Draw(t, "apiMethod")
				c.BodyStr, c.Label = genApiBody(t, p)
				c.Hdrs = append(c.Hdrs, [2]string{"Content-Type", rapid.SampledFrom([]string{"application/json", "text/plain", "application/x-www-form-urlencoded", ""}).Draw(t, "ctype")})
				switch rapid.IntRange(0, 11).Draw(t, "apiFraming") {
				case 0:
					c.Hdrs = append(c.Hdrs, [2]string{"Content-Length", rapid.SampledFrom([]string{"0", "1", "5"}).Draw(t, "shortCL")})
				case 1:
					c.Hdrs = append(c.Hdrs, [2]string{"Transfer-Encoding", "chunked"})
					c.BodyStr = fmt.Sprintf("%x\r\n%s\r\n0\r\n\r\n", len(c.BodyStr), c.BodyStr)
				case 2:
					c.Hdrs = append(c.Hdrs, [2]string{"Expect", "100-continue"})
				}
			}
			c.Feed = rapid.IntRange(0, 3).Draw(t, "apiFeed") == 0
		}
		return c
	}
}

// ---- run: subscriber handler and hls handler (L2) -------------------------------------------

func runHttpSub(c HttpCase) *pbt.Violation {
	req, err := c.request()
	if err != nil {
		return nil // refused by net/http itself: never reaches lal
	}
	s := newServer()
	defer s.Close()
	var fd *feed
	if c.Feed {
		var v *pbt.Violation
		if fd, v = startFeed(s); v != nil {
			return v
		}
	}
	cli, srv := memconn.PairAddr("127.0.0.1:40700", "127.0.0.1:8080")
	defer cli.Close()
	h := logic.NewHttpServerHandler(s.SM)
	done := s.Go("http-sub", func() {
		defer srv.MarkDone()
		defer srv.Close()
		h.ServeSubSession(&hijackWriter{conn: srv, hdr: http.Header{}}, req)
	})
	wait := func(d time.Duration) bool {
		select {
		case <-done:
			return true
		case <-time.After(d):
			return false
		}
	}
	if c.Tail != nil {
		_, _ = cli.Write(c.Tail.Bytes())
	}
	cli.WaitPeerIdle(lalclient.IdleTimeout)
	if fd != nil {
		fd.frames(2)
	}
	if v := statSnapshot(s, "c13feed", "c13nobody"); v != nil { // with the hostile http subscriber attached
		return v
	}
	cli.CloseWrite()
	_ = cli.Close()
	if v := waitReturn(s, wait, "logic.(*HttpServerHandler).ServeSubSession", "http-sub"); v != nil {
		return v
	}
	return probe(s, fd)
}

func runHls(c HttpCase) *pbt.Violation {
	req, err := c.request()
	if err != nil {
		return nil
	}
	s := newServer()
	defer s.Close()
	var fd *feed
	if c.Feed {
		var v *pbt.Violation
		if fd, v = startFeed(s); v != nil {
			return v
		}
		fd.frames(30) // > one 500 ms fragment
	}
	key := ""
	if c.HlsSession {
		key = "c13-hash-key"
	}
	h := hlsHandler(s, key)
	rec := httptest.NewRecorder()
	if s.Call("hls", func() { h.ServeHTTP(rec, req) }) {
		return s.PanicViolation()
	}
	// follow a session redirect once, as a player would
	if loc := rec.Header().Get("Location"); loc != "" && rec.Code == http.StatusFound {
		c2 := c
		c2.Target = loc
		if req2, err := c2.request(); err == nil {
			rec2 := httptest.NewRecorder()
			if s.Call("hls", func() { h.ServeHTTP(rec2, req2) }) {
				return s.PanicViolation()
			}
		}
	}
	return probe(s, fd)
}

// hls handlers start a ticker goroutine that lal never stops; one per (process, key, out path) would be ideal, but
// the observer is the per-case manager: create them per case and accept the leaked tickers (bounded by the case count).
func hlsHandler(s *inproc.Server, key string) *hls.ServerHandler {
	return hls.NewServerHandler(s.Cfg.HlsConfig.OutPath, s.Cfg.HlsConfig.UrlPattern, key, 30000, s.SM)
}

// ---- run: lal's real HTTP listener (L3): ServerManager.RunLoop, serveHls / ServeSubSession behind net/http ----------

type l3Env struct {
	s       *inproc.Server
	addr    string
	session bool
	uses    int
	fd      *feed
}

var (
	l3Mu  sync.Mutex
	l3Cur = map[bool]*l3Env{}
)

func l3Get(addr, target string) (status string, err error) {
	conn, err := net.DialTimeout("tcp", addr, 10*time.Second)
	if err != nil {
		return "", err
	}
	defer conn.Close()
	_ = conn.SetDeadline(time.Now().Add(20 * time.Second))
	_, _ = conn.Write([]byte("GET " + target + " HTTP/1.1\r\nHost: " + addr + "\r\nConnection: close\r\n\r\n"))
	line, err := bufio.NewReader(conn).ReadString('\n')
	return line, err
}

// l3Server returns the process' lal instance whose ServerManager.RunLoop serves HLS, HTTP-FLV and HTTP-TS on one
// loopback address (with or without HLS sub-session mode), starting it if necessary.
func l3Server(session bool) (*l3Env, *pbt.Violation) {
	l3Mu.Lock()
	defer l3Mu.Unlock()
	if e := l3Cur[session]; e != nil && e.uses < 100 {
		e.uses++
		return e, nil
	}
	if e := l3Cur[session]; e != nil {
		e.s.Close()
		delete(l3Cur, session)
	}
	for try := 0; try < 8; try++ {
		addr := fmt.Sprintf("127.0.0.1:%d", freePort())
		s := inproc.New(inproc.Config{RtmpGopNum: 1, FlvGopNum: 1, TsGopNum: 1, Hls: true, HlsFragmentMs: 500, Mod: func(lc *logic.Config) {
			lc.HlsConfig.HttpListenAddr = addr
			lc.HttpflvConfig.HttpListenAddr = addr
			lc.HttptsConfig.HttpListenAddr = addr
			// inproc serves flv/ts below "/" and hls below "/hls/": the same patterns work on one address
			if session {
				lc.HlsConfig.SubSessionHashKey = "c13-hash-key"
				lc.HlsConfig.SubSessionTimeoutMs = 30000
			}
		}})
		runErr := make(chan error, 1)
		go func() { runErr <- s.SM.RunLoop() }()
		up := false
		deadline := time.Now().Add(lalclient.IdleTimeout)
	wait:
		for time.Now().Before(deadline) {
			select {
			case <-runErr:
				break wait // a listen failed: another port
			default:
			}
			if line, err := l3Get(addr, "/hls/c13-not-there.m3u8"); err == nil && strings.HasPrefix(line, "HTTP/1.1 ") {
				up = true
				break
			}
			// the plainest possible request may already be what lal's handler cannot take
			if logged := httpLog.take(); strings.Contains(logged, "http: panic serving") {
				if fn := pbt.InnermostLalFrame(logged); fn != "" {
					s.Close()
					return nil, pbt.V("panic@"+fn, "net/http recovered a panic in lal's http handler (real listener) for GET /hls/c13-not-there.m3u8:\n%s", head(logged, 3000))
				}
			}
			time.Sleep(2 * time.Millisecond)
		}
		if !up {
			s.Close()
			continue
		}
		e := &l3Env{s: s, addr: addr, session: session, uses: 1}
		if fd, v := startFeed(s); v == nil {
			e.fd = fd
			fd.frames(30)
		}
		l3Cur[session] = e
		return e, nil
	}
	lalclient.Harness("c13: could not start lal's HTTP listener on loopback")
	return nil, nil
}

func dropL3(session bool) {
	l3Mu.Lock()
	defer l3Mu.Unlock()
	if e := l3Cur[session]; e != nil {
		e.s.Close()
		delete(l3Cur, session)
	}
}

// runL3 sends the raw request to lal's own listener.  Handler panics are recovered by net/http (read from the standard
// logger); a fatal error or a panic in a goroutine lal starts kills the process (Isolate).
func runL3(c HttpCase) *pbt.Violation {
	if _, err := c.request(); err != nil {
		return nil
	}
	httpLog.take()
	e, v := l3Server(c.HlsSession)
	if v != nil {
		return v
	}
	httpLog.take()
	conn, err := net.DialTimeout("tcp", e.addr, 10*time.Second)
	if err != nil {
		dropL3(c.HlsSession)
		lalclient.Harness("c13: dial lal's http listener %s: %v", e.addr, err)
	}
	_, _ = conn.Write(c.raw())
	if c.Tail != nil {
		_, _ = conn.Write(c.Tail.Bytes())
	}
	// an accepted flv/ts subscription streams for ever: read what comes within a moment, then hang up
	_ = conn.SetReadDeadline(time.Now().Add(150 * time.Millisecond))
	resp, _ := io.ReadAll(io.LimitReader(conn, 1<<20))
	_ = conn.Close()
	if bytes.HasPrefix(resp, []byte("HTTP/1.1 302")) {
		// follow a session redirect once, as a player would
		if i := bytes.Index(resp, []byte("Location: ")); i >= 0 {
			loc := string(resp[i+10:])
			if j := strings.IndexAny(loc, "\r\n"); j >= 0 {
				loc = loc[:j]
			}
			_, _ = l3Get(e.addr, loc)
		}
	}
	if e.fd != nil {
		e.fd.frames(1)
	}
	logged := httpLog.take()
	if strings.Contains(logged, "http: panic serving") {
		dropL3(c.HlsSession)
		if fn := pbt.InnermostLalFrame(logged); fn != "" {
			return pbt.V("panic@"+fn, "net/http recovered a panic in lal's http handler (real listener):\n%s", head(logged, 3000))
		}
		lalclient.Harness("c13: panic in lal's http listener without lal frame:\n%s", head(logged, 2000))
	}
	if v := e.s.PanicViolation(); v != nil {
		dropL3(c.HlsSession)
		return v
	}
	// the listener must still answer
	alive := false
	for try := 0; try < 3 && !alive; try++ {
		if line, err := l3Get(e.addr, "/hls/c13-not-there.m3u8"); err == nil && strings.HasPrefix(line, "HTTP/1.1 ") {
			alive = true
		}
	}
	if !alive {
		dropL3(c.HlsSession)
		if stuck, stack := pbt.StuckGoroutine("logic.(*ServerManager).serveHls", 2*time.Second); stuck {
			return pbt.V("http-listener/no-longer-answers", "lal's http listener does not answer any more; a handler is parked:\n%s", head(stack, 2500))
		}
		lalclient.Harness("c13: lal's http listener did not answer the liveness request and no handler is parked (machine too slow?)")
	}
	if e.uses%10 == 0 {
		if v := probe(e.s, e.fd); v != nil {
			dropL3(c.HlsSession)
			return v
		}
	}
	return nil
}

// ---- run: HTTP-API (L3: lal's own net/http server on loopback) -------------------------------

type syncBuf struct {
	mu sync.Mutex
	b  bytes.Buffer
}

func (s *syncBuf) Write(p []byte) (int, error) {
	s.mu.Lock()
	defer s.mu.Unlock()
	return s.b.Write(p)
}
func (s *syncBuf) take() string {
	s.mu.Lock()
	defer s.mu.Unlock()
	out := s.b.String()
	s.b.Reset()
	return out
}

type apiEnv struct {
	s    *inproc.Server
	addr string
	uses int
	fd   *feed
}

var (
	apiMu   sync.Mutex
	apiCur  *apiEnv
	httpLog = &syncBuf{}
)

func init() {
	// net/http reports a panic recovered in a handler goroutine through the standard logger
	log.SetOutput(httpLog)
}

func apiServer() *apiEnv {
	apiMu.Lock()
	defer apiMu.Unlock()
	if apiCur != nil && apiCur.uses < 150 {
		apiCur.uses++
		return apiCur
	}
	if apiCur != nil {
		apiCur.s.Close()
		apiCur = nil
	}
	s := newServer()
	var e *apiEnv
	for try := 0; try < 8 && e == nil; try++ {
		addr := fmt.Sprintf("127.0.0.1:%d", freePort())
		a := logic.NewHttpApiServer(addr, s.SM)
		if err := a.Listen(); err != nil {
			continue
		}
		go func() { _ = a.RunLoop() }()
		e = &apiEnv{s: s, addr: addr}
	}
	if e == nil {
		lalclient.Harness("c13: cannot start the http-api server on loopback")
	}
	if fd, v := startFeed(s); v == nil {
		e.fd = fd
	}
	apiCur = e
	return e
}

func dropApiServer() {
	apiMu.Lock()
	defer apiMu.Unlock()
	if apiCur != nil {
		apiCur.s.Close()
		apiCur = nil
	}
}

func runApi(c HttpCase) *pbt.Violation {
	if _, err := c.request(); err != nil {
		return nil // refused by net/http itself: never reaches lal
	}
	e := apiServer()
	httpLog.take()
	conn, err := net.DialTimeout("tcp", e.addr, 10*time.Second)
	if err != nil {
		dropApiServer()
		lalclient.Harness("c13: dial http-api %s: %v", e.addr, err)
	}
	_ = conn.SetDeadline(time.Now().Add(30 * time.Second))
	_, _ = conn.Write(c.raw())
	if tc, ok := conn.(*net.TCPConn); ok {
		_ = tc.CloseWrite() // a body shorter than its Content-Length ends here instead of keeping the handler waiting
	}
	resp, _ := io.ReadAll(conn)
	_ = conn.Close()
	logged := httpLog.take()
	if strings.Contains(logged, "http: panic serving") {
		dropApiServer()
		if fn := pbt.InnermostLalFrame(logged); fn != "" {
			return pbt.V("panic@"+fn, "net/http recovered a panic in lal's http-api handler:\n%s", head(logged, 3000))
		}
		lalclient.Harness("c13: panic in the http-api server without lal frame:\n%s", head(logged, 2000))
	}
	_ = resp
	if v := e.s.PanicViolation(); v != nil {
		dropApiServer()
		return v
	}
	// the api server must still answer, and the media plane must still relay
	if v := apiAlive(e); v != nil {
		dropApiServer()
		return v
	}
	if e.uses%10 == 0 {
		// (no bystander oracle here: the API is an administrative surface, kick_session may legitimately end the feed)
		if v := probe(e.s, nil); v != nil {
			dropApiServer()
			return v
		}
	}
	return nil
}

func apiAlive(e *apiEnv) *pbt.Violation {
	var lastErr error
	for try := 0; try < 3; try++ {
		conn, err := net.DialTimeout("tcp", e.addr, 10*time.Second)
		if err != nil {
			lastErr = err
			continue
		}
		_ = conn.SetDeadline(time.Now().Add(30 * time.Second))
		_, _ = conn.Write([]byte("GET /api/stat/lal_info HTTP/1.1\r\nHost: x\r\nConnection: close\r\n\r\n"))
		resp, err := io.ReadAll(conn)
		_ = conn.Close()
		if err == nil && bytes.Contains(resp, []byte(`"error_code":0`)) {
			return nil
		}
		lastErr = fmt.Errorf("read %d bytes, err=%v: %q", len(resp), err, head(string(resp), 200))
	}
	// corroborate before calling it a violation: is a handler goroutine parked inside lal?
	if stuck, stack := pbt.StuckGoroutine("logic.(*HttpApiServer)", 2*time.Second); stuck && strings.Contains(stack, "Handler") {
		return pbt.V("api/no-longer-answers", "the http-api server does not answer /api/stat/lal_info any more (%v); a handler is parked:\n%s", lastErr, head(stack, 2500))
	}
	lalclient.Harness("c13: the http-api server did not answer the liveness request (%v) and no handler is parked (machine too slow?)", lastErr)
	return nil
}

func classifyHttp(c HttpCase) (bool, []string) {
	labels := []string{"surface:" + c.Surface, "method:" + strings.ToUpper(c.Method)}
	_, err := c.request()
	if err != nil {
		labels = append(labels, "refused-by-net/http")
	}
	t := c.Target
	switch {
	case strings.Contains(t, "session_id"):
		labels = append(labels, "target:session-id")
	case strings.Contains(t, ".."), strings.Contains(t, "%2e"):
		labels = append(labels, "target:dot-dot")
	case strings.Contains(t, "%zz"), strings.Contains(t, "%."), strings.Contains(t, "%00"):
		labels = append(labels, "target:bad-escape")
	case strings.HasPrefix(t, "http://"):
		labels = append(labels, "target:absolute-form")
	case len(t) > 500:
		labels = append(labels, "target:long")
	}
	switch {
	case strings.Contains(t, ".flv"):
		labels = append(labels, "target:flv")
	case strings.Contains(t, ".m3u8"):
		labels = append(labels, "target:m3u8")
	case strings.Contains(t, ".ts"):
		labels = append(labels, "target:ts")
	}
	if c.Surface == "api" {
		p := t
		if i := strings.IndexByte(p, '?'); i >= 0 {
			p = p[:i]
		}
		labels = append(labels, "api:"+p)
		if c.Label != "" {
			labels = append(labels, "json:"+c.Label)
		}
	}
	if c.Host != "127.0.0.1:8080" {
		labels = append(labels, "host:odd")
	}
	for _, h := range c.Hdrs {
		if strings.EqualFold(h[0], "Upgrade") {
			labels = append(labels, "hdr:upgrade")
		}
		if strings.EqualFold(h[0], "Transfer-Encoding") {
			labels = append(labels, "hdr:chunked")
		}
	}
	if c.Tail != nil {
		labels = append(labels, "sub:peer-sends-bytes")
	}
	if c.HlsSession {
		labels = append(labels, "hls:session-mode")
	}
	if c.Feed {
		labels = append(labels, "with-feed")
	}
	return err == nil, uniq(labels)
}

func TestHttpSubRequest(t *testing.T) {
	resetNotes()
	pbt.Run(t, pbt.Spec[HttpCase]{
		ID: "C13", Name: "http-flv-ts-request", Gen: genHttpCase("sub"), Run: runHttpSub, Classify: classifyHttp, Isolate: true,
		Quick: 50, Thorough: 700,
	})
}

func TestHlsRequest(t *testing.T) {
	resetNotes()
	pbt.Run(t, pbt.Spec[HttpCase]{
		ID: "C13", Name: "hls-request", Gen: genHttpCase("hls"), Run: runHls, Classify: classifyHttp, Isolate: true,
		Quick: 40, Thorough: 700,
	})
}

func TestHttpApiRequest(t *testing.T) {
	resetNotes()
	pbt.Run(t, pbt.Spec[HttpCase]{
		ID: "C13", Name: "http-api-request", Gen: genHttpCase("api"), Run: runApi, Classify: classifyHttp, Isolate: true,
		Quick: 300, Thorough: 2000,
	})
}

func TestHttpListener(t *testing.T) {
	resetNotes()
	pbt.Run(t, pbt.Spec[HttpCase]{
		ID: "C13", Name: "http-listener-request", Gen: genHttpCase("l3"), Run: runL3, Classify: classifyHttp, Isolate: true,
		Quick: 50, Thorough: 400,
	})
}
