package c13

import (
	"bytes"
	"encoding/base64"
	"fmt"
	"net"
	"regexp"
	"strings"
	"testing"
	"time"

	"pgregory.net/rapid"

	"verif/drv/pbt"
	"verif/gen"
	"verif/harness/inproc"
	"verif/harness/lalclient"
	"verif/harness/memconn"
	"verif/ref/rtspref"
)

// ---- case ------------------------------------------------------------------------------

// SdpTrack is one media section, rendered by the reference SDP builder and
// then degraded by the hostile switches.
type SdpTrack struct {
	Media    string `json:"media"` // video | audio | application | ""
	PT       int    `json:"pt"`
	Enc      string `json:"enc"`
	Clock    int    `json:"clock"`
	Chan     int    `json:"chan,omitempty"`
	NoRtpmap bool   `json:"no_rtpmap,omitempty"`
	RtpmapPT int    `json:"rtpmap_pt,omitempty"` // != 0: the rtpmap names another payload type than m=
	Fmtp     string `json:"fmtp,omitempty"`      // parameters ("" = no fmtp line)
	FmtpPad  int    `json:"fmtp_pad,omitempty"`  // > 0: a filler parameter of this many octets is appended (huge fmtp)
	FmtpFold bool   `json:"fmtp_fold,omitempty"` // fmtp continued on a second line without "a=" (seen in the wild; lal has a second pass for it)
	Control  string `json:"control"`
	FmtpKind string `json:"fmtp_kind,omitempty"` // label only
}

type Sdp struct {
	Tracks   []SdpTrack `json:"tracks"`
	DropLine int        `json:"drop_line"` // >= 0: this line (mod count) is removed
	DupLine  int        `json:"dup_line"`  // >= 0: this line (mod count) is duplicated
	LF       bool       `json:"lf,omitempty"`
	Extra    string     `json:"extra,omitempty"` // raw line inserted after the first media line
}

func (s Sdp) Bytes() []byte {
	var lines []string
	lines = append(lines, "v=0", "o=- 0 0 IN IP4 127.0.0.1", "s=c13", "c=IN IP4 127.0.0.1", "t=0 0", "a=tool:verif-c13")
	for i, t := range s.Tracks {
		lines = append(lines, fmt.Sprintf("m=%s 0 RTP/AVP %d", t.Media, t.PT))
		if i == 0 && s.Extra != "" {
			lines = append(lines, s.Extra)
		}
		if !t.NoRtpmap {
			pt := t.PT
			if t.RtpmapPT != 0 {
				pt = t.RtpmapPT
			}
			if t.Chan > 0 {
				lines = append(lines, fmt.Sprintf("a=rtpmap:%d %s/%d/%d", pt, t.Enc, t.Clock, t.Chan))
			} else {
				lines = append(lines, fmt.Sprintf("a=rtpmap:%d %s/%d", pt, t.Enc, t.Clock))
			}
		}
		if t.Fmtp != "" || t.FmtpPad > 0 {
			f := t.Fmtp
			if t.FmtpPad > 0 {
				if f != "" {
					f += "; "
				}
				f += "x-pad=" + strings.Repeat("A", t.FmtpPad)
			}
			l := fmt.Sprintf("a=fmtp:%d %s", t.PT, f)
			if t.FmtpFold && len(l) > 20 {
				lines = append(lines, l[:len(l)/2], l[len(l)/2:])
			} else {
				lines = append(lines, l)
			}
		}
		if t.Control != "" {
			lines = append(lines, "a=control:"+t.Control)
		}
	}
	if s.DropLine >= 0 && len(lines) > 0 {
		i := s.DropLine % len(lines)
		lines = append(lines[:i:i], lines[i+1:]...)
	}
	if s.DupLine >= 0 && len(lines) > 0 {
		i := s.DupLine % len(lines)
		lines = append(lines[:i+1:i+1], lines[i:]...)
	}
	sep := "\r\n"
	if s.LF {
		sep = "\n"
	}
	return []byte(strings.Join(lines, sep) + sep)
}

// Req is one RTSP request.
type Req struct {
	Method string      `json:"method"`
	Uri    string      `json:"uri"`
	Ver    string      `json:"ver,omitempty"` // "" = RTSP/1.0
	Hdrs   [][2]string `json:"hdrs,omitempty"`
	Sdp    *Sdp        `json:"sdp,omitempty"`
	Body   *Blob       `json:"body,omitempty"`
	// CL: "" = correct Content-Length when there is a body; "none" = no header; otherwise the literal value
	CL string `json:"cl,omitempty"`
	// RawLine replaces the request line when non-empty
	RawLine string `json:"raw_line,omitempty"`
}

func (r Req) Bytes(cseq int) []byte {
	var b strings.Builder
	if r.RawLine != "" {
		b.WriteString(r.RawLine + "\r\n")
	} else {
		v := r.Ver
		if v == "" {
			v = "RTSP/1.0"
		}
		fmt.Fprintf(&b, "%s %s %s\r\n", r.Method, r.Uri, v)
	}
	hasCSeq := false
	for _, h := range r.Hdrs {
		if strings.EqualFold(h[0], "CSeq") {
			hasCSeq = true
		}
	}
	if !hasCSeq {
		fmt.Fprintf(&b, "CSeq: %d\r\n", cseq)
	}
	for _, h := range r.Hdrs {
		if h[1] == "\x00nocolon" {
			b.WriteString(h[0] + "\r\n")
			continue
		}
		fmt.Fprintf(&b, "%s: %s\r\n", h[0], h[1])
	}
	var body []byte
	if r.Sdp != nil {
		body = r.Sdp.Bytes()
	} else if r.Body != nil {
		body = r.Body.Bytes()
	}
	switch r.CL {
	case "":
		if len(body) > 0 {
			fmt.Fprintf(&b, "Content-Length: %d\r\n", len(body))
		}
	case "none":
	default:
		fmt.Fprintf(&b, "Content-Length: %s\r\n", r.CL)
	}
	b.WriteString("\r\n")
	return append([]byte(b.String()), body...)
}

// Frame is one interleaved binary frame.
type Frame struct {
	Chan    int       `json:"chan"`
	Rtp     *RtpSpec  `json:"rtp,omitempty"`
	Rtcp    *RtcpSpec `json:"rtcp,omitempty"`
	Raw     *Blob     `json:"raw,omitempty"`
	DeclLen int       `json:"decl_len"` // -1: the true length; else the length field lies
}

func (f Frame) payload() []byte {
	switch {
	case f.Rtp != nil:
		return f.Rtp.Bytes()
	case f.Rtcp != nil:
		return f.Rtcp.Bytes()
	case f.Raw != nil:
		return f.Raw.Bytes()
	}
	return nil
}

func (f Frame) Bytes() []byte {
	p := f.payload()
	n := len(p)
	if f.DeclLen >= 0 {
		n = f.DeclLen
	}
	out := []byte{'$', byte(f.Chan), byte(n >> 8), byte(n)}
	return append(out, p...)
}

// Step is one hostile element sent after the valid prefix.
type Step struct {
	Req   *Req   `json:"req,omitempty"`
	Frame *Frame `json:"frame,omitempty"`
	Raw   *Blob  `json:"raw,omitempty"`
}

// RtspCase: a valid prefix up to Stage, then Steps, mutated.
type RtspCase struct {
	// Stage reached by the valid prefix:
	//   none | options | announced | setup | recording   (publisher side)
	//   described | subsetup | playing                   (subscriber side; a healthy RTMP feed publishes the stream)
	Stage string `json:"stage"`
	Video string `json:"video"`         // codec of the valid announce: avc | hevc | ""
	Audio string `json:"audio"`         // aac | pcma | pcmu | opus | ""
	Udp   bool   `json:"udp,omitempty"` // the valid SETUPs ask for UDP transport (lal opens RTP/RTCP sockets)
	// UdpMix (with Udp): 0 = every track over UDP; 1 = only the first track over UDP, the others interleaved;
	// 2 = the first track interleaved, the others over UDP
	UdpMix int `json:"udp_mix,omitempty"`
	// PrefixSdp (publisher side): the valid ANNOUNCE carries this session description instead of the reference one.
	// It is hostile but accepted by construction (genAcceptedSdp): the hostile RTP that follows takes its payload
	// types, codecs and channels from it, so that the chain "odd SDP parameter -> unpacker state -> packet" is reached
	PrefixSdp *Sdp   `json:"prefix_sdp,omitempty"`
	Steps     []Step `json:"steps"`
	Mut       Mut    `json:"mut"`
	// Ticks / TicksAfter: tick counts handed to ServerManager.VerifTick (what RunLoop's one-second ticker does) while the
	// hostile session is half-open: after the valid prefix, and after the hostile tail before the peer's EOF.
	// Multiples of 120 run the alive check (two in a row without traffic make lal dispose the session)
	Ticks      []uint32 `json:"ticks,omitempty"`
	TicksAfter []uint32 `json:"ticks_after,omitempty"`
	// FeedAfter: frames the healthy feed publishes after the hostile bytes were delivered (subscriber stages)
	FeedAfter int   `json:"feed_after,omitempty"`
	Slices    []int `json:"slices,omitempty"`
	// Flood (publisher side, after Steps): a sequence-number gap on one track, Cached packets held back behind it,
	// then the missing packet, then further packets: the reorder list (capacity 1024) and the A/V interleave queue
	// (capacity 128) at and beyond their limits
	Flood *RtspFlood `json:"flood,omitempty"`
	// Repeat > 0 (regression corpus only): the exchange is repeated on that many further fresh servers, to give a
	// scheduling-dependent failure (lal hands the publisher's SDP to the group in a goroutine of its own) a chance
	Repeat int `json:"repeat,omitempty"`
	// ForceRepublish (regression corpus only): re-publish the hostile stream name afterwards whatever the case's key
	ForceRepublish bool `json:"force_republish,omitempty"`

	trackOverride []trackInfo // client-role cases: the tracks as lal's client numbers them
}

// RtspFlood: on track Track, packet F, then Cached packets F+2.. (payload Kind), then F+1 (payload Gap; "" = never
// sent), then one packet per entry of Then at F+Then[i].
type RtspFlood struct {
	Track  int    `json:"track"`
	Cached int    `json:"cached"`
	Kind   string `json:"kind"` // hex payload of the cached packets
	Gap    string `json:"gap"`  // hex payload of the gap packet ("none" = never sent)
	Then   []int  `json:"then,omitempty"`
	SameTs bool   `json:"same_ts,omitempty"`
}

func (c *RtspCase) floodBytes() []byte {
	f := c.Flood
	trs := c.tracks()
	if f == nil || len(trs) == 0 {
		return nil
	}
	tr := trs[f.Track%len(trs)]
	var out []byte
	pk := func(seq uint16, ts uint32, hexPayload string) {
		r := RtpSpec{Ver: 2, PT: tr.pt, Seq: seq, TS: ts, SSRC: 0xf100d, CutTo: -1, Payload: Blob{Hex: hexPayload}}
		out = append(out, Frame{Chan: tr.ch, Rtp: &r, DeclLen: -1}.Bytes()...)
	}
	first := uint16(20000)
	ts := func(i int) uint32 {
		if f.SameTs {
			return 5000000
		}
		return 5000000 + uint32(i)*3000
	}
	pk(first, ts(0), f.Kind)
	for i := 0; i < f.Cached; i++ {
		pk(first+2+uint16(i), ts(i+2), f.Kind)
	}
	if f.Gap != "none" {
		pk(first+1, ts(1), f.Gap)
	}
	for _, d := range f.Then {
		pk(first+uint16(d), ts(d), f.Kind)
	}
	return out
}

const hostileUri = "rtsp://127.0.0.1:5544/live/c13hostile"
const feedUri = "rtsp://127.0.0.1:5544/live/c13feed"

func (c *RtspCase) uri() string {
	if c.subscriberSide() {
		return feedUri
	}
	return hostileUri
}

// udpTrack reports whether the valid SETUP of track i asks for UDP transport.
func (c *RtspCase) udpTrack(i int) bool {
	if !c.Udp {
		return false
	}
	switch c.UdpMix {
	case 1:
		return i == 0
	case 2:
		return i != 0
	}
	return true
}

func (c *RtspCase) subscriberSide() bool {
	return c.Stage == "described" || c.Stage == "subsetup" || c.Stage == "playing"
}

// validTracks is the SDP of the valid ANNOUNCE.
func validTracks(video, audio string) []rtspref.Track {
	var ts []rtspref.Track
	switch video {
	case "avc":
		_, sps, pps := gen.ParamSets("avc", 0)
		ts = append(ts, rtspref.Track{Media: "video", PT: 96, Encoding: "H264", ClockRate: 90000, Fmtp: rtspref.H264Fmtp(sps, pps), Control: "streamid=0"})
	case "hevc":
		vps, sps, pps := gen.ParamSets("hevc", 0)
		ts = append(ts, rtspref.Track{Media: "video", PT: 98, Encoding: "H265", ClockRate: 90000, Fmtp: rtspref.H265Fmtp(vps, sps, pps), Control: "streamid=0"})
	}
	switch audio {
	case "aac":
		ts = append(ts, rtspref.Track{Media: "audio", PT: 97, Encoding: "MPEG4-GENERIC", ClockRate: 44100, Channels: 2, Fmtp: rtspref.AacFmtp(gen.Asc(2, 4, 2)), Control: "streamid=1"})
	case "pcma":
		ts = append(ts, rtspref.Track{Media: "audio", PT: 8, Encoding: "PCMA", ClockRate: 8000, Channels: 1, Control: "streamid=1"})
	case "pcmu":
		ts = append(ts, rtspref.Track{Media: "audio", PT: 0, Encoding: "PCMU", ClockRate: 8000, Channels: 1, Control: "streamid=1"})
	case "opus":
		ts = append(ts, rtspref.Track{Media: "audio", PT: 111, Encoding: "opus", ClockRate: 48000, Channels: 2, Control: "streamid=1"})
	}
	return ts
}

// sdpCodec is the codec lal unpacks a track of an accepted session description as.
func sdpCodec(tr SdpTrack) string {
	switch tr.Media {
	case "video":
		switch tr.Enc {
		case "H264":
			return "avc"
		case "H265":
			return "hevc"
		}
	case "audio":
		switch {
		case strings.EqualFold(tr.Enc, "MPEG4-GENERIC"):
			return "aac"
		case strings.EqualFold(tr.Enc, "PCMA"):
			return "pcma"
		case strings.EqualFold(tr.Enc, "PCMU"):
			return "pcmu"
		case strings.EqualFold(tr.Enc, "opus"):
			return "opus"
		case tr.PT == 8: // a name lal does not know (or none): it falls back on the static payload type
			return "pcma"
		case tr.PT == 0:
			return "pcmu"
		}
	}
	return "raw"
}

// sdpTracks: track i of the description is set up on channels 2i / 2i+1.
func sdpTracks(sd *Sdp) []trackInfo {
	var out []trackInfo
	for i, tr := range sd.Tracks {
		out = append(out, trackInfo{codec: sdpCodec(tr), pt: tr.PT & 0x7f, ch: 2 * i})
	}
	return out
}

func setupUri(base, control string) string {
	if strings.HasPrefix(control, "rtsp://") {
		return control
	}
	return base + "/" + control
}

// prefixControls: the a=control values of the valid ANNOUNCE, in SETUP order.
func (c *RtspCase) prefixControls() []string {
	var out []string
	if c.PrefixSdp != nil {
		for _, tr := range c.PrefixSdp.Tracks {
			out = append(out, tr.Control)
		}
		return out
	}
	for _, tr := range validTracks(c.Video, c.Audio) {
		out = append(out, tr.Control)
	}
	return out
}

// tracks returns what the hostile frames can aim at after the valid prefix.
func (c *RtspCase) tracks() []trackInfo {
	var out []trackInfo
	if c.trackOverride != nil {
		return c.trackOverride
	}
	if c.PrefixSdp != nil && !c.subscriberSide() {
		return sdpTracks(c.PrefixSdp)
	}
	if c.subscriberSide() {
		// the feed publishes avc + aac; lal's SDP: video pt 96 streamid=0, audio pt 97 streamid=1
		return []trackInfo{{codec: "avc", pt: 96, ch: 0}, {codec: "aac", pt: 97, ch: 2}}
	}
	for i, t := range validTracks(c.Video, c.Audio) {
		codec := c.Audio
		if t.Media == "video" {
			codec = c.Video
		}
		out = append(out, trackInfo{codec: codec, pt: t.PT, ch: 2 * i})
	}
	return out
}

func reqBytes(cseq *int, method, uri string, hdrs [][2]string, body []byte) []byte {
	*cseq++
	r := Req{Method: method, Uri: uri, Hdrs: hdrs}
	if body != nil {
		r.Body = &Blob{Hex: fmt.Sprintf("%x", body)}
	}
	return r.Bytes(*cseq)
}

// prefix renders the valid exchange up to c.Stage.
func (c *RtspCase) prefix(cseq *int) []byte {
	var out []byte
	uri := c.uri()
	add := func(method, u string, hdrs [][2]string, body []byte) {
		out = append(out, reqBytes(cseq, method, u, hdrs, body)...)
	}
	transport := func(i int, record bool) string {
		t := fmt.Sprintf("RTP/AVP/TCP;unicast;interleaved=%d-%d", 2*i, 2*i+1)
		if c.udpTrack(i) {
			t = fmt.Sprintf("RTP/AVP/UDP;unicast;client_port=%d-%d", 41000+2*i, 41001+2*i)
		}
		if record {
			t += ";mode=record"
		}
		return t
	}
	switch c.Stage {
	case "none":
		return nil
	case "options":
		add("OPTIONS", uri, nil, nil)
	case "announced", "setup", "recording":
		add("OPTIONS", uri, nil, nil)
		body := rtspref.BuildSdp(validTracks(c.Video, c.Audio))
		if c.PrefixSdp != nil {
			body = c.PrefixSdp.Bytes()
		}
		add("ANNOUNCE", uri, [][2]string{{"Content-Type", "application/sdp"}}, body)
		if c.Stage == "announced" {
			break
		}
		for i, ctl := range c.prefixControls() {
			add("SETUP", setupUri(uri, ctl), [][2]string{{"Transport", transport(i, true)}}, nil)
		}
		if c.Stage == "recording" {
			add("RECORD", uri, [][2]string{{"Range", "npt=0.000-"}}, nil)
		}
	case "described", "subsetup", "playing":
		add("OPTIONS", uri, nil, nil)
		add("DESCRIBE", uri, [][2]string{{"Accept", "application/sdp"}}, nil)
		if c.Stage == "described" {
			break
		}
		for i := 0; i < 2; i++ {
			add("SETUP", fmt.Sprintf("%s/streamid=%d", uri, i), [][2]string{{"Transport", transport(i, false)}}, nil)
		}
		if c.Stage == "playing" {
			add("PLAY", uri, [][2]string{{"Range", "npt=0.000-"}}, nil)
		}
	default:
		panic(pbt.HarnessError{Msg: "c13: unknown rtsp stage " + c.Stage})
	}
	return out
}

func (c *RtspCase) tail(cseq *int) []byte {
	var out []byte
	for _, st := range c.Steps {
		switch {
		case st.Req != nil:
			*cseq++
			out = append(out, st.Req.Bytes(*cseq)...)
		case st.Frame != nil:
			out = append(out, st.Frame.Bytes()...)
		case st.Raw != nil:
			out = append(out, st.Raw.Bytes()...)
		}
	}
	out = c.Mut.apply(out)
	if !c.subscriberSide() {
		out = append(out, c.floodBytes()...)
	}
	return out
}

// ---- generators ---------------------------------------------------------------------

func b64(b []byte) string { return base64.StdEncoding.EncodeToString(b) }

func genSdpTrack(t *rapid.T, i int) SdpTrack {
	var tr SdpTrack
	tr.Control = rapid.SampledFrom([]string{"streamid=0", "streamid=1", "streamid=0", "trackID=1", "", "*", "rtsp://127.0.0.1:5544/live/c13hostile/streamid=0", "/"}).Draw(t, "control")
	if i == 1 && tr.Control == "streamid=0" {
		tr.Control = "streamid=1"
	}
	tr.Clock = rapid.OneOf(rapid.IntRange(0, 999), rapid.SampledFrom([]int{90000, 44100, 48000, 8000, 0, 1, 999, 1000, -1, 2147483647})).Draw(t, "clock")
	switch rapid.IntRange(0, 9).Draw(t, "codec") {
	case 0, 1, 2:
		_, sps, pps := gen.ParamSets("avc", 0)
		tr.Media, tr.PT, tr.Enc = "video", 96, "H264"
		tr.FmtpKind = rapid.SampledFrom([]string{"valid", "valid", "none", "no-sets", "one-set", "empty-sets", "bad-b64", "no-kv", "empty-value", "short-sps"}).Draw(t, "avcFmtp")
		switch tr.FmtpKind {
		case "valid":
			tr.Fmtp = rtspref.H264Fmtp(sps, pps)
		case "no-sets":
			tr.Fmtp = "packetization-mode=1"
		case "one-set":
			tr.Fmtp = "packetization-mode=1; sprop-parameter-sets=" + b64(sps)
		case "empty-sets":
			tr.Fmtp = "sprop-parameter-sets=,"
		case "bad-b64":
			tr.Fmtp = "sprop-parameter-sets=@@@@,%%%%"
		case "no-kv":
			tr.Fmtp = "packetization-mode"
		case "empty-value":
			tr.Fmtp = "sprop-parameter-sets="
		case "short-sps":
			tr.Fmtp = "sprop-parameter-sets=" + b64(sps[:rapid.IntRange(0, 4).Draw(t, "spsCut")]) + "," + b64(pps[:1])
		}
	case 3, 4:
		vps, sps, pps := gen.ParamSets("hevc", 0)
		tr.Media, tr.PT, tr.Enc = "video", 98, "H265"
		tr.FmtpKind = rapid.SampledFrom([]string{"valid", "valid", "none", "no-vps", "short-sets", "empty-sets", "bad-b64"}).Draw(t, "hevcFmtp")
		switch tr.FmtpKind {
		case "valid":
			tr.Fmtp = rtspref.H265Fmtp(vps, sps, pps)
		case "no-vps":
			tr.Fmtp = "sprop-sps=" + b64(sps) + "; sprop-pps=" + b64(pps)
		case "short-sets":
			n := rapid.IntRange(0, 6).Draw(t, "hevcCut")
			cut := func(b []byte) []byte {
				if n < len(b) {
					return b[:n]
				}
				return b
			}
			tr.Fmtp = rtspref.H265Fmtp(append([]byte{0x40}, cut(vps[1:])...), append([]byte{0x42}, cut(sps[1:])...), append([]byte{0x44}, cut(pps[1:])...))
		case "empty-sets":
			tr.Fmtp = "sprop-vps=; sprop-sps=; sprop-pps="
		case "bad-b64":
			tr.Fmtp = "sprop-vps=@; sprop-sps=@; sprop-pps=@"
		}
	case 5, 6:
		tr.Media, tr.PT, tr.Enc, tr.Chan = "audio", 97, rapid.SampledFrom([]string{"MPEG4-GENERIC", "mpeg4-generic"}).Draw(t, "aacName"), 2
		tr.FmtpKind = rapid.SampledFrom([]string{"valid", "valid", "none", "no-config", "config-1B", "config-odd", "config-nothex", "config-long", "config-empty"}).Draw(t, "aacFmtp")
		switch tr.FmtpKind {
		case "valid":
			tr.Fmtp = rtspref.AacFmtp(gen.Asc(2, rapid.IntRange(0, 15).Draw(t, "freqIdx"), rapid.IntRange(0, 15).Draw(t, "chanCfg")))
		case "no-config":
			tr.Fmtp = "profile-level-id=1;mode=AAC-hbr;sizelength=13;indexlength=3;indexdeltalength=3"
		case "config-1B":
			tr.Fmtp = "mode=AAC-hbr; config=12"
		case "config-odd":
			tr.Fmtp = "mode=AAC-hbr; config=12100"
		case "config-nothex":
			tr.Fmtp = "mode=AAC-hbr; config=zzzz"
		case "config-long":
			tr.Fmtp = "mode=AAC-hbr; config=" + strings.Repeat("f8", 40)
		case "config-empty":
			tr.Fmtp = "mode=AAC-hbr; config="
		}
	case 7:
		tr.Media, tr.Chan = "audio", 1
		k := rapid.SampledFrom([][2]interface{}{{"PCMA", 8}, {"PCMU", 0}, {"opus", 111}, {"pcma", 8}}).Draw(t, "rawAudio")
		tr.Enc, tr.PT = k[0].(string), k[1].(int)
	case 8:
		// static payload types without a usable rtpmap: lal falls back on m='s payload type
		tr.Media = "audio"
		tr.Media = rapid.SampledFrom([]string{"audio", "audio", "video"}).Draw(t, "staticMedia")
		tr.PT = staticPtGen.Draw(t, "staticPt")
		tr.Enc = rapid.SampledFrom([]string{staticPtNames[tr.PT], staticPtNames[tr.PT], "L16", "MPA", "", "G722", "X-UNKNOWN"}).Draw(t, "staticEnc")
		tr.NoRtpmap = tr.Enc == "" || rapid.Bool().Draw(t, "staticNoRtpmap")
	default:
		tr.Media = rapid.SampledFrom([]string{"video", "audio", "application", "text", ""}).Draw(t, "unknownMedia")
		tr.PT = rapid.SampledFrom([]int{96, 97, 35, 127, 128, -1, 99999}).Draw(t, "unknownPt")
		tr.Enc = rapid.SampledFrom([]string{"VP8", "AV1", "JPEG", "MP4V-ES", "vnd.onvif.metadata", "H264/", "", "H264-SVC"}).Draw(t, "unknownEnc")
		tr.Fmtp = rapid.SampledFrom([]string{"", "a=b", "config=1210", "sprop-parameter-sets=Z0LAHg==,aM48gA=="}).Draw(t, "unknownFmtp")
	}
	switch rapid.IntRange(0, 11).Draw(t, "trackMut") {
	case 0:
		tr.NoRtpmap = true
	case 1:
		tr.RtpmapPT = rapid.SampledFrom([]int{1, 96, 97, 127}).Draw(t, "rtpmapPt")
	case 2:
		tr.FmtpPad = rapid.SampledFrom([]int{1000, 70000, 300000}).Draw(t, "fmtpPad")
	case 3:
		tr.FmtpFold = true
	}
	return tr
}

func genSdp(t *rapid.T) *Sdp {
	s := &Sdp{DropLine: -1, DupLine: -1}
	n := rapid.SampledFrom([]int{0, 1, 1, 2, 2, 2, 3}).Draw(t, "ntracks")
	for i := 0; i < n; i++ {
		s.Tracks = append(s.Tracks, genSdpTrack(t, i))
	}
	switch rapid.IntRange(0, 9).Draw(t, "sdpMut") {
	case 0:
		s.DropLine = rapid.IntRange(0, 40).Draw(t, "dropLine")
	case 1:
		s.DupLine = rapid.IntRange(0, 40).Draw(t, "dupLine")
	case 2:
		s.LF = true
	case 3:
		s.Extra = rapid.SampledFrom([]string{"a=rtpmap", "a=rtpmap:", "a=rtpmap:96", "a=rtpmap:96 ", "a=rtpmap:x H264/90000", "a=rtpmap:96 H264", "a=rtpmap:96 H264/", "a=rtpmap:96 H264/x",
			"a=fmtp", "a=fmtp:", "a=fmtp:96", "a=fmtp:96 ", "a=fmtp:x a=b", "a=fmtp:96 ;", "a=fmtp:96 ;;;", "a=fmtp:96 =", "a=control", "a=controlx", "m=", "m=video", "m=video 0 RTP/AVP", "m=video 0 RTP/AVP x",
			"a=rtpmap:96 H264/90000/", "a=fmtp:96 a=b;c"}).Draw(t, "extraLine")
	}
	return s
}

// staticPtNames: the encoding names of the static payload types of RFC 3551 (table 4 and 5).
var staticPtNames = map[int]string{0: "PCMU", 3: "GSM", 4: "G723", 5: "DVI4", 6: "DVI4", 7: "LPC", 8: "PCMA", 9: "G722", 10: "L16", 11: "L16", 12: "QCELP", 13: "CN",
	14: "MPA", 15: "G728", 16: "DVI4", 17: "DVI4", 18: "G729", 25: "CelB", 26: "JPEG", 28: "nv", 31: "H261", 32: "MPV", 33: "MP2T", 34: "H263"}

// every static payload type, with more weight on the three lal has a special case for (PCMU, PCMA, MPA)
var staticPtGen = rapid.OneOf(rapid.IntRange(0, 34), rapid.SampledFrom([]int{0, 8, 14, 14}))

// genOddPayloadType fills in a media line whose payload type / encoding name lal has no unpacker for, or which
// contradict each other: every static payload type 0..34 with and without rtpmap, names lal does not know, name /
// payload type mismatches, payload types above 127.  lal accepts all of them (a track without unpacker).
func genOddPayloadType(t *rapid.T, tr *SdpTrack) {
	switch rapid.IntRange(0, 3).Draw(t, "oddPtKind") {
	case 0: // static payload type, no rtpmap
		tr.PT = staticPtGen.Draw(t, "oddStaticPt")
		tr.NoRtpmap = true
		tr.FmtpKind = "acc-static-pt-no-rtpmap"
	case 1: // static payload type with its registered name, or a name lal does not know
		tr.PT = staticPtGen.Draw(t, "oddStaticPt")
		tr.Enc = staticPtNames[tr.PT]
		if tr.Enc == "" || rapid.IntRange(0, 3).Draw(t, "oddUnknownName") == 0 {
			tr.Enc = rapid.SampledFrom([]string{"X-UNKNOWN", "VP8", "AV1", "speex", "telephone-event", "MP4V-ES", "H264-SVC"}).Draw(t, "oddName")
		}
		tr.FmtpKind = "acc-static-pt-with-rtpmap"
	case 2: // payload type and encoding name contradict each other
		tr.PT = rapid.SampledFrom([]int{0, 8, 14, 26, 33, 96, 97}).Draw(t, "oddMismatchPt")
		tr.Enc = rapid.SampledFrom([]string{"H264", "H265", "PCMA", "PCMU", "MPEG4-GENERIC", "opus", "MPA"}).Draw(t, "oddMismatchName")
		if tr.Enc == "MPEG4-GENERIC" && rapid.Bool().Draw(t, "oddAacConfig") {
			tr.Fmtp = "mode=AAC-hbr; config=1210"
		}
		tr.FmtpKind = "acc-pt-name-mismatch"
	default: // payload type that does not fit the 7 bits of an rtp header
		tr.PT = rapid.SampledFrom([]int{128, 200, 255, 256, 1000, 99999}).Draw(t, "oddBigPt")
		tr.Enc = rapid.SampledFrom([]string{"H264", "PCMA", "MPEG4-GENERIC", "MPA", "X-UNKNOWN"}).Draw(t, "oddBigName")
		tr.FmtpKind = "acc-pt-above-127"
	}
	if tr.Chan == 0 && tr.Media == "audio" {
		tr.Chan = rapid.SampledFrom([]int{0, 1, 2}).Draw(t, "oddChan")
	}
}

// genAcceptedSdp draws a session description that lal accepts (every line parses, every track gets its SETUP answered)
// although its parameters are odd: clock rates 0..999 and extremes, any payload types (also the same for both tracks),
// case variants of the encoding names, parameter sets that are short / empty / garbage / huge, AudioSpecificConfigs with
// escape values, AU-header size parameters other than 13/3/3, static payload types without rtpmap.
func genAcceptedSdp(t *rapid.T) *Sdp {
	sd := &Sdp{DropLine: -1, DupLine: -1}
	order := rapid.SampledFrom([]string{"va", "va", "av", "v", "a"}).Draw(t, "accOrder")
	ctl := rapid.SampledFrom([][2]string{{"streamid=0", "streamid=1"}, {"trackID=1", "trackID=2"}, {"video", "audio"},
		{hostileUri + "/v", hostileUri + "/a"}, {"streamid=0?x=1", "streamid=1?x=1"}}).Draw(t, "accControls")
	clock := rapid.OneOf(rapid.IntRange(0, 999), rapid.SampledFrom([]int{0, 1, 999, 1000, 8000, 11025, 44100, 48000, 90000, 2147483647, -1}))
	vpt := rapid.SampledFrom([]int{96, 98, 35, 127, 0, 8}).Draw(t, "accVideoPt")
	apt := rapid.SampledFrom([]int{97, 111, 8, 0, 127, 96}).Draw(t, "accAudioPt")
	if rapid.IntRange(0, 7).Draw(t, "accSamePt") == 0 {
		apt = vpt
	}
	for _, k := range order {
		tr := SdpTrack{Clock: clock.Draw(t, "accClock")}
		if k == 'v' {
			tr.Media, tr.PT, tr.Control = "video", vpt, ctl[0]
			if rapid.IntRange(0, 3).Draw(t, "accOddVideo") == 0 {
				genOddPayloadType(t, &tr)
			} else if rapid.Bool().Draw(t, "accHevc") {
				vps, sps, pps := gen.ParamSets("hevc", 0)
				tr.Enc = "H265"
				tr.FmtpKind = rapid.SampledFrom([]string{"acc-valid", "acc-valid", "acc-none", "acc-no-vps", "acc-short-sets", "acc-empty-sets", "acc-garbage-sets", "acc-huge-sps"}).Draw(t, "accHevcFmtp")
				switch tr.FmtpKind {
				case "acc-valid":
					tr.Fmtp = rtspref.H265Fmtp(vps, sps, pps) + "; sprop-max-don-diff=0"
				case "acc-no-vps":
					tr.Fmtp = "sprop-sps=" + b64(sps) + "; sprop-pps=" + b64(pps)
				case "acc-short-sets":
					n := rapid.IntRange(0, 6).Draw(t, "accHevcCut")
					cut := func(b []byte) []byte {
						if n < len(b) {
							return b[:n]
						}
						return b
					}
					tr.Fmtp = rtspref.H265Fmtp(cut(vps), cut(sps), cut(pps))
				case "acc-empty-sets":
					tr.Fmtp = "sprop-vps=; sprop-sps=; sprop-pps="
				case "acc-garbage-sets":
					g := gen.Bytes(rapid.Uint32Range(0, 50).Draw(t, "accGarbageSeed"), rapid.SampledFrom([]int{1, 2, 3, 8, 40}).Draw(t, "accGarbageLen"))
					tr.Fmtp = rtspref.H265Fmtp(append([]byte{0x40, 1}, g...), append([]byte{0x42, 1}, g...), append([]byte{0x44, 1}, g...))
				case "acc-huge-sps":
					tr.Fmtp = rtspref.H265Fmtp(vps, append(append([]byte{}, sps...), gen.Bytes(3, 3000)...), pps)
				}
			} else {
				_, sps, pps := gen.ParamSets("avc", 0)
				tr.Enc = "H264"
				tr.FmtpKind = rapid.SampledFrom([]string{"acc-valid", "acc-valid", "acc-none", "acc-mode-0", "acc-mode-2", "acc-one-set", "acc-empty-sets", "acc-short-sps", "acc-garbage-sps", "acc-huge-sps", "acc-three-sets"}).Draw(t, "accAvcFmtp")
				switch tr.FmtpKind {
				case "acc-valid":
					tr.Fmtp = rtspref.H264Fmtp(sps, pps)
				case "acc-mode-0":
					tr.Fmtp = "packetization-mode=0; sprop-parameter-sets=" + b64(sps) + "," + b64(pps)
				case "acc-mode-2":
					tr.Fmtp = "packetization-mode=2; sprop-interleaving-depth=1; sprop-parameter-sets=" + b64(sps) + "," + b64(pps) + "; profile-level-id=zzzzzz"
				case "acc-one-set":
					tr.Fmtp = "packetization-mode=1; sprop-parameter-sets=" + b64(sps)
				case "acc-empty-sets":
					tr.Fmtp = "packetization-mode=1; sprop-parameter-sets=,"
				case "acc-short-sps":
					tr.Fmtp = "sprop-parameter-sets=" + b64(sps[:rapid.IntRange(0, 4).Draw(t, "accSpsCut")]) + "," + b64(pps[:rapid.IntRange(0, 1).Draw(t, "accPpsCut")])
				case "acc-garbage-sps":
					g := gen.Bytes(rapid.Uint32Range(0, 50).Draw(t, "accGarbageSeed"), rapid.SampledFrom([]int{1, 2, 3, 8, 40}).Draw(t, "accGarbageLen"))
					tr.Fmtp = "sprop-parameter-sets=" + b64(append([]byte{0x67}, g...)) + "," + b64(append([]byte{0x68}, g...))
				case "acc-huge-sps":
					tr.Fmtp = "sprop-parameter-sets=" + b64(append(append([]byte{}, sps...), gen.Bytes(3, 3000)...)) + "," + b64(pps)
				case "acc-three-sets":
					tr.Fmtp = "sprop-parameter-sets=" + b64(sps) + "," + b64(pps) + "," + b64(pps)
				}
			}
		} else {
			tr.Media, tr.PT, tr.Control = "audio", apt, ctl[1]
			switch rapid.IntRange(0, 8).Draw(t, "accAudio") {
			case 0, 1, 2:
				tr.Enc = rapid.SampledFrom([]string{"MPEG4-GENERIC", "mpeg4-generic", "Mpeg4-Generic"}).Draw(t, "accAacName")
				tr.Chan = rapid.SampledFrom([]int{0, 1, 2, 8, 255}).Draw(t, "accChan")
				size := rapid.SampledFrom([]string{"profile-level-id=1;mode=AAC-hbr;sizelength=13;indexlength=3;indexdeltalength=3", "mode=AAC-lbr;sizelength=6;indexlength=2;indexdeltalength=2",
					"mode=AAC-hbr;sizelength=0;indexlength=0;indexdeltalength=0", "mode=AAC-hbr;sizelength=16;indexlength=0", "mode=generic;sizelength=999999999999;indexlength=-3", "streamtype=5", "mode=AAC-hbr;sizelength=13;indexlength=3;indexdeltalength=3;constantduration=0"}).Draw(t, "accAuSizes")
				tr.FmtpKind = rapid.SampledFrom([]string{"acc-asc", "acc-asc", "acc-asc-escape-freq", "acc-asc-escape-object", "acc-asc-long", "acc-asc-zero", "acc-asc-ff", "acc-no-config"}).Draw(t, "accAscKind")
				var cfg string
				switch tr.FmtpKind {
				case "acc-asc":
					cfg = fmt.Sprintf("%x", gen.Asc(rapid.IntRange(1, 5).Draw(t, "accObj"), rapid.IntRange(0, 14).Draw(t, "accFreq"), rapid.IntRange(0, 15).Draw(t, "accChanCfg")))
				case "acc-asc-escape-freq":
					cfg = fmt.Sprintf("%x", gen.Asc(2, 15, 2)) // index 15: a 24-bit frequency should follow, it does not
				case "acc-asc-escape-object":
					cfg = "f9" + rapid.SampledFrom([]string{"10", "1012", "ff", "00"}).Draw(t, "accObjEsc")
				case "acc-asc-long":
					cfg = "121056e500" + strings.Repeat("ab", rapid.SampledFrom([]int{0, 3, 60}).Draw(t, "accAscExtra"))
				case "acc-asc-zero":
					cfg = "0000"
				case "acc-asc-ff":
					cfg = "ffff"
				}
				tr.Fmtp = size
				if cfg != "" {
					tr.Fmtp += "; config=" + cfg
				}
			case 3:
				tr.Enc, tr.Chan = rapid.SampledFrom([]string{"PCMA", "pcma", "PCMU", "pcmu"}).Draw(t, "accG711"), 1
			case 4:
				tr.Enc, tr.Chan = rapid.SampledFrom([]string{"opus", "OPUS"}).Draw(t, "accOpus"), 2
				tr.Fmtp = rapid.SampledFrom([]string{"", "sprop-stereo=1", "minptime=0;maxptime=0"}).Draw(t, "accOpusFmtp")
			case 5:
				// static payload type without rtpmap
				tr.NoRtpmap = true
				tr.PT = rapid.SampledFrom([]int{0, 8}).Draw(t, "accStaticPt")
				tr.Clock = 0
			default:
				genOddPayloadType(t, &tr)
			}
		}
		sd.Tracks = append(sd.Tracks, tr)
	}
	return sd
}

func (sd *Sdp) accLabels() []string {
	var l []string
	for _, tr := range sd.Tracks {
		l = append(l, "prefix-sdp:"+sdpCodec(tr))
		switch {
		case tr.Clock <= 0:
			l = append(l, "prefix-sdp:clock<=0")
		case tr.Clock < 1000:
			l = append(l, "prefix-sdp:clock-1..999")
		case tr.Clock > 1000000:
			l = append(l, "prefix-sdp:clock-huge")
		}
		if tr.FmtpKind != "" {
			l = append(l, "prefix-sdp:fmtp-"+tr.FmtpKind)
		}
		if tr.NoRtpmap {
			l = append(l, "prefix-sdp:static-pt-no-rtpmap")
		}
	}
	if len(sd.Tracks) == 2 && sd.Tracks[0].PT == sd.Tracks[1].PT {
		l = append(l, "prefix-sdp:same-pt-both-tracks")
	}
	return l
}

var hostileMethods = []string{"OPTIONS", "ANNOUNCE", "DESCRIBE", "SETUP", "RECORD", "PLAY", "TEARDOWN", "GET_PARAMETER", "SET_PARAMETER", "PAUSE", "options", "GET", "", "FOO"}

func genReq(t *rapid.T, c *RtspCase) *Req {
	r := &Req{}
	r.Method = rapid.SampledFrom(hostileMethods).Draw(t, "method")
	base := c.uri()
	r.Uri = rapid.SampledFrom([]string{base, base, base + "/streamid=0", base + "/streamid=1", base + "/streamid=2", base + "?a=b", "rtsp://127.0.0.1:5544/live/c13other", "rtsp://127.0.0.1:5544/", "rtsp://127.0.0.1:5544",
		"rtsp://", "*", "/live/x", "", "rtsp://[::1", "rtsp://u:p@127.0.0.1:5544/live/c13hostile", "rtsp://127.0.0.1:99999/live/x", "http://127.0.0.1/live/x.flv", "rtsp://127.0.0.1:5544/live/../../x", "rtsp://127.0.0.1:5544/%zz/x", "rtsp://127.0.0.1:5544/live/c13hostile/"}).Draw(t, "uri")
	switch r.Method {
	case "ANNOUNCE":
		r.Hdrs = append(r.Hdrs, [2]string{"Content-Type", "application/sdp"})
		if rapid.IntRange(0, 9).Draw(t, "announceBody") > 0 {
			r.Sdp = genSdp(t)
		}
	case "SETUP":
		tr := rapid.SampledFrom([]string{
			"RTP/AVP/TCP;unicast;interleaved=0-1;mode=record", "RTP/AVP/TCP;unicast;interleaved=2-3", "RTP/AVP/TCP;unicast;interleaved=0-0", "RTP/AVP/TCP;unicast;interleaved=255-256",
			"RTP/AVP/TCP;unicast;interleaved=70000-70001", "RTP/AVP/TCP;unicast;interleaved=-1--2", "RTP/AVP/TCP;unicast;interleaved=a-b", "RTP/AVP/TCP;unicast;interleaved=1", "RTP/AVP/TCP;unicast;interleaved=",
			"RTP/AVP/TCP;unicast;interleaved", "RTP/AVP/TCP;unicast;interleaved=1-2-3", "RTP/AVP/TCP;interleaved=0-1;interleaved=x", "interleaved=99999999999999999999-1",
			"RTP/AVP/UDP;unicast;client_port=41000-41001", "RTP/AVP;unicast;client_port=41002-41003;mode=record", "RTP/AVP;unicast;client_port=0-0", "RTP/AVP;unicast;client_port=65536-65537",
			"RTP/AVP;unicast;client_port=a-b", "RTP/AVP;unicast;client_port=1", "RTP/AVP;unicast", "", "RTP/AVP;multicast;destination=224.0.0.1;port=5000-5001", ";;;", "client_port=-5-70000",
		}).Draw(t, "transport")
		if tr != "" || rapid.Bool().Draw(t, "emptyTransportHdr") {
			r.Hdrs = append(r.Hdrs, [2]string{"Transport", tr})
		}
	case "PLAY", "RECORD":
		r.Hdrs = append(r.Hdrs, [2]string{"Range", rapid.SampledFrom([]string{"npt=0.000-", "npt=-", "clock=x", ""}).Draw(t, "range")})
	case "DESCRIBE":
		r.Hdrs = append(r.Hdrs, [2]string{"Accept", "application/sdp"})
	}
	switch rapid.IntRange(0, 15).Draw(t, "reqMut") {
	case 0:
		r.Hdrs = append(r.Hdrs, [2]string{"CSeq", rapid.SampledFrom([]string{"", "-1", "99999999999999999999", "a", "1\t2", "%s%d%n"}).Draw(t, "cseq")})
	case 1:
		r.Hdrs = append(r.Hdrs, [2]string{"Authorization", rapid.SampledFrom([]string{"", "Basic", "Basic ", "Basic !!!!", "Basic dXNlcg==", "Basic dXNlcjpwYXNz", "Digest", "Digest ", "Digest username", "Digest username=",
			`Digest username="u`, `Digest username="u", realm="r", nonce="n", uri="x", response="y"`, `Digest ,,,,`, `Digest =`, `Digest realm=,nonce=`, "Bearer x", `Digest username="u", realm="r", nonce="n", uri="x", response="y", algorithm=`}).Draw(t, "authz")})
	case 2:
		r.CL = rapid.SampledFrom([]string{"-1", "0", "1", "5", "999", "70000", "2147483648", "1099511627776", "9223372036854775807", "-9223372036854775808", "a", "", "1e3", " 3", "0x10"}).Draw(t, "contentLength")
		if rapid.Bool().Draw(t, "withSomeBody") && r.Sdp == nil {
			r.Body = &Blob{Hex: "763d300d0a"}
		}
	case 3:
		r.Ver = rapid.SampledFrom([]string{"RTSP/2.0", "HTTP/1.1", "", "RTSP/1.0 extra", "\t"}).Draw(t, "version")
	case 4:
		r.RawLine = rapid.SampledFrom([]string{"", " ", "OPTIONS", "OPTIONS ", " OPTIONS * RTSP/1.0", "OPTIONS  RTSP/1.0", "\x00\x01\x02", "$", "RTSP/1.0 200 OK", strings.Repeat("A", 5000), "SETUP " + strings.Repeat("/a", 3000) + " RTSP/1.0"}).Draw(t, "rawLine")
	case 5:
		r.Hdrs = append(r.Hdrs, [2]string{rapid.SampledFrom([]string{"", " ", "X", "Content-Length ", "Transport"}).Draw(t, "oddHdrName"), rapid.SampledFrom([]string{"", ":", "x", strings.Repeat("v", 5000)}).Draw(t, "oddHdrValue")})
	case 6:
		r.Hdrs = append(r.Hdrs, [2]string{rapid.SampledFrom([]string{"continuation-without-colon", "", " folded"}).Draw(t, "noColonLine"), "\x00nocolon"})
	case 7:
		r.Hdrs = append([][2]string{{"no-colon-first", "\x00nocolon"}}, r.Hdrs...)
	case 8:
		if r.Sdp == nil {
			r.Body = &Blob{Seed: rapid.Uint32Range(0, 99).Draw(t, "bodySeed"), Len: rapid.SampledFrom([]int{1, 10, 2000}).Draw(t, "bodyLen")}
		}
	}
	return r
}

func genFrame(t *rapid.T, c *RtspCase, st *rtpGenState) *Frame {
	f := &Frame{DeclLen: -1}
	trs := c.tracks()
	var tr trackInfo
	if len(trs) > 0 {
		tr = rapid.SampledFrom(trs).Draw(t, "track")
	} else {
		tr = trackInfo{codec: rapid.SampledFrom([]string{"avc", "hevc", "aac", "pcma"}).Draw(t, "anyCodec"), pt: 96}
	}
	switch rapid.IntRange(0, 9).Draw(t, "frameKind") {
	case 0, 1:
		f.Chan = tr.ch + 1
		rc := genRtcp(t, st.ssrc)
		f.Rtcp = &rc
	case 2:
		f.Raw = &Blob{Seed: rapid.Uint32Range(0, 99).Draw(t, "rawSeed"), Len: rapid.SampledFrom([]int{0, 1, 2, 11, 12, 13, 30}).Draw(t, "rawLen")}
		f.Chan = rapid.SampledFrom([]int{tr.ch, tr.ch + 1, 200}).Draw(t, "rawChan")
	default:
		f.Chan = tr.ch
		r := genRtp(t, tr, st)
		f.Rtp = &r
	}
	switch rapid.IntRange(0, 11).Draw(t, "frameMut") {
	case 0:
		f.DeclLen = rapid.SampledFrom([]int{0, 1, 11, 12, 13, 65535, 30000}).Draw(t, "declLen")
	case 1:
		f.Chan = rapid.SampledFrom([]int{0, 1, 2, 3, 4, 255, 100}).Draw(t, "otherChan")
	}
	return f
}

// genSrSandwich draws the history that exercises the receiver-report producer: k RTP packets, a sender report with
// the track's SSRC (or a foreign one), then 0-3 packets that do NOT advance the highest sequence number (duplicates,
// late packets) or nothing or new packets, a second sender report, and optionally a third round.  Every packet is
// well-formed: the point is the arithmetic between two reports (expected vs. received interval).
func genSrSandwich(t *rapid.T, tr trackInfo, st *rtpGenState) []Step {
	payload := map[string]string{"avc": "6588840021", "hevc": "2601af08", "aac": "00100020aabbccdd"}[tr.codec]
	if payload == "" {
		payload = "d5d5d5d5"
	}
	ssrc := rapid.SampledFrom([]uint32{0x5a5a0001, 0x5a5a0001, 0, 0xffffffff}).Draw(t, "swSsrc")
	var out []Step
	rtp := func(seq uint16, kind string) {
		r := RtpSpec{Ver: 2, PT: tr.pt, Seq: seq, TS: st.ts, SSRC: ssrc, Kind: kind, Payload: Blob{Hex: payload}, CutTo: -1}
		out = append(out, Step{Frame: &Frame{Chan: tr.ch, Rtp: &r, DeclLen: -1}})
	}
	sr := func() {
		x := RtcpSpec{Type: 200, SSRC: ssrc, Len: rapid.SampledFrom([]int{28, 28, 28, 52}).Draw(t, "swSrLen")}
		if rapid.IntRange(0, 5).Draw(t, "swForeign") == 0 {
			x.SSRC = ssrc + 1
		}
		out = append(out, Step{Frame: &Frame{Chan: tr.ch + 1, Rtcp: &x, DeclLen: -1}})
	}
	st.seq += 10
	k := rapid.IntRange(1, 4).Draw(t, "swFirst")
	for i := 0; i < k; i++ {
		st.seq++
		rtp(st.seq, "sandwich-new")
	}
	sr()
	rounds := rapid.IntRange(1, 2).Draw(t, "swRounds")
	for r := 0; r < rounds; r++ {
		n := rapid.IntRange(0, 3).Draw(t, "swMiddle")
		for i := 0; i < n; i++ {
			switch rapid.SampledFrom([]string{"dup", "dup", "late", "late", "new"}).Draw(t, "swKind") {
			case "dup":
				rtp(st.seq, "sandwich-duplicate")
			case "late":
				rtp(st.seq-uint16(rapid.IntRange(1, 3).Draw(t, "swLateBy")), "sandwich-late")
			default:
				st.seq += uint16(rapid.SampledFrom([]int{1, 1, 2, 1000}).Draw(t, "swStep"))
				rtp(st.seq, "sandwich-new")
			}
		}
		sr()
	}
	return out
}

func sandwichLabels(steps []Step) []string {
	var l []string
	seen := false
	for _, st := range steps {
		if st.Frame != nil && st.Frame.Rtp != nil && strings.HasPrefix(st.Frame.Rtp.Kind, "sandwich-") {
			seen = true
			if st.Frame.Rtp.Kind != "sandwich-new" {
				l = append(l, "rtcp:sr-sandwich-with-"+strings.TrimPrefix(st.Frame.Rtp.Kind, "sandwich-"))
			}
		}
	}
	if seen {
		l = append(l, "rtcp:sr-sandwich")
	}
	return l
}

func genRtspCase(t *rapid.T) RtspCase {
	var c RtspCase
	c.Stage = rapid.SampledFrom([]string{"none", "options", "announced", "setup", "recording", "recording", "recording", "recording", "described", "subsetup", "playing", "playing"}).Draw(t, "stage")
	c.Video = rapid.SampledFrom([]string{"avc", "avc", "hevc", "hevc", ""}).Draw(t, "video")
	c.Audio = rapid.SampledFrom([]string{"aac", "aac", "pcma", "pcmu", "opus", ""}).Draw(t, "audio")
	if c.Video == "" && c.Audio == "" {
		c.Video = "avc"
	}
	c.Udp = rapid.IntRange(0, 6).Draw(t, "udp") == 0
	if c.Udp {
		c.UdpMix = rapid.IntRange(0, 2).Draw(t, "udpMix")
	}
	if (c.Stage == "announced" || c.Stage == "setup" || c.Stage == "recording") && rapid.IntRange(0, 1).Draw(t, "prefixSdp") == 0 {
		c.PrefixSdp = genAcceptedSdp(t)
	}
	if c.Stage != "none" && rapid.IntRange(0, 3).Draw(t, "ticks") == 0 {
		pat := [][]uint32{{1}, {5}, {120, 240}, {120, 240, 360}, {1, 2, 3, 4, 5}, {240}, {600, 601}}
		c.Ticks = rapid.SampledFrom(pat).Draw(t, "ticksBefore")
		if rapid.Bool().Draw(t, "ticksAfterToo") {
			c.TicksAfter = rapid.SampledFrom(pat).Draw(t, "ticksAfter")
		}
		if rapid.IntRange(0, 2).Draw(t, "onlyAfter") == 0 {
			c.Ticks, c.TicksAfter = nil, c.Ticks
		}
	}
	st := &rtpGenState{seq: uint16(rapid.SampledFrom([]int{0, 1000, 65530}).Draw(t, "seq0")), ts: 1000, ssrc: rapid.SampledFrom([]uint32{0, 0x1234, 0xffffffff}).Draw(t, "ssrc")}
	n := rapid.IntRange(1, 12).Draw(t, "nsteps")
	// media frames first (they never end the session), requests later (an error ends it)
	frameBias := 7
	if c.Stage != "recording" && c.Stage != "playing" && c.Stage != "setup" && c.Stage != "subsetup" {
		frameBias = 3
	}
	for i := 0; i < n; i++ {
		k := rapid.IntRange(0, 9).Draw(t, "stepKind")
		switch {
		case k < frameBias:
			c.Steps = append(c.Steps, Step{Frame: genFrame(t, &c, st)})
		case k == 9:
			c.Steps = append(c.Steps, Step{Raw: &Blob{Hex: rapid.SampledFrom([]string{"24", "2400", "240000", "24000001", "0d0a", "0d0a0d0a", "00", "ff", "2400ffff", "524553503a"}).Draw(t, "rawStep")}})
		default:
			c.Steps = append(c.Steps, Step{Req: genReq(t, &c)})
		}
	}
	if trs := c.tracks(); len(trs) > 0 && rapid.IntRange(0, 2).Draw(t, "burst") == 0 {
		// a fragmented unit in consecutive packets, so that reassembly is reached (possibly with a degraded member)
		tr := rapid.SampledFrom(trs).Draw(t, "burstTrack")
		var parts []pl
		switch tr.codec {
		case "avc":
			parts = []pl{{"avc-fua-start", "7c85888400"}, {"avc-fua-mid", "7c05aabb"}, {"avc-fua-end", "7c45ccdd"}}
		case "hevc":
			parts = []pl{{"hevc-fu-start", "620193aabb"}, {"hevc-fu-mid", "620113cc"}, {"hevc-fu-end", "620153dd"}}
		case "aac":
			parts = []pl{{"aac-au-fragment-start", "00100060aabbccdd"}, {"aac-au-fragment-cont", "00100060eeff0011"}, {"aac-au-fragment-last", "0010006022334455"}}
		default:
			parts = []pl{{"raw", "d5d5"}, {"raw", "d5d5"}}
		}
		degrade := rapid.IntRange(-1, len(parts)-1).Draw(t, "burstDegrade")
		var burst []Step
		for i, p := range parts {
			st.seq++
			r := RtpSpec{Ver: 2, PT: tr.pt, Seq: st.seq, TS: st.ts, SSRC: st.ssrc, Kind: "burst-" + p.kind, Payload: Blob{Hex: p.hex}, CutTo: -1, Marker: i == len(parts)-1}
			if i == degrade {
				switch rapid.IntRange(0, 3).Draw(t, "burstHow") {
				case 0:
					if n := rapid.SampledFrom([]int{2, 4, 6}).Draw(t, "burstCut"); n < len(p.hex) {
						r.Payload.Hex = p.hex[:n]
					}
				case 1:
					r.Pad, r.PadCnt, r.PadFill = true, rapid.SampledFrom([]int{1, 2, 3, 4, 5}).Draw(t, "burstPad"), 0
				case 2:
					r.TS += 90
				default:
					r.Seq += 2
					st.seq += 2
				}
			}
			burst = append(burst, Step{Frame: &Frame{Chan: tr.ch, Rtp: &r, DeclLen: -1}})
		}
		at := rapid.IntRange(0, len(c.Steps)).Draw(t, "burstAt")
		c.Steps = append(c.Steps[:at:at], append(burst, c.Steps[at:]...)...)
	}
	if trs := c.tracks(); !c.subscriberSide() && c.Stage != "none" && c.Stage != "options" && len(trs) > 0 && rapid.IntRange(0, 3).Draw(t, "srSandwich") == 0 {
		sw := genSrSandwich(t, rapid.SampledFrom(trs).Draw(t, "swTrack"), st)
		at := rapid.IntRange(0, len(c.Steps)).Draw(t, "swAt")
		// requests before the sandwich may end the session: mostly put it first
		if rapid.IntRange(0, 2).Draw(t, "swFirstInTail") > 0 {
			at = 0
		}
		c.Steps = append(c.Steps[:at:at], append(sw, c.Steps[at:]...)...)
	}
	if !c.subscriberSide() && c.Stage != "none" && c.Stage != "options" && rapid.IntRange(0, 7).Draw(t, "flood") == 0 {
		f := &RtspFlood{Track: rapid.IntRange(0, 1).Draw(t, "floodTrack")}
		f.Cached = rapid.SampledFrom([]int{1, 127, 128, 129, 300, 1022, 1023, 1024, 1025, 1100}).Draw(t, "floodCached")
		if trs := c.tracks(); len(trs) > 0 {
			tab := payloadTable(trs[f.Track%len(trs)].codec)
			f.Kind = rapid.SampledFrom(tab).Draw(t, "floodKind").hex
			f.Gap = rapid.SampledFrom(tab).Draw(t, "floodGap").hex
		}
		if f.Kind == "" {
			f.Kind = "d5d5"
		}
		if rapid.IntRange(0, 4).Draw(t, "floodNoGap") == 0 {
			f.Gap = "none"
		}
		n := rapid.IntRange(0, 4).Draw(t, "floodThen")
		for i := 0; i < n; i++ {
			f.Then = append(f.Then, rapid.SampledFrom([]int{0, 1, 2, 1100, 1101, 1102, 5000, 5002, 32768, 40000, 65535}).Draw(t, "floodSeq"))
		}
		f.SameTs = rapid.Bool().Draw(t, "floodSameTs")
		c.Flood = f
	}
	c.Mut = genMut(t)
	if c.subscriberSide() {
		c.FeedAfter = rapid.IntRange(0, 3).Draw(t, "feedAfter")
	}
	c.Slices = genSlices(t)
	return c
}

// ---- run ----------------------------------------------------------------------------

type feed struct {
	p   *lalclient.Publisher
	sub *lalclient.Consumer // a subscriber that joined before the hostile exchange: the bystander pair
	cd  gen.Codecs
	n   uint32
	err error // first error of a send on the feed's connection
	key int   // see probe
}

// startFeed publishes a healthy avc+aac stream "c13feed" (so that DESCRIBE is answered with an SDP) with an RTMP
// subscriber already attached: the pair is the bystander that a hostile session on the same server must not disturb.
func startFeed(s *inproc.Server) (*feed, *pbt.Violation) {
	sub := lalclient.NewRtmpSub(s, "live", "c13feed")
	if err := sub.JoinErr(); err != nil {
		if v := s.PanicViolation(); v != nil {
			return nil, v
		}
		lalclient.Harness("c13: the healthy feed's subscriber could not join: %v", err)
	}
	p := lalclient.NewPublisher(s, "live", "c13feed", 0)
	if p.Err != nil {
		if v := s.PanicViolation(); v != nil {
			return nil, v
		}
		lalclient.Harness("c13: the healthy feed could not publish: %v", p.Err)
	}
	f := &feed{p: p, sub: sub, cd: gen.Codecs{Video: "avc", Audio: "aac", AscObj: 2, AscFreq: 4, AscChan: 2}}
	for _, it := range []gen.Item{{Kind: "meta"}, {Kind: "vsh"}, {Kind: "ash"}} {
		f.note(p.SendItem(it, f.cd, 0))
	}
	f.frames(2)
	return f, nil
}

func (f *feed) note(err error) {
	if err != nil && f.err == nil {
		f.err = err
	}
}

func (f *feed) frames(n int) {
	for i := 0; i < n; i++ {
		f.n++
		ts := f.n * 40
		f.note(f.p.SendItem(gen.Item{Kind: "video", Ts: ts, Key: true, Nals: []gen.NalSpec{{Hdr: []byte{0x65}, Len: 60, Seed: f.n, Serial: f.n}}}, f.cd, 0))
		f.note(f.p.SendItem(gen.Item{Kind: "audio", Ts: ts, ALen: 30, ASeed: f.n}, f.cd, 0))
	}
	f.p.WaitIdle()
	// lal writes to the subscriber from a goroutine of its own: the frames count as written (alive check!) only once
	// they have arrived
	if n > 0 && f.sub != nil && f.err == nil {
		want := []byte{0xAF, 1, byte(f.n >> 24), byte(f.n >> 16), byte(f.n >> 8), byte(f.n)}
		f.sub.WaitFor(func(r lalclient.Rec) bool { return bytes.HasPrefix(r.Payload, want) }, lalclient.DeliverTimeout)
	}
}

// runTicks runs ServerManager.VerifTick(n) for every n, in a harness goroutine (in production the ticker runs in lal's
// RunLoop goroutine: a panic there ends the process).  The bystander feed publishes a frame before every tick, so that
// lal's alive check has no reason to dispose IT.
func runTicks(s *inproc.Server, fd *feed, ticks []uint32) *pbt.Violation {
	for _, n := range ticks {
		n := n
		if fd != nil {
			fd.frames(1)
		}
		done := s.Go("tick", func() { s.SM.VerifTick(n) })
		select {
		case <-done:
		case <-time.After(lalclient.DeliverTimeout):
			if v := s.PanicViolation(); v != nil {
				return v
			}
			if stuck, stack := pbt.StuckGoroutine("logic.(*ServerManager).VerifTick", 2*time.Second); stuck {
				return pbt.V("tick-never-returns", "ServerManager's ticker iteration (tick %d) is still parked %v after it started, with a hostile session half-open:\n%s", n, lalclient.DeliverTimeout, head(stack, 3000))
			}
			select {
			case <-done:
			case <-time.After(4 * lalclient.DeliverTimeout):
				lalclient.Harness("c13: tick %d did not return within %v and is not parked (machine too slow?)", n, 5*lalclient.DeliverTimeout)
			}
		}
		if v := s.PanicViolation(); v != nil {
			return v
		}
		// RunLoop's ticker also takes the statistics of every group (on_update, debug log)
		if v := statSnapshot(s, "c13hostile", "c13feed", pullStream, gbStream); v != nil {
			return v
		}
	}
	return nil
}

// deliver writes the bytes to conn, lets a feed publish, runs the late ticks, half-closes and waits for the handler to return.
func deliverRtsp(s *inproc.Server, conn *memconn.Conn, wire []byte, slices []int, fd *feed, feedAfter int, ticksAfter []uint32, done func(time.Duration) bool, marker, what string) *pbt.Violation {
	_ = conn.WriteSliced(wire, slices) // the server may close early; allowed
	if fd != nil && feedAfter > 0 {
		conn.WaitPeerIdle(lalclient.IdleTimeout)
		fd.frames(feedAfter)
	}
	if len(ticksAfter) > 0 {
		conn.WaitPeerIdle(lalclient.IdleTimeout)
		if v := runTicks(s, fd, ticksAfter); v != nil {
			return v
		}
	}
	// the statistics of a session in whatever state the hostile tail left it (an API request, the on_update
	// notification and the ticker's debug log take them at any moment)
	conn.WaitPeerIdle(lalclient.IdleTimeout)
	if v := statSnapshot(s, "c13hostile", "c13feed", "c13other", "streamid=0"); v != nil {
		return v
	}
	conn.CloseWrite()
	return waitReturn(s, done, marker, what)
}

func runRtsp(c RtspCase) *pbt.Violation {
	for i := 0; i < c.Repeat; i++ {
		if v := runRtspOnce(c); v != nil {
			return v
		}
	}
	return runRtspOnce(c)
}

// collectResponses waits (bounded) until one RTSP response per request of the valid prefix has arrived — lal writes
// them from a goroutine of its own — and returns what arrived.
func collectResponses(conn *memconn.Conn, n int) string {
	var responses []byte
	deadline := time.Now().Add(lalclient.IdleTimeout)
	for {
		responses = append(responses, conn.ReadAvailable()...)
		if strings.Count(string(responses), "RTSP/1.0 ") >= n || conn.PeerGone() || time.Now().After(deadline) {
			return string(responses)
		}
		time.Sleep(200 * time.Microsecond)
	}
}

func runRtspOnce(c RtspCase) *pbt.Violation {
	s := newServer()
	defer s.Close()
	fd, v := startFeed(s)
	if v != nil {
		return v
	}
	cseq := 0
	pre := c.prefix(&cseq)
	nPrefix := cseq // requests of the valid prefix = responses to expect
	tail := c.tail(&cseq)
	fd.key = len(tail) + len(pre)
	conn := s.RtspConn()
	if nPrefix > 0 {
		// the valid prefix first; its responses are read, so that a prefix lal refuses is counted instead of silently
		// turning the case into a shallow one
		_ = conn.WriteSliced(pre, c.Slices)
		conn.WaitPeerIdle(lalclient.IdleTimeout)
		responses := collectResponses(conn, nPrefix)
		if ok := strings.Count(responses, "RTSP/1.0 200"); ok < nPrefix {
			switch {
			case c.PrefixSdp != nil:
				note("rtsp-command/shallow:hostile-prefix-sdp-refused")
			case c.Udp:
				note("rtsp-command/shallow:valid-udp-prefix-refused") // lal could not get a pair of UDP ports: environment
			default:
				// the reference exchange is valid by construction and independent of the environment: if lal refuses it
				// the hostile tail is never reached and the case proves nothing.  Never silently.
				lalclient.Harness("c13: lal answered %d of the %d requests of the valid prefix (stage %s) with 200; responses:\n%s", ok, nPrefix, c.Stage, head(responses, 1500))
			}
		} else {
			note("rtsp-command/prefix-accepted")
		}
		if c.Udp && (c.Stage == "setup" || c.Stage == "recording" || c.Stage == "subsetup" || c.Stage == "playing") {
			// the hostile RTP / RTCP packets also go, as datagrams, to the UDP sockets lal opened for the valid SETUPs:
			// they are handled in lal's own reader goroutines (a panic there kills the process: Isolate)
			c.sendDatagrams(s, responses)
		}
		if v := runTicks(s, fd, c.Ticks); v != nil {
			return v
		}
		if v := statSnapshot(s, "c13hostile", "c13feed"); v != nil { // announced-only, described, set-up ... sessions
			return v
		}
	}
	if v := deliverRtsp(s, conn, tail, c.Slices, fd, c.FeedAfter, c.TicksAfter, conn.WaitPeerDone, "rtsp.(*Server).handleTcpConnect", "rtsp"); v != nil {
		return v
	}
	if !c.subscriberSide() && (fd.key%2 == 0 || c.ForceRepublish) {
		// the hostile session has returned: the name it used must be usable again
		if v := republish(s, "c13hostile"); v != nil {
			return v
		}
	}
	return probe(s, fd)
}

var serverPortRe = regexp.MustCompile(`server_port=(\d+)-(\d+)`)

// sendDatagrams sends every RTP / RTCP frame of the case to the server ports found in the SETUP responses (RTP to the
// RTP port of the track the frame's channel belongs to — or of any UDP track — RTCP to its RTCP port), and waits,
// bounded and without verdict, until the session has counted them (UDP may drop under load; the interleaved delivery
// of the same packets carries the verdict for the parsers, the datagrams add the UDP-only paths).
func (c *RtspCase) sendDatagrams(s *inproc.Server, responses string) {
	ports := serverPortRe.FindAllStringSubmatch(responses, -1)
	if len(ports) == 0 {
		return
	}
	// UDP tracks in SETUP order
	var udpTracks []int
	ntracks := len(c.prefixControls())
	if c.subscriberSide() {
		ntracks = 2
	}
	for i := 0; i < ntracks; i++ {
		if c.udpTrack(i) {
			udpTracks = append(udpTracks, i)
		}
	}
	if len(udpTracks) != len(ports) {
		return
	}
	// publisher sessions count what they read; the subscriber side's UDP readers only log (no acknowledgement: the
	// datagrams are spaced instead)
	counted := func() (uint64, bool) {
		if c.subscriberSide() {
			return 0, false
		}
		st := s.SM.StatGroup("c13hostile")
		if st == nil {
			return 0, false
		}
		return st.StatPub.ReadBytesSum, true
	}
	before, _ := counted()
	sent := 0
	ndgram, nacked := 0, 0
	for _, step := range c.Steps {
		f := step.Frame
		if f == nil || (f.Rtp == nil && f.Rtcp == nil) {
			continue
		}
		// the track the frame's channel belongs to if that track is on UDP, else the first UDP track
		k := 0
		for j, tr := range udpTracks {
			if f.Chan/2 == tr {
				k = j
			}
		}
		port := ports[k][1]
		if f.Rtcp != nil {
			port = ports[k][2]
		}
		uc, err := net.Dial("udp", "127.0.0.1:"+port)
		if err != nil {
			continue
		}
		p := f.payload()
		if n, err := uc.Write(p); err == nil {
			sent += n
		}
		_ = uc.Close()
		// paced: the next datagram goes out when this one has been counted (lal counts a packet when its handler
		// starts), so that packets to different sockets are handled in the order of the case; a lost datagram
		// costs 300 ms and nothing else
		ndgram++
		deadline := time.Now().Add(300 * time.Millisecond)
		for time.Now().Before(deadline) {
			cur, ok := counted()
			if !ok {
				time.Sleep(time.Millisecond)
				break
			}
			if cur >= before+uint64(sent) {
				nacked++
				break
			}
			time.Sleep(200 * time.Microsecond)
		}
	}
	// was any of it received?  Datagrams "sent into the void" (lost, or no reader behind the port) make the UDP leg of
	// the case shallow: counted, per case, in the evidence
	switch {
	case ndgram == 0:
	case c.subscriberSide():
		note("rtsp-command/udp-datagrams:subscriber-side-unobservable") // lal's subscriber-side readers count nothing
	case nacked == 0:
		note("rtsp-command/shallow:udp-datagrams-all-into-the-void")
	case nacked < ndgram:
		note("rtsp-command/udp-datagrams:some-counted-by-lal")
	default:
		note("rtsp-command/udp-datagrams:all-counted-by-lal")
	}
	// the handler of the last datagram may still be running: give it a moment (a crash there kills the process)
	time.Sleep(2 * time.Millisecond)
}

func (c *RtspCase) stepLabels() (labels []string, hostile bool) {
	for i, st := range c.Steps {
		switch {
		case st.Req != nil:
			r := st.Req
			labels = append(labels, "req:"+strings.ToUpper(r.Method))
			if r.Sdp != nil {
				hostile = true
				labels = append(labels, lbl("sdp:tracks-%d", len(r.Sdp.Tracks)))
				for _, tr := range r.Sdp.Tracks {
					labels = append(labels, "sdp:enc-"+strings.ToLower(tr.Enc))
					switch {
					case tr.Clock <= 0:
						labels = append(labels, "sdp:clock<=0")
					case tr.Clock < 1000:
						labels = append(labels, "sdp:clock-1..999")
					}
					if tr.NoRtpmap {
						labels = append(labels, "sdp:no-rtpmap")
					}
					if tr.FmtpPad > 0 {
						labels = append(labels, "sdp:huge-fmtp")
					}
					if tr.FmtpFold {
						labels = append(labels, "sdp:folded-fmtp")
					}
					if tr.FmtpKind != "" {
						labels = append(labels, "sdp:fmtp-"+tr.FmtpKind)
					}
				}
				if r.Sdp.DropLine >= 0 || r.Sdp.DupLine >= 0 || r.Sdp.Extra != "" {
					labels = append(labels, "sdp:line-mutation")
				}
			}
			if r.CL != "" {
				hostile = true
				labels = append(labels, "req:content-length-lies")
			}
			if r.RawLine != "" || r.Ver != "" {
				hostile = true
				labels = append(labels, "req:bad-request-line")
			}
			if r.Method == "SETUP" {
				labels = append(labels, "req:setup-transport")
			}
		case st.Frame != nil:
			f := st.Frame
			hostile = true
			if f.DeclLen >= 0 {
				labels = append(labels, "frame:lying-length")
			}
			switch {
			case f.Rtp != nil:
				labels = append(labels, f.Rtp.labels()...)
			case f.Rtcp != nil:
				labels = append(labels, f.Rtcp.labels()...)
			default:
				labels = append(labels, "frame:raw")
			}
		case st.Raw != nil:
			hostile = true
			labels = append(labels, "raw-bytes")
		}
		if i == 0 {
			// the first hostile element is always reached: everything before it is valid
			switch {
			case st.Req != nil:
				labels = append(labels, "first:req")
			case st.Frame != nil && st.Frame.Rtcp != nil:
				labels = append(labels, "first:rtcp")
			case st.Frame != nil:
				labels = append(labels, "first:rtp-or-raw-frame")
			default:
				labels = append(labels, "first:raw")
			}
		}
	}
	return
}

func classifyRtsp(c RtspCase) (bool, []string) {
	labels := []string{"stage:" + c.Stage}
	if c.Udp {
		labels = append(labels, lbl("transport:udp-mix%d", c.UdpMix))
		if c.Stage == "setup" || c.Stage == "recording" {
			labels = append(labels, "udp-datagrams-to-publisher-rtp-rtcp-sockets")
		}
		if c.Stage == "subsetup" || c.Stage == "playing" {
			labels = append(labels, "udp-datagrams-to-subscriber-rtp-rtcp-sockets")
		}
	}
	if c.PrefixSdp != nil {
		labels = append(labels, "prefix-sdp:hostile-but-accepted")
		labels = append(labels, c.PrefixSdp.accLabels()...)
		if c.Stage == "setup" || c.Stage == "recording" {
			for _, st := range c.Steps {
				if st.Frame != nil && st.Frame.Rtp != nil {
					labels = append(labels, "prefix-sdp:followed-by-matching-rtp")
					break
				}
			}
		}
	}
	if len(c.Ticks) > 0 {
		labels = append(labels, "ticks:after-prefix")
	}
	if len(c.TicksAfter) > 0 {
		labels = append(labels, "ticks:after-tail")
	}
	for _, tk := range append(append([]uint32{}, c.Ticks...), c.TicksAfter...) {
		if tk%120 == 0 {
			labels = append(labels, "ticks:alive-check")
			break
		}
	}
	sl, hostile := c.stepLabels()
	labels = append(labels, sl...)
	labels = append(labels, sandwichLabels(c.Steps)...)
	if f := c.Flood; f != nil {
		hostile = true
		switch {
		case f.Cached >= 1023:
			labels = append(labels, "flood:gap+cached>=reorder-capacity-1")
		case f.Cached >= 127:
			labels = append(labels, "flood:gap+cached>=interleave-capacity-1")
		default:
			labels = append(labels, "flood:gap+cached-few")
		}
		if f.Gap == "none" {
			labels = append(labels, "flood:gap-never-filled")
		}
	}
	labels = append(labels, c.Mut.labels()...)
	if len(c.Slices) > 0 {
		labels = append(labels, "tcp-sliced")
	}
	// any request after the valid prefix is out of order or repeated by construction
	return len(c.Steps) > 0 && (hostile || c.Mut.active() || len(c.Steps) > 0), uniq(labels)
}

func TestRtspCommand(t *testing.T) {
	resetNotes()
	pbt.Run(t, pbt.Spec[RtspCase]{
		ID: "C13", Name: "rtsp-command", Gen: genRtspCase, Run: runRtsp, Classify: classifyRtsp, Isolate: true,
		Quick: 200, Thorough: 2000,
	})
}
