// C05 — no published media payload can terminate or stall the server.
//
// An accepted publisher (RTMP through the reference client, or a customize
// publisher through ServerManager.AddCustomizePubSession + FeedRtmpMsg) sends
// WELL-FRAMED audio / video / data messages whose PAYLOADS are arbitrary
// (1..6 bytes, truncated sequence headers, AVCC length fields pointing past the
// end, enhanced-RTMP headers of every packet type / fourcc, unknown codec ids,
// mutated valid frames, any timestamp) into a real in-process lal with a
// generated combination of outputs and subscribers of every protocol joining at
// generated points.
//
// Oracle:
//
//	O1  no panic / fatal anywhere in lal (harness-owned goroutines record the
//	    panic -> `panic@<innermost lal function>`; anything else kills the
//	    process and is attributed by the driver: Isolate is set);
//	O2  after every message the publisher is idle again within 5 s + 1 s/MiB,
//	    whatever the timestamp.  A breach is reported as `stall@<lal function>`
//	    only if the all-goroutine dump shows the publishing goroutine still
//	    inside lal; otherwise the run is inconclusive (HarnessError);
//	O2w the WORK a message causes is bounded by its size, not by its timestamp or
//	    by a length field inside it (needs no clock): the number of messages lal
//	    fans out for one published message (counted by the stream hook) is at
//	    most 513 x (1 + messages lal was still holding back), and the bytes
//	    written synchronously to RTSP subscribers / the TS recording stay below a
//	    linear function of the bytes published so far;
//	O3  a second, independent stream on the same manager relays a marker to its
//	    subscriber at generated points between the hostile messages and at the end;
//	F1/F2 (consumers_test.go) every consumer's byte stream (RTMP, FLV, WS-FLV, TS,
//	    WS-TS, RTSP, HLS playlist + segments) stays well-framed for its reference
//	    parser, lal does not drop consumers, and a well-formed tail published
//	    after the hostile messages still arrives.
//
//	P1  lal never ends the publisher's session after a message of the forwarded
//	    domain (`publisher-dropped`); the documented exceptions - a data message
//	    whose first AMF value is not a string closes the publisher, one named
//	    |RtmpSampleAccess is ignored - are generated as an explicit, counted class;
//	F3  "forwarded opaquely": every audio / video record an RTMP / FLV / WS-FLV
//	    consumer receives equals a published message (type, timestamp, payload),
//	    in publication order, each at most once - apart from the AAC lal makes up
//	    when dummy audio is on and the cached headers replayed at a join.
//
// Deliberately NOT asserted: WHICH of the hostile messages a consumer receives
// (dropping is fine, completeness is C01's subject), continuity counters / timing
// of the TS output, whether lal keeps the publisher connected, and nothing
// about data messages outside the domain the RTMP session forwards (first AMF
// value not a string, or "|RtmpSampleAccess").
package c05

import (
	"bytes"
	"encoding/hex"
	"encoding/json"
	"fmt"
	"os"
	"path/filepath"
	"strings"
	"sync"
	"sync/atomic"
	"syscall"
	"testing"
	"time"

	"github.com/q191201771/lal/pkg/base"
	"github.com/q191201771/lal/pkg/hls"
	"github.com/q191201771/lal/pkg/logic"
	"github.com/q191201771/lal/pkg/rtsp"
	"github.com/q191201771/naza/pkg/nazalog"

	"verif/drv/pbt"
	"verif/gen"
	"verif/harness/inproc"
	"verif/harness/lalclient"
)

func init() {
	// RTSP command sessions write through naza's asynchronous queue by default; with a queue size of 0 the
	// DESCRIBE response / RTP packets are written in the calling goroutine, so "publisher idle" implies that
	// whatever lal wanted to send to an RTSP subscriber is already in the subscriber's (unbounded) queue.
	// This only makes the RTSP subscriber's state machine below deterministic.
	rtsp.VerifSetCommandSessionWriteChanSize(0)

	// All-on cases write HLS fragments, playlists and two recordings per case; on a loaded machine the disk is the
	// bottleneck by an order of magnitude.  Scratch directories go to tmpfs when there is one (removed per case).
	if os.Getenv("VERIF_SCRATCH") == "" {
		if st, err := os.Stat("/dev/shm"); err == nil && st.IsDir() {
			if f, err := os.CreateTemp("/dev/shm", "c05probe"); err == nil {
				_ = f.Close()
				_ = os.Remove(f.Name())
				_ = os.Setenv("VERIF_SCRATCH", "/dev/shm")
			}
		}
	}
}

// ---------------------------------------------------------------------------
// case

// HexBytes is a byte slice rendered as a hex string in JSON (readable replays).
type HexBytes []byte

func (h HexBytes) MarshalJSON() ([]byte, error) { return json.Marshal(hex.EncodeToString(h)) }
func (h *HexBytes) UnmarshalJSON(b []byte) error {
	var s string
	if err := json.Unmarshal(b, &s); err != nil {
		return err
	}
	d, err := hex.DecodeString(s)
	*h = d
	return err
}

type Patch struct {
	Off   int      `json:"off"`
	Bytes HexBytes `json:"bytes"`
}

// Msg is one published message.  The payload is
//
//	base  = Item rendered with the case's codecs, or Raw
//	base  = base[:Trunc]            (if 0 < Trunc < len)
//	base  = base with Patch applied (bytes beyond the end are ignored)
//	base  = base[:RepFrom] + Rep x base[RepFrom:]   (if Rep > 1)
//	final = base + gen.Bytes(TailSeed, TailLen)
type Msg struct {
	Type     uint8     `json:"type"` // 8 audio, 9 video, 18 data
	Ts       uint32    `json:"ts"`
	Class    string    `json:"class"`            // payload class (evidence label)
	Incons   bool      `json:"incons,omitempty"` // an internal length field is inconsistent with the payload by construction
	Item     *gen.Item `json:"item,omitempty"`
	Raw      HexBytes  `json:"raw,omitempty"`
	Trunc    int       `json:"trunc,omitempty"`
	Patch    []Patch   `json:"patch,omitempty"`
	TailSeed uint32    `json:"tail_seed,omitempty"`
	TailLen  int       `json:"tail_len,omitempty"`
	Fmt      int       `json:"fmt,omitempty"` // chunk header format wish (RTMP path)
	// Rep > 0: the bytes base[RepFrom:] are repeated Rep times in total (many tiny units in one payload)
	RepFrom int `json:"rep_from,omitempty"`
	Rep     int `json:"rep,omitempty"`
}

func (m Msg) Payload(cd gen.Codecs) []byte {
	var b []byte
	if m.Item != nil {
		b = append(b, m.Item.Payload(cd)...)
	} else {
		b = append(b, m.Raw...)
	}
	if m.Trunc > 0 && m.Trunc < len(b) {
		b = b[:m.Trunc]
	}
	for _, p := range m.Patch {
		for i, x := range p.Bytes {
			if p.Off+i >= 0 && p.Off+i < len(b) {
				b[p.Off+i] = x
			}
		}
	}
	if m.Rep > 1 && m.RepFrom >= 0 && m.RepFrom < len(b) {
		unit := append([]byte(nil), b[m.RepFrom:]...)
		for i := 1; i < m.Rep; i++ {
			b = append(b, unit...)
		}
	}
	if m.TailLen > 0 {
		b = append(b, gen.Bytes(m.TailSeed, m.TailLen)...)
	}
	return b
}

type Out struct {
	Rtmp   bool `json:"rtmp"`
	Flv    bool `json:"flv"`
	Ts     bool `json:"ts"`
	Hls    bool `json:"hls"`
	Rtsp   bool `json:"rtsp"`
	RecFlv bool `json:"rec_flv"`
	RecTs  bool `json:"rec_ts"`
	Dummy  bool `json:"dummy"`
	WaitMs int  `json:"dummy_wait_ms"`
	Hook   bool `json:"hook"`
	// secondary knobs
	Gop    int `json:"gop"`     // gop_num of the three GOP caches
	GopMax int `json:"gop_max"` // single_gop_max_frame_num
	Merge  int `json:"merge"`   // rtmp merge_write_size
	// hls fragment_duration_ms (0 = 1000)
	HlsFragMs int `json:"hls_frag_ms,omitempty"`
	// hls sub-session mode (playlist requests are redirected to a URL with a session id)
	HlsSession bool `json:"hls_session,omitempty"`
}

func (o Out) count() int {
	n := 0
	for _, b := range []bool{o.Rtmp, o.Flv, o.Ts, o.Hls, o.Rtsp, o.RecFlv, o.RecTs, o.Dummy, o.Hook} {
		if b {
			n++
		}
	}
	return n
}

func (o Out) all() bool { return o.count() == 9 }

type Sub struct {
	Kind   string `json:"kind"`    // rtmp | flv | wsflv | ts | wsts | rtsp | hls
	JoinAt int    `json:"join_at"` // -1 before the publisher; k: after msgs[0..k) were processed
}

type Case struct {
	Path       string     `json:"path"` // rtmp | customize
	PubChunk   int        `json:"pub_chunk"`
	Out        Out        `json:"out"`
	Codecs     gen.Codecs `json:"codecs"`
	Msgs       []Msg      `json:"msgs"`
	Subs       []Sub      `json:"subs"`
	OtherEarly bool       `json:"other_early"`      // the independent stream is set up before the hostile one
	Probes     []int      `json:"probes,omitempty"` // the independent stream is probed after these messages (and at the end)
}

// ---------------------------------------------------------------------------
// domain helpers

func amfStr(s string) []byte { return append([]byte{2, byte(len(s) >> 8), byte(len(s))}, s...) }

// amfFirstString returns the first AMF0 value of b if it is a complete
// (short or long) string, and the number of bytes it occupies.
func amfFirstString(b []byte) (string, int, bool) {
	if len(b) < 1 {
		return "", 0, false
	}
	switch b[0] {
	case 2:
		if len(b) < 3 {
			return "", 0, false
		}
		l := int(b[1])<<8 | int(b[2])
		if len(b) < 3+l {
			return "", 0, false
		}
		return string(b[3 : 3+l]), 3 + l, true
	case 12:
		if len(b) < 5 {
			return "", 0, false
		}
		l := int(b[1])<<24 | int(b[2])<<16 | int(b[3])<<8 | int(b[4])
		if l < 0 || len(b) < 5+l {
			return "", 0, false
		}
		return string(b[5 : 5+l]), 5 + l, true
	}
	return "", 0, false
}

// inDomain: the RTMP session forwards audio, video, and data messages whose
// first AMF value is a string other than "|RtmpSampleAccess" (anything else
// closes the publisher or is ignored, by documented design).
func inDomain(typ uint8, payload []byte) bool {
	switch typ {
	case gen.TypeAudio, gen.TypeVideo:
		return true
	case gen.TypeData:
		s, _, ok := amfFirstString(payload)
		return ok && s != "|RtmpSampleAccess"
	}
	return false
}

// ---------------------------------------------------------------------------
// oracle

const hostileStream = "c05stream"
const otherStream = "c05other"

var tainted atomic.Bool // a stalled case left a goroutine spinning inside lal: nothing else may be judged in this process

// procCPU is the CPU time (user + system) this process has consumed so far.
func procCPU() time.Duration {
	var ru syscall.Rusage
	if syscall.Getrusage(syscall.RUSAGE_SELF, &ru) != nil {
		return 1 << 62 // unknown: never extend a bound
	}
	return time.Duration(ru.Utime.Nano() + ru.Stime.Nano())
}

func bound(n int) time.Duration {
	return 5*time.Second + time.Duration(n)*time.Second/(1<<20)
}

// feeder abstracts the two publisher kinds.
type feeder interface {
	// send publishes one message and waits (bounded) until lal has processed it.
	// idle=false: the bound was exceeded.  gone=true: lal ended the session.
	send(m Msg, payload []byte) (idle bool, gone bool)
	close(s *inproc.Server)
}

type rtmpFeeder struct{ p *lalclient.Publisher }

func (f *rtmpFeeder) send(m Msg, payload []byte) (bool, bool) {
	if err := f.p.Send(m.Type, m.Ts, payload, m.Fmt); err != nil {
		return true, true
	}
	cpu0, b := procCPU(), bound(len(payload))
	for round := 0; !f.p.Conn.WaitPeerIdle(b); round++ {
		// O2 bounds lal's work, not the machine: while this process was given less CPU time than the bound since the
		// message was sent (other shards and jobs, hypervisor steal) the wait goes on, for at most six more bounds
		if procCPU()-cpu0 >= b || round >= 6 {
			return false, false
		}
		pbt.Count("bound-extended-process-starved-of-cpu", 1)
	}
	return true, f.p.Conn.PeerGone()
}

func (f *rtmpFeeder) close(s *inproc.Server) {
	f.p.Close()
	f.p.Conn.WaitPeerDone(10 * time.Second)
}

type customizeFeeder struct {
	ctx  logic.ICustomizePubSessionContext
	in   chan base.RtmpMsg
	ack  chan error
	done chan struct{}
}

func newCustomizeFeeder(s *inproc.Server, name string) (*customizeFeeder, error) {
	var ctx logic.ICustomizePubSessionContext
	var err error
	if s.Call("customize-add", func() { ctx, err = s.SM.AddCustomizePubSession(name) }) {
		return nil, fmt.Errorf("panic")
	}
	if err != nil {
		return nil, err
	}
	f := &customizeFeeder{ctx: ctx, in: make(chan base.RtmpMsg), ack: make(chan error, 1)}
	f.done = s.Go("customize-feed", func() {
		for m := range f.in {
			f.ack <- ctx.FeedRtmpMsg(m)
		}
	})
	return f, nil
}

func csid(typ uint8) int {
	switch typ {
	case gen.TypeAudio:
		return 4
	case gen.TypeVideo:
		return 6
	}
	return 5
}

func (f *customizeFeeder) send(m Msg, payload []byte) (bool, bool) {
	msg := base.RtmpMsg{Header: base.RtmpHeader{Csid: csid(m.Type), MsgLen: uint32(len(payload)), MsgTypeId: m.Type, MsgStreamId: 1, TimestampAbs: m.Ts}, Payload: payload}
	t := time.NewTimer(bound(len(payload)))
	defer t.Stop()
	select {
	case f.in <- msg:
	case <-f.done:
		return true, true
	case <-t.C:
		return false, false
	}
	cpu0 := procCPU()
	for round := 0; ; round++ {
		select {
		case err := <-f.ack:
			return true, err != nil // lal refuses further input: the customize publisher was dropped
		case <-f.done: // the feeding goroutine ended (recovered panic)
			return true, true
		case <-t.C:
			// same rule as for the rtmp feeder: the bound is on lal's work, a process starved of CPU waits on
			if procCPU()-cpu0 >= bound(len(payload)) || round >= 6 {
				return false, false
			}
			pbt.Count("bound-extended-process-starved-of-cpu", 1)
			t.Reset(bound(len(payload)))
		}
	}
}

func (f *customizeFeeder) close(s *inproc.Server) {
	select {
	case <-f.done:
	default:
		close(f.in)
		<-f.done
	}
	s.Call("customize-del", func() { s.SM.DelCustomizePubSession(f.ctx) })
}

func pick(v, def int) int {
	if v == 0 {
		return def
	}
	return v
}

func toCfg(o Out) inproc.Config {
	cfg := inproc.Config{
		DisableRtmp: !o.Rtmp, DisableFlv: !o.Flv, DisableTs: !o.Ts, DisableRtsp: !o.Rtsp,
		Hls: o.Hls, HlsFragmentMs: pick(o.HlsFragMs, 1000), HlsFragmentNum: 3,
		RecordFlv: o.RecFlv, RecordTs: o.RecTs,
		DummyAudio: o.Dummy, DummyAudioWaitMs: o.WaitMs,
		RtmpGopNum: o.Gop, FlvGopNum: o.Gop, TsGopNum: o.Gop,
		RtmpGopMaxFrame: o.GopMax, FlvGopMaxFrame: o.GopMax, TsGopMaxFrame: o.GopMax,
		RtmpMergeWrite: o.Merge,
	}
	if o.HlsSession {
		cfg.Mod = func(c *logic.Config) {
			c.HlsConfig.SubSessionHashKey = "c05"
			c.HlsConfig.SubSessionTimeoutMs = 30000
		}
	}
	return cfg
}

// ---------------------------------------------------------------------------
// the stream hook as a work counter: lal calls OnMsg once for every message it
// fans out (published ones and the dummy audio it makes up), synchronously in
// the publishing goroutine.

type hookStat struct {
	n      int // messages fanned out
	held   int // video + data messages fanned out (the kinds the dummy-audio filter may hold back)
	bytes  int64
	starts int
	stops  int
}

type hookRec struct {
	mu sync.Mutex
	by map[string]*hookStat
}

type hookCtx struct {
	r      *hookRec
	stream string
}

func (h *hookCtx) OnMsg(msg base.RtmpMsg) {
	h.r.mu.Lock()
	st := h.r.by[h.stream]
	st.n++
	st.bytes += int64(len(msg.Payload))
	if msg.Header.MsgTypeId == gen.TypeVideo || msg.Header.MsgTypeId == gen.TypeData {
		st.held++
	}
	h.r.mu.Unlock()
}

func (h *hookCtx) OnStop() {
	h.r.mu.Lock()
	h.r.by[h.stream].stops++
	h.r.mu.Unlock()
}

func (r *hookRec) get(stream string) hookStat {
	r.mu.Lock()
	defer r.mu.Unlock()
	if st := r.by[stream]; st != nil {
		return *st
	}
	return hookStat{}
}

// maxFanOut: what one published message may make lal fan out, whatever its timestamp: itself, a made-up AAC
// sequence header, and silence for at most the 10 s lal fills (one frame per 21.3 ms = 469), rounded up.
const maxFanOut = 513

// env is the server a case is driven against: a fresh one per generated case, a
// shared one (fresh stream name per input) in the native fuzz target.
type env struct {
	s       *inproc.Server
	stream  string        // name of the hostile stream
	other   *otherStreamT // the independent stream (created on demand, kept)
	seq     int           // marker sequence number on the independent stream
	hook    *hookRec      // nil when the stream hook output is off
	hlsH    *hls.ServerHandler
	stalled bool
}

// lalLogFile: development aid (C05_LAL_LOG=1): lal's own log (info level) goes to a per-process file whose tail
// is attached to a publisher-dropped violation.
var lalLogFile = ""

func newEnv(o Out, stream string) *env {
	e := &env{s: inproc.New(toCfg(o)), stream: stream}
	if os.Getenv("C05_LAL_LOG") != "" {
		lalLogFile = fmt.Sprintf("/tmp/c05lal-%d.log", os.Getpid())
		_ = os.Remove(lalLogFile)
		_ = nazalog.Init(func(op *nazalog.Option) {
			op.Level = nazalog.LevelInfo
			op.Filename = lalLogFile
			op.IsToStdout = false
			op.AssertBehavior = nazalog.AssertError
		})
	}
	if o.Hook {
		e.hook = &hookRec{by: map[string]*hookStat{}}
		e.s.SM.WithOnHookSession(func(uniqueKey, streamName string) logic.ICustomizeHookSessionContext {
			e.hook.mu.Lock()
			if e.hook.by[streamName] == nil {
				e.hook.by[streamName] = &hookStat{}
			}
			e.hook.by[streamName].starts++
			e.hook.mu.Unlock()
			return &hookCtx{r: e.hook, stream: streamName}
		})
	}
	return e
}

func run(c Case) *pbt.Violation {
	if tainted.Load() {
		// A previous case of this process stalled inside lal (reported).  The process is about to exit; rapid's
		// shrinking attempts in between must not be judged in a process where a goroutine spins inside lal.
		return nil
	}
	e := newEnv(c.Out, hostileStream)
	s := e.s
	v := drive(e, c)
	if e.stalled {
		_ = os.RemoveAll(s.Dir) // Close would block on the group lock held by the spinning goroutine
		return v
	}
	if v == nil && e.other != nil {
		e.other.close()
		v = s.PanicViolation()
	}
	s.Close()
	return v
}

// tail is the well-formed epilogue published on the hostile stream after the generated messages: fresh
// sequence headers, an audio frame, a key frame carrying a unique unit (the marker) and filler.  It always has
// video (AVC when the skeleton is audio-only): hostile video messages may have made lal treat the stream as one
// with video, whose new consumers wait for a key frame.
func tail(c Case, lastTs uint32) (cd gen.Codecs, items []gen.Item, marker int) {
	cd = c.Codecs
	if cd.Video == "" {
		cd.Video = "avc"
	}
	ts := lastTs + 40
	k, n := []byte{0x65}, []byte{0x41}
	if cd.Video == "hevc" {
		k, n = []byte{19 << 1, 1}, []byte{1 << 1, 1}
	}
	items = append(items, gen.Item{Kind: "vsh", Ts: ts})
	if cd.Audio == "aac" {
		items = append(items, gen.Item{Kind: "ash", Ts: ts})
	}
	if cd.Audio != "" {
		items = append(items, gen.Item{Kind: "audio", Ts: ts, ALen: 48, ASeed: 98000001})
	}
	marker = len(items)
	items = append(items,
		gen.Item{Kind: "video", Ts: ts, Key: true, Nals: []gen.NalSpec{{Hdr: k, Len: 48, Seed: 98000003, Serial: 98000003}}},
		gen.Item{Kind: "video", Ts: ts + 40, Nals: []gen.NalSpec{{Hdr: n, Len: c.Out.Merge + 64, Seed: 98000004, Serial: 98000004}}})
	if c.Out.Dummy {
		// An enabled dummy-audio filter holds video back until the video timeline has advanced by its wait time
		// (<= 300 ms) past the first video message it saw - which may have been a hostile one with any timestamp.
		// Two later frames, 560 ms apart, cannot both fall short of that in modulo-2^32 arithmetic.
		items = append(items,
			gen.Item{Kind: "video", Ts: ts + 440, Nals: []gen.NalSpec{{Hdr: n, Len: 16, Seed: 98000005, Serial: 98000005}}},
			gen.Item{Kind: "video", Ts: ts + 1000, Nals: []gen.NalSpec{{Hdr: n, Len: 16, Seed: 98000006, Serial: 98000006}}})
	}
	return
}

func drive(e *env, c Case) *pbt.Violation {
	s := e.s
	// ---- the independent stream -------------------------------------------------
	if c.OtherEarly && e.other == nil {
		var v *pbt.Violation
		if e.other, v = startOther(s); v != nil {
			return v
		}
	}
	probe := func() *pbt.Violation {
		if e.other == nil {
			var v *pbt.Violation
			if e.other, v = startOther(s); v != nil {
				return v
			}
		}
		e.seq++
		pbt.Count("other-stream-probes", 1)
		return e.other.relayMarker(s, c.Out.Merge, e.seq)
	}
	probeAt := map[int]bool{}
	for _, k := range c.Probes {
		probeAt[k] = true
	}

	// ---- subscribers ------------------------------------------------------------
	var subs []*subT
	defer func() {
		if e.stalled {
			return
		}
		for _, sb := range subs {
			sb.close()
		}
	}()
	joinAt := func(k int) *pbt.Violation {
		for _, sp := range c.Subs {
			if sp.JoinAt != k {
				continue
			}
			sb, v := joinSub(e, sp.Kind)
			subs = append(subs, sb)
			if v != nil {
				return v
			}
		}
		return nil
	}
	if v := joinAt(-1); v != nil {
		return v
	}

	// ---- the publisher ------------------------------------------------------------
	var f feeder
	closed := false
	defer func() {
		if f != nil && !closed && !e.stalled {
			f.close(s) // a violation was found on the way: do not leave the feeding goroutine behind
		}
	}()
	switch c.Path {
	case "customize":
		cf, err := newCustomizeFeeder(s, e.stream)
		if v := s.PanicViolation(); v != nil {
			return v
		}
		if err != nil {
			panic(pbt.HarnessError{Msg: "customize publisher refused: " + err.Error()})
		}
		f = cf
	default:
		p := lalclient.NewPublisher(s, "live", e.stream, c.PubChunk)
		if v := s.PanicViolation(); v != nil {
			return v
		}
		if p.Err != nil {
			panic(pbt.HarnessError{Msg: "rtmp publisher refused: " + p.Err.Error()})
		}
		f = &rtmpFeeder{p: p}
	}

	// ---- work accounting (O2w) -----------------------------------------------------
	var (
		cumIn     int64 // payload bytes published so far
		pubHeld   int   // non-empty video + data messages published so far
		nsent     int
		maxDelta  int
		tsRecFile string
	)
	dummyAllow := func(perFrame int64) int64 {
		if !c.Out.Dummy {
			return 0
		}
		return perFrame * maxFanOut * int64(nsent)
	}
	work := func(k int, m Msg, n int, before hookStat) *pbt.Violation {
		if e.hook != nil {
			after := e.hook.get(e.stream)
			delta := after.n - before.n
			if delta > maxDelta {
				maxDelta = delta
			}
			heldBefore := pubHeld - before.held
			if m.Type != gen.TypeAudio && n > 0 {
				heldBefore-- // the message itself
			}
			if heldBefore < 0 {
				heldBefore = 0
			}
			pbt.Count("fan-out-judged-messages", 1)
			if allow := maxFanOut * (1 + heldBefore); delta > allow {
				return pbt.V("work/fan-out-not-bounded-by-size", "message %d (type %d ts %d class %s, %d bytes) made lal fan out %d messages (stream hook calls); at most %d x (1 + %d held back) = %d can be explained by its size (timestamps of the last messages: %s)",
					k, m.Type, m.Ts, m.Class, n, delta, maxFanOut, heldBefore, allow, lastTimestamps(c.Msgs, k))
			}
		}
		for _, sb := range subs {
			if got := sb.syncBytes(); got >= 0 {
				if allow := 8192 + 8*cumIn + 128*int64(nsent) + dummyAllow(64); got > allow {
					return pbt.V("work/rtsp-output-not-bounded-by-size", "after message %d (type %d class %s, %d bytes; %d bytes published in %d messages) lal has written %d bytes to an RTSP subscriber, more than 8 KiB + 8 x input + 128 B/message%s = %d",
						k, m.Type, m.Class, n, cumIn, nsent, got, map[bool]string{true: " + dummy audio allowance", false: ""}[c.Out.Dummy], allow)
				}
			}
		}
		if c.Out.RecTs {
			if tsRecFile == "" {
				if fs, _ := filepath.Glob(filepath.Join(s.Dir, "ts", e.stream+"-*.ts")); len(fs) > 0 {
					tsRecFile = fs[0]
				}
			}
			if tsRecFile != "" {
				if st, err := os.Stat(tsRecFile); err == nil {
					if allow := 8192 + 3*cumIn + 1504*int64(nsent) + dummyAllow(376); st.Size() > allow {
						return pbt.V("work/ts-output-not-bounded-by-size", "after message %d (type %d class %s, %d bytes; %d bytes published in %d messages) the TS recording holds %d bytes, more than 8 KiB + 3 x input + 8 packets/message%s = %d",
							k, m.Type, m.Class, n, cumIn, nsent, st.Size(), map[bool]string{true: " + dummy audio allowance", false: ""}[c.Out.Dummy], allow)
					}
				}
			}
		}
		return nil
	}

	// send publishes one message and applies O1, O2, O2w, P1.
	var published []pubRec
	gone := false
	var lastTs uint32
	send := func(k int, m Msg, payload []byte) *pbt.Violation {
		var before hookStat
		if e.hook != nil {
			before = e.hook.get(e.stream)
		}
		cumIn += int64(len(payload))
		nsent++
		if m.Type != gen.TypeAudio && len(payload) > 0 {
			pubHeld++
		}
		idle, g := f.send(m, payload)
		if v := s.PanicViolation(); v != nil {
			v.Detail = fmt.Sprintf("message %d (type %d ts %d class %s payload %s): %s", k, m.Type, m.Ts, m.Class, prefixHex(payload, 48), v.Detail)
			return v
		}
		if !idle {
			e.stalled = true
			tainted.Store(true)
			return stallViolation(k, m, payload)
		}
		gone = g
		lastTs = m.Ts
		if rf, ok := f.(*rtmpFeeder); ok && !gone && strings.HasPrefix(m.Class, "doc-close/") {
			// "idle" is also reported the instant lal closes its read side, a moment before the connection counts as
			// gone: a documented close is given time to complete, so that it is not charged to the next message
			gone = rf.p.Conn.WaitPeerDone(5 * time.Second)
		}
		if (m.Type == gen.TypeAudio || m.Type == gen.TypeVideo) && len(payload) > 0 {
			published = append(published, pubRec{typ: m.Type, ts: m.Ts, payload: payload})
		}
		if gone {
			if strings.HasPrefix(m.Class, "doc-close/") {
				pbt.Count("publisher-closed-by-documented-case", 1)
			} else {
				// P1: an in-domain message is dropped or forwarded, the session goes on
				return withLalLog(pbt.V("publisher-dropped", "lal ended the publisher's session (%s path) after message %d (type %d ts %d class %s, %d bytes %s), a well-framed message of the forwarded domain; the property lets lal drop or forward the payload, not the publisher (%d messages were still to come)",
					c.Path, k, m.Type, m.Ts, m.Class, len(payload), prefixHex(payload, 48), len(c.Msgs)-1-k))
			}
		} else if strings.HasPrefix(m.Class, "doc-close/") {
			pbt.Count("documented-close-case-not-closed", 1)
		}
		for _, sb := range subs {
			sb.pump()
		}
		if v := s.PanicViolation(); v != nil {
			return v
		}
		return work(k, m, len(payload), before)
	}

	for k := 0; k <= len(c.Msgs); k++ {
		if v := joinAt(k); v != nil {
			return v
		}
		if k == len(c.Msgs) || gone {
			continue
		}
		m := c.Msgs[k]
		payload := m.Payload(c.Codecs)
		if documented := strings.HasPrefix(m.Class, "doc-"); documented && c.Path != "rtmp" {
			panic(pbt.HarnessError{Msg: "documented close / ignore cases exist on the RTMP path only"})
		} else if !documented && !inDomain(m.Type, payload) {
			panic(pbt.HarnessError{Msg: fmt.Sprintf("message %d (type %d, %d bytes, class %s) is outside the property's domain", k, m.Type, len(payload), m.Class)})
		}
		if v := send(k, m, payload); v != nil {
			return v
		}
		if probeAt[k] {
			if v := probe(); v != nil {
				v.Detail = fmt.Sprintf("probe after message %d (type %d ts %d class %s payload %s): %s", k, m.Type, m.Ts, m.Class, prefixHex(payload, 32), v.Detail)
				return v
			}
		}
	}

	// ---- F1 / F2: consumers -------------------------------------------------------------
	// A burst of made-up audio larger than lal's write queues may legitimately cost a consumer some messages
	// (C15's subject): delivery and "not dropped" are only judged when bursts were demonstrably small.
	calm := !c.Out.Dummy || (e.hook != nil && maxDelta <= 300)
	if calm {
		for _, sb := range subs {
			if sb.lost() {
				if v := sb.framing(e); v != nil {
					return v
				}
				return pbt.V("consumer-dropped/"+sb.kind, "lal ended the connection of a %s consumer of the hostile stream although its transport never stalled", sb.kind)
			}
		}
	}
	if !gone {
		for _, sb := range subs {
			sb.beforeTail(c.Codecs.Video)
		}
		cd, items, mk := tail(c, lastTs)
		for i, it := range items {
			m := Msg{Type: it.TypeID(), Ts: it.Ts, Class: "tail/" + it.Kind, Raw: it.Payload(cd)}
			if v := send(len(c.Msgs)+i, m, m.Raw); v != nil {
				return v
			}
			if gone {
				break
			}
		}
		if !gone && calm {
			markerPayload := items[mk].Payload(cd)
			markerNal := items[mk].Nals[0].Bytes()
			for _, sb := range subs {
				if v := sb.delivered(markerPayload, markerNal); v != nil {
					return v
				}
			}
		}
	}
	for _, sb := range subs {
		if v := sb.framing(e); v != nil {
			return v
		}
		if v := sb.forwarded(published, c.Out.Dummy); v != nil {
			return v
		}
	}

	// ---- O3: an independent stream still relays ---------------------------------------
	if v := probe(); v != nil {
		return v
	}

	// ---- teardown of the hostile publisher (flushes remuxers, closes files) ------------
	f.close(s)
	closed = true
	if v := s.PanicViolation(); v != nil {
		v.Detail = "during publisher teardown: " + v.Detail
		return v
	}
	// the final flush must leave well-framed streams too
	for _, sb := range subs {
		if sb.hl != nil {
			continue
		}
		if v := sb.framing(e); v != nil {
			v.Detail = "after the publisher left: " + v.Detail
			return v
		}
	}
	return nil
}

func lastTimestamps(msgs []Msg, k int) string {
	var b strings.Builder
	for i := k - 3; i <= k && i < len(msgs); i++ {
		if i >= 0 {
			fmt.Fprintf(&b, "%d:%d/%d ", i, msgs[i].Type, msgs[i].Ts)
		}
	}
	return b.String()
}

func prefixHex(b []byte, n int) string {
	if len(b) > n {
		return fmt.Sprintf("%x...(%d bytes)", b[:n], len(b))
	}
	return fmt.Sprintf("%x", b)
}

// ---------------------------------------------------------------------------
// stall attribution

var pubMarkers = []string{
	"pkg/logic.(*Group).OnReadRtmpAvMsg",
	"pkg/rtmp.(*ServerSession).doMsg",
	"pkg/logic.(*CustomizePubSessionContext).FeedRtmpMsg",
}

type gor struct {
	id     string
	state  string
	frames []string // lal function names, innermost first
	calls  []string // the same frames with their printed arguments ("fn(0x..., ...)")
	raw    string
}

func parseDump(dump string) []gor {
	var out []gor
	for _, blk := range strings.Split(dump, "\n\n") {
		blk = strings.TrimSpace(blk)
		if !strings.HasPrefix(blk, "goroutine ") {
			continue
		}
		lines := strings.Split(blk, "\n")
		hdr := strings.Fields(lines[0])
		g := gor{raw: blk}
		if len(hdr) >= 2 {
			g.id = hdr[1]
		}
		if i := strings.Index(lines[0], "["); i >= 0 {
			g.state = strings.TrimSuffix(strings.TrimSpace(lines[0][i:]), ":")
		}
		for _, l := range lines[1:] {
			if strings.HasPrefix(l, "\t") || strings.HasPrefix(l, " ") {
				continue
			}
			if strings.HasPrefix(l, "github.com/q191201771/lal/") {
				fn := strings.TrimPrefix(l, "github.com/q191201771/lal/")
				g.calls = append(g.calls, fn)
				if i := strings.LastIndex(fn, "("); i > 0 {
					fn = fn[:i]
				}
				g.frames = append(g.frames, strings.TrimSuffix(fn, ".func1"))
			}
		}
		out = append(out, g)
	}
	return out
}

func isPublishing(g gor) bool {
	for _, m := range pubMarkers {
		for _, f := range g.frames {
			if f == m {
				return true
			}
		}
	}
	return false
}

// stallViolation: the bound was exceeded.  It is a violation only if the
// publishing goroutine is still inside lal.  The signature names the innermost
// lal call that stays on its stack unchanged (same function, same printed
// arguments) over several samples, i.e. the function that loops or blocks -
// not whatever the loop body happens to be doing when a dump is taken.  Frames
// inlined into their caller ("fn(...)") are attributed to the caller.
func stallViolation(k int, m Msg, payload []byte) *pbt.Violation {
	var first *gor
	var common []string // calls, outermost first
	for i := 0; i < 8; i++ {
		gs := parseDump(pbt.AllGoroutines())
		var cur *gor
		for j := range gs {
			if first == nil && isPublishing(gs[j]) {
				cur = &gs[j]
				break
			}
			if first != nil && gs[j].id == first.id {
				cur = &gs[j]
				break
			}
		}
		if cur == nil || len(cur.frames) == 0 {
			break // not (or no longer) inside lal
		}
		rev := make([]string, len(cur.calls))
		for a, fn := range cur.calls {
			rev[len(cur.calls)-1-a] = fn
		}
		if first == nil {
			first = cur
			common = rev
		} else {
			n := 0
			for n < len(common) && n < len(rev) && common[n] == rev[n] {
				n++
			}
			common = common[:n]
		}
		time.Sleep(25 * time.Millisecond)
	}
	fn := ""
	for i := len(common) - 1; i >= 0 && fn == ""; i-- {
		if strings.HasSuffix(common[i], "(...)") {
			continue
		}
		fn = common[i]
		if j := strings.LastIndex(fn, "("); j > 0 {
			fn = fn[:j]
		}
		fn = strings.TrimSuffix(fn, ".func1")
	}
	if first == nil || fn == "" {
		panic(pbt.HarnessError{Msg: fmt.Sprintf("message %d (%d bytes) not processed within %v but no goroutine is publishing inside lal: slow machine or harness fault (inconclusive)", k, len(payload), bound(len(payload)))})
	}
	raw := first.raw
	if len(raw) > 2500 {
		raw = raw[:2500] + "..."
	}
	return pbt.V("stall@"+fn, "message %d (type %d ts %d class %s, %d bytes %s) was not processed within %v; the publishing goroutine is still inside lal (%s):\n%s",
		k, m.Type, m.Ts, m.Class, len(payload), prefixHex(payload, 32), bound(len(payload)), first.state, raw)
}

// ---------------------------------------------------------------------------
// the independent stream

type otherStreamT struct {
	p   *lalclient.Publisher
	sub *lalclient.Consumer
}

func startOther(s *inproc.Server) (*otherStreamT, *pbt.Violation) {
	sub := lalclient.NewRtmpSub(s, "live", otherStream)
	if v := s.PanicViolation(); v != nil {
		return nil, v
	}
	if err := sub.JoinErr(); err != nil {
		return nil, otherFailure(s, "subscribe", err)
	}
	p := lalclient.NewPublisher(s, "live", otherStream, 4096)
	if v := s.PanicViolation(); v != nil {
		return nil, v
	}
	if p.Err != nil {
		return nil, otherFailure(s, "publish", p.Err)
	}
	return &otherStreamT{p: p, sub: sub}, nil
}

// otherFailure: the independent stream could not be served.  Reported as a
// violation only with corroboration (a goroutine blocked inside lal's manager /
// group code); otherwise inconclusive.
func otherFailure(s *inproc.Server, what string, err error) *pbt.Violation {
	dump := pbt.AllGoroutines()
	for _, g := range parseDump(dump) {
		if len(g.frames) == 0 {
			continue
		}
		if strings.Contains(g.state, "sync.Mutex") || strings.Contains(g.state, "semacquire") || strings.Contains(g.state, "sync.RWMutex") {
			raw := g.raw
			if len(raw) > 2500 {
				raw = raw[:2500]
			}
			return pbt.V("other-stream-blocked@"+g.frames[0], "independent stream: %s failed (%v); a goroutine is blocked inside lal:\n%s", what, err, raw)
		}
	}
	panic(pbt.HarnessError{Msg: fmt.Sprintf("independent stream: %s failed (%v) without a blocked lal goroutine (inconclusive)", what, err)})
}

func (o *otherStreamT) relayMarker(s *inproc.Server, merge int, seq int) *pbt.Violation {
	// the stream has audio, so that an enabled dummy-audio filter leaves its analysis stage at once
	cd := gen.Codecs{Video: "avc", Audio: "aac", AscObj: 2, AscFreq: 4, AscChan: 2}
	ts := uint32(seq) * 100
	sr := uint32(99000000 + seq*10)
	var items []gen.Item
	if seq == 1 {
		items = append(items, gen.Item{Kind: "vsh", Ts: ts}, gen.Item{Kind: "ash", Ts: ts})
	}
	mk := len(items) + 1
	items = append(items,
		gen.Item{Kind: "audio", Ts: ts, ALen: 20, ASeed: sr},
		gen.Item{Kind: "video", Ts: ts + 10, Key: true, Nals: []gen.NalSpec{{Hdr: []byte{0x65}, Len: 40, Seed: sr + 1, Serial: sr + 1}}},
		gen.Item{Kind: "video", Ts: ts + 50, Nals: []gen.NalSpec{{Hdr: []byte{0x41}, Len: merge + 64, Seed: sr + 2, Serial: sr + 2}}},
	)
	got0 := o.sub.Conn.TotalReceived()
	for _, it := range items {
		if err := o.p.SendItem(it, cd, 0); err != nil {
			if v := s.PanicViolation(); v != nil {
				return v
			}
			return otherFailure(s, "send", err)
		}
	}
	if !o.p.Conn.WaitPeerIdle(10 * time.Second) {
		if v := s.PanicViolation(); v != nil {
			return v
		}
		return otherFailure(s, "publisher not drained", fmt.Errorf("timeout"))
	}
	if v := s.PanicViolation(); v != nil {
		return v
	}
	want := items[mk].Payload(cd)
	if o.sub.WaitFor(func(r lalclient.Rec) bool { return r.Type == gen.TypeVideo && bytes.Equal(r.Payload, want) }, lalclient.DeliverTimeout) < 0 {
		if v := s.PanicViolation(); v != nil {
			return v
		}
		if o.sub.Ended() || o.p.Conn.PeerGone() {
			return pbt.V("other-stream/not-relayed", "the independent stream's sessions were ended by lal (subscriber ended=%v, publisher gone=%v); records received: %d", o.sub.Ended(), o.p.Conn.PeerGone(), len(o.sub.Recs()))
		}
		if err := o.sub.Err(); err != nil {
			return pbt.V("other-stream/framing", "the independent stream's subscriber: %v", err)
		}
		// the publisher's session has processed the marker (it is back in Read); corroboration that this is not a
		// slow reader: lal has not written a single byte to the subscriber's connection since
		if got := o.sub.Conn.TotalReceived(); got == got0 {
			return pbt.V("other-stream/not-relayed", "marker %d of the independent stream (key frame + filler, processed by lal) was not relayed: lal wrote 0 bytes to its subscriber in %v (%d records received before)", seq, lalclient.DeliverTimeout, len(o.sub.Recs()))
		}
		return otherFailure(s, "marker not relayed", fmt.Errorf("timeout, %d records received", len(o.sub.Recs())))
	}
	return nil
}

func (o *otherStreamT) close() {
	o.p.Close()
	o.p.Conn.WaitPeerDone(10 * time.Second)
	o.sub.Close()
}

// ---------------------------------------------------------------------------

func TestPublishPayload(t *testing.T) {
	// a stalled case leaves a goroutine spinning inside lal (holding the group lock, producing output
	// without bound): end the process as soon as pbt has written the replay file and the statistics
	t.Cleanup(func() {
		if tainted.Load() {
			fmt.Println("C05: a case stalled inside lal; ending the tainted test process")
			os.Exit(1)
		}
	})
	pbt.Run(t, pbt.Spec[Case]{
		ID: "C05", Name: "publish-payload", Gen: genCase, Run: run, Classify: classify,
		Quick: 3000, Thorough: 10000, Isolate: true,
	})
}

// withLalLog appends the tail of lal's log (C05_LAL_LOG=1) to a violation.
func withLalLog(v *pbt.Violation) *pbt.Violation {
	if lalLogFile == "" {
		return v
	}
	nazalog.Sync()
	b, _ := os.ReadFile(lalLogFile)
	if len(b) > 3500 {
		b = b[len(b)-3500:]
	}
	v.Detail += "\nlal log tail:\n" + string(b)
	return v
}
