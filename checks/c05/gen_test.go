package c05

import (
	"encoding/binary"
	"math"
	"sort"

	"pgregory.net/rapid"

	"verif/drv/pbt"
	"verif/gen"
)

// ---------------------------------------------------------------------------
// generator
//
// A valid elementary stream (gen/es.go) is the skeleton; hostile messages are
// inserted between its items, some of its items are mutated or get their
// timestamp displaced.  Data messages always begin with a complete AMF string
// other than "|RtmpSampleAccess" (the domain the RTMP session forwards).

func be32(v uint32) []byte { b := make([]byte, 4); binary.BigEndian.PutUint32(b, v); return b }

func drawBytes(t *rapid.T, min, max int, label string) []byte {
	return rapid.SliceOfN(rapid.Byte(), min, max).Draw(t, label)
}

var specialTs = []uint32{0, 1, 0xFFFFFF - 1, 0xFFFFFF, 0x1000000, 0x7FFFFFFF, 0x80000000, 0xFFFFFFFF, 0xFFFFFFFE, 0xFFFFFFFF - 21, 0xFFFFFFFF - 22, 3600000, 86400000}

func genOut(t *rapid.T) Out {
	var o Out
	if rapid.Bool().Draw(t, "allOn") {
		o = Out{Rtmp: true, Flv: true, Ts: true, Hls: true, Rtsp: true, RecFlv: true, RecTs: true, Dummy: true, Hook: true}
	} else {
		o.Rtmp = rapid.Bool().Draw(t, "oRtmp")
		o.Flv = rapid.Bool().Draw(t, "oFlv")
		o.Ts = rapid.Bool().Draw(t, "oTs")
		o.Hls = rapid.Bool().Draw(t, "oHls")
		o.Rtsp = rapid.Bool().Draw(t, "oRtsp")
		o.RecFlv = rapid.Bool().Draw(t, "oRecFlv")
		o.RecTs = rapid.Bool().Draw(t, "oRecTs")
		o.Dummy = rapid.Bool().Draw(t, "oDummy")
		o.Hook = rapid.Bool().Draw(t, "oHook")
	}
	if o.Dummy {
		o.WaitMs = rapid.SampledFrom([]int{0, 0, 1, 40, 100, 300}).Draw(t, "dummyWait")
	}
	if o.Hls {
		o.HlsFragMs = rapid.SampledFrom([]int{100, 100, 1000, 3000}).Draw(t, "hlsFragMs")
		o.HlsSession = rapid.Bool().Draw(t, "hlsSession")
	}
	o.Gop = rapid.SampledFrom([]int{0, 0, 1, 2}).Draw(t, "gop")
	o.GopMax = rapid.SampledFrom([]int{0, 0, 1, 3}).Draw(t, "gopMax")
	o.Merge = rapid.SampledFrom([]int{0, 0, 0, 300, 4096}).Draw(t, "merge")
	return o
}

// ---- hostile payload classes ------------------------------------------------------

var videoFirst = []byte{0x17, 0x27, 0x1c, 0x2c, 0x17, 0x27, 0x10, 0x20, 0x57, 0x00, 0xff, 0x80, 0x90, 0x91, 0x93, 0xa1, 0xa3, 0x8f, 0x12, 0x14}
var audioFirst = []byte{0xaf, 0xaf, 0xa0, 0xae, 0x72, 0x82, 0xdf, 0x2f, 0x00, 0xff, 0x1f, 0xbf}

var videoCanon = [][]byte{
	{0x17, 0, 0, 0, 0, 1}, {0x17, 1, 0, 0, 0, 0}, {0x27, 1, 0, 0, 0, 0}, {0x17, 2, 0, 0, 0, 0},
	{0x1c, 0, 0, 0, 0, 1}, {0x1c, 1, 0, 0, 0, 0}, {0x2c, 1, 0, 0, 0, 0},
	{0x90, 'h', 'v', 'c', '1', 1}, {0x91, 'h', 'v', 'c', '1', 0}, {0x93, 'h', 'v', 'c', '1', 0}, {0xa1, 'h', 'v', 'c', '1', 0}, {0x92, 'h', 'v', 'c', '1', 0},
	{0x90, 'a', 'v', '0', '1', 0}, {0x91, 'h', 'v', 'c', 0, 0},
}
var audioCanon = [][]byte{
	{0xaf, 0, 0x12, 0x10, 0x56, 0xe5}, {0xaf, 1, 0x21, 0x10, 0x04, 0x60}, {0xaf, 0, 0xff, 0xff, 0xff, 0xff}, {0xaf, 2, 0, 0, 0, 0},
	{0x72, 1, 2, 3, 4, 5}, {0x82, 1, 2, 3, 4, 5}, {0xdf, 1, 2, 3, 4, 5}, {0xdf, 0, 2, 3, 4, 5},
}

func genTiny(t *rapid.T) Msg {
	typ := rapid.SampledFrom([]uint8{9, 9, 9, 8, 8, 18}).Draw(t, "tinyType")
	n := rapid.IntRange(1, 6).Draw(t, "tinyLen")
	m := Msg{Type: typ, Class: "tiny"}
	switch typ {
	case gen.TypeVideo, gen.TypeAudio:
		canon, first := videoCanon, videoFirst
		if typ == gen.TypeAudio {
			canon, first = audioCanon, audioFirst
		}
		if rapid.Bool().Draw(t, "tinyCanon") {
			b := rapid.SampledFrom(canon).Draw(t, "canon")
			m.Raw = append(HexBytes(nil), b[:n]...)
		} else {
			b := []byte{rapid.SampledFrom(first).Draw(t, "first")}
			if rapid.IntRange(0, 5).Draw(t, "rndFirst") == 0 {
				b[0] = rapid.Byte().Draw(t, "firstByte")
			}
			for len(b) < n {
				b = append(b, rapid.SampledFrom([]byte{0, 1, 2, 3, 'h', 'v', 'c', '1', 0xff, 0x80, 0x67, 0x65, 0x40, 0x26}).Draw(t, "next"))
			}
			m.Raw = b
		}
	default:
		// shortest data messages with a complete first string
		variants := [][]byte{{2, 0, 0}, {2, 0, 1, 'x'}, {2, 0, 2, 'o', 'n'}, {2, 0, 3, 'a', 'b', 'c'}, {12, 0, 0, 0, 0}, {12, 0, 0, 0, 1, 'y'}}
		b := append([]byte(nil), rapid.SampledFrom(variants).Draw(t, "tinyData")...)
		for len(b) < n {
			b = append(b, rapid.SampledFrom([]byte{0, 2, 3, 8, 9, 10, 0xff, 5}).Draw(t, "next"))
		}
		m.Raw = b
	}
	return m
}

// seqHeader renders a valid sequence header of the given kind.
func seqHeader(kind string, variant int) (typ uint8, b []byte) {
	switch kind {
	case "avc":
		return gen.TypeVideo, gen.Item{Kind: "vsh", Variant: variant}.Payload(gen.Codecs{Video: "avc"})
	case "hevc":
		return gen.TypeVideo, gen.Item{Kind: "vsh", Variant: variant}.Payload(gen.Codecs{Video: "hevc"})
	case "hevc-enh":
		return gen.TypeVideo, gen.Item{Kind: "vsh", Variant: variant}.Payload(gen.Codecs{Video: "hevc", Enhanced: true})
	default:
		return gen.TypeAudio, gen.Item{Kind: "ash"}.Payload(gen.Codecs{Audio: "aac", AscObj: 2, AscFreq: 4, AscChan: 2})
	}
}

// genAnnexbSeq: a sequence header whose body is not a configuration record but Annex-B data (some encoders send
// that; lal's HEVC parser falls back to scanning for start codes).
func genAnnexbSeq(t *rapid.T) Msg {
	hdr := rapid.SampledFrom([][]byte{{0x1c, 0, 0, 0, 0}, {0x1c, 0, 0, 0, 0}, {0x17, 0, 0, 0, 0}, {0x90, 'h', 'v', 'c', '1'}}).Draw(t, "abHdr")
	b := append([]byte(nil), hdr...)
	vps, sps, pps := gen.ParamSets("hevc", 0)
	if hdr[0] == 0x17 {
		vps, sps, pps = gen.ParamSets("avc", 0)
	}
	n := rapid.IntRange(1, 6).Draw(t, "abUnits")
	for i := 0; i < n; i++ {
		if rapid.IntRange(0, 3).Draw(t, "abStart3") == 0 {
			b = append(b, 0, 0, 1)
		} else {
			b = append(b, 0, 0, 0, 1)
		}
		switch rapid.IntRange(0, 6).Draw(t, "abUnit") {
		case 0:
			b = append(b, vps...)
		case 1:
			b = append(b, sps...)
		case 2:
			b = append(b, pps...)
		case 3:
			// empty unit: two adjacent start codes / a start code at the very end
		case 4:
			b = append(b, sps[:rapid.IntRange(1, len(sps)-1).Draw(t, "abSpsCut")]...)
		default:
			b = append(b, drawBytes(t, 1, 3, "abShort")...)
		}
	}
	for len(b) < 34 && rapid.Bool().Draw(t, "abPad") {
		b = append(b, 0)
	}
	return Msg{Type: gen.TypeVideo, Class: "trunc-seqhdr/annexb", Incons: true, Raw: b}
}

func genTruncSeq(t *rapid.T) Msg {
	if rapid.IntRange(0, 5).Draw(t, "shAnnexb") == 0 {
		return genAnnexbSeq(t)
	}
	kind := rapid.SampledFrom([]string{"avc", "avc", "hevc", "hevc-enh", "aac"}).Draw(t, "shKind")
	typ, full := seqHeader(kind, rapid.IntRange(0, 2).Draw(t, "shVariant"))
	m := Msg{Type: typ, Class: "trunc-seqhdr/" + kind, Incons: true, Raw: full}
	if kind == "aac" {
		switch rapid.IntRange(0, 5).Draw(t, "ascOp") {
		case 0:
			m.Trunc = rapid.IntRange(1, 3).Draw(t, "ascTrunc")
		case 1:
			m.Patch = []Patch{{Off: 2, Bytes: HexBytes{0xff, 0xff}}}
		case 2:
			m.Raw = HexBytes{0xaf, 0, 0xf8, 0x00, 0x00} // object type escape
		case 3:
			m.Raw = HexBytes{0xaf, 0, 0x17, 0x80, 0x00, 0x00, 0x10} // frequency index 15 (explicit frequency)
		case 4:
			m.Patch = []Patch{{Off: 2, Bytes: HexBytes{0, 0}}}
		default:
			m.Patch = []Patch{{Off: 2, Bytes: HexBytes(drawBytes(t, 2, 2, "asc"))}}
		}
		return m
	}
	if rapid.IntRange(0, 2).Draw(t, "shInner") == 0 {
		// a parameter set cut short INSIDE a configuration record whose own length fields are consistent: the record
		// parses, the parameter-set parsers (resolution for the statistics / SDP) get the truncated unit
		m.Class = "trunc-seqhdr/" + kind + "-inner"
		v := rapid.IntRange(0, 2).Draw(t, "innerVariant")
		cutMin := func(b []byte, label string, min int) []byte {
			if rapid.IntRange(0, 2).Draw(t, label+"Keep") == 0 {
				return b
			}
			c := append([]byte(nil), b[:rapid.IntRange(min, len(b)-1).Draw(t, label)]...)
			if rapid.Bool().Draw(t, label+"Cap") {
				// the bit pattern at the very end decides where a bit-level parser runs out of data
				c = append(c, rapid.SampledFrom([]byte{0xff, 0xff, 0x7f, 0x7f, 0x01, 0x03, 0x80, 0x00}).Draw(t, label+"CapByte"))
			}
			return c
		}
		cut := func(b []byte, label string) []byte { return cutMin(b, label, 1) }
		switch kind {
		case "avc":
			_, sps, pps := gen.ParamSets("avc", v)
			m.Raw = append([]byte{0x17, 0, 0, 0, 0}, gen.AvcSeqHeaderBody(cutMin(sps, "cutSps", 4), cut(pps, "cutPps"))...)
		case "hevc":
			vps, sps, pps := gen.ParamSets("hevc", v)
			m.Raw = append([]byte{0x1c, 0, 0, 0, 0}, gen.HevcSeqHeaderBody(cut(vps, "cutVps"), cut(sps, "cutSps"), cut(pps, "cutPps"))...)
		default:
			vps, sps, pps := gen.ParamSets("hevc", v)
			m.Raw = append([]byte{0x90, 'h', 'v', 'c', '1'}, gen.HevcSeqHeaderBody(cut(vps, "cutVps"), cut(sps, "cutSps"), cut(pps, "cutPps"))...)
		}
		return m
	}
	op := rapid.IntRange(0, 2).Draw(t, "shOp")
	if op == 0 || op == 2 {
		if rapid.Bool().Draw(t, "truncEdge") {
			edges := []int{2, 5, 6, 10, 11, 12, 13, 14, 27, 28, 29, 30, 32, len(full) - 1, len(full) - 2, len(full) - 4}
			if kind == "avc" {
				spsLen := int(full[11])<<8 | int(full[12])
				edges = append(edges, 13+spsLen-1, 13+spsLen, 13+spsLen+1, 13+spsLen+2, 13+spsLen+3)
			}
			e := rapid.SampledFrom(edges).Draw(t, "edge")
			if e < 1 {
				e = 1
			}
			if e >= len(full) {
				e = len(full) - 1
			}
			m.Trunc = e
		} else {
			m.Trunc = rapid.IntRange(1, len(full)-1).Draw(t, "truncAt")
		}
	}
	if op == 1 || op == 2 {
		lo := 5
		off := rapid.IntRange(lo, len(full)-1).Draw(t, "patchOff")
		if rapid.Bool().Draw(t, "patchLenField") {
			// the length / count fields of the configuration records
			cands := []int{10, 11, 12}
			if kind == "avc" {
				spsLen := int(full[11])<<8 | int(full[12])
				cands = append(cands, 13+spsLen, 14+spsLen, 15+spsLen)
			} else {
				cands = []int{26, 27, 28, 29, 30, 31, 32}
			}
			off = rapid.SampledFrom(cands).Draw(t, "lenOff")
		}
		val := rapid.SampledFrom([][]byte{{0}, {0xff}, {0xff, 0xff}, {0, 0}, {0xe0}, {0xe2}, {0x7f, 0xff}, {0, 1}}).Draw(t, "patchVal")
		m.Patch = []Patch{{Off: off, Bytes: val}}
	}
	return m
}

func videoHeader(t *rapid.T) []byte {
	cts := []byte{0, 0, byte(rapid.SampledFrom([]int{0, 0, 40, 255}).Draw(t, "cts"))}
	if rapid.IntRange(0, 9).Draw(t, "negCts") == 0 {
		cts = []byte{0xff, 0xff, 0xf0}
	}
	switch rapid.IntRange(0, 7).Draw(t, "vhdr") {
	case 0, 1:
		return append([]byte{0x17, 1}, cts...)
	case 2:
		return append([]byte{0x27, 1}, cts...)
	case 3:
		return append([]byte{0x1c, 1}, cts...)
	case 4:
		return append([]byte{0x2c, 1}, cts...)
	case 5:
		return append([]byte{0x80 | 1<<4 | 1, 'h', 'v', 'c', '1'}, cts...)
	case 6:
		return []byte{0x80 | 1<<4 | 3, 'h', 'v', 'c', '1'}
	default:
		return []byte{0x80 | 2<<4 | 3, 'h', 'v', 'c', '1'}
	}
}

func nalBody(t *rapid.T, hevc bool) []byte {
	var hdr []byte
	if hevc {
		typ := rapid.SampledFrom([]int{19, 1, 32, 33, 34, 35, 39, 40, 21, 48, 49, 63}).Draw(t, "hevcNalType")
		hdr = []byte{byte(typ << 1), 1}
	} else {
		typ := rapid.SampledFrom([]int{5, 1, 7, 8, 9, 6, 0, 24, 28, 31}).Draw(t, "avcNalType")
		hdr = []byte{0x60 | byte(typ)}
	}
	n := rapid.SampledFrom([]int{0, 0, 1, 2, 3, 8, 20}).Draw(t, "nalBodyLen")
	if rapid.IntRange(0, 9).Draw(t, "nalHdrShort") == 0 {
		hdr = hdr[:1]
	}
	body := append(hdr, gen.Bytes(uint32(n)*7+uint32(hdr[0]), n)...)
	return body
}

func genAvccLen(t *rapid.T) Msg {
	hdr := videoHeader(t)
	hevc := hdr[0]&0x0f == 12 || hdr[0]&0x80 != 0
	b := append([]byte(nil), hdr...)
	n := rapid.IntRange(1, 3).Draw(t, "nNals")
	incons := false
	for i := 0; i < n; i++ {
		nal := nalBody(t, hevc)
		l := uint32(len(nal))
		switch rapid.IntRange(0, 9).Draw(t, "lenKind") {
		case 0, 1, 2:
			// exact
		case 3:
			l, nal, incons = 0, nil, true // zero-length unit
		case 4:
			l, incons = l+1, true
		case 5:
			l, incons = l+uint32(rapid.IntRange(2, 70000).Draw(t, "lenOver")), true
		case 6:
			l, incons = 0xFFFFFFFF, true
		case 7:
			l, incons = rapid.SampledFrom([]uint32{0x80000000, 0x7FFFFFFF, 0x00FFFFFF, 0xFFFFFFFB, 0xFFFFFFFC}).Draw(t, "lenHuge"), true
		case 8:
			if l > 0 {
				l, incons = l-1, true
			}
		default:
			l, incons = 0, true // zero length field followed by bytes
		}
		b = append(b, be32(l)...)
		b = append(b, nal...)
	}
	if rapid.IntRange(0, 2).Draw(t, "trailing") == 0 {
		b = append(b, drawBytes(t, 1, 3, "trail")...) // 1..3 bytes after the last unit: not even a length field
		incons = true
	}
	return Msg{Type: gen.TypeVideo, Class: "avcc-len", Incons: incons, Raw: b}
}

func genEnhanced(t *rapid.T) Msg {
	ft := rapid.IntRange(0, 7).Draw(t, "exFrameType")
	pt := rapid.IntRange(0, 15).Draw(t, "exPacketType")
	if rapid.Bool().Draw(t, "exCommonPt") {
		pt = rapid.SampledFrom([]int{0, 1, 2, 3, 4, 5}).Draw(t, "exPt")
	}
	fourcc := rapid.SampledFrom([][]byte{[]byte("hvc1"), []byte("hvc1"), []byte("hvc1"), []byte("av01"), []byte("vp09"), []byte("avc1"), []byte("hvc"), {}, {0, 0, 0, 0}, {0xff, 0xff, 0xff, 0xff}}).Draw(t, "fourcc")
	b := append([]byte{0x80 | byte(ft)<<4 | byte(pt)}, fourcc...)
	incons := false
	switch rapid.IntRange(0, 5).Draw(t, "exBody") {
	case 0:
		// nothing after the fourcc
	case 1:
		b = append(b, drawBytes(t, 1, 4, "exShort")...) // 6..9 bytes in total with a full fourcc: around the 5+3 NAL offset
	case 2:
		_, sh := seqHeader("hevc-enh", 0)
		body := sh[5:]
		if rapid.Bool().Draw(t, "exShTrunc") {
			body = body[:rapid.IntRange(0, len(body)-1).Draw(t, "exShLen")]
			incons = true
		}
		b = append(b, body...)
	case 3:
		if pt == 1 {
			b = append(b, 0, 0, 40)
		}
		nal := nalBody(t, true)
		b = append(b, be32(uint32(len(nal)))...)
		b = append(b, nal...)
	case 4:
		b = append(b, 0, 0, 0)
		b = append(b, be32(rapid.SampledFrom([]uint32{0, 1, 5, 0xFFFFFFFF, 0x7FFFFFFF}).Draw(t, "exLen"))...)
		b = append(b, drawBytes(t, 0, 6, "exNal")...)
		incons = true
	default:
		b = append(b, drawBytes(t, 0, 40, "exRandom")...)
	}
	return Msg{Type: gen.TypeVideo, Class: "enhanced", Incons: incons, Raw: b}
}

func genUnknownCodec(t *rapid.T) Msg {
	if rapid.Bool().Draw(t, "ukVideo") {
		ft := rapid.IntRange(0, 7).Draw(t, "ukFrameType")
		codec := rapid.SampledFrom([]int{0, 1, 2, 3, 4, 5, 6, 8, 9, 10, 11, 13, 14, 15, 7, 12}).Draw(t, "ukCodec")
		b := []byte{byte(ft)<<4 | byte(codec)}
		b = append(b, rapid.SampledFrom([]byte{0, 1, 2, 3, 0xff}).Draw(t, "ukPt"))
		return Msg{Type: gen.TypeVideo, Class: "unknown-codec/video", Raw: b, TailSeed: rapid.Uint32().Draw(t, "ukSeed"), TailLen: rapid.SampledFrom([]int{0, 1, 3, 4, 5, 20, 200}).Draw(t, "ukLen")}
	}
	fmtID := rapid.SampledFrom([]int{0, 1, 2, 3, 4, 5, 6, 9, 11, 12, 14, 15, 7, 8, 13, 10}).Draw(t, "ukSoundFormat")
	b := []byte{byte(fmtID)<<4 | byte(rapid.IntRange(0, 15).Draw(t, "ukSoundBits"))}
	return Msg{Type: gen.TypeAudio, Class: "unknown-codec/audio", Raw: b, TailSeed: rapid.Uint32().Draw(t, "ukSeed"), TailLen: rapid.SampledFrom([]int{0, 1, 2, 3, 20, 200}).Draw(t, "ukLen")}
}

func genMutated(t *rapid.T, cd gen.Codecs, skel []gen.Item) Msg {
	it := rapid.SampledFrom(skel).Draw(t, "mutItem")
	for tries := 0; it.Kind == "empty" && tries < 4; tries++ {
		it = rapid.SampledFrom(skel).Draw(t, "mutItem2")
	}
	if it.Kind == "empty" {
		return genTiny(t)
	}
	full := it.Payload(cd)
	m := Msg{Type: it.TypeID(), Class: "mutated/" + it.Kind, Incons: true, Item: &it}
	lo := 0
	if it.Kind == "meta" {
		// keep the leading string(s) intact: the message must stay inside the forwarded domain
		_, n, _ := amfFirstString(full)
		lo = n
		if it.Sdf {
			_, n2, _ := amfFirstString(full[n:])
			lo = n + n2
		}
	}
	if lo >= len(full)-1 {
		return m
	}
	switch rapid.IntRange(0, 3).Draw(t, "mutOp") {
	case 0:
		m.Trunc = rapid.IntRange(lo+1, len(full)-1).Draw(t, "mutTrunc")
		if rapid.Bool().Draw(t, "mutTruncSmall") && lo+1 <= 9 && len(full) > 9 {
			m.Trunc = rapid.IntRange(lo+1, 9).Draw(t, "mutTruncSmallAt")
		}
	case 1:
		off := rapid.IntRange(lo, len(full)-1).Draw(t, "mutOff")
		if rapid.Bool().Draw(t, "mutHead") && lo < 12 && len(full) > 12 {
			off = rapid.IntRange(lo, 12).Draw(t, "mutHeadOff")
		}
		m.Patch = []Patch{{Off: off, Bytes: rapid.SampledFrom([][]byte{{0xff, 0xff, 0xff, 0xff}, {0, 0, 0, 0}, {0xff}, {0}, {0x80}, {0x7f, 0xff, 0xff, 0xff}}).Draw(t, "mutVal")}}
	case 2:
		m.TailSeed = rapid.Uint32().Draw(t, "mutTailSeed")
		m.TailLen = rapid.IntRange(1, 9).Draw(t, "mutTailLen")
	default:
		m.Trunc = rapid.IntRange(lo+1, len(full)-1).Draw(t, "mutTrunc2")
		m.TailSeed = rapid.Uint32().Draw(t, "mutTailSeed2")
		m.TailLen = rapid.IntRange(1, 5).Draw(t, "mutTailLen2")
	}
	return m
}

func amfNum(f float64) []byte {
	b := make([]byte, 9)
	binary.BigEndian.PutUint64(b[1:], math.Float64bits(f))
	return b
}

func genMeta(t *rapid.T) Msg {
	name := rapid.SampledFrom([]string{"onMetaData", "onMetaData", "@setDataFrame", "@setDataFrame", "onTextData", "onCuePoint", "", "|RtmpSampleAccessX", "onFI"}).Draw(t, "metaName")
	b := amfStr(name)
	if name == "@setDataFrame" {
		switch rapid.IntRange(0, 3).Draw(t, "sdfSecond") {
		case 0:
			b = append(b, amfStr("onMetaData")...)
		case 1:
			// nothing follows
		case 2:
			b = append(b, 2, 0, 10, 'o', 'n') // truncated second string
		default:
			b = append(b, amfNum(1)...)
		}
	}
	incons := false
	switch rapid.IntRange(0, 7).Draw(t, "metaBody") {
	case 0:
		full := gen.MetaBody(rapid.IntRange(0, 2).Draw(t, "metaVariant"))
		_, n, _ := amfFirstString(full)
		b = append(b, full[n:]...)
	case 1:
		full := gen.MetaBody(0)
		_, n, _ := amfFirstString(full)
		rest := full[n:]
		b = append(b, rest[:rapid.IntRange(0, len(rest)-1).Draw(t, "metaTrunc")]...)
		incons = true
	case 2:
		// ECMA array / strict array with an absurd count
		b = append(b, rapid.SampledFrom([]byte{8, 10}).Draw(t, "arrMarker"))
		b = append(b, be32(rapid.SampledFrom([]uint32{0xFFFFFFFF, 0x7FFFFFFF, 0x80000000, 1000000}).Draw(t, "arrCount"))...)
		b = append(b, drawBytes(t, 0, 12, "arrBody")...)
		incons = true
	case 3:
		// object with the keys lal's remuxers look at
		marker := rapid.SampledFrom([]byte{3, 8}).Draw(t, "objMarker")
		b = append(b, marker)
		if marker == 8 {
			b = append(b, 0, 0, 0, 3)
		}
		for _, k := range []string{"audiocodecid", "audiosamplerate", "videocodecid"} {
			if rapid.IntRange(0, 3).Draw(t, "hasKey") == 0 {
				continue
			}
			b = append(b, byte(len(k)>>8), byte(len(k)))
			b = append(b, k...)
			v := rapid.SampledFrom([]float64{7, 8, 10, 13, 0, -1, 1e10, math.NaN(), math.Inf(1), 44100, 8000, 48000, 1, 255, 256, 2}).Draw(t, "numVal")
			if rapid.IntRange(0, 5).Draw(t, "strVal") == 0 {
				b = append(b, amfStr("mp4a")...)
			} else {
				b = append(b, amfNum(v)...)
			}
		}
		if rapid.IntRange(0, 3).Draw(t, "objEnd") != 0 {
			b = append(b, 0, 0, 9)
		}
	case 4:
		b = append(b, drawBytes(t, 0, 30, "metaRandom")...)
	case 5:
		// a few levels of nesting (depth itself is C18's subject)
		for i := 0; i < rapid.IntRange(1, 20).Draw(t, "nest"); i++ {
			b = append(b, 3, 0, 1, 'a')
		}
	case 6:
		// AMF0 long string (marker 0x0c) whose 32-bit length field says more than the message holds - after the name or as a property value inside the onMetaData object / ECMA array
		// (seed c05-g: 4+len wraps around in 32 bits for len >= 0xfffffffc)
		ls := append([]byte{0x0c}, be32(rapid.SampledFrom([]uint32{0xFFFFFFFF, 0xFFFFFFFE, 0xFFFFFFFD, 0xFFFFFFFC, 0xFFFFFFFB, 0x7FFFFFFF, 0x80000000, 0x01000000, 5, 0}).Draw(t, "longStrLen"))...)
		ls = append(ls, drawBytes(t, 0, 6, "longStrBody")...)
		// (a long string as the FIRST value is outside the domain: the check's domain is "first value is a string name")
		switch rapid.IntRange(1, 3).Draw(t, "longStrAt") {
		case 1:
			b = append(b, ls...)
		default:
			marker := rapid.SampledFrom([]byte{3, 8, 10}).Draw(t, "longStrIn")
			b = append(b, marker)
			if marker != 3 {
				b = append(b, 0, 0, 0, 1)
			}
			if marker != 10 {
				k := rapid.SampledFrom([]string{"encoder", "videocodecid", "a"}).Draw(t, "longStrKey")
				b = append(b, byte(len(k)>>8), byte(len(k)))
				b = append(b, k...)
			}
			b = append(b, ls...)
		}
		incons = true
	default:
		// nothing follows the name
	}
	return Msg{Type: gen.TypeData, Class: "meta", Incons: incons, Raw: b}
}

func genBig(t *rapid.T) Msg {
	max := 64 * 1024
	if pbt.Thorough() {
		max = 512 * 1024
	}
	n := rapid.IntRange(1200, max).Draw(t, "bigLen")
	if rapid.Bool().Draw(t, "bigEdge") {
		n = rapid.SampledFrom([]int{1200, 1201, 1199, 65535, 65536, 4096, 188 * 20}).Draw(t, "bigEdgeLen") + rapid.IntRange(-2, 2).Draw(t, "bigDelta")
	}
	if rapid.IntRange(0, 3).Draw(t, "bigAudio") == 0 {
		return Msg{Type: gen.TypeAudio, Class: "big/audio", Raw: HexBytes{0xaf, 1}, TailSeed: rapid.Uint32().Draw(t, "bigSeed"), TailLen: n}
	}
	hdr := videoHeader(t)
	l := uint32(n)
	incons := false
	switch rapid.IntRange(0, 3).Draw(t, "bigLenKind") {
	case 0:
		l, incons = l+1, true
	case 1:
		l, incons = l/2, true
	}
	raw := append(hdr, be32(l)...)
	return Msg{Type: gen.TypeVideo, Class: "big/video", Incons: incons, Raw: raw, TailSeed: rapid.Uint32().Draw(t, "bigSeed"), TailLen: n}
}

// genRtpEdge: messages the remuxers accept, whose NAL units / audio frames are 1..3 bytes long and start with a byte
// that has a packetisation meaning on the RTP side (STAP-A / FU-A / AP / FU type codes).
func genRtpEdge(t *rapid.T) Msg {
	n := rapid.IntRange(1, 3).Draw(t, "edgeLen")
	rest := drawBytes(t, n-1, n-1, "edgeRest")
	switch rapid.IntRange(0, 3).Draw(t, "edgeKind") {
	case 0, 1:
		typ := rapid.SampledFrom([]byte{24, 24, 28, 28, 25, 26, 27, 29}).Draw(t, "edgeAvcType")
		nal := append([]byte{0x60 | typ}, rest...)
		hdr := rapid.SampledFrom([][]byte{{0x27, 1, 0, 0, 0}, {0x17, 1, 0, 0, 0}}).Draw(t, "edgeAvcHdr")
		return Msg{Type: gen.TypeVideo, Class: "rtp-edge/avc", Raw: append(append(append([]byte(nil), hdr...), be32(uint32(len(nal)))...), nal...)}
	case 2:
		typ := rapid.SampledFrom([]byte{49, 49, 48, 50}).Draw(t, "edgeHevcType")
		nal := append([]byte{typ << 1}, rest...)
		hdr := rapid.SampledFrom([][]byte{{0x2c, 1, 0, 0, 0}, {0x1c, 1, 0, 0, 0}, {0xa3, 'h', 'v', 'c', '1'}, {0xa1, 'h', 'v', 'c', '1', 0, 0, 0}}).Draw(t, "edgeHevcHdr")
		return Msg{Type: gen.TypeVideo, Class: "rtp-edge/hevc", Raw: append(append(append([]byte(nil), hdr...), be32(uint32(len(nal)))...), nal...)}
	default:
		first := rapid.SampledFrom([]byte{0x78, 0x98, 0x7c, 0x9c, 0x62, 0x60, 0x18, 0x1c}).Draw(t, "edgeAudioFirst")
		sf := rapid.SampledFrom([]byte{0x72, 0x82, 0xdf}).Draw(t, "edgeSoundFormat")
		b := []byte{sf}
		if sf == 0xdf && rapid.Bool().Draw(t, "edgeOpusPt") {
			b = append(b, 1)
		}
		b = append(b, first)
		return Msg{Type: gen.TypeAudio, Class: "rtp-edge/audio", Raw: append(b, rest...)}
	}
}

// genManyNals: one payload made of very many tiny units - the work lal does for it must stay proportional to its
// size (every unit becomes a start code / an RTP packet / a loop iteration somewhere).
func genManyNals(t *rapid.T) Msg {
	max := 12000
	if pbt.Thorough() {
		max = 100000
	}
	n := rapid.IntRange(200, max).Draw(t, "manyCount")
	if rapid.Bool().Draw(t, "manySmall") {
		n = rapid.IntRange(200, 2000).Draw(t, "manyCountSmall")
	}
	hdr := videoHeader(t)
	hevc := hdr[0]&0x0f == 12 || hdr[0]&0x80 != 0
	var unit []byte
	switch rapid.IntRange(0, 5).Draw(t, "manyUnit") {
	case 0:
		unit = []byte{0, 0, 0, 0} // zero-length units
	case 1:
		unit = []byte{0, 0, 0, 1, 0x41}
		if hevc {
			unit = []byte{0, 0, 0, 2, 0x02, 0x01}
		}
	case 2:
		unit = []byte{0, 0, 0, 1, 0x68} // parameter sets over and over (the TS remuxer rebuilds its cache on each)
		if hevc {
			unit = []byte{0, 0, 0, 2, 0x44, 0x01}
		}
	case 3:
		unit = []byte{0, 0, 0, 2, 0x67, 0x64, 0, 0, 0, 1, 0x68}
		if hevc {
			unit = []byte{0, 0, 0, 2, 0x40, 0x01, 0, 0, 0, 2, 0x42, 0x01, 0, 0, 0, 2, 0x44, 0x01}
		}
	case 4:
		unit = []byte{0, 0, 0, 1, 0x65}
		if hevc {
			unit = []byte{0, 0, 0, 2, 0x26, 0x01}
		}
	default:
		unit = []byte{0, 0, 0, 1, 0x09, 0, 0, 0, 1, 0x06} // delimiters and SEI
		if hevc {
			unit = []byte{0, 0, 0, 2, 0x46, 0x01, 0, 0, 0, 2, 0x4e, 0x01}
		}
	}
	raw := append([]byte(nil), hdr...)
	// the payload is  header + n x unit ; it is kept out of the case as (unit, n): Raw holds header + one unit,
	// the repetition is rendered by Payload through Rep
	raw = append(raw, unit...)
	return Msg{Type: gen.TypeVideo, Class: "many-nals", Raw: raw, RepFrom: len(hdr), Rep: n}
}

func genHostile(t *rapid.T, cd gen.Codecs, skel []gen.Item) Msg {
	if rapid.IntRange(0, 11).Draw(t, "rtpEdge") == 0 {
		return genRtpEdge(t)
	}
	if rapid.IntRange(0, 39).Draw(t, "manyNals") == 0 {
		return genManyNals(t)
	}
	switch rapid.IntRange(0, 39).Draw(t, "hostileClass") {
	case 0, 1, 2, 3, 4, 5, 6, 7, 8, 9:
		return genTiny(t)
	case 10, 11, 12, 13, 14:
		return genTruncSeq(t)
	case 15, 16, 17, 18, 19, 20:
		return genAvccLen(t)
	case 21, 22, 23, 24, 25:
		return genEnhanced(t)
	case 26, 27, 28:
		return genUnknownCodec(t)
	case 29, 30, 31, 32:
		if len(skel) > 0 {
			return genMutated(t, cd, skel)
		}
		return genTiny(t)
	case 33, 34, 35:
		return genMeta(t)
	case 36, 37:
		return Msg{Type: rapid.SampledFrom([]uint8{8, 9}).Draw(t, "emptyType"), Class: "empty"}
	default:
		return genBig(t)
	}
}

func genCase(t *rapid.T) Case {
	var c Case
	c.Path = rapid.SampledFrom([]string{"rtmp", "rtmp", "customize"}).Draw(t, "path")
	c.PubChunk = rapid.SampledFrom([]int{0, 4096, 4096, 65536, 100}).Draw(t, "pubChunk")
	c.Out = genOut(t)
	c.OtherEarly = rapid.Bool().Draw(t, "otherEarly")

	// ---- skeleton ---------------------------------------------------------------
	audio := []string{"aac", "aac", "", "g711a", "opus"}
	if c.Out.Dummy {
		audio = []string{"", "", "aac", "g711u"} // the dummy stage is only reached by streams without audio
	}
	maxNal := 600
	if pbt.Thorough() {
		maxNal = 20000
	}
	// timestamps: "calm" cases keep the stream's timeline (hostile messages carry timestamps near the current one), so
	// that the remuxers / HLS fragmenter follow their ordinary paths; "jumpy" cases displace timestamps freely
	calm := rapid.IntRange(0, 9).Draw(t, "tsCalm") < 4
	o := gen.StreamOpts{Video: []string{"avc", "avc", "hevc", "hevc", ""}, Audio: audio, MaxGops: 3, MaxGopLen: 4, MaxNalLen: maxNal,
		SizeEdges: []int{1200 - 4, 188 - 20}, AllowEmpty: true, HeaderChurn: true, TsJumps: !calm, MultiNal: true, Cts: true}
	c.Codecs = gen.GenCodecs(t, o)
	var skel []gen.Item
	skelMode := rapid.SampledFrom([]string{"full", "full", "full", "full", "no-headers", "none"}).Draw(t, "skeleton")
	if skelMode != "none" {
		skel = gen.GenItems(t, c.Codecs, o, 1)
		if skelMode == "no-headers" {
			var f []gen.Item
			for _, it := range skel {
				if it.Kind != "vsh" && it.Kind != "ash" && it.Kind != "meta" {
					f = append(f, it)
				}
			}
			skel = f
		}
		if len(skel) > 36 {
			skel = skel[:36]
		}
	}

	// ---- interleave ------------------------------------------------------------------
	density := rapid.SampledFrom([]int{1, 2, 2, 3, 5}).Draw(t, "hostileDensity") // 1 in density slots gets hostile messages
	var tsOff uint32
	cur := uint32(0)
	hostileTs := func() uint32 {
		if calm {
			return cur + uint32(rapid.IntRange(0, 60).Draw(t, "tsNear"))
		}
		switch rapid.IntRange(0, 9).Draw(t, "tsKind") {
		case 0, 1, 2, 3, 4:
			return cur + uint32(rapid.IntRange(0, 60).Draw(t, "tsNear"))
		case 5:
			return cur - uint32(rapid.IntRange(1, 5000).Draw(t, "tsBack"))
		case 6, 7:
			return rapid.SampledFrom(specialTs).Draw(t, "tsSpecial")
		case 8:
			return cur + rapid.SampledFrom([]uint32{1000, 30000, 60000, 61000, 3600000, 0x1000000, 0x7FFFFFFF, 0xF0000000}).Draw(t, "tsFwd")
		default:
			return rapid.Uint32().Draw(t, "tsAny")
		}
	}
	addHostile := func(max int) {
		n := rapid.IntRange(1, max).Draw(t, "nHostile")
		for i := 0; i < n && len(c.Msgs) < 60; i++ {
			m := genHostile(t, c.Codecs, skel)
			m.Ts = hostileTs()
			if rapid.IntRange(0, 3).Draw(t, "tsSticks") == 0 {
				cur = m.Ts // the stream "continues" from the hostile timestamp
			}
			m.Fmt = rapid.IntRange(0, 3).Draw(t, "fmt")
			c.Msgs = append(c.Msgs, m)
		}
	}
	if len(skel) == 0 {
		addHostile(14)
	}
	for i := range skel {
		if rapid.IntRange(1, density).Draw(t, "slot") == 1 {
			addHostile(3)
		}
		if len(c.Msgs) >= 60 {
			break
		}
		it := skel[i]
		if !calm && rapid.IntRange(0, 19).Draw(t, "tsJump") == 0 {
			// the whole remaining stream moves: big forward / backward jump, wrap-around
			if rapid.IntRange(0, 2).Draw(t, "jumpLands") == 0 {
				// land this item just below a wrap-around point, so that the following ones cross it
				d := uint32(rapid.SampledFrom([]int{0, 1, 20, 21, 22, 33, 40, 41, 60, 80, 100, 120, 200}).Draw(t, "landBefore"))
				target := rapid.SampledFrom([]uint32{0xFFFFFFFF, 0xFFFFFFFF, 0xFFFFFF, 0x7FFFFFFF}).Draw(t, "landAt") - d
				tsOff = target - it.Ts
			} else {
				tsOff += rapid.SampledFrom([]uint32{0xFFFFFFFF, 0xFFFFFF00, 0x80000000, 0x7FFFFFFF, 0x1000000, 3600000, 61000, 59000, ^uint32(5000) + 1, ^uint32(100000) + 1}).Draw(t, "jumpBy")
			}
		}
		it.Ts += tsOff
		if !calm && rapid.IntRange(0, 29).Draw(t, "tsPin") == 0 {
			it.Ts = rapid.SampledFrom(specialTs).Draw(t, "tsPinTo")
		}
		if it.Kind != "meta" {
			cur = it.Ts
		}
		m := Msg{Type: it.TypeID(), Ts: it.Ts, Class: "valid", Item: &it, Fmt: rapid.IntRange(0, 3).Draw(t, "fmt")}
		if it.Kind == "empty" {
			m.Class = "empty"
			m.Item = nil
		}
		c.Msgs = append(c.Msgs, m)
	}
	if len(c.Msgs) < 60 && rapid.Bool().Draw(t, "hostileTail") {
		addHostile(4)
	}
	// ---- the documented exceptions (RTMP path): a counted class of their own ------------------
	if c.Path == "rtmp" && len(c.Msgs) > 0 {
		if rapid.IntRange(0, 9).Draw(t, "docIgnored") == 0 {
			// a data message named |RtmpSampleAccess is ignored by the session (never reaches the stream)
			at := rapid.IntRange(0, len(c.Msgs)).Draw(t, "docIgnoredAt")
			m := Msg{Type: gen.TypeData, Ts: cur, Class: "doc-ignored/RtmpSampleAccess", Raw: append(amfStr("|RtmpSampleAccess"), 1, 1, 1, 1)}
			c.Msgs = append(c.Msgs[:at], append([]Msg{m}, c.Msgs[at:]...)...)
		}
		if rapid.IntRange(0, 14).Draw(t, "docClose") == 0 {
			// a data message whose first AMF value is not a (complete) string closes the publisher: always the last one
			raw := rapid.SampledFrom([][]byte{{}, {0}, {0, 0x40, 0, 0, 0, 0, 0, 0, 0}, {2, 0, 9, 'o', 'n'}, {8, 0, 0, 0, 0}, {5}, {12, 0, 0}}).Draw(t, "docCloseRaw")
			c.Msgs = append(c.Msgs, Msg{Type: gen.TypeData, Ts: cur, Class: "doc-close/data-without-leading-string", Raw: raw})
		}
	}

	// ---- subscribers -----------------------------------------------------------------
	var kinds []string
	if c.Out.Rtmp {
		kinds = append(kinds, "rtmp")
	}
	if c.Out.Flv {
		kinds = append(kinds, "flv", "wsflv")
	}
	if c.Out.Ts {
		kinds = append(kinds, "ts", "wsts")
	}
	if c.Out.Rtsp {
		kinds = append(kinds, "rtsp", "rtsp")
	}
	if c.Out.Hls {
		kinds = append(kinds, "hls", "hls")
	}
	if len(kinds) > 0 {
		n := rapid.IntRange(0, 4).Draw(t, "nsubs")
		for i := 0; i < n; i++ {
			c.Subs = append(c.Subs, Sub{Kind: rapid.SampledFrom(kinds).Draw(t, "subKind"), JoinAt: rapid.IntRange(-1, len(c.Msgs)).Draw(t, "joinAt")})
		}
	}
	// ---- probes of the independent stream -------------------------------------------------
	switch rapid.IntRange(0, 9).Draw(t, "probeMode") {
	case 0, 1, 2:
		// dense: after every hostile message
		for k, m := range c.Msgs {
			if isHostile(m) {
				c.Probes = append(c.Probes, k)
			}
		}
	case 3, 4, 5, 6, 7:
		n := rapid.IntRange(1, 4).Draw(t, "nprobes")
		seen := map[int]bool{}
		for i := 0; i < n && len(c.Msgs) > 0; i++ {
			k := rapid.IntRange(0, len(c.Msgs)-1).Draw(t, "probeAt")
			if !seen[k] {
				seen[k] = true
				c.Probes = append(c.Probes, k)
			}
		}
		sort.Ints(c.Probes)
	}
	return c
}

// ---------------------------------------------------------------------------
// classification

func isHostile(m Msg) bool { return m.Class != "valid" }

func classBase(cl string) string {
	for i := 0; i < len(cl); i++ {
		if cl[i] == '/' {
			return cl[:i]
		}
	}
	return cl
}

func classify(c Case) (bool, []string) {
	var labels []string
	outs := "out:some"
	switch {
	case c.Out.all():
		outs = "out:all"
	case c.Out.count() <= 1:
		outs = "out:<=1"
	}
	labels = append(labels, outs, "path:"+c.Path)
	for name, on := range map[string]bool{"rtmp": c.Out.Rtmp, "flv": c.Out.Flv, "ts": c.Out.Ts, "hls": c.Out.Hls, "rtsp": c.Out.Rtsp, "rec-flv": c.Out.RecFlv, "rec-ts": c.Out.RecTs, "dummy": c.Out.Dummy, "hook": c.Out.Hook} {
		if on {
			labels = append(labels, "on:"+name)
		}
	}
	// a subscriber "waits for a key frame" while hostile message k is processed if it joined at or before k after
	// the stream showed video, and no valid key frame was published between its join and k
	waiting := map[int]bool{}
	for _, sb := range c.Subs {
		labels = append(labels, "sub:"+sb.Kind)
		j := sb.JoinAt
		if j < 0 {
			j = 0
		}
		sawVideo := false
		for i := 0; i < j && i < len(c.Msgs); i++ {
			if c.Msgs[i].Item != nil && c.Msgs[i].Class == "valid" && c.Msgs[i].Item.Kind == "vsh" {
				sawVideo = true
			}
		}
		for k := j; k < len(c.Msgs); k++ {
			m := c.Msgs[k]
			if m.Class == "valid" && m.Item != nil {
				if m.Item.Kind == "vsh" {
					sawVideo = true
				}
				if m.Item.Kind == "video" && m.Item.Key {
					break
				}
			}
			if sawVideo {
				waiting[k] = true
			}
		}
	}
	nt := false
	anyWait := false
	for k, m := range c.Msgs {
		if !isHostile(m) {
			continue
		}
		pl := len(m.Payload(c.Codecs))
		w := "wait:n"
		if waiting[k] {
			w = "wait:y"
			anyWait = true
		}
		labels = append(labels, "pc:"+m.Class, "pc:"+classBase(m.Class)+"|"+outs+"|"+w)
		if pl <= 5 {
			labels = append(labels, "len<=5")
		}
		if (pl <= 5 || m.Incons) && c.Out.count() >= 2 {
			nt = true
		}
		switch {
		case m.Ts == 0xFFFFFFFF:
			labels = append(labels, "ts:2^32-1")
		case m.Ts >= 0xFFFFFFFF-22:
			labels = append(labels, "ts:last-22ms")
		case m.Ts >= 0x80000000:
			labels = append(labels, "ts:>=2^31")
		}
	}
	if anyWait {
		labels = append(labels, "sub-waiting-for-key-frame")
	}
	var prev uint32
	for i, m := range c.Msgs {
		if i > 0 && m.Type != gen.TypeData {
			d := m.Ts - prev
			switch {
			case d > 0x80000000 && prev-m.Ts > 1000:
				labels = append(labels, "ts-jump:backward")
			case d >= 60000 && d <= 0x80000000:
				labels = append(labels, "ts-jump:forward>=60s")
			}
		}
		if m.Type != gen.TypeData {
			prev = m.Ts
		}
	}
	switch {
	case len(c.Probes) == 0:
		labels = append(labels, "probes:end-only")
	case len(c.Probes) > 4:
		labels = append(labels, "probes:after-every-hostile-message")
	default:
		labels = append(labels, "probes:1-4-mid-stream")
	}
	if c.Out.HlsSession {
		labels = append(labels, "hls-sub-session-mode")
	}
	labels = append(labels, "video:"+c.Codecs.Video, "audio:"+c.Codecs.Audio)
	return nt, uniq(labels)
}

func uniq(in []string) []string {
	seen := map[string]bool{}
	var out []string
	for _, s := range in {
		if !seen[s] {
			seen[s] = true
			out = append(out, s)
		}
	}
	return out
}
