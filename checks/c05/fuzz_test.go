package c05

import (
	"encoding/json"
	"fmt"
	"os"
	"strings"
	"testing"

	"verif/drv/pbt"
	"verif/gen"
)

// FuzzPublishPayload: byte-level native fuzzing (thorough tier only) of the same
// in-process entry with the same oracle (O1 no panic, O2 bounded time per
// message, O3 the independent stream relays a marker after every input).
//
// Input layout
//
//	byte 0      configuration: bit0 RTMP path (else customize), bit1 dummy audio on, bit2 dummy wait 100 ms (else 0),
//	            bits3-4 valid prologue (0 none, 1 avc+aac, 2 hevc+aac, 3 enhanced hevc, video only),
//	            bit5 subscribers of all seven kinds (RTMP, FLV, TS, RTSP, WS-FLV, WS-TS, HLS requests), bit6 they join after the prologue (else before the publisher)
//	then per message:
//	  byte      bits0-1 type (0,3 video; 1 audio; 2 data), bits2-4 timestamp step
//	            (0:+0 1:+23 2:+40 3:+1000 4:=2^32-1 5:explicit 32 bit follows 6:-5000 7:+61000)
//	  byte      length L (255: a 16-bit length follows)
//	  L bytes   payload (data messages get a leading AMF string so that they stay in the forwarded domain)
//
// All outputs are enabled.  A manager is shared by up to 200 inputs (fresh
// stream name per input) to keep the per-manager goroutines lal never stops
// from piling up in the fuzz workers.
type fuzzEnv struct {
	env  *env
	used int
}

var fuzzEnvs = map[int]*fuzzEnv{}
var fuzzSeq int

func fuzzDecode(data []byte) (Case, int) {
	var c Case
	if len(data) == 0 {
		data = []byte{0}
	}
	cfg := data[0]
	data = data[1:]
	c.Path = "customize"
	if cfg&1 != 0 {
		c.Path = "rtmp"
	}
	c.PubChunk = 4096
	c.Out = Out{Rtmp: true, Flv: true, Ts: true, Hls: true, Rtsp: true, RecFlv: true, RecTs: true, Hook: true, Gop: 1, HlsFragMs: 100}
	key := 0
	if cfg&2 != 0 {
		c.Out.Dummy = true
		key = 1
		if cfg&4 != 0 {
			c.Out.WaitMs = 100
			key = 2
		}
	}
	c.OtherEarly = true
	ts := uint32(0)
	switch cfg >> 3 & 3 {
	case 1:
		c.Codecs = gen.Codecs{Video: "avc", Audio: "aac", AscObj: 2, AscFreq: 4, AscChan: 2}
	case 2:
		c.Codecs = gen.Codecs{Video: "hevc", Audio: "aac", AscObj: 2, AscFreq: 4, AscChan: 2}
	case 3:
		c.Codecs = gen.Codecs{Video: "hevc", Enhanced: true}
	}
	if c.Codecs.Video != "" {
		k, n := []byte{0x65}, []byte{0x41}
		if c.Codecs.Video == "hevc" {
			k, n = []byte{19 << 1, 1}, []byte{1 << 1, 1}
		}
		pro := []gen.Item{{Kind: "vsh", Ts: 0}}
		if c.Codecs.Audio != "" {
			pro = append(pro, gen.Item{Kind: "ash", Ts: 0}, gen.Item{Kind: "audio", Ts: 0, ALen: 30, ASeed: 1})
		}
		pro = append(pro,
			gen.Item{Kind: "video", Ts: 0, Key: true, Nals: []gen.NalSpec{{Hdr: k, Len: 30, Seed: 2, Serial: 2}}},
			gen.Item{Kind: "video", Ts: 40, Nals: []gen.NalSpec{{Hdr: n, Len: 30, Seed: 3, Serial: 3}}},
			gen.Item{Kind: "video", Ts: 120, Nals: []gen.NalSpec{{Hdr: n, Len: 30, Seed: 4, Serial: 4}}})
		for i := range pro {
			it := pro[i]
			c.Msgs = append(c.Msgs, Msg{Type: it.TypeID(), Ts: it.Ts, Class: "valid", Item: &it})
		}
		ts = 120
	}
	npro := len(c.Msgs)
	if cfg&32 != 0 {
		at := -1
		if cfg&64 != 0 {
			at = npro
		}
		for _, k := range []string{"rtmp", "flv", "ts", "rtsp", "wsflv", "wsts", "hls"} {
			c.Subs = append(c.Subs, Sub{Kind: k, JoinAt: at})
		}
	}
	for len(data) >= 2 && len(c.Msgs) < npro+40 {
		h := data[0]
		l := int(data[1])
		data = data[2:]
		typ := uint8(gen.TypeVideo)
		switch h & 3 {
		case 1:
			typ = gen.TypeAudio
		case 2:
			typ = gen.TypeData
		}
		switch h >> 2 & 7 {
		case 1:
			ts += 23
		case 2:
			ts += 40
		case 3:
			ts += 1000
		case 4:
			ts = 0xFFFFFFFF
		case 5:
			if len(data) >= 4 {
				ts = uint32(data[0])<<24 | uint32(data[1])<<16 | uint32(data[2])<<8 | uint32(data[3])
				data = data[4:]
			}
		case 6:
			ts -= 5000
		case 7:
			ts += 61000
		}
		if l == 255 && len(data) >= 2 {
			l = int(data[0])<<8 | int(data[1])
			data = data[2:]
		}
		if l > len(data) {
			l = len(data)
		}
		pl := append([]byte(nil), data[:l]...)
		data = data[l:]
		if typ == gen.TypeData {
			name := "onMetaData"
			if h&0x20 != 0 {
				name = "@setDataFrame"
			}
			pl = append(amfStr(name), pl...)
		}
		c.Msgs = append(c.Msgs, Msg{Type: typ, Ts: ts, Class: "fuzz", Raw: pl})
	}
	if n := len(c.Msgs); n > npro {
		c.Probes = []int{npro + (n-npro)/2} // the independent stream is also probed in the middle of the hostile messages
	}
	return c, key
}

func fuzzEncode(cfg byte, msgs ...[]byte) []byte {
	out := []byte{cfg}
	for _, m := range msgs {
		// m[0] is the header byte, the rest the payload
		out = append(out, m[0], byte(len(m)-1))
		out = append(out, m[1:]...)
	}
	return out
}

func FuzzPublishPayload(f *testing.F) {
	if os.Getenv("VERIF_FUZZING") == "" && os.Getenv("C05_FUZZ_SEEDS") == "" {
		// the shards of the generated search run every Test/Fuzz function of the package; the seed inputs below
		// duplicate corpus/c05 and would only blur the shard's verdict
		f.Skip("native fuzz target: runs under vcheck --tier thorough (or with C05_FUZZ_SEEDS=1)")
	}
	// seeds: the defects found so far, in both paths, with and without a prologue / subscribers
	for _, cfg := range []byte{0x00, 0x01, 0x08 | 0x20, 0x10 | 0x20 | 0x40 | 1, 0x18 | 0x20, 0x0a | 0x20, 0x0e | 0x20 | 0x40} {
		f.Add(fuzzEncode(cfg, []byte{0, 0x17}, []byte{1, 0xaf}, []byte{0, 0x80}))
		f.Add(fuzzEncode(cfg, []byte{0, 0x90, 'h', 'v', 'c', '1'}, []byte{8, 0xa1, 'h', 'v', 'c', '1', 0}))
		f.Add(fuzzEncode(cfg, []byte{0, 0x17, 0, 0, 0, 0, 1, 0x64, 0, 0x1f, 0xff, 0xe1, 0, 0x0a, 0x27, 0x64, 0, 0x1f, 0xac, 0x56, 0x80, 0xb4, 0x0a, 0xff, 1, 0, 4, 0x28, 0xee, 0x3c, 0xb0}))
		f.Add(fuzzEncode(cfg, []byte{8, 0x27, 1, 0, 0, 0, 0, 0, 0, 5, 0x41, 1, 2, 3, 4}, []byte{16 | 8, 0x27, 1, 0, 0, 0, 0xff, 0xff, 0xff, 0xff, 0x41}))
		f.Add(fuzzEncode(cfg, []byte{2, 8, 0, 0, 0, 1, 0, 5, 'w', 'i', 'd', 't', 'h', 0, 0x40, 0x84, 0, 0, 0, 0, 0, 0}, []byte{2 | 0x20}))
		f.Add(fuzzEncode(cfg, []byte{1, 0xaf, 0, 0x12, 0x10}, []byte{1 | 4, 0xaf, 1, 1, 2, 3, 4, 5, 6}, []byte{1, 0x72, 1}, []byte{1, 0xdf}))
	}
	f.Fuzz(func(t *testing.T, data []byte) {
		if tainted.Load() {
			t.Skip("a previous input stalled inside lal; this worker is tainted")
		}
		if len(data) > 1<<17 {
			t.Skip()
		}
		c, key := fuzzDecode(data)
		fe := fuzzEnvs[key]
		if fe == nil || fe.used >= 200 {
			if fe != nil {
				if fe.env.other != nil {
					fe.env.other.close()
				}
				fe.env.s.Close()
			}
			fe = &fuzzEnv{env: newEnv(c.Out, "")}
			fuzzEnvs[key] = fe
		}
		fe.used++
		fuzzSeq++
		fe.env.stream = fmt.Sprintf("c05fz%d", fuzzSeq)
		var v *pbt.Violation
		func() {
			defer func() {
				if r := recover(); r != nil {
					if he, ok := r.(pbt.HarnessError); ok {
						// inconclusive (slow machine / harness fault): never a fuzz failure; start over with a fresh manager
						t.Logf("inconclusive: %s", he.Msg)
						delete(fuzzEnvs, key)
						return
					}
					panic(r)
				}
			}()
			v = pbt.Guard(func() *pbt.Violation { return drive(fe.env, c) })
		}()
		if v != nil {
			cb, _ := json.Marshal(c)
			if len(cb) > 6000 {
				cb = cb[:6000]
			}
			t.Fatalf("FUZZ-VIOLATION sig=%s %s\ncase (replayable as corpus/c05/<name>.json under \"case\"): %s", v.Sig, strings.ReplaceAll(v.Detail, "\n", " | "), cb)
		}
	})
}
