package c05

import (
	"encoding/json"
	"fmt"
	"os"
	"strings"
	"testing"

	"verif/drv/pbt"
)

// TestMinimize is a development aid (skipped unless C05_MINIMIZE=<replay file> is
// set): it greedily removes messages, subscribers, outputs and payload bytes
// from a failing case while the same signature reproduces, and writes the
// result next to the input as <file>.min.json.  Stalls are not minimised (each
// attempt would taint the process).
func TestMinimize(t *testing.T) {
	path := os.Getenv("C05_MINIMIZE")
	if path == "" {
		t.Skip("C05_MINIMIZE not set")
	}
	b, err := os.ReadFile(path)
	if err != nil {
		t.Fatal(err)
	}
	var rf pbt.ReplayFile
	if err := json.Unmarshal(b, &rf); err != nil {
		t.Fatal(err)
	}
	var c Case
	if err := json.Unmarshal(rf.Case, &c); err != nil {
		t.Fatal(err)
	}
	sigOf := func(c Case) string {
		defer func() { _ = recover() }()
		v := pbt.Guard(func() *pbt.Violation { return run(c) })
		if v == nil {
			return ""
		}
		return v.Sig
	}
	want := sigOf(c)
	if want == "" || len(want) > 6 && want[:6] == "stall@" {
		t.Fatalf("case does not fail with a minimisable signature: %q", want)
	}
	fails := func(c Case) bool { return sigOf(c) == want }
	clone := func(c Case) Case {
		var d Case
		bb, _ := json.Marshal(c)
		_ = json.Unmarshal(bb, &d)
		return d
	}
	for changed := true; changed; {
		changed = false
		// drop messages (fix subscriber join points)
		for i := len(c.Msgs) - 1; i >= 0; i-- {
			d := clone(c)
			d.Msgs = append(d.Msgs[:i], d.Msgs[i+1:]...)
			for j := range d.Subs {
				if d.Subs[j].JoinAt > i {
					d.Subs[j].JoinAt--
				}
			}
			var pr []int
			for _, k := range d.Probes {
				switch {
				case k < i:
					pr = append(pr, k)
				case k > i:
					pr = append(pr, k-1)
				}
			}
			d.Probes = pr
			if fails(d) {
				c, changed = d, true
			}
		}
		for i := len(c.Probes) - 1; i >= 0; i-- {
			d := clone(c)
			d.Probes = append(d.Probes[:i], d.Probes[i+1:]...)
			if fails(d) {
				c, changed = d, true
			}
		}
		for i := len(c.Subs) - 1; i >= 0; i-- {
			d := clone(c)
			d.Subs = append(d.Subs[:i], d.Subs[i+1:]...)
			if fails(d) {
				c, changed = d, true
			}
		}
		// switch outputs off
		for _, f := range []func(o *Out){
			func(o *Out) { o.Hook = false }, func(o *Out) { o.Dummy, o.WaitMs = false, 0 }, func(o *Out) { o.RecTs = false },
			func(o *Out) { o.RecFlv = false }, func(o *Out) { o.Hls = false }, func(o *Out) { o.Rtsp = false }, func(o *Out) { o.Ts = false },
			func(o *Out) { o.Flv = false }, func(o *Out) { o.Rtmp = false }, func(o *Out) { o.Gop, o.GopMax = 0, 0 }, func(o *Out) { o.Merge = 0 },
		} {
			d := clone(c)
			before, _ := json.Marshal(d.Out)
			f(&d.Out)
			after, _ := json.Marshal(d.Out)
			if string(before) == string(after) {
				continue
			}
			ok := true
			for _, sb := range d.Subs {
				if sb.Kind == "rtmp" && !d.Out.Rtmp || strings.HasSuffix(sb.Kind, "flv") && !d.Out.Flv || strings.HasSuffix(sb.Kind, "ts") && !d.Out.Ts || sb.Kind == "rtsp" && !d.Out.Rtsp || sb.Kind == "hls" && !d.Out.Hls {
					ok = false
				}
			}
			if ok && fails(d) {
				c, changed = d, true
			}
		}
		if c.OtherEarly {
			d := clone(c)
			d.OtherEarly = false
			if fails(d) {
				c, changed = d, true
			}
		}
		if c.Path == "rtmp" {
			d := clone(c)
			d.Path = "customize"
			if fails(d) {
				c, changed = d, true
			}
		}
		// simplify messages: timestamps to 0, materialise + shorten payloads
		for i := range c.Msgs {
			if c.Msgs[i].Ts != 0 {
				d := clone(c)
				d.Msgs[i].Ts = 0
				if fails(d) {
					c, changed = d, true
				}
			}
			m := c.Msgs[i]
			if m.Class == "valid" {
				continue
			}
			pl := m.Payload(c.Codecs)
			if len(pl) > 4096 {
				continue
			}
			if m.Item != nil || m.Trunc != 0 || len(m.Patch) != 0 || m.TailLen != 0 || m.Rep != 0 {
				d := clone(c)
				d.Msgs[i] = Msg{Type: m.Type, Ts: m.Ts, Class: m.Class, Incons: m.Incons, Raw: pl}
				if fails(d) {
					c, changed = d, true
				}
			}
			m = c.Msgs[i]
			if m.Item == nil && m.Trunc == 0 && len(m.Patch) == 0 && m.TailLen == 0 && m.Rep == 0 {
				for len(c.Msgs[i].Raw) > 1 {
					d := clone(c)
					d.Msgs[i].Raw = d.Msgs[i].Raw[:len(d.Msgs[i].Raw)-1]
					if !inDomain(d.Msgs[i].Type, d.Msgs[i].Raw) || !fails(d) {
						break
					}
					c, changed = d, true
				}
			}
		}
	}
	rf.Sig = want
	rf.Detail = ""
	rf.FoundSeed = 0
	rf.Case, _ = json.Marshal(c)
	out, _ := json.MarshalIndent(rf, "", " ")
	if err := os.WriteFile(path+".min.json", out, 0o644); err != nil {
		t.Fatal(err)
	}
	fmt.Printf("minimised %s -> %d messages, %d subscribers: %s\n", want, len(c.Msgs), len(c.Subs), path+".min.json")
}
