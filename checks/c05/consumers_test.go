package c05

// Consumers of the hostile stream.  What a consumer receives for payloads lal
// cannot interpret is free ("dropped or forwarded opaquely"), but
//
//	F1  every consumer's byte stream stays well-framed for its reference parser
//	    (RTMP chunk stream, FLV tags, WebSocket frames, MPEG-TS packets / PES /
//	    PSI, RTSP interleaved frames with RTP headers, HLS playlist + segments);
//	F2  well-formed messages published AFTER the hostile ones still arrive
//	    (exactly for RTMP / FLV / WS-FLV, which forward opaquely; for TS / WS-TS /
//	    RTSP when that consumer demonstrably carried video of the stream's codec
//	    before), and lal does not drop the consumer.

import (
	"bytes"
	"fmt"
	"net/http"
	"net/http/httptest"
	"strconv"
	"strings"
	"sync"
	"time"

	"github.com/q191201771/lal/pkg/hls"

	"verif/drv/pbt"
	"verif/harness/inproc"
	"verif/harness/lalclient"
	"verif/harness/memconn"
	"verif/ref/m3u8ref"
	"verif/ref/rtpref"
	"verif/ref/rtspref"
	"verif/ref/tsref"
	"verif/ref/wsref"
)

// ---------------------------------------------------------------------------
// MPEG-TS judgement

// tsStructural: departures from ISO/IEC 13818-1 that make a stream undecodable
// for a demultiplexer (as opposed to cosmetic ones, and to continuity-counter
// observations, which are C06/C09's subject).
var tsStructural = map[string]bool{
	"ts-transport-error-indicator": true, "ts-afc-reserved": true, "af-length": true, "af-overflow": true,
	"ts-empty-payload": true, "ts-pusi-without-payload": true, "ts-scrambled": true,
	"pes-truncated": true, "pes-no-start-code": true, "pes-marker": true, "pes-pts-dts-flags": true,
	"pes-header-overflow": true, "pes-timestamp-syntax": true, "pes-length-mismatch": true,
	"psi-pointer": true, "psi-section-truncated": true, "psi-section-length": true, "psi-crc": true,
	"pat-syntax": true, "pmt-syntax": true,
}

func judgeTs(what string, body []byte) *pbt.Violation {
	if len(body) == 0 {
		return nil
	}
	if len(body)%tsref.PacketSize != 0 {
		return pbt.V("framing/"+what, "%d bytes are not a whole number of 188-byte transport packets", len(body))
	}
	res, err := tsref.Demux(body, tsref.Options{})
	if err != nil {
		return pbt.V("framing/"+what, "transport stream cannot be cut into packets: %v", err)
	}
	for _, p := range res.Problems {
		if tsStructural[p.Kind] {
			return pbt.V("framing/"+what+"/"+p.Kind, "%d problem(s) in %d packets, first structural one: %s", len(res.Problems), len(res.Packets), p)
		}
	}
	return nil
}

func tsHasVideoPes(body []byte) bool {
	n := len(body) / 188 * 188
	res, err := tsref.Demux(body[:n], tsref.Options{})
	if err != nil || res == nil {
		return false
	}
	for _, p := range res.PES {
		if p.StreamID&0xF0 == 0xE0 && len(p.Payload) > 0 {
			return true
		}
	}
	return false
}

func tsHasPayload(body []byte, needle []byte) bool {
	n := len(body) / 188 * 188
	res, err := tsref.Demux(body[:n], tsref.Options{})
	if err != nil || res == nil {
		return false
	}
	for _, p := range res.PES {
		if bytes.Contains(p.Payload, needle) {
			return true
		}
	}
	return false
}

// ---------------------------------------------------------------------------
// HTTP-TS consumer, plain or over WebSocket.  The read buffer is larger than anything lal writes at once and the
// in-memory connection never merges writes, so every Read returns one whole Write of lal: a snapshot of the body
// always ends where lal ended a write (whole packets, whole frames) although the reader runs asynchronously.

type wsTsConsumer struct {
	ws   bool
	conn *memconn.Conn
	mu   sync.Mutex
	cond *sync.Cond
	body []byte
	err  error
	eof  bool
}

func newTsSub(s *inproc.Server, stream string, ws bool) *wsTsConsumer {
	conn := s.HttpSub("/live/"+stream+".ts", ws)
	c := &wsTsConsumer{conn: conn, ws: ws}
	c.cond = sync.NewCond(&c.mu)
	conn.WaitPeerIdle(lalclient.IdleTimeout)
	go func() {
		var hdr []byte
		hdrDone := false
		var wp wsref.Parser
		buf := make([]byte, 2<<20)
		fail := func(err error) {
			c.mu.Lock()
			if c.err == nil {
				c.err = err
			}
			c.eof = true
			c.cond.Broadcast()
			c.mu.Unlock()
		}
		for {
			n, err := conn.Read(buf)
			if n > 0 {
				data := buf[:n]
				if !hdrDone {
					hdr = append(hdr, data...)
					i := bytes.Index(hdr, []byte("\r\n\r\n"))
					if i < 0 {
						if err != nil {
							fail(nil)
							return
						}
						continue
					}
					data = hdr[i+4:]
					hdrDone = true
				}
				if !c.ws {
					c.mu.Lock()
					c.body = append(c.body, data...)
					c.cond.Broadcast()
					c.mu.Unlock()
					data = nil
				}
				frames, werr := wp.Feed(data)
				if werr != nil {
					fail(fmt.Errorf("websocket framing: %w", werr))
					return
				}
				for _, f := range frames {
					if !f.Fin || f.Opcode != wsref.OpBinary || f.Masked {
						fail(fmt.Errorf("websocket frame not a final unmasked binary frame: fin=%v opcode=%d masked=%v", f.Fin, f.Opcode, f.Masked))
						return
					}
					if wsref.MinimalLenForm(f.PayloadLen) != f.LenForm {
						fail(fmt.Errorf("websocket frame length %d encoded in %d-bit form", f.PayloadLen, f.LenForm))
						return
					}
					c.mu.Lock()
					c.body = append(c.body, f.Payload...)
					c.cond.Broadcast()
					c.mu.Unlock()
				}
			}
			if err != nil {
				if len(wp.Pending()) > 0 {
					fail(fmt.Errorf("connection ended inside a websocket frame (%d bytes pending)", len(wp.Pending())))
				} else {
					fail(nil)
				}
				return
			}
		}
	}()
	return c
}

func (c *wsTsConsumer) Body() []byte {
	c.mu.Lock()
	defer c.mu.Unlock()
	return append([]byte(nil), c.body...)
}

func (c *wsTsConsumer) state() (err error, eof bool) {
	c.mu.Lock()
	defer c.mu.Unlock()
	return c.err, c.eof
}

func (c *wsTsConsumer) WaitPred(pred func(body []byte) bool, timeout time.Duration) bool {
	deadline := time.Now().Add(timeout)
	t := time.AfterFunc(timeout, func() { c.mu.Lock(); c.cond.Broadcast(); c.mu.Unlock() })
	defer t.Stop()
	c.mu.Lock()
	defer c.mu.Unlock()
	seen := -1
	for {
		if len(c.body) != seen {
			seen = len(c.body)
			if pred(c.body) {
				return true
			}
		}
		if c.eof || !time.Now().Before(deadline) {
			return false
		}
		c.cond.Wait()
	}
}

// ---------------------------------------------------------------------------
// RTSP subscriber: a minimal RFC 2326 client over the raw connection.  lal's
// command session writes synchronously in this check (see init), and requests
// are followed by WaitPeerIdle, so everything lal has to say is in the queue
// when the client looks; nothing here blocks.

type rtspFrame struct {
	ch      int
	payload []byte
}

type rtspResp struct {
	status int
	hdr    map[string]string
	body   []byte
}

type rtspSub struct {
	conn    *memconn.Conn
	url     string
	state   int // 0 waiting for the DESCRIBE response, 1 playing, 2 refused / closed
	cseq    int
	session string
	ntracks int
	sdp     string
	buf     []byte
	frames  []rtspFrame
	resps   []rtspResp
	ferr    error
}

func (r *rtspSub) send(method, uri string, hdr map[string]string) bool {
	r.cseq++
	var b strings.Builder
	fmt.Fprintf(&b, "%s %s RTSP/1.0\r\nCSeq: %d\r\nUser-Agent: verif-c05\r\n", method, uri, r.cseq)
	if r.session != "" {
		fmt.Fprintf(&b, "Session: %s\r\n", r.session)
	}
	for k, v := range hdr {
		fmt.Fprintf(&b, "%s: %s\r\n", k, v)
	}
	b.WriteString("\r\n")
	if _, err := r.conn.Write([]byte(b.String())); err != nil {
		return false
	}
	r.conn.WaitPeerIdle(lalclient.IdleTimeout)
	r.drain()
	return true
}

// drain parses what has arrived: interleaved binary frames ('$' channel length) and responses.
func (r *rtspSub) drain() {
	r.buf = append(r.buf, r.conn.ReadAvailable()...)
	for len(r.buf) > 0 && r.ferr == nil {
		if r.buf[0] == '$' {
			if len(r.buf) < 4 {
				return
			}
			n := int(r.buf[2])<<8 | int(r.buf[3])
			if len(r.buf) < 4+n {
				return
			}
			f := rtspFrame{ch: int(r.buf[1]), payload: append([]byte(nil), r.buf[4:4+n]...)}
			r.buf = r.buf[4+n:]
			if r.ntracks > 0 && f.ch >= 2*r.ntracks {
				r.ferr = fmt.Errorf("interleaved frame on channel %d, only %d were set up", f.ch, 2*r.ntracks)
				return
			}
			if f.ch%2 == 0 {
				if _, err := rtpref.Parse(f.payload); err != nil {
					r.ferr = fmt.Errorf("interleaved frame %d on channel %d (%d bytes) is not an RTP packet: %v", len(r.frames), f.ch, n, err)
					return
				}
			}
			r.frames = append(r.frames, f)
			continue
		}
		if !bytes.HasPrefix(r.buf, []byte("RTSP/1.0 ")) {
			if len(r.buf) < 9 && bytes.HasPrefix([]byte("RTSP/1.0 "), r.buf) {
				return
			}
			r.ferr = fmt.Errorf("after %d frames: neither an interleaved frame nor a response starts with % x", len(r.frames), r.buf[:min(len(r.buf), 16)])
			return
		}
		i := bytes.Index(r.buf, []byte("\r\n\r\n"))
		if i < 0 {
			if len(r.buf) > 1<<16 {
				r.ferr = fmt.Errorf("response header does not end within 64 KiB")
			}
			return
		}
		lines := strings.Split(string(r.buf[:i]), "\r\n")
		resp := rtspResp{hdr: map[string]string{}}
		if f := strings.Fields(lines[0]); len(f) >= 2 {
			resp.status, _ = strconv.Atoi(f[1])
		}
		for _, l := range lines[1:] {
			if j := strings.IndexByte(l, ':'); j > 0 {
				resp.hdr[strings.ToLower(strings.TrimSpace(l[:j]))] = strings.TrimSpace(l[j+1:])
			}
		}
		cl, _ := strconv.Atoi(resp.hdr["content-length"])
		if cl < 0 || len(r.buf) < i+4+cl {
			return
		}
		resp.body = append([]byte(nil), r.buf[i+4:i+4+cl]...)
		r.buf = r.buf[i+4+cl:]
		r.resps = append(r.resps, resp)
	}
}

func (r *rtspSub) popResp() (rtspResp, bool) {
	if len(r.resps) == 0 {
		return rtspResp{}, false
	}
	x := r.resps[0]
	r.resps = r.resps[1:]
	return x, true
}

func (r *rtspSub) dead() {
	r.state = 2
	_ = r.conn.Close()
}

// pump advances the subscriber: lal answers DESCRIBE only once it has built an SDP from the published
// headers; SETUP + PLAY follow at once.
func (r *rtspSub) pump() {
	if r.state == 2 {
		return
	}
	r.drain()
	if r.state == 1 {
		return
	}
	resp, ok := r.popResp()
	if !ok {
		if r.conn.PeerGone() {
			r.state = 2
		}
		return
	}
	if resp.status != 200 {
		r.dead()
		return
	}
	r.sdp = string(resp.body)
	ctl := rtspref.SdpControls(resp.body)
	if len(ctl) == 0 || len(ctl) > 4 {
		r.dead()
		return
	}
	for i, c := range ctl {
		u := c
		if !strings.HasPrefix(c, "rtsp://") {
			u = r.url + "/" + c
		}
		if !r.send("SETUP", u, map[string]string{"Transport": fmt.Sprintf("RTP/AVP/TCP;unicast;interleaved=%d-%d", 2*i, 2*i+1)}) {
			r.dead()
			return
		}
		resp, ok := r.popResp()
		if !ok || resp.status != 200 {
			r.dead()
			return
		}
		if s := resp.hdr["session"]; s != "" && r.session == "" {
			if j := strings.IndexByte(s, ';'); j >= 0 {
				s = s[:j]
			}
			r.session = s
		}
	}
	r.ntracks = len(ctl)
	if !r.send("PLAY", r.url, map[string]string{"Range": "npt=0.000-"}) {
		r.dead()
		return
	}
	if resp, ok := r.popResp(); !ok || resp.status != 200 {
		r.dead()
		return
	}
	r.state = 1
}

func newRtspSub(s *inproc.Server, stream string) *rtspSub {
	r := &rtspSub{conn: s.RtspConn(), url: "rtsp://127.0.0.1:5544/live/" + stream}
	// no OPTIONS: the only thing lal sends before PLAY is then the DESCRIBE response
	if !r.send("DESCRIBE", r.url, map[string]string{"Accept": "application/sdp"}) {
		r.state = 2
	}
	r.pump()
	return r
}

func (r *rtspSub) hasVideo(codec string) bool {
	enc := "H264"
	if codec == "hevc" {
		enc = "H265"
	}
	return strings.Contains(r.sdp, "m=video") && strings.Contains(r.sdp, enc+"/90000")
}

// ---------------------------------------------------------------------------
// HLS consumer: playlist + segment requests through lal's hls.ServerHandler
// (the handler ServerManager.serveHls delegates to once authentication and the
// ip blacklist have passed; serveHls itself is unexported and only reachable
// through a real listener).

type hlsClient struct {
	h    *hls.ServerHandler
	addr string
}

func (e *env) hlsGet(target, remote string) *httptest.ResponseRecorder {
	if e.hlsH == nil {
		cfg := e.s.Cfg.HlsConfig
		e.hlsH = hls.NewServerHandler(cfg.OutPath, cfg.UrlPattern, cfg.SubSessionHashKey, cfg.SubSessionTimeoutMs, e.s.SM)
	}
	req := httptest.NewRequest("GET", "http://127.0.0.1:8080"+target, nil)
	req.RemoteAddr = remote
	rec := httptest.NewRecorder()
	e.s.Call("hls-get", func() { e.hlsH.ServeHTTP(rec, req) })
	return rec
}

type hlsSub struct {
	remote   string
	playlist string // request target of the playlist (after the session redirect, if any)
	fetches  int
	served   int
}

// fetch requests the playlist and every segment it lists (the newest 6 at most).
func (h *hlsSub) fetch(e *env) *pbt.Violation {
	h.fetches++
	rec := e.hlsGet(h.playlist, h.remote)
	if v := e.s.PanicViolation(); v != nil {
		return v
	}
	if rec.Code == http.StatusFound && rec.Header().Get("Location") != "" {
		// sub-session mode: the playlist request is redirected to a URL carrying a session id
		h.playlist = rec.Header().Get("Location")
		rec = e.hlsGet(h.playlist, h.remote)
		if v := e.s.PanicViolation(); v != nil {
			return v
		}
	}
	if rec.Code != http.StatusOK || rec.Body.Len() == 0 {
		return nil // no playlist (yet)
	}
	h.served++
	pl, err := m3u8ref.Parse(rec.Body.Bytes())
	if err != nil {
		return pbt.V("framing/hls-playlist", "GET %s: the playlist lal serves is not a well-formed media playlist: %v\n%s", h.playlist, err, clipStr(rec.Body.String(), 900))
	}
	uris := pl.URIs()
	if len(uris) > 6 {
		uris = uris[len(uris)-6:]
	}
	base := h.playlist
	if i := strings.IndexByte(base, '?'); i >= 0 {
		base = base[:i]
	}
	base = base[:strings.LastIndexByte(base, '/')+1]
	for _, u := range uris {
		if strings.Contains(u, "://") || strings.HasPrefix(u, "/") {
			continue
		}
		seg := e.hlsGet(base+u, h.remote)
		if v := e.s.PanicViolation(); v != nil {
			return v
		}
		if seg.Code != http.StatusOK {
			continue // existence of listed segments is C10's subject
		}
		if v := judgeTs("hls-segment", seg.Body.Bytes()); v != nil {
			v.Detail = "segment " + u + ": " + v.Detail
			return v
		}
	}
	return nil
}

func clipStr(s string, n int) string {
	if len(s) > n {
		return s[:n] + "..."
	}
	return s
}

// ---------------------------------------------------------------------------

type subT struct {
	kind string
	rc   *lalclient.Consumer // rtmp | flv | wsflv
	wts  *wsTsConsumer       // ts | wsts
	rt   *rtspSub            // rtsp
	hl   *hlsSub             // hls

	// snapshot taken right before the tail is published
	hadVideo     bool // TS kinds: a video PES had arrived; RTSP: playing with a video track of the stream's codec
	framesAtTail int
}

var hlsSeq int

func joinSub(e *env, kind string) (*subT, *pbt.Violation) {
	s := e.s
	sb := &subT{kind: kind}
	switch kind {
	case "rtmp":
		sb.rc = lalclient.NewRtmpSub(s, "live", e.stream)
	case "flv":
		sb.rc = lalclient.NewFlvSub(s, "live", e.stream, false)
	case "wsflv":
		sb.rc = lalclient.NewFlvSub(s, "live", e.stream, true)
	case "ts":
		sb.wts = newTsSub(s, e.stream, false)
	case "wsts":
		sb.wts = newTsSub(s, e.stream, true)
	case "rtsp":
		sb.rt = newRtspSub(s, e.stream)
	case "hls":
		hlsSeq++
		sb.hl = &hlsSub{remote: fmt.Sprintf("127.0.0.1:%d", 45000+hlsSeq%10000)}
		if hlsSeq%2 == 0 {
			sb.hl.playlist = "/hls/" + e.stream + ".m3u8"
		} else {
			sb.hl.playlist = "/hls/" + e.stream + "/playlist.m3u8"
		}
		if v := sb.hl.fetch(e); v != nil {
			return sb, v
		}
	default:
		panic(pbt.HarnessError{Msg: "bad subscriber kind " + kind})
	}
	return sb, s.PanicViolation()
}

func (sb *subT) pump() {
	if sb.rt != nil {
		sb.rt.pump()
	}
}

// received reports the number of bytes lal has written to a subscriber whose writes are synchronous with the
// publisher's goroutine (RTSP in this check), or -1.
func (sb *subT) syncBytes() int64 {
	if sb.rt != nil && sb.rt.state == 1 {
		return sb.rt.conn.TotalReceived()
	}
	return -1
}

func (sb *subT) tsBody() []byte {
	if sb.wts != nil {
		return sb.wts.Body()
	}
	return nil
}

// beforeTail records what the consumer had demonstrably been carrying.
func (sb *subT) beforeTail(codec string) {
	switch {
	case sb.wts != nil:
		sb.hadVideo = tsHasVideoPes(sb.tsBody())
	case sb.rt != nil:
		sb.rt.pump()
		sb.hadVideo = sb.rt.state == 1 && codec != "" && sb.rt.hasVideo(codec)
		sb.framesAtTail = len(sb.rt.frames)
	}
}

// lost: lal ended the consumer's connection although the consumer did nothing wrong.
func (sb *subT) lost() bool {
	switch {
	case sb.rc != nil:
		return sb.rc.JoinErr() == nil && sb.rc.Ended() && sb.rc.Err() == nil
	case sb.wts != nil:
		err, eof := sb.wts.state()
		return eof && err == nil
	case sb.rt != nil:
		return sb.rt.state == 1 && sb.rt.ferr == nil && sb.rt.conn.PeerGone()
	}
	return false
}

// framing judges F1 on what has arrived so far.
func (sb *subT) framing(e *env) *pbt.Violation {
	switch {
	case sb.rc != nil:
		if err := sb.rc.Err(); err != nil {
			return pbt.V("framing/"+sb.kind, "%s consumer: %v (after %d decoded records)", sb.kind, err, len(sb.rc.Recs()))
		}
		if n := sb.rc.TrailingPartial(); n > 0 {
			return pbt.V("framing/"+sb.kind, "%s consumer: the stream ended inside a unit (%d bytes of an incomplete unit)", sb.kind, n)
		}
	case sb.wts != nil:
		if err, _ := sb.wts.state(); err != nil {
			return pbt.V("framing/"+sb.kind, "%s consumer: %v", sb.kind, err)
		}
		return judgeTs(sb.kind, sb.wts.Body())
	case sb.rt != nil:
		sb.rt.pump()
		if sb.rt.ferr != nil {
			return pbt.V("framing/rtsp", "RTSP consumer (state %d, %d frames so far): %v", sb.rt.state, len(sb.rt.frames), sb.rt.ferr)
		}
	case sb.hl != nil:
		return sb.hl.fetch(e)
	}
	return nil
}

// delivered judges F2 for the marker published in the tail.  strict = the consumer forwards opaquely.
func (sb *subT) delivered(markerPayload, markerNal []byte) *pbt.Violation {
	switch {
	case sb.rc != nil:
		if sb.rc.JoinErr() != nil {
			return nil
		}
		pbt.Count("tail-delivery-judged/"+sb.kind, 1)
		if sb.rc.WaitFor(func(r lalclient.Rec) bool { return bytes.Equal(r.Payload, markerPayload) }, lalclient.DeliverTimeout) < 0 {
			if err := sb.rc.Err(); err != nil {
				return pbt.V("framing/"+sb.kind, "%s consumer: %v", sb.kind, err)
			}
			return pbt.V("tail-not-delivered/"+sb.kind, "%s consumer (attached, %d records, ended=%v) never received the well-formed marker published after the hostile messages", sb.kind, len(sb.rc.Recs()), sb.rc.Ended())
		}
	case sb.wts != nil:
		if !sb.hadVideo || markerNal == nil {
			return nil
		}
		pbt.Count("tail-delivery-judged/"+sb.kind, 1)
		pred := func(body []byte) bool { return tsHasPayload(body, markerNal) }
		if !sb.wts.WaitPred(pred, lalclient.DeliverTimeout) {
			return pbt.V("tail-not-delivered/"+sb.kind, "%s consumer had been receiving video, but the well-formed key frame published after the hostile messages never arrived (%d bytes received)", sb.kind, len(sb.tsBody()))
		}
	case sb.rt != nil:
		if !sb.hadVideo || markerNal == nil {
			return nil
		}
		sb.rt.pump()
		if sb.rt.state != 1 || sb.rt.ferr != nil {
			return nil // judged by lost / framing
		}
		pbt.Count("tail-delivery-judged/rtsp", 1)
		for _, f := range sb.rt.frames[sb.framesAtTail:] {
			if bytes.Contains(f.payload, markerNal) {
				return nil
			}
		}
		return pbt.V("tail-not-delivered/rtsp", "RTSP consumer is playing a %d-track session with video, but the well-formed key frame published after the hostile messages was not sent to it (%d frames before, %d after)",
			sb.rt.ntracks, sb.framesAtTail, len(sb.rt.frames)-sb.framesAtTail)
	}
	return nil
}

func (sb *subT) close() {
	if sb.rt != nil {
		pbt.Count([]string{"rtsp-sub-still-waiting-for-sdp", "rtsp-sub-playing", "rtsp-sub-refused-or-closed"}[sb.rt.state], 1)
	}
	if sb.hl != nil && sb.hl.served > 0 {
		pbt.Count("hls-playlists-served", sb.hl.served)
	}
	switch {
	case sb.rc != nil:
		sb.rc.Close()
	case sb.wts != nil:
		_ = sb.wts.conn.Close()
	case sb.rt != nil:
		_ = sb.rt.conn.Close()
	}
}

// ---------------------------------------------------------------------------
// F3: forwarded opaquely

type pubRec struct {
	typ     uint8
	ts      uint32
	payload []byte
}

func recKey(typ uint8, ts uint32, payload []byte) string {
	return string([]byte{typ, byte(ts >> 24), byte(ts >> 16), byte(ts >> 8), byte(ts)}) + string(payload)
}

// lal's made-up audio (remux.DummyAudioFilter): AAC-LC 48 kHz stereo sequence header, one silent frame
var dummyAsh = []byte{0xaf, 0x00, 0x11, 0x90}
var dummyFrame = []byte{0xaf, 0x01, 0x21, 0x10, 0x04, 0x60, 0x8c, 0x1c}

// cachedHeaderKind: the payloads lal caches as "sequence header" and replays to a joining consumer before
// anything else, whatever their publication order (FLV spec E.4.3.1 / E.4.2.1, enhanced-RTMP SequenceStart).
func cachedHeaderKind(typ uint8, p []byte) bool {
	if len(p) < 2 {
		return false
	}
	if typ == 8 {
		return p[0]>>4 == 10 && p[1] == 0
	}
	if p[0]&0x80 != 0 {
		return len(p) >= 5 && p[0]&0x0f == 0 && string(p[1:5]) == "hvc1"
	}
	return (p[0] == 0x17 || p[0] == 0x1c) && p[1] == 0
}

// forwarded judges F3 on what an RTMP / FLV / WS-FLV consumer has decoded so far (a prefix of its stream is
// as good as the whole: the rule is about each record and its order, not about completeness).
func (sb *subT) forwarded(pub []pubRec, dummy bool) *pbt.Violation {
	if sb.rc == nil || sb.rc.JoinErr() != nil {
		return nil
	}
	index := map[string][]int{}
	for i, p := range pub {
		k := recKey(p.typ, p.ts, p.payload)
		index[k] = append(index[k], i)
	}
	recs := sb.rc.Recs()
	cur := -1
	prologue := true
	judged := 0
	for n, r := range recs {
		if r.Type != 8 && r.Type != 9 {
			continue
		}
		if dummy && r.Type == 8 && (bytes.Equal(r.Payload, dummyAsh) || bytes.Equal(r.Payload, dummyFrame)) {
			continue
		}
		judged++
		idxs := index[recKey(r.Type, r.Ts, r.Payload)]
		if len(idxs) == 0 {
			what := "no published message has this payload"
			for i, p := range pub {
				switch {
				case p.typ == r.Type && bytes.Equal(p.payload, r.Payload):
					what = fmt.Sprintf("published message %d has this payload but timestamp %d", i, p.ts)
				case p.typ == r.Type && p.ts == r.Ts && len(r.Payload) < len(p.payload) && bytes.HasPrefix(p.payload, r.Payload):
					what = fmt.Sprintf("it is the first %d of the %d bytes of published message %d", len(r.Payload), len(p.payload), i)
				case p.typ == r.Type && p.ts == r.Ts && len(p.payload) == len(r.Payload) && what[0] == 'n':
					what = fmt.Sprintf("published message %d has this type, timestamp and length but other bytes", i)
				}
			}
			return pbt.V("forwarded/altered-or-reordered/"+sb.kind, "%s consumer: record %d %s is not a published audio / video message: %s", sb.kind, n, r, what)
		}
		if prologue && cachedHeaderKind(r.Type, r.Payload) {
			continue
		}
		prologue = false
		pick := -1
		for _, x := range idxs {
			if x > cur {
				pick = x
				break
			}
		}
		if pick < 0 {
			return pbt.V("forwarded/altered-or-reordered/"+sb.kind, "%s consumer: record %d %s is published message %v, but it arrives after published message %d: reordered or delivered twice", sb.kind, n, r, idxs, cur)
		}
		cur = pick
	}
	pbt.Count("forwarded-records-judged", judged)
	return nil
}
