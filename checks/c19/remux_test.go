package c19

import (
	"testing"

	"github.com/q191201771/lal/pkg/base"
	"github.com/q191201771/lal/pkg/remux"
	"pgregory.net/rapid"

	"verif/drv/pbt"
	"verif/ref/codecref"
)

// avpacket2rtmp-config: the configuration an AvPacket source delivers — in-band
// parameter sets inside Annex-B / length-prefixed access units, ADTS headers,
// or the sets of an SDP — reaches the RTMP side as sequence headers carrying
// the same bytes (AvPacket2RtmpRemuxer: RTSP / GB28181 / customize ingest).
//
// Only the sequence headers are examined here; frames belong to C07.

type RemuxCase struct {
	Hevc    bool             `json:"hevc"`
	AvcSPS  codecref.H264SPS `json:"avc_sps"`
	HevcVPS codecref.H265VPS `json:"hevc_vps"`
	HevcSPS codecref.H265SPS `json:"hevc_sps"`
	PPS     PS               `json:"pps"`
	Frame   PS               `json:"frame"`
	// "sdp": InitWithAvConfig (sets announced out of band); "inband": FeedAvPacket
	Mode string `json:"mode"`
	// in-band framing
	Avcc          bool    `json:"avcc"` // length-prefixed access units instead of Annex-B
	Aud           bool    `json:"aud"`  // access unit delimiter in front
	SetsOwnPacket bool    `json:"sets_own_packet"`
	FourByte      [5]bool `json:"four_byte"`
	Trail         [5]int  `json:"trail"`
	// audio
	Audio      string `json:"audio"` // "", "adts" (in-band), "asc" (sdp mode)
	ObjectType int    `json:"object_type"`
	FreqIndex  int    `json:"freq_index"`
	Channels   int    `json:"channels"`
	AscTail    []byte `json:"asc_tail,omitempty"`
	RawLen     int    `json:"raw_len"`
}

func genRemux(t *rapid.T) RemuxCase {
	var c RemuxCase
	c.Hevc = rapid.Bool().Draw(t, "hevc")
	if c.Hevc {
		maxSub := rapid.IntRange(0, 6).Draw(t, "maxSub")
		c.HevcVPS, c.HevcSPS = genH265VPS(t, maxSub), genH265SPS(t, maxSub)
	} else {
		c.AvcSPS = genH264SPS(t)
	}
	c.PPS = psGen(maxSetLen()).Draw(t, "pps")
	if c.PPS.Len < 2 {
		c.PPS.Len = 2
	}
	c.Frame = PS{Seed: rapid.Uint32().Draw(t, "frameSeed"), Len: rapid.IntRange(3, 3000).Draw(t, "frameLen"), Zero: rapid.SampledFrom([]int{0, 300}).Draw(t, "frameZero")}
	c.Mode = rapid.SampledFrom([]string{"inband", "inband", "sdp"}).Draw(t, "mode")
	c.Avcc = rapid.IntRange(0, 2).Draw(t, "avcc") == 0
	c.Aud = rapid.Bool().Draw(t, "aud")
	c.SetsOwnPacket = rapid.Bool().Draw(t, "ownPacket")
	for i := range c.FourByte {
		c.FourByte[i] = rapid.Bool().Draw(t, "four")
		c.Trail[i] = rapid.SampledFrom([]int{0, 0, 0, 1, 2, 3}).Draw(t, "trail")
	}
	if c.Mode == "sdp" {
		c.Audio = rapid.SampledFrom([]string{"", "asc"}).Draw(t, "audio")
	} else {
		c.Audio = rapid.SampledFrom([]string{"", "adts"}).Draw(t, "audio")
	}
	c.ObjectType = rapid.IntRange(1, 4).Draw(t, "aot")
	c.FreqIndex = rapid.IntRange(0, 12).Draw(t, "freq")
	c.Channels = rapid.IntRange(0, 7).Draw(t, "chan")
	if c.Audio == "asc" {
		c.ObjectType = rapid.OneOf(rapid.IntRange(1, 30), rapid.IntRange(32, 95)).Draw(t, "ascAot")
		c.Channels = rapid.IntRange(0, 15).Draw(t, "ascChan")
		c.AscTail = rapid.SliceOfN(rapid.Byte(), 0, 5).Draw(t, "ascTail")
		if len(c.AscTail) == 0 {
			c.AscTail = nil
		}
	}
	c.RawLen = rapid.IntRange(7, 600).Draw(t, "rawLen")
	return c
}

func runRemux(c RemuxCase) *pbt.Violation {
	var sets [][]byte // [vps] sps pps
	var aud, frame []byte
	var vpt base.AvPacketPt
	if c.Hevc {
		sps, _, _ := encodeH265SPS(&c.HevcSPS)
		sets = [][]byte{encodeH265VPS(&c.HevcVPS), sps, c.PPS.bytes(hevcPPSHdr)}
		aud = []byte{0x46, 0x01, 0x50}
		frame = c.Frame.bytes(codecref.H265NALHeader(19, 0, 1))
		vpt = base.AvPacketPtHevc
	} else {
		sps, _, _ := encodeH264(&c.AvcSPS)
		sets = [][]byte{sps, c.PPS.bytes(avcPPSHdr)}
		aud = []byte{0x09, 0xf0}
		frame = c.Frame.bytes([]byte{0x65})
		vpt = base.AvPacketPtAvc
	}
	var msgs []base.RtmpMsg
	r := remux.NewAvPacket2RtmpRemuxer().WithOnRtmpMsg(func(m base.RtmpMsg) { msgs = append(msgs, m.Clone()) })

	var wantASC []byte
	switch c.Mode {
	case "sdp":
		var asc []byte
		if c.Audio == "asc" {
			asc = append(codecref.BuildASC(c.ObjectType, c.FreqIndex, 0, c.Channels, false, 3), c.AscTail...)
			wantASC = asc
		}
		if c.Hevc {
			r.InitWithAvConfig(asc, sets[0], sets[1], sets[2])
		} else {
			r.InitWithAvConfig(asc, nil, sets[0], sets[1])
		}
	default:
		r.WithOption(func(o *base.AvPacketStreamOption) {
			o.VideoFormat = base.AvPacketStreamVideoFormatAnnexb
			if c.Avcc {
				o.VideoFormat = base.AvPacketStreamVideoFormatAvcc
			}
			o.AudioFormat = base.AvPacketStreamAudioFormatAdtsAac
		})
		k := 0
		pack := func(nals [][]byte) []byte {
			if c.Avcc {
				return codecref.BuildAVCC(nals, 4)
			}
			var us []codecref.AnnexBUnit
			for _, n := range nals {
				us = append(us, codecref.AnnexBUnit{NAL: n, FourByte: c.FourByte[k%5], TrailingZeros: c.Trail[k%5]})
				k++
			}
			return codecref.BuildAnnexB(us)
		}
		var first [][]byte
		if c.Aud {
			first = append(first, aud)
		}
		first = append(first, sets...)
		if c.SetsOwnPacket {
			r.FeedAvPacket(base.AvPacket{PayloadType: vpt, Timestamp: 1000, Payload: pack(first)})
			r.FeedAvPacket(base.AvPacket{PayloadType: vpt, Timestamp: 1000, Payload: pack([][]byte{frame})})
		} else {
			r.FeedAvPacket(base.AvPacket{PayloadType: vpt, Timestamp: 1000, Payload: pack(append(first, frame))})
		}
		if c.Audio == "adts" {
			h := codecref.ADTS{ProtectionAbsent: true, Profile: uint8(c.ObjectType - 1), FreqIndex: uint8(c.FreqIndex), ChannelConfig: uint8(c.Channels),
				FrameLength: uint16(c.RawLen + 7), BufferFullness: 0x7ff}
			p := append(h.Marshal(), codecref.FillNAL(nil, c.Frame.Seed, c.RawLen, 0)...)
			r.FeedAvPacket(base.AvPacket{PayloadType: base.AvPacketPtAac, Timestamp: 1000, Payload: p})
			wantASC = codecref.BuildASC(c.ObjectType, c.FreqIndex, 0, c.Channels, false, 0)
		}
	}

	// ---- what reached the RTMP side ------------------------------------------------
	nv, na := 0, 0
	for _, m := range msgs {
		switch {
		case m.Header.MsgTypeId == base.RtmpTypeIdVideo && len(m.Payload) >= 5 && m.IsVideoKeySeqHeader():
			nv++
			var got [][]byte
			if c.Hevc {
				cfg, err := codecref.ParseRtmpHevcSeqHeader(m.Payload)
				if err != nil {
					return pbt.V("avpacket2rtmp/seq-header-unreadable", "HEVC sequence header emitted by AvPacket2RtmpRemuxer: %v", err)
				}
				got = append(append(cfg.NALUsOfType(32), cfg.NALUsOfType(33)...), cfg.NALUsOfType(34)...)
			} else {
				cfg, err := codecref.ParseRtmpAvcSeqHeader(m.Payload)
				if err != nil {
					return pbt.V("avpacket2rtmp/seq-header-unreadable", "AVC sequence header emitted by AvPacket2RtmpRemuxer: %v", err)
				}
				got = append(append([][]byte{}, cfg.SPS...), cfg.PPS...)
			}
			if !eqList(got, sets) {
				return pbt.V("avpacket2rtmp/parameter-sets", "sequence header carries %s, the source delivered %s (mode=%s avcc=%v own packet=%v trailing zeros=%v)", heads(got), heads(sets), c.Mode, c.Avcc, c.SetsOwnPacket, c.Trail)
			}
		case m.Header.MsgTypeId == base.RtmpTypeIdAudio && len(m.Payload) >= 2 && m.IsAacSeqHeader():
			na++
			got := m.Payload[2:]
			if c.Audio == "asc" {
				if !eq(got, wantASC) {
					return pbt.V("avpacket2rtmp/asc-bytes", "AAC sequence header carries %x, the SDP announced %x", got, wantASC)
				}
			} else {
				a, err := codecref.ParseASC(got)
				if err != nil || a.ObjectType != c.ObjectType || a.FreqIndex != c.FreqIndex || a.ChannelConfig != c.Channels {
					return pbt.V("avpacket2rtmp/asc-from-adts", "AAC sequence header carries %x (%+v, %v); the ADTS header announced type %d index %d channels %d", got, a, err, c.ObjectType, c.FreqIndex, c.Channels)
				}
			}
		}
	}
	if nv != 1 {
		return pbt.V("avpacket2rtmp/video-seq-header-count", "%d video sequence headers emitted, want 1 (mode=%s hevc=%v avcc=%v own packet=%v; %d messages)", nv, c.Mode, c.Hevc, c.Avcc, c.SetsOwnPacket, len(msgs))
	}
	if wantASC != nil && na != 1 {
		return pbt.V("avpacket2rtmp/audio-seq-header-count", "%d AAC sequence headers emitted, want 1 (mode=%s)", na, c.Mode)
	}
	return nil
}

func classifyRemux(c RemuxCase) (bool, []string) {
	labels := []string{"mode=" + c.Mode}
	nt := false
	if c.Hevc {
		labels = append(labels, "hevc")
	} else {
		labels = append(labels, "avc")
	}
	a, l := psLabels("pps", c.PPS.bytes(avcPPSHdr))
	nt, labels = nt || a, append(labels, l...)
	if c.Mode == "inband" {
		if c.Avcc {
			labels = append(labels, "length-prefixed")
		} else {
			labels = append(labels, "annexb")
			n := len(c.Trail)
			for i := 0; i < n; i++ {
				if c.Trail[i] > 0 {
					labels = append(labels, "trailing-zeros")
					nt = true
				}
				if !c.FourByte[i] {
					nt = true
				}
			}
		}
		if c.SetsOwnPacket {
			labels = append(labels, "sets-in-own-packet")
		}
		if c.Aud {
			labels = append(labels, "aud")
		}
	}
	if c.Audio != "" {
		labels = append(labels, "audio="+c.Audio)
	}
	return nt, uniq(labels)
}

func TestAvPacket2RtmpConfig(t *testing.T) {
	pbt.Run(t, pbt.Spec[RemuxCase]{
		ID: "C19", Name: "avpacket2rtmp-config", Gen: genRemux, Run: runRemux, Classify: classifyRemux,
		Quick: 3000, Thorough: 15000,
	})
}
