package c19

import (
	"testing"

	"github.com/q191201771/lal/pkg/base"
	"github.com/q191201771/lal/pkg/remux"
	"pgregory.net/rapid"

	"verif/drv/pbt"
	"verif/ref/codecref"
)

// avpacket2rtmp-config: the configuration an AvPacket source delivers — in-band
// parameter sets inside Annex-B / length-prefixed access units, ADTS headers,
// or the sets of an SDP — reaches the RTMP side as sequence headers carrying
// the same bytes (AvPacket2RtmpRemuxer: RTSP / GB28181 / customize ingest).
//
// Only the sequence headers are examined here; frames belong to C07.

type RemuxCase struct {
	Hevc    bool             `json:"hevc"`
	AvcSPS  codecref.H264SPS `json:"avc_sps"`
	HevcVPS codecref.H265VPS `json:"hevc_vps"`
	HevcSPS codecref.H265SPS `json:"hevc_sps"`
	PPS     PS               `json:"pps"`
	Frame   PS               `json:"frame"`
	// "sdp": InitWithAvConfig (sets announced out of band); "inband": FeedAvPacket with one complete group;
	// "history": FeedAvPacket with a history of access units whose parameter-set NAL units repeat, go
	// missing (incomplete groups) or change before the group is complete
	Mode    string  `json:"mode"`
	History [][]Tok `json:"history,omitempty"`
	// in-band framing
	Avcc          bool    `json:"avcc"` // length-prefixed access units instead of Annex-B
	Aud           bool    `json:"aud"`  // access unit delimiter in front
	SetsOwnPacket bool    `json:"sets_own_packet"`
	FourByte      [5]bool `json:"four_byte"`
	Trail         [5]int  `json:"trail"`
	// audio
	Audio      string `json:"audio"` // "", "adts" (in-band), "asc" (sdp mode)
	ObjectType int    `json:"object_type"`
	FreqIndex  int    `json:"freq_index"`
	Channels   int    `json:"channels"`
	AscTail    []byte `json:"asc_tail,omitempty"`
	RawLen     int    `json:"raw_len"`
}

// Tok is one NAL unit of a history: K = "vps" | "sps" | "pps" | "aud" | "idr" | "slice"; G selects the
// variant of a parameter set (different bytes for different G).
type Tok struct {
	K string `json:"k"`
	G int    `json:"g"`
}

func genHistory(t *rapid.T, hevc bool) [][]Tok {
	kinds := []string{"sps", "pps", "sps", "pps", "idr", "slice", "aud"}
	if hevc {
		kinds = append(kinds, "vps", "vps")
	}
	var h [][]Tok
	np := rapid.IntRange(1, 5).Draw(t, "nPackets")
	for i := 0; i < np; i++ {
		var pkt []Tok
		switch rapid.IntRange(0, 5).Draw(t, "pktClass") {
		case 0: // a well-formed key access unit
			if hevc {
				pkt = append(pkt, Tok{"vps", 0})
			}
			pkt = append(pkt, Tok{"sps", 0}, Tok{"pps", 0}, Tok{"idr", 0})
		case 1: // the encoder repeats a set inside the access unit
			g := rapid.IntRange(0, 2).Draw(t, "g")
			pkt = append(pkt, Tok{"sps", g}, Tok{"sps", g}, Tok{"pps", g}, Tok{"pps", rapid.IntRange(0, 2).Draw(t, "g2")})
		case 2: // a lone set (the rest of the group was lost)
			pkt = append(pkt, Tok{rapid.SampledFrom(kinds[:4]).Draw(t, "lone"), rapid.IntRange(0, 2).Draw(t, "g")})
		default:
			n := rapid.IntRange(1, 5).Draw(t, "nTok")
			for j := 0; j < n; j++ {
				pkt = append(pkt, Tok{rapid.SampledFrom(kinds).Draw(t, "kind"), rapid.IntRange(0, 2).Draw(t, "g")})
			}
		}
		h = append(h, pkt)
	}
	return h
}

func genRemux(t *rapid.T) RemuxCase {
	var c RemuxCase
	c.Hevc = rapid.Bool().Draw(t, "hevc")
	if c.Hevc {
		maxSub := rapid.IntRange(0, 6).Draw(t, "maxSub")
		c.HevcVPS, c.HevcSPS = genH265VPS(t, maxSub), genH265SPS(t, maxSub)
	} else {
		c.AvcSPS = genH264SPS(t)
	}
	c.PPS = psGen(maxSetLen()).Draw(t, "pps")
	if c.PPS.Len < 2 {
		c.PPS.Len = 2
	}
	c.Frame = PS{Seed: rapid.Uint32().Draw(t, "frameSeed"), Len: rapid.IntRange(3, 3000).Draw(t, "frameLen"), Zero: rapid.SampledFrom([]int{0, 300}).Draw(t, "frameZero")}
	c.Mode = rapid.SampledFrom([]string{"inband", "inband", "sdp", "history", "history"}).Draw(t, "mode")
	if c.Mode == "history" {
		c.History = genHistory(t, c.Hevc)
		if c.PPS.Len > 3000 {
			c.PPS.Len = 3000
		}
	}
	c.Avcc = rapid.IntRange(0, 2).Draw(t, "avcc") == 0
	c.Aud = rapid.Bool().Draw(t, "aud")
	c.SetsOwnPacket = rapid.Bool().Draw(t, "ownPacket")
	for i := range c.FourByte {
		c.FourByte[i] = rapid.Bool().Draw(t, "four")
		c.Trail[i] = rapid.SampledFrom([]int{0, 0, 0, 1, 2, 3}).Draw(t, "trail")
	}
	if c.Mode == "sdp" {
		c.Audio = rapid.SampledFrom([]string{"", "asc"}).Draw(t, "audio")
	} else {
		c.Audio = rapid.SampledFrom([]string{"", "adts"}).Draw(t, "audio")
	}
	c.ObjectType = rapid.IntRange(1, 4).Draw(t, "aot")
	c.FreqIndex = rapid.IntRange(0, 12).Draw(t, "freq")
	c.Channels = rapid.IntRange(0, 7).Draw(t, "chan")
	if c.Audio == "asc" {
		c.ObjectType = rapid.OneOf(rapid.IntRange(1, 30), rapid.IntRange(32, 95)).Draw(t, "ascAot")
		c.Channels = rapid.IntRange(0, 15).Draw(t, "ascChan")
		c.AscTail = rapid.SliceOfN(rapid.Byte(), 0, 5).Draw(t, "ascTail")
		if len(c.AscTail) == 0 {
			c.AscTail = nil
		}
	}
	c.RawLen = rapid.IntRange(7, 600).Draw(t, "rawLen")
	return c
}

func runRemux(c RemuxCase) *pbt.Violation {
	var sets [][]byte // [vps] sps pps
	var aud, frame []byte
	var vpt base.AvPacketPt
	if c.Hevc {
		sps, _, _ := encodeH265SPS(&c.HevcSPS)
		sets = [][]byte{encodeH265VPS(&c.HevcVPS), sps, c.PPS.bytes(hevcPPSHdr)}
		aud = []byte{0x46, 0x01, 0x50}
		frame = c.Frame.bytes(codecref.H265NALHeader(19, 0, 1))
		vpt = base.AvPacketPtHevc
	} else {
		sps, _, _ := encodeH264(&c.AvcSPS)
		sets = [][]byte{sps, c.PPS.bytes(avcPPSHdr)}
		aud = []byte{0x09, 0xf0}
		frame = c.Frame.bytes([]byte{0x65})
		vpt = base.AvPacketPtAvc
	}
	var msgs []base.RtmpMsg
	r := remux.NewAvPacket2RtmpRemuxer().WithOnRtmpMsg(func(m base.RtmpMsg) { msgs = append(msgs, m.Clone()) })

	if c.Mode == "history" {
		return runRemuxHistory(c, r, &msgs, vpt, aud, frame)
	}

	var wantASC []byte
	switch c.Mode {
	case "sdp":
		var asc []byte
		if c.Audio == "asc" {
			asc = append(codecref.BuildASC(c.ObjectType, c.FreqIndex, 0, c.Channels, false, 3), c.AscTail...)
			wantASC = asc
		}
		if c.Hevc {
			r.InitWithAvConfig(asc, sets[0], sets[1], sets[2])
		} else {
			r.InitWithAvConfig(asc, nil, sets[0], sets[1])
		}
	default:
		r.WithOption(func(o *base.AvPacketStreamOption) {
			o.VideoFormat = base.AvPacketStreamVideoFormatAnnexb
			if c.Avcc {
				o.VideoFormat = base.AvPacketStreamVideoFormatAvcc
			}
			o.AudioFormat = base.AvPacketStreamAudioFormatAdtsAac
		})
		k := 0
		pack := func(nals [][]byte) []byte {
			if c.Avcc {
				return codecref.BuildAVCC(nals, 4)
			}
			var us []codecref.AnnexBUnit
			for _, n := range nals {
				us = append(us, codecref.AnnexBUnit{NAL: n, FourByte: c.FourByte[k%5], TrailingZeros: c.Trail[k%5]})
				k++
			}
			return codecref.BuildAnnexB(us)
		}
		var first [][]byte
		if c.Aud {
			first = append(first, aud)
		}
		first = append(first, sets...)
		if c.SetsOwnPacket {
			r.FeedAvPacket(base.AvPacket{PayloadType: vpt, Timestamp: 1000, Payload: pack(first)})
			r.FeedAvPacket(base.AvPacket{PayloadType: vpt, Timestamp: 1000, Payload: pack([][]byte{frame})})
		} else {
			r.FeedAvPacket(base.AvPacket{PayloadType: vpt, Timestamp: 1000, Payload: pack(append(first, frame))})
		}
		if c.Audio == "adts" {
			h := codecref.ADTS{ProtectionAbsent: true, Profile: uint8(c.ObjectType - 1), FreqIndex: uint8(c.FreqIndex), ChannelConfig: uint8(c.Channels),
				FrameLength: uint16(c.RawLen + 7), BufferFullness: 0x7ff}
			p := append(h.Marshal(), codecref.FillNAL(nil, c.Frame.Seed, c.RawLen, 0)...)
			r.FeedAvPacket(base.AvPacket{PayloadType: base.AvPacketPtAac, Timestamp: 1000, Payload: p})
			wantASC = codecref.BuildASC(c.ObjectType, c.FreqIndex, 0, c.Channels, false, 0)
		}
	}

	// ---- what reached the RTMP side ------------------------------------------------
	nv, na := 0, 0
	for _, m := range msgs {
		switch {
		case m.Header.MsgTypeId == base.RtmpTypeIdVideo && len(m.Payload) >= 5 && m.IsVideoKeySeqHeader():
			nv++
			var got [][]byte
			if c.Hevc {
				cfg, err := codecref.ParseRtmpHevcSeqHeader(m.Payload)
				if err != nil {
					return pbt.V("avpacket2rtmp/seq-header-unreadable", "HEVC sequence header emitted by AvPacket2RtmpRemuxer: %v", err)
				}
				got = append(append(cfg.NALUsOfType(32), cfg.NALUsOfType(33)...), cfg.NALUsOfType(34)...)
			} else {
				cfg, err := codecref.ParseRtmpAvcSeqHeader(m.Payload)
				if err != nil {
					return pbt.V("avpacket2rtmp/seq-header-unreadable", "AVC sequence header emitted by AvPacket2RtmpRemuxer: %v", err)
				}
				got = append(append([][]byte{}, cfg.SPS...), cfg.PPS...)
			}
			if !eqList(got, sets) {
				return pbt.V("avpacket2rtmp/parameter-sets", "sequence header carries %s, the source delivered %s (mode=%s avcc=%v own packet=%v trailing zeros=%v)", heads(got), heads(sets), c.Mode, c.Avcc, c.SetsOwnPacket, c.Trail)
			}
		case m.Header.MsgTypeId == base.RtmpTypeIdAudio && len(m.Payload) >= 2 && m.IsAacSeqHeader():
			na++
			got := m.Payload[2:]
			if c.Audio == "asc" {
				if !eq(got, wantASC) {
					return pbt.V("avpacket2rtmp/asc-bytes", "AAC sequence header carries %x, the SDP announced %x", got, wantASC)
				}
			} else {
				a, err := codecref.ParseASC(got)
				if err != nil || a.ObjectType != c.ObjectType || a.FreqIndex != c.FreqIndex || a.ChannelConfig != c.Channels {
					return pbt.V("avpacket2rtmp/asc-from-adts", "AAC sequence header carries %x (%+v, %v); the ADTS header announced type %d index %d channels %d", got, a, err, c.ObjectType, c.FreqIndex, c.Channels)
				}
			}
		}
	}
	if nv != 1 {
		return pbt.V("avpacket2rtmp/video-seq-header-count", "%d video sequence headers emitted, want 1 (mode=%s hevc=%v avcc=%v own packet=%v; %d messages)", nv, c.Mode, c.Hevc, c.Avcc, c.SetsOwnPacket, len(msgs))
	}
	if wantASC != nil && na != 1 {
		return pbt.V("avpacket2rtmp/audio-seq-header-count", "%d AAC sequence headers emitted, want 1 (mode=%s)", na, c.Mode)
	}
	return nil
}

// variant returns the bytes of parameter set kind k, variant g.  Variants differ in an id field (model
// sets) or in the RBSP (PPS) so that every (k, g) is a distinct, well-formed NAL unit.
func (c RemuxCase) variant(k string, g int) []byte {
	switch k {
	case "vps":
		v := c.HevcVPS
		v.VpsID = uint8((int(v.VpsID) + g) % 16)
		return encodeH265VPS(&v)
	case "sps":
		if c.Hevc {
			s := c.HevcSPS
			s.SpsID = uint32((int(s.SpsID) + g) % 16)
			b, _, _ := encodeH265SPS(&s)
			return b
		}
		s := c.AvcSPS
		s.SpsID = uint32((int(s.SpsID) + g) % 32)
		b, _, _ := encodeH264(&s)
		return b
	default:
		p := c.PPS
		p.Seed += uint32(g)
		p.Len += g
		if c.Hevc {
			return p.bytes(hevcPPSHdr)
		}
		return p.bytes(avcPPSHdr)
	}
}

// runRemuxHistory: whatever the order, repetition or loss of parameter-set NAL units, every sequence
// header the remuxer emits carries, per type, exactly one NAL unit, byte-identical to the latest one of
// one of the units of that type the source delivered last (in the current access unit, or the latest
// before it) — never a mixture or concatenation —, and a header is emitted once every type has been delivered.
func runRemuxHistory(c RemuxCase, r *remux.AvPacket2RtmpRemuxer, msgs *[]base.RtmpMsg, vpt base.AvPacketPt, aud, frame []byte) *pbt.Violation {
	r.WithOption(func(o *base.AvPacketStreamOption) {
		o.VideoFormat = base.AvPacketStreamVideoFormatAnnexb
		if c.Avcc {
			o.VideoFormat = base.AvPacketStreamVideoFormatAvcc
		}
	})
	types := []string{"sps", "pps"}
	if c.Hevc {
		types = []string{"vps", "sps", "pps"}
	}
	latest := map[string][]byte{} // latest NAL unit of each type delivered so far
	k := 0
	headers := 0
	for pi, pkt := range c.History {
		before := map[string][]byte{}
		for t, b := range latest {
			before[t] = b
		}
		inPkt := map[string][][]byte{}
		var nals [][]byte
		for _, tok := range pkt {
			switch tok.K {
			case "aud":
				nals = append(nals, aud)
			case "idr":
				nals = append(nals, frame)
			case "slice":
				h := []byte{0x41}
				if c.Hevc {
					h = codecref.H265NALHeader(1, 0, 1)
				}
				nals = append(nals, codecref.FillNAL(h, c.Frame.Seed+7, c.Frame.Len, 0))
			default:
				b := c.variant(tok.K, tok.G)
				nals = append(nals, b)
				inPkt[tok.K] = append(inPkt[tok.K], b)
				latest[tok.K] = b
			}
		}
		var payload []byte
		if c.Avcc {
			payload = codecref.BuildAVCC(nals, 4)
		} else {
			var us []codecref.AnnexBUnit
			for _, n := range nals {
				us = append(us, codecref.AnnexBUnit{NAL: n, FourByte: c.FourByte[k%5], TrailingZeros: c.Trail[k%5]})
				k++
			}
			payload = codecref.BuildAnnexB(us)
		}
		n0 := len(*msgs)
		r.FeedAvPacket(base.AvPacket{PayloadType: vpt, Timestamp: int64(1000 + 40*pi), Payload: payload})
		for _, m := range (*msgs)[n0:] {
			if m.Header.MsgTypeId != base.RtmpTypeIdVideo || len(m.Payload) < 5 || !m.IsVideoKeySeqHeader() {
				continue
			}
			headers++
			got := map[string][][]byte{}
			if c.Hevc {
				cfg, err := codecref.ParseRtmpHevcSeqHeader(m.Payload)
				if err != nil {
					return pbt.V("avpacket2rtmp/seq-header-unreadable", "HEVC sequence header emitted for packet %d of history %v: %v", pi, c.History, err)
				}
				got["vps"], got["sps"], got["pps"] = cfg.NALUsOfType(32), cfg.NALUsOfType(33), cfg.NALUsOfType(34)
			} else {
				cfg, err := codecref.ParseRtmpAvcSeqHeader(m.Payload)
				if err != nil {
					return pbt.V("avpacket2rtmp/seq-header-unreadable", "AVC sequence header emitted for packet %d of history %v: %v", pi, c.History, err)
				}
				got["sps"], got["pps"] = cfg.SPS, cfg.PPS
			}
			for _, t := range types {
				// candidates: the units of that type in this packet and the latest one before it.  lal emits
				// as soon as one unit of every type is cached, in arrival order, so after a lost unit a header
				// may pair the new SPS with the PPS cached from the incomplete earlier group (TODO in lal's
				// source); which units form "a group" is not stated by the property and is not asserted.
				cand := append([][]byte{}, inPkt[t]...)
				if before[t] != nil {
					cand = append(cand, before[t])
				}
				ok := len(got[t]) == 1
				if ok {
					ok = false
					for _, cb := range cand {
						if eq(got[t][0], cb) {
							ok = true
						}
					}
				}
				if !ok {
					return pbt.V("avpacket2rtmp/history-parameter-sets", "sequence header emitted for packet %d carries %s = %s; the source delivered %s in that packet and %s before it (history %v, avcc=%v)",
						pi, t, heads(got[t]), heads(inPkt[t]), head(before[t]), c.History, c.Avcc)
				}
			}
		}
		complete := true
		for _, t := range types {
			if latest[t] == nil {
				complete = false
			}
		}
		if complete && headers == 0 {
			return pbt.V("avpacket2rtmp/video-seq-header-count", "every parameter-set type has been delivered by packet %d but no sequence header was emitted (history %v, avcc=%v)", pi, c.History, c.Avcc)
		}
	}
	return nil
}

func classifyRemux(c RemuxCase) (bool, []string) {
	labels := []string{"mode=" + c.Mode}
	nt := false
	if c.Hevc {
		labels = append(labels, "hevc")
	} else {
		labels = append(labels, "avc")
	}
	a, l := psLabels("pps", c.PPS.bytes(avcPPSHdr))
	nt, labels = nt || a, append(labels, l...)
	if c.Mode == "inband" {
		if c.Avcc {
			labels = append(labels, "length-prefixed")
		} else {
			labels = append(labels, "annexb")
			n := len(c.Trail)
			for i := 0; i < n; i++ {
				if c.Trail[i] > 0 {
					labels = append(labels, "trailing-zeros")
					nt = true
				}
				if !c.FourByte[i] {
					nt = true
				}
			}
		}
		if c.SetsOwnPacket {
			labels = append(labels, "sets-in-own-packet")
		}
		if c.Aud {
			labels = append(labels, "aud")
		}
	}
	if c.Audio != "" && c.Mode != "history" {
		labels = append(labels, "audio="+c.Audio)
	}
	if c.Mode == "history" {
		nt = true
		if c.Avcc {
			labels = append(labels, "history/length-prefixed")
		} else {
			labels = append(labels, "history/annexb")
		}
		seen := map[string]int{}
		gens := map[string]map[int]bool{}
		for _, pkt := range c.History {
			in := map[string]int{}
			for _, tok := range pkt {
				if tok.K == "vps" || tok.K == "sps" || tok.K == "pps" {
					in[tok.K]++
					seen[tok.K]++
					if gens[tok.K] == nil {
						gens[tok.K] = map[int]bool{}
					}
					gens[tok.K][tok.G] = true
				}
			}
			for _, n := range in {
				if n > 1 {
					labels = append(labels, "history/type-repeated-in-packet")
				}
			}
			if len(in) > 0 && len(in) < 2 {
				labels = append(labels, "history/incomplete-group-packet")
			}
		}
		for k, n := range seen {
			if n > 1 {
				labels = append(labels, "history/type-delivered-more-than-once")
			}
			if len(gens[k]) > 1 {
				labels = append(labels, "history/changed-set")
			}
		}
	}
	return nt, uniq(labels)
}

func TestAvPacket2RtmpConfig(t *testing.T) {
	pbt.Run(t, pbt.Spec[RemuxCase]{
		ID: "C19", Name: "avpacket2rtmp-config", Gen: genRemux, Run: runRemux, Classify: classifyRemux,
		Quick: 3000, Thorough: 15000,
	})
}
