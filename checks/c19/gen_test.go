package c19

import (
	"bytes"
	"fmt"

	"github.com/q191201771/naza/pkg/nazalog"
	"pgregory.net/rapid"

	"verif/drv/pbt"
	"verif/ref/codecref"
)

func init() {
	// lal logs parse failures through the global naza logger; keep the shards quiet
	_ = nazalog.Init(func(o *nazalog.Option) {
		o.Level = nazalog.LevelFatal
		o.IsToStdout = false
		o.Filename = ""
	})
}

// ---------------------------------------------------------------------------
// arbitrary parameter-set bytes

// PS describes a parameter set (or any NAL unit) made of a NAL header and a
// pseudo-random RBSP with emulation prevention applied: Len bytes in total,
// expanded deterministically from Seed by codecref.FillNAL.
type PS struct {
	Seed uint32 `json:"seed"`
	Len  int    `json:"len"`
	Zero int    `json:"zero"` // per-mille of RBSP bytes forced to 0..3 (emulation prevention density)
}

func (p PS) bytes(hdr []byte) []byte {
	b := codecref.FillNAL(hdr, p.Seed, p.Len, p.Zero)
	if !codecref.WellFormedNAL(b) {
		panic(pbt.HarnessError{Msg: fmt.Sprintf("FillNAL produced a malformed NAL unit: %+v", p)})
	}
	return b
}

// psGen draws lengths over the whole 1..65535 range with weight on the ends,
// on 255/256 (one-byte length overflow) and on tiny sets.
func psGen(max int) *rapid.Generator[PS] {
	return rapid.Custom(func(t *rapid.T) PS {
		var n int
		switch rapid.IntRange(0, 11).Draw(t, "lenClass") {
		case 0:
			n = rapid.IntRange(1, 5).Draw(t, "tiny")
		case 1, 2, 3, 4:
			n = rapid.IntRange(1, 64).Draw(t, "small")
		case 5:
			n = rapid.SampledFrom([]int{254, 255, 256, 257, 258}).Draw(t, "byteEdge")
		case 6, 7:
			n = rapid.IntRange(65, 2000).Draw(t, "mid")
		case 8:
			n = rapid.SampledFrom([]int{32767, 32768, 65533, 65534, 65535}).Draw(t, "wordEdge")
		case 9:
			n = rapid.IntRange(2000, 65535).Draw(t, "large")
		default:
			n = rapid.IntRange(1, 300).Draw(t, "short")
		}
		if n > max {
			n = max
		}
		return PS{
			Seed: rapid.Uint32().Draw(t, "seed"),
			Len:  n,
			Zero: rapid.SampledFrom([]int{0, 0, 300, 600, 900}).Draw(t, "zero"),
		}
	})
}

func maxSetLen() int { return 65535 }

func eq(a, b []byte) bool { return bytes.Equal(a, b) }

func eqList(a, b [][]byte) bool {
	if len(a) != len(b) {
		return false
	}
	for i := range a {
		if !bytes.Equal(a[i], b[i]) {
			return false
		}
	}
	return true
}

func head(b []byte) string {
	if len(b) > 24 {
		return fmt.Sprintf("%x...(%d bytes)", b[:24], len(b))
	}
	return fmt.Sprintf("%x", b)
}

func heads(l [][]byte) string {
	s := "["
	for i, b := range l {
		if i > 0 {
			s += " "
		}
		if i >= 8 {
			s += "..."
			break
		}
		s += head(b)
	}
	return s + "]"
}

// firstDiff describes where two byte strings diverge.
func firstDiff(a, b []byte) string {
	n := len(a)
	if len(b) < n {
		n = len(b)
	}
	for i := 0; i < n; i++ {
		if a[i] != b[i] {
			return fmt.Sprintf("first difference at byte %d (want %#02x got %#02x), lengths %d/%d", i, a[i], b[i], len(a), len(b))
		}
	}
	return fmt.Sprintf("one is a prefix of the other, lengths %d/%d", len(a), len(b))
}

func uniq(in []string) []string {
	seen := map[string]bool{}
	var out []string
	for _, s := range in {
		if !seen[s] {
			seen[s] = true
			out = append(out, s)
		}
	}
	return out
}

// ---------------------------------------------------------------------------
// H.264 SPS encoder-model parameters

// profiles an encoder writes into a sequence parameter set NAL unit (type 7):
// Baseline / Main / Extended carry no chroma information; the High family
// does.  (The SVC / MVC / 3D profile_idc values 83, 86, 118, 128, 134, 135,
// 138, 139 only occur in subset SPS NAL units, type 15, and are not generated.)
var h264Profiles = []uint8{66, 77, 88, 100, 100, 110, 122, 244, 244, 44}

var h264Levels = []uint8{10, 11, 12, 13, 20, 21, 22, 30, 31, 32, 40, 41, 42, 50, 51, 52, 60, 61, 62}

var offsetGen = rapid.OneOf(
	rapid.Int32Range(-4, 4),
	rapid.SampledFrom([]int32{0, 1, -1, 2147483647, -2147483647, 65535, -65536, 32767, -32768, 1 << 24, -(1 << 24), 1 << 16}),
	rapid.Int32Range(-2147483647, 2147483647),
)

// scalingDeltas simulates 7.3.2.1.1.1 so that the class "list terminated
// early by nextScale == 0" is hit on purpose.
func scalingDeltas(t *rapid.T, size int) []int32 {
	switch rapid.IntRange(0, 4).Draw(t, "slClass") {
	case 0:
		return nil // flat: every delta 0
	case 1:
		return []int32{-8} // nextScale = 0 at j = 0: fall back to the default list
	}
	stopAt := -1
	if rapid.Bool().Draw(t, "slStop") {
		stopAt = rapid.IntRange(1, size-1).Draw(t, "slStopAt")
	}
	var out []int32
	last, next := 8, 8
	for j := 0; j < size; j++ {
		if next == 0 {
			break
		}
		var d int32
		if j == stopAt {
			d = int32(-last)
			if d < -128 {
				d += 256
			}
		} else {
			d = rapid.OneOf(rapid.Int32Range(-3, 3), rapid.Int32Range(-128, 127)).Draw(t, "delta")
			if (last+int(d)+256)%256 == 0 {
				d++ // keep going: only stopAt terminates
				if d > 127 {
					d = 1
				}
			}
		}
		out = append(out, d)
		next = (last + int(d) + 256) % 256
		if next != 0 {
			last = next
		}
	}
	return out
}

func genH264VUI(t *rapid.T) *codecref.H264VUI {
	v := &codecref.H264VUI{}
	v.AspectRatioInfoPresent = rapid.IntRange(0, 3).Draw(t, "ari") != 0
	if v.AspectRatioInfoPresent {
		v.AspectRatioIdc = rapid.OneOf(rapid.Uint8Range(0, 16), rapid.Just(uint8(255))).Draw(t, "arIdc")
		if v.AspectRatioIdc == 255 {
			sar := rapid.OneOf(rapid.SampledFrom([]uint16{0, 1, 2, 3, 256, 0xFFFF}), rapid.Uint16())
			v.SarWidth = sar.Draw(t, "sarW")
			v.SarHeight = sar.Draw(t, "sarH")
		}
	}
	v.OverscanInfoPresent = rapid.Bool().Draw(t, "overscan")
	v.OverscanAppropriate = rapid.Bool().Draw(t, "overscanOk")
	v.VideoSignalTypePresent = rapid.Bool().Draw(t, "vst")
	if v.VideoSignalTypePresent {
		v.VideoFormat = rapid.Uint8Range(0, 5).Draw(t, "vf")
		v.VideoFullRange = rapid.Bool().Draw(t, "fullRange")
		v.ColourDescriptionPresent = rapid.Bool().Draw(t, "cdp")
		v.ColourPrimaries = rapid.Uint8Range(0, 12).Draw(t, "cp")
		v.TransferCharacteristics = rapid.Uint8Range(0, 18).Draw(t, "tc")
		v.MatrixCoefficients = rapid.Uint8Range(0, 10).Draw(t, "mc")
	}
	v.ChromaLocInfoPresent = rapid.Bool().Draw(t, "cli")
	v.ChromaLocTop = rapid.Uint32Range(0, 5).Draw(t, "clt")
	v.ChromaLocBottom = rapid.Uint32Range(0, 5).Draw(t, "clb")
	v.TimingInfoPresent = rapid.Bool().Draw(t, "timing")
	if v.TimingInfoPresent {
		v.NumUnitsInTick = rapid.OneOf(rapid.SampledFrom([]uint32{1, 1001, 1000}), rapid.Uint32Range(1, 1<<31)).Draw(t, "nuit")
		v.TimeScale = rapid.OneOf(rapid.SampledFrom([]uint32{50, 60, 60000, 90000}), rapid.Uint32Range(1, 1<<31)).Draw(t, "ts")
		v.FixedFrameRate = rapid.Bool().Draw(t, "ffr")
	}
	hrd := func(label string) *codecref.H264HRD {
		if rapid.IntRange(0, 4).Draw(t, label) != 0 {
			return nil
		}
		n := rapid.IntRange(1, 3).Draw(t, label+"n")
		h := &codecref.H264HRD{BitRateScale: rapid.Uint8Range(0, 15).Draw(t, label+"brs"), CpbSizeScale: rapid.Uint8Range(0, 15).Draw(t, label+"css"),
			InitialDelayLenM1: rapid.Uint8Range(0, 31).Draw(t, label+"a"), CpbRemovalDelayLenM1: rapid.Uint8Range(0, 31).Draw(t, label+"b"),
			DpbOutputDelayLenM1: rapid.Uint8Range(0, 31).Draw(t, label+"c"), TimeOffsetLen: rapid.Uint8Range(0, 31).Draw(t, label+"d")}
		for i := 0; i < n; i++ {
			h.BitRateValM1 = append(h.BitRateValM1, rapid.Uint32Range(0, 1<<20).Draw(t, label+"br"))
			h.CpbSizeValM1 = append(h.CpbSizeValM1, rapid.Uint32Range(0, 1<<20).Draw(t, label+"cs"))
			h.Cbr = append(h.Cbr, rapid.Bool().Draw(t, label+"cbr"))
		}
		return h
	}
	v.NalHrd = hrd("nalHrd")
	v.VclHrd = hrd("vclHrd")
	v.LowDelayHrd = rapid.Bool().Draw(t, "lowDelay")
	v.PicStructPresent = rapid.Bool().Draw(t, "picStruct")
	v.BitstreamRestriction = rapid.Bool().Draw(t, "bsr")
	if v.BitstreamRestriction {
		v.MotionVectorsOverPicBoundaries = rapid.Bool().Draw(t, "mvopb")
		v.MaxBytesPerPicDenom = rapid.Uint32Range(0, 16).Draw(t, "mbppd")
		v.MaxBitsPerMbDenom = rapid.Uint32Range(0, 16).Draw(t, "mbpmd")
		v.Log2MaxMvLengthHorizontal = rapid.Uint32Range(0, 16).Draw(t, "mvh")
		v.Log2MaxMvLengthVertical = rapid.Uint32Range(0, 16).Draw(t, "mvv")
		v.MaxNumReorderFrames = rapid.Uint32Range(0, 16).Draw(t, "reorder")
		v.MaxDecFrameBuffering = rapid.Uint32Range(0, 16).Draw(t, "mdfb")
	}
	return v
}

func genH264SPS(t *rapid.T) codecref.H264SPS {
	var s codecref.H264SPS
	s.NalRefIdc = rapid.Uint8Range(1, 3).Draw(t, "nri")
	s.ProfileIdc = rapid.SampledFrom(h264Profiles).Draw(t, "profile")
	s.ConstraintFlags = rapid.Uint8Range(0, 63).Draw(t, "constraint") << 2
	s.SpsID = rapid.OneOf(rapid.Just(uint32(0)), rapid.Uint32Range(0, 31)).Draw(t, "spsId")
	if codecref.H264ProfileHasChromaInfo(s.ProfileIdc) {
		cfiMax, depthMax := uint32(1), uint32(0)
		switch s.ProfileIdc {
		case 110:
			depthMax = 2
		case 122:
			cfiMax, depthMax = 2, 2
		case 244, 44:
			cfiMax, depthMax = 3, 6
		}
		s.ChromaFormatIdc = rapid.OneOf(rapid.Just(cfiMax), rapid.Uint32Range(0, cfiMax)).Draw(t, "cfi")
		if s.ChromaFormatIdc == 3 {
			s.SeparateColourPlane = rapid.Bool().Draw(t, "sepPlane")
		}
		s.BitDepthLumaMinus8 = rapid.Uint32Range(0, depthMax).Draw(t, "bdl")
		s.BitDepthChromaMinus8 = rapid.Uint32Range(0, depthMax).Draw(t, "bdc")
		if cfiMax == 3 {
			s.QpprimeYZeroBypass = rapid.Bool().Draw(t, "qpprime")
		}
		s.ScalingMatrixPresent = rapid.IntRange(0, 2).Draw(t, "scalingMatrix") == 0
		if s.ScalingMatrixPresent {
			n := 8
			if s.ChromaFormatIdc == 3 {
				n = 12
			}
			for i := 0; i < n; i++ {
				var l codecref.H264ScalingList
				l.Present = rapid.Bool().Draw(t, "slPresent")
				if l.Present {
					size := 16
					if i >= 6 {
						size = 64
					}
					l.Deltas = scalingDeltas(t, size)
				}
				s.ScalingLists = append(s.ScalingLists, l)
			}
		}
	}
	s.Log2MaxFrameNumMinus4 = rapid.Uint32Range(0, 12).Draw(t, "l2mfn")
	s.PocType = rapid.Uint32Range(0, 2).Draw(t, "pocType")
	switch s.PocType {
	case 0:
		s.Log2MaxPocLsbMinus4 = rapid.Uint32Range(0, 12).Draw(t, "l2poc")
	case 1:
		s.DeltaPicOrderAlwaysZero = rapid.Bool().Draw(t, "dpoaz")
		s.OffsetForNonRefPic = offsetGen.Draw(t, "ofnrp")
		s.OffsetForTopToBottom = offsetGen.Draw(t, "ofttb")
		maxCycle := 16
		if rapid.IntRange(0, 19).Draw(t, "longCycle") == 0 {
			maxCycle = 255
		}
		n := rapid.IntRange(0, maxCycle).Draw(t, "cycle")
		for i := 0; i < n; i++ {
			s.OffsetForRefFrame = append(s.OffsetForRefFrame, offsetGen.Draw(t, "ofrf"))
		}
	}
	s.MaxNumRefFrames = rapid.Uint32Range(0, 16).Draw(t, "refs")
	s.GapsInFrameNumAllowed = rapid.Bool().Draw(t, "gaps")

	s.FrameMbsOnly = s.ProfileIdc == 66 || rapid.IntRange(0, 2).Draw(t, "fmo") != 0
	wMbs := rapid.OneOf(
		rapid.SampledFrom([]uint32{11, 20, 22, 40, 45, 80, 120, 160, 240}),
		rapid.Uint32Range(1, 256),
		rapid.Uint32Range(1, 1055),
	).Draw(t, "wMbs")
	hUnits := rapid.OneOf(
		rapid.SampledFrom([]uint32{9, 15, 18, 23, 30, 34, 36, 45, 68, 135}),
		rapid.Uint32Range(1, 256),
		rapid.Uint32Range(1, 1055),
	).Draw(t, "hUnits")
	mul := uint32(2)
	if s.FrameMbsOnly {
		mul = 1
	}
	// keep inside the largest level (6.2): MaxFS 139264, each side <= sqrt(8*MaxFS)
	if hUnits*mul > 1055 {
		hUnits = 1055 / mul
	}
	if wMbs*hUnits*mul > 139264 {
		hUnits = 139264 / (wMbs * mul)
	}
	if hUnits == 0 {
		hUnits = 1
	}
	s.PicWidthInMbsMinus1 = wMbs - 1
	s.PicHeightInMapUnitsMinus1 = hUnits - 1
	var fits []uint8
	for _, l := range h264Levels {
		if codecref.H264LevelFits(l, wMbs, hUnits*mul) {
			fits = append(fits, l)
		}
	}
	if len(fits) == 0 {
		panic(pbt.HarnessError{Msg: fmt.Sprintf("no level fits %dx%d macroblocks", wMbs, hUnits*mul)})
	}
	s.LevelIdc = fits[rapid.IntRange(0, len(fits)-1).Draw(t, "level")]
	if !s.FrameMbsOnly {
		s.MbAdaptiveFrameField = rapid.Bool().Draw(t, "mbaff")
		s.Direct8x8Inference = true
	} else {
		s.Direct8x8Inference = rapid.Bool().Draw(t, "d8x8")
	}

	s.FrameCropping = rapid.IntRange(0, 9).Draw(t, "cropping") < 6
	if s.FrameCropping {
		ux, uy := s.CropUnits()
		cw, ch := s.CodedSize()
		maxX, maxY := cw/ux-1, ch/uy-1 // largest legal left+right / top+bottom
		var totX, totY uint32
		switch rapid.IntRange(0, 3).Draw(t, "cropClass") {
		case 0, 1: // what encoders do: remove less than one macroblock (pair) at the right / bottom
			totX = rapid.Uint32Range(0, 16/ux-1).Draw(t, "cropX")
			totY = rapid.Uint32Range(0, 16*mul/uy-1).Draw(t, "cropY")
		case 2:
			totX = rapid.Uint32Range(0, min32(maxX, 64)).Draw(t, "cropX")
			totY = rapid.Uint32Range(0, min32(maxY, 64)).Draw(t, "cropY")
		default:
			totX = rapid.Uint32Range(0, maxX).Draw(t, "cropX")
			totY = rapid.Uint32Range(0, maxY).Draw(t, "cropY")
		}
		totX, totY = min32(totX, maxX), min32(totY, maxY)
		if rapid.IntRange(0, 2).Draw(t, "cropSplit") == 0 {
			s.CropLeft = rapid.Uint32Range(0, totX).Draw(t, "cropL")
			s.CropTop = rapid.Uint32Range(0, totY).Draw(t, "cropT")
		}
		s.CropRight = totX - s.CropLeft
		s.CropBottom = totY - s.CropTop
	}
	if rapid.IntRange(0, 9).Draw(t, "vui") < 6 {
		s.VUI = genH264VUI(t)
	}
	return s
}

func min32(a, b uint32) uint32 {
	if a < b {
		return a
	}
	return b
}

// encodeH264 runs the encoder model; a failure here is a generator bug.
func encodeH264(s *codecref.H264SPS) (nal []byte, w, h uint32) {
	nal, w, h, err := s.EncodeNAL()
	if err != nil {
		panic(pbt.HarnessError{Msg: fmt.Sprintf("H.264 encoder model rejected generated parameters: %v (%+v)", err, *s)})
	}
	if !codecref.WellFormedNAL(nal) {
		panic(pbt.HarnessError{Msg: fmt.Sprintf("H.264 encoder model produced a malformed NAL unit %x", nal)})
	}
	return
}

// h264Labels classifies an SPS; nt follows the stated non-trivial rule.
func h264Labels(s *codecref.H264SPS, nal []byte) (nt bool, labels []string) {
	cfi := uint32(1)
	if codecref.H264ProfileHasChromaInfo(s.ProfileIdc) {
		labels = append(labels, "profile-with-chroma-info")
		cfi = s.ChromaFormatIdc
		if s.ScalingMatrixPresent {
			labels = append(labels, "scaling-lists")
			nt = true
			for _, l := range s.ScalingLists {
				if l.Present && len(l.Deltas) == 1 && l.Deltas[0] == -8 {
					labels = append(labels, "scaling-list-default-fallback")
				}
			}
		}
		if s.SeparateColourPlane && cfi == 3 {
			labels = append(labels, "separate-colour-plane")
		}
		if s.BitDepthLumaMinus8 > 0 || s.BitDepthChromaMinus8 > 0 {
			labels = append(labels, "high-bit-depth")
		}
	} else {
		labels = append(labels, "profile-without-chroma-info")
	}
	labels = append(labels, fmt.Sprintf("chroma_format_idc=%d", cfi), fmt.Sprintf("poc-type-%d", s.PocType))
	if cfi != 1 {
		nt = true
	}
	if !s.FrameMbsOnly {
		labels = append(labels, "field-or-mbaff")
		nt = true
	}
	if s.FrameCropping {
		labels = append(labels, "cropping")
		nt = true
		if s.CropLeft != 0 || s.CropTop != 0 {
			labels = append(labels, "crop-left/top")
		}
	}
	if s.VUI != nil {
		labels = append(labels, "vui")
		if s.VUI.AspectRatioInfoPresent {
			labels = append(labels, "vui-aspect-ratio")
			if s.VUI.AspectRatioIdc == 255 {
				labels = append(labels, "vui-extended-sar")
			}
		}
	}
	if codecref.HasEPB(nal) {
		labels = append(labels, "epb")
		nt = true
		// does it sit in front of the size / cropping fields?
		c := *s
		c.VUI = nil
		short, _, _, err := c.EncodeNAL()
		if err == nil && len(short) >= 2 && codecref.HasEPB(short[:len(short)-1]) {
			labels = append(labels, "epb-before-size-fields")
		}
	}
	if len(nal) >= 256 {
		labels = append(labels, "sps>=256B")
		nt = true
	}
	return nt, labels
}

// ---------------------------------------------------------------------------
// H.265 VPS / SPS encoder-model parameters

var h265Levels = []uint8{30, 60, 63, 90, 93, 120, 123, 150, 153, 156, 180, 183, 186}

func genProfileTier(t *rapid.T, label string) codecref.H265ProfileTier {
	p := codecref.H265ProfileTier{
		TierFlag:    rapid.Bool().Draw(t, label+"tier"),
		ProfileIdc:  rapid.OneOf(rapid.Uint8Range(1, 4), rapid.Uint8Range(0, 31)).Draw(t, label+"idc"),
		CompatFlags: rapid.OneOf(rapid.SampledFrom([]uint32{0x60000000, 0x40000000, 0}), rapid.Uint32()).Draw(t, label+"compat"),
	}
	// progressive / interlaced / non-packed / frame-only + 44 bits that are zero for the Main profiles
	p.ConstraintFlags = rapid.OneOf(
		rapid.SampledFrom([]uint64{0x900000000000, 0xB00000000000, 0, 0x800000000000}),
		rapid.Uint64Range(0, 1<<48-1),
	).Draw(t, label+"constraint")
	return p
}

func genPTL(t *rapid.T, maxSub int) codecref.H265PTL {
	p := codecref.H265PTL{General: genProfileTier(t, "g"), LevelIdc: rapid.SampledFrom(h265Levels).Draw(t, "level")}
	for i := 0; i < maxSub; i++ {
		sl := codecref.H265SubLayerPTL{ProfilePresent: rapid.Bool().Draw(t, "slpp"), LevelPresent: rapid.Bool().Draw(t, "sllp")}
		if sl.ProfilePresent {
			sl.Profile = genProfileTier(t, "sl")
		}
		if sl.LevelPresent {
			sl.LevelIdc = rapid.SampledFrom(h265Levels).Draw(t, "slLevel")
		}
		p.SubLayers = append(p.SubLayers, sl)
	}
	return p
}

func genOrdering(t *rapid.T, maxSub int) []codecref.H265Ordering {
	var out []codecref.H265Ordering
	for i := 0; i <= maxSub; i++ {
		buf := rapid.Uint32Range(0, 15).Draw(t, "dpb")
		out = append(out, codecref.H265Ordering{
			MaxDecPicBufferingMinus1: buf,
			MaxNumReorderPics:        rapid.Uint32Range(0, buf).Draw(t, "reorder"),
			MaxLatencyIncreasePlus1:  rapid.OneOf(rapid.Uint32Range(0, 4), rapid.SampledFrom([]uint32{0xFFFFFFFE, 65536})).Draw(t, "latency"),
		})
	}
	return out
}

func genH265VPS(t *rapid.T, maxSub int) codecref.H265VPS {
	v := codecref.H265VPS{
		VpsID:              rapid.Uint8Range(0, 15).Draw(t, "vpsId"),
		MaxSubLayersMinus1: uint8(maxSub),
		TemporalIdNesting:  maxSub == 0 || rapid.Bool().Draw(t, "vpsNesting"),
		PTL:                genPTL(t, maxSub),
		Ordering:           genOrdering(t, maxSub),
	}
	v.SubLayerOrderingInfoPresent = rapid.Bool().Draw(t, "vpsOrderingPresent")
	switch rapid.IntRange(0, 9).Draw(t, "layerSets") {
	case 0: // a long but legal VPS: many layer sets
		v.MaxLayerID = rapid.Uint8Range(0, 62).Draw(t, "maxLayerId")
		maxSets := 200
		if pbt.Thorough() {
			maxSets = 1023
		}
		n := rapid.IntRange(1, maxSets).Draw(t, "nLayerSets")
		seed := rapid.Uint32().Draw(t, "layerSetSeed")
		x := seed | 1
		for i := 0; i < n; i++ {
			set := make([]bool, int(v.MaxLayerID)+1)
			for j := range set {
				x ^= x << 13
				x ^= x >> 17
				x ^= x << 5
				set[j] = x&0x300 == 0 // sparse: long zero runs
			}
			v.LayerSets = append(v.LayerSets, set)
		}
	case 1:
		v.MaxLayerID = rapid.Uint8Range(0, 3).Draw(t, "maxLayerId")
		set := make([]bool, int(v.MaxLayerID)+1)
		set[0] = true
		v.LayerSets = [][]bool{set}
	}
	v.TimingInfoPresent = rapid.Bool().Draw(t, "vpsTiming")
	if v.TimingInfoPresent {
		v.NumUnitsInTick = rapid.OneOf(rapid.SampledFrom([]uint32{1, 1001}), rapid.Uint32Range(1, 1<<31)).Draw(t, "vnuit")
		v.TimeScale = rapid.OneOf(rapid.SampledFrom([]uint32{25, 30000, 90000}), rapid.Uint32Range(1, 1<<31)).Draw(t, "vts")
		v.PocProportional = rapid.Bool().Draw(t, "pocProp")
		v.NumTicksPocDiffOneMinus1 = rapid.Uint32Range(0, 8).Draw(t, "ntpd")
	}
	return v
}

func genH265SPS(t *rapid.T, maxSub int) codecref.H265SPS {
	s := codecref.H265SPS{
		VpsID:              rapid.Uint8Range(0, 15).Draw(t, "spsVpsId"),
		MaxSubLayersMinus1: uint8(maxSub),
		TemporalIdNesting:  maxSub == 0 || rapid.Bool().Draw(t, "spsNesting"),
		PTL:                genPTL(t, maxSub),
		SpsID:              rapid.Uint32Range(0, 15).Draw(t, "spsId"),
		Ordering:           genOrdering(t, maxSub),
	}
	s.ChromaFormatIdc = rapid.OneOf(rapid.Just(uint32(1)), rapid.Uint32Range(0, 3)).Draw(t, "cfi")
	if s.ChromaFormatIdc == 3 {
		s.SeparateColourPlane = rapid.Bool().Draw(t, "sepPlane")
	}
	s.Log2MinCbMinus3 = rapid.Uint32Range(0, 2).Draw(t, "minCb")
	minCbLog2 := s.Log2MinCbMinus3 + 3
	lo := uint32(0)
	if minCbLog2 < 4 {
		lo = 4 - minCbLog2
	}
	s.Log2DiffMaxMinCb = rapid.Uint32Range(lo, 6-minCbLog2).Draw(t, "diffCb")
	ctbLog2 := minCbLog2 + s.Log2DiffMaxMinCb
	minTbLog2 := rapid.Uint32Range(2, minCbLog2-1).Draw(t, "minTb")
	s.Log2MinTbMinus2 = minTbLog2 - 2
	maxTb := min32(5, ctbLog2)
	s.Log2DiffMaxMinTb = rapid.Uint32Range(0, maxTb-minTbLog2).Draw(t, "diffTb")
	s.MaxTHDepthInter = rapid.Uint32Range(0, ctbLog2-minTbLog2).Draw(t, "thInter")
	s.MaxTHDepthIntra = rapid.Uint32Range(0, ctbLog2-minTbLog2).Draw(t, "thIntra")
	minCb := uint32(1) << minCbLog2
	dim := func(label string, typical []uint32) uint32 {
		k := rapid.OneOf(
			rapid.SampledFrom(typical),
			rapid.Uint32Range(1, 512),
			rapid.Uint32Range(1, 16384),
		).Draw(t, label)
		k = (k + minCb - 1) / minCb * minCb
		if k > 16384 {
			k = 16384
		}
		return k
	}
	s.Width = dim("width", []uint32{176, 352, 640, 704, 1280, 1920, 2560, 3840, 4096, 7680, 8192})
	s.Height = dim("height", []uint32{144, 288, 480, 576, 720, 1088, 1440, 2160, 2176, 4320, 4352})
	// conformance window: what every encoder writes for sizes that are not a
	// multiple of the minimum coding block (1080 = 1088 - 8), in units of
	// SubWidthC / SubHeightC
	if rapid.Bool().Draw(t, "confWin") {
		s.ConfWin = true
		sw, sh := s.ChromaUnits()
		maxX, maxY := s.Width/sw-1, s.Height/sh-1 // largest legal left+right / top+bottom
		var totX, totY uint32
		switch rapid.IntRange(0, 3).Draw(t, "confClass") {
		case 0, 1: // less than one minimum coding block at the right / bottom
			totX = rapid.Uint32Range(0, minCb/sw-1).Draw(t, "confX")
			totY = rapid.Uint32Range(0, minCb/sh-1).Draw(t, "confY")
		case 2:
			totX = rapid.Uint32Range(0, min32(maxX, 64)).Draw(t, "confX")
			totY = rapid.Uint32Range(0, min32(maxY, 64)).Draw(t, "confY")
		default:
			totX = rapid.Uint32Range(0, maxX).Draw(t, "confX")
			totY = rapid.Uint32Range(0, maxY).Draw(t, "confY")
		}
		totX, totY = min32(totX, maxX), min32(totY, maxY)
		if rapid.IntRange(0, 2).Draw(t, "confSplit") == 0 {
			s.ConfWinL = rapid.Uint32Range(0, totX).Draw(t, "confL")
			s.ConfWinT = rapid.Uint32Range(0, totY).Draw(t, "confT")
		}
		s.ConfWinR = totX - s.ConfWinL
		s.ConfWinB = totY - s.ConfWinT
	}
	s.BitDepthLumaMinus8 = rapid.OneOf(rapid.SampledFrom([]uint32{0, 2}), rapid.Uint32Range(0, 8)).Draw(t, "bdl")
	s.BitDepthChromaMinus8 = rapid.OneOf(rapid.SampledFrom([]uint32{0, 2}), rapid.Uint32Range(0, 8)).Draw(t, "bdc")
	s.Log2MaxPocLsbMinus4 = rapid.Uint32Range(0, 12).Draw(t, "poc")
	s.SubLayerOrderingInfoPresent = rapid.Bool().Draw(t, "orderingPresent")
	s.ScalingListEnabled = rapid.Bool().Draw(t, "scalingList")
	s.Amp = rapid.Bool().Draw(t, "amp")
	s.Sao = rapid.Bool().Draw(t, "sao")
	if rapid.IntRange(0, 3).Draw(t, "pcm") == 0 {
		s.PCM = &codecref.H265PCM{BitDepthLumaMinus1: rapid.Uint8Range(0, 7).Draw(t, "pcmL"), BitDepthChromaMinus1: rapid.Uint8Range(0, 7).Draw(t, "pcmC"),
			Log2MinCbMinus3: rapid.Uint32Range(0, 2).Draw(t, "pcmMin"), Log2DiffMaxMinCb: rapid.Uint32Range(0, 2).Draw(t, "pcmDiff"), LoopFilterDisabled: rapid.Bool().Draw(t, "pcmLf")}
	}
	nRps := rapid.OneOf(rapid.IntRange(0, 3), rapid.IntRange(0, 64)).Draw(t, "nRps")
	for i := 0; i < nRps; i++ {
		var r codecref.H265ShortTermRPS
		nn := rapid.IntRange(0, 4).Draw(t, "rpsNeg")
		np := rapid.IntRange(0, 4).Draw(t, "rpsPos")
		for j := 0; j < nn; j++ {
			r.NegDeltaPocMinus1 = append(r.NegDeltaPocMinus1, rapid.Uint32Range(0, 15).Draw(t, "dn"))
			r.NegUsed = append(r.NegUsed, rapid.Bool().Draw(t, "un"))
		}
		for j := 0; j < np; j++ {
			r.PosDeltaPocMinus1 = append(r.PosDeltaPocMinus1, rapid.Uint32Range(0, 15).Draw(t, "dp"))
			r.PosUsed = append(r.PosUsed, rapid.Bool().Draw(t, "up"))
		}
		s.ShortTermRPS = append(s.ShortTermRPS, r)
	}
	s.LongTermPresent = rapid.IntRange(0, 3).Draw(t, "lt") == 0
	if s.LongTermPresent {
		n := rapid.IntRange(0, 32).Draw(t, "nLt")
		for i := 0; i < n; i++ {
			s.LtPocLsb = append(s.LtPocLsb, rapid.Uint32Range(0, 1<<(s.Log2MaxPocLsbMinus4+4)-1).Draw(t, "ltPoc"))
			s.LtUsed = append(s.LtUsed, rapid.Bool().Draw(t, "ltUsed"))
		}
	}
	s.TemporalMvp = rapid.Bool().Draw(t, "tmvp")
	s.StrongIntraSmoothing = rapid.Bool().Draw(t, "sis")
	if rapid.Bool().Draw(t, "vui") {
		v := &codecref.H265VUI{}
		v.AspectRatioInfoPresent = rapid.Bool().Draw(t, "ari")
		v.AspectRatioIdc = rapid.OneOf(rapid.Uint8Range(0, 16), rapid.Just(uint8(255))).Draw(t, "arIdc")
		v.SarWidth = rapid.Uint16().Draw(t, "sarW")
		v.SarHeight = rapid.Uint16().Draw(t, "sarH")
		v.VideoSignalTypePresent = rapid.Bool().Draw(t, "vst")
		v.VideoFormat = rapid.Uint8Range(0, 5).Draw(t, "vf")
		v.ColourDescriptionPresent = rapid.Bool().Draw(t, "cdp")
		v.ColourPrimaries, v.TransferCharacteristics, v.MatrixCoeffs = 1, 1, 1
		v.TimingInfoPresent = rapid.Bool().Draw(t, "timing")
		v.NumUnitsInTick = rapid.OneOf(rapid.SampledFrom([]uint32{1, 1001}), rapid.Uint32Range(1, 1<<31)).Draw(t, "nuit")
		v.TimeScale = rapid.OneOf(rapid.SampledFrom([]uint32{25, 30000, 90000}), rapid.Uint32Range(1, 1<<31)).Draw(t, "ts")
		s.VUI = v
	}
	return s
}

func encodeH265SPS(s *codecref.H265SPS) (nal []byte, w, h uint32) {
	nal, w, h, err := s.EncodeNAL()
	if err != nil {
		panic(pbt.HarnessError{Msg: fmt.Sprintf("H.265 SPS encoder model rejected generated parameters: %v (%+v)", err, *s)})
	}
	if !codecref.WellFormedNAL(nal) {
		panic(pbt.HarnessError{Msg: fmt.Sprintf("H.265 encoder model produced a malformed NAL unit %x", nal)})
	}
	return
}

func encodeH265VPS(v *codecref.H265VPS) []byte {
	nal, err := v.EncodeNAL()
	if err != nil {
		panic(pbt.HarnessError{Msg: fmt.Sprintf("H.265 VPS encoder model rejected generated parameters: %v", err)})
	}
	if !codecref.WellFormedNAL(nal) {
		panic(pbt.HarnessError{Msg: fmt.Sprintf("H.265 encoder model produced a malformed VPS NAL unit %x", nal)})
	}
	return nal
}
