// C19 — codec configuration survives every re-encoding; SDP and SPS info are
// right.
//
// Sub-properties (one pbt.Spec each):
//
//	avc-sps-dimensions   avc.ParseSps width x height == the H.264 encoder model's display size
//	hevc-sps-dimensions  hevc.ParseSps width x height == the H.265 encoder model's output size (conformance
//	                     window applied in units of SubWidthC / SubHeightC)
//	avc-seqheader        SPS/PPS survive BuildSeqHeaderFromSpsPps / ParseSpsPpsFromSeqHeader /
//	                     SpsPpsSeqHeader2Annexb byte for byte, against reference record reader/writer
//	hevc-seqheader       VPS/SPS/PPS survive the HEVC equivalents (classic and enhanced header)
//	nalu-framing         Annex-B <-> length-prefixed conversion and iteration preserve the unit list
//	aac-adts             AudioSpecificConfig <-> ADTS header for the values ADTS can carry; ASC <-> RTMP header
//	sdp                  sdp.Pack output read by lal and by the reference RFC 4566/6184/7798/3640 reader
//	                     (sdp_test.go)
//	avpacket2rtmp-config in-band / SDP-announced sets and ADTS headers reach the RTMP side as sequence
//	                     headers with the same bytes (remux_test.go)
//
// Deliberately NOT asserted (the property does not state it):
//   - profile_compatibility / general_* / chroma / bit-depth fields lal writes into the
//     configuration records, profile-level-id, the MPEG4-GENERIC channel parameter
//   - SPS fields other than width and height; fields lal does not expose
//   - behaviour on malformed input (truncated records, empty NAL units, start codes inside units)
//   - ADTS aac_frame_length / buffer fullness (not configuration)
//   - the order of media sections or attributes in the SDP text
package c19

import (
	"fmt"
	"testing"

	"github.com/q191201771/lal/pkg/aac"
	"github.com/q191201771/lal/pkg/avc"
	"github.com/q191201771/lal/pkg/h2645"
	"github.com/q191201771/lal/pkg/hevc"
	"pgregory.net/rapid"

	"verif/drv/pbt"
	"verif/ref/codecref"
)

// ---------------------------------------------------------------------------
// avc-sps-dimensions

type AvcDimCase struct {
	SPS codecref.H264SPS `json:"sps"`
	// ViaSeqHeader: reach ParseSps the way the stat API does — through an RTMP
	// sequence header and ParseSpsPpsFromSeqHeader.
	ViaSeqHeader bool `json:"via_seq_header"`
}

func genAvcDim(t *rapid.T) AvcDimCase {
	return AvcDimCase{SPS: genH264SPS(t), ViaSeqHeader: rapid.IntRange(0, 3).Draw(t, "viaSeqHeader") == 0}
}

func runAvcDim(c AvcDimCase) *pbt.Violation {
	nal, w, h := encodeH264(&c.SPS)
	in := nal
	if c.ViaSeqHeader {
		rec := codecref.AVCConfig{ProfileIndication: nal[1], ProfileCompatibility: nal[2], LevelIndication: nal[3], LengthSizeMinusOne: 3,
			SPS: [][]byte{nal}, PPS: [][]byte{{0x68, 0xce, 0x38, 0x80}}}
		sps, _, err := avc.ParseSpsPpsFromSeqHeader(codecref.RtmpAvcSeqHeader(rec.Marshal()))
		if err != nil {
			return pbt.V("avc-sps/seq-header-unreadable", "ParseSpsPpsFromSeqHeader failed on a reference-built header: %v", err)
		}
		in = sps
	}
	var ctx avc.Context
	if err := avc.ParseSps(in, &ctx); err != nil {
		return pbt.V("avc-sps/parse-error", "ParseSps(%x) failed: %v; the encoder model intends %dx%d", nal, err, w, h)
	}
	if ctx.Width == w && ctx.Height == h {
		return nil
	}
	// name what went wrong
	sig := "avc-sps/dimensions"
	cw, ch := c.SPS.CodedSize()
	ux, uy := c.SPS.CropUnits()
	switch {
	case codecref.HasEPB(nal) && avcDimsAgree(codecref.StripEmulationPrevention(nal), w, h):
		sig = "avc-sps/emulation-prevention-not-removed"
	case c.SPS.FrameCropping && ctx.Width == cw-2*(c.SPS.CropLeft+c.SPS.CropRight) && ctx.Height == ch-2*(c.SPS.CropTop+c.SPS.CropBottom):
		sig = "avc-sps/crop-units"
	}
	return pbt.V(sig, "ParseSps reports %dx%d, the SPS encodes %dx%d (coded %dx%d, CropUnitX=%d CropUnitY=%d, crop l/r/t/b=%d/%d/%d/%d, frame_mbs_only=%v, chroma_format_idc=%d separate_colour_plane=%v profile=%d, EPB in NAL=%v) sps=%x",
		ctx.Width, ctx.Height, w, h, cw, ch, ux, uy, c.SPS.CropLeft, c.SPS.CropRight, c.SPS.CropTop, c.SPS.CropBottom, c.SPS.FrameMbsOnly,
		c.SPS.ChromaFormatIdc, c.SPS.SeparateColourPlane, c.SPS.ProfileIdc, codecref.HasEPB(nal), nal)
}

// avcDimsAgree: would lal report w x h if handed these bytes?  Used only to
// name the cause of an already established violation.
func avcDimsAgree(b []byte, w, h uint32) (ok bool) {
	defer func() {
		if recover() != nil {
			ok = false
		}
	}()
	var ctx avc.Context
	if err := avc.ParseSps(b, &ctx); err != nil {
		return false
	}
	return ctx.Width == w && ctx.Height == h
}

func classifyAvcDim(c AvcDimCase) (bool, []string) {
	nal, _, _ := encodeH264(&c.SPS)
	nt, labels := h264Labels(&c.SPS, nal)
	if c.ViaSeqHeader {
		labels = append(labels, "via-seq-header")
	}
	return nt, uniq(labels)
}

func TestAvcSpsDimensions(t *testing.T) {
	pbt.Run(t, pbt.Spec[AvcDimCase]{
		ID: "C19", Name: "avc-sps-dimensions", Gen: genAvcDim, Run: runAvcDim, Classify: classifyAvcDim,
		Quick: 12000, Thorough: 60000,
	})
}

// ---------------------------------------------------------------------------
// hevc-sps-dimensions

type HevcDimCase struct {
	SPS codecref.H265SPS `json:"sps"`
}

func genHevcDim(t *rapid.T) HevcDimCase {
	return HevcDimCase{SPS: genH265SPS(t, rapid.IntRange(0, 6).Draw(t, "maxSub"))}
}

func runHevcDim(c HevcDimCase) *pbt.Violation {
	nal, w, h := encodeH265SPS(&c.SPS)
	var ctx hevc.Context
	if err := hevc.ParseSps(nal, &ctx); err != nil {
		return pbt.V("hevc-sps/parse-error", "hevc.ParseSps(%x) failed: %v; the encoder model intends %dx%d", nal, err, w, h)
	}
	if ctx.PicWidthInLumaSamples != w || ctx.PicHeightInLumaSamples != h {
		sig := "hevc-sps/dimensions"
		if c.SPS.ConfWin && ctx.PicWidthInLumaSamples == c.SPS.Width && ctx.PicHeightInLumaSamples == c.SPS.Height {
			sig = "hevc-sps/conformance-window-ignored"
		} else if c.SPS.ConfWin {
			sig = "hevc-sps/conformance-window-units"
		}
		sw, sh := c.SPS.ChromaUnits()
		return pbt.V(sig, "hevc.ParseSps reports %dx%d, the SPS encodes %dx%d (coded %dx%d, conformance window=%v l/r/t/b=%d/%d/%d/%d in units of %dx%d, max_sub_layers_minus1=%d chroma_format_idc=%d EPB=%v) sps=%x",
			ctx.PicWidthInLumaSamples, ctx.PicHeightInLumaSamples, w, h, c.SPS.Width, c.SPS.Height, c.SPS.ConfWin, c.SPS.ConfWinL, c.SPS.ConfWinR, c.SPS.ConfWinT, c.SPS.ConfWinB, sw, sh,
			c.SPS.MaxSubLayersMinus1, c.SPS.ChromaFormatIdc, codecref.HasEPB(nal), nal)
	}
	return nil
}

func h265Labels(s *codecref.H265SPS, nal []byte) (bool, []string) {
	nt := false
	labels := []string{fmt.Sprintf("sub-layers=%d", s.MaxSubLayersMinus1+1), fmt.Sprintf("chroma_format_idc=%d", s.ChromaFormatIdc)}
	if s.ChromaFormatIdc != 1 {
		nt = true
	}
	for _, sl := range s.PTL.SubLayers {
		if sl.ProfilePresent {
			labels = append(labels, "sub-layer-profile")
		}
		if sl.LevelPresent {
			labels = append(labels, "sub-layer-level")
		}
	}
	if s.ConfWin {
		labels = append(labels, "conformance-window")
		nt = true
		if s.ConfWinL != 0 || s.ConfWinT != 0 {
			labels = append(labels, "conf-win-left/top")
		}
	}
	if codecref.HasEPB(nal) {
		labels = append(labels, "epb")
		nt = true
	}
	if len(nal) >= 256 {
		labels = append(labels, "sps>=256B")
		nt = true
	}
	if s.Width >= 4096 || s.Height >= 4096 {
		labels = append(labels, "size>=4096")
	}
	if !s.SubLayerOrderingInfoPresent && s.MaxSubLayersMinus1 > 0 {
		labels = append(labels, "ordering-info-last-only")
	}
	return nt, labels
}

func classifyHevcDim(c HevcDimCase) (bool, []string) {
	nal, _, _ := encodeH265SPS(&c.SPS)
	nt, l := h265Labels(&c.SPS, nal)
	return nt, uniq(l)
}

func TestHevcSpsDimensions(t *testing.T) {
	pbt.Run(t, pbt.Spec[HevcDimCase]{
		ID: "C19", Name: "hevc-sps-dimensions", Gen: genHevcDim, Run: runHevcDim, Classify: classifyHevcDim,
		Quick: 8000, Thorough: 40000,
	})
}

// ---------------------------------------------------------------------------
// avc-seqheader

type AvcSeqCase struct {
	SPS codecref.H264SPS `json:"sps"` // model SPS (build direction; parse direction unless RawSPS is set)
	PPS PS               `json:"pps"`
	// parse direction only: SPS as arbitrary bytes of any length (lal does not
	// interpret the SPS when it reads a sequence header)
	RawSPS *PS `json:"raw_sps,omitempty"`
	// additional sets for the list form read by SpsPpsSeqHeader2Annexb
	ExtraSPS []PS `json:"extra_sps,omitempty"`
	ExtraPPS []PS `json:"extra_pps,omitempty"`
	// the reference writer appends the High-profile trailer (chroma_format ..)
	HighExt bool `json:"high_ext"`
}

var avcSPSHdr = []byte{0x67}
var avcPPSHdr = []byte{0x68}

func genAvcSeq(t *rapid.T) AvcSeqCase {
	c := AvcSeqCase{SPS: genH264SPS(t), PPS: psGen(maxSetLen()).Draw(t, "pps")}
	if rapid.IntRange(0, 2).Draw(t, "rawSps") == 0 {
		p := psGen(maxSetLen()).Draw(t, "rawSpsPS")
		c.RawSPS = &p
	}
	if rapid.IntRange(0, 4).Draw(t, "multi") == 0 {
		for i, n := 0, rapid.IntRange(0, 2).Draw(t, "nExtraSps"); i < n; i++ {
			c.ExtraSPS = append(c.ExtraSPS, psGen(600).Draw(t, "extraSps"))
		}
		for i, n := 0, rapid.IntRange(0, 3).Draw(t, "nExtraPps"); i < n; i++ {
			c.ExtraPPS = append(c.ExtraPPS, psGen(600).Draw(t, "extraPps"))
		}
	}
	c.HighExt = rapid.Bool().Draw(t, "highExt")
	return c
}

func runAvcSeq(c AvcSeqCase) *pbt.Violation {
	modelSPS, _, _ := encodeH264(&c.SPS)
	pps := c.PPS.bytes(avcPPSHdr)

	// ---- build direction: lal writes the sequence header from bare sets --------
	sh, err := avc.BuildSeqHeaderFromSpsPps(modelSPS, pps)
	if err != nil {
		return pbt.V("avc-build/error", "BuildSeqHeaderFromSpsPps(sps=%s, pps=%s) failed: %v", head(modelSPS), head(pps), err)
	}
	cfg, err := codecref.ParseRtmpAvcSeqHeader(sh)
	if err != nil {
		return pbt.V("avc-build/ref-unreadable", "the reference AVCDecoderConfigurationRecord reader rejects lal's sequence header (%d bytes, sps %d, pps %d): %v", len(sh), len(modelSPS), len(pps), err)
	}
	if !eqList(cfg.SPS, [][]byte{modelSPS}) {
		return pbt.V("avc-build/sps", "sequence header built by lal carries SPS %s, want %s", heads(cfg.SPS), head(modelSPS))
	}
	if !eqList(cfg.PPS, [][]byte{pps}) {
		return pbt.V("avc-build/pps", "sequence header built by lal carries PPS %s, want %s (%d bytes)", heads(cfg.PPS), head(pps), len(pps))
	}
	s2, p2, err := avc.ParseSpsPpsFromSeqHeader(sh)
	if err != nil {
		return pbt.V("avc-roundtrip/error", "ParseSpsPpsFromSeqHeader(BuildSeqHeaderFromSpsPps(..)) failed: %v (sps %d bytes, pps %d bytes)", err, len(modelSPS), len(pps))
	}
	if !eq(s2, modelSPS) {
		return pbt.V("avc-roundtrip/sps", "SPS changed in Build->Parse: %s", firstDiff(modelSPS, s2))
	}
	if !eq(p2, pps) {
		return pbt.V("avc-roundtrip/pps", "PPS changed in Build->Parse: %s", firstDiff(pps, p2))
	}
	if v := checkAnnexb("avc-seqheader2annexb", func() ([]byte, error) { return avc.SpsPpsSeqHeader2Annexb(sh) }, [][]byte{modelSPS, pps}); v != nil {
		return v
	}
	if v := checkAnnexb("avc-seqheader2annexb", func() ([]byte, error) { return h2645.SeqHeader2Annexb(true, sh) }, [][]byte{modelSPS, pps}); v != nil {
		return v
	}
	if v := checkAnnexb("avc-spspps2annexb", func() ([]byte, error) { return avc.BuildSpsPps2Annexb(modelSPS, pps), nil }, [][]byte{modelSPS, pps}); v != nil {
		return v
	}

	// ---- parse direction: a conforming writer's header is read by lal ----------
	sps := modelSPS
	if c.RawSPS != nil {
		sps = c.RawSPS.bytes(avcSPSHdr)
	}
	rec := codecref.AVCConfig{LengthSizeMinusOne: 3, SPS: [][]byte{sps}, PPS: [][]byte{pps}}
	if len(sps) >= 4 {
		rec.ProfileIndication, rec.ProfileCompatibility, rec.LevelIndication = sps[1], sps[2], sps[3]
	}
	if c.HighExt {
		switch rec.ProfileIndication {
		case 100, 110, 122, 144:
			rec.HasExt = true
			rec.ChromaFormat = 1
		}
	}
	payload := codecref.RtmpAvcSeqHeader(rec.Marshal())
	s3, p3, err := avc.ParseSpsPpsFromSeqHeader(payload)
	if err != nil {
		return pbt.V("avc-parse/error", "ParseSpsPpsFromSeqHeader failed on a reference-built header (sps %d bytes, pps %d bytes, trailer=%v): %v", len(sps), len(pps), rec.HasExt, err)
	}
	if !eq(s3, sps) {
		return pbt.V("avc-parse/sps", "SPS read from a reference-built header differs: %s", firstDiff(sps, s3))
	}
	if !eq(p3, pps) {
		return pbt.V("avc-parse/pps", "PPS read from a reference-built header differs: %s", firstDiff(pps, p3))
	}
	s4, p4, err := avc.ParseSpsPpsFromSeqHeaderWithoutMalloc(payload)
	if err != nil || !eq(s4, sps) || !eq(p4, pps) {
		return pbt.V("avc-parse/without-malloc", "ParseSpsPpsFromSeqHeaderWithoutMalloc differs from the sets written: err=%v sps %s pps %s", err, firstDiff(sps, s4), firstDiff(pps, p4))
	}
	// list form
	recL := rec
	recL.SPS = [][]byte{sps}
	recL.PPS = [][]byte{pps}
	for _, e := range c.ExtraSPS {
		recL.SPS = append(recL.SPS, e.bytes(avcSPSHdr))
	}
	for _, e := range c.ExtraPPS {
		recL.PPS = append(recL.PPS, e.bytes(avcPPSHdr))
	}
	payloadL := codecref.RtmpAvcSeqHeader(recL.Marshal())
	want := append(append([][]byte{}, recL.SPS...), recL.PPS...)
	if v := checkAnnexb("avc-seqheader2annexb", func() ([]byte, error) { return avc.SpsPpsSeqHeader2Annexb(payloadL) }, want); v != nil {
		return v
	}
	return nil
}

// checkAnnexb: f's output, split by the reference Annex-B reader, must be want.
func checkAnnexb(sig string, f func() ([]byte, error), want [][]byte) *pbt.Violation {
	out, err := f()
	if err != nil {
		return pbt.V(sig+"/error", "conversion to Annex-B failed: %v (sets %s)", err, heads(want))
	}
	got, err := codecref.SplitAnnexB(out)
	if err != nil {
		return pbt.V(sig+"/ref-unreadable", "the reference Annex-B reader rejects the output: %v; output %s", err, head(out))
	}
	if !eqList(got, want) {
		return pbt.V(sig+"/unit-list", "Annex-B output splits into %s, want %s", heads(got), heads(want))
	}
	return nil
}

func psLabels(name string, b []byte) (bool, []string) {
	var l []string
	nt := false
	if codecref.HasEPB(b) {
		l = append(l, name+"-epb")
		nt = true
	}
	switch n := len(b); {
	case n >= 256:
		nt = true
		if n >= 65000 {
			l = append(l, name+">=65000B")
		} else {
			l = append(l, name+">=256B")
		}
	case n <= 4:
		l = append(l, name+"<=4B")
	}
	if len(b) == 65535 {
		l = append(l, name+"=65535B")
	}
	return nt, l
}

func classifyAvcSeq(c AvcSeqCase) (bool, []string) {
	nal, _, _ := encodeH264(&c.SPS)
	nt, labels := h264Labels(&c.SPS, nal)
	a, l := psLabels("pps", c.PPS.bytes(avcPPSHdr))
	nt, labels = nt || a, append(labels, l...)
	if c.RawSPS != nil {
		a, l = psLabels("raw-sps", c.RawSPS.bytes(avcSPSHdr))
		nt, labels = nt || a, append(labels, l...)
		labels = append(labels, "raw-sps")
	}
	if len(c.ExtraSPS)+len(c.ExtraPPS) > 0 {
		labels = append(labels, "multiple-sets")
	}
	if c.HighExt && (c.SPS.ProfileIdc == 100 || c.SPS.ProfileIdc == 110 || c.SPS.ProfileIdc == 122) && c.RawSPS == nil {
		labels = append(labels, "high-profile-trailer")
	}
	return nt, uniq(labels)
}

func TestAvcSeqHeader(t *testing.T) {
	pbt.Run(t, pbt.Spec[AvcSeqCase]{
		ID: "C19", Name: "avc-seqheader", Gen: genAvcSeq, Run: runAvcSeq, Classify: classifyAvcSeq,
		Quick: 5000, Thorough: 25000,
	})
}

// ---------------------------------------------------------------------------
// hevc-seqheader

type HevcSeqCase struct {
	VPS codecref.H265VPS `json:"vps"`
	SPS codecref.H265SPS `json:"sps"`
	PPS PS               `json:"pps"`
	// parse direction only: arbitrary bytes of any length for all three sets
	Raw *[3]PS `json:"raw,omitempty"`
	// reference writer options
	Enhanced     bool `json:"enhanced"`     // Enhanced-RTMP wrapping (hvc1 FourCC)
	SEIArray     bool `json:"sei_array"`    // a fourth array (prefix SEI) after the PPS
	Completeness bool `json:"completeness"` // array_completeness bits
	// record shapes ISO/IEC 14496-15 8.3.3.1 allows and encoders / muxers emit:
	// further NAL units in the VPS / SPS / PPS arrays, a suffix-SEI array, and
	// any array order (VPS, SPS, PPS, SEI is only the recommended one)
	Extra     [3][]PS `json:"extra"`
	SEISuffix bool    `json:"sei_suffix"`
	Order     []int   `json:"order,omitempty"` // permutation of the arrays present; nil = recommended order
}

var (
	hevcVPSHdr = codecref.H265NALHeader(32, 0, 1)
	hevcSPSHdr = codecref.H265NALHeader(33, 0, 1)
	hevcPPSHdr = codecref.H265NALHeader(34, 0, 1)
)

func genHevcSeq(t *rapid.T) HevcSeqCase {
	maxSub := rapid.IntRange(0, 6).Draw(t, "maxSub")
	c := HevcSeqCase{VPS: genH265VPS(t, maxSub), SPS: genH265SPS(t, maxSub), PPS: psGen(maxSetLen()).Draw(t, "pps")}
	if c.PPS.Len < 2 {
		c.PPS.Len = 2 // an H.265 NAL unit has a two-byte header; the build direction hands it to lal as a PPS
	}
	if rapid.IntRange(0, 2).Draw(t, "raw") == 0 {
		c.Raw = &[3]PS{psGen(maxSetLen()).Draw(t, "rawVps"), psGen(maxSetLen()).Draw(t, "rawSps"), psGen(maxSetLen()).Draw(t, "rawPps")}
	}
	c.Enhanced = rapid.Bool().Draw(t, "enhanced")
	c.SEIArray = rapid.IntRange(0, 3).Draw(t, "sei") == 0
	c.Completeness = rapid.Bool().Draw(t, "completeness")
	if rapid.IntRange(0, 2).Draw(t, "multi") == 0 {
		for i := range c.Extra {
			for j, n := 0, rapid.IntRange(0, 2).Draw(t, "nExtra"); j < n; j++ {
				c.Extra[i] = append(c.Extra[i], psGen(600).Draw(t, "extra"))
			}
		}
	}
	c.SEISuffix = rapid.IntRange(0, 5).Draw(t, "seiSuffix") == 0
	if rapid.IntRange(0, 2).Draw(t, "reorder") == 0 {
		n := 3
		if c.SEIArray {
			n++
		}
		if c.SEISuffix {
			n++
		}
		idx := make([]int, n)
		for i := range idx {
			idx[i] = i
		}
		c.Order = rapid.Permutation(idx).Draw(t, "order")
	}
	return c
}

func runHevcSeq(c HevcSeqCase) *pbt.Violation {
	vps := encodeH265VPS(&c.VPS)
	sps, _, _ := encodeH265SPS(&c.SPS)
	pps := c.PPS.bytes(hevcPPSHdr)
	want := [][]byte{vps, sps, pps}

	// ---- build direction --------------------------------------------------------
	sh, err := hevc.BuildSeqHeaderFromVpsSpsPps(vps, sps, pps)
	if err != nil {
		return pbt.V("hevc-build/error", "BuildSeqHeaderFromVpsSpsPps(vps=%s sps=%s pps=%s) failed: %v", head(vps), head(sps), head(pps), err)
	}
	cfg, err := codecref.ParseRtmpHevcSeqHeader(sh)
	if err != nil {
		return pbt.V("hevc-build/ref-unreadable", "the reference HEVCDecoderConfigurationRecord reader rejects lal's sequence header (%d bytes; vps %d sps %d pps %d): %v", len(sh), len(vps), len(sps), len(pps), err)
	}
	for i, typ := range []uint8{32, 33, 34} {
		if got := cfg.NALUsOfType(typ); !eqList(got, [][]byte{want[i]}) {
			return pbt.V("hevc-build/"+[]string{"vps", "sps", "pps"}[i], "sequence header built by lal carries %s for NAL type %d, want %s", heads(got), typ, head(want[i]))
		}
	}
	v2, s2, p2, err := hevc.ParseVpsSpsPpsFromSeqHeader(sh)
	if err != nil {
		return pbt.V("hevc-roundtrip/error", "ParseVpsSpsPpsFromSeqHeader(BuildSeqHeaderFromVpsSpsPps(..)) failed: %v (vps %d sps %d pps %d bytes)", err, len(vps), len(sps), len(pps))
	}
	if !eqList([][]byte{v2, s2, p2}, want) {
		return pbt.V("hevc-roundtrip/sets", "sets changed in Build->Parse: vps %s; sps %s; pps %s", firstDiff(vps, v2), firstDiff(sps, s2), firstDiff(pps, p2))
	}
	if v := checkAnnexb("hevc-seqheader2annexb", func() ([]byte, error) { return hevc.VpsSpsPpsSeqHeader2Annexb(sh) }, want); v != nil {
		return v
	}
	if v := checkAnnexb("hevc-seqheader2annexb", func() ([]byte, error) { return h2645.SeqHeader2Annexb(false, sh) }, want); v != nil {
		return v
	}
	if v := checkAnnexb("hevc-vpsspspps2annexb", func() ([]byte, error) { return hevc.BuildVpsSpsPps2Annexb(vps, sps, pps) }, want); v != nil {
		return v
	}

	// ---- parse direction ----------------------------------------------------------
	if c.Raw != nil {
		want = [][]byte{c.Raw[0].bytes(hevcVPSHdr), c.Raw[1].bytes(hevcSPSHdr), c.Raw[2].bytes(hevcPPSHdr)}
	}
	lists := [3][][]byte{{want[0]}, {want[1]}, {want[2]}}
	hdrs := [][]byte{hevcVPSHdr, hevcSPSHdr, hevcPPSHdr}
	multi := false
	for i := range c.Extra {
		for _, e := range c.Extra[i] {
			lists[i] = append(lists[i], e.bytes(hdrs[i]))
			multi = true
		}
	}
	rec := codecref.HEVCConfig{ProfileIdc: 1, CompatFlags: 0x60000000, ConstraintFlags: 0x900000000000, LevelIdc: 93, ChromaFormat: 1,
		NumTemporalLayers: 1, TemporalIdNested: true, LengthSizeMinusOne: 3,
		Arrays: []codecref.HEVCArray{{Completeness: c.Completeness, NALType: 32, NALUs: lists[0]}, {Completeness: c.Completeness, NALType: 33, NALUs: lists[1]}, {Completeness: c.Completeness, NALType: 34, NALUs: lists[2]}}}
	if c.SEIArray {
		rec.Arrays = append(rec.Arrays, codecref.HEVCArray{NALType: 39, NALUs: [][]byte{{0x4e, 0x01, 0x05, 0x01, 0xaa, 0x80}}})
	}
	if c.SEISuffix {
		rec.Arrays = append(rec.Arrays, codecref.HEVCArray{NALType: 40, NALUs: [][]byte{{0x50, 0x01, 0x84, 0x01, 0x55, 0x80}}})
	}
	if c.Order != nil {
		if len(c.Order) != len(rec.Arrays) {
			panic(pbt.HarnessError{Msg: "array order does not match the arrays present"})
		}
		re := make([]codecref.HEVCArray, len(rec.Arrays))
		for i, j := range c.Order {
			re[i] = rec.Arrays[j]
		}
		rec.Arrays = re
	}
	shape := fmt.Sprintf("arrays (type x units): %s", hevcShape(rec.Arrays))
	var payload []byte
	var parse func([]byte) ([]byte, []byte, []byte, error)
	var toAnnexb func([]byte) ([]byte, error)
	what := "classic"
	if c.Enhanced {
		what = "enhanced"
		payload = codecref.RtmpHevcEnhancedSeqHeader(rec.Marshal())
		parse, toAnnexb = hevc.ParseVpsSpsPpsFromEnhancedSeqHeader, hevc.VpsSpsPpsEnhancedSeqHeader2Annexb
	} else {
		payload = codecref.RtmpHevcSeqHeader(rec.Marshal())
		parse, toAnnexb = hevc.ParseVpsSpsPpsFromSeqHeader, hevc.VpsSpsPpsSeqHeader2Annexb
	}
	// the single-valued API: each returned set is one of the record's sets of that type
	member := func(b []byte, l [][]byte) bool {
		for _, e := range l {
			if eq(b, e) {
				return true
			}
		}
		return false
	}
	v3, s3, p3, err := parse(payload)
	if err != nil {
		return pbt.V("hevc-parse/error", "reading a reference-built %s sequence header failed: %v (vps %d sps %d pps %d bytes; %s)", what, err, len(want[0]), len(want[1]), len(want[2]), shape)
	}
	if !member(v3, lists[0]) || !member(s3, lists[1]) || !member(p3, lists[2]) {
		return pbt.V("hevc-parse/sets", "sets read from a reference-built %s header are not the record's: vps %s of %s; sps %s of %s; pps %s of %s (%s)", what, head(v3), heads(lists[0]), head(s3), heads(lists[1]), head(p3), heads(lists[2]), shape)
	}
	if !c.Enhanced {
		v4, s4, p4, err := hevc.ParseVpsSpsPpsFromSeqHeaderWithoutMalloc(payload)
		if err != nil || !member(v4, lists[0]) || !member(s4, lists[1]) || !member(p4, lists[2]) {
			return pbt.V("hevc-parse/without-malloc", "ParseVpsSpsPpsFromSeqHeaderWithoutMalloc differs from the sets written (err=%v; %s)", err, shape)
		}
	}
	// Annex-B: every VPS / SPS / PPS of the record, each once (SEI may or may not be kept)
	for _, e := range []struct {
		sig string
		f   func([]byte) ([]byte, error)
	}{{"hevc-seqheader2annexb", toAnnexb}, {"h2645-seqheader2annexb", func(b []byte) ([]byte, error) { return h2645.SeqHeader2Annexb(false, b) }}} {
		out, err := e.f(payload)
		if err != nil {
			return pbt.V(e.sig+"/error", "conversion of a reference-built %s sequence header to Annex-B failed: %v (%s)", what, err, shape)
		}
		units, err := codecref.SplitAnnexB(out)
		if err != nil {
			return pbt.V(e.sig+"/ref-unreadable", "the reference Annex-B reader rejects the output: %v; output %s", err, head(out))
		}
		var got [3][][]byte
		for _, u := range units {
			if t := int(u[0]>>1&0x3f) - 32; t >= 0 && t <= 2 {
				got[t] = append(got[t], u)
			}
		}
		for i := range got {
			if !sameMultiset(got[i], lists[i]) {
				return pbt.V(e.sig+"/unit-list", "Annex-B output of a %s header carries %s for NAL type %d, the record has %s (%s)", what, heads(got[i]), 32+i, heads(lists[i]), shape)
			}
		}
		if !multi && c.Order == nil && !eqList(units[:3], want) {
			return pbt.V(e.sig+"/unit-list", "Annex-B output splits into %s, want %s first", heads(units), heads(want))
		}
	}
	return nil
}

func hevcShape(a []codecref.HEVCArray) string {
	s := ""
	for i, e := range a {
		if i > 0 {
			s += " "
		}
		s += fmt.Sprintf("%dx%d", e.NALType, len(e.NALUs))
	}
	return s
}

func sameMultiset(a, b [][]byte) bool {
	if len(a) != len(b) {
		return false
	}
	m := map[string]int{}
	for _, e := range a {
		m[string(e)]++
	}
	for _, e := range b {
		m[string(e)]--
	}
	for _, n := range m {
		if n != 0 {
			return false
		}
	}
	return true
}

func classifyHevcSeq(c HevcSeqCase) (bool, []string) {
	sps, _, _ := encodeH265SPS(&c.SPS)
	nt, labels := h265Labels(&c.SPS, sps)
	for _, e := range []struct {
		n string
		b []byte
	}{{"vps", encodeH265VPS(&c.VPS)}, {"pps", c.PPS.bytes(hevcPPSHdr)}} {
		a, l := psLabels(e.n, e.b)
		nt, labels = nt || a, append(labels, l...)
	}
	if c.Raw != nil {
		labels = append(labels, "raw-sets")
		for i, n := range []string{"raw-vps", "raw-sps", "raw-pps"} {
			a, l := psLabels(n, c.Raw[i].bytes([][]byte{hevcVPSHdr, hevcSPSHdr, hevcPPSHdr}[i]))
			nt, labels = nt || a, append(labels, l...)
		}
	}
	if c.Enhanced {
		labels = append(labels, "enhanced-header")
	} else {
		labels = append(labels, "classic-header")
	}
	if c.SEIArray {
		labels = append(labels, "sei-prefix-array")
	}
	if c.SEISuffix {
		labels = append(labels, "sei-suffix-array")
	}
	if len(c.Extra[0])+len(c.Extra[1])+len(c.Extra[2]) > 0 {
		labels = append(labels, "several-units-per-array")
	}
	if c.Order != nil {
		labels = append(labels, "array-order-permuted")
		if c.Order[0] != 0 {
			labels = append(labels, "first-array-not-vps")
		}
	}
	return nt, uniq(labels)
}

func TestHevcSeqHeader(t *testing.T) {
	pbt.Run(t, pbt.Spec[HevcSeqCase]{
		ID: "C19", Name: "hevc-seqheader", Gen: genHevcSeq, Run: runHevcSeq, Classify: classifyHevcSeq,
		Quick: 4000, Thorough: 20000,
	})
}

// ---------------------------------------------------------------------------
// nalu-framing

type Unit struct {
	Hdr      []byte `json:"hdr"` // NAL unit header (1 byte H.264, 2 bytes H.265)
	PS       PS     `json:"ps"`
	FourByte bool   `json:"four_byte"`
	Trail    int    `json:"trail"` // trailing_zero_8bits after the unit
}

type FramingCase struct {
	Units []Unit `json:"units"`
}

func genFraming(t *rapid.T) FramingCase {
	hevcMode := rapid.Bool().Draw(t, "hevc")
	n := rapid.OneOf(rapid.IntRange(1, 4), rapid.IntRange(1, 12)).Draw(t, "n")
	max := 20000
	if pbt.Thorough() {
		max = 300 * 1024
	}
	var c FramingCase
	for i := 0; i < n; i++ {
		var u Unit
		if hevcMode {
			typ := rapid.OneOf(rapid.Uint8Range(0, 9), rapid.Uint8Range(16, 21), rapid.Uint8Range(32, 40)).Draw(t, "type")
			u.Hdr = codecref.H265NALHeader(typ, 0, rapid.Uint8Range(1, 7).Draw(t, "tid"))
		} else {
			u.Hdr = []byte{rapid.Uint8Range(0, 3).Draw(t, "nri")<<5 | rapid.Uint8Range(1, 23).Draw(t, "type")}
		}
		var l int
		switch rapid.IntRange(0, 9).Draw(t, "lenClass") {
		case 0, 1, 2:
			l = rapid.IntRange(1, 5).Draw(t, "tiny")
		case 3, 4, 5, 6:
			l = rapid.IntRange(1, 200).Draw(t, "small")
		case 7, 8:
			l = rapid.IntRange(200, 5000).Draw(t, "mid")
		default:
			l = rapid.IntRange(5000, max).Draw(t, "large")
		}
		if l < len(u.Hdr) {
			l = len(u.Hdr)
		}
		u.PS = PS{Seed: rapid.Uint32().Draw(t, "seed"), Len: l, Zero: rapid.SampledFrom([]int{0, 300, 900}).Draw(t, "zero")}
		u.FourByte = rapid.Bool().Draw(t, "four")
		u.Trail = rapid.SampledFrom([]int{0, 0, 0, 1, 2, 3, 7}).Draw(t, "trail")
		c.Units = append(c.Units, u)
	}
	return c
}

func runFraming(c FramingCase) *pbt.Violation {
	var nals [][]byte
	var units []codecref.AnnexBUnit
	for _, u := range c.Units {
		b := u.PS.bytes(u.Hdr)
		nals = append(nals, b)
		units = append(units, codecref.AnnexBUnit{NAL: b, FourByte: u.FourByte, TrailingZeros: u.Trail})
	}
	annexb := codecref.BuildAnnexB(units)
	// harness self-check: the reference reader recovers the list from the reference writer
	if back, err := codecref.SplitAnnexB(annexb); err != nil || !eqList(back, nals) {
		panic(pbt.HarnessError{Msg: fmt.Sprintf("reference Annex-B writer/reader disagree: %v", err)})
	}
	avcc := codecref.BuildAVCC(nals, 4)

	// Annex-B -> list
	var got [][]byte
	err := avc.IterateNaluAnnexb(annexb, func(n []byte) { got = append(got, append([]byte(nil), n...)) })
	if v := cmpUnits("annexb-iterate", got, err, nals); v != nil {
		return v
	}
	got2, err := avc.SplitNaluAnnexb(annexb)
	if v := cmpUnits("annexb-iterate", got2, err, nals); v != nil {
		return v
	}
	// Annex-B -> AVCC
	out, err := avc.Annexb2Avcc(annexb)
	if err != nil {
		return pbt.V("annexb2avcc/error", "Annexb2Avcc failed on a well-formed byte stream: %v", err)
	}
	back, rerr := codecref.SplitAVCC(out, 4)
	if rerr != nil {
		return pbt.V("annexb2avcc/ref-unreadable", "length-prefixed output is not parseable: %v", rerr)
	}
	if v := cmpUnits("annexb2avcc", back, nil, nals); v != nil {
		return v
	}
	// AVCC -> list
	got = nil
	err = avc.IterateNaluAvcc(avcc, func(n []byte) { got = append(got, append([]byte(nil), n...)) })
	if v := cmpUnits("avcc-iterate", got, err, nals); v != nil {
		return v
	}
	got = nil
	err = h2645.IterateNaluAvcc(avcc, func(n []byte) { got = append(got, append([]byte(nil), n...)) })
	if v := cmpUnits("avcc-iterate", got, err, nals); v != nil {
		return v
	}
	got2, err = avc.SplitNaluAvcc(avcc)
	if v := cmpUnits("avcc-iterate", got2, err, nals); v != nil {
		return v
	}
	// AVCC -> Annex-B
	ab, err := avc.Avcc2Annexb(avcc)
	if err != nil {
		return pbt.V("avcc2annexb/error", "Avcc2Annexb failed on a well-formed buffer: %v", err)
	}
	back, rerr = codecref.SplitAnnexB(ab)
	if rerr != nil {
		return pbt.V("avcc2annexb/ref-unreadable", "Annex-B output is not parseable: %v", rerr)
	}
	if v := cmpUnits("avcc2annexb", back, nil, nals); v != nil {
		return v
	}
	// and back again, byte for byte
	again, err := avc.Annexb2Avcc(ab)
	if err != nil || !eq(again, avcc) {
		return pbt.V("avcc-annexb-avcc/bytes", "Annexb2Avcc(Avcc2Annexb(x)) != x: err=%v %s", err, firstDiff(avcc, again))
	}
	if j := h2645.JoinNaluAvcc(nals...); !eq(j, avcc) {
		return pbt.V("join-avcc/bytes", "JoinNaluAvcc differs from the length-prefixed form: %s", firstDiff(avcc, j))
	}
	return nil
}

func cmpUnits(sig string, got [][]byte, err error, want [][]byte) *pbt.Violation {
	if err != nil {
		return pbt.V(sig+"/error", "returned %v on a well-formed input of %d units (delivered %d)", err, len(want), len(got))
	}
	if len(got) != len(want) {
		return pbt.V(sig+"/unit-count", "%d units delivered, want %d: got %s want %s", len(got), len(want), heads(got), heads(want))
	}
	for i := range want {
		if !eq(got[i], want[i]) {
			return pbt.V(sig+"/unit-bytes", "unit %d of %d differs: %s (got %s want %s)", i, len(want), firstDiff(want[i], got[i]), head(got[i]), head(want[i]))
		}
	}
	return nil
}

func classifyFraming(c FramingCase) (bool, []string) {
	var labels []string
	nt := false
	three, four := false, false
	for i, u := range c.Units {
		b := u.PS.bytes(u.Hdr)
		if codecref.HasEPB(b) {
			labels = append(labels, "epb")
			nt = true
		}
		if len(b) >= 256 {
			nt = true
		}
		if len(b) <= 2 {
			labels = append(labels, "unit<=2B")
		}
		if len(b) >= 65536 {
			labels = append(labels, "unit>=64KiB")
		}
		if u.FourByte {
			four = true
		} else {
			three = true
		}
		if u.Trail > 0 {
			if i == len(c.Units)-1 {
				labels = append(labels, "trailing-zeros-at-end")
			} else {
				labels = append(labels, "trailing-zeros-between")
			}
			nt = true
		}
		if b[0] == 0 {
			labels = append(labels, "first-header-byte-zero")
		}
	}
	if three && four {
		labels = append(labels, "mixed-start-codes")
		nt = true
	} else if three {
		labels = append(labels, "3-byte-start-codes")
		nt = true
	} else {
		labels = append(labels, "4-byte-start-codes")
	}
	if len(c.Units) == 1 {
		labels = append(labels, "single-unit")
	}
	if len(c.Units) >= 5 {
		labels = append(labels, "units>=5")
	}
	return nt, uniq(labels)
}

func TestNaluFraming(t *testing.T) {
	pbt.Run(t, pbt.Spec[FramingCase]{
		ID: "C19", Name: "nalu-framing", Gen: genFraming, Run: runFraming, Classify: classifyFraming,
		Quick: 8000, Thorough: 30000,
	})
}

// ---------------------------------------------------------------------------
// aac-adts

type AacCase struct {
	ObjectType int  `json:"object_type"` // 1..4: what the 2-bit ADTS profile can carry
	FreqIndex  int  `json:"freq_index"`  // 0..12: the defined sampling frequency indexes
	Channels   int  `json:"channels"`    // 0..7: what the 3-bit ADTS channel_configuration can carry
	FrameLen   int  `json:"frame_len"`   // raw AAC frame length handed to PackAdtsHeader
	FL960      bool `json:"fl960"`       // frameLengthFlag of the GASpecificConfig (not carried by ADTS)
	// don't-care bits of a reference-written ADTS header read by lal
	ID, ProtectionAbsent, Private, Original, Home, CpBit, CpStart bool
	Fullness                                                      uint16 `json:"fullness"`
	Blocks                                                        uint8  `json:"blocks"`
	// an arbitrary AudioSpecificConfig for the ASC <-> RTMP sequence header leg
	AnyASC []byte `json:"any_asc"`
	// HE-AAC / HE-AACv2 with explicit hierarchical signalling: the ASC starts with object type 5 (SBR) or
	// 29 (PS), carries the core sampling index, the extension index and then the underlying object type
	// (ObjectType above).  ADTS carries the underlying type and the core index.
	SBR      string `json:"sbr"` // "", "sbr", "ps"
	ExtIndex int    `json:"ext_index"`
}

func genAac(t *rapid.T) AacCase {
	c := AacCase{
		ObjectType: rapid.IntRange(1, 4).Draw(t, "aot"),
		FreqIndex:  rapid.IntRange(0, 12).Draw(t, "freq"),
		Channels:   rapid.IntRange(0, 7).Draw(t, "chan"),
		FrameLen:   rapid.OneOf(rapid.IntRange(0, 1024), rapid.IntRange(0, 8184)).Draw(t, "frameLen"),
		FL960:      rapid.IntRange(0, 4).Draw(t, "fl960") == 0,
		ID:         rapid.Bool().Draw(t, "id"), ProtectionAbsent: rapid.Bool().Draw(t, "pa"), Private: rapid.Bool().Draw(t, "priv"),
		Original: rapid.Bool().Draw(t, "orig"), Home: rapid.Bool().Draw(t, "home"), CpBit: rapid.Bool().Draw(t, "cpb"), CpStart: rapid.Bool().Draw(t, "cps"),
		Fullness: rapid.Uint16Range(0, 0x7ff).Draw(t, "fullness"), Blocks: rapid.Uint8Range(0, 3).Draw(t, "blocks"),
	}
	c.AnyASC = genASC(t)
	c.SBR = rapid.SampledFrom([]string{"", "", "", "sbr", "ps"}).Draw(t, "sbr")
	c.ExtIndex = rapid.IntRange(0, 12).Draw(t, "extIdx")
	return c
}

// genASC draws an AudioSpecificConfig over all object types (escape form
// included), frequency indexes (explicit frequency included) and channel
// configurations, optionally followed by extension bytes.
func genASC(t *rapid.T) []byte {
	aot := rapid.OneOf(rapid.SampledFrom([]int{1, 2, 2, 3, 4, 5, 29, 17, 23, 39, 42}), rapid.IntRange(1, 30), rapid.IntRange(32, 95)).Draw(t, "ascAot")
	idx := rapid.IntRange(0, 15).Draw(t, "ascIdx")
	hz := rapid.IntRange(1, 1<<24-1).Draw(t, "ascHz")
	ch := rapid.IntRange(0, 15).Draw(t, "ascCh")
	b := codecref.BuildASC(aot, idx, hz, ch, rapid.Bool().Draw(t, "ascFl"), rapid.IntRange(0, 12).Draw(t, "ascExt"))
	tail := rapid.SliceOfN(rapid.Byte(), 0, 6).Draw(t, "ascTail")
	b = append(b, tail...)
	if len(b) < 2 {
		b = append(b, 0)
	}
	return b
}

func runAac(c AacCase) *pbt.Violation {
	if c.SBR != "" {
		// ---- HE-AAC ASC -> ADTS ---------------------------------------------------------
		asc := codecref.BuildASCExplicitSBR(c.SBR == "ps", c.FreqIndex, c.Channels, c.ExtIndex, c.ObjectType, c.FL960)
		ctx, err := aac.NewAscContext(asc)
		if err != nil {
			return pbt.V("asc-unpack/error", "NewAscContext(%x) failed: %v", asc, err)
		}
		hdr := ctx.PackAdtsHeader(c.FrameLen)
		ad, err := codecref.ParseADTS(hdr)
		if err != nil {
			return pbt.V("asc2adts/not-an-adts-header", "ADTS header %x written for ASC %x: %v", hdr, asc, err)
		}
		if int(ad.Profile)+1 != c.ObjectType || int(ad.FreqIndex) != c.FreqIndex || int(ad.ChannelConfig) != c.Channels {
			return pbt.V("asc2adts/explicit-sbr", "ASC %x (explicit %s signalling: underlying object type %d, core sampling index %d, channels %d) -> ADTS header %x with profile_ObjectType %d (= object type %d), sampling_frequency_index %d, channel_configuration %d",
				asc, c.SBR, c.ObjectType, c.FreqIndex, c.Channels, hdr, ad.Profile, ad.Profile+1, ad.FreqIndex, ad.ChannelConfig)
		}
		return nil
	}
	asc := codecref.BuildASC(c.ObjectType, c.FreqIndex, 0, c.Channels, c.FL960, 0)
	if len(asc) != 2 {
		panic(pbt.HarnessError{Msg: "two-byte ASC expected"})
	}
	// ---- ASC -> ADTS ------------------------------------------------------------
	ctx, err := aac.NewAscContext(asc)
	if err != nil {
		return pbt.V("asc-unpack/error", "NewAscContext(%x) failed: %v", asc, err)
	}
	if int(ctx.AudioObjectType) != c.ObjectType || int(ctx.SamplingFrequencyIndex) != c.FreqIndex || int(ctx.ChannelConfiguration) != c.Channels {
		return pbt.V("asc-unpack/fields", "AscContext of %x = %+v, want type %d index %d channels %d", asc, *ctx, c.ObjectType, c.FreqIndex, c.Channels)
	}
	if hz, err := ctx.GetSamplingFrequency(); err != nil || hz != codecref.AACSampleRates[c.FreqIndex] {
		return pbt.V("asc-unpack/frequency", "GetSamplingFrequency() = %d, %v for index %d, want %d", hz, err, c.FreqIndex, codecref.AACSampleRates[c.FreqIndex])
	}
	hdr := ctx.PackAdtsHeader(c.FrameLen)
	hdr2 := make([]byte, 7)
	if err := ctx.PackToAdtsHeader(hdr2, c.FrameLen); err != nil || !eq(hdr, hdr2) {
		return pbt.V("asc2adts/pack-variants-differ", "PackAdtsHeader=%x PackToAdtsHeader=%x err=%v", hdr, hdr2, err)
	}
	ad, err := codecref.ParseADTS(hdr)
	if err != nil {
		return pbt.V("asc2adts/not-an-adts-header", "ADTS header %x written for ASC %x: %v", hdr, asc, err)
	}
	if int(ad.Profile)+1 != c.ObjectType {
		return pbt.V("asc2adts/object-type", "ADTS header %x carries profile_ObjectType %d, ASC %x has object type %d", hdr, ad.Profile, asc, c.ObjectType)
	}
	if int(ad.FreqIndex) != c.FreqIndex {
		return pbt.V("asc2adts/sampling-index", "ADTS header %x carries sampling_frequency_index %d, ASC %x has %d", hdr, ad.FreqIndex, asc, c.FreqIndex)
	}
	if int(ad.ChannelConfig) != c.Channels {
		return pbt.V("asc2adts/channels", "ADTS header %x carries channel_configuration %d, ASC %x has %d", hdr, ad.ChannelConfig, asc, c.Channels)
	}
	// ---- ADTS -> ASC (lal's own header, then a reference-written one) --------------
	ref := codecref.ADTS{ID: b2u(c.ID), ProtectionAbsent: c.ProtectionAbsent, Profile: uint8(c.ObjectType - 1), FreqIndex: uint8(c.FreqIndex), PrivateBit: c.Private,
		ChannelConfig: uint8(c.Channels), OriginalCopy: c.Original, Home: c.Home, CopyrightIDBit: c.CpBit, CopyrightIDStart: c.CpStart,
		FrameLength: uint16(c.FrameLen + 7), BufferFullness: c.Fullness, RawBlocksMinus1: c.Blocks}
	for i, h := range [][]byte{hdr, ref.Marshal()} {
		src := []string{"lal-written", "reference-written"}[i]
		back, err := aac.MakeAscWithAdtsHeader(h)
		if err != nil {
			return pbt.V("adts2asc/error", "MakeAscWithAdtsHeader(%x) (%s) failed: %v", h, src, err)
		}
		pa, err := codecref.ParseASC(back)
		if err != nil {
			return pbt.V("adts2asc/not-an-asc", "ASC %x made from %s ADTS header %x: %v", back, src, h, err)
		}
		if pa.ObjectType != c.ObjectType || pa.FreqIndex != c.FreqIndex || pa.ChannelConfig != c.Channels {
			return pbt.V("adts2asc/fields", "ASC %x made from %s ADTS header %x has type %d index %d channels %d, want %d/%d/%d", back, src, h, pa.ObjectType, pa.FreqIndex, pa.ChannelConfig, c.ObjectType, c.FreqIndex, c.Channels)
		}
		if !c.FL960 && !eq(back, asc) {
			return pbt.V("adts2asc/bytes", "ASC %x -> ADTS (%s) %x -> ASC %x", asc, src, h, back)
		}
		sh, err := aac.MakeAudioDataSeqHeaderWithAdtsHeader(h)
		if err != nil || len(sh) < 2 || sh[0] != 0xaf || sh[1] != 0 || !eq(sh[2:], back) {
			return pbt.V("adts2seqheader/bytes", "MakeAudioDataSeqHeaderWithAdtsHeader(%x) = %x, %v; want af00 + %x", h, sh, err, back)
		}
	}
	// ---- any ASC <-> RTMP AAC sequence header -----------------------------------------
	sh, err := aac.MakeAudioDataSeqHeaderWithAsc(c.AnyASC)
	if err != nil {
		return pbt.V("asc2seqheader/error", "MakeAudioDataSeqHeaderWithAsc(%x) failed: %v", c.AnyASC, err)
	}
	if len(sh) != len(c.AnyASC)+2 || sh[0]>>4 != 10 || sh[1] != 0 || !eq(sh[2:], c.AnyASC) {
		return pbt.V("asc2seqheader/bytes", "MakeAudioDataSeqHeaderWithAsc(%x) = %x: not <AAC sound format, packet type 0> + the ASC", c.AnyASC, sh)
	}
	// the sampling frequency lal derives from any ASC (it becomes the RTP / SDP clock rate)
	if ra, err := codecref.ParseASC(c.AnyASC); err == nil && ra.Frequency > 0 {
		ac, err := aac.NewAscContext(c.AnyASC)
		if err != nil {
			return pbt.V("asc-unpack/error", "NewAscContext(%x) failed: %v", c.AnyASC, err)
		}
		if hz, err := ac.GetSamplingFrequency(); err != nil || hz != ra.Frequency {
			return pbt.V("asc-unpack/frequency", "GetSamplingFrequency() = %d, %v for ASC %x; it encodes object type %d, samplingFrequencyIndex %d, %d Hz", hz, err, c.AnyASC, ra.ObjectType, ra.FreqIndex, ra.Frequency)
		}
	}
	return nil
}

func b2u(b bool) uint8 {
	if b {
		return 1
	}
	return 0
}

func classifyAac(c AacCase) (bool, []string) {
	labels := []string{fmt.Sprintf("aot=%d", c.ObjectType), fmt.Sprintf("channels=%d", c.Channels)}
	if c.FreqIndex >= 8 {
		labels = append(labels, "freq-index>=8")
	}
	if c.FrameLen > 4096 {
		labels = append(labels, "frame>4096")
	}
	if a, err := codecref.ParseASC(c.AnyASC); err == nil {
		if a.ObjectType >= 32 {
			labels = append(labels, "asc-escape-object-type")
		}
		if a.FreqIndex == 15 {
			labels = append(labels, "asc-explicit-frequency")
		}
		if a.SBR {
			labels = append(labels, "asc-explicit-sbr")
		}
	}
	if len(c.AnyASC) > 2 {
		labels = append(labels, "asc>2B")
	}
	if c.SBR != "" {
		labels = []string{"explicit-" + c.SBR + "-to-adts", fmt.Sprintf("aot=%d", c.ObjectType)}
	}
	// every (type, index, channels) triple is a distinct point of the stated domain
	return true, labels
}

func TestAacAdts(t *testing.T) {
	pbt.Run(t, pbt.Spec[AacCase]{
		ID: "C19", Name: "aac-adts", Gen: genAac, Run: runAac, Classify: classifyAac,
		Quick: 5000, Thorough: 20000,
	})
}

// ---------------------------------------------------------------------------
// hevc-record-robust
//
// HEVCDecoderConfigurationRecords a peer can send that are NOT complete: an array type missing, arrays
// with numNalus = 0, zero arrays, the record cut at every array / NAL-unit boundary or anywhere else.
// The readers must answer with an error or with sets that are in the record — never panic, never
// return a set the record does not contain (an absent VPS reported as "no error, empty VPS" would make
// the callers treat the stream as H.264).

type RecArray struct {
	Type  int  `json:"type"` // 0 VPS, 1 SPS, 2 PPS, 3 prefix SEI
	Units []PS `json:"units"`
}

type HevcRobustCase struct {
	Arrays   []RecArray `json:"arrays"`
	Enhanced bool       `json:"enhanced"`
	// Cut >= 0: keep only the first Cut bytes of the record's array part (clamped); CutAtBoundary picks the
	// Cut-th array / unit boundary instead
	Cut           int  `json:"cut"`
	CutAtBoundary bool `json:"cut_at_boundary"`
	// NumArraysField overrides numOfArrays when >= 0 (more arrays announced than present)
	NumArraysField int `json:"num_arrays_field"`
}

func genHevcRobust(t *rapid.T) HevcRobustCase {
	var c HevcRobustCase
	c.Enhanced = rapid.Bool().Draw(t, "enhanced")
	c.Cut, c.NumArraysField = -1, -1
	switch rapid.IntRange(0, 5).Draw(t, "shape") {
	case 0: // one of VPS / SPS / PPS missing
		missing := rapid.IntRange(0, 2).Draw(t, "missing")
		for ty := 0; ty < 3; ty++ {
			if ty != missing {
				c.Arrays = append(c.Arrays, RecArray{Type: ty, Units: []PS{psGen(300).Draw(t, "u")}})
			}
		}
		if rapid.Bool().Draw(t, "sei") {
			c.Arrays = append(c.Arrays, RecArray{Type: 3, Units: []PS{{Seed: 1, Len: 6}}})
		}
	case 1: // an array with numNalus = 0
		empty := rapid.IntRange(0, 2).Draw(t, "empty")
		for ty := 0; ty < 3; ty++ {
			a := RecArray{Type: ty}
			if ty != empty {
				a.Units = []PS{psGen(300).Draw(t, "u")}
			}
			c.Arrays = append(c.Arrays, a)
		}
	case 2: // zero arrays
	default:
		n := rapid.IntRange(0, 5).Draw(t, "nArrays")
		for i := 0; i < n; i++ {
			a := RecArray{Type: rapid.IntRange(0, 3).Draw(t, "type")}
			for j, m := 0, rapid.IntRange(0, 2).Draw(t, "nUnits"); j < m; j++ {
				a.Units = append(a.Units, psGen(300).Draw(t, "u"))
			}
			c.Arrays = append(c.Arrays, a)
		}
	}
	if rapid.IntRange(0, 2).Draw(t, "permute") == 0 && len(c.Arrays) > 1 {
		c.Arrays = rapid.Permutation(c.Arrays).Draw(t, "order")
	}
	switch rapid.IntRange(0, 3).Draw(t, "cutClass") {
	case 0:
		c.CutAtBoundary = true
		c.Cut = rapid.IntRange(0, 12).Draw(t, "cutBoundary")
	case 1:
		c.Cut = rapid.IntRange(0, 700).Draw(t, "cut")
	}
	if rapid.IntRange(0, 5).Draw(t, "moreArrays") == 0 {
		c.NumArraysField = rapid.IntRange(0, 255).Draw(t, "numArrays")
	}
	return c
}

func (c HevcRobustCase) build() (payload []byte, lists [3][][]byte) {
	hdrs := [][]byte{hevcVPSHdr, hevcSPSHdr, hevcPPSHdr, codecref.H265NALHeader(39, 0, 1)}
	rec := codecref.HEVCConfig{ProfileIdc: 1, CompatFlags: 0x60000000, ConstraintFlags: 0x900000000000, LevelIdc: 93, ChromaFormat: 1,
		NumTemporalLayers: 1, TemporalIdNested: true, LengthSizeMinusOne: 3}
	fixed := len(rec.Marshal()) // 23 bytes: everything up to and including numOfArrays
	var boundaries []int        // offsets (in the array part) where an array header, a length field or a unit ends
	off := 0
	for _, a := range c.Arrays {
		ra := codecref.HEVCArray{Completeness: true, NALType: uint8(32 + a.Type)}
		if a.Type == 3 {
			ra.NALType = 39
		}
		boundaries = append(boundaries, off)
		off += 3
		boundaries = append(boundaries, off)
		for _, u := range a.Units {
			b := u.bytes(hdrs[a.Type])
			ra.NALUs = append(ra.NALUs, b)
			if a.Type < 3 {
				lists[a.Type] = append(lists[a.Type], b)
			}
			off += 2
			boundaries = append(boundaries, off)
			off += len(b)
			boundaries = append(boundaries, off)
		}
		rec.Arrays = append(rec.Arrays, ra)
	}
	body := rec.Marshal()
	if c.NumArraysField >= 0 {
		body[22] = byte(c.NumArraysField)
	}
	if c.Cut >= 0 {
		cut := c.Cut
		if c.CutAtBoundary {
			if len(boundaries) == 0 {
				cut = 0
			} else {
				cut = boundaries[c.Cut%len(boundaries)]
			}
		}
		if fixed+cut < len(body) {
			body = body[:fixed+cut]
		}
	}
	if c.Enhanced {
		return codecref.RtmpHevcEnhancedSeqHeader(body), lists
	}
	return codecref.RtmpHevcSeqHeader(body), lists
}

func runHevcRobust(c HevcRobustCase) *pbt.Violation {
	payload, lists := c.build()
	member := func(b []byte, l [][]byte) bool {
		for _, e := range l {
			if eq(b, e) {
				return true
			}
		}
		return false
	}
	type parser struct {
		name string
		f    func([]byte) ([]byte, []byte, []byte, error)
	}
	parsers := []parser{{"ParseVpsSpsPpsFromSeqHeader", hevc.ParseVpsSpsPpsFromSeqHeader}, {"ParseVpsSpsPpsFromSeqHeaderWithoutMalloc", hevc.ParseVpsSpsPpsFromSeqHeaderWithoutMalloc}}
	annexb := []func([]byte) ([]byte, error){hevc.VpsSpsPpsSeqHeader2Annexb}
	if c.Enhanced {
		parsers = []parser{{"ParseVpsSpsPpsFromEnhancedSeqHeader", hevc.ParseVpsSpsPpsFromEnhancedSeqHeader}}
		annexb = []func([]byte) ([]byte, error){hevc.VpsSpsPpsEnhancedSeqHeader2Annexb}
	}
	annexb = append(annexb, func(b []byte) ([]byte, error) { return h2645.SeqHeader2Annexb(false, b) })
	shape := fmt.Sprintf("%d bytes, arrays %v cut=%d boundary=%v numOfArrays=%d", len(payload), c.shape(), c.Cut, c.CutAtBoundary, c.NumArraysField)
	for _, p := range parsers {
		var v, s, pp []byte
		var err error
		if pv := pbt.Guard(func() *pbt.Violation { v, s, pp, err = p.f(payload); return nil }); pv != nil {
			return pbt.V("hevc-parse/panic", "%s panicked on a record (%s): %s", p.name, shape, pv.Detail)
		}
		if err != nil {
			continue
		}
		if !member(v, lists[0]) || !member(s, lists[1]) || !member(pp, lists[2]) {
			return pbt.V("hevc-parse/set-not-in-record", "%s accepted the record (%s) and returned vps %s sps %s pps %s; the record holds vps %s sps %s pps %s",
				p.name, shape, head(v), head(s), head(pp), heads(lists[0]), heads(lists[1]), heads(lists[2]))
		}
	}
	for i, f := range annexb {
		var out []byte
		var err error
		if pv := pbt.Guard(func() *pbt.Violation { out, err = f(payload); return nil }); pv != nil {
			return pbt.V("hevc-parse/panic", "sequence header to Annex-B conversion %d panicked on a record (%s): %s", i, shape, pv.Detail)
		}
		if err != nil {
			continue
		}
		units, err := codecref.SplitAnnexB(out)
		if err != nil {
			return pbt.V("hevc-seqheader2annexb/ref-unreadable", "conversion %d accepted the record (%s) and produced %s: %v", i, shape, head(out), err)
		}
		for _, u := range units {
			if t := int(u[0]>>1&0x3f) - 32; t >= 0 && t <= 2 && !member(u, lists[t]) {
				return pbt.V("hevc-parse/set-not-in-record", "conversion %d accepted the record (%s) and emitted %s, which the record does not hold", i, shape, head(u))
			}
		}
	}
	return nil
}

func (c HevcRobustCase) shape() string {
	s := ""
	for i, a := range c.Arrays {
		if i > 0 {
			s += " "
		}
		s += fmt.Sprintf("%sx%d", []string{"vps", "sps", "pps", "sei"}[a.Type], len(a.Units))
	}
	return "[" + s + "]"
}

func classifyHevcRobust(c HevcRobustCase) (bool, []string) {
	var labels []string
	have := [4]int{}
	emptyArr := false
	for _, a := range c.Arrays {
		have[a.Type] += len(a.Units)
		if len(a.Units) == 0 {
			emptyArr = true
		}
	}
	for i, n := range []string{"vps", "sps", "pps"} {
		if have[i] == 0 {
			labels = append(labels, "no-"+n)
		}
	}
	if have[0] > 0 && have[1] > 0 && have[2] > 0 {
		labels = append(labels, "all-types-present")
	}
	if emptyArr {
		labels = append(labels, "array-with-zero-units")
	}
	if len(c.Arrays) == 0 {
		labels = append(labels, "zero-arrays")
	}
	if c.Cut >= 0 {
		if c.CutAtBoundary {
			labels = append(labels, "cut-at-boundary")
		} else {
			labels = append(labels, "cut-anywhere")
		}
	}
	if c.NumArraysField >= 0 {
		labels = append(labels, "numOfArrays-overridden")
	}
	if c.Enhanced {
		labels = append(labels, "enhanced-header")
	}
	return true, labels
}

func TestHevcRecordRobust(t *testing.T) {
	pbt.Run(t, pbt.Spec[HevcRobustCase]{
		ID: "C19", Name: "hevc-record-robust", Gen: genHevcRobust, Run: runHevcRobust, Classify: classifyHevcRobust,
		Quick: 6000, Thorough: 40000,
	})
}
