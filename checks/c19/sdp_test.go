package c19

import (
	"fmt"
	"strings"
	"testing"

	"github.com/q191201771/lal/pkg/base"
	"github.com/q191201771/lal/pkg/remux"
	"github.com/q191201771/lal/pkg/rtprtcp"
	"github.com/q191201771/lal/pkg/sdp"
	"pgregory.net/rapid"

	"verif/drv/pbt"
	"verif/ref/codecref"
	"verif/ref/sdpref"
)

// SdpCase: the stream description handed to sdp.Pack, either directly (the
// way every lal caller fills VideoInfo / AudioInfo) or by feeding RTMP
// sequence headers to the Rtmp2RtspRemuxer, which is how lal generates the SDP
// for a stream.
type SdpCase struct {
	Video string `json:"video"` // "", "avc", "hevc"
	VPS   PS     `json:"vps"`
	SPS   PS     `json:"sps"`
	PPS   PS     `json:"pps"`
	// ViaRemuxer needs an SPS lal can open (BuildSeqHeader is not involved, but
	// the remuxer's analysis reads nothing from it either); kept as bytes too.
	Audio string `json:"audio"` // "", "aac", "pcma", "pcmu", "opus"
	// AAC
	ObjectType int    `json:"object_type"`
	FreqIndex  int    `json:"freq_index"` // 0..12 (15 = explicit, direct mode only)
	ExplicitHz int    `json:"explicit_hz"`
	Channels   int    `json:"channels"`
	FL960      bool   `json:"fl960"`
	ExtIndex   int    `json:"ext_index"`
	AscTail    []byte `json:"asc_tail,omitempty"`
	// G.711: sampling rate announced by the publisher (metadata) or the default
	Rate int `json:"rate"`

	ViaRemuxer bool `json:"via_remuxer"`
	AudioFirst bool `json:"audio_first"`
	Enhanced   bool `json:"enhanced"` // HEVC sequence header in Enhanced-RTMP form
}

func (c SdpCase) asc() []byte {
	return append(codecref.BuildASC(c.ObjectType, c.FreqIndex, c.ExplicitHz, c.Channels, c.FL960, c.ExtIndex), c.AscTail...)
}

func (c SdpCase) aacRate() int {
	if c.FreqIndex == 15 {
		return c.ExplicitHz
	}
	return codecref.AACSampleRates[c.FreqIndex]
}

func genSdp(t *rapid.T) SdpCase {
	var c SdpCase
	c.ViaRemuxer = rapid.IntRange(0, 3).Draw(t, "viaRemuxer") == 0
	if c.ViaRemuxer {
		// the remuxer emits the SDP as soon as it has a video and an AAC header
		c.Video = rapid.SampledFrom([]string{"avc", "hevc"}).Draw(t, "video")
		c.Audio = "aac"
	} else {
		c.Video = rapid.SampledFrom([]string{"", "avc", "avc", "hevc", "hevc"}).Draw(t, "video")
		auds := []string{"", "aac", "aac", "pcma", "pcmu", "opus"}
		if c.Video == "" {
			auds = auds[1:]
		}
		c.Audio = rapid.SampledFrom(auds).Draw(t, "audio")
	}
	max := maxSetLen()
	c.VPS, c.SPS, c.PPS = psGen(max).Draw(t, "vps"), psGen(max).Draw(t, "sps"), psGen(max).Draw(t, "pps")
	c.ObjectType = rapid.OneOf(rapid.SampledFrom([]int{1, 2, 2, 3, 4, 5, 29, 17, 23}), rapid.IntRange(1, 30), rapid.IntRange(32, 95)).Draw(t, "aot")
	c.FreqIndex = rapid.IntRange(0, 12).Draw(t, "freq")
	c.Channels = rapid.IntRange(0, 15).Draw(t, "chan")
	c.FL960 = rapid.Bool().Draw(t, "fl960")
	c.ExtIndex = rapid.IntRange(0, 12).Draw(t, "ext")
	c.AscTail = rapid.SliceOfN(rapid.Byte(), 0, 5).Draw(t, "tail")
	if len(c.AscTail) == 0 {
		c.AscTail = nil
	}
	if c.ViaRemuxer {
		// lal reads the sampling rate of the stream from the leading 5+4 bits
		if c.ObjectType >= 31 {
			c.ObjectType = 2
		}
	} else if rapid.IntRange(0, 7).Draw(t, "explicit") == 0 {
		c.FreqIndex = 15
		c.ExplicitHz = rapid.OneOf(rapid.SampledFrom([]int{8000, 44100, 48000, 96000, 192000}), rapid.IntRange(1, 1<<24-1)).Draw(t, "hz")
	}
	c.Rate = rapid.OneOf(rapid.SampledFrom([]int{8000, 8000, 16000, 44100, 48000}), rapid.IntRange(1, 400000)).Draw(t, "rate")
	c.AudioFirst = rapid.Bool().Draw(t, "audioFirst")
	c.Enhanced = rapid.Bool().Draw(t, "enhanced")
	return c
}

type wantTrack struct {
	media    string
	encoding string
	basePt   base.AvPacketPt
	clock    int // 0 = not fixed by the inputs (compared between the two readers only)
	vps      []byte
	sps      []byte
	pps      []byte
	asc      []byte
}

func runSdp(c SdpCase) *pbt.Violation {
	var vps, sps, pps, asc []byte
	var want []wantTrack
	switch c.Video {
	case "avc":
		sps, pps = c.SPS.bytes(avcSPSHdr), c.PPS.bytes(avcPPSHdr)
		want = append(want, wantTrack{media: "video", encoding: "H264", basePt: base.AvPacketPtAvc, clock: 90000, sps: sps, pps: pps})
	case "hevc":
		vps, sps, pps = c.VPS.bytes(hevcVPSHdr), c.SPS.bytes(hevcSPSHdr), c.PPS.bytes(hevcPPSHdr)
		want = append(want, wantTrack{media: "video", encoding: "H265", basePt: base.AvPacketPtHevc, clock: 90000, vps: vps, sps: sps, pps: pps})
	}
	ai := sdp.AudioInfo{AudioPt: base.AvPacketPtUnknown}
	switch c.Audio {
	case "aac":
		asc = c.asc()
		ai = sdp.AudioInfo{AudioPt: base.AvPacketPtAac, SamplingFrequency: c.aacRate(), Asc: asc}
		clock := c.aacRate()
		if c.ViaRemuxer && (c.ObjectType == 5 || c.ObjectType == 29) {
			clock = 0 // explicit SBR signalling: core or extension rate — not fixed by the property
		}
		want = append(want, wantTrack{media: "audio", encoding: "MPEG4-GENERIC", basePt: base.AvPacketPtAac, clock: clock, asc: asc})
	case "pcma":
		ai = sdp.AudioInfo{AudioPt: base.AvPacketPtG711A, SamplingFrequency: c.Rate}
		want = append(want, wantTrack{media: "audio", encoding: "PCMA", basePt: base.AvPacketPtG711A, clock: c.Rate})
	case "pcmu":
		ai = sdp.AudioInfo{AudioPt: base.AvPacketPtG711U, SamplingFrequency: c.Rate}
		want = append(want, wantTrack{media: "audio", encoding: "PCMU", basePt: base.AvPacketPtG711U, clock: c.Rate})
	case "opus":
		ai = sdp.AudioInfo{AudioPt: base.AvPacketPtOpus, SamplingFrequency: 48000}
		want = append(want, wantTrack{media: "audio", encoding: "OPUS", basePt: base.AvPacketPtOpus, clock: 48000})
	}

	var raw []byte
	if c.ViaRemuxer {
		var got *sdp.LogicContext
		n := 0
		r := remux.NewRtmp2RtspRemuxer(func(ctx sdp.LogicContext) { n++; cp := ctx; got = &cp }, func(pkt rtprtcp.RtpPacket) {})
		var vsh []byte
		if c.Video == "avc" {
			rec := codecref.AVCConfig{LengthSizeMinusOne: 3, SPS: [][]byte{sps}, PPS: [][]byte{pps}}
			if len(sps) >= 4 {
				rec.ProfileIndication, rec.ProfileCompatibility, rec.LevelIndication = sps[1], sps[2], sps[3]
			}
			vsh = codecref.RtmpAvcSeqHeader(rec.Marshal())
		} else {
			rec := codecref.HEVCConfig{ProfileIdc: 1, CompatFlags: 0x60000000, ConstraintFlags: 0x900000000000, LevelIdc: 93, ChromaFormat: 1, NumTemporalLayers: 1, TemporalIdNested: true, LengthSizeMinusOne: 3,
				Arrays: []codecref.HEVCArray{{Completeness: true, NALType: 32, NALUs: [][]byte{vps}}, {Completeness: true, NALType: 33, NALUs: [][]byte{sps}}, {Completeness: true, NALType: 34, NALUs: [][]byte{pps}}}}
			if c.Enhanced {
				vsh = codecref.RtmpHevcEnhancedSeqHeader(rec.Marshal())
			} else {
				vsh = codecref.RtmpHevcSeqHeader(rec.Marshal())
			}
		}
		vmsg := base.RtmpMsg{Header: base.RtmpHeader{Csid: 6, MsgTypeId: base.RtmpTypeIdVideo, MsgStreamId: 1, MsgLen: uint32(len(vsh))}, Payload: vsh}
		ash := append([]byte{0xaf, 0x00}, asc...)
		amsg := base.RtmpMsg{Header: base.RtmpHeader{Csid: 4, MsgTypeId: base.RtmpTypeIdAudio, MsgStreamId: 1, MsgLen: uint32(len(ash))}, Payload: ash}
		if c.AudioFirst {
			r.FeedRtmpMsg(amsg)
			r.FeedRtmpMsg(vmsg)
		} else {
			r.FeedRtmpMsg(vmsg)
			r.FeedRtmpMsg(amsg)
		}
		if got == nil || n != 1 {
			return pbt.V("remux-sdp/not-produced", "Rtmp2RtspRemuxer called onSdp %d times after a %s and an AAC sequence header (sps %d pps %d asc %x)", n, c.Video, len(sps), len(pps), asc)
		}
		raw = got.RawSdp
	} else {
		vi := sdp.VideoInfo{VideoPt: base.AvPacketPtUnknown}
		switch c.Video {
		case "avc":
			vi = sdp.VideoInfo{VideoPt: base.AvPacketPtAvc, Sps: sps, Pps: pps}
		case "hevc":
			vi = sdp.VideoInfo{VideoPt: base.AvPacketPtHevc, Vps: vps, Sps: sps, Pps: pps}
		}
		ctx, err := sdp.Pack(vi, ai)
		if err != nil {
			return pbt.V("sdp-pack/error", "sdp.Pack(video=%q audio=%q) failed: %v", c.Video, c.Audio, err)
		}
		raw = ctx.RawSdp
	}

	// ---- the two readers ------------------------------------------------------------
	lc, err := sdp.ParseSdp2LogicContext(raw)
	if err != nil {
		return pbt.V("sdp-lal/error", "ParseSdp2LogicContext failed on lal's own SDP: %v\n%s", err, clipSdp(raw))
	}
	sess, err := sdpref.Parse(raw)
	if err != nil {
		return pbt.V("sdp-ref/unreadable", "the RFC 4566 reader rejects lal's SDP: %v\n%s", err, clipSdp(raw))
	}
	tracks, err := sess.Tracks()
	if err != nil {
		return pbt.V("sdp-ref/unreadable", "the RFC 4566/6184/7798/3640 reader cannot resolve lal's SDP: %v\n%s", err, clipSdp(raw))
	}
	if len(tracks) != len(want) {
		return pbt.V("sdp/media-count", "SDP has %d media descriptions, the stream has %d tracks\n%s", len(tracks), len(want), clipSdp(raw))
	}
	for _, w := range want {
		var tr *sdpref.Track
		for i := range tracks {
			if tracks[i].MediaType == w.media {
				tr = &tracks[i]
			}
		}
		if tr == nil {
			return pbt.V("sdp/"+w.media+"-missing", "no m=%s section\n%s", w.media, clipSdp(raw))
		}
		// codec
		if tr.Encoding != w.encoding {
			return pbt.V("sdp/"+w.media+"-codec", "reference reader sees encoding %q, the stream is %s\n%s", tr.Encoding, w.encoding, clipSdp(raw))
		}
		var lalBase base.AvPacketPt
		var lalClock int
		var isPt func(int) bool
		var setupUri func(string) string
		var isUri func(string) bool
		if w.media == "video" {
			lalBase, lalClock, isPt, setupUri, isUri = lc.GetVideoPayloadTypeBase(), lc.VideoClockRate, lc.IsVideoPayloadTypeOrigin, lc.MakeVideoSetupUri, lc.IsVideoUri
		} else {
			lalBase, lalClock, isPt, setupUri, isUri = lc.GetAudioPayloadTypeBase(), lc.AudioClockRate, lc.IsAudioPayloadTypeOrigin, lc.MakeAudioSetupUri, lc.IsAudioUri
		}
		if lalBase != w.basePt {
			return pbt.V("sdp/"+w.media+"-codec", "lal reads codec %d from its SDP, the stream is %s (%d)\n%s", lalBase, w.encoding, w.basePt, clipSdp(raw))
		}
		// payload type
		for pt := 0; pt < 128; pt++ {
			if isPt(pt) != (pt == tr.PayloadType) {
				return pbt.V("sdp/"+w.media+"-payload-type", "reference reader resolves payload type %d, lal answers Is%sPayloadTypeOrigin(%d)=%v\n%s", tr.PayloadType, w.media, pt, isPt(pt), clipSdp(raw))
			}
		}
		// clock rate
		if lalClock != tr.ClockRate {
			return pbt.V("sdp/"+w.media+"-clock-rate", "reference reader: %d, lal: %d\n%s", tr.ClockRate, lalClock, clipSdp(raw))
		}
		if w.clock != 0 && tr.ClockRate != w.clock {
			return pbt.V("sdp/"+w.media+"-clock-rate", "SDP announces clock rate %d, the stream's is %d\n%s", tr.ClockRate, w.clock, clipSdp(raw))
		}
		// control URL
		if !tr.HasControl || tr.Control == "" {
			return pbt.V("sdp/"+w.media+"-control", "no a=control in the %s section\n%s", w.media, clipSdp(raw))
		}
		const baseURL = "rtsp://example.test:5544/live/c19"
		wantURL := baseURL + "/" + tr.Control
		if strings.HasPrefix(tr.Control, "rtsp://") {
			wantURL = tr.Control
		}
		if got := setupUri(baseURL); got != wantURL || !isUri(wantURL) {
			return pbt.V("sdp/"+w.media+"-control", "reference reader: control %q -> %q; lal: setup uri %q, Is%sUri=%v\n%s", tr.Control, wantURL, got, w.media, isUri(wantURL), clipSdp(raw))
		}
		// parameter sets / configuration
		switch w.encoding {
		case "H264":
			if !eqList(tr.SPS, [][]byte{w.sps}) || !eqList(tr.PPS, [][]byte{w.pps}) {
				return pbt.V("sdp/avc-parameter-sets-ref", "sprop-parameter-sets decode (by NAL type) to sps %s pps %s; the stream has sps %s pps %s", heads(tr.SPS), heads(tr.PPS), head(w.sps), head(w.pps))
			}
			if !eq(lc.Sps, w.sps) || !eq(lc.Pps, w.pps) {
				return pbt.V("sdp/avc-parameter-sets-lal", "lal reads sps %s pps %s from its SDP; the stream has sps %s pps %s", head(lc.Sps), head(lc.Pps), head(w.sps), head(w.pps))
			}
		case "H265":
			if !eqList(tr.VPS, [][]byte{w.vps}) || !eqList(tr.SPS, [][]byte{w.sps}) || !eqList(tr.PPS, [][]byte{w.pps}) {
				return pbt.V("sdp/hevc-parameter-sets-ref", "sprop-vps/sps/pps decode to %s / %s / %s; the stream has %s / %s / %s", heads(tr.VPS), heads(tr.SPS), heads(tr.PPS), head(w.vps), head(w.sps), head(w.pps))
			}
			if !eq(lc.Vps, w.vps) || !eq(lc.Sps, w.sps) || !eq(lc.Pps, w.pps) {
				return pbt.V("sdp/hevc-parameter-sets-lal", "lal reads %s / %s / %s from its SDP; the stream has %s / %s / %s", head(lc.Vps), head(lc.Sps), head(lc.Pps), head(w.vps), head(w.sps), head(w.pps))
			}
		case "MPEG4-GENERIC":
			if !eq(tr.Config, w.asc) {
				return pbt.V("sdp/aac-config-ref", "config= decodes to %x, the stream's AudioSpecificConfig is %x", tr.Config, w.asc)
			}
			if !eq(lc.Asc, w.asc) {
				return pbt.V("sdp/aac-config-lal", "lal reads config %x from its SDP, the stream's AudioSpecificConfig is %x", lc.Asc, w.asc)
			}
		}
	}
	return nil
}

func clipSdp(b []byte) string {
	var out []string
	for _, l := range strings.Split(string(b), "\r\n") {
		if len(l) > 160 {
			l = l[:160] + fmt.Sprintf("...(%d chars)", len(l))
		}
		out = append(out, l)
	}
	return strings.Join(out, "\n")
}

func classifySdp(c SdpCase) (bool, []string) {
	nt := false
	labels := []string{"video=" + c.Video, "audio=" + c.Audio}
	if c.Video != "" {
		sets := []struct {
			n   string
			ps  PS
			hdr []byte
		}{{"sps", c.SPS, avcSPSHdr}, {"pps", c.PPS, avcPPSHdr}}
		if c.Video == "hevc" {
			sets = []struct {
				n   string
				ps  PS
				hdr []byte
			}{{"vps", c.VPS, hevcVPSHdr}, {"sps", c.SPS, hevcSPSHdr}, {"pps", c.PPS, hevcPPSHdr}}
		}
		for _, s := range sets {
			b := s.ps.bytes(s.hdr)
			a, l := psLabels(s.n, b)
			nt, labels = nt || a, append(labels, l...)
			if len(b)%3 != 0 {
				labels = append(labels, "base64-padding")
			}
		}
	}
	if c.Audio == "aac" {
		if c.ObjectType >= 32 {
			labels = append(labels, "asc-escape-object-type")
		}
		if c.FreqIndex == 15 {
			labels = append(labels, "asc-explicit-frequency")
		}
		if len(c.asc()) > 2 {
			labels = append(labels, "asc>2B")
			nt = true
		}
	}
	if c.ViaRemuxer {
		labels = append(labels, "via-remuxer")
		if c.Video == "hevc" && c.Enhanced {
			labels = append(labels, "via-remuxer-enhanced-hevc")
		}
	}
	if c.Video != "" && c.Audio != "" {
		labels = append(labels, "two-tracks")
	}
	return nt, uniq(labels)
}

func TestSdp(t *testing.T) {
	pbt.Run(t, pbt.Spec[SdpCase]{
		ID: "C19", Name: "sdp", Gen: genSdp, Run: runSdp, Classify: classifySdp,
		Quick: 5000, Thorough: 20000,
	})
}
