package c19

import (
	"fmt"
	"strings"
	"testing"

	"github.com/q191201771/lal/pkg/base"
	"github.com/q191201771/lal/pkg/remux"
	"github.com/q191201771/lal/pkg/rtprtcp"
	"github.com/q191201771/lal/pkg/sdp"
	"pgregory.net/rapid"

	"verif/drv/pbt"
	"verif/ref/codecref"
	"verif/ref/rtmpref"
	"verif/ref/sdpref"
)

// SdpCase: the stream description handed to sdp.Pack, either directly (the
// way every lal caller fills VideoInfo / AudioInfo) or by publishing RTMP
// messages (metadata, sequence headers, frames) into the Rtmp2RtspRemuxer,
// which is how lal generates the SDP for a stream.
type SdpCase struct {
	Video string `json:"video"` // "", "avc", "hevc"
	VPS   PS     `json:"vps"`
	SPS   PS     `json:"sps"`
	PPS   PS     `json:"pps"`
	Audio string `json:"audio"` // "", "aac", "pcma", "pcmu", "opus"
	// AAC: every AudioSpecificConfig head — object types 1..95 (escape form from
	// 32), frequency index 0..12 or 15 with an explicit 24-bit frequency
	ObjectType int    `json:"object_type"`
	FreqIndex  int    `json:"freq_index"`
	ExplicitHz int    `json:"explicit_hz"`
	Channels   int    `json:"channels"`
	FL960      bool   `json:"fl960"`
	ExtIndex   int    `json:"ext_index"`
	AscTail    []byte `json:"asc_tail,omitempty"`
	// G.711 direct leg: the sampling rate the caller passes
	Rate int `json:"rate"`

	ViaRemuxer bool `json:"via_remuxer"`
	AudioFirst bool `json:"audio_first"`
	Enhanced   bool `json:"enhanced"` // HEVC messages in Enhanced-RTMP form
	// remuxer leg: onMetaData in front, announcing audiocodecid and / or audiosamplerate (= Rate)
	MetaCodec bool `json:"meta_codec"`
	MetaRate  bool `json:"meta_rate"`
	// remuxer leg: new sequence headers (different parameter sets / ASC) after the SDP was produced
	Change string `json:"change"` // "", "video", "audio", "both"
}

func (c SdpCase) asc(gen int) []byte {
	ch := c.Channels
	if gen > 0 {
		ch ^= 1
	}
	return append(codecref.BuildASC(c.ObjectType, c.FreqIndex, c.ExplicitHz, ch, c.FL960, c.ExtIndex), c.AscTail...)
}

func (c SdpCase) aacRate() int {
	if c.FreqIndex == 15 {
		return c.ExplicitHz
	}
	return codecref.AACSampleRates[c.FreqIndex]
}

// sets returns the parameter sets of generation gen (0 = first sequence header, 1 = after the change).
func (c SdpCase) sets(gen int) (vps, sps, pps []byte) {
	v, s, p := c.VPS, c.SPS, c.PPS
	if gen > 0 {
		v.Seed, s.Seed, p.Seed = v.Seed+1, s.Seed+1, p.Seed+1
		p.Len = p.Len%65535 + 1
	}
	switch c.Video {
	case "avc":
		return nil, s.bytes(avcSPSHdr), p.bytes(avcPPSHdr)
	case "hevc":
		return v.bytes(hevcVPSHdr), s.bytes(hevcSPSHdr), p.bytes(hevcPPSHdr)
	}
	return nil, nil, nil
}

func genSdp(t *rapid.T) SdpCase {
	var c SdpCase
	c.ViaRemuxer = rapid.IntRange(0, 2).Draw(t, "viaRemuxer") == 0
	c.Video = rapid.SampledFrom([]string{"", "avc", "avc", "hevc", "hevc"}).Draw(t, "video")
	auds := []string{"", "aac", "aac", "pcma", "pcmu", "opus"}
	if c.Video == "" {
		auds = auds[1:]
	}
	c.Audio = rapid.SampledFrom(auds).Draw(t, "audio")
	max := maxSetLen()
	c.VPS, c.SPS, c.PPS = psGen(max).Draw(t, "vps"), psGen(max).Draw(t, "sps"), psGen(max).Draw(t, "pps")
	c.ObjectType = rapid.OneOf(rapid.SampledFrom([]int{1, 2, 2, 3, 4, 5, 29, 17, 23, 42}), rapid.IntRange(1, 30), rapid.IntRange(32, 95)).Draw(t, "aot")
	c.FreqIndex = rapid.IntRange(0, 12).Draw(t, "freq")
	c.Channels = rapid.IntRange(0, 15).Draw(t, "chan")
	c.FL960 = rapid.Bool().Draw(t, "fl960")
	c.ExtIndex = rapid.IntRange(0, 12).Draw(t, "ext")
	c.AscTail = rapid.SliceOfN(rapid.Byte(), 0, 5).Draw(t, "tail")
	if len(c.AscTail) == 0 {
		c.AscTail = nil
	}
	if rapid.IntRange(0, 5).Draw(t, "explicit") == 0 {
		c.FreqIndex = 15
		c.ExplicitHz = rapid.OneOf(rapid.SampledFrom([]int{8000, 44100, 48000, 96000, 192000}), rapid.IntRange(1, 1<<24-1)).Draw(t, "hz")
	}
	c.Rate = rapid.OneOf(rapid.SampledFrom([]int{8000, 8000, 16000, 44100, 48000}), rapid.IntRange(1, 400000)).Draw(t, "rate")
	c.AudioFirst = rapid.Bool().Draw(t, "audioFirst")
	c.Enhanced = rapid.Bool().Draw(t, "enhanced")
	if c.ViaRemuxer {
		if c.Audio == "pcma" || c.Audio == "pcmu" || c.Audio == "opus" {
			c.MetaCodec = rapid.Bool().Draw(t, "metaCodec")
			c.MetaRate = rapid.Bool().Draw(t, "metaRate")
		}
		ch := []string{"", "", ""}
		if c.Video != "" {
			ch = append(ch, "video")
		}
		if c.Audio == "aac" {
			ch = append(ch, "audio")
		}
		if c.Video != "" && c.Audio == "aac" {
			ch = append(ch, "both")
		}
		c.Change = rapid.SampledFrom(ch).Draw(t, "change")
	}
	return c
}

type wantTrack struct {
	media    string
	encoding string
	basePt   base.AvPacketPt
	clock    int // 0 = not fixed by the inputs (compared between the two readers only)
	vps      []byte
	sps      []byte
	pps      []byte
	asc      []byte
}

// wantTracks: what the stream is, with the video / audio configuration of the given generations.
func (c SdpCase) wantTracks(vgen, agen int) []wantTrack {
	var want []wantTrack
	vps, sps, pps := c.sets(vgen)
	switch c.Video {
	case "avc":
		want = append(want, wantTrack{media: "video", encoding: "H264", basePt: base.AvPacketPtAvc, clock: 90000, sps: sps, pps: pps})
	case "hevc":
		want = append(want, wantTrack{media: "video", encoding: "H265", basePt: base.AvPacketPtHevc, clock: 90000, vps: vps, sps: sps, pps: pps})
	}
	switch c.Audio {
	case "aac":
		clock := c.aacRate()
		if c.ViaRemuxer && (c.ObjectType == 5 || c.ObjectType == 29) {
			clock = 0 // explicit SBR signalling: core or extension rate — not fixed by the property
		}
		want = append(want, wantTrack{media: "audio", encoding: "MPEG4-GENERIC", basePt: base.AvPacketPtAac, clock: clock, asc: c.asc(agen)})
	case "pcma", "pcmu":
		w := wantTrack{media: "audio", encoding: "PCMA", basePt: base.AvPacketPtG711A, clock: c.Rate}
		if c.Audio == "pcmu" {
			w.encoding, w.basePt = "PCMU", base.AvPacketPtG711U
		}
		if c.ViaRemuxer {
			w.clock = 8000 // RFC 3551; lal's default when the publisher announces nothing
			if c.MetaRate {
				w.clock = 0 // lal takes the publisher's announcement; only reader agreement is asserted
			}
		}
		want = append(want, w)
	case "opus":
		want = append(want, wantTrack{media: "audio", encoding: "OPUS", basePt: base.AvPacketPtOpus, clock: 48000})
	}
	return want
}

func runSdp(c SdpCase) *pbt.Violation {
	if !c.ViaRemuxer {
		vps, sps, pps := c.sets(0)
		vi := sdp.VideoInfo{VideoPt: base.AvPacketPtUnknown}
		switch c.Video {
		case "avc":
			vi = sdp.VideoInfo{VideoPt: base.AvPacketPtAvc, Sps: sps, Pps: pps}
		case "hevc":
			vi = sdp.VideoInfo{VideoPt: base.AvPacketPtHevc, Vps: vps, Sps: sps, Pps: pps}
		}
		ai := sdp.AudioInfo{AudioPt: base.AvPacketPtUnknown}
		switch c.Audio {
		case "aac":
			ai = sdp.AudioInfo{AudioPt: base.AvPacketPtAac, SamplingFrequency: c.aacRate(), Asc: c.asc(0)}
		case "pcma":
			ai = sdp.AudioInfo{AudioPt: base.AvPacketPtG711A, SamplingFrequency: c.Rate}
		case "pcmu":
			ai = sdp.AudioInfo{AudioPt: base.AvPacketPtG711U, SamplingFrequency: c.Rate}
		case "opus":
			ai = sdp.AudioInfo{AudioPt: base.AvPacketPtOpus, SamplingFrequency: 48000}
		}
		ctx, err := sdp.Pack(vi, ai)
		if err != nil {
			return pbt.V("sdp-pack/error", "sdp.Pack(video=%q audio=%q) failed: %v", c.Video, c.Audio, err)
		}
		return checkSdp(ctx.RawSdp, c.wantTracks(0, 0))
	}

	// ---- the stream is published as RTMP messages --------------------------------------
	type emitted struct {
		raw        []byte
		vgen, agen int
	}
	var sdps []emitted
	vgen, agen := 0, 0
	r := remux.NewRtmp2RtspRemuxer(func(ctx sdp.LogicContext) {
		sdps = append(sdps, emitted{append([]byte(nil), ctx.RawSdp...), vgen, agen})
	}, func(pkt rtprtcp.RtpPacket) {})
	ts := uint32(0)
	feed := func(typ uint8, payload []byte) {
		csid := 6
		if typ == base.RtmpTypeIdAudio {
			csid = 4
		}
		r.FeedRtmpMsg(base.RtmpMsg{Header: base.RtmpHeader{Csid: csid, MsgTypeId: typ, MsgStreamId: 1, MsgLen: uint32(len(payload)), TimestampAbs: ts}, Payload: payload})
	}
	videoHeader := func(gen int) {
		vps, sps, pps := c.sets(gen)
		switch c.Video {
		case "avc":
			rec := codecref.AVCConfig{LengthSizeMinusOne: 3, SPS: [][]byte{sps}, PPS: [][]byte{pps}}
			if len(sps) >= 4 {
				rec.ProfileIndication, rec.ProfileCompatibility, rec.LevelIndication = sps[1], sps[2], sps[3]
			}
			feed(base.RtmpTypeIdVideo, codecref.RtmpAvcSeqHeader(rec.Marshal()))
		case "hevc":
			rec := codecref.HEVCConfig{ProfileIdc: 1, CompatFlags: 0x60000000, ConstraintFlags: 0x900000000000, LevelIdc: 93, ChromaFormat: 1, NumTemporalLayers: 1, TemporalIdNested: true, LengthSizeMinusOne: 3,
				Arrays: []codecref.HEVCArray{{Completeness: true, NALType: 32, NALUs: [][]byte{vps}}, {Completeness: true, NALType: 33, NALUs: [][]byte{sps}}, {Completeness: true, NALType: 34, NALUs: [][]byte{pps}}}}
			if c.Enhanced {
				feed(base.RtmpTypeIdVideo, codecref.RtmpHevcEnhancedSeqHeader(rec.Marshal()))
			} else {
				feed(base.RtmpTypeIdVideo, codecref.RtmpHevcSeqHeader(rec.Marshal()))
			}
		}
	}
	audioHeader := func(gen int) {
		if c.Audio == "aac" {
			feed(base.RtmpTypeIdAudio, append([]byte{0xaf, 0x00}, c.asc(gen)...))
		}
	}
	nframe := uint32(0)
	videoFrame := func() {
		key := nframe == 0
		var p []byte
		switch c.Video {
		case "avc":
			p = []byte{0x27, 1, 0, 0, 0}
			nal := codecref.FillNAL([]byte{0x41}, nframe, 40, 0)
			if key {
				p[0] = 0x17
				nal = codecref.FillNAL([]byte{0x65}, nframe, 40, 0)
			}
			p = append(p, codecref.BuildAVCC([][]byte{nal}, 4)...)
		case "hevc":
			nal := codecref.FillNAL(codecref.H265NALHeader(1, 0, 1), nframe, 40, 0)
			if key {
				nal = codecref.FillNAL(codecref.H265NALHeader(19, 0, 1), nframe, 40, 0)
			}
			if c.Enhanced {
				p = []byte{0xa1, 'h', 'v', 'c', '1', 0, 0, 0} // inter frame, PacketTypeCodedFrames, composition time
				if key {
					p[0] = 0x91
				}
			} else {
				p = []byte{0x2c, 1, 0, 0, 0}
				if key {
					p[0] = 0x1c
				}
			}
			p = append(p, codecref.BuildAVCC([][]byte{nal}, 4)...)
		default:
			return
		}
		feed(base.RtmpTypeIdVideo, p)
	}
	audioFrame := func() {
		switch c.Audio {
		case "aac":
			feed(base.RtmpTypeIdAudio, append([]byte{0xaf, 0x01}, codecref.FillNAL(nil, nframe, 24, 0)...))
		case "pcma":
			feed(base.RtmpTypeIdAudio, append([]byte{0x72}, codecref.FillNAL(nil, nframe, 160, 0)...))
		case "pcmu":
			feed(base.RtmpTypeIdAudio, append([]byte{0x82}, codecref.FillNAL(nil, nframe, 160, 0)...))
		case "opus":
			feed(base.RtmpTypeIdAudio, append([]byte{0xdf}, codecref.FillNAL(nil, nframe, 60, 0)...))
		}
	}
	rounds := func(n int) {
		for i := 0; i < n; i++ {
			if c.AudioFirst {
				audioFrame()
				videoFrame()
			} else {
				videoFrame()
				audioFrame()
			}
			nframe++
			ts += 40
		}
	}
	if c.MetaCodec || c.MetaRate {
		var m []rtmpref.Member
		if c.MetaCodec {
			m = append(m, rtmpref.M("audiocodecid", rtmpref.Num(map[string]float64{"pcma": 7, "pcmu": 8, "opus": 13}[c.Audio])))
		}
		if c.MetaRate {
			m = append(m, rtmpref.M("audiosamplerate", rtmpref.Num(float64(c.Rate))))
		}
		feed(base.RtmpTypeIdMetadata, rtmpref.EncodeAmf0(rtmpref.Str("onMetaData"), rtmpref.EcmaArray(m...)))
	}
	if c.AudioFirst {
		audioHeader(0)
		videoHeader(0)
	} else {
		videoHeader(0)
		audioHeader(0)
	}
	// the remuxer decides after both headers, after the first frame of a codec without
	// header, or — single-track streams — after 16 messages
	rounds(17)
	if len(sdps) == 0 {
		return pbt.V("remux-sdp/not-produced", "Rtmp2RtspRemuxer produced no SDP after the headers and 17 rounds of frames of a %q + %q stream (asc %x)", c.Video, c.Audio, c.asc(0))
	}
	switch c.Change {
	case "video":
		vgen = 1
		videoHeader(1)
	case "audio":
		agen = 1
		audioHeader(1)
	case "both":
		vgen = 1
		videoHeader(1)
		agen = 1
		audioHeader(1)
	}
	if c.Change != "" {
		nframe = 0 // the encoder restarts with a key frame
		rounds(3)
	}
	// after the video parameter sets changed, consumers that join from now on are described the new ones
	// (lal rebuilds the SDP on a changed video sequence header; an AAC header change is not asserted — stated limit)
	if vgen == 1 && sdps[len(sdps)-1].vgen != 1 {
		return pbt.V("remux-sdp/stale-video-parameter-sets", "the publisher sent a video sequence header with other parameter sets; lal produced no new SDP (%d so far), consumers joining now get the former sets", len(sdps))
	}
	// every SDP lal hands to consumers describes the stream as it was configured at that moment
	for i, e := range sdps {
		if v := checkSdp(e.raw, c.wantTracks(e.vgen, e.agen)); v != nil {
			v.Detail = fmt.Sprintf("SDP #%d of %d (video header generation %d, audio %d; meta codec=%v rate=%v): %s", i+1, len(sdps), e.vgen, e.agen, c.MetaCodec, c.MetaRate, v.Detail)
			return v
		}
	}
	return nil
}

// checkSdp reads raw with lal's reader and with the reference reader and
// compares both with the stream description.
func checkSdp(raw []byte, want []wantTrack) *pbt.Violation {
	lc, err := sdp.ParseSdp2LogicContext(raw)
	if err != nil {
		return pbt.V("sdp-lal/error", "ParseSdp2LogicContext failed on lal's own SDP: %v\n%s", err, clipSdp(raw))
	}
	sess, err := sdpref.Parse(raw)
	if err != nil {
		return pbt.V("sdp-ref/unreadable", "the RFC 4566 reader rejects lal's SDP: %v\n%s", err, clipSdp(raw))
	}
	tracks, err := sess.Tracks()
	if err != nil {
		return pbt.V("sdp-ref/unreadable", "the RFC 4566/6184/7798/3640 reader cannot resolve lal's SDP: %v\n%s", err, clipSdp(raw))
	}
	if len(tracks) != len(want) {
		return pbt.V("sdp/media-count", "SDP has %d media descriptions, the stream has %d tracks\n%s", len(tracks), len(want), clipSdp(raw))
	}
	for _, w := range want {
		var tr *sdpref.Track
		for i := range tracks {
			if tracks[i].MediaType == w.media {
				tr = &tracks[i]
			}
		}
		if tr == nil {
			return pbt.V("sdp/"+w.media+"-missing", "no m=%s section\n%s", w.media, clipSdp(raw))
		}
		// codec
		if tr.Encoding != w.encoding {
			return pbt.V("sdp/"+w.media+"-codec", "reference reader sees encoding %q, the stream is %s\n%s", tr.Encoding, w.encoding, clipSdp(raw))
		}
		var lalBase base.AvPacketPt
		var lalClock int
		var isPt func(int) bool
		var setupUri func(string) string
		var isUri func(string) bool
		if w.media == "video" {
			lalBase, lalClock, isPt, setupUri, isUri = lc.GetVideoPayloadTypeBase(), lc.VideoClockRate, lc.IsVideoPayloadTypeOrigin, lc.MakeVideoSetupUri, lc.IsVideoUri
		} else {
			lalBase, lalClock, isPt, setupUri, isUri = lc.GetAudioPayloadTypeBase(), lc.AudioClockRate, lc.IsAudioPayloadTypeOrigin, lc.MakeAudioSetupUri, lc.IsAudioUri
		}
		if lalBase != w.basePt {
			return pbt.V("sdp/"+w.media+"-codec", "lal reads codec %d from its SDP, the stream is %s (%d)\n%s", lalBase, w.encoding, w.basePt, clipSdp(raw))
		}
		// payload type
		for pt := 0; pt < 128; pt++ {
			if isPt(pt) != (pt == tr.PayloadType) {
				return pbt.V("sdp/"+w.media+"-payload-type", "reference reader resolves payload type %d, lal answers Is%sPayloadTypeOrigin(%d)=%v\n%s", tr.PayloadType, w.media, pt, isPt(pt), clipSdp(raw))
			}
		}
		// clock rate
		if lalClock != tr.ClockRate {
			return pbt.V("sdp/"+w.media+"-clock-rate", "reference reader: %d, lal: %d\n%s", tr.ClockRate, lalClock, clipSdp(raw))
		}
		if w.clock != 0 && tr.ClockRate != w.clock {
			return pbt.V("sdp/"+w.media+"-clock-rate", "SDP announces clock rate %d, the stream's is %d\n%s", tr.ClockRate, w.clock, clipSdp(raw))
		}
		// control URL
		if !tr.HasControl || tr.Control == "" {
			return pbt.V("sdp/"+w.media+"-control", "no a=control in the %s section\n%s", w.media, clipSdp(raw))
		}
		const baseURL = "rtsp://example.test:5544/live/c19"
		wantURL := baseURL + "/" + tr.Control
		if strings.HasPrefix(tr.Control, "rtsp://") {
			wantURL = tr.Control
		}
		if got := setupUri(baseURL); got != wantURL || !isUri(wantURL) {
			return pbt.V("sdp/"+w.media+"-control", "reference reader: control %q -> %q; lal: setup uri %q, Is%sUri=%v\n%s", tr.Control, wantURL, got, w.media, isUri(wantURL), clipSdp(raw))
		}
		// parameter sets / configuration
		switch w.encoding {
		case "H264":
			if !eqList(tr.SPS, [][]byte{w.sps}) || !eqList(tr.PPS, [][]byte{w.pps}) {
				return pbt.V("sdp/avc-parameter-sets-ref", "sprop-parameter-sets decode (by NAL type) to sps %s pps %s; the stream has sps %s pps %s", heads(tr.SPS), heads(tr.PPS), head(w.sps), head(w.pps))
			}
			if !eq(lc.Sps, w.sps) || !eq(lc.Pps, w.pps) {
				return pbt.V("sdp/avc-parameter-sets-lal", "lal reads sps %s pps %s from its SDP; the stream has sps %s pps %s", head(lc.Sps), head(lc.Pps), head(w.sps), head(w.pps))
			}
		case "H265":
			if !eqList(tr.VPS, [][]byte{w.vps}) || !eqList(tr.SPS, [][]byte{w.sps}) || !eqList(tr.PPS, [][]byte{w.pps}) {
				return pbt.V("sdp/hevc-parameter-sets-ref", "sprop-vps/sps/pps decode to %s / %s / %s; the stream has %s / %s / %s", heads(tr.VPS), heads(tr.SPS), heads(tr.PPS), head(w.vps), head(w.sps), head(w.pps))
			}
			if !eq(lc.Vps, w.vps) || !eq(lc.Sps, w.sps) || !eq(lc.Pps, w.pps) {
				return pbt.V("sdp/hevc-parameter-sets-lal", "lal reads %s / %s / %s from its SDP; the stream has %s / %s / %s", head(lc.Vps), head(lc.Sps), head(lc.Pps), head(w.vps), head(w.sps), head(w.pps))
			}
		case "MPEG4-GENERIC":
			if !eq(tr.Config, w.asc) {
				return pbt.V("sdp/aac-config-ref", "config= decodes to %x, the stream's AudioSpecificConfig is %x", tr.Config, w.asc)
			}
			if !eq(lc.Asc, w.asc) {
				return pbt.V("sdp/aac-config-lal", "lal reads config %x from its SDP, the stream's AudioSpecificConfig is %x", lc.Asc, w.asc)
			}
		}
	}
	return nil
}

func clipSdp(b []byte) string {
	var out []string
	for _, l := range strings.Split(string(b), "\r\n") {
		if len(l) > 160 {
			l = l[:160] + fmt.Sprintf("...(%d chars)", len(l))
		}
		out = append(out, l)
	}
	return strings.Join(out, "\n")
}

func classifySdp(c SdpCase) (bool, []string) {
	nt := false
	labels := []string{"video=" + c.Video, "audio=" + c.Audio}
	if c.Video != "" {
		sets := []struct {
			n   string
			ps  PS
			hdr []byte
		}{{"sps", c.SPS, avcSPSHdr}, {"pps", c.PPS, avcPPSHdr}}
		if c.Video == "hevc" {
			sets = []struct {
				n   string
				ps  PS
				hdr []byte
			}{{"vps", c.VPS, hevcVPSHdr}, {"sps", c.SPS, hevcSPSHdr}, {"pps", c.PPS, hevcPPSHdr}}
		}
		for _, s := range sets {
			b := s.ps.bytes(s.hdr)
			a, l := psLabels(s.n, b)
			nt, labels = nt || a, append(labels, l...)
			if len(b)%3 != 0 {
				labels = append(labels, "base64-padding")
			}
		}
	}
	if c.Audio == "aac" {
		if c.ObjectType >= 32 {
			labels = append(labels, "asc-escape-object-type")
		}
		if c.FreqIndex == 15 {
			labels = append(labels, "asc-explicit-frequency")
		}
		if len(c.asc(0)) > 2 {
			labels = append(labels, "asc>2B")
			nt = true
		}
	}
	if c.ViaRemuxer {
		labels = append(labels, "via-remuxer", "via-remuxer/audio="+c.Audio)
		if c.Video == "hevc" && c.Enhanced {
			labels = append(labels, "via-remuxer-enhanced-hevc")
		}
		if c.Video == "" || c.Audio == "" {
			labels = append(labels, "via-remuxer/single-track")
		}
		if c.MetaCodec || c.MetaRate {
			labels = append(labels, fmt.Sprintf("via-remuxer/metadata codec=%v rate=%v", c.MetaCodec, c.MetaRate))
		}
		if c.Change != "" {
			labels = append(labels, "via-remuxer/header-change="+c.Change)
			nt = true
		}
		if c.Audio == "aac" && (c.ObjectType >= 32 || c.FreqIndex == 15) {
			labels = append(labels, "via-remuxer/asc-escape")
			nt = true
		}
	}
	if c.Video != "" && c.Audio != "" {
		labels = append(labels, "two-tracks")
	}
	return nt, uniq(labels)
}

func TestSdp(t *testing.T) {
	pbt.Run(t, pbt.Spec[SdpCase]{
		ID: "C19", Name: "sdp", Gen: genSdp, Run: runSdp, Classify: classifySdp,
		Quick: 5000, Thorough: 20000,
	})
}
