// Ticks with lal's liveness sweep.
//
// RunLoop ticks every group once a second; on every tick whose number is a multiple of
// base.LogicCheckSessionAliveIntervalSec the group "sweeps": a publisher or pull session that has READ nothing,
// and a subscriber that has been WRITTEN nothing, since the previous sweep it was attached at is disposed.  The
// byte counters the rule looks at are the ones the stat API reports, so the model is exact without knowing which
// subscriber lal forwards what:
//
//	disposed at sweep k  <=>  the session was attached at sweep k-1 and its counter has the same value at both.
//
// The harness reads the counters right before the tick (after they have come to rest) and right after it; a
// counter that moved inside that window makes the session "uncertain" for this sweep and the next (no verdict).
// Idle sessions arise by themselves (a publisher nobody watches is sent no probe, a subscriber of a stream
// without input is written nothing, two sweeps in a row), active ones by the probes behind every other action
// and by the keep-alive a share of the sweeps starts with.  Customize inputs are never swept; a GB28181 input has
// a timeout of its own (checked on any tick): it is always kept alive here and must never be disposed.
package c03

import (
	"time"

	"github.com/q191201771/lal/pkg/base"

	"verif/drv/pbt"
	"verif/gen"
	"verif/harness/lalclient"
)

// liveness is the per-session part of the sweep model.
type liveness struct {
	swept     bool   // lal has looked at the session's counter at an earlier sweep
	value     uint64 // ... and saw this value
	uncertain bool   // ... but the harness is not sure which value exactly
}

type counters struct {
	pub, pull   string
	pubV, pullV uint64
	subs        map[string]uint64
}

func (w *world) counters(st *streamModel) counters {
	c := counters{subs: map[string]uint64{}}
	sg := statOf(w, st)
	if sg == nil {
		return c
	}
	c.pub, c.pubV = sg.StatPub.SessionId, sg.StatPub.ReadBytesSum
	c.pull, c.pullV = sg.StatPull.SessionId, sg.StatPull.ReadBytesSum
	for _, s := range sg.StatSubs {
		c.subs[s.SessionId] = s.WroteBytesSum
	}
	// lal's HTTP subscriber sessions judge their liveness by the connection's byte count but report a session-level
	// count (which nothing ever adds to) through the stat API: for them the harness counts what lal has written
	// into the connection itself
	for _, sb := range st.subs {
		if _, listed := c.subs[sb.id]; listed && sb.kind != "rtmp" && sb.kind != "rtsp" {
			c.subs[sb.id] = uint64(sb.k.conn().TotalReceived())
		}
	}
	return c
}

func sameCounters(a, b counters) bool {
	if a.pub != b.pub || a.pull != b.pull || a.pubV != b.pubV || a.pullV != b.pullV || len(a.subs) != len(b.subs) {
		return false
	}
	for k, v := range a.subs {
		if x, ok := b.subs[k]; !ok || x != v {
			return false
		}
	}
	return true
}

// inputCounter returns the read counter of the accepted input of st as the stat API reports it.
func (w *world) inputCounter(st *streamModel) (uint64, bool) {
	c := w.counters(st)
	switch st.in.kind {
	case "rtmp", "rtsp", "ps":
		return c.pubV, c.pub == st.in.id
	case "pull":
		return c.pullV, c.pull == st.in.id
	}
	return 0, false
}

// keepAlive makes the accepted input of st send something and waits until lal has read it.
func (w *world) keepAlive(ai int, a Action, st *streamModel) *pbt.Violation {
	in := st.in
	before, listed := w.inputCounter(st)
	send := func() error {
		if !in.av {
			mk := w.nextMarker()
			in.sent = append(in.sent, mk)
			return in.rtmpSend(w)(gen.TypeAudio, w.marker, mk)
		}
		w.marker++
		pat := videoMarker(w.marker)
		in.sent = append(in.sent, pat)
		return w.sendAvProbe(in, pat)
	}
	if in.av && !in.primed {
		if v := w.prime(ai, a, st); v != nil {
			return v
		}
	}
	if err := send(); err != nil {
		return pbt.V("A2/accepted-input-disconnected", "before %s: the accepted %s input %s of %s can no longer send: %v", w.who(ai, a), in.kind, in.id, st.name, err)
	}
	switch in.kind {
	case "rtmp":
		in.pub.WaitIdle()
	case "rtsp":
		in.rtsp.WaitPeerIdle(lalclient.IdleTimeout)
	case "customize":
		return nil
	}
	if !listed {
		return nil // the invariant has more to say about that
	}
	tries := 1
	if in.kind == "ps" {
		tries = 10
	}
	for try := 0; try < tries; try++ {
		if waitUntil(lalclient.DeliverTimeout/time.Duration(tries), func() bool { v, _ := w.inputCounter(st); return v > before }) {
			return nil
		}
		if in.kind == "ps" {
			_ = send()
		}
	}
	return pbt.V("A2/input-bytes-not-counted", "before %s: the accepted %s input %s of %s sent a frame, but the bytes-read counter the stat API reports for it stayed at %d", w.who(ai, a), in.kind, in.id, st.name, before)
}

// tickAction: a.Sel%3 = 0: an ordinary tick; 1: a sweep after every input has sent something; 2: a sweep as it comes.
func (w *world) tickAction(ai int, a Action, st *streamModel) *pbt.Violation {
	mode := a.Sel % 3
	for _, x := range w.streams {
		if x.in != nil && (x.in.kind == "ps" || mode == 1) {
			if v := w.keepAlive(ai, a, x); v != nil {
				return v
			}
		}
	}
	n := uint32(1)
	if mode != 0 {
		w.sweeps++
		n = base.LogicCheckSessionAliveIntervalSec * uint32(w.sweeps)
	}
	// let the counters come to rest (per-subscriber writer goroutines may still be flushing)
	pre := make([]counters, len(w.streams))
	stable := false
	for i := 0; i < 150 && !stable; i++ {
		for j, x := range w.streams {
			pre[j] = w.counters(x)
		}
		time.Sleep(2 * time.Millisecond)
		stable = true
		for j, x := range w.streams {
			if !sameCounters(pre[j], w.counters(x)) {
				stable = false
			}
		}
	}
	before := w.origin.Attempts()
	w.s.Call("ServerManager tick", func() { w.s.SM.VerifTick(n) })
	if st.pull == nil && w.origin.Attempts() != before {
		lalclient.Harness("a tick started a pull attempt behind the model's back")
	}
	w.quiet = true // no probe behind a tick: two sweeps in a row find everybody idle
	if mode == 0 {
		pbt.Count("tick:plain", 1)
		return nil
	}
	pbt.Count("tick:sweep", 1)
	for j, x := range w.streams {
		post := w.counters(x)
		if v := w.judgeSweep(ai, a, x, pre[j], post, stable); v != nil {
			return v
		}
	}
	return nil
}

// verdict applies the two-sweep rule to one session. pre / post: counter before and after the tick (postListed:
// the stat API still lists the session).
func (l *liveness) verdict(pre, post uint64, postListed, stable bool) (judge, dispose bool) {
	certain := stable && (!postListed || post == pre)
	if !l.swept {
		// lal looks at this session for the first time: nothing to compare with, it stays whatever the counter says
		judge, dispose = true, false
	} else {
		judge = !l.uncertain && certain
		dispose = judge && pre == l.value
	}
	l.swept, l.value, l.uncertain = true, pre, !certain
	return
}

func (w *world) judgeSweep(ai int, a Action, st *streamModel, pre, post counters, stable bool) *pbt.Violation {
	// subscribers
	for i := 0; i < len(st.subs); i++ {
		sb := st.subs[i]
		pv, listed := pre.subs[sb.id]
		if !listed {
			continue // the invariant reports it
		}
		qv, postListed := post.subs[sb.id]
		judge, dispose := sb.live.verdict(pv, qv, postListed, stable)
		gone := false
		switch {
		case judge && dispose:
			pbt.Count("sweep:idle-subscriber:"+sb.kind, 1)
			if !sb.k.waitEnded(lalclient.DeliverTimeout) {
				return pbt.V("sweep/idle-session-kept", "%s: subscriber %s (%s) of %s was written nothing between two consecutive liveness sweeps (counter %d) but was not disconnected", w.who(ai, a), sb.id, sb.kind, st.name, pv)
			}
			gone = true
		case judge:
			pbt.Count("sweep:active-subscriber:"+sb.kind, 1)
			if sb.k.conn().PeerGone() {
				return pbt.V("sweep/active-session-disposed", "%s: subscriber %s (%s) of %s was disconnected by the liveness sweep although it had been written to since the previous sweep (or met its first sweep); counter %d", w.who(ai, a), sb.id, sb.kind, st.name, pv)
			}
		default:
			pbt.Count("sweep:no-verdict", 1)
			gone = waitUntil(20*time.Millisecond, func() bool { return sb.k.conn().PeerGone() })
		}
		if gone {
			sb.k.waitEnded(lalclient.DeliverTimeout)
			sb.k.conn().WaitPeerDone(lalclient.IdleTimeout)
			st.subs = append(st.subs[:i], st.subs[i+1:]...)
			st.staleIDs = append(st.staleIDs, sb.id)
			i--
		}
	}
	// the input
	in := st.in
	if in == nil {
		return nil
	}
	var pv, qv uint64
	var listed, postListed bool
	switch in.kind {
	case "rtmp", "rtsp", "ps":
		pv, listed = pre.pubV, pre.pub == in.id
		qv, postListed = post.pubV, post.pub == in.id
	case "pull":
		pv, listed = pre.pullV, pre.pull == in.id
		qv, postListed = post.pullV, post.pull == in.id
	default:
		return nil // customize: never swept
	}
	if !listed {
		return nil
	}
	if in.kind == "ps" {
		// kept alive before every tick: whatever its timeout, it stays
		if !postListed {
			waitUntil(20*time.Millisecond, func() bool { return false })
			if c := w.counters(st); c.pub != in.id {
				return pbt.V("sweep/active-session-disposed", "%s: the GB28181 input %s of %s, which had just been read %d bytes from, is gone after the tick", w.who(ai, a), in.id, st.name, pv)
			}
		}
		return nil
	}
	judge, dispose := in.live.verdict(pv, qv, postListed, stable)
	gonef := func() bool {
		switch in.kind {
		case "rtmp":
			return in.pub.Conn.PeerGone()
		case "rtsp":
			return in.rtsp.PeerGone()
		}
		return w.hasEvent("pull_stop", in.id)
	}
	gone := false
	switch {
	case judge && dispose:
		pbt.Count("sweep:idle-input:"+in.kind, 1)
		if !waitUntil(lalclient.DeliverTimeout, gonef) {
			return pbt.V("sweep/idle-session-kept", "%s: the accepted %s input %s of %s was read nothing from between two consecutive liveness sweeps (counter %d) but was not disconnected", w.who(ai, a), in.kind, in.id, st.name, pv)
		}
		gone = true
	case judge:
		pbt.Count("sweep:active-input:"+in.kind, 1)
		if in.kind != "pull" && gonef() {
			return pbt.V("sweep/active-session-disposed", "%s: the accepted %s input %s of %s was disconnected by the liveness sweep although it had been read from since the previous sweep (or met its first sweep); counter %d", w.who(ai, a), in.kind, in.id, st.name, pv)
		}
	default:
		pbt.Count("sweep:no-verdict", 1)
		gone = waitUntil(20*time.Millisecond, gonef)
	}
	if gone {
		kind := in.kind
		if v := w.inputKicked(ai, a, st); v != nil {
			return v
		}
		if kind == "pull" {
			w.disablePull(st) // a timed-out pull stays configured: it must not come back behind the model
		}
	}
	return nil
}
