// Subscribers of the four kinds lal serves per stream (RTMP, HTTP-FLV, HTTP-TS, RTSP over interleaved TCP) behind
// one small interface: "has this byte pattern arrived", "has the connection ended".
//
// The probes of this check are tiny (a key frame of < 100 bytes, an 8-byte audio message), so a marker is always
// contiguous in what the subscriber receives: one RTMP message / FLV tag, one TS packet, one RTP packet.
package c03

import (
	"bytes"
	"strings"
	"sync"
	"time"

	"verif/harness/inproc"
	"verif/harness/lalclient"
	"verif/harness/memconn"
	"verif/ref/rtspref"
)

// the secret every legitimate subscriber presents when the case runs with simple auth switched on
const (
	goodSecret = "c03secret"
	badSecret  = "c03wrong"
)

type sink interface {
	// has reports whether pat has arrived (exact: as a whole message payload; otherwise anywhere in a unit)
	has(pat []byte, exact bool) bool
	waitHas(pat []byte, exact bool, d time.Duration) bool
	ended() bool
	waitEnded(d time.Duration) bool
	close()
	conn() *memconn.Conn
	// ready: the subscriber can be expected to receive what the input sends from now on (RTSP: PLAY answered)
	ready() bool
}

// ---- RTMP / HTTP-FLV -------------------------------------------------------

type msgSink struct{ c *lalclient.Consumer }

func match(payload, pat []byte, exact bool) bool {
	if exact {
		return bytes.Equal(payload, pat)
	}
	return bytes.Contains(payload, pat)
}

func (m msgSink) has(pat []byte, exact bool) bool {
	for _, r := range m.c.Recs() {
		if match(r.Payload, pat, exact) {
			return true
		}
	}
	return false
}
func (m msgSink) waitHas(pat []byte, exact bool, d time.Duration) bool {
	return m.c.WaitFor(func(r lalclient.Rec) bool { return match(r.Payload, pat, exact) }, d) >= 0
}
func (m msgSink) ended() bool                    { return m.c.Ended() }
func (m msgSink) waitEnded(d time.Duration) bool { return m.c.WaitEnded(d) }
func (m msgSink) close()                         { m.c.Close() }
func (m msgSink) conn() *memconn.Conn            { return m.c.Conn }
func (m msgSink) ready() bool                    { return true }

// ---- HTTP-TS ---------------------------------------------------------------

type tsSink struct{ c *lalclient.TsConsumer }

func (t tsSink) has(pat []byte, exact bool) bool { return bytes.Contains(t.c.Body(), pat) }
func (t tsSink) waitHas(pat []byte, exact bool, d time.Duration) bool {
	return t.c.WaitPred(func(b []byte) bool { return bytes.Contains(b, pat) }, d)
}
func (t tsSink) ended() bool { return t.c.Conn.EOFPending() || t.c.Conn.PeerGone() }
func (t tsSink) waitEnded(d time.Duration) bool {
	deadline := time.Now().Add(d)
	for !t.ended() {
		if time.Now().After(deadline) {
			return false
		}
		time.Sleep(200 * time.Microsecond)
	}
	return true
}
func (t tsSink) close()              { t.c.Close() }
func (t tsSink) conn() *memconn.Conn { return t.c.Conn }
func (t tsSink) ready() bool         { return true }

// ---- WebSocket HTTP-TS -------------------------------------------------------

// rawSink collects everything lal writes (HTTP 101 response, WebSocket frames).  lal puts every write of TS packets
// into one unmasked binary frame, so a marker (contiguous inside one TS packet) is contiguous in the raw bytes.
type rawSink struct {
	cn   *memconn.Conn
	mu   sync.Mutex
	cond *sync.Cond
	buf  []byte
	eof  bool
}

func newRawSink(conn *memconn.Conn) *rawSink {
	r := &rawSink{cn: conn}
	r.cond = sync.NewCond(&r.mu)
	go func() {
		b := make([]byte, 32*1024)
		for {
			n, err := conn.Read(b)
			r.mu.Lock()
			r.buf = append(r.buf, b[:n]...)
			if err != nil {
				r.eof = true
			}
			r.cond.Broadcast()
			r.mu.Unlock()
			if err != nil {
				return
			}
		}
	}()
	return r
}

func (r *rawSink) wait(pred func() bool, d time.Duration) bool {
	deadline := time.Now().Add(d)
	t := time.AfterFunc(d, func() { r.mu.Lock(); r.cond.Broadcast(); r.mu.Unlock() })
	defer t.Stop()
	r.mu.Lock()
	defer r.mu.Unlock()
	for {
		if pred() {
			return true
		}
		if r.eof || !time.Now().Before(deadline) {
			return pred()
		}
		r.cond.Wait()
	}
}

func (r *rawSink) has(pat []byte, exact bool) bool {
	r.mu.Lock()
	defer r.mu.Unlock()
	return bytes.Contains(r.buf, pat)
}
func (r *rawSink) waitHas(pat []byte, exact bool, d time.Duration) bool {
	return r.wait(func() bool { return bytes.Contains(r.buf, pat) }, d)
}
func (r *rawSink) ended() bool {
	r.mu.Lock()
	defer r.mu.Unlock()
	return r.eof
}
func (r *rawSink) waitEnded(d time.Duration) bool { return r.wait(func() bool { return r.eof }, d) }
func (r *rawSink) close()                         { _ = r.cn.Close() }
func (r *rawSink) conn() *memconn.Conn            { return r.cn }
func (r *rawSink) ready() bool                    { return true }

// ---- RTSP ------------------------------------------------------------------

// rtspSink runs DESCRIBE / SETUP / PLAY and then collects the interleaved RTP packets in a goroutine of its own:
// lal answers DESCRIBE only once the stream has a session description, which may be many actions later.
type rtspSink struct {
	cn *memconn.Conn

	mu      sync.Mutex
	cond    *sync.Cond
	state   string // connecting | describing | playing | failed | ended
	pkts    [][]byte
	descErr string
}

func newRtspSink(s *inproc.Server, uri string) *rtspSink {
	conn := s.RtspConn()
	r := &rtspSink{cn: conn, state: "connecting"}
	r.cond = sync.NewCond(&r.mu)
	cl := rtspref.NewClient(conn)
	set := func(st string) {
		r.mu.Lock()
		if r.state != "ended" {
			r.state = st
		}
		r.cond.Broadcast()
		r.mu.Unlock()
	}
	go func() {
		defer set("ended")
		var resp *rtspref.Response
		_, err := cl.Do("OPTIONS", uri, nil, nil)
		if err == nil {
			_, err = cl.WriteRequest("DESCRIBE", uri, map[string]string{"Accept": "application/sdp"}, nil)
		}
		set("describing")
		if err == nil {
			resp, err = cl.ReadResponse()
		}
		if err != nil || resp == nil || resp.Status != 200 || !strings.Contains(string(resp.Body), "m=") {
			r.mu.Lock()
			if err != nil {
				r.descErr = err.Error()
			} else if resp != nil {
				r.descErr = resp.Reason
			}
			r.mu.Unlock()
			set("failed")
			// stay connected (lal keeps listing the session) until the harness closes the connection
			for {
				if _, err := cl.ReadFrame(); err != nil {
					return
				}
			}
		}
		if err := cl.SetupPlay(uri, rtspref.SdpControls(resp.Body)); err != nil {
			set("failed")
			for {
				if _, err := cl.ReadFrame(); err != nil {
					return
				}
			}
		}
		conn.WaitPeerIdle(lalclient.IdleTimeout) // PLAY has been processed
		set("playing")
		for {
			f, err := cl.ReadFrame()
			if err != nil {
				return
			}
			if f.Channel%2 == 0 {
				r.mu.Lock()
				r.pkts = append(r.pkts, f.Payload)
				r.cond.Broadcast()
				r.mu.Unlock()
			}
		}
	}()
	return r
}

func (r *rtspSink) hasLocked(pat []byte) bool {
	for _, p := range r.pkts {
		if bytes.Contains(p, pat) {
			return true
		}
	}
	return false
}

func (r *rtspSink) has(pat []byte, exact bool) bool {
	r.mu.Lock()
	defer r.mu.Unlock()
	return r.hasLocked(pat)
}

func (r *rtspSink) waitCond(pred func() bool, d time.Duration) bool {
	deadline := time.Now().Add(d)
	t := time.AfterFunc(d, func() { r.mu.Lock(); r.cond.Broadcast(); r.mu.Unlock() })
	defer t.Stop()
	r.mu.Lock()
	defer r.mu.Unlock()
	for {
		if pred() {
			return true
		}
		if r.state == "ended" || !time.Now().Before(deadline) {
			return pred()
		}
		r.cond.Wait()
	}
}

func (r *rtspSink) waitHas(pat []byte, exact bool, d time.Duration) bool {
	return r.waitCond(func() bool { return r.hasLocked(pat) }, d)
}
func (r *rtspSink) ended() bool {
	r.mu.Lock()
	defer r.mu.Unlock()
	return r.state == "ended"
}
func (r *rtspSink) waitEnded(d time.Duration) bool {
	return r.waitCond(func() bool { return r.state == "ended" }, d)
}
func (r *rtspSink) close()              { _ = r.cn.Close() }
func (r *rtspSink) conn() *memconn.Conn { return r.cn }
func (r *rtspSink) ready() bool {
	r.mu.Lock()
	defer r.mu.Unlock()
	return r.state == "playing"
}

// waitSettled waits until the subscriber has left the "describing" stage.
func (r *rtspSink) waitSettled(d time.Duration) string {
	r.waitCond(func() bool { return r.state != "describing" && r.state != "connecting" }, d)
	r.mu.Lock()
	defer r.mu.Unlock()
	return r.state
}

// ---- constructors ----------------------------------------------------------

// join opens a subscriber of the given kind on app live, stream name, presenting query ("" or "?lal_secret=..").
func join(s *inproc.Server, kind, name, query string) sink {
	switch kind {
	case "flv":
		return msgSink{lalclient.NewFlvSub(s, "live", name+query, false)}
	case "wsflv":
		return msgSink{lalclient.NewFlvSub(s, "live", name+query, true)}
	case "ts":
		return tsSink{lalclient.NewTsSub(s, "live", name+query)}
	case "wsts":
		conn := s.HttpSub("/live/"+name+".ts"+query, true)
		conn.WaitPeerIdle(lalclient.IdleTimeout) // admission done, handler parked in its read loop
		return newRawSink(conn)
	case "rtsp":
		r := newRtspSink(s, "rtsp://127.0.0.1:5544/live/"+name+query)
		// the DESCRIBE has been handed to lal's observer once it was written and the server is back in Read (or the
		// session is over)
		r.waitCond(func() bool { return r.state != "connecting" }, lalclient.IdleTimeout)
		r.cn.WaitPeerIdle(lalclient.IdleTimeout)
		return r
	default:
		return msgSink{lalclient.NewRtmpSub(s, "live", name+query)}
	}
}
