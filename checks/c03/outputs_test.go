// Per-stream file outputs (a share of the cases enables one of them in lal's configuration).
//
// "The stream's outputs are unchanged by foreign arrivals and departures" is judged in the cheapest sound way:
//
//   - FLV recording: every marker the accepted input has sent since it was accepted is found in ONE recording file
//     of the stream.  A second recorder started for the stream (by an input that should have been refused) either
//     truncates the file (same name: names have one-second resolution) or continues in another file; either way
//     the markers are no longer together.
//   - HLS (through harness/hlsfs, which keeps every byte ever written): the stream directory has been "made" by as
//     many muxer starts as inputs were accepted — a refused input starts no muxer —, and every marker of the
//     accepted av input is found in a segment file of the stream.
//   - nothing carrying badPattern (media of refused inputs / old handles) is found in any output file.
//
// What happens to the files once their input has left is C16's subject.
package c03

import (
	"bytes"
	"os"
	"path/filepath"
	"sort"
	"strconv"
	"strings"

	"verif/drv/pbt"
	"verif/harness/hlsfs"
	"verif/harness/lalclient"
)

// flvFiles returns the contents of the recording files of stream name.
func (w *world) flvFiles(name string) map[string][]byte {
	out := map[string][]byte{}
	dir := filepath.Join(w.s.Dir, "flv")
	ents, err := os.ReadDir(dir)
	if err != nil {
		return out
	}
	for _, e := range ents {
		if strings.HasPrefix(e.Name(), name+"-") && strings.HasSuffix(e.Name(), ".flv") {
			if b, err := os.ReadFile(filepath.Join(dir, e.Name())); err == nil {
				out[e.Name()] = b
			}
		}
	}
	return out
}

func hasAll(b []byte, pats [][]byte) bool {
	for _, p := range pats {
		if !bytes.Contains(b, p) {
			return false
		}
	}
	return true
}

// hlsState returns the number of times lal made the stream's HLS directory and the contents of its segment files
// (every generation that ever existed).
func (w *world) hlsState(name string) (mkdirs int, segs [][]byte) {
	dir := filepath.Join(w.s.Dir, "hls", name)
	w.layer.With(func(s *hlsfs.State) {
		for _, op := range s.Ops() {
			if op.Kind == hlsfs.OpMkdir && filepath.Clean(op.Path) == dir && op.Err == "" {
				mkdirs++
			}
		}
		for _, f := range s.Files() {
			if strings.HasPrefix(f.Path, dir+string(filepath.Separator)) && strings.HasSuffix(f.Path, ".ts") {
				segs = append(segs, append([]byte(nil), f.Data...))
			}
		}
	})
	return
}

// outputsMissing describes what of the accepted input's markers is not in the enabled file output ("" = all there).
func (w *world) outputsMissing(st *streamModel) string {
	in := st.in
	switch w.c.Out {
	case "flv":
		files := w.flvFiles(st.name)
		for _, b := range files {
			if hasAll(b, in.sent) {
				return ""
			}
		}
		var where []string
		for n, b := range files {
			k := 0
			for _, p := range in.sent {
				if bytes.Contains(b, p) {
					k++
				}
			}
			where = append(where, n+": "+strconv.Itoa(k)+" of "+strconv.Itoa(len(in.sent)))
		}
		sort.Strings(where)
		return "no FLV recording of " + st.name + " holds all " + strconv.Itoa(len(in.sent)) + " markers (" + strings.Join(where, "; ") + ")"
	case "hls":
		if !in.av {
			return ""
		}
		_, segs := w.hlsState(st.name)
		for i, p := range in.sent {
			found := false
			for _, b := range segs {
				if bytes.Contains(b, p) {
					found = true
					break
				}
			}
			if !found {
				return "marker " + strconv.Itoa(i+1) + " of " + strconv.Itoa(len(in.sent)) + " is in no HLS segment of " + st.name
			}
		}
	}
	return ""
}

// outputsHave: the markers of the accepted input are in the enabled file output.  Inputs that reach lal through a
// goroutine of lal's own (relay pull, GB28181 socket) are written asynchronously: the newest marker is waited for
// (and a GB28181 frame, which travels by UDP, repeated).
func (w *world) outputsHave(ai int, a Action, st *streamModel, resend func()) *pbt.Violation {
	in := st.in
	tries, slice := 1, lalclient.DeliverTimeout
	if resend != nil {
		tries, slice = 10, slice/10
	}
	miss := ""
	for try := 0; try < tries; try++ {
		if waitUntil(slice, func() bool { miss = w.outputsMissing(st); return miss == "" }) {
			return nil
		}
		if resend != nil {
			resend()
		}
	}
	sig := "A2/recording-disturbed"
	if w.c.Out == "hls" {
		sig = "A2/hls-disturbed"
	}
	return pbt.V(sig, "after %s: of what the accepted input %s (%s) has sent since it was accepted, %s", w.who(ai, a), in.id, in.kind, miss)
}

// outputsClean: the muxer count (also while no input sends anything) and nothing from refused inputs in the files.
func (w *world) outputsClean(ai int, a Action, st *streamModel) *pbt.Violation {
	switch w.c.Out {
	case "flv":
		for n, b := range w.flvFiles(st.name) {
			if bytes.Contains(b, badPattern) {
				return pbt.V("A2/refused-input-recorded", "after %s: media sent by a refused publisher or on the handle of an input that is no longer accepted is in recording %s", w.who(ai, a), n)
			}
		}
	case "hls":
		mk, segs := w.hlsState(st.name)
		if mk != st.accepted {
			return pbt.V("A2/hls-muxer-restarted", "after %s: %d inputs have been accepted for %s so far, but the HLS muxer of the stream was started %d times", w.who(ai, a), st.accepted, st.name, mk)
		}
		for _, b := range segs {
			if bytes.Contains(b, badPattern) {
				return pbt.V("A2/refused-input-recorded", "after %s: media sent by a refused publisher or on the handle of an input that is no longer accepted is in an HLS segment of %s", w.who(ai, a), st.name)
			}
		}
	}
	return nil
}
