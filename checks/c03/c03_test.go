// C03 — a stream has one input; foreign arrivals and departures never disturb it.
//
// Model-based check: a generated history of actions (publishers of five kinds arriving — RTMP, RTSP, customize,
// GB28181 through start_rtp_pub, relay pulls whose completion the harness orders through a stub origin —,
// subscribers of four kinds joining / leaving / being refused, kicks with live / stale / foreign ids, inputs
// leaving, ticks) is applied to a real in-process lal server and to a reference model {accepted input, pull in
// flight, attached subscribers}.  After every action: (A1) the admission result equals the model's, (A2) a marker
// sent by the accepted input reaches every attached subscriber and the enabled per-stream outputs (FLV recording,
// HLS), and media sent by a refused input or on the old handle of an input that is no longer accepted reaches
// no one, (A4) the stat API lists exactly the model's sessions.  At the end (A3) the notification sequence pairs
// start/stop exactly once per accepted network session and has nothing for refused publishers or subscribers.
//
// Files: media_test.go (what the inputs send), sinks_test.go (subscriber kinds), outputs_test.go (file outputs),
// sweep_test.go (ticks with lal's liveness sweep: a session idle over two consecutive sweeps goes, nobody else).
// A relay pull that is still connecting is part of the model (second start refused, stop = never attaches, its id
// is a foreign id for kick).
//
// Not asserted: relative order of notifications of different sessions, HasInSession/HasOutSession flags,
// notifications for customize inputs; whether GB28181 inputs produce pub notifications at all (lal never had
// them: none or one matching pair is accepted); delivery to HTTP-TS and RTSP subscribers that joined under an
// earlier input (their PAT/PMT / SDP describe that input) or while the accepted input sends codec-less "plain"
// probes; content and completeness of the file outputs after their input has left (C16); anything about the UDP
// port of a GB28181 input after its session has ended (the port goes back to a machine-wide range that other lal
// instances allocate from: the harness never writes to it again).
package c03

import (
	"fmt"
	"net"
	"path/filepath"
	"sort"
	"strings"
	"testing"
	"time"

	"github.com/q191201771/lal/pkg/base"
	"github.com/q191201771/lal/pkg/logic"
	"pgregory.net/rapid"

	"verif/drv/pbt"
	"verif/gen"
	"verif/harness/hlsfs"
	"verif/harness/inproc"
	"verif/harness/lalclient"
	"verif/harness/memconn"
	"verif/harness/stub"
	"verif/ref/rtpref"
	"verif/ref/rtspref"
)

type Action struct {
	Kind string `json:"kind"`
	// pub-rtmp pub-rtsp pub-customize pub-rtp input-leave sub sub-leave sub-rejoin kick pull-start pull-proceed pull-stop refused-sends tick
	Name int    `json:"name"`          // stream index
	Sel  int    `json:"sel,omitempty"` // selector (subscriber / kick target / pull outcome / rtp pub timeout)
	Sub  string `json:"sub,omitempty"` // rtmp | flv | ts | rtsp | wsflv | wsts (WebSocket variants of the HTTP ones)
	Av   bool   `json:"av,omitempty"`  // pub-rtmp, pub-customize, pull-start: the input sends a real H.264 + AAC stream
	Bad  bool   `json:"bad,omitempty"` // sub: presents a wrong secret (cases with auth only) and must be refused
}

type Case struct {
	Names   int      `json:"names"`
	Out     string   `json:"out,omitempty"`  // per-stream file output enabled in lal's configuration: "" | flv | hls
	Auth    bool     `json:"auth,omitempty"` // simple auth for subscribers of all protocols
	Actions []Action `json:"actions"`
}

func genCase(t *rapid.T) Case {
	var c Case
	c.Names = rapid.SampledFrom([]int{1, 1, 2}).Draw(t, "names")
	c.Out = rapid.SampledFrom([]string{"", "flv", "hls", ""}).Draw(t, "out")
	c.Auth = rapid.IntRange(0, 1).Draw(t, "auth") == 1
	n := rapid.IntRange(2, 14).Draw(t, "nactions")
	kinds := []string{"pub-rtmp", "pub-rtmp", "pub-rtmp", "pub-rtsp", "pub-rtp", "pub-customize", "input-leave", "input-leave", "sub", "sub", "sub", "sub-leave", "sub-rejoin", "kick", "kick",
		"pull-start", "pull-start", "pull-proceed", "pull-proceed", "pull-stop", "refused-sends", "refused-sends", "tick", "tick", "tick", "pub-rtp"}
	for i := 0; i < n; i++ {
		a := Action{Kind: rapid.SampledFrom(kinds).Draw(t, "kind"), Name: rapid.IntRange(0, c.Names-1).Draw(t, "name"), Sel: rapid.IntRange(0, 7).Draw(t, "sel")}
		if i == 0 && rapid.IntRange(0, 4).Draw(t, "pullFirst") == 1 {
			// most pulls are started on a stream that already has an input (and refused): start a share of the
			// histories with one
			a.Kind = "pull-start"
		}
		if i > 0 && c.Actions[i-1].Kind == "pull-start" {
			switch rapid.IntRange(0, 7).Draw(t, "afterPullStart") {
			case 6:
				// ... and a publisher that takes the stream while the pull is connecting
				a = Action{Kind: "pub-rtmp", Name: c.Actions[i-1].Name, Sel: a.Sel, Av: a.Sel%2 == 0}
			case 1, 2:
				// a relay pull as the accepted input needs "origin answers play" before anything else takes the
				// stream and before lal's pull timeout: too rare by chance
				a = Action{Kind: "pull-proceed", Name: c.Actions[i-1].Name, Sel: 1}
			case 3:
				// ... and so is a tick while the pull is connecting, followed by the origin's answer
				a = Action{Kind: "tick", Name: c.Actions[i-1].Name, Sel: a.Sel}
			case 4:
				// ... and a stop or a second start while it is connecting
				a = Action{Kind: "pull-stop", Name: c.Actions[i-1].Name}
			case 5:
				a = Action{Kind: "pull-start", Name: c.Actions[i-1].Name, Sel: a.Sel, Av: a.Sel%2 == 0}
			}
		}
		if i > 1 && c.Actions[i-2].Kind == "pull-start" && (c.Actions[i-1].Kind == "pull-stop" || c.Actions[i-1].Kind == "pull-start") && c.Actions[i-1].Name == c.Actions[i-2].Name {
			switch rapid.IntRange(0, 3).Draw(t, "afterStopWhileConnecting") {
			case 1:
				a = Action{Kind: "pull-start", Name: c.Actions[i-1].Name, Sel: a.Sel}
			case 2, 3:
				a = Action{Kind: "pull-proceed", Name: c.Actions[i-1].Name, Sel: 1 + a.Sel%2}
			}
		}
		if i > 1 && c.Actions[i-2].Kind == "pull-start" && (c.Actions[i-1].Kind == "tick" || c.Actions[i-1].Kind == "pub-rtmp") && c.Actions[i-1].Name == c.Actions[i-2].Name && rapid.IntRange(0, 2).Draw(t, "afterTick") != 1 {
			a = Action{Kind: "pull-proceed", Name: c.Actions[i-2].Name, Sel: 1 + a.Sel%2}
		}
		if i > 1 && c.Actions[i-2].Kind == "pull-start" && c.Actions[i-1].Kind == "pull-proceed" && rapid.IntRange(0, 1).Draw(t, "subUnderPull") == 1 {
			// a relay pull that has just attached rarely meets a subscriber by chance
			a = Action{Kind: "sub", Name: c.Actions[i-1].Name, Sel: a.Sel}
		}
		if i > 0 && c.Actions[i-1].Kind == "tick" && a.Kind != "pull-proceed" && rapid.IntRange(0, 1).Draw(t, "tickAgain") == 1 {
			// lal's liveness rule needs two sweeps over the same sessions: a lone tick decides nothing
			a = Action{Kind: "tick", Name: a.Name, Sel: 1 + a.Sel%2 + 3*(a.Sel%2)}
		}
		switch a.Kind {
		case "kick":
			a.Sel = rapid.IntRange(0, 31).Draw(t, "kickSel") // category (input / subscriber / look-alike / malformed) and member
		case "sub":
			a.Sub = rapid.SampledFrom([]string{"rtmp", "flv", "ts", "rtsp", "wsflv", "rtmp", "flv", "ts", "rtsp", "wsts"}).Draw(t, "subKind")
			if c.Auth {
				a.Bad = rapid.IntRange(0, 2).Draw(t, "bad") == 1
			}
		case "pub-rtmp", "pub-customize", "pull-start":
			a.Av = rapid.IntRange(0, 2).Draw(t, "av") != 1
		}
		c.Actions = append(c.Actions, a)
	}
	return c
}

// ---- model ----------------------------------------------------------------

type input struct {
	kind   string // rtmp | rtsp | customize | pull | ps
	id     string // lal session id ("" for customize)
	pub    *lalclient.Publisher
	rtsp   *memconn.Conn
	custom logic.ICustomizePubSessionContext
	pullC  *stub.Conn

	av        bool // sends a real H.264 + AAC stream (always for rtsp and ps), see media_test.go
	primed    bool // sequence headers / first frames sent and seen by lal
	rtspC     *rtspref.Client
	vseq      rtpref.Sequencer
	aseq      rtpref.Sequencer
	port      int // ps: the udp port lal listens on
	udp       net.Conn
	psStarted bool
	sent      [][]byte // markers sent since the input was accepted (judged at the file outputs)
	live      liveness
}

type subscriber struct {
	kind  string
	k     sink
	id    string
	epoch int // streamModel.epoch at the time of joining
	live  liveness
}

// lal only notices a failed pull attempt when its pull timeout expires, so the timeout bounds the cost of the
// "origin refuses" outcome.  If the harness itself is slower than that (loaded machine) the pull dies before
// the scripted answer: such a case is abandoned (counted), never reported.
const pullTimeoutMs = 600

type pendingPull struct {
	started time.Time
	outcome int // 0 refuse(close before play answer) 1 play-start-then-stream 2 play-start-then-close
	conn    *stub.Conn
	id      string // pull session id returned by the API
	av      bool
	enabled bool // relay pull still switched on (a stop_relay_pull while connecting switches it off, a start on again)
}

type streamModel struct {
	name     string
	in       *input
	subs     []*subscriber
	pull     *pendingPull // in flight (the origin has not answered play yet)
	staleIDs []string     // ids of departed / refused sessions (kick targets)
	refused  []*lalclient.Publisher
	old      []*input // handles of inputs that are no longer accepted (kicked, departed) and can still be written to
	epoch    int      // number of inputs that have left so far
	accepted int      // number of inputs accepted so far
}

type world struct {
	c       Case
	s       *inproc.Server
	origin  *stub.RtmpStub
	layer   *hlsfs.Layer
	streams []*streamModel
	marker  uint32
	clock   uint32 // media clock of the av probes (ms)
	sweeps  int    // liveness sweeps so far (tick numbers: multiples of base.LogicCheckSessionAliveIntervalSec)
	quiet   bool   // the action was a tick: the invariant sends no probe behind it
	// expected notification multiset
	accPubs  map[string]bool // session id -> accepted network publisher
	accSubs  map[string]bool
	psPubs   map[string]bool // session ids of accepted GB28181 inputs
	pullAtt  map[string]bool // pull session id -> attached?
	pullIDs  []string
	refusedN int
}

func (w *world) nextMarker() []byte {
	w.marker++
	return []byte{0xAF, 1, 0xC0, 0x03, byte(w.marker >> 16), byte(w.marker >> 8), byte(w.marker), 0x55}
}

func statOf(w *world, st *streamModel) *base.StatGroup { return w.s.SM.StatGroup(st.name) }

func run(c Case) *pbt.Violation {
	origin, err := stub.NewRtmpStub()
	if err != nil {
		lalclient.Harness("stub listen: %v", err)
	}
	defer origin.Close()
	cfg := inproc.Config{RtmpGopNum: 1, FlvGopNum: 1, RecordFlv: c.Out == "flv", Hls: c.Out == "hls", HlsFragmentMs: 60000}
	if c.Auth {
		cfg.SimpleAuth = logic.SimpleAuthConfig{Key: "c03key", DangerousLalSecret: goodSecret, SubRtmpEnable: true, SubHttpflvEnable: true, SubHttptsEnable: true, SubRtspEnable: true}
	}
	s := inproc.New(cfg)
	defer s.Close()
	w := &world{c: c, s: s, origin: origin, clock: 1000, accPubs: map[string]bool{}, accSubs: map[string]bool{}, psPubs: map[string]bool{}, pullAtt: map[string]bool{}}
	if c.Out == "hls" {
		w.layer = hlsfs.New(filepath.Join(s.Dir, "hls"), nil, nil)
		restore := hlsfs.Install(w.layer)
		defer restore()
	}
	for i := 0; i < c.Names; i++ {
		w.streams = append(w.streams, &streamModel{name: fmt.Sprintf("c03s%d", i)})
	}
	defer w.closeHandles()
	for ai, a := range c.Actions {
		st := w.streams[a.Name%len(w.streams)]
		w.quiet = false
		if v := w.apply(ai, a, st); v != nil {
			return v
		}
		if v := s.PanicViolation(); v != nil {
			return v
		}
		if v := w.invariant(ai, a); v != nil {
			return v
		}
	}
	return w.finish()
}

func (w *world) closeHandles() {
	for _, st := range w.streams {
		ins := append([]*input(nil), st.old...)
		if st.in != nil {
			ins = append(ins, st.in)
		}
		for _, in := range ins {
			if in.udp != nil {
				_ = in.udp.Close()
			}
		}
	}
}

func (w *world) who(ai int, a Action) string { return fmt.Sprintf("action %d %+v", ai, a) }

func (w *world) query(bad bool) string {
	if !w.c.Auth {
		return ""
	}
	if bad {
		return "?lal_secret=" + badSecret
	}
	return "?lal_secret=" + goodSecret
}

// waitUntil polls a condition on lal's state that another goroutine of lal establishes.
func waitUntil(d time.Duration, f func() bool) bool {
	deadline := time.Now().Add(d)
	for {
		if f() {
			return true
		}
		if time.Now().After(deadline) {
			return false
		}
		time.Sleep(200 * time.Microsecond)
	}
}

func (w *world) accept(st *streamModel, in *input) {
	st.in = in
	st.accepted++
	pbt.Count("accepted:"+in.kind, 1)
}

func (w *world) apply(ai int, a Action, st *streamModel) *pbt.Violation {
	s := w.s
	switch a.Kind {
	case "pub-rtmp":
		p := lalclient.NewPublisher(s, "live", st.name, 0)
		if st.in == nil {
			if p.Err != nil {
				return pbt.V("A1/publisher-refused-without-input", "%s: an RTMP publisher was refused although the stream has no input (pull in flight: %v): %v", w.who(ai, a), st.pull != nil, p.Err)
			}
			sg := statOf(w, st)
			id := ""
			if sg != nil {
				id = sg.StatPub.SessionId
			}
			if id == "" {
				return pbt.V("A4/accepted-publisher-not-listed", "%s: accepted RTMP publisher is not listed by the stat API", w.who(ai, a))
			}
			w.accept(st, &input{kind: "rtmp", id: id, pub: p, av: a.Av})
			w.accPubs[id] = true
		} else {
			// must be refused: the client is disconnected
			if p.Err == nil {
				// the publish status was written before admission; the disconnect follows
				if !p.Conn.WaitPeerDone(lalclient.DeliverTimeout) {
					return pbt.V("A1/second-publisher-accepted", "%s: a second RTMP publisher was not disconnected while input %s (%s) is accepted", w.who(ai, a), st.in.id, st.in.kind)
				}
			}
			w.refusedN++
			st.refused = append(st.refused, p)
		}
	case "pub-rtsp":
		conn := s.RtspConn()
		_ = conn.SetReadDeadline(time.Now().Add(lalclient.DeliverTimeout))
		rc := rtspref.NewClient(conn)
		_, perr := rc.Publish("rtsp://127.0.0.1:5544/live/"+st.name, rtspTracks())
		_ = conn.SetReadDeadline(time.Time{})
		if st.in == nil {
			if perr != nil {
				return pbt.V("A1/publisher-refused-without-input", "%s: an RTSP publisher was refused although the stream has no input: %v", w.who(ai, a), perr)
			}
			conn.WaitPeerIdle(lalclient.IdleTimeout)
			sg := statOf(w, st)
			id := ""
			if sg != nil {
				id = sg.StatPub.SessionId
			}
			if id == "" {
				return pbt.V("A4/accepted-publisher-not-listed", "%s: accepted RTSP publisher is not listed by the stat API", w.who(ai, a))
			}
			in := &input{kind: "rtsp", id: id, rtsp: conn, rtspC: rc, av: true}
			in.vseq = rtpref.Sequencer{PT: rtspVideoPT, SSRC: 0x03030000 + uint32(ai), Seq: uint16(65531 + ai)}
			in.aseq = rtpref.Sequencer{PT: rtspAudioPT, SSRC: 0x03038000 + uint32(ai), Seq: uint16(100 * ai)}
			w.accept(st, in)
			w.accPubs[id] = true
		} else {
			if perr == nil {
				return pbt.V("A1/second-publisher-accepted", "%s: a second (RTSP) publisher completed ANNOUNCE/SETUP/RECORD while input %s (%s) is accepted", w.who(ai, a), st.in.id, st.in.kind)
			}
			// what a refused publisher sends all the same must go nowhere
			_ = rc.WriteFrame(0, (&rtpref.Packet{PT: rtspVideoPT, Seq: 1, TS: 90, SSRC: 0xBAD0, Marker: true, Payload: idrNal(badPattern)}).Marshal())
			_ = conn.Close()
			conn.WaitPeerDone(lalclient.IdleTimeout)
			w.refusedN++
		}
	case "pub-customize":
		var ctx logic.ICustomizePubSessionContext
		var cerr error
		s.Call("AddCustomizePubSession", func() { ctx, cerr = s.SM.AddCustomizePubSession(st.name) })
		if st.in == nil {
			if cerr != nil {
				return pbt.V("A1/publisher-refused-without-input", "%s: AddCustomizePubSession failed although the stream has no input: %v", w.who(ai, a), cerr)
			}
			w.accept(st, &input{kind: "customize", custom: ctx, av: a.Av})
		} else if cerr == nil {
			return pbt.V("A1/second-publisher-accepted", "%s: AddCustomizePubSession succeeded while input %s (%s) is accepted", w.who(ai, a), st.in.id, st.in.kind)
		}
	case "pub-rtp":
		// GB28181: start_rtp_pub.  UDP is the only variant lal can tear down again (a TCP rtp pub never closes its
		// listener); with tick number 1 a timeout never expires, whatever its value
		req := base.ApiCtrlStartRtpPubReq{StreamName: st.name, Port: 0, TimeoutMs: []int{0, 60000}[a.Sel%2]}
		var resp base.ApiCtrlStartRtpPubResp
		s.Call("CtrlStartRtpPub", func() { resp = s.SM.CtrlStartRtpPub(req) })
		if st.in != nil {
			if resp.ErrorCode == base.ErrorCodeSucc {
				return pbt.V("A1/rtp-pub-started-with-input", "%s: start_rtp_pub answered success (session %s, port %d) while input %s (%s) is accepted", w.who(ai, a), resp.Data.SessionId, resp.Data.Port, st.in.id, st.in.kind)
			}
			w.refusedN++
			return nil
		}
		if resp.ErrorCode == base.ErrorCodeListenUdpPortFail {
			// lal had accepted the input (and started its outputs) before it found no port
			pbt.Count("rtp-pub-no-free-udp-port", 1)
			st.accepted++
			return nil
		}
		if resp.ErrorCode != base.ErrorCodeSucc {
			return pbt.V("A1/publisher-refused-without-input", "%s: start_rtp_pub failed although the stream has no input (pull in flight: %v): %d %s", w.who(ai, a), st.pull != nil, resp.ErrorCode, resp.Desp)
		}
		if resp.Data.SessionId == "" || resp.Data.Port <= 0 || resp.Data.StreamName != st.name {
			return pbt.V("rtp-pub/wrong-answer", "%s: start_rtp_pub answered success with session %q port %d stream %q", w.who(ai, a), resp.Data.SessionId, resp.Data.Port, resp.Data.StreamName)
		}
		in := &input{kind: "ps", id: resp.Data.SessionId, port: resp.Data.Port, av: true}
		in.vseq = rtpref.Sequencer{PT: 96, SSRC: 0x03050000 + uint32(ai), Seq: uint16(65533 + ai)}
		w.accept(st, in)
		w.psPubs[in.id] = true
	case "input-leave":
		if st.in == nil {
			return nil
		}
		return w.inputLeaves(ai, a, st)
	case "sub":
		k := join(s, a.Sub, st.name, w.query(a.Bad))
		if a.Bad && w.c.Auth {
			// must be refused: disconnected, never listed, no notification (A3, A4)
			if !k.waitEnded(lalclient.DeliverTimeout) {
				return pbt.V("sub/bad-secret-not-refused", "%s: a %s subscriber presenting a wrong secret was not disconnected", w.who(ai, a), a.Sub)
			}
			k.close()
			k.conn().WaitPeerDone(lalclient.IdleTimeout)
			w.refusedN++
			return nil
		}
		if m, ok := k.(msgSink); ok && m.c.JoinErr() != nil {
			return pbt.V("sub-refused", "%s: subscriber refused: %v", w.who(ai, a), m.c.JoinErr())
		}
		if k.ended() {
			return pbt.V("sub-refused", "%s: the %s subscriber was disconnected at once", w.who(ai, a), a.Sub)
		}
		// learn its id: the one id in stat that the model does not know yet
		sg := statOf(w, st)
		known := map[string]bool{}
		for _, x := range st.subs {
			known[x.id] = true
		}
		id := ""
		if sg != nil {
			for _, ss := range sg.StatSubs {
				if !known[ss.SessionId] {
					id = ss.SessionId
				}
			}
		}
		if id == "" {
			return pbt.V("A4/attached-subscriber-not-listed", "%s: the new subscriber is not listed by the stat API", w.who(ai, a))
		}
		st.subs = append(st.subs, &subscriber{kind: a.Sub, k: k, id: id, epoch: st.epoch})
		w.accSubs[id] = true
	case "sub-leave", "sub-rejoin":
		if len(st.subs) == 0 {
			return nil
		}
		i := a.Sel % len(st.subs)
		sb := st.subs[i]
		sb.k.close()
		sb.k.conn().WaitPeerDone(lalclient.IdleTimeout)
		st.subs = append(st.subs[:i], st.subs[i+1:]...)
		st.staleIDs = append(st.staleIDs, sb.id)
		if a.Kind == "sub-rejoin" {
			// a client that reconnects: a new subscriber of the same kind right behind the departure
			return w.apply(ai, Action{Kind: "sub", Name: a.Name, Sel: a.Sel, Sub: sb.kind}, st)
		}
	case "kick":
		// candidates by category (a.Sel%4 picks the category, a.Sel/4 the member; an empty category passes on to the
		// next): the accepted input | the attached subscribers | ids that look real but are not attached to this
		// stream (same kind and length as an attached one with another number, ids of departed sessions, the id of
		// a pull that is still connecting, sessions of the other stream) | malformed and far-away ids
		var cats [4][]string
		attached := map[string]bool{}
		if st.in != nil && st.in.id != "" {
			cats[0] = append(cats[0], st.in.id)
			attached[st.in.id] = true
		}
		for _, sb := range st.subs {
			cats[1] = append(cats[1], sb.id)
			attached[sb.id] = true
		}
		var sibs []string
		for id := range attached {
			if sib := siblingID(id); sib != "" && !attached[sib] {
				sibs = append(sibs, sib)
			}
		}
		sort.Strings(sibs) // map order must not reach the history
		cats[2] = append(cats[2], sibs...)
		for k := len(st.staleIDs) - 1; k >= 0; k-- {
			cats[2] = append(cats[2], st.staleIDs[k])
		}
		if st.pull != nil {
			// a pull that is still connecting is not attached: its id is a foreign id (and the kick changes nothing)
			cats[2] = append(cats[2], st.pull.id)
		}
		for _, o := range w.streams {
			if o != st {
				if o.in != nil && o.in.id != "" {
					cats[2] = append(cats[2], o.in.id)
				}
				for _, sb := range o.subs {
					cats[2] = append(cats[2], sb.id)
				}
			}
		}
		cats[3] = []string{"RTMPPUBSUB99999", "FLVSUB99999", "nonsense", "PSPUB99999"}
		cat := a.Sel % 4
		for len(cats[cat]) == 0 {
			cat = (cat + 1) % 4
		}
		id := cats[cat][(a.Sel/4)%len(cats[cat])]
		var resp base.ApiCtrlKickSessionResp
		s.Call("CtrlKickSession", func() { resp = s.SM.CtrlKickSession(base.ApiCtrlKickSessionReq{StreamName: st.name, SessionId: id}) })
		// is the id attached to THIS stream?
		switch {
		case st.in != nil && st.in.id == id:
			if resp.ErrorCode != base.ErrorCodeSucc {
				return pbt.V("kick/attached-session-not-found", "%s: kick of the accepted input %s answered %d %s", w.who(ai, a), id, resp.ErrorCode, resp.Desp)
			}
			// the input is disconnected by the server
			return w.inputKicked(ai, a, st)
		default:
			hit := -1
			for i, sb := range st.subs {
				if sb.id == id {
					hit = i
				}
			}
			if hit >= 0 {
				if resp.ErrorCode != base.ErrorCodeSucc {
					return pbt.V("kick/attached-session-not-found", "%s: kick of attached subscriber %s answered %d %s", w.who(ai, a), id, resp.ErrorCode, resp.Desp)
				}
				sb := st.subs[hit]
				if !sb.k.waitEnded(lalclient.DeliverTimeout) {
					return pbt.V("kick/not-disconnected", "%s: kicked subscriber %s still connected", w.who(ai, a), id)
				}
				sb.k.conn().WaitPeerDone(lalclient.IdleTimeout)
				st.subs = append(st.subs[:hit], st.subs[hit+1:]...)
				st.staleIDs = append(st.staleIDs, id)
			} else if resp.ErrorCode == base.ErrorCodeSucc {
				return pbt.V("kick/foreign-id-accepted", "%s: kick of id %s, which is not attached to stream %s, answered success", w.who(ai, a), id, st.name)
			}
		}
	case "pull-start":
		before := w.origin.Attempts()
		var resp base.ApiCtrlStartRelayPullResp
		s.Call("CtrlStartRelayPull", func() {
			resp = s.SM.CtrlStartRelayPull(base.ApiCtrlStartRelayPullReq{Url: "rtmp://" + w.origin.Addr + "/live/" + st.name, StreamName: st.name,
				PullTimeoutMs: pullTimeoutMs, PullRetryNum: 0, AutoStopPullAfterNoOutMs: -1})
		})
		if st.pull != nil {
			// an attempt is in flight: at most one pull per stream.  The call reports failure, the origin sees no
			// second connection, and relay pull is (again) switched on for the attempt that is connecting
			pbt.Count("pull-start-while-connecting", 1)
			if resp.ErrorCode == base.ErrorCodeSucc {
				return pbt.V("A1/second-pull-started-while-connecting", "%s: start_relay_pull answered success (session %s) while attempt %s is still connecting", w.who(ai, a), resp.Data.SessionId, st.pull.id)
			}
			time.Sleep(2 * time.Millisecond)
			if w.origin.Attempts() != before {
				return pbt.V("A1/second-pull-started-while-connecting", "%s: the origin saw a second connection while attempt %s is still connecting", w.who(ai, a), st.pull.id)
			}
			st.pull.enabled = true
			if st.in != nil && st.in.kind != "pull" {
				w.disablePull(st) // as below: the pull must not come back behind the model once the publisher is gone
				st.pull.enabled = false
			}
			return nil
		}
		if st.in != nil {
			if resp.ErrorCode == base.ErrorCodeSucc {
				return pbt.V("A1/pull-started-with-input", "%s: start_relay_pull answered success while input %s (%s) is accepted", w.who(ai, a), st.in.id, st.in.kind)
			}
			// no connection attempt may be made
			time.Sleep(2 * time.Millisecond)
			if w.origin.Attempts() != before {
				return pbt.V("A1/pull-attempt-with-input", "%s: the origin saw a connection attempt although the stream already has an input", w.who(ai, a))
			}
			if st.in.kind != "pull" {
				// the refused start still leaves the pull configured: lal would try it on a later tick or subscriber
				// arrival once the input is gone, behind the model's back (retry rules are C17's subject)
				w.disablePull(st)
			}
			return nil
		}
		if resp.ErrorCode != base.ErrorCodeSucc {
			return pbt.V("A1/pull-refused-without-input", "%s: start_relay_pull failed although the stream has neither input nor pull: %d %s", w.who(ai, a), resp.ErrorCode, resp.Desp)
		}
		oc := w.origin.Accept(lalclient.DeliverTimeout)
		if oc == nil {
			return pbt.V("pull/no-attempt", "%s: start_relay_pull answered success but the origin saw no connection within 10 s", w.who(ai, a))
		}
		if err := oc.Handshake(); err != nil {
			lalclient.Harness("stub handshake: %v", err)
		}
		if err := oc.ServeUntilPlayOrPublish(); err != nil {
			lalclient.Harness("stub serve: %v", err)
		}
		st.pull = &pendingPull{outcome: a.Sel % 3, conn: oc, id: resp.Data.SessionId, started: time.Now(), av: a.Av, enabled: true}
		w.pullIDs = append(w.pullIDs, resp.Data.SessionId)
	case "pull-proceed":
		if st.pull == nil {
			return nil
		}
		pp := st.pull
		st.pull = nil
		if w.hasEvent("pull_stop", pp.id) || time.Since(pp.started) > pullTimeoutMs*time.Millisecond*2/3 {
			// lal's pull timeout fired (or is about to fire) before the scripted answer: the harness was too slow
			pp.conn.Close()
			w.waitEvent("pull_stop", pp.id, lalclient.DeliverTimeout)
			pbt.Count("pull-abandoned-harness-too-slow", 1)
			w.disablePull(st)
			return nil
		}
		switch pp.outcome {
		case 0: // the origin closes without answering play
			pp.conn.Close()
			if !w.waitEvent("pull_stop", pp.id, lalclient.DeliverTimeout) {
				return pbt.V("A3/no-pull-stop", "%s: relay pull attempt %s failed at the origin but no stop notification arrived", w.who(ai, a), pp.id)
			}
			w.disablePull(st)
		default:
			if st.in != nil || !pp.enabled {
				// this attempt must not attach: the origin answers play and sends its first (marked) media in one
				// write; none of it may be forwarded, whatever the pull session has already read
				pbt.Count("pull-refused-with-media-behind-play-answer", 1)
				if err := acceptPlayWithMedia(pp.conn); err != nil {
					lalclient.Harness("stub play answer with media: %v", err)
				}
				defer w.graceForBad(st)
			} else if err := pp.conn.AcceptPlay(); err != nil {
				lalclient.Harness("stub AcceptPlay: %v", err)
			}
			if st.in == nil && !pp.enabled {
				// relay pull was stopped while this attempt was connecting: it must not become the input
				pbt.Count("pull-stopped-while-connecting-then-answered", 1)
				waitUntil(lalclient.DeliverTimeout, func() bool { return w.hasEvent("pull_stop", pp.id) || w.hasEvent("pull_start", pp.id) })
				if w.hasEvent("pull_start", pp.id) {
					return pbt.V("A1/stopped-pull-attached", "%s: relay pull %s was stopped while connecting, yet it attached when the origin answered", w.who(ai, a), pp.id)
				}
				if !w.hasEvent("pull_stop", pp.id) {
					return pbt.V("A3/no-pull-stop", "%s: relay pull %s, stopped while connecting, produced no stop notification after the origin answered", w.who(ai, a), pp.id)
				}
				pbt.Count("old-handle-sends:pull-stopped-connecting", 1)
				sendBadRtmp(pp.conn.SendMedia)
				pp.conn.Close()
				w.disablePull(st)
			} else if st.in == nil {
				// the pull attaches
				if !w.waitEvent("pull_start", pp.id, lalclient.DeliverTimeout) {
					return pbt.V("pull/not-attached", "%s: the origin accepted play for %s but the pull never attached (no start notification)", w.who(ai, a), pp.id)
				}
				w.pullAtt[pp.id] = true
				w.accept(st, &input{kind: "pull", id: pp.id, pullC: pp.conn, av: pp.av})
				if pp.outcome == 2 {
					return w.inputLeaves(ai, a, st)
				}
			} else {
				// a publisher overtook the pull: lal must drop the pull and leave the publisher alone
				if !w.waitEvent("pull_stop", pp.id, lalclient.DeliverTimeout) {
					return pbt.V("A3/no-pull-stop", "%s: relay pull %s completed after input %s took the stream, but no stop notification arrived", w.who(ai, a), pp.id, st.in.id)
				}
				// what the origin sends to the overtaken pull must go nowhere
				pbt.Count("old-handle-sends:pull-overtaken", 1)
				sendBadRtmp(pp.conn.SendMedia)
				pp.conn.Close()
				w.disablePull(st)
			}
		}
	case "pull-stop":
		var resp base.ApiCtrlStopRelayPullResp
		s.Call("CtrlStopRelayPull", func() { resp = s.SM.CtrlStopRelayPull(st.name) })
		if st.pull != nil {
			// nothing is attached yet (so nothing to report), but relay pull is off now: the attempt in flight must
			// never attach, and ends with exactly one stop notification (judged at pull-proceed / the end)
			pbt.Count("pull-stop-while-connecting", 1)
			st.pull.enabled = false
		}
		if st.in != nil && st.in.kind == "pull" {
			if resp.ErrorCode != base.ErrorCodeSucc || resp.Data.SessionId != st.in.id {
				return pbt.V("pull-stop/wrong-answer", "%s: stop_relay_pull with attached pull %s answered %d %q", w.who(ai, a), st.in.id, resp.ErrorCode, resp.Data.SessionId)
			}
			id := st.in.id
			if !w.waitEvent("pull_stop", id, lalclient.DeliverTimeout) {
				return pbt.V("A3/no-pull-stop", "%s: stopped pull %s produced no stop notification", w.who(ai, a), id)
			}
			sendBadRtmp(st.in.pullC.SendMedia)
			st.in.pullC.Close()
			st.staleIDs = append(st.staleIDs, id)
			w.left(st)
		} else if resp.ErrorCode == base.ErrorCodeSucc {
			return pbt.V("pull-stop/success-without-pull", "%s: stop_relay_pull answered success (session %q) although no pull session is attached", w.who(ai, a), resp.Data.SessionId)
		}
	case "tick":
		// what RunLoop's one-second ticker does to the groups (inactive groups are disposed and erased, the others
		// ticked), with and without the periodic liveness sweep: see sweep_test.go
		return w.tickAction(ai, a, st)
	case "refused-sends":
		// media from a refused publisher, or sent on the old handle of an input that was kicked or has left, must
		// reach no one (checked by the invariant's negative probe)
		for _, p := range st.refused {
			p := p
			sendBadRtmp(func(typ uint8, ts uint32, payload []byte) error { return p.Send(typ, ts, payload, 0) })
		}
		for _, in := range st.old {
			w.sendBadOnOldHandle(in)
		}
		if len(st.refused)+len(st.old) > 0 {
			w.graceForBad(st)
		}
	}
	return nil
}

// graceForBad: forwarding is asynchronous (per-subscriber write queues) and a stream without input has nothing to
// synchronise on: a wrongly forwarded message is given a moment to show up.  While the stream has an input, its
// next marker, queued behind, does that.
func (w *world) graceForBad(st *streamModel) {
	if len(st.subs) == 0 {
		return
	}
	waitUntil(30*time.Millisecond, func() bool {
		for _, sb := range st.subs {
			if sb.k.has(badPattern, false) {
				return true
			}
		}
		return false
	})
}

// retire keeps the handle of an input that is no longer accepted but can still be written to, and uses it at once.
func (w *world) retire(st *streamModel, in *input) {
	st.old = append(st.old, in)
	w.sendBadOnOldHandle(in)
	w.graceForBad(st)
}

// siblingID changes the last digit of a session id ("RTSPSUB7" -> "RTSPSUB8").
func siblingID(id string) string {
	if id == "" {
		return ""
	}
	c := id[len(id)-1]
	if c < '0' || c > '9' {
		return ""
	}
	n := byte('0' + (c-'0'+1)%10)
	if len(id) >= 2 && (id[len(id)-2] < '0' || id[len(id)-2] > '9') && n == '0' {
		n = '1' // a single-digit number does not become 0
	}
	return id[:len(id)-1] + string(n)
}

// sendBadRtmp sends the media of a party that is not (or no longer) the accepted input: the opaque audio message
// and a key frame, both carrying badPattern.
func sendBadRtmp(send func(typ uint8, ts uint32, payload []byte) error) {
	_ = send(gen.TypeAudio, 1, badAudio)
	_ = send(gen.TypeVideo, 2, rtmpKeyFrame(idrNal(badPattern)))
}

func (w *world) sendBadOnOldHandle(in *input) {
	pbt.Count("old-handle-sends:"+in.kind, 1)
	switch in.kind {
	case "rtmp":
		sendBadRtmp(func(typ uint8, ts uint32, payload []byte) error { return in.pub.Send(typ, ts, payload, 0) })
	case "customize":
		sendBadRtmp(in.rtmpSend(w))
	case "rtsp":
		_ = in.rtspVideo(3, idrNal(badPattern))
	}
	// no "ps": once a GB28181 session has ended its UDP port is free for anybody on the machine (lal's port pool of
	// this or of another process): a datagram to it is not "the old handle" of anything
}

// left records that the accepted input of st is gone.
func (w *world) left(st *streamModel) {
	st.in = nil
	st.epoch++
}

func (w *world) pubGone(st *streamModel, id string) bool {
	return waitUntil(lalclient.DeliverTimeout, func() bool {
		sg := statOf(w, st)
		return sg == nil || sg.StatPub.SessionId != id
	})
}

func (w *world) inputLeaves(ai int, a Action, st *streamModel) *pbt.Violation {
	in := st.in
	switch in.kind {
	case "rtmp":
		in.pub.Close()
		in.pub.Conn.WaitPeerDone(lalclient.IdleTimeout)
	case "rtsp":
		_ = in.rtsp.Close()
		in.rtsp.WaitPeerDone(lalclient.IdleTimeout)
	case "customize":
		w.s.Call("DelCustomizePubSession", func() { w.s.SM.DelCustomizePubSession(in.custom) })
		defer w.retire(st, in)
	case "pull":
		in.pullC.Close()
		w.waitEvent("pull_stop", in.id, lalclient.DeliverTimeout)
		w.disablePull(st)
	case "ps":
		// lal offers no "stop_rtp_pub": a GB28181 input ends by kick_session (or by its timeout)
		var resp base.ApiCtrlKickSessionResp
		w.s.Call("CtrlKickSession", func() {
			resp = w.s.SM.CtrlKickSession(base.ApiCtrlKickSessionReq{StreamName: st.name, SessionId: in.id})
		})
		if resp.ErrorCode != base.ErrorCodeSucc {
			return pbt.V("kick/attached-session-not-found", "%s: kick of the accepted GB28181 input %s answered %d %s", w.who(ai, a), in.id, resp.ErrorCode, resp.Desp)
		}
		if !w.pubGone(st, in.id) {
			return pbt.V("kick/not-disconnected", "%s: the kicked GB28181 input %s is still the publisher of %s", w.who(ai, a), in.id, st.name)
		}
		if in.udp != nil {
			_ = in.udp.Close()
			in.udp = nil
		}
	}
	if in.id != "" {
		st.staleIDs = append(st.staleIDs, in.id)
	}
	w.left(st)
	return nil
}

func (w *world) inputKicked(ai int, a Action, st *streamModel) *pbt.Violation {
	in := st.in
	switch in.kind {
	case "rtmp":
		in.pub.Conn.WaitPeerDone(lalclient.IdleTimeout)
		defer w.retire(st, in)
	case "rtsp":
		in.rtsp.WaitPeerDone(lalclient.IdleTimeout)
		defer w.retire(st, in)
	case "pull":
		w.waitEvent("pull_stop", in.id, lalclient.DeliverTimeout)
		sendBadRtmp(in.pullC.SendMedia)
		in.pullC.Close()
	case "ps":
		if !w.pubGone(st, in.id) {
			return pbt.V("kick/not-disconnected", "%s: the kicked GB28181 input %s is still the publisher of %s", w.who(ai, a), in.id, st.name)
		}
		if in.udp != nil {
			_ = in.udp.Close()
			in.udp = nil
		}
	}
	st.staleIDs = append(st.staleIDs, in.id)
	w.left(st)
	return nil
}

// disablePull switches the API-started pull off again once a scripted attempt is over, so that lal does not
// start further attempts on its own (on subscriber arrival / ticks) behind the model's back; retry and
// auto-stop rules are C17's subject.
func (w *world) disablePull(st *streamModel) {
	w.s.Call("CtrlStopRelayPull", func() { w.s.SM.CtrlStopRelayPull(st.name) })
}

func (w *world) hasEvent(kind, id string) bool {
	for _, e := range w.s.Notify.Events() {
		if e.Kind == kind && e.SessionID == id {
			return true
		}
	}
	return false
}

func (w *world) waitEvent(kind, id string, d time.Duration) bool {
	return waitUntil(d, func() bool { return w.hasEvent(kind, id) })
}

// invariant: A2 (delivery probes, outputs) and A4 (stat) after every action.
func (w *world) invariant(ai int, a Action) *pbt.Violation {
	for _, st := range w.streams {
		// A4
		sg := statOf(w, st)
		var gotSubs []string
		gotPub, gotPull := "", ""
		if sg != nil {
			gotPub = sg.StatPub.SessionId
			gotPull = sg.StatPull.SessionId
			for _, ss := range sg.StatSubs {
				gotSubs = append(gotSubs, ss.SessionId)
			}
		}
		var wantSubs []string
		for _, sb := range st.subs {
			wantSubs = append(wantSubs, sb.id)
		}
		sort.Strings(gotSubs)
		sort.Strings(wantSubs)
		if strings.Join(gotSubs, ",") != strings.Join(wantSubs, ",") {
			return pbt.V("A4/stat-subs-differ", "after %s: stream %s stat lists subscribers %v, attached are %v", w.who(ai, a), st.name, gotSubs, wantSubs)
		}
		wantPub, wantPull := "", ""
		if st.in != nil {
			switch st.in.kind {
			case "rtmp", "rtsp", "ps":
				wantPub = st.in.id
			case "pull":
				wantPull = st.in.id
			}
		}
		if gotPub != wantPub {
			return pbt.V("A4/stat-pub-differs", "after %s: stream %s stat lists publisher %q, accepted input is %q", w.who(ai, a), st.name, gotPub, wantPub)
		}
		if gotPull != wantPull {
			return pbt.V("A4/stat-pull-differs", "after %s: stream %s stat lists pull session %q, attached pull is %q", w.who(ai, a), st.name, gotPull, wantPull)
		}
		// A2: positive probe
		if st.in != nil && !w.quiet {
			if v := w.probe(ai, a, st); v != nil {
				return v
			}
		}
		// A2: negative — nothing from refused publishers or old handles was forwarded
		for _, sb := range st.subs {
			if sb.k.has(badPattern, false) {
				return pbt.V("A2/refused-input-forwarded", "after %s: media sent by a refused publisher or on the handle of an input that is no longer accepted reached subscriber %s (%s) of %s", w.who(ai, a), sb.id, sb.kind, st.name)
			}
		}
		if v := w.outputsClean(ai, a, st); v != nil {
			return v
		}
	}
	return nil
}

// probe sends one marker through the accepted input of st and requires it at every attached subscriber that can
// be expected to decode this input, and at the enabled file output.
func (w *world) probe(ai int, a Action, st *streamModel) *pbt.Violation {
	in := st.in
	var judged []*subscriber
	for _, sb := range st.subs {
		switch sb.kind {
		case "rtmp", "flv", "wsflv":
			judged = append(judged, sb)
		default:
			// an HTTP-TS / RTSP subscriber is described one input (PAT/PMT, SDP): judged under the input it met
			if in.av && sb.epoch == st.epoch {
				judged = append(judged, sb)
			}
		}
	}
	fileOut := w.c.Out == "flv" || (w.c.Out == "hls" && in.av)
	if len(judged) == 0 && !fileOut {
		return nil
	}
	fail := func(err error) *pbt.Violation {
		return pbt.V("A2/accepted-input-disconnected", "after %s: the accepted %s input %s of %s can no longer send: %v", w.who(ai, a), in.kind, in.id, st.name, err)
	}
	var pat []byte
	exact := false
	if !in.av {
		mk := w.nextMarker()
		pat, exact = mk, true
		if err := in.rtmpSend(w)(gen.TypeAudio, w.marker, mk); err != nil {
			return fail(err)
		}
	} else {
		if !in.primed {
			if v := w.prime(ai, a, st); v != nil {
				return v
			}
		}
		// subscribers whose DESCRIBE was waiting for a session description are answered now; they have to
		// complete SETUP / PLAY before a probe can reach them
		var ready []*subscriber
		for _, sb := range judged {
			if r, ok := sb.k.(*rtspSink); ok {
				switch r.waitSettled(lalclient.DeliverTimeout) {
				case "describing":
					return pbt.V("A2/rtsp-subscriber-not-described", "after %s: the accepted %s input %s of %s has announced its tracks, but the DESCRIBE of RTSP subscriber %s, waiting since before, was never answered", w.who(ai, a), in.kind, in.id, st.name, sb.id)
				case "playing":
				default:
					pbt.Count("rtsp-subscriber-not-playable", 1)
					continue
				}
			}
			ready = append(ready, sb)
		}
		judged = ready
		w.marker++
		pat = videoMarker(w.marker)
		if err := w.sendAvProbe(in, pat); err != nil {
			return fail(err)
		}
	}
	in.sent = append(in.sent, pat)
	for _, sb := range judged {
		ok := false
		if in.kind == "ps" {
			// UDP: a datagram may be lost on a loaded machine; the frame is repeated
			for try := 0; try < 10 && !ok; try++ {
				if ok = sb.k.waitHas(pat, exact, lalclient.DeliverTimeout/10); !ok {
					_ = w.sendAvProbe(in, pat)
				}
			}
		} else {
			ok = sb.k.waitHas(pat, exact, lalclient.DeliverTimeout)
		}
		pbt.Count("judged-delivery:"+in.kind+map[bool]string{true: "(av)", false: "(plain)"}[in.av]+"->"+sb.kind, 1)
		if !ok {
			return pbt.V("A2/delivery-disturbed", "after %s: a marker sent by the accepted input %s (%s) of %s did not reach subscriber %s (%s)", w.who(ai, a), in.id, in.kind, st.name, sb.id, sb.kind)
		}
	}
	if fileOut {
		pbt.Count("judged-output:"+w.c.Out+"<-"+in.kind, 1)
		var resend func()
		if in.kind == "ps" {
			resend = func() { _ = w.sendAvProbe(in, pat) }
		}
		return w.outputsHave(ai, a, st, resend)
	}
	return nil
}

func (w *world) tick() uint32 {
	w.clock += 100
	return w.clock
}

// codecsKnown: lal has processed both sequence headers of the accepted input (they are recorded in the group's
// statistics inside the same call that forwards them).
func (w *world) codecsKnown(st *streamModel) bool {
	sg := statOf(w, st)
	return sg != nil && sg.VideoCodec != "" && sg.AudioCodec != ""
}

// prime makes the accepted av input announce its tracks: RTMP sequence headers, the SDP (already sent with
// ANNOUNCE, processed by lal in a goroutine of its own), the first PS packs.
func (w *world) prime(ai int, a Action, st *streamModel) *pbt.Violation {
	in := st.in
	ok := false
	switch in.kind {
	case "rtmp", "customize", "pull":
		ts := w.tick()
		snd := in.rtmpSend(w)
		if err := snd(gen.TypeVideo, ts, rtmpVideoSeqHeader()); err == nil {
			_ = snd(gen.TypeAudio, ts, rtmpAudioSeqHeader())
		}
		ok = waitUntil(lalclient.DeliverTimeout, func() bool { return w.codecsKnown(st) })
	case "rtsp":
		ok = waitUntil(lalclient.DeliverTimeout, func() bool { return w.codecsKnown(st) })
	case "ps":
		for try := 0; try < 10 && !ok; try++ {
			ts := w.tick()
			_ = in.psSend(ts, idrNal([]byte{0x51, 0x52, 0x53, 0x54}))
			_ = in.psSend(ts+40, padNal(ts))
			ok = waitUntil(lalclient.DeliverTimeout/10, func() bool { return w.codecsKnown(st) })
		}
	}
	if !ok {
		return pbt.V("A2/input-headers-not-processed", "after %s: the accepted %s input %s of %s sent its parameter sets and audio configuration, but lal's statistics never showed the codecs of the stream", w.who(ai, a), in.kind, in.id, st.name)
	}
	in.primed = true
	return nil
}

// sendAvProbe sends an AAC frame and then a key frame carrying pat (plus what the input's protocol needs to
// push the key frame through lal's reordering stages).
func (w *world) sendAvProbe(in *input, pat []byte) error {
	ts := w.tick()
	switch in.kind {
	case "rtmp", "customize", "pull":
		snd := in.rtmpSend(w)
		if err := snd(gen.TypeAudio, ts, rtmpAudioFrame(ts)); err != nil {
			return err
		}
		return snd(gen.TypeVideo, ts+5, rtmpKeyFrame(idrNal(pat)))
	case "rtsp":
		// lal interleaves the two tracks by timestamp: the key frame is released by the audio frame behind it
		if err := in.rtspAudio(ts); err != nil {
			return err
		}
		if err := in.rtspVideo(ts+5, idrNal(pat)); err != nil {
			return err
		}
		return in.rtspAudio(ts + 10)
	case "ps":
		// lal's PS parser holds the newest frame until the next one begins
		if err := in.psSend(ts, idrNal(pat)); err != nil {
			return err
		}
		return in.psSend(ts+40, padNal(ts))
	}
	return nil
}

func (w *world) finish() *pbt.Violation {
	// everything leaves
	for _, st := range w.streams {
		if st.pull != nil {
			st.pull.conn.Close()
			w.waitEvent("pull_stop", st.pull.id, lalclient.DeliverTimeout)
			w.disablePull(st)
			st.pull = nil
		}
		if st.in != nil {
			if v := w.inputLeaves(len(w.c.Actions), Action{Kind: "end"}, st); v != nil {
				return v
			}
		}
		for _, sb := range st.subs {
			sb.k.close()
			sb.k.conn().WaitPeerDone(lalclient.IdleTimeout)
		}
		for _, p := range st.refused {
			p.Close()
			p.Conn.WaitPeerDone(lalclient.IdleTimeout)
		}
		for _, in := range st.old {
			if in.kind == "rtmp" {
				in.pub.Close()
			}
		}
	}
	if v := w.s.PanicViolation(); v != nil {
		return v
	}
	// flush the single-worker notification queue with a sentinel event
	if !lalclient.FlushNotifications(w.s, "c03sentinel") {
		if v := w.s.PanicViolation(); v != nil {
			return v
		}
		lalclient.Harness("notification sentinel never arrived")
	}
	// A3
	type cnt struct{ start, stop, order int }
	pubs, subs, pulls := map[string]*cnt{}, map[string]*cnt{}, map[string]*cnt{}
	get := func(m map[string]*cnt, id string) *cnt {
		if m[id] == nil {
			m[id] = &cnt{}
		}
		return m[id]
	}
	for _, e := range w.s.Notify.Events() {
		switch e.Kind {
		case "pub_start":
			get(pubs, e.SessionID).start++
		case "pub_stop":
			c := get(pubs, e.SessionID)
			if c.start == 0 {
				c.order++
			}
			c.stop++
		case "sub_start":
			get(subs, e.SessionID).start++
		case "sub_stop":
			c := get(subs, e.SessionID)
			if c.start == 0 {
				c.order++
			}
			c.stop++
		case "pull_start":
			get(pulls, e.SessionID).start++
		case "pull_stop":
			c := get(pulls, e.SessionID)
			c.stop++
		}
	}
	for id, c := range pubs {
		if !w.accPubs[id] && !w.psPubs[id] {
			return pbt.V("A3/notification-for-refused-publisher", "notifications (start=%d stop=%d) were emitted for publisher session %s, which was never accepted", c.start, c.stop, id)
		}
		if c.start != 1 || c.stop != 1 || c.order != 0 {
			return pbt.V("A3/publisher-notifications-not-paired", "accepted publisher %s: %d start and %d stop notifications (stop before start: %v)", id, c.start, c.stop, c.order != 0)
		}
	}
	for id := range w.accPubs {
		if pubs[id] == nil {
			return pbt.V("A3/publisher-notifications-not-paired", "accepted publisher %s produced no notifications", id)
		}
	}
	for id, c := range subs {
		if !w.accSubs[id] {
			return pbt.V("A3/notification-for-refused-subscriber", "notifications (start=%d stop=%d) were emitted for subscriber session %s, which was never attached", c.start, c.stop, id)
		}
		if c.start != 1 || c.stop != 1 || c.order != 0 {
			return pbt.V("A3/subscriber-notifications-not-paired", "subscriber %s: %d start and %d stop notifications", id, c.start, c.stop)
		}
	}
	for id := range w.accSubs {
		if subs[id] == nil {
			return pbt.V("A3/subscriber-notifications-not-paired", "attached subscriber %s produced no notifications", id)
		}
	}
	for _, id := range w.pullIDs {
		c := pulls[id]
		if c == nil || c.stop != 1 {
			n := 0
			if c != nil {
				n = c.stop
			}
			return pbt.V("A3/pull-stop-count", "relay pull attempt %s produced %d stop notifications, want exactly 1", id, n)
		}
		wantStart := 0
		if w.pullAtt[id] {
			wantStart = 1
		}
		if c.start != wantStart {
			return pbt.V("A3/pull-start-count", "relay pull attempt %s (attached=%v) produced %d start notifications", id, w.pullAtt[id], c.start)
		}
	}
	return nil
}

func classify(c Case) (bool, []string) {
	var labels []string
	inputs := make([]string, c.Names) // kind of the accepted input
	pulls := make([]bool, c.Names)
	left := make([]bool, c.Names) // an input has left / been kicked (an old handle may exist)
	nt := false
	if c.Out != "" {
		labels = append(labels, "out:"+c.Out)
	}
	if c.Auth {
		labels = append(labels, "auth")
	}
	for _, a := range c.Actions {
		n := a.Name % c.Names
		labels = append(labels, "act:"+a.Kind)
		switch a.Kind {
		case "pub-rtmp", "pub-rtsp", "pub-customize", "pub-rtp":
			if inputs[n] != "" {
				labels = append(labels, "second-input-offered:"+a.Kind, "second-input:"+a.Kind+"-while-"+inputs[n])
				nt = true
			} else {
				inputs[n] = a.Kind
				if a.Av || a.Kind == "pub-rtsp" || a.Kind == "pub-rtp" {
					labels = append(labels, "av-input:"+a.Kind)
				}
			}
			if pulls[n] {
				labels = append(labels, "publisher-while-pull-in-flight")
			}
		case "input-leave":
			if inputs[n] != "" {
				left[n] = true
			}
			inputs[n] = ""
		case "sub":
			if a.Bad && c.Auth {
				labels = append(labels, "sub-refused:"+a.Sub)
			} else {
				labels = append(labels, "sub:"+a.Sub)
				if inputs[n] != "" {
					labels = append(labels, "sub:"+a.Sub+"-under-"+inputs[n])
				}
			}
		case "refused-sends":
			if left[n] {
				labels = append(labels, "old-handle-sends")
			}
		case "pull-start":
			if inputs[n] == "" {
				pulls[n] = true
			} else {
				labels = append(labels, "pull-start-with-input")
				nt = true
			}
		case "tick":
			for i := range pulls {
				if pulls[i] && inputs[i] == "" {
					labels = append(labels, "tick-while-pull-in-flight")
					nt = true
				}
			}
		case "pull-proceed":
			if pulls[n] && inputs[n] != "" {
				labels = append(labels, "pull-completes-after-publisher")
				nt = true
			}
			if pulls[n] && inputs[n] == "" && a.Sel%3 == 1 {
				inputs[n] = "pull"
			}
			pulls[n] = false
		}
	}
	return nt, uniq(labels)
}

func uniq(in []string) []string {
	seen := map[string]bool{}
	var out []string
	for _, s := range in {
		if !seen[s] {
			seen[s] = true
			out = append(out, s)
		}
	}
	return out
}

func TestOneInput(t *testing.T) {
	pbt.Run(t, pbt.Spec[Case]{
		ID: "C03", Name: "one-input", Gen: genCase, Run: run, Classify: classify,
		Quick: 200, Thorough: 2500,
	})
}
