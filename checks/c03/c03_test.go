// C03 — a stream has one input; foreign arrivals and departures never disturb it.
//
// Model-based check: a generated history of actions (publishers of three
// kinds arriving, relay pulls whose completion the harness orders through a
// stub origin, subscribers joining/leaving, kicks with live / stale / foreign
// ids, inputs leaving) is applied to a real in-process lal server and to a
// reference model {accepted input, pull in flight, attached subscribers}.
// After every action: (A1) the admission result equals the model's, (A2) a
// marker sent by the accepted input reaches every attached subscriber and a
// marker sent by a refused / departed input reaches no one, (A4) the stat API
// lists exactly the model's sessions.  At the end (A3) the notification
// sequence pairs start/stop exactly once per accepted network session.
//
// Not asserted: relative order of notifications of different sessions,
// HasInSession/HasOutSession flags, notifications for customize inputs.
package c03

import (
	"bytes"
	"fmt"
	"sort"
	"strings"
	"testing"
	"time"

	"github.com/q191201771/lal/pkg/base"
	"github.com/q191201771/lal/pkg/logic"
	"pgregory.net/rapid"

	"verif/drv/pbt"
	"verif/gen"
	"verif/harness/inproc"
	"verif/harness/lalclient"
	"verif/harness/memconn"
	"verif/harness/stub"
	"verif/ref/rtspref"
)

type Action struct {
	Kind string `json:"kind"`
	// pub-rtmp pub-rtsp pub-customize input-leave sub sub-leave kick pull-start pull-proceed pull-stop
	Name int    `json:"name"`          // stream index
	Sel  int    `json:"sel,omitempty"` // selector (subscriber / kick target / pull outcome)
	Sub  string `json:"sub,omitempty"` // rtmp | flv
}

type Case struct {
	Names   int      `json:"names"`
	Actions []Action `json:"actions"`
}

func genCase(t *rapid.T) Case {
	var c Case
	c.Names = rapid.SampledFrom([]int{1, 1, 2}).Draw(t, "names")
	n := rapid.IntRange(2, 14).Draw(t, "nactions")
	kinds := []string{"pub-rtmp", "pub-rtmp", "pub-rtmp", "pub-rtsp", "pub-customize", "input-leave", "input-leave", "sub", "sub", "sub-leave", "kick", "kick",
		"pull-start", "pull-start", "pull-proceed", "pull-proceed", "pull-stop", "refused-sends", "tick", "tick"}
	for i := 0; i < n; i++ {
		a := Action{Kind: rapid.SampledFrom(kinds).Draw(t, "kind"), Name: rapid.IntRange(0, c.Names-1).Draw(t, "name"), Sel: rapid.IntRange(0, 7).Draw(t, "sel")}
		if a.Kind == "sub" {
			a.Sub = rapid.SampledFrom([]string{"rtmp", "flv"}).Draw(t, "subKind")
		}
		c.Actions = append(c.Actions, a)
	}
	return c
}

// ---- model ----------------------------------------------------------------

type input struct {
	kind   string // rtmp | rtsp | customize | pull
	id     string // lal session id ("" for customize)
	pub    *lalclient.Publisher
	rtsp   *memconn.Conn
	custom logic.ICustomizePubSessionContext
	pullC  *stub.Conn
}

type subscriber struct {
	kind string
	c    *lalclient.Consumer
	id   string
}

// lal only notices a failed pull attempt when its pull timeout expires, so the timeout bounds the cost of the
// "origin refuses" outcome.  If the harness itself is slower than that (loaded machine) the pull dies before
// the scripted answer: such a case is abandoned (counted), never reported.
const pullTimeoutMs = 600

type pendingPull struct {
	started time.Time
	outcome int // 0 refuse(close before play answer) 1 play-start-then-stream 2 play-start-then-close
	conn    *stub.Conn
	id      string // pull session id returned by the API
}

type streamModel struct {
	name     string
	in       *input
	subs     []*subscriber
	pull     *pendingPull // in flight (the origin has not answered play yet)
	staleIDs []string     // ids of departed / refused sessions (kick targets)
	refused  []*lalclient.Publisher
}

type world struct {
	s       *inproc.Server
	origin  *stub.RtmpStub
	streams []*streamModel
	marker  uint32
	// expected notification multiset
	accPubs  map[string]bool // session id -> accepted network publisher
	accSubs  map[string]bool
	pullAtt  map[string]bool // pull session id -> attached?
	pullIDs  []string
	refusedN int
}

func (w *world) nextMarker() []byte {
	w.marker++
	return []byte{0xAF, 1, 0xC0, 0x03, byte(w.marker >> 16), byte(w.marker >> 8), byte(w.marker), 0x55}
}

func statOf(w *world, st *streamModel) *base.StatGroup { return w.s.SM.StatGroup(st.name) }

func run(c Case) *pbt.Violation {
	origin, err := stub.NewRtmpStub()
	if err != nil {
		lalclient.Harness("stub listen: %v", err)
	}
	defer origin.Close()
	s := inproc.New(inproc.Config{RtmpGopNum: 1, FlvGopNum: 1})
	defer s.Close()
	w := &world{s: s, origin: origin, accPubs: map[string]bool{}, accSubs: map[string]bool{}, pullAtt: map[string]bool{}}
	for i := 0; i < c.Names; i++ {
		w.streams = append(w.streams, &streamModel{name: fmt.Sprintf("c03s%d", i)})
	}
	for ai, a := range c.Actions {
		st := w.streams[a.Name%len(w.streams)]
		if v := w.apply(ai, a, st); v != nil {
			return v
		}
		if v := s.PanicViolation(); v != nil {
			return v
		}
		if v := w.invariant(ai, a); v != nil {
			return v
		}
	}
	return w.finish()
}

func (w *world) who(ai int, a Action) string { return fmt.Sprintf("action %d %+v", ai, a) }

func (w *world) apply(ai int, a Action, st *streamModel) *pbt.Violation {
	s := w.s
	switch a.Kind {
	case "pub-rtmp":
		p := lalclient.NewPublisher(s, "live", st.name, 0)
		if st.in == nil {
			if p.Err != nil {
				return pbt.V("A1/publisher-refused-without-input", "%s: an RTMP publisher was refused although the stream has no input (pull in flight: %v): %v", w.who(ai, a), st.pull != nil, p.Err)
			}
			sg := statOf(w, st)
			id := ""
			if sg != nil {
				id = sg.StatPub.SessionId
			}
			if id == "" {
				return pbt.V("A4/accepted-publisher-not-listed", "%s: accepted RTMP publisher is not listed by the stat API", w.who(ai, a))
			}
			st.in = &input{kind: "rtmp", id: id, pub: p}
			w.accPubs[id] = true
		} else {
			// must be refused: the client is disconnected
			if p.Err == nil {
				// the publish status was written before admission; the disconnect follows
				if !p.Conn.WaitPeerDone(lalclient.DeliverTimeout) {
					return pbt.V("A1/second-publisher-accepted", "%s: a second RTMP publisher was not disconnected while input %s (%s) is accepted", w.who(ai, a), st.in.id, st.in.kind)
				}
			}
			w.refusedN++
			st.refused = append(st.refused, p)
		}
	case "pub-rtsp":
		conn := s.RtspConn()
		_ = conn.SetReadDeadline(time.Now().Add(lalclient.DeliverTimeout))
		rc := rtspref.NewClient(conn)
		_, sps, pps := gen.ParamSets("avc", 0)
		tracks := []rtspref.Track{{Media: "video", PT: 96, Encoding: "H264", ClockRate: 90000, Fmtp: rtspref.H264Fmtp(sps, pps), Control: "streamid=0"}}
		_, perr := rc.Publish("rtsp://127.0.0.1:5544/live/"+st.name, tracks)
		_ = conn.SetReadDeadline(time.Time{})
		if st.in == nil {
			if perr != nil {
				return pbt.V("A1/publisher-refused-without-input", "%s: an RTSP publisher was refused although the stream has no input: %v", w.who(ai, a), perr)
			}
			conn.WaitPeerIdle(lalclient.IdleTimeout)
			sg := statOf(w, st)
			id := ""
			if sg != nil {
				id = sg.StatPub.SessionId
			}
			if id == "" {
				return pbt.V("A4/accepted-publisher-not-listed", "%s: accepted RTSP publisher is not listed by the stat API", w.who(ai, a))
			}
			st.in = &input{kind: "rtsp", id: id, rtsp: conn}
			w.accPubs[id] = true
		} else {
			if perr == nil {
				return pbt.V("A1/second-publisher-accepted", "%s: a second (RTSP) publisher completed ANNOUNCE/SETUP/RECORD while input %s (%s) is accepted", w.who(ai, a), st.in.id, st.in.kind)
			}
			_ = conn.Close()
			conn.WaitPeerDone(lalclient.IdleTimeout)
			w.refusedN++
		}
	case "pub-customize":
		var ctx logic.ICustomizePubSessionContext
		var cerr error
		s.Call("AddCustomizePubSession", func() { ctx, cerr = s.SM.AddCustomizePubSession(st.name) })
		if st.in == nil {
			if cerr != nil {
				return pbt.V("A1/publisher-refused-without-input", "%s: AddCustomizePubSession failed although the stream has no input: %v", w.who(ai, a), cerr)
			}
			st.in = &input{kind: "customize", custom: ctx}
		} else if cerr == nil {
			return pbt.V("A1/second-publisher-accepted", "%s: AddCustomizePubSession succeeded while input %s (%s) is accepted", w.who(ai, a), st.in.id, st.in.kind)
		}
	case "input-leave":
		if st.in == nil {
			return nil
		}
		w.inputLeaves(st)
	case "sub":
		var cc *lalclient.Consumer
		if a.Sub == "flv" {
			cc = lalclient.NewFlvSub(s, "live", st.name, false)
		} else {
			cc = lalclient.NewRtmpSub(s, "live", st.name)
		}
		if cc.JoinErr() != nil {
			return pbt.V("sub-refused", "%s: subscriber refused: %v", w.who(ai, a), cc.JoinErr())
		}
		// learn its id: the one id in stat that the model does not know yet
		sg := statOf(w, st)
		known := map[string]bool{}
		for _, x := range st.subs {
			known[x.id] = true
		}
		id := ""
		if sg != nil {
			for _, ss := range sg.StatSubs {
				if !known[ss.SessionId] {
					id = ss.SessionId
				}
			}
		}
		if id == "" {
			return pbt.V("A4/attached-subscriber-not-listed", "%s: the new subscriber is not listed by the stat API", w.who(ai, a))
		}
		st.subs = append(st.subs, &subscriber{kind: a.Sub, c: cc, id: id})
		w.accSubs[id] = true
	case "sub-leave":
		if len(st.subs) == 0 {
			return nil
		}
		i := a.Sel % len(st.subs)
		sb := st.subs[i]
		sb.c.Close()
		sb.c.Conn.WaitPeerDone(lalclient.IdleTimeout)
		st.subs = append(st.subs[:i], st.subs[i+1:]...)
		st.staleIDs = append(st.staleIDs, sb.id)
	case "kick":
		// candidates: the input, each sub, stale ids, ids of the other stream
		var ids []string
		if st.in != nil && st.in.id != "" {
			ids = append(ids, st.in.id)
		}
		for _, sb := range st.subs {
			ids = append(ids, sb.id)
		}
		ids = append(ids, st.staleIDs...)
		for _, o := range w.streams {
			if o != st {
				if o.in != nil && o.in.id != "" {
					ids = append(ids, o.in.id)
				}
				for _, sb := range o.subs {
					ids = append(ids, sb.id)
				}
			}
		}
		ids = append(ids, "RTMPPUBSUB99999", "FLVSUB99999", "nonsense")
		id := ids[a.Sel%len(ids)]
		var resp base.ApiCtrlKickSessionResp
		s.Call("CtrlKickSession", func() { resp = s.SM.CtrlKickSession(base.ApiCtrlKickSessionReq{StreamName: st.name, SessionId: id}) })
		// is the id attached to THIS stream?
		switch {
		case st.in != nil && st.in.id == id:
			if resp.ErrorCode != base.ErrorCodeSucc {
				return pbt.V("kick/attached-session-not-found", "%s: kick of the accepted input %s answered %d %s", w.who(ai, a), id, resp.ErrorCode, resp.Desp)
			}
			// the input is disconnected by the server
			w.inputKicked(st)
		default:
			hit := -1
			for i, sb := range st.subs {
				if sb.id == id {
					hit = i
				}
			}
			if hit >= 0 {
				if resp.ErrorCode != base.ErrorCodeSucc {
					return pbt.V("kick/attached-session-not-found", "%s: kick of attached subscriber %s answered %d %s", w.who(ai, a), id, resp.ErrorCode, resp.Desp)
				}
				sb := st.subs[hit]
				if !sb.c.WaitEnded(lalclient.DeliverTimeout) {
					return pbt.V("kick/not-disconnected", "%s: kicked subscriber %s still connected", w.who(ai, a), id)
				}
				sb.c.Conn.WaitPeerDone(lalclient.IdleTimeout)
				st.subs = append(st.subs[:hit], st.subs[hit+1:]...)
				st.staleIDs = append(st.staleIDs, id)
			} else if resp.ErrorCode == base.ErrorCodeSucc {
				return pbt.V("kick/foreign-id-accepted", "%s: kick of id %s, which is not attached to stream %s, answered success", w.who(ai, a), id, st.name)
			}
		}
	case "pull-start":
		if st.pull != nil {
			return nil // one scripted pull at a time per stream
		}
		before := w.origin.Attempts()
		var resp base.ApiCtrlStartRelayPullResp
		s.Call("CtrlStartRelayPull", func() {
			resp = s.SM.CtrlStartRelayPull(base.ApiCtrlStartRelayPullReq{Url: "rtmp://" + w.origin.Addr + "/live/" + st.name, StreamName: st.name,
				PullTimeoutMs: pullTimeoutMs, PullRetryNum: 0, AutoStopPullAfterNoOutMs: -1})
		})
		if st.in != nil {
			if resp.ErrorCode == base.ErrorCodeSucc {
				return pbt.V("A1/pull-started-with-input", "%s: start_relay_pull answered success while input %s (%s) is accepted", w.who(ai, a), st.in.id, st.in.kind)
			}
			// no connection attempt may be made
			time.Sleep(2 * time.Millisecond)
			if w.origin.Attempts() != before {
				return pbt.V("A1/pull-attempt-with-input", "%s: the origin saw a connection attempt although the stream already has an input", w.who(ai, a))
			}
			if st.in.kind != "pull" {
				// the refused start still leaves the pull configured: lal would try it on a later tick or subscriber
				// arrival once the input is gone, behind the model's back (retry rules are C17's subject)
				w.disablePull(st)
			}
			return nil
		}
		if resp.ErrorCode != base.ErrorCodeSucc {
			return pbt.V("A1/pull-refused-without-input", "%s: start_relay_pull failed although the stream has neither input nor pull: %d %s", w.who(ai, a), resp.ErrorCode, resp.Desp)
		}
		oc := w.origin.Accept(lalclient.DeliverTimeout)
		if oc == nil {
			return pbt.V("pull/no-attempt", "%s: start_relay_pull answered success but the origin saw no connection within 10 s", w.who(ai, a))
		}
		if err := oc.Handshake(); err != nil {
			lalclient.Harness("stub handshake: %v", err)
		}
		if err := oc.ServeUntilPlayOrPublish(); err != nil {
			lalclient.Harness("stub serve: %v", err)
		}
		st.pull = &pendingPull{outcome: a.Sel % 3, conn: oc, id: resp.Data.SessionId, started: time.Now()}
		w.pullIDs = append(w.pullIDs, resp.Data.SessionId)
	case "pull-proceed":
		if st.pull == nil {
			return nil
		}
		pp := st.pull
		st.pull = nil
		if w.hasEvent("pull_stop", pp.id) || time.Since(pp.started) > pullTimeoutMs*time.Millisecond*2/3 {
			// lal's pull timeout fired (or is about to fire) before the scripted answer: the harness was too slow
			pp.conn.Close()
			w.waitEvent("pull_stop", pp.id, lalclient.DeliverTimeout)
			pbt.Count("pull-abandoned-harness-too-slow", 1)
			w.disablePull(st)
			return nil
		}
		switch pp.outcome {
		case 0: // the origin closes without answering play
			pp.conn.Close()
			if !w.waitEvent("pull_stop", pp.id, lalclient.DeliverTimeout) {
				return pbt.V("A3/no-pull-stop", "%s: relay pull attempt %s failed at the origin but no stop notification arrived", w.who(ai, a), pp.id)
			}
			w.disablePull(st)
		default:
			if err := pp.conn.AcceptPlay(); err != nil {
				lalclient.Harness("stub AcceptPlay: %v", err)
			}
			if st.in == nil {
				// the pull attaches
				if !w.waitEvent("pull_start", pp.id, lalclient.DeliverTimeout) {
					return pbt.V("pull/not-attached", "%s: the origin accepted play for %s but the pull never attached (no start notification)", w.who(ai, a), pp.id)
				}
				w.pullAtt[pp.id] = true
				st.in = &input{kind: "pull", id: pp.id, pullC: pp.conn}
				if pp.outcome == 2 {
					w.inputLeaves(st)
				}
			} else {
				// a publisher overtook the pull: lal must drop the pull and leave the publisher alone
				if !w.waitEvent("pull_stop", pp.id, lalclient.DeliverTimeout) {
					return pbt.V("A3/no-pull-stop", "%s: relay pull %s completed after input %s took the stream, but no stop notification arrived", w.who(ai, a), pp.id, st.in.id)
				}
				pp.conn.Close()
				w.disablePull(st)
			}
		}
	case "pull-stop":
		if st.pull != nil {
			return nil // stopping a pull that is still connecting is C17's subject; not exercised here
		}
		var resp base.ApiCtrlStopRelayPullResp
		s.Call("CtrlStopRelayPull", func() { resp = s.SM.CtrlStopRelayPull(st.name) })
		if st.in != nil && st.in.kind == "pull" {
			if resp.ErrorCode != base.ErrorCodeSucc || resp.Data.SessionId != st.in.id {
				return pbt.V("pull-stop/wrong-answer", "%s: stop_relay_pull with attached pull %s answered %d %q", w.who(ai, a), st.in.id, resp.ErrorCode, resp.Data.SessionId)
			}
			id := st.in.id
			if !w.waitEvent("pull_stop", id, lalclient.DeliverTimeout) {
				return pbt.V("A3/no-pull-stop", "%s: stopped pull %s produced no stop notification", w.who(ai, a), id)
			}
			st.in.pullC.Close()
			st.staleIDs = append(st.staleIDs, id)
			st.in = nil
		} else if resp.ErrorCode == base.ErrorCodeSucc {
			return pbt.V("pull-stop/success-without-pull", "%s: stop_relay_pull answered success (session %q) although no pull session is attached", w.who(ai, a), resp.Data.SessionId)
		}
	case "tick":
		// what RunLoop's one-second ticker does to the groups (inactive groups are disposed and erased, the others
		// ticked); tick number 1 keeps the periodic liveness sweep and the statistics out of it.  Nothing in the
		// model changes: an accepted input, an attached subscriber or a pull in flight keeps its group alive, and
		// the pulls of this check are disabled again as soon as their scripted attempt is over.
		before := w.origin.Attempts()
		s.Call("ServerManager tick", func() { s.SM.VerifTick(1) })
		if st.pull == nil && w.origin.Attempts() != before {
			lalclient.Harness("a tick started a pull attempt behind the model's back")
		}
	case "refused-sends":
		// media from a refused publisher must reach no one (checked by the invariant's negative probe)
		for _, p := range st.refused {
			_ = p.Send(gen.TypeAudio, 1, []byte{0xAF, 1, 0xBA, 0xD0, 0xBA, 0xD0}, 0)
		}
	}
	return nil
}

func (w *world) inputLeaves(st *streamModel) {
	in := st.in
	switch in.kind {
	case "rtmp":
		in.pub.Close()
		in.pub.Conn.WaitPeerDone(lalclient.IdleTimeout)
	case "rtsp":
		_ = in.rtsp.Close()
		in.rtsp.WaitPeerDone(lalclient.IdleTimeout)
	case "customize":
		w.s.Call("DelCustomizePubSession", func() { w.s.SM.DelCustomizePubSession(in.custom) })
	case "pull":
		in.pullC.Close()
		w.waitEvent("pull_stop", in.id, lalclient.DeliverTimeout)
		w.disablePull(st)
	}
	if in.id != "" {
		st.staleIDs = append(st.staleIDs, in.id)
	}
	st.in = nil
}

func (w *world) inputKicked(st *streamModel) {
	in := st.in
	switch in.kind {
	case "rtmp":
		in.pub.Conn.WaitPeerDone(lalclient.IdleTimeout)
	case "rtsp":
		in.rtsp.WaitPeerDone(lalclient.IdleTimeout)
	case "pull":
		w.waitEvent("pull_stop", in.id, lalclient.DeliverTimeout)
		in.pullC.Close()
	}
	st.staleIDs = append(st.staleIDs, in.id)
	st.in = nil
}

// disablePull switches the API-started pull off again once a scripted attempt is over, so that lal does not
// start further attempts on its own (on subscriber arrival / ticks) behind the model's back; retry and
// auto-stop rules are C17's subject.
func (w *world) disablePull(st *streamModel) {
	w.s.Call("CtrlStopRelayPull", func() { w.s.SM.CtrlStopRelayPull(st.name) })
}

func (w *world) hasEvent(kind, id string) bool {
	for _, e := range w.s.Notify.Events() {
		if e.Kind == kind && e.SessionID == id {
			return true
		}
	}
	return false
}

func (w *world) waitEvent(kind, id string, d time.Duration) bool {
	deadline := time.Now().Add(d)
	for {
		for _, e := range w.s.Notify.Events() {
			if e.Kind == kind && e.SessionID == id {
				return true
			}
		}
		if time.Now().After(deadline) {
			return false
		}
		time.Sleep(200 * time.Microsecond)
	}
}

// invariant: A2 (delivery probes) and A4 (stat) after every action.
func (w *world) invariant(ai int, a Action) *pbt.Violation {
	for _, st := range w.streams {
		// A4
		sg := statOf(w, st)
		var gotSubs []string
		gotPub, gotPull := "", ""
		if sg != nil {
			gotPub = sg.StatPub.SessionId
			gotPull = sg.StatPull.SessionId
			for _, ss := range sg.StatSubs {
				gotSubs = append(gotSubs, ss.SessionId)
			}
		}
		var wantSubs []string
		for _, sb := range st.subs {
			wantSubs = append(wantSubs, sb.id)
		}
		sort.Strings(gotSubs)
		sort.Strings(wantSubs)
		if strings.Join(gotSubs, ",") != strings.Join(wantSubs, ",") {
			return pbt.V("A4/stat-subs-differ", "after %s: stream %s stat lists subscribers %v, attached are %v", w.who(ai, a), st.name, gotSubs, wantSubs)
		}
		wantPub, wantPull := "", ""
		if st.in != nil {
			switch st.in.kind {
			case "rtmp", "rtsp":
				wantPub = st.in.id
			case "pull":
				wantPull = st.in.id
			}
		}
		if gotPub != wantPub {
			return pbt.V("A4/stat-pub-differs", "after %s: stream %s stat lists publisher %q, accepted input is %q", w.who(ai, a), st.name, gotPub, wantPub)
		}
		if gotPull != wantPull {
			return pbt.V("A4/stat-pull-differs", "after %s: stream %s stat lists pull session %q, attached pull is %q", w.who(ai, a), st.name, gotPull, wantPull)
		}
		// A2: positive probe
		if st.in != nil && len(st.subs) > 0 && (st.in.kind == "rtmp" || st.in.kind == "customize" || st.in.kind == "pull") {
			mk := w.nextMarker()
			switch st.in.kind {
			case "rtmp":
				if err := st.in.pub.Send(gen.TypeAudio, w.marker, mk, 0); err != nil {
					return pbt.V("A2/accepted-input-disconnected", "after %s: the accepted RTMP input %s of %s can no longer send: %v", w.who(ai, a), st.in.id, st.name, err)
				}
			case "customize":
				var ferr error
				w.s.Call("FeedRtmpMsg", func() {
					ferr = st.in.custom.FeedRtmpMsg(base.RtmpMsg{Header: base.RtmpHeader{Csid: 4, MsgLen: uint32(len(mk)), MsgTypeId: 8, MsgStreamId: 1, TimestampAbs: w.marker}, Payload: mk})
				})
				if ferr != nil {
					return pbt.V("A2/accepted-input-disconnected", "after %s: FeedRtmpMsg on the accepted customize input failed: %v", w.who(ai, a), ferr)
				}
			case "pull":
				if err := st.in.pullC.SendMedia(8, w.marker, mk); err != nil {
					return pbt.V("A2/accepted-input-disconnected", "after %s: the origin's connection for pull %s is closed: %v", w.who(ai, a), st.in.id, err)
				}
			}
			for _, sb := range st.subs {
				if sb.c.WaitFor(func(r lalclient.Rec) bool { return bytes.Equal(r.Payload, mk) }, lalclient.DeliverTimeout) < 0 {
					return pbt.V("A2/delivery-disturbed", "after %s: a marker sent by the accepted input %s (%s) of %s did not reach subscriber %s (%s)", w.who(ai, a), st.in.id, st.in.kind, st.name, sb.id, sb.kind)
				}
			}
		}
		// A2: negative — nothing from refused publishers was forwarded
		for _, sb := range st.subs {
			for _, r := range sb.c.Recs() {
				if bytes.Equal(r.Payload, []byte{0xAF, 1, 0xBA, 0xD0, 0xBA, 0xD0}) {
					return pbt.V("A2/refused-input-forwarded", "after %s: media sent by a refused publisher reached subscriber %s of %s", w.who(ai, a), sb.id, st.name)
				}
			}
		}
	}
	return nil
}

func (w *world) finish() *pbt.Violation {
	// everything leaves
	for _, st := range w.streams {
		if st.pull != nil {
			st.pull.conn.Close()
			w.waitEvent("pull_stop", st.pull.id, lalclient.DeliverTimeout)
			w.disablePull(st)
			st.pull = nil
		}
		if st.in != nil {
			w.inputLeaves(st)
		}
		for _, sb := range st.subs {
			sb.c.Close()
			sb.c.Conn.WaitPeerDone(lalclient.IdleTimeout)
		}
		for _, p := range st.refused {
			p.Close()
			p.Conn.WaitPeerDone(lalclient.IdleTimeout)
		}
	}
	if v := w.s.PanicViolation(); v != nil {
		return v
	}
	// flush the single-worker notification queue with a sentinel event
	if !lalclient.FlushNotifications(w.s, "c03sentinel") {
		if v := w.s.PanicViolation(); v != nil {
			return v
		}
		lalclient.Harness("notification sentinel never arrived")
	}
	// A3
	type cnt struct{ start, stop, order int }
	pubs, subs, pulls := map[string]*cnt{}, map[string]*cnt{}, map[string]*cnt{}
	get := func(m map[string]*cnt, id string) *cnt {
		if m[id] == nil {
			m[id] = &cnt{}
		}
		return m[id]
	}
	for _, e := range w.s.Notify.Events() {
		switch e.Kind {
		case "pub_start":
			get(pubs, e.SessionID).start++
		case "pub_stop":
			c := get(pubs, e.SessionID)
			if c.start == 0 {
				c.order++
			}
			c.stop++
		case "sub_start":
			get(subs, e.SessionID).start++
		case "sub_stop":
			c := get(subs, e.SessionID)
			if c.start == 0 {
				c.order++
			}
			c.stop++
		case "pull_start":
			get(pulls, e.SessionID).start++
		case "pull_stop":
			c := get(pulls, e.SessionID)
			c.stop++
		}
	}
	for id, c := range pubs {
		if !w.accPubs[id] {
			return pbt.V("A3/notification-for-refused-publisher", "notifications (start=%d stop=%d) were emitted for publisher session %s, which was never accepted", c.start, c.stop, id)
		}
		if c.start != 1 || c.stop != 1 || c.order != 0 {
			return pbt.V("A3/publisher-notifications-not-paired", "accepted publisher %s: %d start and %d stop notifications (stop before start: %v)", id, c.start, c.stop, c.order != 0)
		}
	}
	for id := range w.accPubs {
		if pubs[id] == nil {
			return pbt.V("A3/publisher-notifications-not-paired", "accepted publisher %s produced no notifications", id)
		}
	}
	for id, c := range subs {
		if !w.accSubs[id] {
			return pbt.V("A3/notification-for-refused-subscriber", "notifications were emitted for subscriber session %s, which was never attached", id)
		}
		if c.start != 1 || c.stop != 1 || c.order != 0 {
			return pbt.V("A3/subscriber-notifications-not-paired", "subscriber %s: %d start and %d stop notifications", id, c.start, c.stop)
		}
	}
	for id := range w.accSubs {
		if subs[id] == nil {
			return pbt.V("A3/subscriber-notifications-not-paired", "attached subscriber %s produced no notifications", id)
		}
	}
	for _, id := range w.pullIDs {
		c := pulls[id]
		if c == nil || c.stop != 1 {
			n := 0
			if c != nil {
				n = c.stop
			}
			return pbt.V("A3/pull-stop-count", "relay pull attempt %s produced %d stop notifications, want exactly 1", id, n)
		}
		wantStart := 0
		if w.pullAtt[id] {
			wantStart = 1
		}
		if c.start != wantStart {
			return pbt.V("A3/pull-start-count", "relay pull attempt %s (attached=%v) produced %d start notifications", id, w.pullAtt[id], c.start)
		}
	}
	return nil
}

func classify(c Case) (bool, []string) {
	var labels []string
	inputs := make([]bool, c.Names)
	pulls := make([]bool, c.Names)
	nt := false
	for _, a := range c.Actions {
		n := a.Name % c.Names
		labels = append(labels, "act:"+a.Kind)
		switch a.Kind {
		case "pub-rtmp", "pub-rtsp", "pub-customize":
			if inputs[n] {
				labels = append(labels, "second-input-offered:"+a.Kind)
				nt = true
			}
			if pulls[n] {
				labels = append(labels, "publisher-while-pull-in-flight")
			}
			inputs[n] = true
		case "input-leave":
			inputs[n] = false
		case "pull-start":
			if !inputs[n] {
				pulls[n] = true
			} else {
				labels = append(labels, "pull-start-with-input")
				nt = true
			}
		case "tick":
			for i := range pulls {
				if pulls[i] && !inputs[i] {
					labels = append(labels, "tick-while-pull-in-flight")
					nt = true
				}
			}
		case "pull-proceed":
			if pulls[n] && inputs[n] {
				labels = append(labels, "pull-completes-after-publisher")
				nt = true
			}
			if pulls[n] && !inputs[n] && a.Sel%3 == 1 {
				inputs[n] = true
			}
			pulls[n] = false
		}
	}
	return nt, uniq(labels)
}

func uniq(in []string) []string {
	seen := map[string]bool{}
	var out []string
	for _, s := range in {
		if !seen[s] {
			seen[s] = true
			out = append(out, s)
		}
	}
	return out
}

func TestOneInput(t *testing.T) {
	pbt.Run(t, pbt.Spec[Case]{
		ID: "C03", Name: "one-input", Gen: genCase, Run: run, Classify: classify,
		Quick: 250, Thorough: 2500,
	})
}
