// What the inputs of this check send.
//
// Two kinds of content:
//
//   - "plain": one opaque 8-byte audio message per probe and nothing else (no sequence header).  RTMP and HTTP-FLV
//     subscribers are forwarded such messages as they are; this is the content the check used from its first
//     version on, and the only one under which a subscriber can still be waiting for a video key frame of an
//     input that has left.
//   - "av": a real H.264 + AAC stream: sequence headers (or SDP / PS system data) once per input, then per probe an
//     AAC frame followed by a key frame whose IDR slice starts with the 8-byte marker.  This is what the TS
//     remuxer, the RTSP remuxer, HLS and the SDP-driven inputs (RTSP, GB28181) need in order to produce
//     anything.  All subscribers are judged on the key frame.
//
// Marker bytes never contain 0x00..0x03, so no start code or emulation-prevention pattern can form.
package c03

import (
	"fmt"
	"net"

	"github.com/q191201771/lal/pkg/base"

	"verif/gen"
	"verif/harness/lalclient"
	"verif/harness/stub"
	"verif/ref/codecref"
	"verif/ref/psref"
	"verif/ref/rtmpref"
	"verif/ref/rtpref"
	"verif/ref/rtspref"
)

const (
	ascObj, ascFreq, ascChan = 2, 4, 2 // AAC-LC 44.1 kHz stereo
	audioClock               = 44100
	rtspVideoPT, rtspAudioPT = 96, 97
)

func e6(x uint32) byte { return 0x40 | byte(x&0x3F) }

// videoMarker is the 8-byte pattern carried at the start of the IDR slice of probe m.
func videoMarker(m uint32) []byte {
	return []byte{0xC3, 0x5A, e6(m >> 18), e6(m >> 12), e6(m >> 6), e6(m), 0xA5, 0x3C}
}

// badPattern marks media sent by a refused input or on the old handle of an input that is no longer accepted.
var badPattern = []byte{0xBA, 0xD0, 0xBA, 0xD0, 0xBA, 0xD0}

// badAudio is the plain form (exactly the message of the first version of the check), badVideoNal the av form.
var badAudio = append([]byte{0xAF, 1}, badPattern...)

func idrNal(pat []byte) []byte {
	n := append([]byte{0x65}, pat...)
	return append(n, 0x9D, 0x77)
}

func avcc(nals ...[]byte) []byte { return rtpref.AVCC(nals) }

func rtmpKeyFrame(nal []byte) []byte {
	return append([]byte{0x17, 1, 0, 0, 0}, avcc(nal)...)
}

func rtmpVideoSeqHeader() []byte {
	_, sps, pps := gen.ParamSets("avc", 0)
	return append([]byte{0x17, 0, 0, 0, 0}, gen.AvcSeqHeaderBody(sps, pps)...)
}

func rtmpAudioSeqHeader() []byte {
	return append([]byte{0xAF, 0}, gen.Asc(ascObj, ascFreq, ascChan)...)
}

func aacFrame(ts uint32) []byte {
	// raw_data_block stand-in; content is irrelevant to lal
	return []byte{0x21, 0x1A, e6(ts >> 12), e6(ts >> 6), e6(ts), 0x4F, 0x71}
}

func rtmpAudioFrame(ts uint32) []byte { return append([]byte{0xAF, 1}, aacFrame(ts)...) }

// rtmpSender abstracts the three inputs that hand lal RTMP messages.
type rtmpSender func(typ uint8, ts uint32, payload []byte) error

func (in *input) rtmpSend(w *world) rtmpSender {
	switch in.kind {
	case "rtmp":
		return func(typ uint8, ts uint32, payload []byte) error { return in.pub.Send(typ, ts, payload, 0) }
	case "customize":
		return func(typ uint8, ts uint32, payload []byte) error {
			var ferr error
			csid := 4
			if typ == 9 {
				csid = 6
			}
			w.s.Call("FeedRtmpMsg", func() {
				ferr = in.custom.FeedRtmpMsg(base.RtmpMsg{Header: base.RtmpHeader{Csid: csid, MsgLen: uint32(len(payload)), MsgTypeId: typ, MsgStreamId: 1, TimestampAbs: ts}, Payload: payload})
			})
			return ferr
		}
	case "pull":
		return func(typ uint8, ts uint32, payload []byte) error { return in.pullC.SendMedia(typ, ts, payload) }
	}
	lalclient.Harness("rtmpSend on input kind %s", in.kind)
	return nil
}

// ---- RTSP publisher ----------------------------------------------------------

func rtspTracks() []rtspref.Track {
	_, sps, pps := gen.ParamSets("avc", 0)
	return []rtspref.Track{
		{Media: "video", PT: rtspVideoPT, Encoding: "H264", ClockRate: 90000, Fmtp: rtspref.H264Fmtp(sps, pps), Control: "streamid=0"},
		{Media: "audio", PT: rtspAudioPT, Encoding: "MPEG4-GENERIC", ClockRate: audioClock, Channels: ascChan, Fmtp: rtspref.AacFmtp(gen.Asc(ascObj, ascFreq, ascChan)), Control: "streamid=1"},
	}
}

func (in *input) rtspAudio(ts uint32) error {
	pl, err := rtpref.AACHbr.AACPacket([][]byte{aacFrame(ts)})
	if err != nil {
		lalclient.Harness("aac packet: %v", err)
	}
	p := in.aseq.Frame([][]byte{pl}, uint32(uint64(ts)*audioClock/1000), true)[0]
	return in.rtspC.WriteFrame(2, p.Marshal())
}

func (in *input) rtspVideo(ts uint32, nal []byte) error {
	pl, err := rtpref.H264Single(nal)
	if err != nil {
		lalclient.Harness("h264 single: %v", err)
	}
	p := in.vseq.Frame([][]byte{pl}, ts*90, true)[0]
	return in.rtspC.WriteFrame(0, p.Marshal())
}

// ---- GB28181 (PS over RTP over UDP) --------------------------------------------

var psStreams = []psref.ES{{StreamID: 0xE0, StreamType: 0x1B}, {StreamID: 0xC0, StreamType: 0x0F}}

func adts(raw []byte) []byte {
	h := codecref.ADTS{ProtectionAbsent: true, Profile: ascObj - 1, FreqIndex: ascFreq, ChannelConfig: ascChan, FrameLength: uint16(7 + len(raw)), BufferFullness: 0x7FF}
	return append(h.Marshal(), raw...)
}

// psPack is one program-stream pack: an AAC frame and one video access unit (parameter sets + the given slice).
func psPack(ts uint32, first bool, nal []byte) []byte {
	_, sps, pps := gen.ParamSets("avc", 0)
	pts := uint64(ts) * 90
	ps := psref.PackHeader(pts, 0, 1000, 0)
	if first {
		ps = append(ps, psref.SystemHeader(1000, 1, 1, psStreams)...)
		ps = append(ps, psref.PSM(0, nil, psStreams)...)
	}
	es := rtpref.AnnexB([][]byte{sps, pps, nal}, []bool{true, true, true})
	ps = append(ps, psref.PES(0xE0, psref.Stamp{HasPTS: true, PTS: pts}, 0, true, es)...)
	ps = append(ps, psref.PES(0xC0, psref.Stamp{HasPTS: true, PTS: pts}, 0, true, adts(aacFrame(ts)))...)
	return ps
}

func (in *input) psSend(ts uint32, nal []byte) error {
	if in.udp == nil {
		uc, err := net.Dial("udp", fmt.Sprintf("127.0.0.1:%d", in.port))
		if err != nil {
			lalclient.Harness("dial gb28181 udp port %d: %v", in.port, err)
		}
		in.udp = uc
	}
	first := !in.psStarted
	in.psStarted = true
	p := in.vseq.Frame([][]byte{psPack(ts, first, nal)}, ts*90, true)[0]
	_, err := in.udp.Write(p.Marshal())
	return err
}

// a frame that carries no marker: lal's PS parser holds the newest frame until the next one begins
func padNal(ts uint32) []byte {
	return []byte{0x41, 0x9A, e6(ts >> 12), e6(ts >> 6), e6(ts), 0x5B}
}

// ---- origin that answers play and sends media in ONE write ---------------------------------------------------------

// acceptPlayWithMedia is what an origin with cached headers / a cached GOP does: NetStream.Play.Start and the first
// media messages leave in a single write, so the puller receives them in the same TCP read as the answer.  It is
// used only for pull attempts that must NOT attach (a publisher took the stream meanwhile, or relay pull was stopped
// while the attempt was connecting): every media message carries badPattern and may reach nobody, however much of it
// lal's pull session had already buffered when the group refused it.
//
// All chunks use format-0 headers (as the stub's own writer does), so the stub's writer state is not disturbed.
func acceptPlayWithMedia(c *stub.Conn) error {
	w := rtmpref.NewChunkWriter(128)
	play := rtmpref.Msg{Csid: 5, TypeID: rtmpref.TypeCmdAmf0, StreamID: 1, Payload: rtmpref.EncodeAmf0(
		rtmpref.Str("onStatus"), rtmpref.Num(0), rtmpref.Null(),
		rtmpref.Obj(rtmpref.M("level", rtmpref.Str("status")), rtmpref.M("code", rtmpref.Str("NetStream.Play.Start")), rtmpref.M("description", rtmpref.Str("Start live"))))}
	buf := w.WriteMsg(play, 0)
	media := []rtmpref.Msg{
		{Csid: 6, TypeID: rtmpref.TypeVideo, StreamID: 1, Ts: 0, Payload: rtmpVideoSeqHeader()},
		{Csid: 4, TypeID: rtmpref.TypeAudio, StreamID: 1, Ts: 0, Payload: rtmpAudioSeqHeader()},
		{Csid: 4, TypeID: rtmpref.TypeAudio, StreamID: 1, Ts: 1, Payload: badAudio},
		{Csid: 6, TypeID: rtmpref.TypeVideo, StreamID: 1, Ts: 2, Payload: rtmpKeyFrame(idrNal(badPattern))},
		{Csid: 4, TypeID: rtmpref.TypeAudio, StreamID: 1, Ts: 3, Payload: badAudio},
		{Csid: 6, TypeID: rtmpref.TypeVideo, StreamID: 1, Ts: 4, Payload: rtmpKeyFrame(idrNal(badPattern))},
	}
	for _, m := range media {
		buf = append(buf, w.WriteMsg(m, 0)...)
	}
	if len(buf) > 4000 {
		lalclient.Harness("play answer with media is %d bytes: it is meant to fit one small read buffer", len(buf))
	}
	_, err := c.Conn.Write(buf)
	return err
}
