// C07 — RTSP, GB28181 and customize ingest reach RTMP/FLV consumers with the
// same frames.
//
// This file holds what the three ingest legs share: the published-stream model
// (preamble + core + tail pad), its generator, the expansion into the units a
// consumer must see, and the oracle that judges what an RTMP / HTTP-FLV
// subscriber received.
//
// Shape of a published stream
//
//	preamble  a key frame (with parameter sets) and the first frames of every
//	          track, always delivered in order and in the plainest packing; lal
//	          may legitimately start forwarding anywhere inside it ("from the
//	          first forwarded frame on");
//	core      the generated frames (<= 60): every one of them must arrive;
//	pad       >= 130 plain interleaved A/V frames generated deterministically
//	          from the stream (5000 in the thorough drift runs): lal's A/V
//	          interleave queue and the PS unpacker hold the newest frames until
//	          later ones arrive, so the end of the pad may be missing.
//
// Whatever is forwarded of preamble and pad must still be a gap-free,
// duplicate-free, byte-exact continuation of the core, and its timestamps take
// part in the drift check.
//
// Deliberately NOT asserted: metadata content; composition times; the
// interleaving between audio and video; how lal groups the NAL units of one
// access unit into messages (the RTSP and PS legs emit one message per RTP
// packet / per NAL unit with equal timestamps); the key flag of a message that
// holds only non-VCL units of a key access unit; timestamps of sequence
// headers; behaviour under loss, reordering beyond the window, or RTP
// timestamp wrap-around (32-bit) — none of these is generated.
package c07

import (
	"bytes"
	"encoding/binary"
	"fmt"
	"time"

	"pgregory.net/rapid"

	"github.com/q191201771/lal/pkg/base"

	"verif/drv/pbt"
	"verif/gen"
	"verif/harness/inproc"
	"verif/harness/lalclient"
	"verif/ref/codecref"
)

// ---------------------------------------------------------------------------
// model

// Pack holds the packing wishes of one unit; every ingest leg reads its own
// fields.
type Pack struct {
	// RTSP: packetisation mode wish per published NAL unit / for the audio
	// frame (0 single, 1 aggregate, 2 fragment; index modulo len) and the
	// fragment size wish (0 = as large as fits).
	M     []uint8 `json:"m,omitempty"`
	Chunk int     `json:"chunk,omitempty"`
	// GB28181
	SysHdr    bool   `json:"sys,omitempty"`      // system header in this unit's pack
	Psm       bool   `json:"psm,omitempty"`      // program stream map in this unit's pack
	NoPackHdr bool   `json:"nopack,omitempty"`   // audio PES appended to the running pack (no pack header of its own)
	PesMax    int    `json:"pesmax,omitempty"`   // largest PES payload (0 = 65000)
	PerNal    bool   `json:"pernal,omitempty"`   // every NAL unit starts a PES packet of its own
	ContPTS   bool   `json:"contpts,omitempty"`  // continuation PES packets repeat the PTS (else: no timestamp)
	SC3       uint32 `json:"sc3,omitempty"`      // bit i: NAL unit i uses a three-byte start code (never the first unit or a parameter set)
	PackStuff int    `json:"pstuff,omitempty"`   // pack_stuffing_length
	PesStuff  int    `json:"pesstuff,omitempty"` // PES header stuffing bytes
	// customize: 0 whole access unit in one FeedAvPacket; 1 parameter sets in one call, the rest in another;
	// 2 every parameter set in a call of its own
	Cut int `json:"cut,omitempty"`
}

// Unit is one published frame.
type Unit struct {
	V bool  `json:"v,omitempty"`
	T int64 `json:"t"` // source timestamp in ticks of the track's clock
	// video
	Key  bool          `json:"key,omitempty"`
	Aud  bool          `json:"aud,omitempty"` // leading access unit delimiter
	PS   int           `json:"ps,omitempty"`  // k > 0: in-band parameter sets (complete set) of variant k-1
	Nals []gen.NalSpec `json:"nals,omitempty"`
	// audio
	ALen  int    `json:"alen,omitempty"`
	ASeed uint32 `json:"aseed,omitempty"`
	P     Pack   `json:"p"`
}

// Stream is the published elementary stream.
type Stream struct {
	Video   string `json:"video"` // "" | avc | hevc
	Audio   string `json:"audio"` // "" | aac | g711a | g711u | opus
	AscObj  int    `json:"asc_obj,omitempty"`
	AscFreq int    `json:"asc_freq,omitempty"`
	AscChan int    `json:"asc_chan,omitempty"`
	VClock  int    `json:"vclock"` // ticks per second of the video source timestamps
	AClock  int    `json:"aclock"`
	VStep   int64  `json:"vstep"` // regular frame distance in ticks (pad)
	AStep   int64  `json:"astep"`
	Units   []Unit `json:"units"` // preamble + core in feed order
	NPre    int    `json:"npre"`
	Pad     int    `json:"pad"` // minimum number of pad units
	// Solo run (part of the core, generated deterministically after Units): SoloN >= 1 frames of one track
	// (SoloV: video) at its regular frame distance while the other track sends nothing.  Afterwards the other
	// track either resumes at the same media time (silent in between: its timestamps jump) or, SoloLate, delivers
	// the frames of that period late.  With SoloN >= 128 the run crosses the limit of lal's A/V interleave queue.
	SoloN    int  `json:"solo_n,omitempty"`
	SoloV    bool `json:"solo_v,omitempty"`
	SoloLate bool `json:"solo_late,omitempty"`
}

// soloN is the effective length of the solo run (only streams with both tracks have one).
func (s *Stream) soloN() int {
	if s.Video == "" || s.Audio == "" || s.SoloN < 0 {
		return 0
	}
	return s.SoloN
}

// coreEnd is the index (in all()) of the first pad unit.
func (s *Stream) coreEnd() int { return len(s.Units) + s.soloN() }

var aacRates = []int{96000, 88200, 64000, 48000, 44100, 32000, 24000, 22050, 16000, 12000, 11025, 8000, 7350}

func (s *Stream) asc() []byte { return gen.Asc(s.AscObj, s.AscFreq, s.AscChan) }

// pubNal is one NAL unit as published.
type pubNal struct {
	b    []byte
	role byte // 'a' access unit delimiter, 'p' parameter set, 'n' anything else
	idr  bool
}

func nalType(codec string, b []byte) int {
	if codec == "hevc" {
		return int(b[0]>>1) & 0x3f
	}
	return int(b[0] & 0x1f)
}

func isIdr(codec string, b []byte) bool {
	t := nalType(codec, b)
	if codec == "hevc" {
		return t >= 16 && t <= 23
	}
	return t == 5
}

func isParamSet(codec string, b []byte) bool {
	t := nalType(codec, b)
	if codec == "hevc" {
		return t >= 32 && t <= 34
	}
	return t == 7 || t == 8
}

func isAud(codec string, b []byte) bool {
	t := nalType(codec, b)
	if codec == "hevc" {
		return t == 35
	}
	return t == 9
}

func paramSets(codec string, variant int) [][]byte {
	vps, sps, pps := gen.ParamSets(codec, variant)
	if vps != nil {
		return [][]byte{vps, sps, pps}
	}
	return [][]byte{sps, pps}
}

// nalsOf lists the NAL units of a video unit in publishing order.
func (s *Stream) nalsOf(u Unit) []pubNal {
	var out []pubNal
	if u.Aud {
		if s.Video == "hevc" {
			out = append(out, pubNal{b: []byte{35 << 1, 1, 0x50}, role: 'a'})
		} else {
			out = append(out, pubNal{b: []byte{9, 0xF0}, role: 'a'})
		}
	}
	if u.PS > 0 {
		for _, p := range paramSets(s.Video, u.PS-1) {
			out = append(out, pubNal{b: p, role: 'p'})
		}
	}
	for _, n := range u.Nals {
		b := n.Bytes()
		out = append(out, pubNal{b: b, role: 'n', idr: isIdr(s.Video, b)})
	}
	return out
}

func audioBytes(u Unit) []byte {
	b := gen.Bytes(u.ASeed^0x9e3779b9, u.ALen)
	if len(b) >= 4 {
		binary.BigEndian.PutUint32(b, u.ASeed)
	}
	return b
}

// elapsed compares positions on the two tracks' time lines: it reports
// whether video time tv (relative to v0) is not later than audio time ta.
func (s *Stream) videoFirst(tv, v0, ta, a0 int64) bool {
	return (tv-v0)*int64(s.AClock) <= (ta-a0)*int64(s.VClock)
}

// all returns preamble + core + pad.  The pad continues both tracks at their
// regular frame distance, merged by time, until every track has passed the end
// of the core and at least s.Pad units exist.
func (s *Stream) all() []Unit {
	out := append([]Unit(nil), s.Units...)
	var v0, a0, tv, ta int64
	haveV, haveA := false, false
	for _, u := range s.Units {
		if u.V {
			if !haveV {
				v0, haveV = u.T, true
			}
			tv = u.T
		} else {
			if !haveA {
				a0, haveA = u.T, true
			}
			ta = u.T
		}
	}
	if s.Video != "" && !haveV || s.Audio != "" && !haveA {
		panic(pbt.HarnessError{Msg: "c07: stream without a preamble frame on every track"})
	}
	tv += s.VStep
	ta += s.AStep
	slice := []byte{0x41}
	if s.Video == "hevc" {
		slice = []byte{1 << 1, 1}
	}
	if n := s.soloN(); n > 0 {
		for i := 0; i < n; i++ {
			if s.SoloV {
				ser := uint32(8000000 + i)
				out = append(out, Unit{V: true, T: tv, Nals: []gen.NalSpec{{Hdr: slice, Len: 12, Seed: ser, Serial: ser}}})
				tv += s.VStep
			} else {
				out = append(out, Unit{T: ta, ALen: 24, ASeed: uint32(8500000 + i)})
				ta += s.AStep
			}
		}
		if !s.SoloLate {
			// the silent track resumes where the running one has arrived
			if s.SoloV {
				if x := a0 + ((tv-v0)*int64(s.AClock)+int64(s.VClock)-1)/int64(s.VClock); x > ta {
					ta = x
				}
			} else {
				if x := v0 + ((ta-a0)*int64(s.VClock)+int64(s.AClock)-1)/int64(s.AClock); x > tv {
					tv = x
				}
			}
		}
	}
	endV, endA := tv-s.VStep, ta-s.AStep
	nv, na := 0, 0
	for i := 0; ; i++ {
		done := i >= s.Pad
		if s.Video != "" && s.Audio != "" {
			// both tracks must have advanced beyond the other's last core frame
			if nv < 4 || na < 4 || s.videoFirst(tv, v0, endA, a0) || !s.videoFirst(endV, v0, ta, a0) {
				done = false
			}
		}
		if done || i > 20000 {
			break
		}
		video := s.Video != "" && (s.Audio == "" || s.videoFirst(tv, v0, ta, a0))
		if video {
			ser := uint32(9000000 + nv)
			out = append(out, Unit{V: true, T: tv, Nals: []gen.NalSpec{{Hdr: slice, Len: 12, Seed: ser, Serial: ser}}})
			tv += s.VStep
			nv++
		} else {
			out = append(out, Unit{T: ta, ALen: 24, ASeed: uint32(9500000 + na)})
			ta += s.AStep
			na++
		}
	}
	return out
}

// expectation: what a consumer must see of each track.
type expNal struct {
	b      []byte
	unit   int
	ticks  int64
	idr    bool
	auIdr  bool // the access unit holds an IDR / IRAP unit
	psKind int  // parameter-set variant+1 in force for this unit (0 = none known)
}

type expAudio struct {
	b     []byte
	unit  int
	ticks int64
}

type expectation struct {
	v                    []expNal
	a                    []expAudio
	vCoreFrom, vCoreTo   int // index range of the core inside v
	aCoreFrom, aCoreTo   int
	coreFrom, coreTo     int // unit indices
	units                []Unit
}

// expect expands the stream.  sdpPS is the parameter-set variant+1 announced
// out of band (RTSP sprop), 0 if none.
func (s *Stream) expect(sdpPS int) *expectation {
	e := &expectation{units: s.all(), coreFrom: s.NPre, coreTo: s.coreEnd()}
	e.vCoreFrom, e.aCoreFrom = -1, -1
	inForce := sdpPS
	for i, u := range e.units {
		if i == e.coreFrom {
			e.vCoreFrom, e.aCoreFrom = len(e.v), len(e.a)
		}
		if i == e.coreTo {
			e.vCoreTo, e.aCoreTo = len(e.v), len(e.a)
		}
		if !u.V {
			e.a = append(e.a, expAudio{b: audioBytes(u), unit: i, ticks: u.T})
			continue
		}
		if u.PS > 0 {
			inForce = u.PS
		}
		nals := s.nalsOf(u)
		au := false
		for _, n := range nals {
			au = au || n.idr
		}
		for _, n := range nals {
			if n.role != 'n' {
				continue
			}
			e.v = append(e.v, expNal{b: n.b, unit: i, ticks: u.T, idr: n.idr, auIdr: au, psKind: inForce})
		}
	}
	if e.vCoreFrom < 0 {
		e.vCoreFrom, e.aCoreFrom = len(e.v), len(e.a)
	}
	if e.coreTo >= len(e.units) {
		e.vCoreTo, e.aCoreTo = len(e.v), len(e.a)
	}
	return e
}

// ---------------------------------------------------------------------------
// generator

type streamOpts struct {
	kind      string // rtsp | gb | cust
	sizeEdges []int
	maxNal    int
	pack      func(t *rapid.T, s *Stream, u *Unit, pre bool) // fills u.P
}

func drawLen(t *rapid.T, o streamOpts) int {
	max := o.maxNal
	if max <= 0 {
		max = 3000
	}
	switch rapid.IntRange(0, 11).Draw(t, "lenClass") {
	case 0, 1:
		return rapid.IntRange(0, 4).Draw(t, "tiny")
	case 2, 3, 4:
		if len(o.sizeEdges) > 0 {
			v := rapid.SampledFrom(o.sizeEdges).Draw(t, "edge") + rapid.IntRange(-4, 3).Draw(t, "edgeDelta")
			if v < 0 {
				v = 0
			}
			return v
		}
		return rapid.IntRange(5, 200).Draw(t, "small")
	case 5, 6, 7, 8:
		return rapid.IntRange(5, 300).Draw(t, "small")
	case 9, 10:
		hi := 3000
		if hi > max {
			hi = max
		}
		return rapid.IntRange(5, hi).Draw(t, "mid")
	default:
		return rapid.IntRange(5, max).Draw(t, "big")
	}
}

func drawHdr(t *rapid.T, codec string, class string) []byte {
	if codec == "hevc" {
		var typ int
		switch class {
		case "key":
			typ = rapid.SampledFrom([]int{19, 20, 21, 16, 17, 18}).Draw(t, "irap")
		case "slice":
			typ = rapid.SampledFrom([]int{1, 0, 1, 2, 3, 4, 5, 6, 7, 8, 9}).Draw(t, "sliceType")
		case "sei":
			typ = 39
		default: // trailing non-VCL unit
			typ = rapid.SampledFrom([]int{40, 38, 36, 37, 41, 47}).Draw(t, "trailType")
		}
		layer := 0
		if rapid.IntRange(0, 7).Draw(t, "layerNonZero") == 0 {
			layer = rapid.IntRange(1, 63).Draw(t, "layer")
		}
		tid := rapid.IntRange(1, 7).Draw(t, "tid")
		return []byte{byte(typ<<1) | byte(layer>>5), byte(layer<<3) | byte(tid)}
	}
	nri := rapid.IntRange(1, 3).Draw(t, "nri")
	var typ int
	switch class {
	case "key":
		typ = 5
	case "slice":
		typ = 1
		if rapid.IntRange(0, 9).Draw(t, "dp") == 0 {
			typ = rapid.SampledFrom([]int{2, 3, 4}).Draw(t, "dpType")
		}
	case "sei":
		typ, nri = 6, 0
	default:
		typ, nri = rapid.SampledFrom([]int{12, 10, 11, 19, 23}).Draw(t, "trailType"), 0
	}
	return []byte{byte(nri<<5) | byte(typ)}
}

func genStream(t *rapid.T, o streamOpts) Stream {
	var s Stream
	switch o.kind {
	case "rtsp":
		s.Video = rapid.SampledFrom([]string{"avc", "avc", "hevc", "hevc", ""}).Draw(t, "vcodec")
		s.Audio = rapid.SampledFrom([]string{"aac", "aac", "aac", "g711a", "g711u", "opus", ""}).Draw(t, "acodec")
	case "gb":
		s.Video = rapid.SampledFrom([]string{"avc", "avc", "hevc", "hevc", ""}).Draw(t, "vcodec")
		s.Audio = rapid.SampledFrom([]string{"aac", "aac", "g711a", "g711u", ""}).Draw(t, "acodec")
	default:
		s.Video = rapid.SampledFrom([]string{"avc", "avc", "hevc", "hevc", ""}).Draw(t, "vcodec")
		s.Audio = rapid.SampledFrom([]string{"aac", "aac", "aac", "g711a", "g711u", "opus", ""}).Draw(t, "acodec")
	}
	if s.Video == "" && s.Audio == "" {
		s.Audio = "aac"
	}
	if s.Audio == "aac" {
		s.AscObj = rapid.SampledFrom([]int{2, 2, 2, 1, 3, 4}).Draw(t, "ascObj")
		s.AscFreq = rapid.SampledFrom([]int{4, 4, 3, 0, 1, 2, 5, 6, 7, 8, 9, 10, 11}).Draw(t, "ascFreq")
		s.AscChan = rapid.SampledFrom([]int{2, 1, 2, 6, 7}).Draw(t, "ascChan")
	}
	// clocks and regular frame distances
	switch o.kind {
	case "rtsp":
		s.VClock = 90000
		s.VStep = rapid.SampledFrom([]int64{3600, 3000, 1800, 3003, 1501, 7200}).Draw(t, "vStep")
		switch s.Audio {
		case "aac":
			s.AClock, s.AStep = aacRates[s.AscFreq], 1024
		case "opus":
			s.AClock, s.AStep = 48000, rapid.SampledFrom([]int64{960, 480, 1920, 2880}).Draw(t, "aStep")
		default:
			s.AClock, s.AStep = 8000, rapid.SampledFrom([]int64{160, 320, 80, 240, 441}).Draw(t, "aStep")
		}
	case "gb":
		s.VClock, s.AClock = 90000, 90000
		s.VStep = rapid.SampledFrom([]int64{3600, 3000, 1800, 3003, 1501, 7200}).Draw(t, "vStep")
		if s.Audio == "aac" {
			s.AStep = int64(1024*90000) / int64(aacRates[s.AscFreq])
		} else {
			s.AStep = rapid.SampledFrom([]int64{1800, 3600, 900, 2089}).Draw(t, "aStep")
		}
	default:
		s.VClock, s.AClock = 1000, 1000
		s.VStep = rapid.SampledFrom([]int64{40, 33, 20, 17, 100}).Draw(t, "vStep")
		s.AStep = rapid.SampledFrom([]int64{23, 21, 10, 64, 128}).Draw(t, "aStep")
	}
	if s.Audio == "" {
		s.AClock, s.AStep = 1000, 1
	}
	if s.Video == "" {
		s.VClock, s.VStep = 1000, 1
	}
	// start timestamps (independent per track: only per-track constants matter)
	start := func(label string) int64 {
		switch o.kind {
		case "rtsp": // RTP timestamps: random 32-bit offset, kept far from the 32-bit wrap (not generated)
			return rapid.OneOf(rapid.Just(int64(0)), rapid.Int64Range(0, 100000), rapid.Int64Range(0, 1<<31)).Draw(t, label)
		case "gb": // 33-bit PTS
			return rapid.OneOf(rapid.Int64Range(900000, 1000000), rapid.Int64Range(900000, 1<<31), rapid.SampledFrom([]int64{1<<32 + 77, 1<<32 - 180000, 1<<30 - 9000})).Draw(t, label)
		default: // milliseconds
			return rapid.OneOf(rapid.Just(int64(0)), rapid.Int64Range(0, 100000), rapid.SampledFrom([]int64{0xFFFFFF - 500, 0x1000000, 1<<31 - 300, 1 << 31})).Draw(t, label)
		}
	}
	tv, ta := start("vStart"), start("aStart")
	v0, a0 := tv, ta
	ncore := rapid.IntRange(1, 60).Draw(t, "ncore")
	if rapid.IntRange(0, 3).Draw(t, "shortCore") == 0 {
		ncore = rapid.IntRange(1, 8).Draw(t, "ncoreShort")
	}
	gop := rapid.IntRange(1, 12).Draw(t, "gop")
	variant := rapid.IntRange(0, 2).Draw(t, "variant")
	serial := uint32(100000)
	nv, na, sinceKey := 0, 0, 0
	for {
		pre := s.Video != "" && nv < 2 || s.Audio != "" && na < 2
		if !pre && s.NPre == 0 {
			s.NPre = len(s.Units)
		}
		if !pre && len(s.Units)-s.NPre >= ncore {
			break
		}
		video := s.Video != "" && (s.Audio == "" || s.videoFirst(tv, v0, ta, a0))
		var u Unit
		if video {
			u = Unit{V: true, T: tv}
			if nv == 0 {
				u.Key, u.PS = true, variant+1
				serial++
				u.Nals = []gen.NalSpec{{Hdr: drawHdr(t, s.Video, "key"), Len: 40, Seed: serial, Serial: serial}}
			} else if pre {
				serial++
				u.Nals = []gen.NalSpec{{Hdr: drawHdr(t, s.Video, "slice"), Len: 30, Seed: serial, Serial: serial}}
			} else {
				sinceKey++
				u.Key = sinceKey >= gop || rapid.IntRange(0, 14).Draw(t, "extraKey") == 0
				if u.Key {
					sinceKey = 0
					if rapid.IntRange(0, 3).Draw(t, "churn") == 0 {
						variant++
					}
					if o.kind == "gb" || rapid.IntRange(0, 2).Draw(t, "inbandPS") != 0 {
						u.PS = variant + 1
					}
				}
				u.Aud = rapid.IntRange(0, 3).Draw(t, "aud") == 0
				if rapid.IntRange(0, 4).Draw(t, "sei") == 0 {
					serial++
					u.Nals = append(u.Nals, gen.NalSpec{Hdr: drawHdr(t, s.Video, "sei"), Len: rapid.IntRange(1, 60).Draw(t, "seiLen"), Seed: serial, Serial: serial})
				}
				class := "slice"
				if u.Key {
					class = "key"
				}
				for i, n := 0, rapid.SampledFrom([]int{1, 1, 1, 2, 3}).Draw(t, "nslices"); i < n; i++ {
					serial++
					u.Nals = append(u.Nals, gen.NalSpec{Hdr: drawHdr(t, s.Video, class), Len: drawLen(t, o), Seed: serial, Serial: serial})
				}
				if rapid.IntRange(0, 3).Draw(t, "trail") == 0 {
					serial++
					u.Nals = append(u.Nals, gen.NalSpec{Hdr: drawHdr(t, s.Video, "trail"), Len: rapid.SampledFrom([]int{0, 0, 1, 3, 20, 200}).Draw(t, "trailLen"), Seed: serial, Serial: serial})
				}
			}
			nv++
			tv += s.VStep
			if !pre && rapid.IntRange(0, 24).Draw(t, "vgap") == 0 {
				tv += s.VStep * rapid.Int64Range(1, 40).Draw(t, "vgapN")
			}
		} else {
			serial++
			u = Unit{T: ta, ASeed: serial}
			if pre {
				u.ALen = 33
			} else {
				u.ALen = rapid.IntRange(1, 400).Draw(t, "alen")
				switch rapid.IntRange(0, 15).Draw(t, "alenClass") {
				case 0:
					u.ALen = rapid.IntRange(400, 6000).Draw(t, "alenBig")
				case 1, 2:
					u.ALen = rapid.IntRange(1, 6).Draw(t, "alenTiny")
				case 3:
					if len(o.sizeEdges) > 0 {
						u.ALen = rapid.SampledFrom(o.sizeEdges).Draw(t, "aedge") + rapid.IntRange(-6, 2).Draw(t, "aedgeDelta")
					}
				}
				if u.ALen < 1 {
					u.ALen = 1
				}
				if u.ALen > 8000 {
					u.ALen = 8000
				}
			}
			na++
			ta += s.AStep
			if !pre && rapid.IntRange(0, 24).Draw(t, "agap") == 0 {
				ta += s.AStep * rapid.Int64Range(1, 40).Draw(t, "agapN")
			}
		}
		if o.pack != nil {
			o.pack(t, &s, &u, pre)
		}
		s.Units = append(s.Units, u)
	}
	s.Pad = 130
	if o.kind == "rtsp" && s.Video != "" && s.Audio != "" && rapid.IntRange(0, 3).Draw(t, "solo") == 2 {
		s.SoloN = rapid.SampledFrom([]int{127, 128, 129, 130, 140, 200, 257, 300}).Draw(t, "soloN")
		s.SoloV = rapid.Bool().Draw(t, "soloV")
		s.SoloLate = rapid.Bool().Draw(t, "soloLate")
	}
	if pbt.Thorough() && rapid.IntRange(0, 39).Draw(t, "driftRun") == 23 { // a mid-range value: rapid favours the bounds
		s.Pad = 5000
	}
	return s
}

// ---------------------------------------------------------------------------
// observation

const streamName = "c07stream"

var sentinelPrefix = []byte{0x72, 'C', '0', '7', '-', 'S', 'E', 'N', 'T', 'I', 'N', 'E', 'L'}

func isSentinel(r lalclient.Rec) bool {
	return r.Type == 8 && bytes.HasPrefix(r.Payload, sentinelPrefix)
}

type subs struct {
	s     *inproc.Server
	rtmp  *lalclient.Consumer
	flv   *lalclient.Consumer
	nsync int
}

func attach(s *inproc.Server) (*subs, *pbt.Violation) {
	x := &subs{s: s}
	x.rtmp = lalclient.NewRtmpSub(s, "live", streamName)
	x.flv = lalclient.NewFlvSub(s, "live", streamName, false)
	for _, c := range []*lalclient.Consumer{x.rtmp, x.flv} {
		if c.JoinErr() != nil {
			if v := s.PanicViolation(); v != nil {
				return nil, v
			}
			return nil, pbt.V("join-failed", "%s subscriber: %v", c.Kind, c.JoinErr())
		}
	}
	return x, nil
}

// waitFor waits until both consumers have decoded a record matching pred.
func (x *subs) waitFor(pred func(lalclient.Rec) bool) bool {
	ok := true
	for _, c := range []*lalclient.Consumer{x.rtmp, x.flv} {
		if c.WaitFor(pred, 10*time.Second) < 0 {
			ok = false
		}
	}
	return ok
}

type observed struct {
	kind string
	recs []lalclient.Rec
}

// syncEvery is the number of fed packets / frames between two sentinels: it
// keeps every consumer's backlog far below lal's 1024-entry write queues, so
// that the premise "the consumer's transport is not back-pressured" holds by
// construction.
const syncEvery = 200

// sync hands a numbered sentinel audio message to the group's RTMP input
// callback (the entry every RTMP publisher uses) and waits until both
// consumers have decoded it.  It travels through the same per-consumer write
// queue as everything forwarded before, so once a consumer has decoded it
// nothing older can still arrive.  The caller must have made sure that lal has
// consumed the publisher's input (synchronous feed or WaitPeerIdle).  The
// sentinels are a synchronisation device only: they are removed from the
// records before anything is judged.
func (x *subs) sync() *pbt.Violation {
	if v := x.s.PanicViolation(); v != nil {
		return v
	}
	g := x.s.SM.GetGroup("", streamName)
	if g == nil {
		lalclient.Harness("c07: group vanished")
	}
	x.nsync++
	payload := append(append([]byte(nil), sentinelPrefix...), byte(x.nsync>>8), byte(x.nsync))
	if x.s.Call("sentinel", func() {
		g.OnReadRtmpAvMsg(base.RtmpMsg{Header: base.RtmpHeader{Csid: 6, MsgLen: uint32(len(payload)), MsgTypeId: 8, MsgStreamId: 1, TimestampAbs: 1},
			Payload: append([]byte(nil), payload...)})
	}) {
		return x.s.PanicViolation()
	}
	for _, c := range []*lalclient.Consumer{x.rtmp, x.flv} {
		idx := c.WaitFor(func(r lalclient.Rec) bool { return r.Type == 8 && bytes.Equal(r.Payload, payload) }, 10*time.Second)
		if idx < 0 {
			if err := c.Err(); err != nil {
				return pbt.V("framing/"+c.Kind, "%s consumer: %v", c.Kind, err)
			}
			if c.Ended() {
				return pbt.V("consumer-disconnected/"+c.Kind, "%s consumer was disconnected by lal after %d records", c.Kind, len(c.Recs()))
			}
			lalclient.Harness("c07: %s consumer did not receive sentinel %d within 10 s (%d records)", c.Kind, x.nsync, len(c.Recs()))
		}
	}
	return nil
}

// finish closes the observation window with a last sentinel and returns what
// every consumer received before it.
func (x *subs) finish() ([]observed, *pbt.Violation) {
	if v := x.sync(); v != nil {
		return nil, v
	}
	var out []observed
	for _, c := range []*lalclient.Consumer{x.rtmp, x.flv} {
		var recs []lalclient.Rec
		for _, r := range c.Recs() {
			if !isSentinel(r) {
				recs = append(recs, r)
			}
		}
		out = append(out, observed{kind: c.Kind, recs: recs})
	}
	return out, nil
}

// ---------------------------------------------------------------------------
// oracle

type obsNal struct {
	b   []byte
	ts  uint32
	msg int // index of the video message
}

type obsMsg struct {
	rec   int
	key   bool
	first int // index of its first NAL in the flattened list
	n     int
	vsh   *vshInfo // sequence header most recently received before this message
}

type vshInfo struct {
	rec  int
	sets [][]byte // [vps] sps pps
	err  error
}

type obsAudio struct {
	b   []byte
	ts  uint32
	rec int
	fmt byte   // FLV SoundFormat (high nibble of the first byte)
	ash []byte // ASC most recently received before (nil = none)
}

// soundFormat is the FLV / RTMP SoundFormat a consumer needs to find the decoder: 7 = G.711 A-law, 8 = G.711
// mu-law, 10 = AAC (FLV specification v10.1, E.4.2.1); 13 = Opus is lal's own assignment
// (base.RtmpSoundFormatOpus), the one its RTMP ingest and its RTSP/TS remuxers read.
var soundFormat = map[string]byte{"aac": 10, "g711a": 7, "g711u": 8, "opus": 13}

type decoded struct {
	nals  []obsNal
	msgs  []obsMsg
	audio []obsAudio
}

func short(b []byte) string {
	if len(b) > 10 {
		return fmt.Sprintf("%x..(%d bytes)", b[:10], len(b))
	}
	return fmt.Sprintf("%x", b)
}

// decode splits the records of one consumer into tracks.
func decode(s *Stream, o observed) (*decoded, *pbt.Violation) {
	d := &decoded{}
	var vsh *vshInfo
	var ash []byte
	wantCodec := byte(7)
	if s.Video == "hevc" {
		wantCodec = 12
	}
	for i, r := range o.recs {
		switch r.Type {
		case 9:
			p := r.Payload
			if len(p) < 5 || p[0]&0x80 != 0 {
				return nil, pbt.V("video/unparseable-message", "%s record %d %s: not a classic FLV video tag body with a 5-byte header", o.kind, i, r)
			}
			if s.Video == "" {
				return nil, pbt.V("video/message-in-audio-only-stream", "%s record %d %s", o.kind, i, r)
			}
			if p[0]&0x0f != wantCodec {
				return nil, pbt.V("video/wrong-codec-id", "%s record %d %s: codec id %d, published %s", o.kind, i, r, p[0]&0x0f, s.Video)
			}
			switch p[1] {
			case 0:
				info := &vshInfo{rec: i}
				if s.Video == "hevc" {
					c, err := codecref.ParseRtmpHevcSeqHeader(p)
					if err != nil {
						info.err = err
					} else {
						for _, t := range []uint8{32, 33, 34} {
							info.sets = append(info.sets, c.NALUsOfType(t)...)
						}
						if len(c.NALUsOfType(32)) != 1 || len(c.NALUsOfType(33)) != 1 || len(c.NALUsOfType(34)) != 1 {
							info.err = fmt.Errorf("record carries %d VPS, %d SPS, %d PPS", len(c.NALUsOfType(32)), len(c.NALUsOfType(33)), len(c.NALUsOfType(34)))
						}
					}
				} else {
					c, err := codecref.ParseRtmpAvcSeqHeader(p)
					if err != nil {
						info.err = err
					} else {
						info.sets = append(append(info.sets, c.SPS...), c.PPS...)
						if len(c.SPS) != 1 || len(c.PPS) != 1 {
							info.err = fmt.Errorf("record carries %d SPS, %d PPS", len(c.SPS), len(c.PPS))
						}
					}
				}
				vsh = info
			case 1:
				nals, err := codecref.SplitAVCC(p[5:], 4)
				if err != nil || len(nals) == 0 {
					return nil, pbt.V("video/bad-avcc", "%s record %d %s: %v (%d units)", o.kind, i, r, err, len(nals))
				}
				m := obsMsg{rec: i, key: p[0]>>4 == 1, first: len(d.nals), n: len(nals), vsh: vsh}
				if ft := p[0] >> 4; ft != 1 && ft != 2 {
					return nil, pbt.V("video/bad-frame-type", "%s record %d %s: frame type %d", o.kind, i, r, ft)
				}
				for _, n := range nals {
					if len(n) == 0 {
						return nil, pbt.V("video/empty-nal", "%s record %d %s holds a zero-length NAL unit", o.kind, i, r)
					}
					d.nals = append(d.nals, obsNal{b: n, ts: r.Ts, msg: len(d.msgs)})
				}
				d.msgs = append(d.msgs, m)
			default:
				return nil, pbt.V("video/unexpected-packet-type", "%s record %d %s: AVCPacketType %d", o.kind, i, r, p[1])
			}
		case 8:
			p := r.Payload
			if len(p) < 1 {
				return nil, pbt.V("audio/empty-message", "%s record %d", o.kind, i)
			}
			if s.Audio == "" {
				return nil, pbt.V("audio/message-in-video-only-stream", "%s record %d %s", o.kind, i, r)
			}
			if p[0]>>4 == 10 {
				if len(p) < 2 {
					return nil, pbt.V("audio/short-aac-message", "%s record %d %s", o.kind, i, r)
				}
				if p[1] == 0 {
					ash = append([]byte{}, p[2:]...)
					continue
				}
				d.audio = append(d.audio, obsAudio{b: p[2:], ts: r.Ts, rec: i, fmt: 10, ash: ash})
			} else {
				d.audio = append(d.audio, obsAudio{b: p[1:], ts: r.Ts, rec: i, fmt: p[0] >> 4})
			}
		}
	}
	return d, nil
}

// align finds the offset a such that got equals want[a:a+len(got)].  It
// returns the offset, or the first mismatch position for the most plausible
// offset.
func align(n int, wantLen int, maxStart int, eq func(gi, wi int) bool) (a int, mismatch int) {
	if n == 0 {
		return 0, -1
	}
	best, bestAt := -1, -1
	for a := 0; a <= maxStart && a < wantLen; a++ {
		if !eq(0, a) {
			continue
		}
		j := 0
		for j < n && a+j < wantLen && eq(j, a+j) {
			j++
		}
		if j == n {
			return a, -1
		}
		if j > best {
			best, bestAt = j, a
		}
	}
	if bestAt < 0 {
		return -1, 0
	}
	return bestAt, best
}

// offsetSpread checks that ts_out - ms(ticks) is one constant within +-1 ms:
// the spread of (ts_out*clock - ticks*1000) over all frames must not exceed
// 2*clock.  Differences are taken modulo 2^32 ms relative to the first frame.
func offsetSpread(clock int, n int, at func(i int) (ts uint32, ticks int64)) (ok bool, lo, hi int, spreadMs float64) {
	if n == 0 {
		return true, 0, 0, 0
	}
	ts0, t0 := at(0)
	base := uint32(uint64(t0) * 1000 / uint64(clock))
	var min, max int64
	for i := 0; i < n; i++ {
		ts, tk := at(i)
		ms := uint64(tk) * 1000 / uint64(clock)
		frac := int64(uint64(tk) * 1000 % uint64(clock))
		delta := int64(int32((ts - uint32(ms)) - (ts0 - base)))
		x := delta*int64(clock) - frac
		if i == 0 || x < min {
			min, lo = x, i
		}
		if i == 0 || x > max {
			max, hi = x, i
		}
	}
	return max-min <= 2*int64(clock), lo, hi, float64(max-min) / float64(clock)
}

// judge applies the property to what one consumer received.
func judge(s *Stream, e *expectation, o observed) *pbt.Violation {
	d, v := decode(s, o)
	if v != nil {
		return v
	}
	who := o.kind + " consumer"
	// ---- video: NAL units, in order, each once
	if s.Video != "" {
		a, mm := align(len(d.nals), len(e.v), e.vCoreFrom, func(gi, wi int) bool { return bytes.Equal(d.nals[gi].b, e.v[wi].b) })
		if len(d.nals) == 0 {
			if e.vCoreTo > e.vCoreFrom {
				return pbt.V("video/nothing-forwarded", "%s received no video frame although %d NAL units were published in the core", who, e.vCoreTo-e.vCoreFrom)
			}
		} else if mm >= 0 {
			g := d.nals[mm]
			rec := o.recs[d.msgs[g.msg].rec]
			switch {
			case isAud(s.Video, g.b):
				return pbt.V("video/aud-forwarded", "%s: access unit delimiter %x forwarded inside %s", who, g.b, rec)
			case isParamSet(s.Video, g.b):
				return pbt.V("video/parameter-set-in-frame", "%s: parameter set %s left inside the frame message %s", who, short(g.b), rec)
			}
			if a < 0 {
				for wi := range e.v {
					if bytes.Equal(g.b, e.v[wi].b) {
						return pbt.V("video/core-incomplete", "%s: the first forwarded NAL unit is published index %d (unit %d), after the start of the core (index %d)", who, wi, e.v[wi].unit, e.vCoreFrom)
					}
				}
				return pbt.V("video/nal-differs", "%s: the first forwarded NAL unit %s (%d bytes, in %s) is not a published unit", who, short(g.b), len(g.b), rec)
			}
			wi := a + mm
			for k := 1; k <= 8 && wi+k < len(e.v); k++ {
				if bytes.Equal(g.b, e.v[wi+k].b) {
					return pbt.V("video/nal-missing", "%s: after %d matching NAL units, %d published unit(s) are skipped: expected %s (unit %d), got %s (unit %d) in %s",
						who, mm, k, short(e.v[wi].b), e.v[wi].unit, short(g.b), e.v[wi+k].unit, rec)
				}
			}
			for k := 1; k <= 8 && wi-k >= 0; k++ {
				if bytes.Equal(g.b, e.v[wi-k].b) {
					return pbt.V("video/nal-repeated", "%s: NAL unit %s (unit %d) arrives again after %d matching units, expected %s (unit %d); message %s",
						who, short(g.b), e.v[wi-k].unit, mm, short(e.v[wi].b), e.v[wi].unit, rec)
				}
			}
			if wi < len(e.v) {
				return pbt.V("video/nal-differs", "%s: NAL unit %d of the run differs: expected %s (unit %d, %d bytes), got %s (%d bytes) in %s",
					who, mm, short(e.v[wi].b), e.v[wi].unit, len(e.v[wi].b), short(g.b), len(g.b), rec)
			}
			return pbt.V("video/nal-beyond-published", "%s: %d NAL units received, only %d published; extra %s", who, len(d.nals), len(e.v), short(g.b))
		} else {
			if a > e.vCoreFrom || a+len(d.nals) < e.vCoreTo {
				return pbt.V("video/core-incomplete", "%s: forwarded NAL units cover published indices [%d,%d) but the core is [%d,%d) of %d (first missing: unit %d)",
					who, a, a+len(d.nals), e.vCoreFrom, e.vCoreTo, len(e.v), e.v[minInt(a+len(d.nals), len(e.v)-1)].unit)
			}
			// ---- key flag and sequence headers per message
			for _, m := range d.msgs {
				hasIdr, auIdr := false, false
				for k := 0; k < m.n; k++ {
					x := e.v[a+m.first+k]
					hasIdr = hasIdr || x.idr
					auIdr = auIdr || x.auIdr
				}
				x0 := e.v[a+m.first]
				if hasIdr && !m.key {
					return pbt.V("key/idr-message-not-marked-key", "%s: message %s holds an IDR/IRAP unit (unit %d) but is marked as inter frame", who, o.recs[m.rec], x0.unit)
				}
				if !auIdr && m.key {
					return pbt.V("key/non-idr-message-marked-key", "%s: message %s (unit %d, no IDR/IRAP unit in its access unit) is marked as key frame", who, o.recs[m.rec], x0.unit)
				}
				if x0.psKind > 0 {
					if m.vsh == nil {
						return pbt.V("seqhdr/video-frame-before-header", "%s: video message %s (unit %d) arrives before any video sequence header", who, o.recs[m.rec], x0.unit)
					}
					if m.vsh.err != nil {
						return pbt.V("seqhdr/video-header-malformed", "%s: sequence header %s: %v", who, o.recs[m.vsh.rec], m.vsh.err)
					}
					want := paramSets(s.Video, x0.psKind-1)
					same := len(want) == len(m.vsh.sets)
					for k := 0; same && k < len(want); k++ {
						same = bytes.Equal(want[k], m.vsh.sets[k])
					}
					if !same {
						return pbt.V("seqhdr/video-parameter-sets-differ", "%s: video message %s (unit %d) follows sequence header %s carrying %x, publisher's parameter sets in force (variant %d): %x",
							who, o.recs[m.rec], x0.unit, o.recs[m.vsh.rec], m.vsh.sets, x0.psKind-1, want)
					}
				}
			}
			// ---- timestamps
			if ok, lo, hi, spread := offsetSpread(s.VClock, len(d.nals), func(i int) (uint32, int64) { return d.nals[i].ts, e.v[a+i].ticks }); !ok {
				return pbt.V("ts/video-offset-varies", "%s: ts_out - ms(ts_src) varies by %.3f ms over the video track (clock %d): unit %d src %d ticks -> %d ms, unit %d src %d ticks -> %d ms",
					who, spread, s.VClock, e.v[a+lo].unit, e.v[a+lo].ticks, d.nals[lo].ts, e.v[a+hi].unit, e.v[a+hi].ticks, d.nals[hi].ts)
			}
		}
	}
	// ---- audio
	if s.Audio != "" {
		a, mm := align(len(d.audio), len(e.a), e.aCoreFrom, func(gi, wi int) bool { return bytes.Equal(d.audio[gi].b, e.a[wi].b) })
		if len(d.audio) == 0 {
			if e.aCoreTo > e.aCoreFrom {
				return pbt.V("audio/nothing-forwarded", "%s received no audio frame although %d were published in the core", who, e.aCoreTo-e.aCoreFrom)
			}
		} else if mm >= 0 {
			g := d.audio[mm]
			if a < 0 {
				for wi := range e.a {
					if bytes.Equal(g.b, e.a[wi].b) {
						return pbt.V("audio/core-incomplete", "%s: the first forwarded audio frame is published index %d (unit %d), after the start of the core (index %d)", who, wi, e.a[wi].unit, e.aCoreFrom)
					}
				}
				return pbt.V("audio/frame-differs", "%s: the first forwarded audio frame %s (%d bytes, in %s) is not a published frame", who, short(g.b), len(g.b), o.recs[g.rec])
			}
			wi := a + mm
			for k := 1; k <= 8 && wi+k < len(e.a); k++ {
				if bytes.Equal(g.b, e.a[wi+k].b) {
					return pbt.V("audio/frame-missing", "%s: after %d matching audio frames, %d published frame(s) are skipped: expected %s (unit %d, %d bytes), got unit %d",
						who, mm, k, short(e.a[wi].b), e.a[wi].unit, len(e.a[wi].b), e.a[wi+k].unit)
				}
			}
			for k := 1; k <= 8 && wi-k >= 0; k++ {
				if bytes.Equal(g.b, e.a[wi-k].b) {
					return pbt.V("audio/frame-repeated", "%s: audio frame of unit %d arrives again after %d matching frames", who, e.a[wi-k].unit, mm)
				}
			}
			if wi < len(e.a) {
				return pbt.V("audio/frame-differs", "%s: audio frame %d of the run differs: expected %s (unit %d, %d bytes), got %s (%d bytes) in %s",
					who, mm, short(e.a[wi].b), e.a[wi].unit, len(e.a[wi].b), short(g.b), len(g.b), o.recs[g.rec])
			}
			return pbt.V("audio/frame-beyond-published", "%s: %d audio frames received, only %d published", who, len(d.audio), len(e.a))
		} else {
			if a > e.aCoreFrom || a+len(d.audio) < e.aCoreTo {
				return pbt.V("audio/core-incomplete", "%s: forwarded audio frames cover published indices [%d,%d) but the core is [%d,%d) of %d",
					who, a, a+len(d.audio), e.aCoreFrom, e.aCoreTo, len(e.a))
			}
			for _, f := range d.audio {
				if f.fmt != soundFormat[s.Audio] {
					return pbt.V("audio/wrong-sound-format", "%s: audio message %s carries sound format %d, the published codec %s is sound format %d", who, o.recs[f.rec], f.fmt, s.Audio, soundFormat[s.Audio])
				}
			}
			if s.Audio == "aac" {
				for _, f := range d.audio {
					if f.ash == nil {
						return pbt.V("seqhdr/audio-frame-before-header", "%s: AAC frame %s arrives before any AAC sequence header", who, o.recs[f.rec])
					}
					if !bytes.Equal(f.ash, s.asc()) {
						return pbt.V("seqhdr/asc-differs", "%s: AAC sequence header carries %x, publisher's AudioSpecificConfig is %x", who, f.ash, s.asc())
					}
				}
			}
			if ok, lo, hi, spread := offsetSpread(s.AClock, len(d.audio), func(i int) (uint32, int64) { return d.audio[i].ts, e.a[a+i].ticks }); !ok {
				return pbt.V("ts/audio-offset-varies", "%s: ts_out - ms(ts_src) varies by %.3f ms over the audio track (clock %d): unit %d src %d ticks -> %d ms, unit %d src %d ticks -> %d ms",
					who, spread, s.AClock, e.a[a+lo].unit, e.a[a+lo].ticks, d.audio[lo].ts, e.a[a+hi].unit, e.a[a+hi].ticks, d.audio[hi].ts)
			}
		}
	}
	return nil
}

func minInt(a, b int) int {
	if a < b {
		return a
	}
	return b
}

// judgeAll judges every consumer.
func judgeAll(s *Stream, e *expectation, obs []observed) *pbt.Violation {
	for _, o := range obs {
		if v := judge(s, e, o); v != nil {
			return v
		}
	}
	return nil
}

// sameOutput is the metamorphic relation: per track, the perturbed run must
// produce the records of the in-order run (the interleaving between the tracks
// and the held-back tail may differ).
func sameOutput(s *Stream, base, pert []observed) *pbt.Violation {
	for i := range base {
		for _, typ := range []uint8{9, 8} {
			var x, y []lalclient.Rec
			for _, r := range base[i].recs {
				if r.Type == typ {
					x = append(x, r)
				}
			}
			for _, r := range pert[i].recs {
				if r.Type == typ {
					y = append(y, r)
				}
			}
			n := minInt(len(x), len(y))
			for k := 0; k < n; k++ {
				if x[k].Ts != y[k].Ts || !bytes.Equal(x[k].Payload, y[k].Payload) {
					return pbt.V("perturbed/output-differs", "%s consumer, message type %d, position %d: in-order arrival gives %s, perturbed arrival gives %s", base[i].kind, typ, k, x[k], y[k])
				}
			}
		}
	}
	return nil
}

func uniq(in []string) []string {
	seen := map[string]bool{}
	var out []string
	for _, s := range in {
		if !seen[s] {
			seen[s] = true
			out = append(out, s)
		}
	}
	return out
}

// combo is the cross-product label ingest kind x codecs x perturbation.
func combo(kind string, s *Stream, pert string) string {
	v, a := s.Video, s.Audio
	if v == "" {
		v = "-"
	}
	if a == "" {
		a = "-"
	}
	return "combo:" + kind + "/" + v + "+" + a + "/" + pert
}

func streamLabels(s *Stream) []string {
	l := []string{}
	if s.Video != "" {
		l = append(l, "v:"+s.Video)
	} else {
		l = append(l, "v:none")
	}
	if s.Audio != "" {
		l = append(l, "a:"+s.Audio)
	} else {
		l = append(l, "a:none")
	}
	if s.Pad >= 1000 {
		l = append(l, "drift-run")
	}
	if n := s.soloN(); n > 0 {
		x := "solo-run:audio"
		if s.SoloV {
			x = "solo-run:video"
		}
		if n >= 128 {
			x += ">=128"
		} else {
			x += "<128"
		}
		if s.SoloLate {
			x += "/other-late"
		} else {
			x += "/other-silent"
		}
		l = append(l, x)
	}
	hasTiny, hasTrail, churn, big := false, false, 0, false
	for _, u := range s.Units[s.NPre:] {
		if u.V {
			if u.PS > 0 {
				churn++
			}
			for i, n := range u.Nals {
				if n.Len <= 1 {
					hasTiny = true
				}
				if n.Len > 60000 {
					big = true
				}
				b := n.Bytes()
				if i == len(u.Nals)-1 && i > 0 && !isIdr(s.Video, b) && u.Key {
					hasTrail = true
				}
			}
		} else if u.ALen < 5 {
			l = append(l, "audio-frame<5B")
		}
	}
	if hasTiny {
		l = append(l, "nal<=1B-body")
	}
	if hasTrail {
		l = append(l, "key-frame-with-trailing-non-idr-unit")
	}
	if churn > 0 {
		l = append(l, "in-band-parameter-sets")
	}
	if big {
		l = append(l, "nal>60000B")
	}
	return l
}
