// RTSP leg of C07: ANNOUNCE / SETUP / RECORD over interleaved TCP by the
// reference RTSP client, RTP produced by the reference packetisers with a
// generated mode per unit, generated initial sequence numbers (incl. next to
// 65535), arrival perturbation (reordering inside the window, duplicates) and
// the metamorphic comparison with the in-order run.
//
// Domain notes: the preamble's packets are never perturbed — a receiver cannot
// know the initial sequence number, so whatever arrives first is the start of
// the stream for every RTP receiver; displacement stays below 64 packets
// (lal's reorder list holds 1024).
package c07

import (
	"fmt"
	"net"
	"runtime"
	"sort"
	"strconv"
	"strings"
	"syscall"
	"time"

	"pgregory.net/rapid"

	"verif/drv/pbt"
	"verif/harness/inproc"
	"verif/harness/lalclient"
	"verif/ref/rtpref"
	"verif/ref/rtspref"
)

// Op perturbs one packet (At is taken modulo the number of perturbable
// packets): it arrives Delay positions later, or (Dup) a copy of it does.
type Op struct {
	At    int  `json:"at"`
	Delay int  `json:"delay"`
	Dup   bool `json:"dup,omitempty"`
}

// Perturb describes the arrival order: every perturbable packet is delayed by
// hash(Seed, index) mod Win positions (Win <= 1: none), then the Ops apply.
type Perturb struct {
	Win  int    `json:"win,omitempty"`
	Seed uint32 `json:"seed,omitempty"`
	Ops  []Op   `json:"ops,omitempty"`
}

func (p Perturb) active() bool { return p.Win > 1 || len(p.Ops) > 0 }

type RtspCase struct {
	S          Stream  `json:"s"`
	Sprop      bool    `json:"sprop"` // SDP carries the parameter sets
	AudioFirst bool    `json:"audio_first,omitempty"`
	VPT        int     `json:"vpt"`
	APT        int     `json:"apt"`
	VSeq       uint16  `json:"vseq"`
	ASeq       uint16  `json:"aseq"`
	VSsrc      uint32  `json:"vssrc"`
	ASsrc      uint32  `json:"assrc"`
	MaxPayload int     `json:"max_payload"`
	Pert       Perturb `json:"pert"`
	// Udp: SETUP with client_port, RTP as loopback datagrams to the ports lal allocates (read by lal's own
	// per-track UDP goroutines) instead of interleaved frames on the RTSP connection.
	Udp bool `json:"udp,omitempty"`
	// Rtcp: sender reports, SDES and BYE on the RTCP channel / port (see rtcp_test.go)
	Rtcp RtcpPlan `json:"rtcp"`
}

type wirePkt struct {
	track int // 0 video, 1 audio
	raw   []byte
	pos   int // index of the unit that completes the packet (feed position)
	pre   bool
	kind  string // single | aggregate | fragment
}

func mix(seed uint32, i int) uint32 {
	x := seed ^ uint32(i)*0x9E3779B1
	x ^= x >> 15
	x *= 0x85EBCA6B
	x ^= x >> 13
	x *= 0xC2B2AE35
	x ^= x >> 16
	return x
}

// perturb reorders / duplicates the non-preamble packets.
func perturb(pk []wirePkt, p Perturb) []wirePkt {
	if !p.active() {
		return pk
	}
	type item struct {
		key, ord int
		p        wirePkt
	}
	first := 0
	for first < len(pk) && pk[first].pre {
		first++
	}
	// packets of the preamble of the *other* track may still follow: only the
	// leading run of preamble packets is pinned, later preamble packets are
	// never moved either (delay 0), but may be overtaken by nobody because
	// delays only move packets to later positions.
	var items []item
	var movable []int
	for i, q := range pk {
		items = append(items, item{key: 2 * i, ord: i, p: q})
		if !q.pre && i >= first {
			movable = append(movable, i)
		}
	}
	if len(movable) == 0 {
		return pk
	}
	if p.Win > 1 {
		for _, i := range movable {
			items[i].key += 2 * int(mix(p.Seed, i)%uint32(p.Win))
		}
	}
	for n, op := range p.Ops {
		i := movable[((op.At%len(movable))+len(movable))%len(movable)]
		d := op.Delay
		if d < 0 {
			d = -d
		}
		d %= 32
		if op.Dup {
			items = append(items, item{key: items[i].key + 2*d + 1, ord: len(pk) + n, p: pk[i]})
		} else {
			items[i].key += 2*d + 1
		}
	}
	sort.SliceStable(items, func(a, b int) bool {
		if items[a].key != items[b].key {
			return items[a].key < items[b].key
		}
		return items[a].ord < items[b].ord
	})
	out := make([]wirePkt, len(items))
	for i := range items {
		out[i] = items[i].p
	}
	return out
}

// planOf returns the packetisation wish for NAL unit / access unit j of u,
// size bytes long.  A unit is never cut into more than 200 fragments: lal's
// reorder list holds 1024 packets, a frame that needs more cannot be
// reassembled by design (and no sender produces such frames).
func planOf(u Unit, j int, size int) rtpref.UnitPlan {
	if len(u.P.M) == 0 {
		return rtpref.UnitPlan{}
	}
	chunk := u.P.Chunk
	if min := (size + 199) / 200; chunk > 0 && chunk < min {
		chunk = min
	}
	return rtpref.UnitPlan{Mode: rtpref.Mode(u.P.M[j%len(u.P.M)] % 3), Chunk: chunk}
}

func videoPayloadKind(codec string, pl []byte) string {
	if codec == "hevc" {
		switch (pl[0] >> 1) & 0x3f {
		case 48:
			return "aggregate"
		case 49:
			return "fragment"
		}
		return "single"
	}
	switch pl[0] & 0x1f {
	case 24:
		return "aggregate"
	case 28:
		return "fragment"
	}
	return "single"
}

// packets renders the whole stream (preamble, core, pad) as RTP packets in
// feed order.
func (c *RtspCase) packets() []wirePkt {
	s := &c.S
	units := s.all()
	var out []wirePkt
	vseq := &rtpref.Sequencer{PT: uint8(c.VPT), SSRC: c.VSsrc, Seq: c.VSeq}
	aseq := &rtpref.Sequencer{PT: uint8(c.APT), SSRC: c.ASsrc, Seq: c.ASeq}
	add := func(track int, pkts []*rtpref.Packet, pos int, pre bool, kinds []string) {
		for k, p := range pkts {
			out = append(out, wirePkt{track: track, raw: p.Marshal(), pos: pos, pre: pre, kind: kinds[k]})
		}
	}
	// audio groups are emitted when their last access unit is reached
	var seg []int // indices of AAC units collected for one PacketizeAAC call
	flushAAC := func() {
		if len(seg) == 0 {
			return
		}
		aus := make([][]byte, len(seg))
		plans := make([]rtpref.UnitPlan, len(seg))
		for k, i := range seg {
			aus[k] = audioBytes(units[i])
			if i >= s.NPre {
				plans[k] = planOf(units[i], 0, len(aus[k]))
			}
		}
		groups, err := rtpref.PacketizeAAC(rtpref.AACHbr, aus, plans, c.MaxPayload)
		if err != nil {
			panic(pbt.HarnessError{Msg: "c07: PacketizeAAC: " + err.Error()})
		}
		k := 0
		for _, g := range groups {
			firstU, lastU := seg[k], seg[k+g.AUs-1]
			kind := "single"
			if g.AUs > 1 {
				kind = "aggregate"
			} else if len(g.Payloads) > 1 {
				kind = "fragment"
			}
			kinds := make([]string, len(g.Payloads))
			for x := range kinds {
				kinds[x] = kind
			}
			add(1, aseq.Frame(g.Payloads, uint32(units[firstU].T), true), lastU, lastU < s.NPre, kinds)
			k += g.AUs
		}
		seg = seg[:0]
	}
	codec := rtpref.Codec(s.Video)
	for i, u := range units {
		if u.V {
			nals := s.nalsOf(u)
			bs := make([][]byte, len(nals))
			plans := make([]rtpref.UnitPlan, len(nals))
			for j, n := range nals {
				bs[j] = n.b
				if i >= s.NPre {
					plans[j] = planOf(u, j, len(n.b))
				}
			}
			pls, err := rtpref.PacketizeVideo(codec, bs, plans, c.MaxPayload)
			if err != nil {
				panic(pbt.HarnessError{Msg: "c07: PacketizeVideo: " + err.Error()})
			}
			kinds := make([]string, len(pls))
			for x := range pls {
				kinds[x] = videoPayloadKind(s.Video, pls[x])
			}
			add(0, vseq.Frame(pls, uint32(u.T), true), i, i < s.NPre, kinds)
			continue
		}
		if s.Audio != "aac" {
			add(1, aseq.Frame([][]byte{audioBytes(u)}, uint32(u.T), true), i, i < s.NPre, []string{"single"})
			continue
		}
		// AAC: units may share a packet only while they are 1024 ticks apart and on the same side of the preamble boundary
		if n := len(seg); n > 0 {
			prev := units[seg[n-1]]
			if u.T != prev.T+1024 || (seg[n-1] < s.NPre) != (i < s.NPre) || (seg[n-1] < len(s.Units)) != (i < len(s.Units)) {
				flushAAC()
			}
		}
		seg = append(seg, i)
		// a group is complete as soon as the next unit does not wish to be aggregated with it; to keep the feed order
		// simple the segment is flushed whenever the current unit does not ask for aggregation
		// (and after four units: AAC-hbr senders put 1-4 access units into a packet)
		if i < s.NPre || i >= len(s.Units) || planOf(u, 0, u.ALen).Mode != rtpref.ModeAggregate || len(seg) >= 4 {
			flushAAC()
		}
	}
	flushAAC()
	// stable order by feed position (packets of a group sit at the position of the group's last unit)
	sort.SliceStable(out, func(a, b int) bool { return out[a].pos < out[b].pos })
	return out
}

func (c *RtspCase) tracks() []rtspref.Track {
	s := &c.S
	var v, a *rtspref.Track
	if s.Video != "" {
		t := rtspref.Track{Media: "video", PT: c.VPT, ClockRate: 90000}
		sets := paramSets(s.Video, c.sdpVariant())
		if s.Video == "hevc" {
			t.Encoding = "H265"
			if c.Sprop {
				t.Fmtp = rtspref.H265Fmtp(sets[0], sets[1], sets[2])
			}
		} else {
			t.Encoding = "H264"
			if c.Sprop {
				t.Fmtp = rtspref.H264Fmtp(sets[0], sets[1])
			} else {
				t.Fmtp = "packetization-mode=1"
			}
		}
		v = &t
	}
	switch s.Audio {
	case "aac":
		ch := s.AscChan
		if ch == 7 {
			ch = 8
		}
		a = &rtspref.Track{Media: "audio", PT: c.APT, Encoding: "MPEG4-GENERIC", ClockRate: s.AClock, Channels: ch, Fmtp: rtspref.AacFmtp(s.asc())}
	case "g711a":
		a = &rtspref.Track{Media: "audio", PT: c.APT, Encoding: "PCMA", ClockRate: 8000, Channels: 1}
	case "g711u":
		a = &rtspref.Track{Media: "audio", PT: c.APT, Encoding: "PCMU", ClockRate: 8000, Channels: 1}
	case "opus":
		a = &rtspref.Track{Media: "audio", PT: c.APT, Encoding: "opus", ClockRate: 48000, Channels: 2}
	}
	var out []rtspref.Track
	if c.AudioFirst && a != nil {
		out = append(out, *a)
	}
	if v != nil {
		out = append(out, *v)
	}
	if !c.AudioFirst && a != nil {
		out = append(out, *a)
	}
	for i := range out {
		out[i].Control = fmt.Sprintf("streamid=%d", i)
	}
	return out
}

// sdpVariant is the parameter-set variant announced in the SDP: the one of
// the preamble's key frame.
func (c *RtspCase) sdpVariant() int {
	for _, u := range c.S.Units {
		if u.V && u.PS > 0 {
			return u.PS - 1
		}
	}
	return 0
}

func (c *RtspCase) sdpPS() int {
	if c.Sprop && c.S.Video != "" {
		return c.sdpVariant() + 1
	}
	return 0
}

// udpWindow is the number of datagrams sent before the sender waits for lal's read-byte counter to cover them:
// 24 datagrams of at most 1412 bytes stay far below the loopback socket's receive buffer, so none is dropped and
// the arrival order is the generated one.
const udpWindow = 24

// ackedSender paces datagrams (or any other unacknowledged transport) against StatGroup().StatPub.ReadBytesSum,
// which lal increments for every packet before it parses it, in the goroutine that reads the socket.
type ackedSender struct {
	s       *inproc.Server
	total   uint64
	pending int
}

func (a *ackedSender) sent(n int) {
	a.total += uint64(n)
	a.pending++
	if a.pending >= udpWindow {
		a.wait()
	}
}

// wait blocks until lal has read everything sent so far.
func (a *ackedSender) wait() {
	a.pending = 0
	deadline := time.Now().Add(20 * time.Second)
	for i := 0; ; i++ {
		st := a.s.SM.StatGroup(streamName)
		if st != nil && st.StatPub.ReadBytesSum >= a.total {
			return
		}
		if time.Now().After(deadline) {
			lalclient.Harness("c07: lal read %v of %d bytes sent over the socket within 20 s (datagram lost?)", st, a.total)
		}
		if i < 200 {
			runtime.Gosched()
		} else {
			time.Sleep(100 * time.Microsecond)
		}
	}
}

type udpTrack struct {
	sock    *net.UDPConn // RTP, bound to client_port
	dst     *net.UDPAddr
	rtcp    *net.UDPConn // RTCP, bound to client_port+1
	rtcpDst *net.UDPAddr
}

// udpPair binds two loopback sockets on consecutive ports (RTP on the lower one).
func udpPair() (rtp, rtcp *net.UDPConn) {
	for i := 0; i < 200; i++ {
		a, err := net.ListenUDP("udp4", &net.UDPAddr{IP: net.IPv4(127, 0, 0, 1)})
		if err != nil {
			lalclient.Harness("c07: udp socket: %v", err)
		}
		port := a.LocalAddr().(*net.UDPAddr).Port
		if port < 65535 {
			if b, err := net.ListenUDP("udp4", &net.UDPAddr{IP: net.IPv4(127, 0, 0, 1), Port: port + 1}); err == nil {
				return a, b
			}
		}
		_ = a.Close()
	}
	lalclient.Harness("c07: no pair of consecutive free udp ports")
	return nil, nil
}

// drainSock returns the datagrams waiting in the socket's receive queue without ever blocking (a read deadline
// would make the result depend on scheduling: an expired deadline fails the read before the queue is looked at).
func drainSock(c *net.UDPConn) [][]byte {
	var out [][]byte
	rc, err := c.SyscallConn()
	if err != nil {
		lalclient.Harness("c07: SyscallConn: %v", err)
	}
	buf := make([]byte, 2048)
	_ = rc.Read(func(fd uintptr) bool {
		for {
			n, _, err := syscall.Recvfrom(int(fd), buf, syscall.MSG_DONTWAIT)
			if err == syscall.EINTR {
				continue
			}
			if err != nil {
				return true
			}
			out = append(out, append([]byte(nil), buf[:n]...))
		}
	})
	return out
}

// publishUDP is rtspref.Client.Publish with UDP transport: OPTIONS, ANNOUNCE, one SETUP per track announcing a
// client port pair and learning lal's server port pair, RECORD.
func publishUDP(cl *rtspref.Client, uri string, tracks []rtspref.Track) ([]udpTrack, *rtspref.Response, error) {
	do := func(method, u string, h map[string]string, body []byte) (*rtspref.Response, error) {
		r, err := cl.Do(method, u, h, body)
		if err != nil {
			return nil, err
		}
		if r.Status != 200 {
			return r, fmt.Errorf("%s: %d %s", method, r.Status, r.Reason)
		}
		return r, nil
	}
	if r, err := do("OPTIONS", uri, nil, nil); err != nil {
		return nil, r, err
	}
	if r, err := do("ANNOUNCE", uri, map[string]string{"Content-Type": "application/sdp"}, rtspref.BuildSdp(tracks)); err != nil {
		return nil, r, err
	}
	var out []udpTrack
	for _, t := range tracks {
		sock, rtcpSock := udpPair()
		out = append(out, udpTrack{sock: sock, rtcp: rtcpSock})
		port := sock.LocalAddr().(*net.UDPAddr).Port
		r, err := do("SETUP", uri+"/"+t.Control, map[string]string{"Transport": fmt.Sprintf("RTP/AVP/UDP;unicast;client_port=%d-%d;mode=record", port, port+1)}, nil)
		if err != nil {
			return out, r, err
		}
		sp, sp2 := 0, 0
		for _, f := range strings.Split(r.Headers["transport"], ";") {
			if strings.HasPrefix(strings.TrimSpace(f), "server_port=") {
				v := strings.TrimPrefix(strings.TrimSpace(f), "server_port=")
				if i := strings.IndexByte(v, '-'); i >= 0 {
					sp2, _ = strconv.Atoi(v[i+1:])
					v = v[:i]
				}
				sp, _ = strconv.Atoi(v)
			}
		}
		if sp <= 0 || sp > 65535 || sp2 <= 0 || sp2 > 65535 {
			return out, r, fmt.Errorf("SETUP response without usable server_port pair: Transport: %q", r.Headers["transport"])
		}
		out[len(out)-1].dst = &net.UDPAddr{IP: net.IPv4(127, 0, 0, 1), Port: sp}
		out[len(out)-1].rtcpDst = &net.UDPAddr{IP: net.IPv4(127, 0, 0, 1), Port: sp2}
	}
	if r, err := do("RECORD", uri, map[string]string{"Range": "npt=0.000-"}, nil); err != nil {
		return out, r, err
	}
	return out, nil, nil
}

func runRtspOnce(c *RtspCase, pk []wirePkt) ([]observed, *pbt.Violation) {
	s := inproc.New(inproc.Config{DisableTs: true})
	defer s.Close()
	x, v := attach(s)
	if v != nil {
		return nil, v
	}
	conn := s.RtspConn()
	_ = conn.SetReadDeadline(time.Now().Add(lalclient.IdleTimeout))
	cl := rtspref.NewClient(conn)
	tracks := c.tracks()
	uri := "rtsp://127.0.0.1:5544/live/" + streamName
	var r *rtspref.Response
	var err error
	var udp []udpTrack
	if c.Udp {
		udp, r, err = publishUDP(cl, uri, tracks)
		defer func() {
			for _, u := range udp {
				_ = u.sock.Close()
				_ = u.rtcp.Close()
			}
		}()
	} else {
		r, err = cl.Publish(uri, tracks)
	}
	if err != nil {
		if v := s.PanicViolation(); v != nil {
			return nil, v
		}
		return nil, pbt.V("rtsp/publish-refused", "ANNOUNCE/SETUP/RECORD of a valid session description failed: %v (response %+v); SDP:\n%s", err, r, rtspref.BuildSdp(tracks))
	}
	// lal turns the session description into sequence headers in a goroutine of its own (SetObserver); the first
	// RTP packet must not overtake it, which no real client could do either (it waits for the RECORD response
	// that is written after the goroutine was started, and network latency does the rest)
	if c.Sprop && c.S.Video != "" {
		if !x.waitFor(func(r lalclient.Rec) bool { return r.Type == 9 && len(r.Payload) > 1 && r.Payload[1] == 0 }) {
			if v := s.PanicViolation(); v != nil {
				return nil, v
			}
			return nil, pbt.V("seqhdr/sdp-parameter-sets-not-announced", "no video sequence header reached the consumers within 10 s after RECORD although the SDP carries the parameter sets; SDP:\n%s", rtspref.BuildSdp(tracks))
		}
	} else if c.S.Audio == "aac" {
		if !x.waitFor(func(r lalclient.Rec) bool { return r.Type == 8 && len(r.Payload) > 1 && r.Payload[0]>>4 == 10 && r.Payload[1] == 0 }) {
			if v := s.PanicViolation(); v != nil {
				return nil, v
			}
			return nil, pbt.V("seqhdr/sdp-asc-not-announced", "no AAC sequence header reached the consumers within 10 s after RECORD; SDP:\n%s", rtspref.BuildSdp(tracks))
		}
	}
	chV, chA := 0, 2
	if c.AudioFirst && c.S.Audio != "" {
		chV, chA = 2, 0
	}
	if c.S.Video == "" {
		chA = 0
	}
	drain := func() *pbt.Violation {
		if !conn.WaitPeerIdle(lalclient.IdleTimeout) {
			lalclient.Harness("c07: rtsp publisher not drained")
		}
		if conn.PeerGone() {
			if v := s.PanicViolation(); v != nil {
				return v
			}
			return pbt.V("rtsp/publisher-disconnected", "lal ended the publishing session while RTP was being delivered")
		}
		return nil
	}
	// ---- RTCP bookkeeping (rtcp_test.go)
	plan := c.Rtcp
	tr := [2]*rtcpTrack{{ssrc: c.VSsrc, clock: 90000}, {ssrc: c.ASsrc, clock: c.S.AClock}}
	present := [2]bool{c.S.Video != "", c.S.Audio != ""}
	rtpCh := [2]int{chV, chA}
	type reply struct {
		track int  // -1: no track of the session uses this channel
		onRtp bool // arrived on the RTP channel / socket of the track
		ch    int
		b     []byte
	}
	var replies []reply
	judgeRtcp := func() *pbt.Violation {
		got := [2]int{}
		for _, r := range replies {
			where := fmt.Sprintf("interleaved channel %d", r.ch)
			if c.Udp {
				where = "the RTP socket"
			}
			if r.track < 0 {
				return pbt.V("rtcp/report-on-unknown-channel", "lal sent %d bytes (% x) on %s, which no track of the session uses (rtp channels video=%d audio=%d)", len(r.b), r.b[:minInt(len(r.b), 16)], where, chV, chA)
			}
			if r.onRtp {
				return pbt.V("rtcp/report-on-rtp-channel", "lal sent %d bytes (% x) to the publisher on %s of track %d: that is the RTP channel, reports belong on the RTCP channel", len(r.b), r.b[:minInt(len(r.b), 16)], where, r.track)
			}
			if _, err := checkRtcp(r.b); err != nil {
				return pbt.V("rtcp/malformed-report", "lal's RTCP packet for track %d (% x) is not well-formed: %v", r.track, r.b, err)
			}
			got[r.track]++
		}
		for t := 0; t < 2; t++ {
			if present[t] && tr[t].eligible > 0 && got[t] == 0 {
				return pbt.V("rtcp/no-receiver-report", "%d sender reports for track %d (ssrc %#x) were sent on its RTCP channel after lal had processed RTP of that track; no receiver report came back on that channel (%d RTCP packets on the other)", tr[t].eligible, t, tr[t].ssrc, got[1-t])
			}
		}
		return nil
	}
	finish := func() ([]observed, *pbt.Violation) {
		obs, v := x.finish()
		if v != nil {
			return nil, v
		}
		if v := judgeRtcp(); v != nil {
			return nil, v
		}
		return obs, nil
	}
	if c.Udp {
		// track index in SDP order = interleaved channel / 2
		acks := &ackedSender{s: s}
		var last [2][]byte
		send := func(track int, raw []byte) {
			u := udp[rtpCh[track]/2]
			if _, err := u.sock.WriteToUDP(raw, u.dst); err != nil {
				lalclient.Harness("c07: udp send: %v", err)
			}
			acks.sent(len(raw))
		}
		sendRtcp := func(track int, b []byte) {
			u := udp[rtpCh[track]/2]
			if _, err := u.rtcp.WriteToUDP(b, u.rtcpDst); err != nil {
				lalclient.Harness("c07: udp send (rtcp): %v", err)
			}
			acks.sent(len(b))
		}
		collect := func() {
			for t := 0; t < 2; t++ {
				if !present[t] {
					continue
				}
				u := udp[rtpCh[t]/2]
				for _, b := range drainSock(u.rtcp) {
					replies = append(replies, reply{track: t, b: b})
				}
				for _, b := range drainSock(u.sock) {
					replies = append(replies, reply{track: t, onRtp: true, b: b})
				}
			}
		}
		// barrier: lal handles each track in a goroutine of its own, packet by packet; a duplicate of the track's last
		// packet (discarded by the reorder list either as stale or as already present) that has been counted proves
		// that everything sent before it on that track has been processed completely
		barrier := func() {
			acks.wait()
			for t := 0; t < 2; t++ {
				if last[t] != nil {
					send(t, last[t])
				}
			}
			acks.wait()
			for t := 0; t < 2; t++ {
				tr[t].settled = tr[t].have
			}
			collect()
		}
		if plan.First {
			for t := 0; t < 2; t++ {
				if present[t] {
					sendRtcp(t, tr[t].report(plan, false))
				}
			}
		}
		for i, p := range pk {
			send(p.track, p.raw)
			last[p.track] = p.raw
			tr[p.track].onRtp(p.raw)
			if plan.Every > 0 && i%plan.Every == plan.Every-1 {
				sendRtcp(p.track, tr[p.track].report(plan, false))
			}
			if i%syncEvery == syncEvery-1 {
				barrier()
				if v := x.sync(); v != nil {
					return nil, v
				}
			}
		}
		barrier()
		if plan.active() {
			// two more reports per track: the RTCP socket of a track is read by one goroutine, so once the second has
			// been counted the answer to the first has been written
			for t := 0; t < 2; t++ {
				if present[t] {
					sendRtcp(t, tr[t].report(plan, false))
					tr[t].reports-- // the repeat is a probe, not a report of its own
					tr[t].eligible--
					sendRtcp(t, tr[t].report(plan, false))
				}
			}
			acks.wait()
			collect()
			if plan.Bye {
				for t := 0; t < 2; t++ {
					if present[t] {
						tr[t].eligible-- // nothing is read after the BYE
						sendRtcp(t, tr[t].report(plan, true))
					}
				}
				acks.wait()
			}
		}
		if conn.PeerGone() {
			if v := s.PanicViolation(); v != nil {
				return nil, v
			}
			return nil, pbt.V("rtsp/publisher-disconnected", "lal ended the publishing session while RTP was being delivered")
		}
		return finish()
	}
	sendRtcp := func(track int, b []byte) error { return cl.WriteFrame(rtpCh[track]+1, b) }
	// collect: an OPTIONS round trip (clients use it as keep-alive); its response travels through the same write
	// queue as lal's interleaved RTCP, so every report written before it has been read when it arrives
	collect := func() *pbt.Violation {
		if !plan.active() {
			return nil
		}
		_ = conn.SetReadDeadline(time.Now().Add(lalclient.IdleTimeout))
		if _, err := cl.Do("OPTIONS", uri, nil, nil); err != nil {
			if v := s.PanicViolation(); v != nil {
				return v
			}
			return pbt.V("rtsp/publisher-disconnected", "OPTIONS inside the publishing session failed: %v", err)
		}
		for _, f := range cl.Pending {
			r := reply{track: -1, ch: f.Channel, b: f.Payload}
			for t := 0; t < 2; t++ {
				if present[t] && (f.Channel == rtpCh[t] || f.Channel == rtpCh[t]+1) {
					r.track, r.onRtp = t, f.Channel == rtpCh[t]
				}
			}
			replies = append(replies, r)
		}
		cl.Pending = nil
		return nil
	}
	fail := func(err error) ([]observed, *pbt.Violation) {
		if v := s.PanicViolation(); v != nil {
			return nil, v
		}
		return nil, pbt.V("rtsp/publisher-disconnected", "lal closed the publisher's connection: %v", err)
	}
	if plan.First {
		for t := 0; t < 2; t++ {
			if present[t] {
				if err := sendRtcp(t, tr[t].report(plan, false)); err != nil {
					return fail(err)
				}
			}
		}
	}
	for i, p := range pk {
		if err := cl.WriteFrame(rtpCh[p.track], p.raw); err != nil {
			return fail(err)
		}
		// the RTSP connection is read by one goroutine: whatever follows this packet is handled after it
		tr[p.track].onRtp(p.raw)
		tr[p.track].settled = true
		if plan.Every > 0 && i%plan.Every == plan.Every-1 {
			if err := sendRtcp(p.track, tr[p.track].report(plan, false)); err != nil {
				return fail(err)
			}
		}
		if i%syncEvery == syncEvery-1 {
			if v := drain(); v != nil {
				return nil, v
			}
			if v := collect(); v != nil {
				return nil, v
			}
			if v := x.sync(); v != nil {
				return nil, v
			}
		}
	}
	if plan.Bye {
		for t := 0; t < 2; t++ {
			if present[t] {
				if err := sendRtcp(t, tr[t].report(plan, true)); err != nil {
					return fail(err)
				}
			}
		}
	}
	if v := drain(); v != nil {
		return nil, v
	}
	if v := collect(); v != nil {
		return nil, v
	}
	return finish()
}

func runRtsp(c RtspCase) *pbt.Violation {
	pk := c.packets()
	e := c.S.expect(c.sdpPS())
	base, v := runRtspOnce(&c, pk)
	if v != nil {
		return v
	}
	if v := judgeAll(&c.S, e, base); v != nil {
		return v
	}
	if !c.Pert.active() {
		return nil
	}
	pert, v := runRtspOnce(&c, perturb(pk, c.Pert))
	if v != nil {
		v.Sig = "perturbed/" + v.Sig
		return v
	}
	if v := judgeAll(&c.S, e, pert); v != nil {
		v.Sig = "perturbed/" + v.Sig
		return v
	}
	return sameOutput(&c.S, base, pert)
}

// ---------------------------------------------------------------------------

func genPerturb(t *rapid.T) Perturb {
	var p Perturb
	switch rapid.IntRange(0, 5).Draw(t, "pertClass") {
	case 0:
		return p
	case 1, 2:
		p.Win = rapid.SampledFrom([]int{2, 3, 5, 8, 16, 32}).Draw(t, "pertWin")
		p.Seed = rapid.Uint32().Draw(t, "pertSeed")
	}
	n := rapid.IntRange(0, 6).Draw(t, "nops")
	if p.Win == 0 && n == 0 {
		n = 1
	}
	for i := 0; i < n; i++ {
		p.Ops = append(p.Ops, Op{At: rapid.IntRange(0, 400).Draw(t, "opAt"), Delay: rapid.IntRange(0, 31).Draw(t, "opDelay"), Dup: rapid.Bool().Draw(t, "opDup")})
	}
	return p
}

func genRtsp(t *rapid.T) RtspCase {
	var c RtspCase
	c.Udp = rapid.IntRange(0, 9).Draw(t, "udp") == 6
	c.MaxPayload = rapid.SampledFrom([]int{1400, 1400, 1200, 200, 100, 60, 30, 1460, 8000}).Draw(t, "maxPayload")
	if c.Udp && c.MaxPayload > 1400 {
		c.MaxPayload = 1400 // lal reads datagrams into 1500-byte buffers (rtprtcp.MaxRtpRtcpPacketSize), the usual MTU
	}
	o := streamOpts{kind: "rtsp", sizeEdges: []int{c.MaxPayload, c.MaxPayload - 3, c.MaxPayload / 2, 2 * c.MaxPayload}, maxNal: 20000}
	if pbt.Thorough() {
		o.maxNal = 300000
	}
	if lim := 200 * (c.MaxPayload - 4); o.maxNal > lim {
		o.maxNal = lim // at most 200 fragments per unit
	}
	o.pack = func(t *rapid.T, s *Stream, u *Unit, pre bool) {
		if pre {
			return
		}
		n := 1
		if u.V {
			n = len(s.nalsOf(*u))
		}
		switch rapid.IntRange(0, 4).Draw(t, "packClass") {
		case 0: // all single
		case 1: // all aggregate
			u.P.M = []uint8{1}
		case 2:
			u.P.M = []uint8{2}
		default:
			for i := 0; i < n; i++ {
				u.P.M = append(u.P.M, uint8(rapid.IntRange(0, 2).Draw(t, "mode")))
			}
		}
		if rapid.IntRange(0, 2).Draw(t, "chunked") == 0 {
			u.P.Chunk = rapid.SampledFrom([]int{1, 2, 7, 50, 500}).Draw(t, "chunk")
		}
	}
	c.S = genStream(t, o)
	if c.Udp && c.S.Audio != "aac" {
		// G.711 / Opus travel one frame per packet: over UDP a frame has to fit the datagram lal reads (1500 bytes)
		for i := range c.S.Units {
			if u := &c.S.Units[i]; !u.V && u.ALen > c.MaxPayload {
				u.ALen = c.MaxPayload
			}
		}
	}
	c.Sprop = rapid.IntRange(0, 3).Draw(t, "sprop") != 0
	c.AudioFirst = rapid.IntRange(0, 3).Draw(t, "audioFirst") == 0
	c.VPT = rapid.IntRange(96, 127).Draw(t, "vpt")
	switch c.S.Audio {
	case "g711a":
		c.APT = 8
	case "g711u":
		c.APT = 0
	default:
		c.APT = rapid.IntRange(96, 127).Draw(t, "apt")
		if c.APT == c.VPT {
			c.APT = 96 + (c.VPT-96+1)%32
		}
	}
	seq := rapid.OneOf(rapid.Uint16(), rapid.Uint16Range(65400, 65535), rapid.SampledFrom([]uint16{0, 65535, 65534, 32767, 32768}))
	c.VSeq, c.ASeq = seq.Draw(t, "vseq"), seq.Draw(t, "aseq")
	// SSRCs: distinct (RFC 3550 8.1) and not 0, the value lal's "no packet seen yet" state compares equal to
	c.VSsrc, c.ASsrc = rapid.Uint32Range(1, 1<<32-1).Draw(t, "vssrc"), rapid.Uint32Range(1, 1<<32-1).Draw(t, "assrc")
	if c.ASsrc == c.VSsrc {
		c.ASsrc ^= 0x5A5A5A5A
	}
	if rapid.IntRange(0, 3).Draw(t, "rtcp") != 1 {
		c.Rtcp.Every = rapid.SampledFrom([]int{1, 1, 2, 3, 7, 50, 0}).Draw(t, "rtcpEvery")
		c.Rtcp.First = rapid.Bool().Draw(t, "rtcpFirst")
		c.Rtcp.Sdes = rapid.SampledFrom([]int{0, 1, 1, 3}).Draw(t, "rtcpSdes")
		c.Rtcp.Bye = rapid.Bool().Draw(t, "rtcpBye")
	}
	c.Pert = genPerturb(t)
	return c
}

func classifyRtsp(c RtspCase) (bool, []string) {
	l := append([]string{"kind:rtsp"}, streamLabels(&c.S)...)
	if c.Udp {
		l = append(l, "transport:udp")
	} else {
		l = append(l, "transport:interleaved")
	}
	if c.Rtcp.active() {
		if c.Rtcp.Every == 1 {
			l = append(l, "rtcp:sr-after-every-packet(between-fragments)")
		} else if c.Rtcp.Every > 1 {
			l = append(l, "rtcp:sr-every-n")
		}
		if c.Rtcp.First {
			l = append(l, "rtcp:sr-before-first-rtp")
		}
		if c.Rtcp.Sdes > 0 {
			l = append(l, "rtcp:compound-sr+sdes")
		}
		if c.Rtcp.Bye {
			l = append(l, "rtcp:bye-at-end")
		}
	} else {
		l = append(l, "rtcp:none")
	}
	pk := c.packets()
	modes := map[string]bool{}
	nv, na := 0, 0
	for _, p := range pk {
		if p.track == 0 {
			modes["v-"+p.kind] = true
			nv++
		} else {
			modes["a-"+p.kind] = true
			na++
		}
	}
	for m := range modes {
		l = append(l, "mode:"+m)
	}
	wrap := false
	if c.S.Video != "" && int(c.VSeq)+nv > 65536 {
		wrap = true
		l = append(l, "seq-wrap:video")
	}
	if c.S.Audio != "" && int(c.ASeq)+na > 65536 {
		wrap = true
		l = append(l, "seq-wrap:audio")
	}
	pert := false
	if c.Pert.active() {
		q := perturb(pk, c.Pert)
		reordered, dup := false, len(q) > len(pk)
		for i := 0; i < len(pk) && i < len(q); i++ {
			if &q[i].raw[0] != &pk[i].raw[0] {
				reordered = true
				break
			}
		}
		switch {
		case reordered && dup:
			l = append(l, "pert:reorder+dup")
		case reordered:
			l = append(l, "pert:reorder")
		case dup:
			l = append(l, "pert:dup")
		default:
			l = append(l, "pert:none")
		}
		pert = reordered || dup
	} else {
		l = append(l, "pert:none")
	}
	for _, x := range l {
		if len(x) > 5 && x[:5] == "pert:" {
			if c.Udp {
				l = append(l, combo("rtsp-udp", &c.S, x[5:]))
			} else {
				l = append(l, combo("rtsp", &c.S, x[5:]))
			}
			break
		}
	}
	if c.S.Audio != "" {
		l = append(l, fmt.Sprintf("aclock:%d", c.S.AClock))
	}
	if c.S.Video != "" {
		if c.Sprop {
			l = append(l, "sprop:in-sdp")
		} else {
			l = append(l, "sprop:in-band-only")
		}
	}
	if c.MaxPayload <= 100 {
		l = append(l, "max-payload<=100")
	}
	return len(modes) >= 2 && (pert || wrap), uniq(l)
}
