// RTCP on the RTSP publish leg of C07.  A real publisher sends sender reports
// on the RTCP channel (interleaved channel ch+1 / the RTCP UDP port) all the
// time: before the first RTP packet (ffmpeg), between the fragments of a
// frame, as compound SR+SDES packets, and a BYE at the end.  None of this may
// change what the RTMP / FLV consumers receive (the frame oracle is applied
// unchanged); in addition, whatever lal sends back must be well-formed RTCP on
// the RTCP channel of a track, never on an RTP channel, and a sender report for
// a track whose RTP lal has already processed is answered by a receiver report
// on that track's RTCP channel (this is what BaseInSession.handleRtcpPacket is
// there for; without this liveness clause RTCP routed into the RTP path would
// be invisible: RFC 3551 keeps payload types 72-76 free precisely so that an
// RTCP packet is never accepted as RTP).
//
// Builders and the strict parser are written from RFC 3550 section 6 and never
// import lal.
package c07

import (
	"encoding/binary"
	"fmt"
)

// RtcpPlan says which RTCP packets the publisher sends.
type RtcpPlan struct {
	Every int  `json:"every,omitempty"` // a report for the packet's track after every N-th sent RTP packet (0 = none)
	First bool `json:"first,omitempty"` // a report for every track before the first RTP packet
	Sdes  int  `json:"sdes,omitempty"`  // k > 0: every k-th report is a compound SR+SDES
	Bye   bool `json:"bye,omitempty"`   // compound SR+SDES+BYE per track after the last RTP packet
}

func (r RtcpPlan) active() bool { return r.Every > 0 || r.First || r.Bye }

// srPacket builds a sender report without report blocks (RFC 3550 6.4.1).
func srPacket(ssrc uint32, ntp uint64, rtpTs, packets, octets uint32) []byte {
	b := make([]byte, 28)
	b[0] = 2 << 6 // V=2, P=0, RC=0
	b[1] = 200
	binary.BigEndian.PutUint16(b[2:], 6) // length in 32-bit words minus one
	binary.BigEndian.PutUint32(b[4:], ssrc)
	binary.BigEndian.PutUint64(b[8:], ntp)
	binary.BigEndian.PutUint32(b[16:], rtpTs)
	binary.BigEndian.PutUint32(b[20:], packets)
	binary.BigEndian.PutUint32(b[24:], octets)
	return b
}

// sdesPacket builds a source description with one chunk holding a CNAME item
// (RFC 3550 6.5): items end with a null octet, the chunk is padded to 32 bits.
func sdesPacket(ssrc uint32, cname string) []byte {
	chunk := binary.BigEndian.AppendUint32(nil, ssrc)
	chunk = append(chunk, 1, byte(len(cname)))
	chunk = append(chunk, cname...)
	chunk = append(chunk, 0)
	for len(chunk)%4 != 0 {
		chunk = append(chunk, 0)
	}
	b := []byte{2<<6 | 1, 202, 0, 0}
	binary.BigEndian.PutUint16(b[2:], uint16(len(chunk)/4))
	return append(b, chunk...)
}

// byePacket builds a BYE for one source (RFC 3550 6.6).
func byePacket(ssrc uint32) []byte {
	b := []byte{2<<6 | 1, 203, 0, 1}
	return binary.BigEndian.AppendUint32(b, ssrc)
}

// rtcpTrack is the sender-side state of one RTP stream.
type rtcpTrack struct {
	ssrc    uint32
	clock   int
	have    bool // an RTP packet has been sent
	firstTs uint32
	lastTs  uint32
	packets uint32
	octets  uint32
	reports int
	// eligible counts the sender reports lal must answer: sent when lal had certainly processed RTP of this track
	eligible int
	settled  bool // lal has certainly processed an RTP packet of this track
}

func (t *rtcpTrack) onRtp(raw []byte) {
	ts := binary.BigEndian.Uint32(raw[4:])
	if !t.have {
		t.have, t.firstTs = true, ts
	}
	t.lastTs = ts
	t.packets++
	t.octets += uint32(len(raw) - 12)
}

// report builds the next RTCP packet of the track: NTP and RTP timestamps
// describe the same instant (NTP = an arbitrary epoch + media time).
func (t *rtcpTrack) report(plan RtcpPlan, bye bool) []byte {
	t.reports++
	el := uint64(t.lastTs - t.firstTs) // ticks since the first packet, modulo 2^32
	sec := el / uint64(t.clock)
	frac := (el % uint64(t.clock)) << 32 / uint64(t.clock)
	ntp := (uint64(3900000000)+sec)<<32 | frac
	out := srPacket(t.ssrc, ntp, t.lastTs, t.packets, t.octets)
	if bye || plan.Sdes > 0 && t.reports%plan.Sdes == 0 {
		out = append(out, sdesPacket(t.ssrc, fmt.Sprintf("verif-%08x@c07", t.ssrc))...)
	}
	if bye {
		out = append(out, byePacket(t.ssrc)...)
	}
	if t.settled {
		t.eligible++
	}
	return out
}

// checkRtcp parses a (compound) RTCP packet strictly: version 2, every length
// field consistent with the bytes present, the first packet an SR or RR
// (RFC 3550 6.1), padding only on the last packet, SR / RR exactly as long as
// their report count says (profile extensions are not used by lal).  It
// returns the packet types found.
func checkRtcp(b []byte) ([]int, error) {
	var types []int
	for off := 0; off < len(b); {
		r := b[off:]
		if len(r) < 4 {
			return types, fmt.Errorf("offset %d: %d trailing bytes, no room for an RTCP header", off, len(r))
		}
		if r[0]>>6 != 2 {
			return types, fmt.Errorf("offset %d: version %d", off, r[0]>>6)
		}
		pt := int(r[1])
		n := 4 * (int(binary.BigEndian.Uint16(r[2:])) + 1)
		if n > len(r) {
			return types, fmt.Errorf("offset %d: length field says %d bytes, %d present", off, n, len(r))
		}
		if r[0]&0x20 != 0 && off+n != len(b) {
			return types, fmt.Errorf("offset %d: padding bit on a packet that is not the last of the compound", off)
		}
		if off == 0 && pt != 200 && pt != 201 {
			return types, fmt.Errorf("first packet has type %d, a compound packet must start with SR or RR", pt)
		}
		rc := int(r[0] & 0x1f)
		switch pt {
		case 200:
			if n != 28+24*rc {
				return types, fmt.Errorf("offset %d: SR with %d report blocks is %d bytes long", off, rc, n)
			}
		case 201:
			if n != 8+24*rc {
				return types, fmt.Errorf("offset %d: RR with %d report blocks is %d bytes long", off, rc, n)
			}
		case 202, 203, 204, 205, 206, 207:
		default:
			return types, fmt.Errorf("offset %d: unknown RTCP packet type %d", off, pt)
		}
		types = append(types, pt)
		off += n
	}
	if len(types) == 0 {
		return nil, fmt.Errorf("empty RTCP packet")
	}
	return types, nil
}
