package c07

import (
	"encoding/json"
	"fmt"
	"os"
	"testing"
)

func TestDbg(t *testing.T) {
	p := os.Getenv("C07_DBG")
	if p == "" {
		t.Skip()
	}
	b, _ := os.ReadFile(p)
	var rf struct {
		Sub  string          `json:"sub"`
		Case json.RawMessage `json:"case"`
	}
	_ = json.Unmarshal(b, &rf)
	switch rf.Sub {
	case "rtsp":
		var c RtspCase
		_ = json.Unmarshal(rf.Case, &c)
		pk := c.packets()
		q := perturb(pk, c.Pert)
		fmt.Println("packets", len(pk), len(q), "npre", c.S.NPre)
		for i, x := range q {
			if i < len(pk) && &pk[i].raw[0] != &x.raw[0] || i >= len(pk) {
				fmt.Printf("pos %d: track %d seq %d pos %d kind %s\n", i, x.track, int(x.raw[2])<<8|int(x.raw[3]), x.pos, x.kind)
				if i > 700 {
					break
				}
			}
		}
		fmt.Println(runRtsp(c))
	case "gb28181":
		var c GbCase
		_ = json.Unmarshal(rf.Case, &c)
		fmt.Println(runGb(c))
	}
}
