package c07

import (
	"testing"

	"verif/drv/pbt"
)

func TestRtsp(t *testing.T) {
	pbt.Run(t, pbt.Spec[RtspCase]{
		ID: "C07", Name: "rtsp", Gen: genRtsp, Run: runRtsp, Classify: classifyRtsp, Isolate: true,
		Quick: 500, Thorough: 2200,
	})
}

func TestGb28181(t *testing.T) {
	pbt.Run(t, pbt.Spec[GbCase]{
		ID: "C07", Name: "gb28181", Gen: genGb, Run: runGb, Classify: classifyGb,
		Quick: 300, Thorough: 1800, Isolate: true,
	})
}

func TestCustomize(t *testing.T) {
	pbt.Run(t, pbt.Spec[CustCase]{
		ID: "C07", Name: "customize", Gen: genCust, Run: runCust, Classify: classifyCust,
		Quick: 500, Thorough: 2400,
	})
}
