// Customize leg of C07: ServerManager.AddCustomizePubSession + FeedAvPacket,
// video in AVCC or Annex-B (four-byte start codes, as the interface documents),
// AAC raw with FeedAudioSpecificConfig or with ADTS headers.  Parameter sets
// travel in-band: together with the key frame or in calls of their own (both
// documented).  Timestamps are milliseconds.
package c07

import (
	"pgregory.net/rapid"

	"github.com/q191201771/lal/pkg/base"
	"github.com/q191201771/lal/pkg/logic"

	"verif/drv/pbt"
	"verif/harness/inproc"
	"verif/ref/rtpref"
)

type CustCase struct {
	S      Stream `json:"s"`
	AnnexB bool   `json:"annexb,omitempty"`
	Adts   bool   `json:"adts,omitempty"`
}

// calls lists the FeedAvPacket payloads of one unit.
func (c *CustCase) calls(u Unit) [][]byte {
	s := &c.S
	if !u.V {
		b := audioBytes(u)
		if c.Adts {
			b = adtsFrame(s, b)
		}
		return [][]byte{b}
	}
	nals := s.nalsOf(u)
	var groups [][][]byte
	var cur [][]byte
	lastPS := -1
	for j, n := range nals {
		if n.role == 'p' {
			lastPS = j
		}
	}
	for j, n := range nals {
		cur = append(cur, n.b)
		cut := false
		if lastPS >= 0 {
			switch u.P.Cut % 3 {
			case 1:
				cut = j == lastPS
			case 2:
				cut = n.role == 'p'
			}
		}
		if cut {
			groups = append(groups, cur)
			cur = nil
		}
	}
	if len(cur) > 0 {
		groups = append(groups, cur)
	}
	var out [][]byte
	for _, g := range groups {
		if c.AnnexB {
			long := make([]bool, len(g))
			for i := range long {
				long[i] = true
			}
			out = append(out, rtpref.AnnexB(g, long))
		} else {
			out = append(out, rtpref.AVCC(g))
		}
	}
	return out
}

func runCust(c CustCase) *pbt.Violation {
	s := inproc.New(inproc.Config{DisableTs: true, DisableRtsp: true})
	defer s.Close()
	x, v := attach(s)
	if v != nil {
		return v
	}
	var ctx logic.ICustomizePubSessionContext
	var err error
	if s.Call("AddCustomizePubSession", func() { ctx, err = s.SM.AddCustomizePubSession(streamName) }) {
		return s.PanicViolation()
	}
	if err != nil {
		return pbt.V("customize/session-refused", "AddCustomizePubSession: %v", err)
	}
	ctx.WithOption(func(o *base.AvPacketStreamOption) {
		if c.AnnexB {
			o.VideoFormat = base.AvPacketStreamVideoFormatAnnexb
		}
		if c.Adts {
			o.AudioFormat = base.AvPacketStreamAudioFormatAdtsAac
		}
	})
	if c.S.Audio == "aac" && !c.Adts {
		if s.Call("FeedAudioSpecificConfig", func() { err = ctx.FeedAudioSpecificConfig(c.S.asc()) }) {
			return s.PanicViolation()
		}
		if err != nil {
			return pbt.V("customize/asc-refused", "FeedAudioSpecificConfig(%x): %v", c.S.asc(), err)
		}
	}
	vpt := base.AvPacketPtAvc
	if c.S.Video == "hevc" {
		vpt = base.AvPacketPtHevc
	}
	for i, u := range c.S.all() {
		pt := base.AvPacketPtAac
		switch c.S.Audio {
		case "g711a":
			pt = base.AvPacketPtG711A
		case "g711u":
			pt = base.AvPacketPtG711U
		case "opus":
			pt = base.AvPacketPtOpus
		}
		if u.V {
			pt = vpt
		}
		for _, b := range c.calls(u) {
			pkt := base.AvPacket{PayloadType: pt, Timestamp: u.T, Pts: u.T, Payload: b}
			if s.Call("FeedAvPacket", func() { err = ctx.FeedAvPacket(pkt) }) {
				return s.PanicViolation()
			}
			if err != nil {
				return pbt.V("customize/packet-refused", "FeedAvPacket of unit %d: %v", i, err)
			}
		}
		if i%syncEvery == syncEvery-1 {
			if v := x.sync(); v != nil {
				return v
			}
		}
	}
	obs, v := x.finish()
	if v != nil {
		return v
	}
	return judgeAll(&c.S, c.S.expect(0), obs)
}

func genCust(t *rapid.T) CustCase {
	var c CustCase
	o := streamOpts{kind: "cust", sizeEdges: []int{128, 4096, 65535}, maxNal: 20000}
	if pbt.Thorough() {
		o.maxNal = 300000
	}
	o.pack = func(t *rapid.T, s *Stream, u *Unit, pre bool) {
		if u.V && u.PS > 0 {
			u.P.Cut = rapid.IntRange(0, 2).Draw(t, "cut")
		}
	}
	c.S = genStream(t, o)
	c.AnnexB = rapid.Bool().Draw(t, "annexb")
	c.Adts = c.S.Audio == "aac" && rapid.Bool().Draw(t, "adts")
	return c
}

func classifyCust(c CustCase) (bool, []string) {
	l := append([]string{"kind:customize", combo("customize", &c.S, "n/a")}, streamLabels(&c.S)...)
	if c.S.Video != "" {
		if c.AnnexB {
			l = append(l, "video:annexb")
		} else {
			l = append(l, "video:avcc")
		}
	}
	if c.S.Audio == "aac" {
		if c.Adts {
			l = append(l, "audio:adts")
		} else {
			l = append(l, "audio:raw+asc")
		}
	}
	multi := false
	for _, u := range c.S.Units[c.S.NPre:] {
		if u.V {
			if len(c.S.nalsOf(u)) > 1 {
				multi = true
			}
			if u.PS > 0 {
				switch u.P.Cut % 3 {
				case 0:
					l = append(l, "ps:with-key-frame")
				case 1:
					l = append(l, "ps:own-call")
				case 2:
					l = append(l, "ps:one-call-each")
				}
			}
		}
	}
	if multi {
		l = append(l, "multi-nal-access-unit")
	}
	return multi && c.S.Video != "" && c.S.Audio != "", uniq(l)
}
