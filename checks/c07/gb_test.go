// GB28181 leg of C07: the stream is multiplexed into an MPEG-2 program stream
// by the reference muxer (ref/psref: pack header, system header, PSM, PES
// splitting of a frame, several NAL units per PES or one PES chain per NAL
// unit, PTS only / PTS+DTS, stuffing), cut into RTP packets of a generated
// size (the cuts fall anywhere, also inside headers and start codes, as with
// real devices that slice a PS pack by MTU) and fed to lal.
//
// How the packets enter lal.  ServerManager.CtrlStartRtpPub creates the
// group's gb28181.PubSession, the AvPacket->RTMP remuxer (Annex-B / ADTS
// options) and a real socket; the PubSession itself cannot be reached from
// outside the package (Group.psPubSession and PubSession.feedPacket are
// unexported).  The check therefore uses two entries:
//
//   - in-process (default): CtrlStartRtpPub in UDP mode (the socket stays
//     unused), then a gb28181.PsUnpacker wired to the same callback the
//     session uses (Group.OnAvPacketFromPsPubSession) is fed packet by
//     packet exactly as PubSession.feedPacket does.  Synchronous, so a panic
//     inside lal is recovered and shrinkable, and arrival perturbation can
//     be applied;
//   - the real session (about half of the cases, a quarter each): CtrlStartRtpPub
//     in TCP mode (loopback connection, RFC 4571 framing through the session's
//     own read loop) or in UDP mode (loopback datagrams to the port lal picked,
//     read by the session's own UDP goroutine), paced against the session's
//     read-byte counter; the generated arrival order (reordering, duplicates)
//     applies to all three entries.
package c07

import (
	"encoding/binary"
	"fmt"
	"net"
	"time"

	"pgregory.net/rapid"

	"github.com/q191201771/lal/pkg/base"
	"github.com/q191201771/lal/pkg/gb28181"

	"verif/drv/pbt"
	"verif/harness/inproc"
	"verif/harness/lalclient"
	"verif/ref/codecref"
	"verif/ref/psref"
	"verif/ref/rtpref"
)

type GbCase struct {
	S        Stream  `json:"s"`
	Mtu      int     `json:"mtu"` // RTP payload bytes
	PT       int     `json:"pt"`
	Seq      uint16  `json:"seq"`
	Ssrc     uint32  `json:"ssrc"`
	DtsDelay int64   `json:"dts_delay,omitempty"` // > 0: video PES carry PTS and DTS = PTS - delay
	MuxRate  uint32  `json:"mux_rate"`
	Tcp      bool    `json:"tcp,omitempty"` // through the real session's TCP socket
	Udp      bool    `json:"udp,omitempty"` // through the real session's UDP socket
	Pert     Perturb `json:"pert"`
}

func (c *GbCase) streams() []psref.ES {
	var out []psref.ES
	switch c.S.Video {
	case "avc":
		out = append(out, psref.ES{StreamID: psref.StreamIDVideo, StreamType: psref.StreamTypeH264})
	case "hevc":
		out = append(out, psref.ES{StreamID: psref.StreamIDVideo, StreamType: psref.StreamTypeH265})
	}
	switch c.S.Audio {
	case "aac":
		out = append(out, psref.ES{StreamID: psref.StreamIDAudio, StreamType: psref.StreamTypeAAC})
	case "g711a":
		out = append(out, psref.ES{StreamID: psref.StreamIDAudio, StreamType: psref.StreamTypeG711A})
	case "g711u":
		out = append(out, psref.ES{StreamID: psref.StreamIDAudio, StreamType: psref.StreamTypeG711U})
	}
	return out
}

func adtsFrame(s *Stream, raw []byte) []byte {
	h := codecref.ADTS{ProtectionAbsent: true, Profile: uint8(s.AscObj - 1), FreqIndex: uint8(s.AscFreq), ChannelConfig: uint8(s.AscChan),
		FrameLength: uint16(7 + len(raw)), BufferFullness: 0x7FF}
	return append(h.Marshal(), raw...)
}

// unitPS renders one unit as program-stream bytes.
func (c *GbCase) unitPS(i int, u Unit) []byte {
	s := &c.S
	var out []byte
	first := i == 0
	if u.V || first || !u.P.NoPackHdr {
		out = append(out, psref.PackHeader(uint64(u.T), 0, c.MuxRate, u.P.PackStuff%8)...)
	}
	if u.P.SysHdr {
		na, nv := 0, 0
		if s.Audio != "" {
			na = 1
		}
		if s.Video != "" {
			nv = 1
		}
		out = append(out, psref.SystemHeader(c.MuxRate, na, nv, c.streams())...)
	}
	if first || u.P.Psm {
		out = append(out, psref.PSM(1, nil, c.streams())...)
	}
	pesMax := u.P.PesMax
	if pesMax <= 0 {
		pesMax = 65000
	}
	stuff := u.P.PesStuff % 32
	if !u.V {
		es := audioBytes(u)
		if s.Audio == "aac" {
			es = adtsFrame(s, es)
		}
		st := psref.Stamp{HasPTS: true, PTS: uint64(u.T)}
		cont := psref.Stamp{}
		if u.P.ContPTS {
			cont = st
		}
		for _, p := range psref.SplitPES(psref.StreamIDAudio, es, pesMax, st, cont, stuff) {
			out = append(out, p...)
		}
		return out
	}
	st := psref.Stamp{HasPTS: true, PTS: uint64(u.T)}
	if c.DtsDelay > 0 {
		st.HasDTS, st.DTS = true, uint64(u.T-c.DtsDelay)
	}
	cont := psref.Stamp{}
	if u.P.ContPTS {
		cont = st
	}
	nals := s.nalsOf(u)
	var chunks [][]byte // each starts a PES chain of its own
	var es []byte
	for j, n := range nals {
		sc := []byte{0, 0, 0, 1}
		if j > 0 && n.role != 'p' && u.P.SC3>>uint(j%32)&1 == 1 {
			sc = sc[1:]
		}
		es = append(es, sc...)
		es = append(es, n.b...)
		if u.P.PerNal {
			chunks = append(chunks, es)
			es = nil
		}
	}
	if !u.P.PerNal {
		chunks = [][]byte{es}
	}
	for k, ch := range chunks {
		f := st
		if k > 0 {
			f = cont
		}
		for _, p := range psref.SplitPES(psref.StreamIDVideo, ch, pesMax, f, cont, stuff) {
			out = append(out, p...)
		}
	}
	return out
}

// packets renders the stream as RTP packets in feed order.
func (c *GbCase) packets() []wirePkt {
	units := c.S.all()
	seq := &rtpref.Sequencer{PT: uint8(c.PT), SSRC: c.Ssrc, Seq: c.Seq}
	var out []wirePkt
	for i, u := range units {
		ps := c.unitPS(i, u)
		if _, err := psref.Parse(ps); err != nil {
			panic(pbt.HarnessError{Msg: fmt.Sprintf("c07: reference muxer produced an invalid program stream for unit %d: %v", i, err)})
		}
		var pls [][]byte
		for off := 0; off < len(ps); off += c.Mtu {
			end := off + c.Mtu
			if end > len(ps) {
				end = len(ps)
			}
			pls = append(pls, ps[off:end])
		}
		for _, p := range seq.Frame(pls, uint32(u.T), true) {
			out = append(out, wirePkt{raw: p.Marshal(), pos: i, pre: i < c.S.NPre})
		}
	}
	return out
}

func runGbOnce(c *GbCase, pk []wirePkt) ([]observed, *pbt.Violation) {
	s := inproc.New(inproc.Config{DisableTs: true, DisableRtsp: true})
	defer s.Close()
	x, v := attach(s)
	if v != nil {
		return nil, v
	}
	req := base.ApiCtrlStartRtpPubReq{StreamName: streamName, Port: 0}
	if c.Tcp {
		req.IsTcpFlag = 1
	}
	var resp base.ApiCtrlStartRtpPubResp
	if s.Call("CtrlStartRtpPub", func() { resp = s.SM.CtrlStartRtpPub(req) }) {
		return nil, s.PanicViolation()
	}
	if resp.ErrorCode != base.ErrorCodeSucc {
		lalclient.Harness("c07: CtrlStartRtpPub failed (no free port?): %+v", resp)
	}
	if c.Tcp || c.Udp {
		// the real session: lal's own socket and read loop (TCP: RFC 4571 framing; UDP: one packet per datagram), paced
		// against the session's read-byte counter so that nothing is dropped and the arrival order is the generated one
		var write func(raw []byte)
		if c.Tcp {
			conn, err := net.DialTimeout("tcp", fmt.Sprintf("127.0.0.1:%d", resp.Data.Port), 5*time.Second)
			if err != nil {
				lalclient.Harness("c07: dial gb28181 tcp port %d: %v", resp.Data.Port, err)
			}
			defer conn.Close()
			write = func(raw []byte) {
				b := make([]byte, 2+len(raw))
				binary.BigEndian.PutUint16(b, uint16(len(raw)))
				copy(b[2:], raw)
				_ = conn.SetWriteDeadline(time.Now().Add(10 * time.Second))
				if _, err := conn.Write(b); err != nil {
					lalclient.Harness("c07: write to gb28181 tcp connection: %v", err)
				}
			}
		} else {
			sock, err := net.ListenUDP("udp4", &net.UDPAddr{IP: net.IPv4(127, 0, 0, 1)})
			if err != nil {
				lalclient.Harness("c07: udp socket: %v", err)
			}
			defer sock.Close()
			dst := &net.UDPAddr{IP: net.IPv4(127, 0, 0, 1), Port: resp.Data.Port}
			write = func(raw []byte) {
				if _, err := sock.WriteToUDP(raw, dst); err != nil {
					lalclient.Harness("c07: udp send: %v", err)
				}
			}
		}
		acks := &ackedSender{s: s}
		send := func(raw []byte) {
			write(raw)
			acks.sent(len(raw))
		}
		// barrier: lal counts a packet before it parses it and parses in the reading goroutine, so once a duplicate of
		// the last packet (discarded by the reorder list as stale or as already present) has been counted, everything
		// before it has been processed completely
		var last []byte
		barrier := func() {
			send(last)
			acks.wait()
		}
		for i, p := range pk {
			send(p.raw)
			last = p.raw
			if i%syncEvery == syncEvery-1 {
				barrier()
				if v := x.sync(); v != nil {
					return nil, v
				}
			}
		}
		barrier()
		return x.finish()
	}
	g := s.SM.GetGroup("", streamName)
	if g == nil {
		lalclient.Harness("c07: no group after CtrlStartRtpPub")
	}
	up := gb28181.NewPsUnpacker().WithOnAvPacket(g.OnAvPacketFromPsPubSession)
	for i, p := range pk {
		raw := p.raw
		if s.Call("gb28181", func() { _ = up.FeedRtpPacket(raw) }) {
			return nil, s.PanicViolation()
		}
		if i%syncEvery == syncEvery-1 {
			if v := x.sync(); v != nil {
				return nil, v
			}
		}
	}
	return x.finish()
}

func runGb(c GbCase) *pbt.Violation {
	pk := c.packets()
	e := c.S.expect(0)
	base, v := runGbOnce(&c, pk)
	if v != nil {
		return v
	}
	if v := judgeAll(&c.S, e, base); v != nil {
		return v
	}
	if !c.Pert.active() {
		return nil
	}
	pert, v := runGbOnce(&c, perturb(pk, c.Pert))
	if v != nil {
		v.Sig = "perturbed/" + v.Sig
		return v
	}
	if v := judgeAll(&c.S, e, pert); v != nil {
		v.Sig = "perturbed/" + v.Sig
		return v
	}
	return sameOutput(&c.S, base, pert)
}

func genGb(t *rapid.T) GbCase {
	var c GbCase
	c.Mtu = rapid.SampledFrom([]int{1400, 1400, 1200, 500, 100, 40, 17, 8}).Draw(t, "mtu")
	o := streamOpts{kind: "gb", sizeEdges: []int{c.Mtu, 2 * c.Mtu, 100, 1000}, maxNal: 3000}
	if c.Mtu >= 500 {
		o.sizeEdges = append(o.sizeEdges, 65000, 65522)
		o.maxNal = 70000
		if pbt.Thorough() {
			o.maxNal = 300000
		}
	}
	o.pack = func(t *rapid.T, s *Stream, u *Unit, pre bool) {
		if pre {
			u.P.SysHdr = u.V && u.Key
			u.P.Psm = u.V && u.Key
			return
		}
		if u.V {
			if u.Key {
				u.P.SysHdr = rapid.IntRange(0, 3).Draw(t, "sysHdr") != 0
				u.P.Psm = rapid.IntRange(0, 3).Draw(t, "psm") != 0
			} else if rapid.IntRange(0, 9).Draw(t, "psmOnInter") == 0 {
				u.P.Psm = true
			}
			u.P.PerNal = rapid.IntRange(0, 2).Draw(t, "perNal") == 0
			u.P.SC3 = rapid.SampledFrom([]uint32{0, 0, 0xFFFFFFFF, 0xAAAAAAAA, 0x55555555, 4, 2}).Draw(t, "sc3")
		} else {
			u.P.NoPackHdr = rapid.Bool().Draw(t, "noPackHdr")
		}
		switch rapid.IntRange(0, 9).Draw(t, "pesMaxClass") {
		case 0:
			u.P.PesMax = rapid.SampledFrom([]int{1, 2, 5, 30, 100}).Draw(t, "pesMaxTiny")
			if !u.V && rapid.IntRange(0, 1).Draw(t, "audioWhole") == 0 {
				u.P.PesMax = 0
			}
		case 1, 2:
			if u.V {
				u.P.PesMax = rapid.SampledFrom([]int{1000, 1400, 4000, 65000, 65522}).Draw(t, "pesMax")
			}
		}
		u.P.ContPTS = rapid.IntRange(0, 2).Draw(t, "contPts") == 0
		if rapid.IntRange(0, 5).Draw(t, "packStuff") == 0 {
			u.P.PackStuff = rapid.IntRange(1, 7).Draw(t, "packStuffN")
		}
		if rapid.IntRange(0, 5).Draw(t, "pesStuff") == 0 {
			u.P.PesStuff = rapid.IntRange(1, 20).Draw(t, "pesStuffN")
		}
	}
	c.S = genStream(t, o)
	c.PT = rapid.SampledFrom([]int{96, 96, 98, 100, 127}).Draw(t, "pt")
	c.Seq = rapid.OneOf(rapid.Uint16(), rapid.Uint16Range(65300, 65535), rapid.SampledFrom([]uint16{0, 65535, 32767})).Draw(t, "seq")
	c.Ssrc = rapid.Uint32().Draw(t, "ssrc")
	c.MuxRate = uint32(rapid.SampledFrom([]int{50000, 1, 1<<22 - 1, 3000}).Draw(t, "muxRate"))
	if rapid.IntRange(0, 2).Draw(t, "ptsDts") == 0 {
		c.DtsDelay = rapid.SampledFrom([]int64{3600, 7200, 1, 90000}).Draw(t, "dtsDelay")
	}
	switch rapid.IntRange(0, 7).Draw(t, "entry") {
	case 2, 5:
		c.Tcp = true
	case 3, 6:
		c.Udp = true
	}
	c.Pert = genPerturb(t)
	if rapid.IntRange(0, 1).Draw(t, "inOrder") == 0 {
		c.Pert = Perturb{}
	}
	return c
}

func classifyGb(c GbCase) (bool, []string) {
	l := append([]string{"kind:gb"}, streamLabels(&c.S)...)
	entry := "in-process"
	switch {
	case c.Tcp:
		entry = "tcp-socket"
	case c.Udp:
		entry = "udp-socket"
	}
	l = append(l, "entry:"+entry)
	feat := map[string]bool{}
	for i, u := range c.S.Units {
		if i < c.S.NPre {
			continue
		}
		ps := c.unitPS(i, u)
		units, _ := psref.Parse(ps)
		npes := 0
		for _, x := range units {
			if x.StreamID != 0 {
				npes++
				if x.StreamID == psref.StreamIDVideo && len(splitStartCodes(x.Payload)) > 1 {
					feat["pes:several-nals"] = true
				}
				if x.Stamp.HasDTS {
					feat["pes:pts+dts"] = true
				}
			}
		}
		if npes > 1 {
			if u.V {
				feat["pes:frame-split"] = true
				if u.P.ContPTS {
					feat["pes:continuation-with-pts"] = true
				} else {
					feat["pes:continuation-without-pts"] = true
				}
			} else {
				feat["pes:audio-frame-split"] = true
			}
		}
		if u.V && u.P.PerNal && len(c.S.nalsOf(u)) > 1 {
			feat["pes:one-chain-per-nal"] = true
		}
		if u.V && u.P.SC3 != 0 && len(c.S.nalsOf(u)) > 1 {
			feat["es:3-byte-start-codes"] = true
		}
		if u.P.PackStuff%8 > 0 && (u.V || !u.P.NoPackHdr) {
			feat["pack:stuffing"] = true
		}
		if u.P.PesStuff%32 > 0 {
			feat["pes:stuffing"] = true
		}
		if u.P.SysHdr {
			feat["pack:system-header"] = true
		}
		if !u.V && u.P.NoPackHdr {
			feat["pack:audio-in-running-pack"] = true
		}
		if len(ps) > c.Mtu {
			feat["rtp:unit-cut-into-packets"] = true
		}
	}
	for f := range feat {
		l = append(l, f)
	}
	if c.Mtu < 64 {
		l = append(l, "rtp:mtu<64")
	}
	pk := len(c.packets())
	wrap := int(c.Seq)+pk > 65536
	if wrap {
		l = append(l, "seq-wrap")
	}
	if c.Pert.active() {
		l = append(l, "pert:reorder/dup", combo("gb:"+entry, &c.S, "reorder|dup"))
	} else {
		l = append(l, "pert:none", combo("gb:"+entry, &c.S, "none"))
	}
	n := 0
	for f := range feat {
		if len(f) > 4 && f[:4] == "pes:" {
			n++
		}
	}
	return n >= 2, uniq(l)
}

// splitStartCodes counts Annex-B start codes (labels only).
func splitStartCodes(b []byte) [][]byte {
	return lalclient.SplitAnnexB(b)
}
