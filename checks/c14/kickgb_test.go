// Sub-property "kick-gb-tcp": a GB28181 pub session (start_rtp_pub, TCP) whose
// device connected one to three times — a later connection opened while the
// previous one is still open (overlapping reconnect) or after it was closed —
// is kicked while media flows on the latest connection.
//
// The promises of "kicked sessions are disconnected", judged separately:
//   - every connection of the session that is still open sees its end;
//   - the stat API no longer lists the session id;
//   - media sent after the kick (on whatever connection still accepts writes)
//     reaches no subscriber;
//   - the name is free: a new RTMP publisher is accepted.
//
// The sockets are real loopback TCP (lal listens itself), so "did not see its
// end" is a bounded wait (10 s, healthy: milliseconds); it is reported only
// together with state that shows the session alive (still listed, or media
// sent after the kick delivered) — otherwise the case is counted inconclusive.
//
// Not asserted: what lal does with a replaced connection before the kick (it
// closes it; the harness only waits for that), delivery of media before the kick.
package c14

import (
	"bytes"
	"fmt"
	"io"
	"net"
	"testing"
	"time"

	"github.com/q191201771/lal/pkg/base"
	"pgregory.net/rapid"

	"verif/drv/pbt"
	"verif/gen"
	"verif/harness/inproc"
	"verif/harness/lalclient"
	"verif/ref/psref"
	"verif/ref/rtpref"
)

type KickGbCase struct {
	Conns   int    `json:"conns"`   // 1..3 TCP connections of the device, one after the other
	Overlap []bool `json:"overlap"` // connection i+1 is opened while connection i is still open
	Media   bool   `json:"media"`   // program-stream frames flow on every connection (else: connections stay silent)
	Sub     bool   `json:"sub"`     // an HTTP-FLV subscriber watches
}

func genKickGb(t *rapid.T) KickGbCase {
	c := KickGbCase{Conns: rapid.SampledFrom([]int{1, 2, 2, 2, 3, 3}).Draw(t, "conns"), Media: rapid.IntRange(0, 3).Draw(t, "media") != 0, Sub: rapid.IntRange(0, 3).Draw(t, "sub") != 0}
	for i := 1; i < c.Conns; i++ {
		c.Overlap = append(c.Overlap, rapid.IntRange(0, 2).Draw(t, "overlap") != 0)
	}
	return c
}

var gbStreams = []psref.ES{{StreamID: 0xE0, StreamType: 0x1B}}

// gbNal is the slice NAL unit that identifies frame n (IDR).
func gbNal(n uint32) []byte {
	return gen.NalSpec{Hdr: []byte{0x65}, Len: 48, Seed: 0xC140000 + n, Serial: 0xC140000 + n}.Bytes()
}

// gbPack is one program-stream pack with one video access unit (parameter sets + IDR slice n).
func gbPack(ts uint32, first bool, n uint32) []byte {
	_, sps, pps := gen.ParamSets("avc", 0)
	pts := uint64(ts) * 90
	ps := psref.PackHeader(pts, 0, 1000, 0)
	if first {
		ps = append(ps, psref.SystemHeader(1000, 0, 1, gbStreams)...)
		ps = append(ps, psref.PSM(0, nil, gbStreams)...)
	}
	es := rtpref.AnnexB([][]byte{sps, pps, gbNal(n)}, []bool{true, true, true})
	return append(ps, psref.PES(0xE0, psref.Stamp{HasPTS: true, PTS: pts}, 0, true, es)...)
}

type gbDevice struct {
	seq rtpref.Sequencer
	ts  uint32
	n   uint32
}

// send writes count frames (RFC 4571 framing: 16-bit length, RTP packet) and returns the number of the last frame
// that was completely written; lal's PS parser holds the newest frame until the next one begins, so every burst
// ends with one extra frame that is not counted.
func (d *gbDevice) send(conn net.Conn, count int, first bool) (last uint32, err error) {
	_ = conn.SetWriteDeadline(time.Now().Add(5 * time.Second))
	for i := 0; i <= count; i++ {
		d.n++
		d.ts += 40
		p := d.seq.Frame([][]byte{gbPack(d.ts, first && i == 0, d.n)}, d.ts*90, true)[0].Marshal()
		b := append([]byte{byte(len(p) >> 8), byte(len(p))}, p...)
		if _, err = conn.Write(b); err != nil {
			return last, err
		}
		if i < count {
			last = d.n
		}
	}
	return last, nil
}

func hasGbFrame(c *lalclient.Consumer, n uint32) bool {
	nal := gbNal(n)
	for _, r := range c.Recs() {
		if r.Type == gen.TypeVideo && bytes.Contains(r.Payload, nal) {
			return true
		}
	}
	return false
}

// sawEnd reads until the connection ends; false = still open after the bound.
func sawEnd(conn net.Conn, bound time.Duration) bool {
	_ = conn.SetReadDeadline(time.Now().Add(bound))
	buf := make([]byte, 512)
	for {
		if _, err := conn.Read(buf); err != nil {
			if err == io.EOF {
				return true
			}
			return !isTimeout(err)
		}
	}
}

func runKickGb(c KickGbCase) *pbt.Violation {
	const stream = "c14gb"
	if c.Conns < 1 || c.Conns > 4 || len(c.Overlap) != c.Conns-1 {
		panic(pbt.HarnessError{Msg: "bad kick-gb-tcp case"})
	}
	s := inproc.New(inproc.Config{RtmpGopNum: 1, FlvGopNum: 1})
	defer s.Close()
	var resp base.ApiCtrlStartRtpPubResp
	s.Call("CtrlStartRtpPub", func() {
		resp = s.SM.CtrlStartRtpPub(base.ApiCtrlStartRtpPubReq{StreamName: stream, Port: 0, TimeoutMs: 60000, IsTcpFlag: 1})
	})
	if resp.ErrorCode != base.ErrorCodeSucc || resp.Data.SessionId == "" || resp.Data.Port <= 0 {
		return inconclusive("gb-start-rtp-pub")
	}
	id := resp.Data.SessionId
	addr := fmt.Sprintf("127.0.0.1:%d", resp.Data.Port)
	var sub *lalclient.Consumer
	if c.Sub {
		sub = lalclient.NewFlvSub(s, "live", stream, false)
	}
	dev := &gbDevice{seq: rtpref.Sequencer{PT: 96, SSRC: 0xC14F, Seq: 65530}}
	var conns []net.Conn
	closed := map[int]bool{}
	defer func() {
		for _, cn := range conns {
			_ = cn.Close()
		}
	}()
	mediaSeen := false
	for i := 0; i < c.Conns; i++ {
		if i > 0 && !c.Overlap[i-1] {
			// the device closes its connection before it reconnects
			_ = conns[i-1].Close()
			closed[i-1] = true
			time.Sleep(3 * time.Millisecond)
		}
		cn, err := net.DialTimeout("tcp", addr, lalclient.IdleTimeout)
		if err != nil {
			return inconclusive("gb-dial")
		}
		conns = append(conns, cn)
		if i > 0 && c.Overlap[i-1] {
			// lal replaces the connection: it closes the previous one.  Wait until that has happened, so that the kick
			// finds the session in its settled state
			if !sawEnd(conns[i-1], kickStateTimeout) {
				return inconclusive("gb-replaced-connection-not-closed")
			}
			closed[i-1] = true
		}
		if c.Media {
			last, err := dev.send(cn, 3, true)
			if err != nil {
				return inconclusive("gb-send")
			}
			if sub != nil {
				deadline := time.Now().Add(lalclient.DeliverTimeout)
				for !hasGbFrame(sub, last) && time.Now().Before(deadline) {
					time.Sleep(time.Millisecond)
				}
				if hasGbFrame(sub, last) {
					mediaSeen = true
				} else {
					pbt.Count("c14_gb_media_not_seen_before_kick", 1)
				}
			}
		} else {
			// silent connection: two bytes of a length prefix, so that lal has accepted it and reads from it
			_, _ = cn.Write([]byte{0, 200})
			time.Sleep(3 * time.Millisecond)
		}
	}
	time.Sleep(5 * time.Millisecond)
	if !idListed(s, stream, id) {
		return inconclusive("gb-session-not-listed")
	}

	var kr base.ApiCtrlKickSessionResp
	s.Call("CtrlKickSession", func() { kr = s.SM.CtrlKickSession(base.ApiCtrlKickSessionReq{StreamName: stream, SessionId: id}) })
	if kr.ErrorCode != base.ErrorCodeSucc {
		return pbt.V("kick/attached-session-not-found", "kick of the GB28181 tcp pub session %s (listed by the stat API) answered %d %s", id, kr.ErrorCode, kr.Desp)
	}
	// the device keeps sending on its latest connection
	latest := conns[len(conns)-1]
	var after uint32
	if c.Media {
		after, _ = dev.send(latest, 3, false)
	}
	hist := fmt.Sprintf("connections=%d overlap=%v media=%v", c.Conns, c.Overlap, c.Media)

	// no longer a session
	listedAfter := true
	deadline := time.Now().Add(kickStateTimeout)
	for time.Now().Before(deadline) {
		if !idListed(s, stream, id) {
			listedAfter = false
			break
		}
		time.Sleep(2 * time.Millisecond)
	}
	// no further media
	delivered := false
	if sub != nil && after != 0 && mediaSeen {
		d2 := time.Now().Add(80 * time.Millisecond)
		for time.Now().Before(d2) && !delivered {
			delivered = hasGbFrame(sub, after) || hasGbFrame(sub, after-1)
			time.Sleep(2 * time.Millisecond)
		}
	}
	// disconnected: every connection that is still open sees its end
	bound := kickStateTimeout
	if !listedAfter && !delivered {
		bound = 2 * time.Second // healthy: already closed; nothing corroborates a hang, do not wait long
	}
	for i, cn := range conns {
		if closed[i] {
			continue
		}
		if !sawEnd(cn, bound) {
			if listedAfter || delivered {
				return pbt.V("kick/session-not-disconnected", "the GB28181 tcp pub session %s (%s) was kicked (API answered success) but its connection %d of %d is still open %v later; still listed by the stat API: %v; media sent after the kick delivered to a subscriber: %v",
					id, hist, i+1, len(conns), bound, listedAfter, delivered)
			}
			return inconclusive("gb-end-not-seen")
		}
	}
	if delivered {
		return pbt.V("kick/media-after-kick", "the GB28181 tcp pub session %s (%s) was kicked, yet frame %d sent afterwards on its latest connection reached the HTTP-FLV subscriber", id, hist, after)
	}
	if listedAfter {
		return pbt.V("kick/session-still-listed", "the GB28181 tcp pub session %s (%s) was kicked (API answered success) and its connections ended, but %v later the stat API still lists it", id, hist, kickStateTimeout)
	}
	// the name is free again
	legit := lalclient.NewPublisher(s, "live", stream, 0)
	if legit.Err == nil {
		sendItems(legit, headerItems())
	}
	switch pubState(s, legit, stream) {
	case outRejected:
		return pbt.V("kick/kicked-input-still-holds-stream", "after the GB28181 tcp pub session %s (%s) was kicked and had left the stat API, a new RTMP publisher of the stream was refused: %v", id, hist, legit.Err)
	case outInconclusive:
		return inconclusive("gb-legit-pub")
	}
	return s.PanicViolation()
}

func classifyKickGb(c KickGbCase) (bool, []string) {
	ov := "single-connection"
	nOver, nSeq := 0, 0
	for _, o := range c.Overlap {
		if o {
			nOver++
		} else {
			nSeq++
		}
	}
	switch {
	case nOver > 0 && nSeq > 0:
		ov = "overlapping+sequential"
	case nOver > 0:
		ov = "overlapping-reconnect"
	case nSeq > 0:
		ov = "sequential-reconnect"
	}
	return c.Conns > 1, []string{fmt.Sprintf("connections:%d", c.Conns), "reconnect:" + ov, fmt.Sprintf("media:%v", c.Media), fmt.Sprintf("subscriber:%v", c.Sub)}
}

func TestKickGbTcp(t *testing.T) {
	pbt.Run(t, pbt.Spec[KickGbCase]{
		ID: "C14", Name: "kick-gb-tcp", Gen: genKickGb, Run: runKickGb, Classify: classifyKickGb,
		Quick: 40, Thorough: 400,
	})
}
