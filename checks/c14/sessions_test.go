// Session helpers of the C14 follow-up: RTSP over WebSocket (lal's
// rtsp.WebsocketServer.HandleWebsocket run over an in-memory connection), a raw
// HTTP/WebSocket subscriber that only counts body bytes (WS-TS), and the client
// that goes on to SETUP / PLAY although it was never authorised.
package c14

import (
	"bufio"
	"bytes"
	"fmt"
	"io"
	"net"
	"net/http"
	"sync"
	"time"

	"github.com/q191201771/lal/pkg/rtsp"

	"verif/drv/pbt"
	"verif/harness/inproc"
	"verif/harness/lalclient"
	"verif/harness/memconn"
	"verif/ref/rtspref"
	"verif/ref/wsref"
)

type c14HijackWriter struct {
	conn net.Conn
	hdr  http.Header
}

func (h *c14HijackWriter) Header() http.Header         { return h.hdr }
func (h *c14HijackWriter) Write(b []byte) (int, error) { return h.conn.Write(b) }
func (h *c14HijackWriter) WriteHeader(statusCode int)  {}
func (h *c14HijackWriter) Hijack() (net.Conn, *bufio.ReadWriter, error) {
	return h.conn, bufio.NewReadWriter(bufio.NewReader(h.conn), bufio.NewWriter(h.conn)), nil
}

var wsAddrSeq struct {
	sync.Mutex
	n     int
	conns map[*inproc.Server][]*memconn.Conn
}

// closeWsConns closes the client ends opened by wsRtspConn (inproc only tracks the connections it created itself);
// call it before Server.Close so that the handler goroutines have returned.
func closeWsConns(s *inproc.Server) {
	wsAddrSeq.Lock()
	cs := wsAddrSeq.conns[s]
	delete(wsAddrSeq.conns, s)
	wsAddrSeq.Unlock()
	for _, c := range cs {
		_ = c.Close()
	}
}

// wsRtspConn runs lal's WebSocket RTSP handler over an in-memory connection (harness-owned goroutine, panics
// recorded) and returns the client end plus the byte-stream view of it (one masked binary frame per Write).
func wsRtspConn(s *inproc.Server) (*memconn.Conn, io.ReadWriter) {
	wsAddrSeq.Lock()
	wsAddrSeq.n++
	addr := fmt.Sprintf("127.0.0.1:%d", 45000+wsAddrSeq.n%15000)
	cli, srv := memconn.PairAddr(addr, "127.0.0.1:5566")
	if wsAddrSeq.conns == nil {
		wsAddrSeq.conns = map[*inproc.Server][]*memconn.Conn{}
	}
	wsAddrSeq.conns[s] = append(wsAddrSeq.conns[s], cli)
	wsAddrSeq.Unlock()
	ws := rtsp.NewWebsocketServer("", s.SM, s.Cfg.RtspConfig.ServerAuthConfig)
	req, err := http.NewRequest("GET", "http://127.0.0.1:5566/", nil)
	if err != nil {
		panic(pbt.HarnessError{Msg: err.Error()})
	}
	req.RequestURI = "/"
	req.RemoteAddr = addr
	req.Header.Set("Connection", "Upgrade")
	req.Header.Set("Upgrade", "websocket")
	req.Header.Set("Sec-WebSocket-Key", "dGhlIHNhbXBsZSBub25jZQ==")
	req.Header.Set("Sec-WebSocket-Version", "13")
	s.Go("wsrtsp", func() {
		defer srv.MarkDone()
		defer srv.Close()
		ws.HandleWebsocket(&c14HijackWriter{conn: srv, hdr: http.Header{}}, req)
	})
	return cli, wsref.NewStream(cli)
}

// rtspClient opens an RTSP connection, plain or over WebSocket.
func rtspClient(s *inproc.Server, ws bool) (*memconn.Conn, *rtspref.Client) {
	if ws {
		conn, rw := wsRtspConn(s)
		_ = conn.SetReadDeadline(time.Now().Add(lalclient.DeliverTimeout))
		return conn, rtspref.NewClient(rw)
	}
	conn := s.RtspConn()
	_ = conn.SetReadDeadline(time.Now().Add(lalclient.DeliverTimeout))
	return conn, rtspref.NewClient(conn)
}

// rawSub is an HTTP (or WebSocket) subscriber that only separates the response header from what follows.
type rawSub struct {
	Conn *memconn.Conn
	mu   sync.Mutex
	cond *sync.Cond
	hdr  []byte
	body int
	eof  bool
}

func newRawSub(s *inproc.Server, pathWithQuery string, ws bool) *rawSub {
	c := &rawSub{Conn: s.HttpSub(pathWithQuery, ws)}
	c.cond = sync.NewCond(&c.mu)
	c.Conn.WaitPeerIdle(lalclient.IdleTimeout)
	go func() {
		buf := make([]byte, 32*1024)
		var all []byte
		done := false
		for {
			n, err := c.Conn.Read(buf)
			c.mu.Lock()
			if n > 0 {
				if !done {
					all = append(all, buf[:n]...)
					if i := bytes.Index(all, []byte("\r\n\r\n")); i >= 0 {
						c.hdr = append([]byte(nil), all[:i+4]...)
						c.body += len(all) - i - 4
						done = true
					}
				} else {
					c.body += n
				}
			}
			if err != nil {
				c.eof = true
			}
			c.cond.Broadcast()
			c.mu.Unlock()
			if err != nil {
				return
			}
		}
	}()
	return c
}

// wait blocks until body bytes arrived, the connection ended, or the timeout expired.
func (c *rawSub) wait(timeout time.Duration) (body int, hdr string, eof bool) {
	deadline := time.Now().Add(timeout)
	t := time.AfterFunc(timeout, func() { c.mu.Lock(); c.cond.Broadcast(); c.mu.Unlock() })
	defer t.Stop()
	c.mu.Lock()
	defer c.mu.Unlock()
	for c.body == 0 && !c.eof && time.Now().Before(deadline) {
		c.cond.Wait()
	}
	return c.body, string(c.hdr), c.eof
}

func (c *rawSub) waitEOF(timeout time.Duration) bool {
	deadline := time.Now().Add(timeout)
	t := time.AfterFunc(timeout, func() { c.mu.Lock(); c.cond.Broadcast(); c.mu.Unlock() })
	defer t.Stop()
	c.mu.Lock()
	defer c.mu.Unlock()
	for !c.eof && time.Now().Before(deadline) {
		c.cond.Wait()
	}
	return c.eof
}

// playAnyway is the client that ignores a refusal: whatever state the connection is in, it sends SETUP for the
// control names lal's own SDP uses and PLAY, then (push publishes more media) reads what arrives.  It reports how
// many interleaved RTP frames came back; -1 = a wait timed out (nothing to judge).
func playAnyway(conn *memconn.Conn, rc *rtspref.Client, uri string, push func()) (frames int, trace string) {
	_ = conn.SetReadDeadline(time.Now().Add(lalclient.DeliverTimeout))
	rc.Authorization = ""
	alive := true
	do := func(method, u string, hdr map[string]string) {
		if !alive {
			return
		}
		r, err := rc.Do(method, u, hdr, nil)
		switch {
		case isTimeout(err):
			trace += method + ": timeout; "
			frames = -1
			alive = false
		case err != nil:
			trace += fmt.Sprintf("%s: %v; ", method, err)
			alive = false
		default:
			trace += fmt.Sprintf("%s: %d; ", method, r.Status)
		}
	}
	for i, ctl := range []string{"streamid=0", "streamid=1"} {
		do("SETUP", uri+"/"+ctl, map[string]string{"Transport": fmt.Sprintf("RTP/AVP/TCP;unicast;interleaved=%d-%d", 2*i, 2*i+1)})
	}
	do("PLAY", uri, map[string]string{"Range": "npt=0.000-"})
	if frames < 0 {
		return -1, trace
	}
	n := 0
	if !alive {
		n = len(rc.Pending)
	}
	if alive {
		// the connection survived SETUP / PLAY: would media flow?
		push()
		conn.WaitPeerIdle(lalclient.IdleTimeout)
		_ = conn.SetReadDeadline(time.Now().Add(1500 * time.Millisecond))
		for {
			if _, err := rc.ReadFrame(); err != nil {
				break
			}
			n++
			if n >= 3 {
				break
			}
		}
	}
	return n, trace
}
