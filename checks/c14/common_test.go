// C14 — access control admits exactly the authorised requests.
//
// Shared helpers of the C14 sub-properties: a fixed, well-formed media feed,
// the reference secret predicate, the L3 (real net/http listener) wrapper that
// makes lal's unexported ServerManager.serveHls reachable, a raw HTTP/1.1
// client that sends request targets verbatim (Go's http.Client would clean
// them), and session look-ups in the stat API.
package c14

import (
	"bufio"
	"bytes"
	"crypto/md5"
	"encoding/hex"
	"fmt"
	"io"
	"math/rand"
	"net"
	"net/http"
	"os"
	"path/filepath"
	"strings"
	"sync"
	"time"

	"github.com/q191201771/lal/pkg/base"
	"github.com/q191201771/lal/pkg/logic"

	"verif/drv/pbt"
	"verif/gen"
	"verif/harness/inproc"
	"verif/harness/lalclient"
)

// ---- media ------------------------------------------------------------------

var codecs = gen.Codecs{Video: "avc", Audio: "aac", AscObj: 2, AscFreq: 4, AscChan: 2}

// headerItems are the metadata and the two sequence headers.
func headerItems() []gen.Item {
	return []gen.Item{{Kind: "meta", Sdf: true}, {Kind: "vsh"}, {Kind: "ash"}}
}

// gopItems is one GOP starting at ts: a key frame, audio, two inter frames.
// serial identifies the key frame's NAL unit (see isVideoSerial).
func gopItems(ts uint32, serial uint32) []gen.Item {
	return []gen.Item{
		{Kind: "video", Ts: ts, Key: true, Nals: []gen.NalSpec{{Hdr: []byte{0x65}, Len: 40, Seed: serial, Serial: serial}}},
		{Kind: "audio", Ts: ts + 5, ALen: 24, ASeed: serial*8 + 1},
		{Kind: "video", Ts: ts + 40, Nals: []gen.NalSpec{{Hdr: []byte{0x41}, Len: 30, Seed: serial + 1000, Serial: serial + 1000}}},
		{Kind: "audio", Ts: ts + 45, ALen: 24, ASeed: serial*8 + 2},
		{Kind: "video", Ts: ts + 80, Nals: []gen.NalSpec{{Hdr: []byte{0x41}, Len: 30, Seed: serial + 2000, Serial: serial + 2000}}},
		{Kind: "audio", Ts: ts + 85, ALen: 24, ASeed: serial*8 + 3},
	}
}

// keyNal renders the key-frame NAL unit gopItems(…, serial) publishes.
func keyNal(serial uint32) []byte {
	return gen.NalSpec{Hdr: []byte{0x65}, Len: 40, Seed: serial, Serial: serial}.Bytes()
}

// isKeyOf recognises the key frame of gopItems(_, serial) in an RTMP/FLV record.
func isKeyOf(serial uint32) func(lalclient.Rec) bool {
	n := keyNal(serial)
	return func(r lalclient.Rec) bool { return r.Type == gen.TypeVideo && bytes.Contains(r.Payload, n) }
}

func sendItems(p *lalclient.Publisher, items []gen.Item) {
	for _, it := range items {
		if err := p.SendItem(it, codecs, 0); err != nil {
			return // the peer closed (refused / kicked): the caller looks at the outcome
		}
	}
}

// mediaRecs counts audio / video / data records.
func mediaRecs(rs []lalclient.Rec) int {
	n := 0
	for _, r := range rs {
		if (r.Type == gen.TypeAudio || r.Type == gen.TypeVideo || r.Type == gen.TypeData) && len(r.Payload) > 0 {
			n++
		}
	}
	return n
}

// ---- reference secret predicate ---------------------------------------------

func md5hex(s string) string {
	h := md5.Sum([]byte(s))
	return hex.EncodeToString(h[:])
}

// refSecret is the documented lal_secret: hex MD5 of key followed by the stream name.
func refSecret(key, stream string) string { return md5hex(key + stream) }

// refValid is the reference predicate of the property text.
func refValid(secret, key, override, stream string) bool {
	if secret == "" {
		return false
	}
	if override != "" && secret == override {
		return true
	}
	return strings.EqualFold(secret, refSecret(key, stream))
}

func mixCase(s string) string {
	b := []byte(s)
	for i := range b {
		if i%2 == 0 && b[i] >= 'a' && b[i] <= 'z' {
			b[i] -= 32
		}
	}
	return string(b)
}

// ---- stat look-ups ------------------------------------------------------------

// listed reports whether a session whose remote address is addr is listed for
// the stream (as publisher, puller or subscriber).
func listed(s *inproc.Server, stream, addr string) (bool, string) {
	var sg *base.StatGroup
	s.Call("StatGroup", func() { sg = s.SM.StatGroup(stream) })
	if sg == nil {
		return false, ""
	}
	if sg.StatPub.SessionId != "" && sg.StatPub.RemoteAddr == addr {
		return true, "pub " + sg.StatPub.SessionId
	}
	for _, x := range sg.StatSubs {
		if x.RemoteAddr == addr {
			return true, "sub " + x.SessionId
		}
	}
	return false, ""
}

func pubID(s *inproc.Server, stream string) string {
	var sg *base.StatGroup
	s.Call("StatGroup", func() { sg = s.SM.StatGroup(stream) })
	if sg == nil {
		return ""
	}
	return sg.StatPub.SessionId
}

// ---- L3: lal with its real HTTP listener for HLS -------------------------------

// l3 is an in-process lal whose RunLoop is running: the HLS handler
// (ServerManager.serveHls is unexported) is reached through lal's own net/http
// listener on a pre-probed loopback port.  RTMP / RTSP / HTTP-FLV sessions are
// still driven in-process over memconn.
type l3 struct {
	*inproc.Server
	HlsAddr string
	runErr  chan error
}

var portRng = rand.New(rand.NewSource(int64(os.Getpid())*7919 + time.Now().UnixNano()))

// freePort picks a loopback port below the kernel's ephemeral range (so that neither another process' connect
// nor its ":0" listener is handed the same number a moment later) that can be bound right now.
func freePort() int {
	for i := 0; i < 200; i++ {
		p := 10000 + portRng.Intn(22000)
		l, err := net.Listen("tcp", fmt.Sprintf("127.0.0.1:%d", p))
		if err != nil {
			continue
		}
		_ = l.Close()
		return p
	}
	panic(pbt.HarnessError{Msg: "no free loopback port found"})
}

var l3mu sync.Mutex // one listener-owning instance at a time in this process
var l3seq int

// newL3 starts lal with HLS enabled.  mod may adjust the configuration further.
//
// Other processes (shards, other checks) probe ports at the same time, so "something accepts connections on
// the port" does not mean it is this instance: a probe playlist with a unique content is planted in this
// instance's HLS root and must come back through the listener before the instance is used.
func newL3(cfg inproc.Config, mod func(c *logic.Config)) *l3 {
	for attempt := 0; attempt < 8; attempt++ {
		port := freePort()
		addr := fmt.Sprintf("127.0.0.1:%d", port)
		cfg.Hls = true
		cfg.Mod = func(c *logic.Config) {
			// RTMP / RTSP / HTTP-FLV / HTTP-TS keep "127.0.0.1:0" (unused ephemeral listeners; their
			// enable flags also steer the group's remuxers, so they stay on)
			c.HlsConfig.HttpListenAddr = addr
			if mod != nil {
				mod(c)
			}
		}
		s := inproc.New(cfg)
		x := &l3{Server: s, HlsAddr: addr, runErr: make(chan error, 1)}
		l3seq++
		probeName := fmt.Sprintf("c14probe%dx%d", os.Getpid(), l3seq)
		nonce := fmt.Sprintf("#C14-PROBE %s %d", probeName, time.Now().UnixNano())
		probeDir := filepath.Join(s.Cfg.HlsConfig.OutPath, probeName)
		if err := os.MkdirAll(probeDir, 0o755); err != nil {
			panic(pbt.HarnessError{Msg: "probe dir: " + err.Error()})
		}
		if err := os.WriteFile(filepath.Join(probeDir, "playlist.m3u8"), []byte(nonce), 0o644); err != nil {
			panic(pbt.HarnessError{Msg: "probe file: " + err.Error()})
		}
		target := "/hls/" + probeName + ".m3u8?lal_secret=" + refSecret(cfg.SimpleAuth.Key, probeName)
		go func() { x.runErr <- s.SM.RunLoop() }()
		deadline := time.Now().Add(lalclient.IdleTimeout)
		up := false
	wait:
		for time.Now().Before(deadline) {
			select {
			case <-x.runErr:
				break wait // a listen failed (port taken in the meantime): retry on another port
			default:
			}
			r, err := rawGet(addr, "", target)
			if err == nil && r.Status/100 == 3 && r.Header.Get("Location") != "" {
				// HLS sub-session mode: the playlist request is redirected to a URL carrying a session_id
				r, err = rawGet(addr, "", r.Header.Get("Location"))
			}
			if err == nil {
				if bytes.Contains(r.Body, []byte(nonce)) {
					up = true
				}
				break wait // answered by this instance, or by someone else's: then retry elsewhere
			}
			time.Sleep(2 * time.Millisecond)
		}
		_ = os.RemoveAll(probeDir)
		if up {
			return x
		}
		s.Close()
	}
	panic(pbt.HarnessError{Msg: "could not start lal's HTTP listener on loopback"})
}

// httpResp is a parsed HTTP/1.1 response.
type httpResp struct {
	Status int
	Header http.Header
	Body   []byte
	At     time.Time // when the response had been read completely
}

// dialError marks a failure to connect (as opposed to a connection the server accepted and then closed).
type dialError struct{ error }

func isDialError(err error) bool {
	_, ok := err.(dialError)
	return ok
}

// rawGet sends "GET <target> HTTP/1.1" verbatim from localIP ("" = any) and reads the response.
func rawGet(addr, localIP, target string) (*httpResp, error) {
	d := net.Dialer{Timeout: lalclient.IdleTimeout}
	if localIP != "" {
		d.LocalAddr = &net.TCPAddr{IP: net.ParseIP(localIP)}
	}
	c, err := d.Dial("tcp", addr)
	if err != nil {
		return nil, dialError{err}
	}
	defer c.Close()
	_ = c.SetDeadline(time.Now().Add(lalclient.DeliverTimeout))
	if _, err := fmt.Fprintf(c, "GET %s HTTP/1.1\r\nHost: %s\r\nUser-Agent: verif-c14\r\nConnection: close\r\n\r\n", target, addr); err != nil {
		return nil, err
	}
	r, err := http.ReadResponse(bufio.NewReader(c), nil)
	if err != nil {
		return nil, err
	}
	defer r.Body.Close()
	b, err := io.ReadAll(r.Body)
	if err != nil {
		return nil, err
	}
	return &httpResp{Status: r.StatusCode, Header: r.Header, Body: b, At: time.Now()}, nil
}

// publishHls publishes headers and n GOPs spaced 1100 ms apart (the fragment
// duration is 1000 ms), so that n-1 fragments are closed and the playlist exists.
func publishHls(p *lalclient.Publisher, n int, serialBase uint32) {
	sendItems(p, headerItems())
	for i := 0; i < n; i++ {
		ts := uint32(i) * 1100
		if i > 0 {
			// lal's TS remuxer only marks a key frame as a fragment boundary while its AAC cache is
			// non-empty: an audio frame shortly before every key frame keeps it so
			sendItems(p, []gen.Item{{Kind: "audio", Ts: ts - 15, ALen: 24, ASeed: (serialBase+uint32(i))*8 + 7}})
		}
		sendItems(p, gopItems(ts, serialBase+uint32(i)))
	}
	p.WaitIdle()
}

// waitFile polls for a file lal writes synchronously while it consumes the
// publisher's messages (bounded; false = not there).
func waitFile(path string) bool {
	deadline := time.Now().Add(lalclient.DeliverTimeout)
	for {
		if st, err := os.Stat(path); err == nil && st.Size() > 0 {
			return true
		}
		if !time.Now().Before(deadline) {
			return false
		}
		time.Sleep(2 * time.Millisecond)
	}
}

func looksLikePlaylist(b []byte) bool {
	return bytes.Contains(b, []byte("#EXTM3U")) || bytes.Contains(b, []byte("#EXTINF")) || bytes.Contains(b, []byte(".ts"))
}

func under(root, p string) bool {
	root = filepath.Clean(root)
	p = filepath.Clean(p)
	return p == root || strings.HasPrefix(p, root+string(filepath.Separator))
}
