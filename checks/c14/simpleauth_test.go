// Sub-property "simple-auth": a publish / play / playlist request is admitted
// iff its protocol's flag is off or its URL carries a valid lal_secret.
//
// Reference predicate (written from the property text and lal's documentation,
// not from lal's code): valid(v) = v is not empty and (v equals the configured
// override secret, or v equals hex-MD5(key + streamName) ignoring letter case).
//
// Asserted:
//   - flag off                                   => admitted
//   - every lal_secret value valid, query well-formed => admitted
//   - flag on and no lal_secret value valid        => rejected
//   - a rejected request got no media / SDP / playlist, is not listed by the
//     stat API, and (publish) a following legitimate publisher is accepted.
//
// Not asserted: the outcome of duplicated parameters with mixed right/wrong
// values and of malformed queries that contain a right value; which status or
// error a rejected request gets; the override secret in another letter case;
// listing of admitted sessions (C03's subject); a wait that merely times out
// is counted as inconclusive, never reported.
package c14

import (
	"errors"
	"fmt"
	"os"
	"path/filepath"
	"strings"
	"testing"
	"time"

	"github.com/q191201771/lal/pkg/logic"
	"pgregory.net/rapid"

	"verif/drv/pbt"
	"verif/gen"
	"verif/harness/inproc"
	"verif/harness/lalclient"
	"verif/ref/rtspref"
)

// flag order: pub_rtmp sub_rtmp sub_httpflv sub_httpts pub_rtsp sub_rtsp hls_m3u8
var flagNames = []string{"pub_rtmp", "sub_rtmp", "sub_httpflv", "sub_httpts", "pub_rtsp", "sub_rtsp", "hls_m3u8"}

var protos = []string{"rtmp-pub", "rtmp-sub", "flv-sub", "wsflv-sub", "ts-sub", "wsts-sub", "rtsp-pub", "rtsp-sub", "wsrtsp-sub", "hls"}

func protoFlag(p string) int {
	switch p {
	case "rtmp-pub":
		return 0
	case "rtmp-sub":
		return 1
	case "flv-sub", "wsflv-sub":
		return 2
	case "ts-sub", "wsts-sub":
		return 3
	case "rtsp-pub":
		return 4
	case "rtsp-sub", "wsrtsp-sub":
		return 5
	case "hls":
		return 6
	}
	panic(pbt.HarnessError{Msg: "bad proto " + p})
}

var forms = []string{"absent", "empty", "name-only", "wrong", "wrong-key", "right-lower", "right-upper", "right-mixed", "other-stream", "override", "override-wrong",
	"prefix", "prefix", "one-digit", "right-trailing", "percent-encoded", "double-encoded", "override-prefix", "override-other-case",
	"other-param", "dup-right-right", "dup-wrong-wrong", "dup-right-wrong", "dup-wrong-right", "malformed-none", "malformed-right"}

type AuthCase struct {
	Flags    []bool `json:"flags"` // 7, see flagNames
	Key      string `json:"key"`
	Override string `json:"override"`
	Proto    string `json:"proto"`
	Form     string `json:"form"`
	Stream   string `json:"stream"`
	HlsPath  int    `json:"hls_path"`    // 0 /hls/<s>.m3u8   1 /hls/<s>/playlist.m3u8   2 /hls/<s>/record.m3u8
	Extra    int    `json:"extra"`       // 0 none, 1 unrelated parameter before, 2 after
	Variant  int    `json:"variant"`     // picks among the malformed shapes / the helper subscriber kind
	K        int    `json:"k,omitempty"` // near-miss forms: prefix length / digit position selector
}

var authKeys = []string{"q191201771", "", "KeY9mIxEd", "k e/y?&=#", "0", "ключ"}
var authOverrides = []string{"", "", "ovsecret1", "OvSecret-Mixed_2", "OVERRIDE.UPPER", "x"}
var authStreams = []string{"c14s", "C14Mixed", "s-1_2", "9"}

func genAuth(t *rapid.T) AuthCase {
	c := AuthCase{Flags: make([]bool, 7)}
	c.Proto = rapid.SampledFrom(protos).Draw(t, "proto")
	for i := range c.Flags {
		c.Flags[i] = rapid.Bool().Draw(t, "flag")
	}
	// the flag of the protocol under test is on in ~3/4 of the cases
	if rapid.IntRange(0, 3).Draw(t, "force") != 0 {
		c.Flags[protoFlag(c.Proto)] = true
	}
	c.Key = rapid.SampledFrom(authKeys).Draw(t, "key")
	c.Override = rapid.SampledFrom(authOverrides).Draw(t, "override")
	c.Form = rapid.SampledFrom(forms).Draw(t, "form")
	if (c.Form == "override" || c.Form == "override-wrong") && c.Override == "" {
		c.Override = rapid.SampledFrom(authOverrides[2:]).Draw(t, "override2")
	}
	c.Stream = rapid.SampledFrom(authStreams).Draw(t, "stream")
	c.HlsPath = rapid.IntRange(0, 2).Draw(t, "hlsPath")
	c.Extra = rapid.IntRange(0, 2).Draw(t, "extra")
	c.Variant = rapid.IntRange(0, 5).Draw(t, "variant")
	c.K = rapid.SampledFrom([]int{0, 0, 0, 1, 1, 2, 3, 7, 15, 16, 24, 30}).Draw(t, "k")
	if (c.Form == "override-prefix" || c.Form == "override-other-case") && c.Override == "" {
		c.Override = rapid.SampledFrom(authOverrides[2:]).Draw(t, "override3")
	}
	return c
}

// query renders the query string of the request under test (without '?'), the
// lal_secret values it carries in order, and whether it is well-formed.
func (c AuthCase) query() (q string, values []string, wellFormed bool) {
	right := refSecret(c.Key, c.Stream)
	wrong := flipLast(right)
	wellFormed = true
	var parts []string
	add := func(v string) {
		parts = append(parts, "lal_secret="+v)
		values = append(values, v)
	}
	switch c.Form {
	case "absent":
	case "empty":
		add("")
	case "name-only":
		parts = append(parts, "lal_secret")
		values = append(values, "")
	case "wrong":
		add(wrong)
	case "wrong-key":
		add(refSecret(c.Key+"x", c.Stream))
	case "right-lower":
		add(right)
	case "right-upper":
		add(strings.ToUpper(right))
	case "right-mixed":
		add(mixCase(right))
	case "other-stream":
		add(refSecret(c.Key, c.Stream+"b"))
	case "override":
		add(c.Override)
	case "override-wrong":
		add(c.Override + "0")
	case "prefix":
		// a proper prefix of the right value: 31 characters (K=0), 1 (K=1), else K mod 32 (0 = the empty value)
		add(right[:nearLen(c.K, len(right))])
	case "one-digit":
		b := []byte(right)
		i := c.K % len(b)
		if b[i] == '0' {
			b[i] = 'f'
		} else {
			b[i] = '0'
		}
		add(string(b))
	case "right-trailing":
		switch c.Variant % 3 {
		case 0:
			add(right + "0")
		case 1:
			parts = append(parts, "lal_secret="+right+"%20")
			values = append(values, right+" ")
		default:
			parts = append(parts, "lal_secret="+right+"%00")
			values = append(values, right+"\x00")
		}
	case "percent-encoded":
		// the same value, every character written as %XX: URL decoding gives the right secret
		enc := ""
		for i := 0; i < len(right); i++ {
			if c.Variant%2 == 0 || i%2 == 0 {
				enc += fmt.Sprintf("%%%02X", right[i])
			} else {
				enc += right[i : i+1]
			}
		}
		parts = append(parts, "lal_secret="+enc)
		values = append(values, right)
	case "double-encoded":
		enc, once := "", ""
		for i := 0; i < len(right); i++ {
			enc += fmt.Sprintf("%%25%02X", right[i])
			once += fmt.Sprintf("%%%02X", right[i])
		}
		parts = append(parts, "lal_secret="+enc)
		values = append(values, once)
	case "override-prefix":
		add(c.Override[:nearLen(c.K, len(c.Override))])
	case "override-other-case":
		sw := swapCase(c.Override)
		if sw == c.Override {
			sw = c.Override + "A"
		}
		add(sw)
	case "other-param":
		parts = append(parts, "lal_secret_x="+right, "secret="+right)
	case "dup-right-right":
		add(right)
		add(strings.ToUpper(right))
	case "dup-wrong-wrong":
		add(wrong)
		add("")
	case "dup-right-wrong":
		add(right)
		add(wrong)
	case "dup-wrong-right":
		add(wrong)
		add(right)
	case "malformed-none":
		wellFormed = false
		switch c.Variant % 4 {
		case 0:
			parts = append(parts, "lal_secret=%zz")
			values = append(values, "%zz")
		case 1:
			parts = append(parts, "lal_secret="+wrong+";x=1")
			values = append(values, wrong)
		case 2:
			parts = append(parts, "&&=&lal_secret&=")
			values = append(values, "")
		default:
			parts = append(parts, "lal_secret%3D"+wrong)
		}
	case "malformed-right":
		wellFormed = false
		switch c.Variant % 3 {
		case 0:
			parts = append(parts, "lal_secret="+right, "x=%zz")
		case 1:
			parts = append(parts, "lal_secret="+right+";y=2")
		default:
			parts = append(parts, "%zz=1", "lal_secret="+right)
		}
		values = append(values, right)
	default:
		panic(pbt.HarnessError{Msg: "bad form " + c.Form})
	}
	switch c.Extra {
	case 1:
		parts = append([]string{"vhost=a.b"}, parts...)
	case 2:
		parts = append(parts, "token=1")
	}
	return strings.Join(parts, "&"), values, wellFormed
}

// nearLen picks the length of a proper prefix of an n-character value.
func nearLen(k, n int) int {
	switch {
	case n <= 1:
		return 0
	case k == 0:
		return n - 1
	case k == 1:
		return 1
	}
	return k % n
}

func flipLast(h string) string {
	b := []byte(h)
	if b[len(b)-1] == '0' {
		b[len(b)-1] = '1'
	} else {
		b[len(b)-1] = '0'
	}
	return string(b)
}

func (c AuthCase) flagOn() bool { return c.Flags[protoFlag(c.Proto)] }

// expect is the reference verdict: "admit", "reject" or "any" (not asserted).
func (c AuthCase) expect() string {
	if !c.flagOn() {
		return "admit"
	}
	_, values, wf := c.query()
	nValid := 0
	for _, v := range values {
		if refValid(v, c.Key, c.Override, c.Stream) {
			nValid++
		}
	}
	switch {
	case nValid == 0:
		return "reject"
	case wf && nValid == len(values):
		return "admit"
	}
	return "any"
}

func (c AuthCase) conf() logic.SimpleAuthConfig {
	return logic.SimpleAuthConfig{Key: c.Key, DangerousLalSecret: c.Override,
		PubRtmpEnable: c.Flags[0], SubRtmpEnable: c.Flags[1], SubHttpflvEnable: c.Flags[2], SubHttptsEnable: c.Flags[3],
		PubRtspEnable: c.Flags[4], SubRtspEnable: c.Flags[5], HlsM3u8Enable: c.Flags[6]}
}

const (
	outAdmitted = iota
	outRejected
	outInconclusive
)

func isTimeout(err error) bool {
	if err == nil {
		return false
	}
	if errors.Is(err, os.ErrDeadlineExceeded) {
		return true
	}
	s := err.Error()
	return strings.Contains(s, "timeout") || strings.Contains(s, "deadline")
}

func inconclusive(what string) *pbt.Violation {
	pbt.Count("c14_inconclusive_"+what, 1)
	if os.Getenv("C14_DEBUG") != "" {
		fmt.Fprintf(os.Stderr, "C14 inconclusive: %s\n%s\n", what, pbt.AllGoroutines()[:3000])
	}
	return nil
}

// verdict compares the observed outcome with the reference verdict.
func (c AuthCase) verdict(outcome int, how string) *pbt.Violation {
	exp := c.expect()
	q, _, _ := c.query()
	ctx := fmt.Sprintf("%s stream=%q query=%q key=%q override=%q flags=%v (flag %s=%v): %s", c.Proto, c.Stream, q, c.Key, c.Override, c.Flags, flagNames[protoFlag(c.Proto)], c.flagOn(), how)
	switch {
	case exp == "admit" && outcome == outRejected:
		switch {
		case !c.flagOn():
			return pbt.V("simple-auth/flag-off-refused", "the protocol's flag is off but the request was refused: %s", ctx)
		case c.Form == "override":
			return pbt.V("simple-auth/override-secret-refused", "the request carries the configured override secret but was refused: %s", ctx)
		}
		return pbt.V("simple-auth/valid-secret-refused", "the request carries a valid lal_secret (md5(key+stream)=%s) but was refused: %s", refSecret(c.Key, c.Stream), ctx)
	case exp == "reject" && outcome == outAdmitted:
		return pbt.V("simple-auth/invalid-secret-admitted", "the flag is on and no lal_secret value is valid (md5(key+stream)=%s) but the request was admitted: %s", refSecret(c.Key, c.Stream), ctx)
	}
	return nil
}

// helperQuery is what the legitimate helper sessions use: the canonical secret.
func (c AuthCase) helperQuery() string { return "?lal_secret=" + refSecret(c.Key, c.Stream) }

// pubState tells whether an RTMP publisher (the only one offered for the stream at this moment) got
// attached.  lal answers the publish command before it consults the observer, so the client cannot tell from
// the handshake; afterwards the session is either parked in Read and listed as the stream's publisher, or its
// accept handler returns.
func pubState(s *inproc.Server, p *lalclient.Publisher, stream string) int {
	if p.Err != nil {
		if isTimeout(p.Err) {
			return outInconclusive
		}
		return outRejected
	}
	p.WaitIdle()
	if !p.Conn.PeerGone() && pubID(s, stream) != "" {
		return outAdmitted
	}
	if p.Conn.WaitPeerDone(lalclient.IdleTimeout) {
		return outRejected
	}
	return outInconclusive
}

// startFeeder starts the legitimate RTMP publisher used by the subscribe-side cases.
func (c AuthCase) startFeeder(s *inproc.Server) (*lalclient.Publisher, *pbt.Violation, bool) {
	p := lalclient.NewPublisher(s, "live", c.Stream+c.helperQuery(), 0)
	switch pubState(s, p, c.Stream) {
	case outInconclusive:
		return nil, inconclusive("feeder"), false
	case outRejected:
		return nil, pbt.V("simple-auth/valid-secret-refused", "the legitimate RTMP publisher (helper, lal_secret=%s, key=%q, stream=%q, flags=%v) was refused: %v", refSecret(c.Key, c.Stream), c.Key, c.Stream, c.Flags, p.Err), false
	}
	return p, nil, true
}

func runAuth(c AuthCase) *pbt.Violation {
	if len(c.Flags) != 7 {
		panic(pbt.HarnessError{Msg: "flags must have 7 entries"})
	}
	var v *pbt.Violation
	switch c.Proto {
	case "rtmp-sub", "flv-sub", "wsflv-sub", "ts-sub", "wsts-sub", "rtsp-sub", "wsrtsp-sub":
		s := inproc.New(inproc.Config{RtmpGopNum: 1, FlvGopNum: 1, TsGopNum: 1, SimpleAuth: c.conf()})
		defer s.Close()
		defer closeWsConns(s)
		v = c.runSub(s)
		if v == nil {
			v = s.PanicViolation()
		}
	case "rtmp-pub", "rtsp-pub":
		s := inproc.New(inproc.Config{RtmpGopNum: 1, FlvGopNum: 1, SimpleAuth: c.conf()})
		defer s.Close()
		v = c.runPub(s)
		if v == nil {
			v = s.PanicViolation()
		}
	case "hls":
		l3mu.Lock()
		defer l3mu.Unlock()
		x := newL3(inproc.Config{HlsFragmentMs: 1000, SimpleAuth: c.conf()}, nil)
		defer x.Close()
		v = c.runHls(x)
		if v == nil {
			v = x.PanicViolation()
		}
	default:
		panic(pbt.HarnessError{Msg: "bad proto " + c.Proto})
	}
	return v
}

func (c AuthCase) runSub(s *inproc.Server) *pbt.Violation {
	feeder, v, ok := c.startFeeder(s)
	if !ok {
		return v
	}
	sendItems(feeder, headerItems())
	sendItems(feeder, gopItems(0, 1))
	feeder.WaitIdle()
	q, _, _ := c.query()
	qs := ""
	if q != "" {
		qs = "?" + q
	}
	more := func() {
		// an attached subscriber certainly has something to receive: two further GOPs (the second one
		// flushes the TS remuxer's audio cache)
		sendItems(feeder, gopItems(1000, 2))
		sendItems(feeder, gopItems(2000, 3))
		feeder.WaitIdle()
	}
	outcome, how, addr := outInconclusive, "", ""
	switch c.Proto {
	case "rtmp-sub":
		sub := lalclient.NewRtmpSub(s, "live", c.Stream+qs)
		addr = sub.Conn.LocalAddr().String()
		if sub.JoinErr() != nil {
			if isTimeout(sub.JoinErr()) {
				return inconclusive("rtmp-sub-join")
			}
			outcome, how = outRejected, fmt.Sprintf("connection closed during play: %v", sub.JoinErr())
			break
		}
		more()
		idx := sub.WaitFor(isKeyOf(3), lalclient.DeliverTimeout)
		n := mediaRecs(sub.Recs())
		switch {
		case idx >= 0 || n > 0:
			outcome, how = outAdmitted, fmt.Sprintf("%d media messages received", n)
		case sub.Ended():
			outcome, how = outRejected, "connection closed without media"
		}
	case "flv-sub", "wsflv-sub":
		sub := lalclient.NewFlvSub(s, "live", c.Stream+qs, c.Proto == "wsflv-sub")
		addr = sub.Conn.LocalAddr().String()
		more()
		idx := sub.WaitFor(isKeyOf(3), lalclient.DeliverTimeout)
		n := len(sub.Recs())
		switch {
		case idx >= 0 || n > 0:
			outcome, how = outAdmitted, fmt.Sprintf("%d flv tags received", n)
		case sub.Ended():
			outcome, how = outRejected, fmt.Sprintf("connection closed without flv tags (http header %q)", sub.HTTPHdr)
		}
	case "ts-sub":
		sub := lalclient.NewTsSub(s, "live", c.Stream+qs)
		addr = sub.Conn.LocalAddr().String()
		more()
		got := sub.WaitPred(func(b []byte) bool { return len(b) >= 188 }, lalclient.DeliverTimeout)
		switch {
		case got || len(sub.Body()) > 0:
			outcome, how = outAdmitted, fmt.Sprintf("%d body bytes received", len(sub.Body()))
		case sub.Conn.EOFPending():
			outcome, how = outRejected, "connection closed without body bytes"
		}
	case "wsts-sub":
		sub := newRawSub(s, "/live/"+c.Stream+".ts"+qs, true)
		addr = sub.Conn.LocalAddr().String()
		more()
		n, hdr, eof := sub.wait(lalclient.DeliverTimeout)
		switch {
		case n > 0:
			outcome, how = outAdmitted, fmt.Sprintf("%d bytes of WebSocket frames received", n)
		case eof:
			outcome, how = outRejected, fmt.Sprintf("connection closed without a frame (response header %q)", hdr)
		}
	case "rtsp-sub", "wsrtsp-sub":
		conn, rc := rtspClient(s, c.Proto == "wsrtsp-sub")
		addr = conn.LocalAddr().String()
		uri := "rtsp://127.0.0.1:5544/live/" + c.Stream + qs
		r, err := rc.Describe(uri)
		if err != nil || r.Status != 200 || !strings.Contains(string(r.Body), "m=") {
			if !isTimeout(err) && c.flagOn() {
				// refused: the client goes on to SETUP / PLAY all the same, on this connection if it is still
				// there and on a new one without DESCRIBE (lal consults the secret only in the DESCRIBE callback)
				for round := 0; round < 2; round++ {
					n, trace := playAnyway(conn, rc, uri, more)
					if n < 0 {
						return inconclusive("rtsp-play-anyway")
					}
					if n > 0 && c.expect() == "reject" {
						return pbt.V("simple-auth/rejected-request-got-media", "%s request %q was refused at DESCRIBE (%v) but the client went on to SETUP / PLAY (%s) and received %d RTP frames", c.Proto, qs, err, trace, n)
					}
					if l, what := listed(s, c.Stream, conn.LocalAddr().String()); l && c.expect() == "reject" {
						return pbt.V("simple-auth/rejected-request-listed", "%s request %q was refused at DESCRIBE but after SETUP / PLAY (%s) the stat API lists it: %s", c.Proto, qs, trace, what)
					}
					conn, rc = rtspClient(s, c.Proto == "wsrtsp-sub")
				}
			}
		}
		switch {
		case err == nil && r.Status == 200 && strings.Contains(string(r.Body), "m="):
			outcome, how = outAdmitted, "DESCRIBE answered 200 with an SDP"
		case isTimeout(err):
			return inconclusive("rtsp-describe")
		case err != nil:
			outcome, how = outRejected, fmt.Sprintf("connection closed on DESCRIBE: %v", err)
		case !strings.Contains(string(r.Body), "m="):
			outcome, how = outRejected, fmt.Sprintf("DESCRIBE answered %d without SDP", r.Status)
		}
	}
	if outcome == outInconclusive {
		return inconclusive(c.Proto)
	}
	if v := c.verdict(outcome, how); v != nil {
		return v
	}
	if outcome == outRejected {
		if l, what := listed(s, c.Stream, addr); l {
			return pbt.V("simple-auth/rejected-request-listed", "%s request %q was rejected (%s) but the stat API lists it: %s", c.Proto, qs, how, what)
		}
	}
	return nil
}

func (c AuthCase) runPub(s *inproc.Server) *pbt.Violation {
	// the legitimate watcher (canonical secret), alternately RTMP and HTTP-FLV
	var watcher *lalclient.Consumer
	if c.Variant%2 == 0 {
		watcher = lalclient.NewRtmpSub(s, "live", c.Stream+c.helperQuery())
	} else {
		watcher = lalclient.NewFlvSub(s, "live", c.Stream+c.helperQuery(), false)
	}
	if watcher.JoinErr() != nil || watcher.Ended() {
		if isTimeout(watcher.JoinErr()) {
			return inconclusive("watcher")
		}
		return pbt.V("simple-auth/valid-secret-refused", "the legitimate %s subscriber (helper, lal_secret=%s, key=%q, stream=%q, flags=%v) was refused: %v", watcher.Kind, refSecret(c.Key, c.Stream), c.Key, c.Stream, c.Flags, watcher.JoinErr())
	}
	q, _, _ := c.query()
	qs := ""
	if q != "" {
		qs = "?" + q
	}
	outcome, how, addr := outInconclusive, "", ""
	switch c.Proto {
	case "rtmp-pub":
		p := lalclient.NewPublisher(s, "live", c.Stream+qs, 0)
		addr = p.Conn.LocalAddr().String()
		if p.Err == nil {
			// a refused publisher tries to publish all the same
			sendItems(p, headerItems())
			sendItems(p, gopItems(0, 7))
		}
		switch pubState(s, p, c.Stream) {
		case outRejected:
			outcome, how = outRejected, fmt.Sprintf("publisher disconnected (%v)", p.Err)
		case outAdmitted:
			outcome, how = outAdmitted, "publisher attached: the stat API lists publisher "+pubID(s, c.Stream)
			if watcher.WaitFor(isKeyOf(7), lalclient.DeliverTimeout) < 0 {
				pbt.Count("c14_inconclusive_pub-media-not-seen", 1)
			}
		}
	case "rtsp-pub":
		conn := s.RtspConn()
		addr = conn.LocalAddr().String()
		_ = conn.SetReadDeadline(time.Now().Add(lalclient.DeliverTimeout))
		rc := rtspref.NewClient(conn)
		_, sps, pps := gen.ParamSets("avc", 0)
		tracks := []rtspref.Track{{Media: "video", PT: 96, Encoding: "H264", ClockRate: 90000, Fmtp: rtspref.H264Fmtp(sps, pps), Control: "streamid=0"}}
		resp, perr := rc.Publish("rtsp://127.0.0.1:5544/live/"+c.Stream+qs, tracks)
		_ = conn.SetReadDeadline(time.Time{})
		switch {
		case perr == nil:
			conn.WaitPeerIdle(lalclient.IdleTimeout)
			if id := pubID(s, c.Stream); id != "" {
				outcome, how = outAdmitted, "ANNOUNCE/SETUP/RECORD answered 200, the stat API lists publisher "+id
			}
		case isTimeout(perr):
			return inconclusive("rtsp-pub")
		default:
			if !conn.WaitPeerDone(lalclient.IdleTimeout) {
				// refused with a status code but the connection stays: close it ourselves
				_ = conn.Close()
				conn.WaitPeerDone(lalclient.IdleTimeout)
			}
			outcome, how = outRejected, fmt.Sprintf("publish failed: %v (response %+v)", perr, resp)
		}
	}
	if outcome == outInconclusive {
		if os.Getenv("C14_DEBUG") != "" {
			fmt.Fprintf(os.Stderr, "C14 pub outcome unknown: case=%+v addr=%s pubID=%q\n", c, addr, pubID(s, c.Stream))
		}
		return inconclusive(c.Proto + "-outcome")
	}
	if v := c.verdict(outcome, how); v != nil {
		return v
	}
	if outcome != outRejected {
		return nil
	}
	// a rejected publish request: not listed, created no publisher, delivered nothing, and does not block the name
	if l, what := listed(s, c.Stream, addr); l {
		return pbt.V("simple-auth/rejected-request-listed", "%s request %q was rejected (%s) but the stat API lists it: %s", c.Proto, qs, how, what)
	}
	if id := pubID(s, c.Stream); id != "" {
		return pbt.V("simple-auth/rejected-request-created-publisher", "%s request %q was rejected (%s) but the stream has publisher %s", c.Proto, qs, how, id)
	}
	legit := lalclient.NewPublisher(s, "live", c.Stream+c.helperQuery(), 0)
	if legit.Err == nil {
		sendItems(legit, headerItems())
		sendItems(legit, gopItems(0, 9))
	}
	switch pubState(s, legit, c.Stream) {
	case outInconclusive:
		return inconclusive("legit-pub")
	case outRejected:
		return pbt.V("simple-auth/rejected-request-blocks-stream", "after the rejected %s request %q (%s) a legitimate RTMP publisher (lal_secret=%s) was refused: %v", c.Proto, qs, how, refSecret(c.Key, c.Stream), legit.Err)
	}
	if watcher.WaitFor(isKeyOf(9), lalclient.DeliverTimeout) < 0 {
		return inconclusive("legit-media")
	}
	for _, r := range watcher.Recs() {
		if isKeyOf(7)(r) {
			return pbt.V("simple-auth/rejected-request-delivered-media", "media of the rejected %s request %q reached a subscriber: %s", c.Proto, qs, r)
		}
	}
	return nil
}

func (c AuthCase) runHls(x *l3) *pbt.Violation {
	feeder, v, ok := c.startFeeder(x.Server)
	if !ok {
		return v
	}
	publishHls(feeder, 4, 1)
	dir := filepath.Join(x.Cfg.HlsConfig.OutPath, c.Stream)
	file := "playlist.m3u8"
	if c.HlsPath == 2 {
		file = "record.m3u8"
	}
	if !waitFile(filepath.Join(dir, file)) {
		return inconclusive("hls-playlist-not-written")
	}
	q, _, _ := c.query()
	target := "/hls/" + c.Stream
	switch c.HlsPath {
	case 0:
		target += ".m3u8"
	case 1:
		target += "/playlist.m3u8"
	default:
		target += "/record.m3u8"
	}
	if q != "" {
		target += "?" + q
	}
	r, err := rawGet(x.HlsAddr, "", target)
	if err != nil {
		if isTimeout(err) || isDialError(err) {
			return inconclusive("hls-get")
		}
		// connection accepted and closed without a response: a rejection
		return c.verdict(outRejected, fmt.Sprintf("GET %s: %v", target, err))
	}
	if looksLikePlaylist(r.Body) {
		return c.verdict(outAdmitted, fmt.Sprintf("GET %s answered %d with a playlist of %d bytes", target, r.Status, len(r.Body)))
	}
	if r.Status == 400 {
		// net/http refused the request target itself (malformed query): the handler was not reached
		return inconclusive("hls-400")
	}
	return c.verdict(outRejected, fmt.Sprintf("GET %s answered %d with %d body bytes, no playlist", target, r.Status, len(r.Body)))
}

func classifyAuth(c AuthCase) (bool, []string) {
	fv := ""
	for _, f := range c.Flags {
		if f {
			fv += "1"
		} else {
			fv += "0"
		}
	}
	dir := "sub"
	if strings.HasSuffix(c.Proto, "-pub") {
		dir = "pub"
	}
	if c.Proto == "hls" {
		dir = "playlist"
	}
	ov := "none"
	switch {
	case c.Override == "":
	case c.Override == strings.ToLower(c.Override):
		ov = "lower"
	default:
		ov = "mixed-or-upper"
	}
	key := "plain"
	switch {
	case c.Key == "":
		key = "empty"
	case c.Key != strings.ToLower(c.Key):
		key = "mixed-case"
	case strings.ContainsAny(c.Key, " /?&=#") || c.Key == "ключ":
		key = "special"
	}
	on := "off"
	if c.flagOn() {
		on = "on"
	}
	labels := []string{"flags:" + fv, "proto:" + c.Proto, "dir:" + dir, "form:" + c.Form, "flag:" + on, "expect:" + c.expect(), "override:" + ov, "key:" + key,
		"proto+form:" + c.Proto + "/" + c.Form}
	return c.flagOn() && c.Form != "right-lower", labels
}

func TestSimpleAuth(t *testing.T) {
	pbt.Run(t, pbt.Spec[AuthCase]{
		ID: "C14", Name: "simple-auth", Gen: genAuth, Run: runAuth, Classify: classifyAuth,
		Quick: 700, Thorough: 3000,
	})
}
