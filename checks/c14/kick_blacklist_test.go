// Sub-properties "kick" (a kicked session of every kind is disconnected: its
// client sees the end of the connection) and "ip-blacklist" (a black-listed
// address gets no HLS content until the entry expires).
//
// kick is kept light: C03 covers kick targets and bystanders.  Not asserted:
// that other addresses are still served while one is black-listed; how a
// black-listed request is answered (status); the exact expiry instant — a
// probe is only judged when its response was complete before addTime+duration
// (must be blocked) or was sent 2.5 s after it (must be served again).
package c14

import (
	"fmt"
	"io"
	"net"
	"os"
	"path/filepath"
	"sort"
	"strings"
	"testing"
	"time"

	"github.com/q191201771/lal/pkg/base"
	"pgregory.net/rapid"

	"verif/drv/pbt"
	"verif/gen"
	"verif/harness/inproc"
	"verif/harness/lalclient"
	"verif/harness/memconn"
	"verif/harness/stub"
	"verif/ref/rtspref"
)

// ---- kick ---------------------------------------------------------------------

var kickKinds = []string{"rtmp-pub", "rtmp-sub", "flv-sub", "wsflv-sub", "ts-sub", "wsts-sub", "rtsp-pub", "rtsp-sub", "wsrtsp-sub", "ps-pub-udp", "ps-pub-tcp", "pull"}

type KickCase struct {
	Kind     string `json:"kind"`
	Bystand  bool   `json:"bystand"`  // a second subscriber is attached
	SendMore bool   `json:"sendmore"` // media keeps flowing around the kick
}

func genKick(t *rapid.T) KickCase {
	return KickCase{Kind: rapid.SampledFrom(kickKinds).Draw(t, "kind"), Bystand: rapid.Bool().Draw(t, "bystand"), SendMore: rapid.Bool().Draw(t, "sendmore")}
}

// drainToEOF reads the client end until the connection ends; false = still open at the deadline.
func drainToEOF(conn *memconn.Conn, r io.Reader) bool {
	_ = conn.SetReadDeadline(time.Now().Add(lalclient.DeliverTimeout))
	buf := make([]byte, 32*1024)
	for {
		_, err := r.Read(buf)
		if err != nil {
			return !isTimeout(err)
		}
	}
}

func sessionIDByAddr(s *inproc.Server, stream, addr string) string {
	var sg *base.StatGroup
	s.Call("StatGroup", func() { sg = s.SM.StatGroup(stream) })
	if sg == nil {
		return ""
	}
	if sg.StatPub.RemoteAddr == addr {
		return sg.StatPub.SessionId
	}
	for _, x := range sg.StatSubs {
		if x.RemoteAddr == addr {
			return x.SessionId
		}
	}
	return ""
}

// idListed reports whether the stat API lists the session id for the stream (publisher, pull or subscriber).
func idListed(s *inproc.Server, stream, id string) bool {
	var sg *base.StatGroup
	s.Call("StatGroup", func() { sg = s.SM.StatGroup(stream) })
	if sg == nil {
		return false
	}
	if sg.StatPub.SessionId == id || sg.StatPull.SessionId == id {
		return true
	}
	for _, x := range sg.StatSubs {
		if x.SessionId == id {
			return true
		}
	}
	return false
}

// kickStateTimeout bounds the waits for sessions that lal tears down in goroutines of its own (GB28181 pub, relay
// pull): the verdict is the state the stat API / the origin's socket shows after it, healthy teardown takes
// milliseconds.
const kickStateTimeout = 10 * time.Second

// The kick oracle judges three promises separately:
//   - disconnected: the client of the kicked session sees the end of its connection.  If it does not within
//     DeliverTimeout the verdict rests on the state of the connection alone: lal never closed its end although
//     the API acknowledged the kick (kick/session-not-disconnected);
//   - no longer a session: once lal's handler for the connection has returned (its teardown is complete) the stat
//     API must not list the id any more (kick/session-still-listed);
//   - no further service: a kicked publisher's name is free again (a legitimate publisher is accepted:
//     kick/kicked-input-still-holds-stream).
func runKick(c KickCase) *pbt.Violation {
	const stream = "c14kick"
	s := inproc.New(inproc.Config{RtmpGopNum: 1, FlvGopNum: 1, TsGopNum: 1})
	defer s.Close()
	defer closeWsConns(s)
	var feeder *lalclient.Publisher
	isSub := strings.HasSuffix(c.Kind, "-sub")
	if isSub {
		feeder = lalclient.NewPublisher(s, "live", stream, 0)
		if feeder.Err != nil {
			return inconclusive("kick-feeder")
		}
		sendItems(feeder, headerItems())
		sendItems(feeder, gopItems(0, 1))
		feeder.WaitIdle()
	}
	var conn *memconn.Conn      // client end of an in-memory session
	var ended func() bool       // the client saw the end of its connection
	var handlerDone func() bool // lal's handler for the connection has returned
	id := ""
	rtspEnded := func(rc *rtspref.Client) func() bool {
		return func() bool {
			for {
				if _, err := rc.ReadFrame(); err != nil {
					return !isTimeout(err)
				}
			}
		}
	}
	switch c.Kind {
	case "rtmp-pub":
		p := lalclient.NewPublisher(s, "live", stream, 0)
		if p.Err != nil {
			return inconclusive("kick-pub")
		}
		sendItems(p, headerItems())
		sendItems(p, gopItems(0, 1))
		p.WaitIdle()
		conn = p.Conn
		ended = func() bool { return drainToEOF(conn, conn) }
	case "rtmp-sub":
		sub := lalclient.NewRtmpSub(s, "live", stream)
		conn = sub.Conn
		ended = func() bool { return sub.WaitEnded(lalclient.DeliverTimeout) }
	case "flv-sub", "wsflv-sub":
		sub := lalclient.NewFlvSub(s, "live", stream, c.Kind == "wsflv-sub")
		conn = sub.Conn
		ended = func() bool { return sub.WaitEnded(lalclient.DeliverTimeout) }
	case "ts-sub":
		sub := lalclient.NewTsSub(s, "live", stream)
		conn = sub.Conn
		ended = func() bool {
			sub.WaitPred(func([]byte) bool { return false }, lalclient.DeliverTimeout)
			return conn.EOFPending()
		}
	case "wsts-sub":
		sub := newRawSub(s, "/live/"+stream+".ts", true)
		conn = sub.Conn
		ended = func() bool { return sub.waitEOF(lalclient.DeliverTimeout) }
	case "rtsp-pub":
		var rc *rtspref.Client
		conn, rc = rtspClient(s, false)
		_, sps, pps := gen.ParamSets("avc", 0)
		tracks := []rtspref.Track{{Media: "video", PT: 96, Encoding: "H264", ClockRate: 90000, Fmtp: rtspref.H264Fmtp(sps, pps), Control: "streamid=0"}}
		if _, err := rc.Publish("rtsp://127.0.0.1:5544/live/"+stream, tracks); err != nil {
			return inconclusive("kick-rtsp-pub")
		}
		conn.WaitPeerIdle(lalclient.IdleTimeout)
		ended = rtspEnded(rc)
	case "rtsp-sub", "wsrtsp-sub":
		var rc *rtspref.Client
		conn, rc = rtspClient(s, c.Kind == "wsrtsp-sub")
		uri := "rtsp://127.0.0.1:5544/live/" + stream
		r, err := rc.Describe(uri)
		if err != nil || r.Status != 200 {
			return inconclusive("kick-rtsp-describe")
		}
		if err := rc.SetupPlay(uri, rtspref.SdpControls(r.Body)); err != nil {
			return inconclusive("kick-rtsp-play")
		}
		conn.WaitPeerIdle(lalclient.IdleTimeout)
		ended = rtspEnded(rc)
	case "ps-pub-udp", "ps-pub-tcp":
		tcp := 0
		if c.Kind == "ps-pub-tcp" {
			tcp = 1
		}
		var resp base.ApiCtrlStartRtpPubResp
		s.Call("CtrlStartRtpPub", func() {
			resp = s.SM.CtrlStartRtpPub(base.ApiCtrlStartRtpPubReq{StreamName: stream, Port: 0, TimeoutMs: 60000, IsTcpFlag: tcp})
		})
		if resp.ErrorCode != base.ErrorCodeSucc || resp.Data.SessionId == "" {
			return inconclusive("kick-start-rtp-pub")
		}
		id = resp.Data.SessionId
		if tcp == 1 {
			tc, err := net.DialTimeout("tcp", fmt.Sprintf("127.0.0.1:%d", resp.Data.Port), lalclient.IdleTimeout)
			if err != nil {
				return inconclusive("kick-rtp-pub-dial")
			}
			defer tc.Close()
			// two bytes of a length prefix, so that lal has accepted the connection and is reading from it
			_, _ = tc.Write([]byte{0, 12})
			time.Sleep(5 * time.Millisecond)
			ended = func() bool {
				_ = tc.SetReadDeadline(time.Now().Add(kickStateTimeout))
				buf := make([]byte, 256)
				for {
					if _, err := tc.Read(buf); err != nil {
						return !isTimeout(err)
					}
				}
			}
		}
		// the session is over when it is no longer the stream's publisher (lal's own goroutine removes it)
		handlerDone = func() bool {
			deadline := time.Now().Add(kickStateTimeout)
			for time.Now().Before(deadline) {
				if !idListed(s, stream, id) {
					return true
				}
				time.Sleep(2 * time.Millisecond)
			}
			return false
		}
	case "pull":
		origin, err := stub.NewRtmpStub()
		if err != nil {
			return inconclusive("kick-stub")
		}
		defer origin.Close()
		var resp base.ApiCtrlStartRelayPullResp
		s.Call("CtrlStartRelayPull", func() {
			resp = s.SM.CtrlStartRelayPull(base.ApiCtrlStartRelayPullReq{Url: "rtmp://" + origin.Addr + "/live/" + stream, StreamName: stream,
				PullTimeoutMs: 10000, PullRetryNum: 0, AutoStopPullAfterNoOutMs: -1})
		})
		if resp.ErrorCode != base.ErrorCodeSucc || resp.Data.SessionId == "" {
			return inconclusive("kick-start-pull")
		}
		id = resp.Data.SessionId
		oc := origin.Accept(lalclient.DeliverTimeout)
		if oc == nil {
			return inconclusive("kick-pull-no-attempt")
		}
		if oc.Handshake() != nil || oc.ServeUntilPlayOrPublish() != nil || oc.AcceptPlay() != nil {
			return inconclusive("kick-pull-handshake")
		}
		for _, it := range append(headerItems(), gopItems(0, 1)...) {
			_ = oc.SendMedia(it.TypeID(), it.Ts, it.Payload(codecs))
		}
		// attached once the stat API names it as the stream's pull session
		deadline := time.Now().Add(lalclient.DeliverTimeout)
		for !idListed(s, stream, id) {
			if !time.Now().Before(deadline) {
				return inconclusive("kick-pull-not-attached")
			}
			time.Sleep(2 * time.Millisecond)
		}
		ended = func() bool { return oc.WaitPeerClose(kickStateTimeout) }
		handlerDone = func() bool {
			deadline := time.Now().Add(kickStateTimeout)
			for time.Now().Before(deadline) {
				if !idListed(s, stream, id) {
					return true
				}
				time.Sleep(2 * time.Millisecond)
			}
			return false
		}
	default:
		panic(pbt.HarnessError{Msg: "bad kind " + c.Kind})
	}
	var by *lalclient.Consumer
	if c.Bystand {
		by = lalclient.NewFlvSub(s, "live", stream, false)
	}
	addr := ""
	if conn != nil {
		addr = conn.LocalAddr().String()
		id = sessionIDByAddr(s, stream, addr)
		handlerDone = func() bool { return conn.WaitPeerDone(lalclient.DeliverTimeout) }
	}
	if id == "" || !idListed(s, stream, id) {
		return inconclusive("kick-session-not-listed-" + c.Kind)
	}
	if c.SendMore && feeder != nil {
		sendItems(feeder, gopItems(1000, 2))
	}
	var resp base.ApiCtrlKickSessionResp
	s.Call("CtrlKickSession", func() { resp = s.SM.CtrlKickSession(base.ApiCtrlKickSessionReq{StreamName: stream, SessionId: id}) })
	if resp.ErrorCode != base.ErrorCodeSucc {
		return pbt.V("kick/attached-session-not-found", "kick of the attached %s session %s (listed by the stat API) answered %d %s", c.Kind, id, resp.ErrorCode, resp.Desp)
	}
	if c.SendMore && feeder != nil {
		sendItems(feeder, gopItems(2000, 3))
	}
	// promise 1: disconnected
	if ended != nil && !ended() {
		if conn != nil && conn.PeerGone() {
			return inconclusive("kick-eof-not-seen") // lal closed its end; the client-side reader is late
		}
		return pbt.V("kick/session-not-disconnected", "the %s session %s was kicked (API answered success) but lal has not closed its end of the connection within the bound (still listed: %v)",
			c.Kind, id, idListed(s, stream, id))
	}
	// promise 2: no longer a session
	if !handlerDone() {
		if ended != nil {
			// the connection is closed but the session never left the stream
			if idListed(s, stream, id) {
				return pbt.V("kick/session-still-listed", "the %s session %s was kicked and its connection closed, but the stat API still lists it after the bound", c.Kind, id)
			}
			return inconclusive("kick-handler-not-done")
		}
		return pbt.V("kick/session-still-listed", "the %s session %s was kicked (API answered success) but %v later the stat API still lists it", c.Kind, id, kickStateTimeout)
	}
	if idListed(s, stream, id) {
		return pbt.V("kick/session-still-listed", "the %s session %s was kicked, its connection is closed and lal's handler has returned, but the stat API still lists it", c.Kind, id)
	}
	// promise 3: a kicked input no longer holds the stream
	if !isSub {
		legit := lalclient.NewPublisher(s, "live", stream, 0)
		if legit.Err == nil {
			sendItems(legit, headerItems())
		}
		switch pubState(s, legit, stream) {
		case outRejected:
			return pbt.V("kick/kicked-input-still-holds-stream", "after the %s session %s was kicked and had left the stat API, a new RTMP publisher of the stream was refused: %v", c.Kind, id, legit.Err)
		case outInconclusive:
			return inconclusive("kick-legit-pub")
		}
	}
	_ = by
	return s.PanicViolation()
}

func classifyKick(c KickCase) (bool, []string) {
	return true, []string{"kind:" + c.Kind, fmt.Sprintf("bystander:%v", c.Bystand), fmt.Sprintf("media-flowing:%v", c.SendMore)}
}

func TestKick(t *testing.T) {
	pbt.Run(t, pbt.Spec[KickCase]{
		ID: "C14", Name: "kick", Gen: genKick, Run: runKick, Classify: classifyKick,
		Quick: 60, Thorough: 300,
	})
}

// ---- ip blacklist ----------------------------------------------------------------

type BlacklistCase struct {
	Blocked     int  `json:"blocked"` // the client binds 127.0.0.<Blocked>
	DurationSec int  `json:"duration_sec"`
	Target      int  `json:"target"` // 0 /hls/<s>.m3u8  1 /hls/<s>/playlist.m3u8  2 /hls/<s>/record.m3u8  3 a segment
	Wait        bool `json:"wait"`   // real-time part: probe until shortly before expiry, then after it (thorough tier)
	Probes      int  `json:"probes"`
}

func genBlacklist(t *rapid.T) BlacklistCase {
	c := BlacklistCase{Blocked: rapid.IntRange(2, 250).Draw(t, "blocked"), Target: rapid.IntRange(0, 3).Draw(t, "target"), Probes: rapid.IntRange(1, 4).Draw(t, "probes")}
	// the expiry leg needs real time (about 4.5 s): a third of the cases in thorough, about one per shard in quick
	waitOneIn := 45
	if pbt.Thorough() {
		waitOneIn = 3
	}
	if rapid.IntRange(1, waitOneIn).Draw(t, "waitClass") == 1 {
		c.Wait = true
		c.DurationSec = 1
		if pbt.Thorough() {
			c.DurationSec = rapid.IntRange(1, 2).Draw(t, "dur")
		}
	} else {
		c.DurationSec = rapid.SampledFrom([]int{30, 60, 3600, 86400}).Draw(t, "dur")
	}
	return c
}

func hlsContent(b []byte) bool {
	return looksLikePlaylist(b) || (len(b) >= 188 && b[0] == 0x47)
}

func runBlacklist(c BlacklistCase) *pbt.Violation {
	const stream = "c14bl"
	l3mu.Lock()
	defer l3mu.Unlock()
	x := newL3(inproc.Config{HlsFragmentMs: 1000}, nil)
	defer x.Close()
	feeder := lalclient.NewPublisher(x.Server, "live", stream, 0)
	if feeder.Err != nil {
		return inconclusive("bl-feeder")
	}
	publishHls(feeder, 4, 1)
	dir := filepath.Join(x.Cfg.HlsConfig.OutPath, stream)
	if !waitFile(filepath.Join(dir, "playlist.m3u8")) {
		return inconclusive("bl-playlist-not-written")
	}
	target := "/hls/" + stream
	switch c.Target {
	case 0:
		target += ".m3u8"
	case 1:
		target += "/playlist.m3u8"
	case 2:
		target += "/record.m3u8"
	default:
		ents, _ := os.ReadDir(dir)
		var segs []string
		for _, e := range ents {
			if strings.HasSuffix(e.Name(), ".ts") {
				segs = append(segs, e.Name())
			}
		}
		sort.Strings(segs)
		if len(segs) == 0 {
			return inconclusive("bl-no-segment")
		}
		target += "/" + segs[0]
	}
	ip := fmt.Sprintf("127.0.0.%d", c.Blocked)
	pre, err := rawGet(x.HlsAddr, ip, target)
	if err != nil || !hlsContent(pre.Body) {
		// cannot bind the address / content not there: nothing to judge
		return inconclusive("bl-precondition")
	}
	t0 := time.Now()
	var resp base.ApiCtrlAddIpBlacklistResp
	x.Call("CtrlAddIpBlacklist", func() {
		resp = x.SM.CtrlAddIpBlacklist(base.ApiCtrlAddIpBlacklistReq{Ip: ip, DurationSec: c.DurationSec})
	})
	if resp.ErrorCode != base.ErrorCodeSucc {
		return inconclusive("bl-add-failed")
	}
	expiry := t0.Add(time.Duration(c.DurationSec) * time.Second)
	probe := func(n int) *pbt.Violation {
		r, err := rawGet(x.HlsAddr, ip, target)
		if err != nil {
			return nil // no response at all is "no content"
		}
		if hlsContent(r.Body) && r.At.Before(expiry) {
			return pbt.V("blacklist/blocked-address-served", "address %s was black-listed for %d s at %s; probe %d of GET %s completed at %s (before expiry) with status %d and %d bytes of HLS content",
				ip, c.DurationSec, t0.Format("15:04:05.000"), n, target, r.At.Format("15:04:05.000"), r.Status, len(r.Body))
		}
		return nil
	}
	for i := 0; i < c.Probes; i++ {
		if v := probe(i); v != nil {
			return v
		}
	}
	if c.Wait {
		n := c.Probes
		for time.Now().Before(expiry.Add(-250 * time.Millisecond)) {
			if v := probe(n); v != nil {
				return v
			}
			n++
			time.Sleep(120 * time.Millisecond)
		}
		time.Sleep(time.Until(expiry.Add(2500 * time.Millisecond)))
		r, err := rawGet(x.HlsAddr, ip, target)
		if err != nil {
			if isTimeout(err) || isDialError(err) {
				return inconclusive("bl-after-expiry")
			}
			return pbt.V("blacklist/still-blocked-after-expiry", "address %s was black-listed for %d s; 2.5 s after expiry GET %s failed: %v", ip, c.DurationSec, target, err)
		}
		if !hlsContent(r.Body) {
			return pbt.V("blacklist/still-blocked-after-expiry", "address %s was black-listed for %d s; 2.5 s after expiry GET %s is answered %d without HLS content", ip, c.DurationSec, target, r.Status)
		}
	}
	return x.PanicViolation()
}

func classifyBlacklist(c BlacklistCase) (bool, []string) {
	tg := []string{"name.m3u8", "playlist.m3u8", "record.m3u8", "segment.ts"}[c.Target%4]
	d := "long"
	if c.DurationSec <= 2 {
		d = "short"
	}
	return true, []string{"target:" + tg, "duration:" + d, fmt.Sprintf("real-wait:%v", c.Wait)}
}

func TestIpBlacklist(t *testing.T) {
	pbt.Run(t, pbt.Spec[BlacklistCase]{
		ID: "C14", Name: "ip-blacklist", Gen: genBlacklist, Run: runBlacklist, Classify: classifyBlacklist,
		Quick: 30, Thorough: 45,
	})
}

// ---- ip blacklist: histories of adds for the same address ---------------------------

// Sub-property "ip-blacklist-history": the same address is black-listed more than once (while the first
// entry is still active, or after it expired without any HLS request in between — a request is lal's only
// sweeper of the table), a second address shares the table.  Reference model: map address -> expiry of the
// LATEST add (real time of the add + duration), plus the maximum over all adds.
//
// Judged: a probe whose response was complete before the latest add's expiry must get no HLS content (the
// readings "the latest add defines the expiry" and "the longest one does" agree on that); a probe sent 2.5 s
// after the maximum expiry must be served.  Anything in between is not judged.
type BlStep struct {
	Op   string `json:"op"`             // add | sleep | probe
	Addr int    `json:"addr,omitempty"` // 0 | 1: which of the two client addresses
	N    int    `json:"n,omitempty"`    // add: duration in seconds; sleep: milliseconds
}

type BlHistCase struct {
	Addrs   []int    `json:"addrs"` // two distinct last octets of 127.0.0.x
	Target  int      `json:"target"`
	Pattern string   `json:"pattern"`
	Steps   []BlStep `json:"steps"`
}

func genBlHist(t *rapid.T) BlHistCase {
	a := rapid.IntRange(2, 120).Draw(t, "addr0")
	c := BlHistCase{Addrs: []int{a, a + rapid.IntRange(1, 120).Draw(t, "addr1")}, Target: rapid.IntRange(0, 3).Draw(t, "target")}
	c.Pattern = rapid.SampledFrom([]string{"extend-active", "extend-active", "extend-active", "readd-after-silent-expiry", "readd-after-silent-expiry", "readd-after-silent-expiry",
		"shorter-after-longer", "readd-same", "other-address-in-between", "expires-and-served-again"}).Draw(t, "pattern")
	long := rapid.SampledFrom([]int{30, 3600}).Draw(t, "long")
	short := 1
	if pbt.Thorough() {
		short = rapid.IntRange(1, 2).Draw(t, "short")
	}
	other := rapid.Bool().Draw(t, "other")
	probeEarly := rapid.Bool().Draw(t, "probeEarly")
	add := func(addr, d int) { c.Steps = append(c.Steps, BlStep{Op: "add", Addr: addr, N: d}) }
	probe := func(addr int) { c.Steps = append(c.Steps, BlStep{Op: "probe", Addr: addr}) }
	sleep := func(ms int) { c.Steps = append(c.Steps, BlStep{Op: "sleep", N: ms}) }
	if other {
		add(1, long)
	}
	switch c.Pattern {
	case "extend-active":
		// short entry, extended while active; probed after the short one would have lapsed
		add(0, short)
		if probeEarly {
			probe(0)
		}
		add(0, long)
		sleep(short*1000 + 1150)
		probe(0)
	case "readd-after-silent-expiry":
		// the short entry lapses with no HLS request (nothing sweeps the table), then the address is listed again
		add(0, short)
		sleep(short*1000 + 1150)
		add(0, long)
		probe(0)
	case "shorter-after-longer":
		add(0, long)
		add(0, short)
		probe(0)
	case "readd-same":
		add(0, long)
		probe(0)
		add(0, long)
		probe(0)
	case "expires-and-served-again":
		// two short entries, the second added while the first is active; 2.5 s after the later expiry the address is served
		add(0, short)
		probe(0)
		add(0, short)
		sleep(short*1000 + 2600)
		probe(0)
	default:
		add(0, long)
		add(1, short)
		probe(0)
		probe(1)
		add(1, long)
		probe(1)
		probe(0)
	}
	if other {
		probe(1)
	}
	return c
}

func runBlHist(c BlHistCase) *pbt.Violation {
	const stream = "c14blh"
	if len(c.Addrs) != 2 || c.Addrs[0] == c.Addrs[1] {
		panic(pbt.HarnessError{Msg: "two distinct addresses needed"})
	}
	total := 0
	for _, st := range c.Steps {
		if st.Op == "sleep" {
			total += st.N
		}
	}
	if total > 8000 {
		panic(pbt.HarnessError{Msg: "history sleeps too long"})
	}
	l3mu.Lock()
	defer l3mu.Unlock()
	x := newL3(inproc.Config{HlsFragmentMs: 1000}, nil)
	defer x.Close()
	feeder := lalclient.NewPublisher(x.Server, "live", stream, 0)
	if feeder.Err != nil {
		return inconclusive("blh-feeder")
	}
	publishHls(feeder, 4, 1)
	dir := filepath.Join(x.Cfg.HlsConfig.OutPath, stream)
	if !waitFile(filepath.Join(dir, "playlist.m3u8")) {
		return inconclusive("blh-playlist-not-written")
	}
	target := "/hls/" + stream
	switch c.Target {
	case 0:
		target += ".m3u8"
	case 1:
		target += "/playlist.m3u8"
	case 2:
		target += "/record.m3u8"
	default:
		ents, _ := os.ReadDir(dir)
		var segs []string
		for _, e := range ents {
			if strings.HasSuffix(e.Name(), ".ts") {
				segs = append(segs, e.Name())
			}
		}
		sort.Strings(segs)
		if len(segs) == 0 {
			return inconclusive("blh-no-segment")
		}
		target += "/" + segs[0]
	}
	ips := []string{fmt.Sprintf("127.0.0.%d", c.Addrs[0]), fmt.Sprintf("127.0.0.%d", c.Addrs[1])}
	for _, ip := range ips {
		pre, err := rawGet(x.HlsAddr, ip, target)
		if err != nil || !hlsContent(pre.Body) {
			return inconclusive("blh-precondition")
		}
	}
	// reference model
	type entry struct {
		latest, max time.Time
		listed      bool
		log         []string
	}
	model := []*entry{{}, {}}
	for i, st := range c.Steps {
		switch st.Op {
		case "sleep":
			time.Sleep(time.Duration(st.N) * time.Millisecond)
		case "add":
			e := model[st.Addr%2]
			var resp base.ApiCtrlAddIpBlacklistResp
			before := time.Now()
			x.Call("CtrlAddIpBlacklist", func() {
				resp = x.SM.CtrlAddIpBlacklist(base.ApiCtrlAddIpBlacklistReq{Ip: ips[st.Addr%2], DurationSec: st.N})
			})
			if resp.ErrorCode != base.ErrorCodeSucc {
				return inconclusive("blh-add-failed")
			}
			// the add took effect somewhere between before and now: the earlier instant gives the earlier (safe) expiry
			e.latest = before.Add(time.Duration(st.N) * time.Second)
			after := time.Now().Add(time.Duration(st.N) * time.Second)
			if after.After(e.max) {
				e.max = after
			}
			e.listed = true
			e.log = append(e.log, fmt.Sprintf("step %d: add %d s at %s", i, st.N, before.Format("15:04:05.000")))
		case "probe":
			e := model[st.Addr%2]
			ip := ips[st.Addr%2]
			sent := time.Now()
			r, err := rawGet(x.HlsAddr, ip, target)
			if err != nil {
				if e.listed && sent.After(e.max.Add(2500*time.Millisecond)) && !isTimeout(err) && !isDialError(err) {
					return pbt.V("blacklist/still-blocked-after-expiry", "history %v: GET %s from %s sent 2.5 s after every entry expired failed: %v", e.log, target, ip, err)
				}
				continue
			}
			got := hlsContent(r.Body)
			switch {
			case e.listed && got && r.At.Before(e.latest):
				return pbt.V("blacklist/blocked-address-served", "address %s, history %v; step %d: GET %s completed at %s, before the expiry of the latest add (%s), with status %d and %d bytes of HLS content [pattern %s]",
					ip, e.log, i, target, r.At.Format("15:04:05.000"), e.latest.Format("15:04:05.000"), r.Status, len(r.Body), c.Pattern)
			case e.listed && !got && sent.After(e.max.Add(2500*time.Millisecond)):
				return pbt.V("blacklist/still-blocked-after-expiry", "address %s, history %v; step %d: GET %s sent at %s, 2.5 s after every entry expired (%s), is answered %d without HLS content", ip, e.log, i, target,
					sent.Format("15:04:05.000"), e.max.Format("15:04:05.000"), r.Status)
			case !e.listed && !got:
				// never listed: only counted (the property does not speak about other addresses)
				pbt.Count("c14_blh_unlisted_address_not_served", 1)
			}
		default:
			panic(pbt.HarnessError{Msg: "bad step " + st.Op})
		}
	}
	return x.PanicViolation()
}

func classifyBlHist(c BlHistCase) (bool, []string) {
	adds := map[int]int{}
	slept := false
	for _, st := range c.Steps {
		if st.Op == "add" {
			adds[st.Addr%2]++
		}
		if st.Op == "sleep" {
			slept = true
		}
	}
	two := "one-address"
	if len(adds) == 2 {
		two = "two-addresses"
	}
	tg := []string{"name.m3u8", "playlist.m3u8", "record.m3u8", "segment.ts"}[c.Target%4]
	return adds[0] > 1 || adds[1] > 1, []string{"pattern:" + c.Pattern, "table:" + two, "target:" + tg, fmt.Sprintf("real-wait:%v", slept)}
}

func TestIpBlacklistHistory(t *testing.T) {
	pbt.Run(t, pbt.Spec[BlHistCase]{
		ID: "C14", Name: "ip-blacklist-history", Gen: genBlHist, Run: runBlHist, Classify: classifyBlHist,
		Quick: 2, Thorough: 30,
	})
}
