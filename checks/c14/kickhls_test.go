// Sub-property "kick-hls": with HLS sub-session mode on (hls.sub_session_hash_key
// non-empty) a playlist request creates an HLS viewer session (listed by the stat
// API as HLSSUB…, the playlist request is redirected to a URL carrying its
// session_id).  A kicked viewer session is disconnected although its player keeps
// polling: from 2.5 s after the kick (lal removes kicked HLS sessions in a sweep
// that runs once per second inside hls.ServerHandler; it cannot be driven from
// outside) requests carrying that session_id get no playlist / segment and the
// stat API no longer lists the session.  A viewer session that was not kicked
// is still served.
//
// Sessions are created through the real handler path (L3): GET playlist -> 302
// with session_id -> playlist / segment requests with that id, each viewer from
// its own loopback address (127.0.0.N) so that the stat entry can be matched.
//
// Not asserted: what happens during the first 2.5 s after the kick; the status of
// a refused request; the bystander is judged only when its own polling never
// paused for more than half the configured session timeout (loaded machine).
package c14

import (
	"fmt"
	"net/url"
	"os"
	"path/filepath"
	"sort"
	"strings"
	"testing"
	"time"

	"github.com/q191201771/lal/pkg/base"
	"github.com/q191201771/lal/pkg/logic"
	"pgregory.net/rapid"

	"verif/drv/pbt"
	"verif/harness/inproc"
	"verif/harness/lalclient"
)

type KickHlsCase struct {
	HashKey   string `json:"hash_key"`
	TimeoutMs int    `json:"timeout_ms"` // hls.sub_session_timeout_ms
	Viewers   int    `json:"viewers"`    // 2..3
	Kick      int    `json:"kick"`       // index of the viewer that is kicked
	PollMs    int    `json:"poll_ms"`
	PathForm  int    `json:"path_form"` // 0 /hls/<s>.m3u8   1 /hls/<s>/playlist.m3u8
	Segments  bool   `json:"segments"`  // the players also fetch a segment with their session_id on every round
	Base      int    `json:"base"`      // viewers use 127.0.0.<Base+i>
}

func genKickHls(t *rapid.T) KickHlsCase {
	c := KickHlsCase{
		HashKey:   rapid.SampledFrom([]string{"q191201771", "k", "KeY-2_mixed"}).Draw(t, "hashKey"),
		TimeoutMs: rapid.SampledFrom([]int{4000, 10000, 30000}).Draw(t, "timeoutMs"),
		Viewers:   rapid.IntRange(2, 3).Draw(t, "viewers"),
		PollMs:    rapid.SampledFrom([]int{200, 300, 400}).Draw(t, "pollMs"),
		PathForm:  rapid.IntRange(0, 1).Draw(t, "pathForm"),
		Segments:  rapid.Bool().Draw(t, "segments"),
		Base:      rapid.IntRange(2, 200).Draw(t, "base"),
	}
	c.Kick = rapid.IntRange(0, c.Viewers-1).Draw(t, "kick")
	return c
}

type hlsViewer struct {
	ip       string
	playlist string // target with session_id
	segment  string
	statID   string
	lastPoll time.Time
	maxGap   time.Duration
}

const kickJudgeAfter = 2500 * time.Millisecond

func runKickHls(c KickHlsCase) *pbt.Violation {
	const stream = "c14kh"
	if c.Viewers < 2 || c.Viewers > 4 || c.Kick < 0 || c.Kick >= c.Viewers || c.HashKey == "" || c.TimeoutMs < 2000 || c.PollMs < 50 {
		panic(pbt.HarnessError{Msg: "bad kick-hls case"})
	}
	l3mu.Lock()
	defer l3mu.Unlock()
	x := newL3(inproc.Config{HlsFragmentMs: 1000}, func(lc *logic.Config) {
		lc.HlsConfig.SubSessionHashKey = c.HashKey
		lc.HlsConfig.SubSessionTimeoutMs = c.TimeoutMs
	})
	defer x.Close()
	feeder := lalclient.NewPublisher(x.Server, "live", stream, 0)
	if feeder.Err != nil {
		return inconclusive("kh-feeder")
	}
	publishHls(feeder, 4, 1)
	dir := filepath.Join(x.Cfg.HlsConfig.OutPath, stream)
	if !waitFile(filepath.Join(dir, "playlist.m3u8")) {
		return inconclusive("kh-playlist-not-written")
	}
	seg := ""
	if ents, err := os.ReadDir(dir); err == nil {
		var segs []string
		for _, e := range ents {
			if strings.HasSuffix(e.Name(), ".ts") {
				segs = append(segs, e.Name())
			}
		}
		sort.Strings(segs)
		if len(segs) > 0 {
			seg = segs[0]
		}
	}
	if seg == "" {
		return inconclusive("kh-no-segment")
	}
	first := "/hls/" + stream + ".m3u8"
	if c.PathForm == 1 {
		first = "/hls/" + stream + "/playlist.m3u8"
	}

	// each viewer: playlist request -> redirect carrying session_id -> playlist with the id
	var viewers []*hlsViewer
	for i := 0; i < c.Viewers; i++ {
		v := &hlsViewer{ip: fmt.Sprintf("127.0.0.%d", c.Base+i)}
		r, err := rawGet(x.HlsAddr, v.ip, first)
		if err != nil {
			return inconclusive("kh-first-request")
		}
		loc := r.Header.Get("Location")
		u, perr := url.Parse(loc)
		if r.Status/100 != 3 || perr != nil || u.Query().Get("session_id") == "" {
			// sub-session mode is on and the stream exists: lal documents the redirect; without it there is no viewer session to kick
			return inconclusive("kh-no-redirect")
		}
		sid := u.Query().Get("session_id")
		v.playlist = loc
		v.segment = "/hls/" + stream + "/" + seg + "?session_id=" + sid
		r2, err := rawGet(x.HlsAddr, v.ip, v.playlist)
		if err != nil || !looksLikePlaylist(r2.Body) {
			return inconclusive("kh-playlist-with-session")
		}
		v.lastPoll = time.Now()
		viewers = append(viewers, v)
	}
	// match the stat entries by remote address
	hlsSubs := func() map[string]string { // session id -> remote ip
		out := map[string]string{}
		var sg *base.StatGroup
		x.Call("StatGroup", func() { sg = x.SM.StatGroup(stream) })
		if sg == nil {
			return out
		}
		for _, s := range sg.StatSubs {
			if s.Protocol == base.SessionProtocolHlsStr {
				ip := s.RemoteAddr
				if i := strings.LastIndexByte(ip, ':'); i >= 0 {
					ip = ip[:i]
				}
				out[s.SessionId] = ip
			}
		}
		return out
	}
	for id, ip := range hlsSubs() {
		for _, v := range viewers {
			if v.ip == ip {
				v.statID = id
			}
		}
	}
	for _, v := range viewers {
		if v.statID == "" {
			return inconclusive("kh-viewer-not-listed")
		}
	}
	// poll returns whether the viewer got HLS content on every request of this round
	poll := func(v *hlsViewer) (served bool, detail string, ok bool) {
		now := time.Now()
		if g := now.Sub(v.lastPoll); g > v.maxGap {
			v.maxGap = g
		}
		v.lastPoll = now
		targets := []string{v.playlist}
		if c.Segments {
			targets = append(targets, v.segment)
		}
		served = false
		for _, tg := range targets {
			r, err := rawGet(x.HlsAddr, v.ip, tg)
			if err != nil {
				if isTimeout(err) || isDialError(err) {
					return false, "", false
				}
				detail += fmt.Sprintf("GET %s: %v; ", tg, err)
				continue
			}
			if hlsContent(r.Body) {
				served = true
				detail += fmt.Sprintf("GET %s: %d with %d bytes of HLS content; ", tg, r.Status, len(r.Body))
			} else {
				detail += fmt.Sprintf("GET %s: %d without content; ", tg, r.Status)
			}
		}
		return served, detail, true
	}
	for _, v := range viewers {
		if s, _, ok := poll(v); !ok || !s {
			return inconclusive("kh-before-kick")
		}
	}

	kicked := viewers[c.Kick]
	var resp base.ApiCtrlKickSessionResp
	x.Call("CtrlKickSession", func() {
		resp = x.SM.CtrlKickSession(base.ApiCtrlKickSessionReq{StreamName: stream, SessionId: kicked.statID})
	})
	if resp.ErrorCode != base.ErrorCodeSucc {
		return pbt.V("kick/attached-session-not-found", "kick of the attached HLS viewer session %s (listed by the stat API) answered %d %s", kicked.statID, resp.ErrorCode, resp.Desp)
	}
	kickedAt := time.Now()

	// the players keep polling; rounds that start kickJudgeAfter after the kick are judged
	judged, servedJudged := 0, 0
	lastDetail := ""
	for judged < 3 {
		time.Sleep(time.Duration(c.PollMs) * time.Millisecond)
		start := time.Now()
		late := start.Sub(kickedAt) >= kickJudgeAfter
		for i, v := range viewers {
			s, detail, ok := poll(v)
			if !ok {
				return inconclusive("kh-poll")
			}
			if i == c.Kick {
				if late {
					judged++
					if s {
						servedJudged++
						lastDetail = fmt.Sprintf("%s after the kick: %s", start.Sub(kickedAt).Round(time.Millisecond), detail)
					}
				}
				continue
			}
			if !s && v.maxGap < time.Duration(c.TimeoutMs/2)*time.Millisecond {
				return pbt.V("kick/bystander-hls-session-refused", "HLS viewer session %s (%s) was not kicked and polled at least every %s (timeout %d ms), but %s after viewer %s was kicked it is refused: %s",
					v.statID, v.ip, v.maxGap.Round(time.Millisecond), c.TimeoutMs, start.Sub(kickedAt).Round(time.Millisecond), kicked.statID, detail)
			}
		}
		if time.Since(kickedAt) > 20*time.Second {
			return inconclusive("kh-too-slow")
		}
	}
	subs := hlsSubs()
	_, stillListed := subs[kicked.statID]
	if servedJudged == judged {
		// served on every judged round: corroborated by the stat API where possible
		return pbt.V("kick/hls-session-still-served", "HLS viewer session %s (%s, hash key %q) was kicked (API answered success) and its player kept polling every %d ms; every request round from %s after the kick on was still served (%s); still listed by the stat API: %v",
			kicked.statID, kicked.ip, c.HashKey, c.PollMs, kickJudgeAfter, lastDetail, stillListed)
	}
	if servedJudged == 0 && stillListed {
		// refused on every judged round but still a listed session: "disconnected" also means it is no session any more
		return pbt.V("kick/hls-session-still-listed", "HLS viewer session %s was kicked; %s later its requests are refused but the stat API still lists it", kicked.statID, time.Since(kickedAt).Round(time.Millisecond))
	}
	for _, v := range viewers {
		if v != kicked {
			if _, ok := subs[v.statID]; !ok && v.maxGap < time.Duration(c.TimeoutMs/2)*time.Millisecond {
				return pbt.V("kick/bystander-hls-session-refused", "HLS viewer session %s (%s) was not kicked and kept polling (largest pause %s, timeout %d ms) but the stat API no longer lists it after viewer %s was kicked", v.statID, v.ip, v.maxGap.Round(time.Millisecond), c.TimeoutMs, kicked.statID)
			}
		}
	}
	return x.PanicViolation()
}

func classifyKickHls(c KickHlsCase) (bool, []string) {
	pf := "name.m3u8"
	if c.PathForm == 1 {
		pf = "playlist.m3u8"
	}
	return true, []string{fmt.Sprintf("viewers:%d", c.Viewers), fmt.Sprintf("timeout-ms:%d", c.TimeoutMs), fmt.Sprintf("poll-ms:%d", c.PollMs), "first-request:" + pf, fmt.Sprintf("segments-polled:%v", c.Segments)}
}

func TestKickHls(t *testing.T) {
	pbt.Run(t, pbt.Spec[KickHlsCase]{
		ID: "C14", Name: "kick-hls", Gen: genKickHls, Run: runKickHls, Classify: classifyKickHls,
		Quick: 2, Thorough: 25,
	})
}
