// Sub-property "rtsp-auth": with RTSP authentication enabled a DESCRIBE is
// answered with the stream description iff it carries valid credentials of the
// configured method, and valid ones are accepted every time.
//
// Reference (RFC 2617, ref/rtspref): Basic = base64(user ":" password); Digest
// (no qop) response = MD5(MD5(user:realm:password) ":" nonce ":" MD5("DESCRIBE:" uri))
// with the realm and nonce of the server's own challenge.
//
// Not asserted: status / error of a refused DESCRIBE, the content of the
// challenge, nonce freshness (a valid header replayed on a new connection is
// expected to be accepted: the property says valid credentials are always
// accepted), scheme names in another letter case, Digest headers whose
// username differs from the one the response was computed with.
package c14

import (
	"encoding/base64"
	"fmt"
	"strings"
	"testing"

	"github.com/q191201771/lal/pkg/rtsp"
	"pgregory.net/rapid"

	"verif/drv/pbt"
	"verif/harness/inproc"
	"verif/harness/lalclient"
	"verif/harness/memconn"
	"verif/ref/rtspref"
)

var creds = []string{"right", "right", "right", "wrong-pass", "wrong-user", "missing", "wrong-scheme", "malformed", "replayed", "ignore-401", "skip-describe",
	"pass-prefix", "pass-prefix", "user-prefix", "response-prefix", "pass-other-case", "pass-one-char"}

// second credentials presented on the SAME connection after the first attempt ("" = none)
var thens = []string{"", "", "right", "wrong-pass", "malformed", "malformed", "wrong-scheme", "missing", "pass-prefix", "unknown-scheme"}

type RtspAuthCase struct {
	Method  int    `json:"method"` // -1 authentication off, 0 Basic, 1 Digest
	User    string `json:"user"`
	Pass    string `json:"pass"`
	Cred    string `json:"cred"`
	Repeat  int    `json:"repeat"`          // right: further fresh connections presenting valid credentials
	Variant int    `json:"variant"`         // malformed shape
	Ws      bool   `json:"ws,omitempty"`    // RTSP over WebSocket (rtsp.WebsocketServer)
	Uri     int    `json:"uri,omitempty"`   // index into rtspAuthURIs (stream name / query of the request URI)
	Order   int    `json:"order,omitempty"` // layout of the Digest header fields
	K       int    `json:"k,omitempty"`     // prefix length / position selector of the near-miss credentials
	Then    string `json:"then,omitempty"`  // a further DESCRIBE on the same connection with these credentials
	ThenVar int    `json:"then_var,omitempty"`
}

// stream names and queries of the request URI (the Digest uri field and HA2 follow the request URI)
var rtspAuthURIs = []struct{ stream, query string }{
	{"c14rtsp", ""},
	{"c14rtsp", "?a=b,c"},
	{"C14-Rt_sp.2", ""},
	{"c14rtsp", "?token=x%3Dy&u=v,w"},
	{"c14rtsp", "?k=%22q%22&sp=a%20b"},
	{"rt,sp=1", ""},
}

func (c RtspAuthCase) uri() (stream, uri string) {
	u := rtspAuthURIs[((c.Uri%len(rtspAuthURIs))+len(rtspAuthURIs))%len(rtspAuthURIs)]
	return u.stream, "rtsp://127.0.0.1:5544/live/" + u.stream + u.query
}

func genRtspAuth(t *rapid.T) RtspAuthCase {
	c := RtspAuthCase{}
	c.Method = rapid.SampledFrom([]int{-1, 0, 0, 0, 1, 1, 1}).Draw(t, "method")
	switch rapid.IntRange(0, 3).Draw(t, "userClass") {
	case 0:
		c.User = rapid.StringMatching(`[A-Za-z0-9_.@-]{1,10}`).Draw(t, "user")
	case 1:
		// separators of the Digest header syntax, spaces, a quote (sent as \" inside the quoted-string), non-ASCII
		c.User = rapid.StringMatching(`[a-z0-9 ,="üя]{1,10}`).Draw(t, "user")
		c.User = strings.ReplaceAll(c.User, `="`, `= "`) // never spells the start of another header field
	default:
		c.User = rapid.SampledFrom([]string{"a,b", "a=b", "a b", `a"b`, "üser", "u, realm", "ad min=1,2", `"`, ","}).Draw(t, "user")
	}
	switch rapid.IntRange(0, 6).Draw(t, "passClass") {
	case 0:
		c.Pass = rapid.StringMatching(`[A-Za-z0-9]{1,12}`).Draw(t, "pass")
	case 1:
		c.Pass = rapid.StringMatching(`[A-Za-z0-9]{0,5}:[A-Za-z0-9:]{0,5}`).Draw(t, "pass")
	case 2:
		c.Pass = ""
	case 3:
		c.Pass = rapid.SampledFrom([]string{"пароль", "p,a=s \"s", "ü:ü", " lead", "trail "}).Draw(t, "pass")
	default:
		c.Pass = rapid.StringMatching(`[ -~]{1,12}`).Draw(t, "pass")
	}
	c.Cred = rapid.SampledFrom(creds).Draw(t, "cred")
	c.Repeat = rapid.IntRange(0, 2).Draw(t, "repeat")
	c.Variant = rapid.IntRange(0, 7).Draw(t, "variant")
	c.Ws = rapid.IntRange(0, 3).Draw(t, "ws") == 0
	c.Uri = rapid.IntRange(0, len(rtspAuthURIs)-1).Draw(t, "uri")
	c.Order = rapid.IntRange(0, 2).Draw(t, "order")
	c.K = rapid.SampledFrom([]int{0, 0, 0, 1, 1, 2, 3, 5, 8, 13, 21, 30}).Draw(t, "k")
	c.Then = rapid.SampledFrom(thens).Draw(t, "then")
	c.ThenVar = rapid.IntRange(0, 7).Draw(t, "thenVar")
	return c
}

type describeResult struct {
	sdp       bool
	status    int
	challenge string
	err       error
}

func (d describeResult) String() string {
	if d.err != nil {
		return fmt.Sprintf("connection error %v", d.err)
	}
	return fmt.Sprintf("status %d, sdp=%v", d.status, d.sdp)
}

func describe(rc *rtspref.Client, uri, authorization string) describeResult {
	rc.Authorization = authorization
	r, err := rc.Do("DESCRIBE", uri, map[string]string{"Accept": "application/sdp"}, nil)
	if err != nil {
		return describeResult{err: err}
	}
	return describeResult{sdp: r.Status == 200 && strings.Contains(string(r.Body), "m="), status: r.Status, challenge: r.Headers["www-authenticate"]}
}

func md5x(s string) string { return md5hex(s) }

// digestHeader renders RFC 2617 Digest credentials (no qop); quotes and backslashes inside quoted-strings are
// escaped, the field layout varies.
func digestHeader(user, pass, realm, nonce, method, uri string, order int, respLen ...int) string {
	resp := md5x(md5x(user+":"+realm+":"+pass) + ":" + nonce + ":" + md5x(method+":"+uri))
	if len(respLen) == 1 && respLen[0] >= 0 && respLen[0] < len(resp) {
		resp = resp[:respLen[0]] // a proper prefix of the right response
	}
	q := func(s string) string {
		return `"` + strings.ReplaceAll(strings.ReplaceAll(s, `\`, `\\`), `"`, `\"`) + `"`
	}
	f := []string{"username=" + q(user), "realm=" + q(realm), "nonce=" + q(nonce), "uri=" + q(uri), "response=" + q(resp)}
	switch order % 3 {
	case 1:
		return "Digest " + strings.Join([]string{f[4], f[3], f[2], f[1], f[0]}, ",")
	case 2:
		return "Digest " + strings.Join([]string{f[1], f[2], f[3], f[4], "algorithm=MD5", f[0]}, ", ")
	}
	return "Digest " + strings.Join(f, ", ")
}

// header builds the Authorization value of the case for the given challenge.
func (c RtspAuthCase) header(kind string, challenge string) string {
	_, realm, nonce := rtspref.ParseChallenge(challenge)
	if realm == "" {
		realm = "verif"
	}
	if nonce == "" {
		nonce = "c14c14c14c14c14c14c14c14c14c14c1"
	}
	_, uri := c.uri()
	build := func(method int, user, pass string) string {
		if method == 1 {
			return digestHeader(user, pass, realm, nonce, "DESCRIBE", uri, c.Order)
		}
		return rtspref.BasicAuth(user, pass)
	}
	m := c.Method
	if m < 0 {
		m = c.Variant % 2
	}
	// prefixLen picks a proper prefix length of an n-character string: n-1 (K=0), 1 (K=1), else K mod n (0 = empty)
	prefixLen := func(n int) int {
		switch {
		case c.K == 0:
			return n - 1
		case c.K == 1 && n > 1:
			return 1
		}
		return c.K % n
	}
	switch kind {
	case "pass-prefix":
		r := []rune(c.Pass)
		if len(r) == 0 {
			return build(m, c.User, c.Pass+"x")
		}
		return build(m, c.User, string(r[:prefixLen(len(r))]))
	case "user-prefix":
		r := []rune(c.User)
		return build(m, string(r[:prefixLen(len(r))]), c.Pass)
	case "response-prefix":
		if m == 1 {
			return digestHeader(c.User, c.Pass, realm, nonce, "DESCRIBE", uri, c.Order, prefixLen(32))
		}
		// Basic: the base64 text cut short by one to three characters
		b := rtspref.BasicAuth(c.User, c.Pass)
		return b[:len(b)-1-c.K%3]
	case "pass-other-case":
		sw := swapCase(c.Pass)
		if sw == c.Pass {
			return build(m, c.User, c.Pass+"x")
		}
		return build(m, c.User, sw)
	case "pass-one-char":
		r := []rune(c.Pass)
		if len(r) == 0 {
			return build(m, c.User, "x")
		}
		i := c.K % len(r)
		if r[i] == 'x' {
			r[i] = 'y'
		} else {
			r[i] = 'x'
		}
		return build(m, c.User, string(r))
	case "unknown-scheme":
		return []string{"Bearer zzz", "Negotiate abc", "basic " + base64.StdEncoding.EncodeToString([]byte(c.User+"#:"+c.Pass)), "Token " + c.Pass}[c.ThenVar%4]
	case "right", "replayed":
		return build(m, c.User, c.Pass)
	case "wrong-pass":
		return build(m, c.User, c.Pass+"x")
	case "wrong-user":
		return build(m, c.User+"x", c.Pass)
	case "wrong-scheme":
		return build(1-m, c.User, c.Pass)
	case "malformed":
		b64 := base64.StdEncoding.EncodeToString([]byte(c.User + ":" + c.Pass))
		switch c.Variant {
		case 0:
			return "Basic !!!" + b64
		case 1:
			return "Basic " + base64.StdEncoding.EncodeToString([]byte(strings.ReplaceAll(c.User+c.Pass, ":", "")))
		case 2:
			return "Digest "
		case 3:
			return fmt.Sprintf(`Digest username="%s", realm="%s", nonce="%s", uri="%s"`, "u", realm, nonce, uri)
		case 4:
			return "Basic" + b64
		case 5:
			return b64
		case 6:
			return "Bearer " + b64
		default:
			return fmt.Sprintf(`Digest username="%s", realm="%s", nonce="%s", uri="%s", response=""`, "u", realm, nonce, uri)
		}
	}
	panic(pbt.HarnessError{Msg: "bad cred " + kind})
}

func swapCase(s string) string {
	r := []rune(s)
	for i, ch := range r {
		switch {
		case ch >= 'a' && ch <= 'z':
			r[i] = ch - 32
		case ch >= 'A' && ch <= 'Z':
			r[i] = ch + 32
		}
	}
	return string(r)
}

func (c RtspAuthCase) methodName() string {
	switch c.Method {
	case 0:
		return "basic"
	case 1:
		return "digest"
	}
	return "off"
}

func runRtspAuth(c RtspAuthCase) *pbt.Violation {
	s := inproc.New(inproc.Config{RtspAuth: rtsp.ServerAuthConfig{AuthEnable: c.Method >= 0, AuthMethod: maxInt(c.Method, 0), UserName: c.User, PassWord: c.Pass}})
	defer s.Close()
	defer closeWsConns(s)
	stream, uri := c.uri()
	feeder := lalclient.NewPublisher(s, "live", stream, 0)
	if feeder.Err != nil {
		return inconclusive("rtsp-auth-feeder")
	}
	sendItems(feeder, headerItems())
	sendItems(feeder, gopItems(0, 1))
	feeder.WaitIdle()
	gop := uint32(1)
	push := func() {
		gop++
		sendItems(feeder, gopItems(gop*1000, gop))
		gop++
		sendItems(feeder, gopItems(gop*1000, gop))
		feeder.WaitIdle()
	}

	open := func() (*memconn.Conn, *rtspref.Client) { return rtspClient(s, c.Ws) }
	ctx := fmt.Sprintf("method=%s user=%q password=%q uri=%s ws=%v", c.methodName(), c.User, c.Pass, uri, c.Ws)
	validRefused := func(kind string, d describeResult, hdr string) *pbt.Violation {
		sig := "rtsp-auth/valid-" + c.methodName() + "-refused"
		if c.Method == 0 && strings.Contains(c.Pass, ":") {
			sig += "/colon-in-password"
		}
		return pbt.V(sig, "DESCRIBE with valid %s credentials (%s, Authorization: %s) did not get the stream description: %s [%s]", c.methodName(), kind, hdr, d, ctx)
	}
	// unauthorised: a client that was not given the stream description goes on to SETUP / PLAY
	unauthorised := func(conn *memconn.Conn, rc *rtspref.Client, how string) (*pbt.Violation, bool) {
		n, trace := playAnyway(conn, rc, uri, push)
		if n < 0 {
			return inconclusive("rtsp-auth-play-anyway"), true
		}
		if n > 0 {
			return pbt.V("rtsp-auth/media-without-credentials", "a client that %s went on to SETUP / PLAY and received %d RTP frames (%s) [%s]", how, n, trace, ctx), true
		}
		if l, what := listed(s, stream, conn.LocalAddr().String()); l {
			return pbt.V("rtsp-auth/unauthorised-session-listed", "a client that %s went on to SETUP / PLAY (%s) and is listed by the stat API as %s [%s]", how, trace, what, ctx), true
		}
		return nil, false
	}

	// second: a further DESCRIBE on the same connection, judged by the credentials it carries itself
	second := func(rc *rtspref.Client, challenge string, firstValid bool, d1 describeResult, hdr1 string) (*pbt.Violation, bool) {
		if d1.err != nil {
			return nil, false // lal closed the connection after the first attempt: no retry possible on it
		}
		hdr2 := ""
		if c.Then != "missing" {
			saved := c.Variant
			c.Variant = c.ThenVar
			hdr2 = c.header(c.Then, challenge)
			c.Variant = saved
		}
		d2 := describe(rc, uri, hdr2)
		if isTimeout(d2.err) {
			return inconclusive("rtsp-auth-describe-2"), true
		}
		valid2 := c.Then == "right"
		switch {
		case valid2 && !d2.sdp:
			return pbt.V("rtsp-auth/valid-"+c.methodName()+"-refused-on-retry", "after a DESCRIBE with %s credentials (%s -> %s) a DESCRIBE with valid credentials (%s) on the same connection did not get the stream description: %s [%s]", c.Cred, hdr1, d1, hdr2, d2, ctx), true
		case !valid2 && d2.sdp && firstValid:
			return pbt.V("rtsp-auth/stale-credentials-accepted", "after a DESCRIBE with valid credentials (%s) a further DESCRIBE on the same connection carrying %s credentials (Authorization: %q) got the stream description [%s]", hdr1, c.Then, hdr2, ctx), true
		case !valid2 && d2.sdp:
			return pbt.V("rtsp-auth/invalid-credentials-accepted", "DESCRIBE with %s credentials (Authorization: %q), second attempt on the connection, got the stream description [%s]", c.Then, hdr2, ctx), true
		}
		return nil, false
	}

	// one connection: anonymous DESCRIBE, then DESCRIBE with the case's Authorization header
	attempt := func(kind string) (hdr string, v *pbt.Violation, stop bool) {
		conn, rc := open()
		if kind == "skip-describe" {
			if c.Method < 0 {
				return "", nil, false // without authentication nothing is promised about a client that skips DESCRIBE
			}
			v, stop := unauthorised(conn, rc, "never sent DESCRIBE")
			return "", v, stop
		}
		if _, err := rc.Do("OPTIONS", uri, nil, nil); err != nil {
			return "", inconclusive("rtsp-auth-options"), true
		}
		d0 := describe(rc, uri, "")
		if isTimeout(d0.err) {
			return "", inconclusive("rtsp-auth-describe"), true
		}
		if c.Method < 0 {
			if !d0.sdp {
				return "", pbt.V("rtsp-auth/auth-off-refused", "authentication is off but an anonymous DESCRIBE did not get the stream description: %s", d0), true
			}
			if kind == "missing" || kind == "ignore-401" {
				return "", nil, false
			}
			// credentials nobody asked for do not hurt
			_, rc = open()
			hdr = c.header(kind, "")
			d1 := describe(rc, uri, hdr)
			if isTimeout(d1.err) {
				return "", inconclusive("rtsp-auth-describe"), true
			}
			if !d1.sdp {
				return "", pbt.V("rtsp-auth/auth-off-refused", "authentication is off but a DESCRIBE carrying %q did not get the stream description: %s", hdr, d1), true
			}
			return hdr, nil, false
		}
		if d0.sdp {
			return "", pbt.V("rtsp-auth/sdp-without-credentials", "a DESCRIBE without Authorization header got the stream description [%s]", ctx), true
		}
		if kind == "missing" {
			return "", nil, false
		}
		if kind == "ignore-401" {
			v, stop := unauthorised(conn, rc, fmt.Sprintf("sent DESCRIBE without credentials (%s)", d0))
			return "", v, stop
		}
		if d0.err != nil {
			// no challenge, connection gone: present the credentials on a new connection
			conn, rc = open()
		}
		hdr = c.header(kind, d0.challenge)
		d1 := describe(rc, uri, hdr)
		if isTimeout(d1.err) {
			return "", inconclusive("rtsp-auth-describe"), true
		}
		valid := kind == "right" || kind == "replayed"
		switch {
		case valid && !d1.sdp:
			return hdr, validRefused(kind, d1, hdr), true
		case !valid && d1.sdp:
			return hdr, pbt.V("rtsp-auth/invalid-credentials-accepted", "DESCRIBE with %s credentials (Authorization: %s) got the stream description [%s]", kind, hdr, ctx), true
		}
		if c.Then != "" && kind == c.Cred {
			if v, stop := second(rc, d0.challenge, valid, d1, hdr); v != nil || stop {
				return hdr, v, true
			}
			return hdr, nil, false
		}
		if !valid && c.Variant%2 == 0 {
			// refused credentials: the client tries to play all the same (same connection if it is still there)
			if d1.err != nil {
				conn, rc = open()
			}
			if v, stop := unauthorised(conn, rc, fmt.Sprintf("was refused with %s credentials (%s)", kind, d1)); v != nil || stop {
				return hdr, v, true
			}
		}
		return hdr, nil, false
	}

	hdr, v, stop := attempt(c.Cred)
	if v != nil || stop {
		return v
	}
	if c.Method >= 0 && c.Cred == "replayed" {
		_, rc := open()
		d := describe(rc, uri, hdr)
		if isTimeout(d.err) {
			return inconclusive("rtsp-auth-describe")
		}
		if !d.sdp {
			return pbt.V("rtsp-auth/replayed-valid-"+c.methodName()+"-refused", "a valid Authorization header (%s) presented again on a new connection did not get the stream description: %s [%s]", hdr, d, ctx)
		}
	}
	if c.Cred == "right" {
		for i := 0; i < c.Repeat; i++ {
			if _, v, stop := attempt("right"); v != nil || stop {
				return v
			}
		}
	}
	return s.PanicViolation()
}

func maxInt(a, b int) int {
	if a > b {
		return a
	}
	return b
}

func classifyRtspAuth(c RtspAuthCase) (bool, []string) {
	pc := "plain"
	switch {
	case c.Pass == "":
		pc = "empty"
	case strings.Contains(c.Pass, ":"):
		pc = "colon"
	case strings.ContainsAny(c.Pass, " \"',=\\"):
		pc = "special"
	}
	uc := "plain"
	switch {
	case strings.ContainsAny(c.User, `"`):
		uc = "quote"
	case strings.ContainsAny(c.User, ",= "):
		uc = "separator"
	case c.User != strings.ToValidUTF8(c.User, "") || len(c.User) != len([]rune(c.User)):
		uc = "non-ascii"
	}
	_, uri := c.uri()
	uq := "plain"
	if strings.ContainsAny(uri[7:], ",=%") {
		uq = "comma-equals-escape"
	}
	tr := "tcp"
	if c.Ws {
		tr = "websocket"
	}
	labels := []string{"method:" + c.methodName(), "cred:" + c.Cred, "method+cred:" + c.methodName() + "/" + c.Cred, "password:" + pc, fmt.Sprintf("repeat:%d", c.Repeat),
		"user:" + uc, "uri:" + uq, "transport:" + tr}
	if c.Method == 1 {
		labels = append(labels, fmt.Sprintf("digest-layout:%d", c.Order%3))
	}
	if c.Then != "" && c.Method >= 0 {
		first := "invalid"
		if c.Cred == "right" || c.Cred == "replayed" {
			first = "valid"
		}
		labels = append(labels, "same-connection:"+first+"-then-"+c.Then)
	}
	switch c.Cred {
	case "pass-prefix", "user-prefix", "response-prefix":
		kc := "n-1"
		if c.K == 1 {
			kc = "1"
		} else if c.K > 1 {
			kc = "k-mod-n"
		}
		labels = append(labels, "prefix-length:"+kc)
	}
	if c.Cred == "malformed" {
		labels = append(labels, fmt.Sprintf("malformed:%d", c.Variant))
	}
	return c.Method >= 0, labels
}

func TestRtspAuth(t *testing.T) {
	pbt.Run(t, pbt.Spec[RtspAuthCase]{
		ID: "C14", Name: "rtsp-auth", Gen: genRtspAuth, Run: runRtspAuth, Classify: classifyRtspAuth,
		Quick: 400, Thorough: 2500,
	})
}
