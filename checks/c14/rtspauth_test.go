// Sub-property "rtsp-auth": with RTSP authentication enabled a DESCRIBE is
// answered with the stream description iff it carries valid credentials of the
// configured method, and valid ones are accepted every time.
//
// Reference (RFC 2617, ref/rtspref): Basic = base64(user ":" password); Digest
// (no qop) response = MD5(MD5(user:realm:password) ":" nonce ":" MD5("DESCRIBE:" uri))
// with the realm and nonce of the server's own challenge.
//
// Not asserted: status / error of a refused DESCRIBE, the content of the
// challenge, nonce freshness (a valid header replayed on a new connection is
// expected to be accepted: the property says valid credentials are always
// accepted), scheme names in another letter case, Digest headers whose
// username differs from the one the response was computed with.
package c14

import (
	"encoding/base64"
	"fmt"
	"strings"
	"testing"
	"time"

	"github.com/q191201771/lal/pkg/rtsp"
	"pgregory.net/rapid"

	"verif/drv/pbt"
	"verif/harness/inproc"
	"verif/harness/lalclient"
	"verif/ref/rtspref"
)

var creds = []string{"right", "right", "wrong-pass", "wrong-user", "missing", "wrong-scheme", "malformed", "replayed"}

type RtspAuthCase struct {
	Method  int    `json:"method"` // -1 authentication off, 0 Basic, 1 Digest
	User    string `json:"user"`
	Pass    string `json:"pass"`
	Cred    string `json:"cred"`
	Repeat  int    `json:"repeat"`  // right: further fresh connections presenting valid credentials
	Variant int    `json:"variant"` // malformed shape
}

func genRtspAuth(t *rapid.T) RtspAuthCase {
	c := RtspAuthCase{}
	c.Method = rapid.SampledFrom([]int{-1, 0, 0, 0, 1, 1, 1}).Draw(t, "method")
	c.User = rapid.StringMatching(`[A-Za-z0-9_.@-]{1,10}`).Draw(t, "user")
	switch rapid.IntRange(0, 5).Draw(t, "passClass") {
	case 0:
		c.Pass = rapid.StringMatching(`[A-Za-z0-9]{1,12}`).Draw(t, "pass")
	case 1:
		c.Pass = rapid.StringMatching(`[A-Za-z0-9]{0,5}:[A-Za-z0-9:]{0,5}`).Draw(t, "pass")
	case 2:
		c.Pass = ""
	default:
		c.Pass = rapid.StringMatching(`[ -~]{1,12}`).Draw(t, "pass")
	}
	c.Cred = rapid.SampledFrom(creds).Draw(t, "cred")
	c.Repeat = rapid.IntRange(0, 2).Draw(t, "repeat")
	c.Variant = rapid.IntRange(0, 7).Draw(t, "variant")
	return c
}

const rtspAuthURI = "rtsp://127.0.0.1:5544/live/c14rtsp"

type describeResult struct {
	sdp       bool
	status    int
	challenge string
	err       error
}

func (d describeResult) String() string {
	if d.err != nil {
		return fmt.Sprintf("connection error %v", d.err)
	}
	return fmt.Sprintf("status %d, sdp=%v", d.status, d.sdp)
}

func describe(rc *rtspref.Client, authorization string) describeResult {
	rc.Authorization = authorization
	r, err := rc.Do("DESCRIBE", rtspAuthURI, map[string]string{"Accept": "application/sdp"}, nil)
	if err != nil {
		return describeResult{err: err}
	}
	return describeResult{sdp: r.Status == 200 && strings.Contains(string(r.Body), "m="), status: r.Status, challenge: r.Headers["www-authenticate"]}
}

// header builds the Authorization value of the case for the given challenge.
func (c RtspAuthCase) header(kind string, challenge string) string {
	_, realm, nonce := rtspref.ParseChallenge(challenge)
	if realm == "" {
		realm = "verif"
	}
	if nonce == "" {
		nonce = "c14c14c14c14c14c14c14c14c14c14c1"
	}
	build := func(method int, user, pass string) string {
		if method == 1 {
			return rtspref.DigestAuth(user, pass, realm, nonce, "DESCRIBE", rtspAuthURI)
		}
		return rtspref.BasicAuth(user, pass)
	}
	m := c.Method
	if m < 0 {
		m = c.Variant % 2
	}
	switch kind {
	case "right", "replayed":
		return build(m, c.User, c.Pass)
	case "wrong-pass":
		return build(m, c.User, c.Pass+"x")
	case "wrong-user":
		return build(m, c.User+"x", c.Pass)
	case "wrong-scheme":
		return build(1-m, c.User, c.Pass)
	case "malformed":
		b64 := base64.StdEncoding.EncodeToString([]byte(c.User + ":" + c.Pass))
		switch c.Variant {
		case 0:
			return "Basic !!!" + b64
		case 1:
			return "Basic " + base64.StdEncoding.EncodeToString([]byte(strings.ReplaceAll(c.User+c.Pass, ":", "")))
		case 2:
			return "Digest "
		case 3:
			return fmt.Sprintf(`Digest username="%s", realm="%s", nonce="%s", uri="%s"`, c.User, realm, nonce, rtspAuthURI)
		case 4:
			return "Basic" + b64
		case 5:
			return b64
		case 6:
			return "Bearer " + b64
		default:
			return fmt.Sprintf(`Digest username="%s", realm="%s", nonce="%s", uri="%s", response=""`, c.User, realm, nonce, rtspAuthURI)
		}
	}
	panic(pbt.HarnessError{Msg: "bad cred " + kind})
}

func (c RtspAuthCase) methodName() string {
	switch c.Method {
	case 0:
		return "basic"
	case 1:
		return "digest"
	}
	return "off"
}

func runRtspAuth(c RtspAuthCase) *pbt.Violation {
	s := inproc.New(inproc.Config{RtspAuth: rtsp.ServerAuthConfig{AuthEnable: c.Method >= 0, AuthMethod: maxInt(c.Method, 0), UserName: c.User, PassWord: c.Pass}})
	defer s.Close()
	feeder := lalclient.NewPublisher(s, "live", "c14rtsp", 0)
	if feeder.Err != nil {
		return inconclusive("rtsp-auth-feeder")
	}
	sendItems(feeder, headerItems())
	sendItems(feeder, gopItems(0, 1))
	feeder.WaitIdle()

	open := func() *rtspref.Client {
		conn := s.RtspConn()
		_ = conn.SetReadDeadline(time.Now().Add(lalclient.DeliverTimeout))
		return rtspref.NewClient(conn)
	}
	ctx := fmt.Sprintf("method=%s user=%q password=%q", c.methodName(), c.User, c.Pass)
	validRefused := func(kind string, d describeResult, hdr string) *pbt.Violation {
		sig := "rtsp-auth/valid-" + c.methodName() + "-refused"
		if c.Method == 0 && strings.Contains(c.Pass, ":") {
			sig += "/colon-in-password"
		}
		return pbt.V(sig, "DESCRIBE with valid %s credentials (%s, Authorization: %s) did not get the stream description: %s [%s]", c.methodName(), kind, hdr, d, ctx)
	}

	// one connection: anonymous DESCRIBE, then DESCRIBE with the case's Authorization header
	attempt := func(kind string) (hdr string, v *pbt.Violation, stop bool) {
		rc := open()
		if _, err := rc.Do("OPTIONS", rtspAuthURI, nil, nil); err != nil {
			return "", inconclusive("rtsp-auth-options"), true
		}
		d0 := describe(rc, "")
		if isTimeout(d0.err) {
			return "", inconclusive("rtsp-auth-describe"), true
		}
		if c.Method < 0 {
			if !d0.sdp {
				return "", pbt.V("rtsp-auth/auth-off-refused", "authentication is off but an anonymous DESCRIBE did not get the stream description: %s", d0), true
			}
			if kind == "missing" {
				return "", nil, false
			}
			// credentials nobody asked for do not hurt
			rc = open()
			hdr = c.header(kind, "")
			d1 := describe(rc, hdr)
			if isTimeout(d1.err) {
				return "", inconclusive("rtsp-auth-describe"), true
			}
			if !d1.sdp {
				return "", pbt.V("rtsp-auth/auth-off-refused", "authentication is off but a DESCRIBE carrying %q did not get the stream description: %s", hdr, d1), true
			}
			return hdr, nil, false
		}
		if d0.sdp {
			return "", pbt.V("rtsp-auth/sdp-without-credentials", "a DESCRIBE without Authorization header got the stream description [%s]", ctx), true
		}
		if kind == "missing" {
			return "", nil, false
		}
		if d0.err != nil {
			// no challenge, connection gone: present the credentials on a new connection
			rc = open()
		}
		hdr = c.header(kind, d0.challenge)
		d1 := describe(rc, hdr)
		if isTimeout(d1.err) {
			return "", inconclusive("rtsp-auth-describe"), true
		}
		valid := kind == "right" || kind == "replayed"
		switch {
		case valid && !d1.sdp:
			return hdr, validRefused(kind, d1, hdr), true
		case !valid && d1.sdp:
			return hdr, pbt.V("rtsp-auth/invalid-credentials-accepted", "DESCRIBE with %s credentials (Authorization: %s) got the stream description [%s]", kind, hdr, ctx), true
		}
		return hdr, nil, false
	}

	hdr, v, stop := attempt(c.Cred)
	if v != nil || stop {
		return v
	}
	if c.Method >= 0 && c.Cred == "replayed" {
		rc := open()
		d := describe(rc, hdr)
		if isTimeout(d.err) {
			return inconclusive("rtsp-auth-describe")
		}
		if !d.sdp {
			return pbt.V("rtsp-auth/replayed-valid-"+c.methodName()+"-refused", "a valid Authorization header (%s) presented again on a new connection did not get the stream description: %s [%s]", hdr, d, ctx)
		}
	}
	if c.Cred == "right" {
		for i := 0; i < c.Repeat; i++ {
			if _, v, stop := attempt("right"); v != nil || stop {
				return v
			}
		}
	}
	return s.PanicViolation()
}

func maxInt(a, b int) int {
	if a > b {
		return a
	}
	return b
}

func classifyRtspAuth(c RtspAuthCase) (bool, []string) {
	pc := "plain"
	switch {
	case c.Pass == "":
		pc = "empty"
	case strings.Contains(c.Pass, ":"):
		pc = "colon"
	case strings.ContainsAny(c.Pass, " \"',=\\"):
		pc = "special"
	}
	labels := []string{"method:" + c.methodName(), "cred:" + c.Cred, "method+cred:" + c.methodName() + "/" + c.Cred, "password:" + pc, fmt.Sprintf("repeat:%d", c.Repeat)}
	if c.Cred == "malformed" {
		labels = append(labels, fmt.Sprintf("malformed:%d", c.Variant))
	}
	return c.Method >= 0, labels
}

func TestRtspAuth(t *testing.T) {
	pbt.Run(t, pbt.Spec[RtspAuthCase]{
		ID: "C14", Name: "rtsp-auth", Gen: genRtspAuth, Run: runRtspAuth, Classify: classifyRtspAuth,
		Quick: 500, Thorough: 2500,
	})
}
