// Sub-properties "confine-read" (the HLS file server never returns a file
// outside its configured output root, for every request target net/http can
// deliver to the handler) and "confine-write" (no stream name chosen by a
// publishing client makes lal create or write files outside its configured HLS
// and recording directories).
//
// Both run inside a per-case jail: the configured roots sit 14 directory
// levels below the case's scratch directory, generated names climb at most 6
// levels (lal joins the name twice for HLS segment files: 12 levels), so an
// escape lands inside the jail and never on the real system.
//
// Observation: every path lal's HLS package hands to its file-system layer
// (harness/hlsfs installed with hls.VerifSetFileSystemLayer, recording root =
// the jail), the bytes of HTTP responses (sentinel files are planted outside
// the root), and a walk of the jail after the publisher left (FLV / TS
// recordings do not go through the layer).
//
// Not asserted: which status a refused request gets; whether a stream with an
// unusable name gets any file output at all; removals (the property speaks of
// creating and writing).
package c14

import (
	"bytes"
	"fmt"
	"os"
	"path/filepath"
	"sort"
	"strings"
	"testing"
	"time"

	"github.com/q191201771/lal/pkg/base"
	"github.com/q191201771/lal/pkg/logic"
	"pgregory.net/rapid"

	"verif/drv/pbt"
	"verif/gen"
	"verif/harness/hlsfs"
	"verif/harness/inproc"
	"verif/harness/lalclient"
	"verif/ref/rtpref"
	"verif/ref/rtspref"
)

const jailDepth = 14

// deepRoots moves the three output roots jailDepth levels below the scratch directory.
func deepRoots(c *logic.Config) (jail, deep string) {
	jail = filepath.Dir(filepath.Clean(c.HlsConfig.OutPath))
	deep = jail
	for i := 1; i <= jailDepth; i++ {
		deep = filepath.Join(deep, fmt.Sprintf("d%d", i))
	}
	c.HlsConfig.OutPath = filepath.Join(deep, "hls") + "/"
	c.RecordConfig.FlvOutPath = filepath.Join(deep, "flv") + "/"
	c.RecordConfig.MpegtsOutPath = filepath.Join(deep, "ts") + "/"
	return
}

const sentinel = "C14-SENTINEL-OUTSIDE-ROOT"

// ---- confine-read ------------------------------------------------------------------

type ReadCase struct {
	Targets []string `json:"targets"` // raw request targets; "{seg}" = name of a real segment of stream cam
}

var readSegs = []string{"cam", "cam", "..", ".", "%2e%2e", "%2E%2E", ".%2e", "%2e.", "%2e", "..%2f..", "%2e%2e%2f%2e%2e", "%2f", "..%5c..", "secret", "hls", "...", "",
	"cam%2f..", "%2e%2e%2fsecret", "..%2fsecret", "%2e%2e%2f%2e%2e%2f%2e%2e"}

var readFiles = []string{"playlist.m3u8", "playlist.m3u8", "record.m3u8", "cam.m3u8", "..m3u8", "...m3u8", "....m3u8", "%2e%2e.m3u8", ".%2e.m3u8", "%2e%2e%2em3u8",
	"..%2fsecret.m3u8", "%2e%2e%2fsecret.m3u8", "secret.m3u8", "..%2fplaylist.m3u8", "%2e%2e%2fplaylist.m3u8", "..%2f..%2fplaylist.m3u8",
	"cam-1-2.ts", "..-1-2.ts", "%2e%2e-1-2.ts", "%2e%2e%2d1%2d2.ts", "...-1-2.ts", ".-1-2.ts", "..%2f..-1-2.ts", "secret-1-2.ts", "..%2fsecret%2fsecret-1-2.ts",
	"%2e%2e%2fsecret%2fsecret-1-2.ts", "-.ts", "--.ts", "---.ts", "----.ts", "..--.ts", "..---.ts", "..-..-...ts", "a-b-c-d.ts", ".ts", ".m3u8", "..-.ts", "..", "%2e%2e",
	"playlist.m3u8%2f..", "{seg}", "..%2fcam%2f{seg}", "{seg}%2f..%2f..%2f..-1-2.ts"}

func genRead(t *rapid.T) ReadCase {
	var c ReadCase
	n := rapid.IntRange(3, 10).Draw(t, "ntargets")
	for i := 0; i < n; i++ {
		prefix := rapid.SampledFrom([]string{"/hls", "/hls", "/hls", "/hls", "/hls", "/hls/../hls", "//hls", "/hls/.", "/HLS", "/hls%2f..%2fhls", ""}).Draw(t, "prefix")
		tg := prefix
		ns := rapid.IntRange(0, 3).Draw(t, "nsegs")
		for j := 0; j < ns; j++ {
			tg += "/" + rapid.SampledFrom(readSegs).Draw(t, "seg")
		}
		tg += "/" + rapid.SampledFrom(readFiles).Draw(t, "file")
		switch rapid.IntRange(0, 5).Draw(t, "query") {
		case 0:
			tg += "?x=1"
		case 1:
			tg += "?session_id=..%2f..&lal_secret="
		}
		c.Targets = append(c.Targets, tg)
	}
	return c
}

func plant(path, what string) {
	_ = os.MkdirAll(filepath.Dir(path), 0o755)
	if err := os.WriteFile(path, []byte(sentinel+" "+what), 0o644); err != nil {
		panic(pbt.HarnessError{Msg: "plant sentinel: " + err.Error()})
	}
}

func runRead(c ReadCase) *pbt.Violation {
	l3mu.Lock()
	defer l3mu.Unlock()
	var jail, deep string
	x := newL3(inproc.Config{HlsFragmentMs: 1000}, func(lc *logic.Config) { jail, deep = deepRoots(lc) })
	defer x.Close()
	root := filepath.Clean(x.Cfg.HlsConfig.OutPath)
	lay := hlsfs.New(jail, nil, nil)
	restore := hlsfs.Install(lay)
	defer restore()
	_ = os.MkdirAll(root, 0o755)
	// files an escaping request could hit
	for _, p := range []string{"playlist.m3u8", "record.m3u8", "..-1-2.ts", ".-1-2.ts", "...-1-2.ts", "secret/playlist.m3u8", "secret/record.m3u8", "secret/secret-1-2.ts",
		"flv/playlist.m3u8", "ts/playlist.m3u8", "..--.ts", "..---.ts", "-.ts", "--.ts", "hls.m3u8", "hls-1-2.ts"} {
		plant(filepath.Join(deep, p), p)
	}
	plant(filepath.Join(filepath.Dir(deep), "playlist.m3u8"), "two levels up")
	plant(filepath.Join(filepath.Dir(deep), "..-1-2.ts"), "two levels up")

	feeder := lalclient.NewPublisher(x.Server, "live", "cam", 0)
	if feeder.Err != nil {
		return inconclusive("read-feeder")
	}
	publishHls(feeder, 4, 1)
	camDir := filepath.Join(root, "cam")
	if !waitFile(filepath.Join(camDir, "playlist.m3u8")) {
		return inconclusive("read-playlist-not-written")
	}
	seg := "cam-1-0.ts"
	if ents, err := os.ReadDir(camDir); err == nil {
		var segs []string
		for _, e := range ents {
			if strings.HasSuffix(e.Name(), ".ts") {
				segs = append(segs, e.Name())
			}
		}
		sort.Strings(segs)
		if len(segs) > 0 {
			seg = segs[0]
		}
	}
	seen := 0
	lay.With(func(s *hlsfs.State) { seen = s.NumOps() })
	for i, raw := range c.Targets {
		target := strings.ReplaceAll(raw, "{seg}", seg)
		r, err := rawGet(x.HlsAddr, "", target)
		// what did the handler read for this request?
		var outside []string
		reads := 0
		lay.With(func(s *hlsfs.State) {
			ops := s.Ops()
			for _, op := range ops[seen:] {
				if op.Kind != hlsfs.OpReadFile {
					continue
				}
				reads++
				if !under(root, op.Path) {
					outside = append(outside, op.Path)
				}
			}
			seen = len(ops)
		})
		pbt.Count("c14_hls_handler_reads", reads)
		if err == nil && bytes.Contains(r.Body, []byte(sentinel)) {
			return pbt.V("confine-read/file-outside-root-returned", "request %d GET %s was answered %d with the content of a file outside the hls root %s: %q (files read: %v)", i, target, r.Status, root, string(r.Body), outside)
		}
		if len(outside) > 0 {
			return pbt.V("confine-read/read-outside-root", "request %d GET %s made the hls handler read %v, outside its root %s", i, target, outside, root)
		}
		if err == nil && r.Status == 200 && hlsContent(r.Body) {
			pbt.Count("c14_hls_requests_served", 1)
		}
	}
	return x.PanicViolation()
}

func classifyRead(c ReadCase) (bool, []string) {
	set := map[string]bool{}
	nt := false
	for _, t := range c.Targets {
		lt := strings.ToLower(t)
		if strings.Contains(lt, "..") || strings.Contains(lt, "%2e") {
			nt = true
		}
		switch {
		case strings.Contains(lt, "%2f"):
			set["path:encoded-slash"] = true
		case strings.Contains(lt, "%2e"):
			set["path:encoded-dot"] = true
		case strings.Contains(lt, "/../") || strings.HasSuffix(lt, "/.."):
			set["path:literal-dotdot-segment"] = true
		case strings.Contains(lt, ".."):
			set["path:dotdot-in-file-name"] = true
		default:
			set["path:plain"] = true
		}
		if strings.Contains(lt, "-") && strings.Contains(lt, ".ts") {
			set["file:dash-laden-ts"] = true
		}
		if strings.Contains(lt, "playlist.m3u8") || strings.Contains(lt, "record.m3u8") {
			set["file:playlist-at-depth-"+fmt.Sprint(strings.Count(strings.SplitN(t, "?", 2)[0], "/")-1)] = true
		}
		if strings.Contains(t, "{seg}") {
			set["file:real-segment"] = true
		}
	}
	var labels []string
	for k := range set {
		labels = append(labels, k)
	}
	sort.Strings(labels)
	return nt, labels
}

func TestConfineRead(t *testing.T) {
	pbt.Run(t, pbt.Spec[ReadCase]{
		ID: "C14", Name: "confine-read", Gen: genRead, Run: runRead, Classify: classifyRead,
		Quick: 200, Thorough: 900,
	})
}

// ---- confine-write -------------------------------------------------------------------

type WriteCase struct {
	Name  string `json:"name"`  // the stream name the client publishes
	Proto string `json:"proto"` // rtmp | rtsp | rtp-pub (GB28181 start_rtp_pub) | customize (AddCustomizePubSession)
	Hls   bool   `json:"hls"`
	Flv   bool   `json:"flv"`
	Ts    bool   `json:"ts"`
	Gops  int    `json:"gops"`
}

var writeSpecial = []string{"..", "../hls", "../flv", "../ts", "../../x", "a/../../b", "/../x", "/abs/x", "....//x", `..\x`, "a/b", ".", "x", "../x", "../../../../../../x", "x/..", "a/../..",
	"../d14/hls/../../x", "./../x", "..//..//x", "hls/../../x"}

func genWrite(t *rapid.T) WriteCase {
	c := WriteCase{Proto: "rtmp", Gops: rapid.IntRange(2, 4).Draw(t, "gops")}
	ingest := rapid.IntRange(0, 9).Draw(t, "ingest")
	if ingest == 0 || ingest == 1 {
		c.Proto = "rtsp"
		c.Name = rapid.SampledFrom([]string{"..", "..", "%2e%2e", ".", "x", "%2e%2e%2fx"}).Draw(t, "rtspName")
		ingest = -1
	}
	// the stream name of the HTTP API (GB28181 start_rtp_pub) and of the customize pub API is any string, like RTMP's
	switch ingest {
	case 2, 3:
		c.Proto = "rtp-pub"
	case 4:
		c.Proto = "customize"
	}
	if ingest < 0 {
	} else if rapid.IntRange(0, 2).Draw(t, "special") == 0 {
		c.Name = rapid.SampledFrom(writeSpecial).Draw(t, "name")
	} else {
		// built name: optional leading '/', 1..6 segments with at most 6 "..", then a last segment
		n := rapid.IntRange(1, 6).Draw(t, "nseg")
		var segs []string
		ups := 0
		for i := 0; i < n; i++ {
			sg := rapid.SampledFrom([]string{"..", "..", "..", "a", "b", ".", "hls", "d14"}).Draw(t, "seg")
			if sg == ".." {
				if ups == 6 {
					sg = "a"
				} else {
					ups++
				}
			}
			segs = append(segs, sg)
		}
		last := rapid.SampledFrom([]string{"x", "x", "cam", "hls", "flv", "ts", ".", ".."}).Draw(t, "last")
		if last == ".." && ups == 6 {
			last = "x"
		}
		segs = append(segs, last)
		c.Name = strings.Join(segs, "/")
		if rapid.IntRange(0, 4).Draw(t, "abs") == 0 {
			c.Name = "/" + c.Name
		}
	}
	switch rapid.IntRange(0, 5).Draw(t, "outputs") {
	case 0:
		c.Hls = true
	case 1:
		c.Flv = true
	case 2:
		c.Ts = true
	default:
		c.Hls, c.Flv, c.Ts = true, true, true
	}
	return c
}

func dotdots(name string) int {
	n := 0
	for _, e := range strings.FieldsFunc(name, func(r rune) bool { return r == '/' }) {
		if e == ".." {
			n++
		}
	}
	return n
}

func runWrite(c WriteCase) *pbt.Violation {
	if dotdots(c.Name) > 6 {
		panic(pbt.HarnessError{Msg: "more than 6 '..' in the stream name: would leave the jail"})
	}
	var jail string
	s := inproc.New(inproc.Config{Hls: c.Hls, HlsFragmentMs: 1000, RecordFlv: c.Flv, RecordTs: c.Ts, Mod: func(lc *logic.Config) { jail, _ = deepRoots(lc) }})
	defer s.Close()
	roots := map[string]string{"hls": filepath.Clean(s.Cfg.HlsConfig.OutPath), "flv": filepath.Clean(s.Cfg.RecordConfig.FlvOutPath), "ts": filepath.Clean(s.Cfg.RecordConfig.MpegtsOutPath)}
	for _, r := range roots {
		_ = os.MkdirAll(r, 0o755)
	}
	lay := hlsfs.New(jail, nil, nil)
	restore := hlsfs.Install(lay)
	defer restore()

	switch c.Proto {
	case "rtmp":
		p := lalclient.NewPublisher(s, "live", c.Name, 0)
		if p.Err != nil || p.Conn.PeerGone() {
			// lal may refuse the name: nothing can be written then
			pbt.Count("c14_write_publish_refused", 1)
		} else {
			publishHls(p, c.Gops, 1)
		}
		p.Close()
		p.Conn.WaitPeerDone(lalclient.IdleTimeout)
	case "rtsp":
		conn := s.RtspConn()
		_ = conn.SetReadDeadline(time.Now().Add(lalclient.DeliverTimeout))
		rc := rtspref.NewClient(conn)
		_, sps, pps := gen.ParamSets("avc", 0)
		tracks := []rtspref.Track{{Media: "video", PT: 96, Encoding: "H264", ClockRate: 90000, Fmtp: rtspref.H264Fmtp(sps, pps), Control: "streamid=0"}}
		if _, err := rc.Publish("rtsp://127.0.0.1:5544/live/"+c.Name, tracks); err != nil {
			pbt.Count("c14_write_publish_refused", 1)
		} else {
			seq := uint16(0)
			for g := 0; g < c.Gops+1; g++ {
				for f := 0; f < 3; f++ {
					hdr := byte(0x41)
					if f == 0 {
						hdr = 0x65
					}
					nal := gen.NalSpec{Hdr: []byte{hdr}, Len: 60, Seed: uint32(g*10 + f), Serial: uint32(g*10 + f)}.Bytes()
					pl, _ := rtpref.H264Single(nal)
					pk := &rtpref.Packet{PT: 96, Seq: seq, TS: uint32(g*1100+f*40) * 90, SSRC: 7, Marker: true, Payload: pl}
					seq++
					if err := rc.WriteFrame(0, pk.Marshal()); err != nil {
						break
					}
				}
			}
			conn.WaitPeerIdle(lalclient.IdleTimeout)
		}
		_ = conn.Close()
		conn.WaitPeerDone(lalclient.IdleTimeout)
	case "rtp-pub":
		// GB28181: the stream name of /api/ctrl/start_rtp_pub; lal opens the outputs when the session is created
		var resp base.ApiCtrlStartRtpPubResp
		s.Call("CtrlStartRtpPub", func() {
			resp = s.SM.CtrlStartRtpPub(base.ApiCtrlStartRtpPubReq{StreamName: c.Name, Port: 0, TimeoutMs: 60000, IsTcpFlag: c.Gops % 2})
		})
		if resp.ErrorCode != base.ErrorCodeSucc {
			pbt.Count("c14_write_publish_refused", 1)
			break
		}
		var kr base.ApiCtrlKickSessionResp
		s.Call("CtrlKickSession", func() {
			kr = s.SM.CtrlKickSession(base.ApiCtrlKickSessionReq{StreamName: c.Name, SessionId: resp.Data.SessionId})
		})
		// (not judged here - the kick sub-property does that; Close disposes whatever is left)
		deadline := time.Now().Add(3 * time.Second)
		for kr.ErrorCode == base.ErrorCodeSucc && pubID(s, c.Name) != "" && time.Now().Before(deadline) {
			time.Sleep(2 * time.Millisecond)
		}
	case "customize":
		var ctx logic.ICustomizePubSessionContext
		var cerr error
		s.Call("AddCustomizePubSession", func() { ctx, cerr = s.SM.AddCustomizePubSession(c.Name) })
		if cerr != nil || ctx == nil {
			pbt.Count("c14_write_publish_refused", 1)
			break
		}
		feed := func(items []gen.Item) {
			for _, it := range items {
				pl := it.Payload(codecs)
				csid := 4
				if it.TypeID() == gen.TypeVideo {
					csid = 6
				}
				s.Call("FeedRtmpMsg", func() {
					_ = ctx.FeedRtmpMsg(base.RtmpMsg{Header: base.RtmpHeader{Csid: csid, MsgLen: uint32(len(pl)), MsgTypeId: it.TypeID(), MsgStreamId: 1, TimestampAbs: it.Ts}, Payload: pl})
				})
			}
		}
		feed(headerItems())
		for i := 0; i < c.Gops; i++ {
			ts := uint32(i) * 1100
			if i > 0 {
				feed([]gen.Item{{Kind: "audio", Ts: ts - 15, ALen: 24, ASeed: uint32(i)*8 + 7}})
			}
			feed(gopItems(ts, uint32(i)+1))
		}
		s.Call("DelCustomizePubSession", func() { s.SM.DelCustomizePubSession(ctx) })
	default:
		panic(pbt.HarnessError{Msg: "bad proto " + c.Proto})
	}

	// 1. what the HLS muxer asked its file-system layer to create / write
	var bad []string
	nops := 0
	lay.With(func(st *hlsfs.State) {
		for _, op := range st.Ops() {
			switch op.Kind {
			case hlsfs.OpMkdir, hlsfs.OpCreate, hlsfs.OpWrite, hlsfs.OpWriteFile, hlsfs.OpWriteFileTrunc, hlsfs.OpRename:
			default:
				continue
			}
			nops++
			for _, p := range []string{op.Path, op.NewPath} {
				if p != "" && !under(roots["hls"], p) && len(bad) < 6 {
					bad = append(bad, op.Kind+" "+p)
				}
			}
		}
	})
	pbt.Count("c14_hls_write_ops_checked", nops)
	if len(bad) > 0 {
		return pbt.V("confine-write/hls-outside-root", "publishing stream name %q (%s) made the hls muxer create / write outside its out path %s: %v", c.Name, c.Proto, roots["hls"], bad)
	}
	// 2. what is on disk: everything in the jail is a configured root, one of its ancestors, or below a root
	var strays []string
	files := 0
	_ = filepath.Walk(jail, func(p string, info os.FileInfo, err error) error {
		if err != nil {
			return nil
		}
		for _, r := range roots {
			if under(r, p) {
				if !info.IsDir() {
					files++
				}
				return nil
			}
			if under(p, r) {
				return nil // an ancestor of a root (d1 .. d14, the jail itself)
			}
		}
		strays = append(strays, p)
		if info.IsDir() {
			return filepath.SkipDir
		}
		return nil
	})
	pbt.Count("c14_files_inside_roots", files)
	if len(strays) > 0 {
		kind := "file"
		switch {
		case strings.HasSuffix(strays[0], ".flv"):
			kind = "flv-record"
		case strings.HasSuffix(strays[0], ".ts") || strings.HasSuffix(strays[0], ".m3u8"):
			kind = "ts-or-playlist"
		}
		return pbt.V("confine-write/"+kind+"-outside-configured-dirs", "publishing stream name %q (%s; hls=%v flv=%v ts=%v) left %v outside the configured directories %v", c.Name, c.Proto, c.Hls, c.Flv, c.Ts, strays, roots)
	}
	return s.PanicViolation()
}

func classifyWrite(c WriteCase) (bool, []string) {
	n := dotdots(c.Name)
	cls := "plain"
	switch {
	case n > 0 && strings.HasPrefix(c.Name, "/"):
		cls = "absolute-looking+dotdot"
	case n > 0 && !strings.HasPrefix(c.Name, ".."):
		cls = "dotdot-after-prefix"
	case n > 0:
		cls = "leading-dotdot"
	case strings.HasPrefix(c.Name, "/"):
		cls = "absolute-looking"
	case strings.Contains(c.Name, "/"):
		cls = "nested"
	case strings.Contains(c.Name, "%2e"):
		cls = "encoded-dot"
	}
	out := ""
	if c.Hls {
		out += "hls"
	}
	if c.Flv {
		out += "+flv"
	}
	if c.Ts {
		out += "+ts"
	}
	return n > 0, []string{"name:" + cls, fmt.Sprintf("levels-up:%d", n), "proto:" + c.Proto, "outputs:" + strings.TrimPrefix(out, "+")}
}

func TestConfineWrite(t *testing.T) {
	pbt.Run(t, pbt.Spec[WriteCase]{
		ID: "C14", Name: "confine-write", Gen: genWrite, Run: runWrite, Classify: classifyWrite,
		Quick: 300, Thorough: 1500,
	})
}
