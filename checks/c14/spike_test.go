package c14

import (
	"fmt"
	"os"
	"path/filepath"
	"testing"

	"github.com/q191201771/lal/pkg/base"
	"github.com/q191201771/lal/pkg/logic"

	"verif/harness/hlsfs"
	"verif/harness/inproc"
	"verif/harness/lalclient"
)

func TestSpike(t *testing.T) {
	if os.Getenv("C14_SPIKE") == "" {
		t.Skip()
	}
	var jail string
	x := newL3(inproc.Config{HlsFragmentMs: 1000, RecordFlv: true, RecordTs: true, SimpleAuth: logic.SimpleAuthConfig{Key: "k", HlsM3u8Enable: true}}, func(c *logic.Config) {
		jail = filepath.Dir(filepath.Clean(c.HlsConfig.OutPath))
		deep := filepath.Join(jail, "d1/d2/d3/d4/d5/d6/d7/d8")
		c.HlsConfig.OutPath = filepath.Join(deep, "hls") + "/"
		c.RecordConfig.FlvOutPath = filepath.Join(deep, "flv") + "/"
		c.RecordConfig.MpegtsOutPath = filepath.Join(deep, "ts") + "/"
	})
	defer x.Close()
	lay := hlsfs.New(jail, nil, nil)
	restore := hlsfs.Install(lay)
	defer restore()
	hlsRoot := x.Cfg.HlsConfig.OutPath
	_ = os.MkdirAll(hlsRoot, 0o755)
	_ = os.WriteFile(filepath.Join(hlsRoot, "..", "playlist.m3u8"), []byte("SENTINEL"), 0o644)

	p := lalclient.NewPublisher(x.Server, "live", "spk", 0)
	publishHls(p, 4, 100)
	fmt.Println("playlist exists:", waitFile(filepath.Join(hlsRoot, "spk", "playlist.m3u8")))
	for _, tg := range []string{"/hls/spk.m3u8", "/hls/spk.m3u8?lal_secret=" + refSecret("k", "spk"), "/hls/spk/playlist.m3u8?lal_secret=" + refSecret("k", "spk"),
		"/hls/%2e%2e/playlist.m3u8?lal_secret=" + refSecret("k", ".."), "/hls/...m3u8?lal_secret=" + refSecret("k", ".."), "/hls/../playlist.m3u8?lal_secret=" + refSecret("k", ".."),
		"/hls/..-1-2.ts"} {
		r, err := rawGet(x.HlsAddr, "", tg)
		if err != nil {
			fmt.Println(tg, "ERR", err)
			continue
		}
		fmt.Printf("%s -> %d %q\n", tg, r.Status, string(r.Body[:min(len(r.Body), 60)]))
	}
	x.SM.CtrlAddIpBlacklist(base.ApiCtrlAddIpBlacklistReq{Ip: "127.0.0.2", DurationSec: 60})
	for _, ip := range []string{"127.0.0.2", "127.0.0.3"} {
		r, err := rawGet(x.HlsAddr, ip, "/hls/spk.m3u8?lal_secret="+refSecret("k", "spk"))
		fmt.Println(ip, err, r != nil && looksLikePlaylist(r.Body), r)
	}
	p2 := lalclient.NewPublisher(x.Server, "live", "../../esc", 0)
	publishHls(p2, 3, 200)
	p2.Close()
	p2.Conn.WaitPeerDone(lalclient.IdleTimeout)
	lay.With(func(s *hlsfs.State) {
		for _, op := range s.Ops() {
			if !under(hlsRoot, op.Path) {
				fmt.Println("ESCAPE", op.Kind, op.Path)
			}
		}
	})
	_ = filepath.Walk(jail, func(path string, info os.FileInfo, err error) error {
		if err == nil && !info.IsDir() {
			fmt.Println("FILE", path)
		}
		return nil
	})
}
